(* C18 - aliasing signatures and write sets of the public operations, read off the code, on top of C18_Store.v.

   For an operator tree the functions below say whether the array a call returns MUST / MAY / can NOT share memory
   with the operand or with the operator's own array parameters:
     Identity._matmat returns its argument (operators.py:133-134); Product._matmat chains the factors (:163-166);
     Kronecker._matmat reshapes/moves axes of the operand - views when numpy can avoid a copy (:227-234);
     Transpose._matmat goes through the child's _rmatmat and back (:379-383); the default _rmatmat
     (operator_base.py:62-70) and Adjoint conjugate, which allocates; everything else allocates its result.
     Dense.to_dense returns self.A (:36-37); Kronecker.to_dense of a single factor returns that factor's dense (:236-238);
     diag(Dense) is numpy's diagonal view, diag(Diagonal) returns self.diag (diag_trace.py).
   Every in-place write of the library (update_array, +=, -=, /=) hits a buffer allocated inside the same call or the
   result of a product with such a buffer; the one exception is Identity.to, which assigns self.device. *)
From Coq Require Import List Bool Arith Lia String.
From Core Require Import C18_Store.
Import ListNotations.

Inductive tri := No | May | Must.
Definition tri_and (a b : tri) : tri :=
  match a, b with No, _ | _, No => No | Must, Must => Must | _, _ => May end.
Definition weaken (a : tri) : tri := match a with No => No | _ => May end.

(* operator kinds, structure only *)
Inductive ktree :=
| KIdent | KDense | KTri | KDiag | KOther                 (* KOther: Scal, Perm, Tridiag, House, Sparse, Gen, ... *)
| KProd (ms : list ktree) | KKron (ms : list ktree)
| KSum (ms : list ktree) | KBDiag (ms : list ktree) | KKronSum (ms : list ktree) | KConcat (ms : list ktree)
| KTransp (a : ktree) | KAdj (a : ktree) | KSliced (a : ktree).

(* (may A @ X share memory with X, may X @ A share memory with X) *)
Fixpoint alias_pair (t : ktree) : tri * tri :=
  match t with
  | KIdent => (Must, No)
  | KProd ms => ((fix go (l : list ktree) : tri := match l with [] => Must | x :: r => tri_and (fst (alias_pair x)) (go r) end) ms,
                 (fix go (l : list ktree) : tri := match l with [] => Must | x :: r => tri_and (snd (alias_pair x)) (go r) end) ms)
  | KKron ms => (weaken ((fix go (l : list ktree) : tri := match l with [] => Must | x :: r => tri_and (fst (alias_pair x)) (go r) end) ms), No)
  | KTransp a => (snd (alias_pair a), fst (alias_pair a))
  | _ => (No, No)
  end.
Definition alias_mm (t : ktree) : tri := fst (alias_pair t).
Definition alias_rmm (t : ktree) : tri := snd (alias_pair t).

(* may A.to_dense() share memory with A's own array parameters *)
Fixpoint alias_dense (t : ktree) : tri :=
  match t with
  | KDense | KTri => Must
  | KKron [a] => alias_dense a
  | _ => No
  end.
(* may diag(A, 0) share memory with A's parameters *)
Fixpoint alias_diag (t : ktree) : tri :=
  match t with
  | KDense | KTri | KDiag => Must
  | KKron [a] => alias_diag a
  | _ => No
  end.

(* observed (shares memory?) against the prediction *)
Definition agrees (p : tri) (observed : bool) : bool :=
  match p with No => negb observed | May => true | Must => observed end.

(* ---------------- the operation alphabet and its signatures over the store ---------------- *)
(* argument 0 = the operator (its parameter buffers and its attribute cell), argument 1 = the array operand if any *)
Inductive opname :=
| OMatmat (a : tri) | ORmatmat (a : tri) | OToDense (a : tri) | ODiag (a : tri)
| OTranspose | OAdjoint | OAlgebra           (* A+B, A-B, c*A, A@B, kron, ... : a new operator holding its operands *)
| OAnnotate | OToNone | OFlatten | OUnflatten | OGetitem
| OTrace | OSolve | OEig | OCG | OLanczos | OArnoldi | OHutch | OUnary
| OIdentityTo.                                (* Identity.to(device): self.device = device; return self *)

Definition sig_of (o : opname) : opsig :=
  let fresh_res := {| n_alloc := 1; wr := [Fresh 0]; rs := [Fresh 0] |} in
  let alias_or_fresh (a : tri) (i : nat) :=
      match a with No => fresh_res | _ => {| n_alloc := 1; wr := [Fresh 0]; rs := [Fresh 0; Arg i] |} end in
  match o with
  | OMatmat a | ORmatmat a => alias_or_fresh a 1
  | OToDense a | ODiag a => alias_or_fresh a 0
  | OTranspose | OAdjoint | OAnnotate | OToNone | OFlatten | OUnflatten | OGetitem =>
      {| n_alloc := 1; wr := [Fresh 0]; rs := [Fresh 0; Arg 0] |}           (* a new object sharing the arrays *)
  | OAlgebra => {| n_alloc := 1; wr := [Fresh 0]; rs := [Fresh 0; Arg 0; Arg 1] |}
  | OTrace | OSolve | OEig | OHutch | OUnary => fresh_res
  (* Krylov loops: buffers V/Q, H, x, r, p allocated here; in-place updates hit those buffers or products with them *)
  | OCG | OLanczos | OArnoldi => {| n_alloc := 4; wr := [Fresh 0; Fresh 1; Fresh 2; Fresh 3]; rs := [Fresh 0; Fresh 1] |}
  | OIdentityTo => {| n_alloc := 0; wr := [Arg 0]; rs := [Arg 0] |}
  end.

Definition pure_op (o : opname) : bool := match o with OIdentityTo => false | _ => true end.
Lemma pure_writes_fresh o : pure_op o = true -> forall s, In s (wr (sig_of o)) -> exists i, s = Fresh i.
Proof. destruct o as [a|a|a|a| | | | | | | | | | | | | | | | |]; cbn; intros H s Hs; try discriminate;
  try destruct a; cbn in Hs; repeat (destruct Hs as [<-|Hs]; [eexists; reflexivity|]); destruct Hs. Qed.

Section Programs.
Variable D : Type.
Record call := { c_op : opname; c_args : list ref; c_adata : nat -> D; c_wdata : nat -> D }.
Definition to_pstep (c : call) : pstep D := {| psg := sig_of (c_op c); pargs := c_args c; padata := c_adata c; pwdata := c_wdata c |}.

Lemma pure_step_ok env c : pure_op (c_op c) = true -> step_ok D env (to_pstep c) = true.
Proof. intros Hp. unfold step_ok. apply andb_true_iff. split.
  - apply negb_true_iff. destruct (existsb _ _) eqn:E; [|reflexivity].
    apply existsb_exists in E. destruct E as (s & Hs & Ht). cbn [to_pstep psg] in Hs.
    destruct (pure_writes_fresh _ Hp s Hs) as [i ->]. cbn in Ht. discriminate.
  - cbn [to_pstep psg]. destruct (c_op c) as [a|a|a|a| | | | | | | | | | | | | | | | |]; try destruct a; reflexivity. Qed.

Lemma pure_ok_static : forall (cs : list call) env, forallb (fun c => pure_op (c_op c)) cs = true ->
  ok_static D (map to_pstep cs) env = true.
Proof. induction cs as [|c r IH]; intros env H; cbn [map ok_static]; [reflexivity|].
  cbn [forallb] in H. apply andb_true_iff in H. destruct H as [H1 H2].
  rewrite (pure_step_ok env c H1). cbn [andb]. apply IH. exact H2. Qed.

(* every program over the alphabet (operands: caller-owned objects or earlier results, in any combination) that does not
   call Identity.to leaves every caller-owned buffer and attribute cell exactly as it was *)
Theorem alphabet_no_caller_write : forall (cs : list call) (st : store D) (j : nat) (c : cell D),
  forallb (fun c => pure_op (c_op c)) cs = true ->
  nth_error st j = Some c -> caller_owned D c = true ->
  nth_error (prun D (map to_pstep cs) [] st) j = Some c.
Proof. intros cs st j c Hp Hj Hc. apply no_caller_write_static; auto. apply pure_ok_static. exact Hp. Qed.
End Programs.

(* Identity.to on a caller-owned operator: rejected by the analysis, and it does change the caller's cell *)
Example identity_to_rejected : ok_static nat [to_pstep nat {| c_op := OIdentityTo; c_args := [RCaller [0]]; c_adata := fun _ => 0; c_wdata := fun _ => 1 |}] [] = false.
Proof. reflexivity. Qed.
Theorem identity_to_mutates_self_refuted :
  exists (cs : list (call nat)) (st : store nat) (j : nat) (c : cell nat),
    nth_error st j = Some c /\ caller_owned nat c = true /\ nth_error (prun nat (map (to_pstep nat) cs) [] st) j <> Some c.
Proof. exists [{| c_op := OIdentityTo; c_args := [RCaller [0]]; c_adata := fun _ => 0; c_wdata := fun _ => 1 |}],
              [mkcell nat true 0], 0, (mkcell nat true 0).
  split; [reflexivity|]. split; [reflexivity|]. vm_compute. discriminate. Qed.

(* ---------------- in-place accumulation inside a product ----------------
   Sum._matmat, KronSum._matmat (operators.py), the running sums of exact_diag / Hutchinson: `acc = <start>; acc += term`.
   The accumulator is either a buffer allocated by the call (KronSum: `out = 0 * ev`; Python's sum(): `0 + first`)
   or - the variant this section rules out - the FIRST term itself. A term is the product of a child with (a view of)
   the operand, so by the aliasing signature of that child (alias_mm: Identity returns its argument, Product / Kronecker
   of such children may) the first term may BE the caller's operand, and `+=` then writes caller-owned memory. *)
Inductive acc_start := AccFresh | AccFirstTerm.
(* write set of the accumulation in `A @ X` for a sum-like node with children ms (argument 1 = the operand X) *)
Definition accumulate_writes (start : acc_start) (ms : list ktree) : list src :=
  match start, ms with
  | AccFresh, _ => [Fresh 0]
  | AccFirstTerm, [] => [Fresh 0]
  | AccFirstTerm, first :: _ => match alias_mm first with No => [Fresh 0] | _ => [Fresh 0; Arg 1] end
  end.
Definition sig_accumulate (start : acc_start) (ms : list ktree) : opsig :=
  {| n_alloc := 1; wr := accumulate_writes start ms;
     rs := match start, ms with
           | AccFirstTerm, first :: _ => match alias_mm first with No => [Fresh 0] | _ => [Fresh 0; Arg 1] end
           | _, _ => [Fresh 0] end |}.

(* with a fresh accumulator (the code as it stands) the product of any sum-like node with a caller-owned operand is
   accepted by the taint analysis, whatever the children are *)
Lemma accumulate_fresh_ok : forall (D : Type) (ms : list ktree) (env : list bool) (args : list ref) (ad wd : nat -> D),
  step_ok D env {| psg := sig_accumulate AccFresh ms; pargs := args; padata := ad; pwdata := wd |} = true.
Proof. intros. reflexivity. Qed.

(* accumulating into the first term is rejected as soon as the first child may return its argument and the operand is
   the caller's: KronSum(Identity, B) @ x, Sum(Identity, B) @ x, ... *)
Lemma accumulate_first_term_rejected : forall (D : Type) (first : ktree) (rest : list ktree) (A x : handle) (ad wd : nat -> D),
  alias_mm first <> No ->
  step_ok D [] {| psg := sig_accumulate AccFirstTerm (first :: rest); pargs := [RCaller A; RCaller x]; padata := ad; pwdata := wd |} = false.
Proof. intros D first rest A x ad wd H. unfold step_ok. cbn [psg pargs sig_accumulate wr accumulate_writes].
  destruct (alias_mm first); [congruence| |]; reflexivity. Qed.

(* and the rejection is not an artefact of the analysis: executing that step does change the caller's operand *)
Theorem accumulate_first_term_writes_caller :
  exists (st : store nat) (p : pstep nat) (j : nat) (c : cell nat),
    psg nat p = sig_accumulate AccFirstTerm [KIdent; KDense] /\
    nth_error st j = Some c /\ caller_owned nat c = true /\ nth_error (prun nat [p] [] st) j <> Some c.
Proof. exists [mkcell nat true 10; mkcell nat true 20],
              {| psg := sig_accumulate AccFirstTerm [KIdent; KDense]; pargs := [RCaller [0]; RCaller [1]]; padata := fun _ => 0; pwdata := fun _ => 99 |},
              1, (mkcell nat true 20).
  split; [reflexivity|]. split; [reflexivity|]. split; [reflexivity|]. vm_compute. discriminate. Qed.
