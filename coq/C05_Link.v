(* Link between C05 and C02: whenever the (repaired) inference reports an operator self-adjoint (SelfAdjoint or PSD,
   i.e. A.isa(SelfAdjoint)) and the declarations are true, the represented matrix is Hermitian - the hypothesis of
   the adjoint shortcut of C02 (and, for real payloads, of the transpose shortcut). *)
From Coq Require Import Arith Lia List PeanoNat Bool.
From Core Require Import Base Kron Op OpProofs Algebra AlgebraProofs C05_Annot C05_Sem C05_Sem2 C05_Sound.
Section Link.
Context {R : Type} {RR : Ring R} {CR : CRing R}.
Variable nonneg : R -> Prop.
Hypothesis nonneg_1 : nonneg r1.
Hypothesis nonneg_mul : forall a b, nonneg a -> nonneg b -> nonneg (rmul a b).
Hypothesis nonneg_real : forall a, nonneg a -> conj a = a.
Theorem isa_selfadjoint_hermitian (x : aop (R:=R)) :
  wf (erase x) = true -> truthful nonneg x -> isa (infer repaired x) SA = true -> hermitian (erase x).
Proof. intros W T H. unfold isa in H. apply orb_prop in H as [H|H].
  - destruct (infer_sound nonneg nonneg_1 nonneg_mul nonneg_real x W T SA H) as [E S]. split; auto.
  - destruct (infer_sound nonneg nonneg_1 nonneg_mul nonneg_real x W T PSD H) as [E S]. split; auto.
    apply (PSD_SA nonneg nonneg_real). exact S. Qed.
(* for real payloads Hermitian is symmetric: the transpose shortcut is sound too *)
Theorem isa_selfadjoint_symmetric (x : aop (R:=R)) :
  wf (erase x) = true -> truthful nonneg x -> isa (infer repaired x) SA = true ->
  (forall i j, conj (den (erase x) i j) = den (erase x) i j) -> symmetric (erase x).
Proof. intros W T H Hr. destruct (isa_selfadjoint_hermitian x W T H) as [E S]. split; auto.
  intros i j Hi Hj. rewrite (S i j Hi Hj). apply Hr. Qed.
End Link.
