(* C14 - closed theorems about the Lanczos model, in matrix form (spec: T is the dense matrix of
   Tridiagonal(off, diag, off); Q the list of returned columns; weak vector equality). *)
From Coq Require Import List Arith Bool Lia Ring Field.
From Core Require Import C14_Model C14_Proofs.
Import ListNotations.

Section Thms.
Context {C V : Type} (o : kops C V) (A : V -> V) (nonneg : C -> Prop) (L : klaws o A nonneg).
Declare Scope K_scope.
Local Notation "0" := (o.(c0)) : K_scope. Local Notation "1" := (o.(c1)) : K_scope.
Local Notation "x + y" := (o.(cadd) x y) : K_scope. Local Notation "x * y" := (o.(cmul) x y) : K_scope.
Local Notation "x - y" := (o.(csub) x y) : K_scope. Local Notation "x / y" := (o.(cdiv) x y) : K_scope.
Local Notation "- x" := (o.(copp) x) : K_scope.
Local Open Scope K_scope.
Local Notation dot := (o.(vdot)). Local Notation nrm := (o.(vnrm)). Local Notation conj := (o.(cconj)).
Add Field KF2 : (k_field _ _ _ L).

Lemma csum_ext n f g : (forall a, (a < n)%nat -> f a = g a) -> csum o n f = csum o n g.
Proof. induction n; simpl; intros H; [reflexivity|]. rewrite IHn, H by (intros; try apply H; lia). reflexivity. Qed.
Lemma csum_zero n : csum o n (fun _ => 0) = 0.
Proof. induction n; simpl; [reflexivity|rewrite IHn; ring]. Qed.
Lemma csum_add n f g : csum o n (fun a => f a + g a) = csum o n f + csum o n g.
Proof. induction n; simpl; [ring|rewrite IHn; ring]. Qed.
Lemma csum_mul_l n c f : csum o n (fun a => c * f a) = c * csum o n f.
Proof. induction n; simpl; [ring|rewrite IHn; ring]. Qed.
Lemma csum_swap m n (f : nat -> nat -> C) : csum o m (fun i => csum o n (fun j => f i j)) = csum o n (fun j => csum o m (fun i => f i j)).
Proof. induction m; simpl; [rewrite csum_zero; reflexivity|]. rewrite IHm, <- csum_add. reflexivity. Qed.
Lemma csum_delta n a f : (a < n)%nat -> csum o n (fun a' => f a' * (if a =? a' then 1 else 0)) = f a.
Proof. induction n; intros H; [lia|]. simpl. destruct (Nat.eq_dec a n) as [->|Hne].
  - rewrite Nat.eqb_refl. rewrite (csum_ext n _ (fun _ => 0)), csum_zero; [ring|].
    intros a' Ha'. destruct (Nat.eqb_spec n a'); [lia|ring].
  - rewrite IHn by lia. destruct (Nat.eqb_spec a n); [lia|ring]. Qed.
Lemma dot_vcomb n c q u : dot u (vcomb o n c q) = csum o n (fun a => c a * dot u (q a)).
Proof. induction n; simpl; [apply (k_dot_zero_r _ _ _ L)|].
  rewrite (k_dot_add_r _ _ _ L), (k_dot_scale_r _ _ _ L), IHn. reflexivity. Qed.

Ltac brk := repeat (match goal with
  | |- context [?x =? ?y] => destruct (Nat.eqb_spec x y)
  | |- context [?x <? ?y] => destruct (Nat.ltb_spec x y) end; try lia); cbn [negb andb].

Lemma Tent_unf (r : @lres C V) a b : Tent o r a b =
  if a =? b then ent o (rdiag r) a else if (S a =? b) then ent o (roff r) a else if (a =? S b) then ent o (roff r) b else 0.
Proof. reflexivity. Qed.
(* a column of the tridiagonal matrix has at most three entries *)
Lemma tri_sum (r : @lres C V) g b : forall k,
  csum o k (fun a => Tent o r a b * g a) =
    (if negb (b =? 0) && (b - 1 <? k) then Tent o r (b - 1) b * g (b - 1)%nat else 0)
    + (if b <? k then Tent o r b b * g b else 0)
    + (if S b <? k then Tent o r (S b) b * g (S b) else 0).
Proof. induction k; cbn [csum].
  - brk; ring.
  - rewrite IHk. rewrite !Tent_unf. brk; subst; try ring.
    all: replace (S k - 1)%nat with k by lia; ring.
Qed.

Lemma Tent_sym (r : @lres C V) a b : Tent o r a b = Tent o r b a.
Proof. unfold Tent. brk; subst; reflexivity. Qed.
Lemma Tent_band (r : @lres C V) a b : (S a < b \/ S b < a)%nat -> Tent o r a b = 0.
Proof. intros H. unfold Tent. brk; reflexivity. Qed.


(* ---------- spans, weakly: a functional phi lies in span(F_0..F_{j-1}) ---------- *)
Definition SpanF (F : nat -> V) (j : nat) (phi : V -> C) : Prop :=
  exists c : nat -> C, forall u, phi u = csum o j (fun t => c t * dot u (F t)).
Definition InSpan (F : nat -> V) (j : nat) (x : V) : Prop := SpanF F j (fun u => dot u x).

Lemma csum_trunc j j' f : (j <= j')%nat -> (forall t, (j <= t < j')%nat -> f t = 0) -> csum o j' f = csum o j f.
Proof. induction j'; intros Hj Hz.
  - assert (j = 0%nat) by lia. subst. reflexivity.
  - destruct (Nat.eq_dec j (S j')) as [->|Hne]; [reflexivity|]. simpl. rewrite IHj'; [|lia|intros; apply Hz; lia].
    rewrite (Hz j') by lia. ring. Qed.
Lemma csum_shift' n f : csum o (S n) f = f 0%nat + csum o n (fun i => f (S i)).
Proof. induction n; [simpl; ring|]. change (csum o (S (S n)) f) with (csum o (S n) f + f (S n)). rewrite IHn. simpl. ring. Qed.
Lemma spanF_ext F j phi psi : (forall u, phi u = psi u) -> SpanF F j psi -> SpanF F j phi.
Proof. intros E (c & Hc). exists c. intros u. rewrite E. apply Hc. Qed.
Lemma spanF_mono F j j' phi : (j <= j')%nat -> SpanF F j phi -> SpanF F j' phi.
Proof. intros Hj (c & Hc). exists (fun t => if t <? j then c t else 0). intros u. rewrite Hc.
  rewrite (csum_trunc j j'); [|lia|intros t Ht; destruct (Nat.ltb_spec t j); [lia|ring]].
  apply csum_ext. intros t Ht. destruct (Nat.ltb_spec t j); [reflexivity|lia]. Qed.
Lemma spanF_lin F j al be phi1 phi2 : SpanF F j phi1 -> SpanF F j phi2 -> SpanF F j (fun u => al * phi1 u + be * phi2 u).
Proof. intros (c1 & H1) (c2 & H2). exists (fun t => al * c1 t + be * c2 t). intros u. rewrite H1, H2.
  rewrite <- !csum_mul_l, <- csum_add. apply csum_ext. intros; ring. Qed.
Lemma spanF_zero F j : SpanF F j (fun _ => 0).
Proof. exists (fun _ => 0). intros u. rewrite (csum_ext j _ (fun _ => 0)) by (intros; ring). symmetry. apply csum_zero. Qed.
Lemma spanF_csum F j m c (phis : nat -> V -> C) : (forall a, (a < m)%nat -> SpanF F j (phis a)) ->
  SpanF F j (fun u => csum o m (fun a => c a * phis a u)).
Proof. induction m; intros H; simpl; [apply spanF_zero|].
  apply (spanF_ext F j _ (fun u => 1 * csum o m (fun a => c a * phis a u) + c m * phis m u)); [intros; ring|].
  apply spanF_lin; [apply IHm; intros; apply H; lia|apply H; lia]. Qed.
Lemma spanF_gen F j t : (t < j)%nat -> SpanF F j (fun u => dot u (F t)).
Proof. intros Ht. exists (fun t' => if t =? t' then 1 else 0). intros u.
  rewrite (csum_ext j _ (fun t' => dot u (F t') * (if t =? t' then 1 else 0))) by (intros; ring).
  symmetry. apply csum_delta. exact Ht. Qed.

(* powers of A and the Krylov sequence *)
Fixpoint Apow (t : nat) (x : V) : V := match t with 0%nat => x | S t' => A (Apow t' x) end.
Lemma krylov_A v j x : SpanF (fun t => Apow t v) j (fun u => dot u x) -> SpanF (fun t => Apow t v) (S j) (fun u => dot u (A x)).
Proof. intros (c & Hc). exists (fun t => match t with 0%nat => 0 | S t' => c t' end). intros u.
  rewrite (k_A_sa _ _ _ L), Hc, csum_shift'.
  rewrite (csum_ext j _ (fun i => c i * dot u (Apow (S i) v))) by (intros; cbn [Apow]; rewrite <- (k_A_sa _ _ _ L); reflexivity).
  ring. Qed.

(* the specification of one returned factorisation r = (Q, off-diagonal, diagonal) for the start vector v;
   T is the dense matrix of Tridiagonal(off, diag, off), w the pending vector (beta_k = ||w||) *)
Definition lres_facts (r : @lres C V) (v : V) (n max_iters : nat) (w : V) : Prop :=
  let k := length (rQ r) in
  let Q := fun a : nat => nth a (rQ r) o.(vzero) in
  let T := Tent o r in
  (1 <= k <= Nat.min max_iters n)%nat /\
  length (rdiag r) = k /\ length (roff r) = (k - 1)%nat /\
  (forall u, dot u (Q 0%nat) = dot u v / nrm v) /\
  (forall a b, (a < k)%nat -> (b < k)%nat -> dot (Q a) (Q b) = if a =? b then 1 else 0) /\
  (forall a, (a < k)%nat -> dot (Q a) w = 0) /\
  (forall b, (b < k)%nat -> forall u,
     dot u (A (Q b)) = csum o k (fun a => T a b * dot u (Q a)) + (if S b =? k then dot u w else 0)) /\
  (forall a b, (a < k)%nat -> (b < k)%nat -> dot (Q a) (A (Q b)) = T a b) /\
  (forall a b, (a < k)%nat -> (b < k)%nat -> conj (T a b) = T a b) /\
  (forall a b, T a b = T b a) /\
  (forall a b, (S a < b \/ S b < a)%nat -> T a b = 0) /\
  (forall a, (S a < k)%nat -> nonneg (T a (S a)) /\ T a (S a) <> 0).
Definition lres_krylov (r : @lres C V) (v : V) : Prop :=
  let k := length (rQ r) in
  let Q := fun a : nat => nth a (rQ r) o.(vzero) in
  (forall a, (a < k)%nat -> InSpan (fun t => Apow t v) (S a) (Q a)) /\
  (forall t, (t < k)%nat -> InSpan Q (S t) (Apow t v)).

Section Run.
Variables (tol : C) (v : V) (n max_iters : nat) (rfix : bool).
Hypothesis tol_nonneg : nonneg tol.
Hypothesis v_nz : nrm v <> 0.
Hypothesis n_pos : (1 <= n)%nat.
Hypothesis mi_pos : (1 <= max_iters)%nat.
Let r := lanczos1 o A false rfix n v max_iters tol.
Let k := length (rQ r).
Let Q (a : nat) : V := nth a (rQ r) o.(vzero).
Let T := Tent o r.

(* everything the property says about one run, in one statement (w = the pending vector V[k+1], beta_k = ||w||) *)
Definition lanczos_facts (w : V) : Prop := lres_facts r v n max_iters w.

Definition facts_explicit (w : V) : Prop :=
    (1 <= k <= Nat.min max_iters n)%nat /\
    length (rdiag r) = k /\ length (roff r) = (k - 1)%nat /\
    (forall u, dot u (Q 0%nat) = dot u v / nrm v) /\
    (forall a b, (a < k)%nat -> (b < k)%nat -> dot (Q a) (Q b) = if a =? b then 1 else 0) /\
    (forall a, (a < k)%nat -> dot (Q a) w = 0) /\
    (forall b, (b < k)%nat -> forall u,
       dot u (A (Q b)) = csum o k (fun a => T a b * dot u (Q a)) + (if S b =? k then dot u w else 0)) /\
    (forall a b, (a < k)%nat -> (b < k)%nat -> dot (Q a) (A (Q b)) = T a b) /\
    (forall a b, (a < k)%nat -> (b < k)%nat -> conj (T a b) = T a b) /\
    (forall a b, T a b = T b a) /\
    (forall a b, (S a < b \/ S b < a)%nat -> T a b = 0) /\
    (forall a, (S a < k)%nat -> nonneg (T a (S a)) /\ T a (S a) <> 0).
Lemma facts_unfold w : lanczos_facts w -> facts_explicit w.
Proof. exact (fun x => x). Qed.

Theorem lanczos_run : exists w, lanczos_facts w.
Proof.
  assert (H : exists w : V,
    (1 <= k <= Nat.min max_iters n)%nat /\ length (rdiag r) = k /\ length (roff r) = (k - 1)%nat /\
    (forall u, dot u (Q 0) = dot u v / nrm v) /\
    (forall a b, (a < k)%nat -> (b < k)%nat -> dot (Q a) (Q b) = if a =? b then 1 else 0) /\
    (forall a, (a < k)%nat -> dot (Q a) w = 0) /\
    (forall b, (b < k)%nat -> forall u,
        dot u (A (Q b)) = ent o (rdiag r) b * dot u (Q b)
          + (if b =? 0 then 0 else ent o (roff r) (b - 1) * dot u (Q (b - 1)%nat))
          + (if S b <? k then ent o (roff r) b * dot u (Q (S b)) else dot u w)) /\
    (forall a, (a < k)%nat -> conj (ent o (rdiag r) a) = ent o (rdiag r) a) /\
    (forall a, (S a < k)%nat -> exists x, ent o (roff r) a = nrm x) /\
    (forall a, (S a < k)%nat -> ent o (roff r) a <> 0))
    by exact (lanczos1_spec o A nonneg L tol tol_nonneg rfix v v_nz n max_iters n_pos mi_pos).
  destruct H as (w & Hk & Hld & Hlo & Hfirst & Hon & Hpo & Hrel & Hdr & Hoff & Hnz).
  assert (Hmat : forall b, (b < k)%nat -> forall u,
     dot u (A (Q b)) = csum o k (fun a => T a b * dot u (Q a)) + (if S b =? k then dot u w else 0)).
  { intros b Hb u. rewrite (Hrel b Hb u). unfold T. rewrite tri_sum.
    destruct (Nat.ltb_spec b k); [|lia].
    assert (Ebb : Tent o r b b = ent o (rdiag r) b) by (unfold Tent; rewrite Nat.eqb_refl; reflexivity).
    assert (Eup : forall a, Tent o r a (S a) = ent o (roff r) a).
    { intros a. unfold Tent. destruct (Nat.eqb_spec a (S a)); [lia|]. rewrite Nat.eqb_refl. reflexivity. }
    rewrite Ebb, (Tent_sym r (S b) b), Eup.
    destruct (Nat.eqb_spec b 0) as [->|Hb0]; cbn [negb andb].
    - destruct (Nat.ltb_spec 1 k), (Nat.eqb_spec 1 k); try lia; ring.
    - destruct (Nat.ltb_spec (b - 1) k); [|lia].
      replace (Tent o r (b - 1) b) with (ent o (roff r) (b - 1)) by (rewrite <- (Eup (b - 1)%nat); f_equal; lia).
      destruct (Nat.ltb_spec (S b) k), (Nat.eqb_spec (S b) k); try lia; ring. }
  assert (Treal : forall a b, (a < k)%nat -> (b < k)%nat -> conj (T a b) = T a b).
  { intros a b Ha Hb. unfold T, Tent.
    destruct (Nat.eqb_spec a b); [apply Hdr; exact Ha|].
    destruct (Nat.eqb_spec (S a) b); [destruct (Hoff a ltac:(lia)) as (x & ->); apply (k_nrm_real _ _ _ L)|].
    destruct (Nat.eqb_spec a (S b)); [destruct (Hoff b ltac:(lia)) as (x & ->); apply (k_nrm_real _ _ _ L)|].
    apply (k_conj_0 _ _ _ L). }
  exists w.
  enough (G : facts_explicit w) by exact G. unfold facts_explicit.
  split; [exact Hk|].
  repeat match goal with |- _ /\ _ => split end; auto.
  - intros a b Ha Hb. rewrite (Hmat b Hb (Q a)).
    rewrite (csum_ext k _ (fun a' => T a' b * (if a =? a' then 1 else 0))) by (intros a' Ha'; rewrite Hon by assumption; reflexivity).
    rewrite csum_delta by exact Ha. rewrite Hpo by exact Ha. destruct (S b =? k); ring.
  - intros a b. apply Tent_sym.
  - intros a b H. apply Tent_band. exact H.
  - intros a Ha. unfold T, Tent. destruct (Nat.eqb_spec a (S a)); [lia|]. rewrite Nat.eqb_refl. split.
    + destruct (Hoff a Ha) as (x & ->). apply (k_nrm_nonneg _ _ _ L).
    + apply Hnz. exact Ha.
Qed.

(* early exit: beta_k = ||w|| = 0  ->  A Q = Q T exactly, i.e. span(Q) is A-invariant *)
Theorem lanczos_invariant_subspace w : lanczos_facts w -> nrm w = 0 ->
  forall b, (b < k)%nat -> forall u, dot u (A (Q b)) = dot u (vcomb o k (fun a => T a b) Q).
Proof. intros F Hw b Hb u. apply facts_unfold in F. unfold facts_explicit in F. destruct F as (_ & _ & _ & _ & _ & _ & Hmat & _).
  rewrite (Hmat b Hb u), dot_vcomb. rewrite (k_nrm_zero _ _ _ L w Hw u). destruct (S b =? k); ring. Qed.

(* Ritz pairs (lanczos_eigs): if (theta, S) is an eigen-decomposition of T (the eigh oracle: T S = S diag(theta)) then
   y_j = Q S[:, j] satisfies  A y_j = theta_j y_j + S[k-1, j] w ;  exact eigenpairs of A when beta_k = 0 *)
Theorem lanczos_ritz w (theta : nat -> C) (Y : nat -> nat -> C) :
  lanczos_facts w ->
  (forall a j, (a < k)%nat -> (j < k)%nat -> csum o k (fun c => T a c * Y c j) = theta j * Y a j) ->
  forall j, (j < k)%nat -> forall u,
    dot u (A (vcomb o k (fun a => Y a j) Q)) = theta j * dot u (vcomb o k (fun a => Y a j) Q) + Y (k - 1)%nat j * dot u w.
Proof. intros F HY j Hj u. apply facts_unfold in F. unfold facts_explicit in F. destruct F as (Hk & _ & _ & _ & _ & _ & Hmat & _).
  rewrite (k_A_sa _ _ _ L), !dot_vcomb.
  rewrite (csum_ext k _ (fun b => csum o k (fun a => (T a b * Y b j) * dot u (Q a)) + (if S b =? k then Y b j * dot u w else 0))).
  2:{ intros b Hb. rewrite <- (k_A_sa _ _ _ L), (Hmat b Hb u).
      rewrite (csum_ext k (fun a => T a b * Y b j * dot u (Q a)) (fun a => Y b j * (T a b * dot u (Q a)))) by (intros; ring).
      rewrite csum_mul_l. destruct (S b =? k); ring. }
  rewrite csum_add, csum_swap.
  rewrite (csum_ext k _ (fun a => theta j * (Y a j * dot u (Q a)))).
  2:{ intros a Ha. rewrite (csum_ext k _ (fun b => dot u (Q a) * (T a b * Y b j))) by (intros; ring).
      rewrite csum_mul_l, HY by assumption. ring. }
  rewrite csum_mul_l. f_equal.
  (* the rank-one term: only b = k-1 contributes *)
  rewrite (csum_ext k _ (fun b => (Y b j * dot u w) * (if (k - 1)%nat =? b then 1 else 0))).
  2:{ intros b Hb. destruct (Nat.eqb_spec (S b) k), (Nat.eqb_spec (k - 1) b); try lia; ring. }
  rewrite csum_delta by lia. reflexivity.
Qed.

(* Krylov span: for every j <= k the first j columns and {v, A v, ..., A^(j-1) v} span the same space:
   each column Q_a lies in K_(a+1), and each A^t v lies in span(Q_0..Q_t) *)
Theorem lanczos_krylov w : lanczos_facts w -> lres_krylov r v.
Proof.
  intros F. enough (G : (forall a, (a < k)%nat -> InSpan (fun t => Apow t v) (S a) (Q a)) /\ (forall t, (t < k)%nat -> InSpan Q (S t) (Apow t v))) by exact G.
  apply facts_unfold in F. unfold facts_explicit in F. destruct F as (Hk & _ & _ & Hfirst & Hon & Hpo & Hmat & _ & _ & Hsym & Hband & Hoff).
  (* interior columns: A Q_b is a combination of Q_0..Q_(b+1) *)
  assert (Hcol : forall b u, (S b < k)%nat -> dot u (A (Q b)) = csum o (S (S b)) (fun a => T a b * dot u (Q a))).
  { intros b u Hb. rewrite (Hmat b ltac:(lia) u). destruct (Nat.eqb_spec (S b) k); [lia|].
    rewrite (csum_trunc (S (S b)) k); [ring|lia|intros t Ht; rewrite Hband by (right; lia); ring]. }
  split.
  - intros a. induction a as [a IH] using lt_wf_ind. intros Ha. unfold InSpan.
    destruct a as [|b].
    + exists (fun _ => 1 / nrm v). intros u. rewrite Hfirst. simpl. cbn [Apow]. field. exact v_nz.
    + destruct (Hoff b Ha) as [_ Hnz]. rewrite (Hsym b (S b)) in Hnz.
      apply (spanF_ext _ _ _ (fun u => (1 / T (S b) b) * dot u (A (Q b)) + (- (1 / T (S b) b)) * csum o (S b) (fun a => T a b * dot u (Q a)))).
      { intros u. rewrite (Hcol b u Ha). change (csum o (S (S b)) (fun a => T a b * dot u (Q a)))
          with (csum o (S b) (fun a => T a b * dot u (Q a)) + T (S b) b * dot u (Q (S b))). field. exact Hnz. }
      apply spanF_lin.
      * apply krylov_A. apply (IH b); lia.
      * apply spanF_csum. intros a Ha'. apply (spanF_mono _ (S a)); [lia|]. apply (IH a); lia.
  - intros t. induction t as [|t IH]; intros Ht; unfold InSpan.
    + exists (fun _ => nrm v). intros u. simpl. rewrite Hfirst. cbn [Apow]. field. exact v_nz.
    + destruct (IH ltac:(lia)) as (c & Hc). cbn [Apow].
      apply (spanF_ext _ _ _ (fun u => csum o (S t) (fun a => c a * dot u (A (Q a))))).
      { intros u. rewrite (k_A_sa _ _ _ L), Hc. apply csum_ext. intros a Ha. rewrite <- (k_A_sa _ _ _ L). reflexivity. }
      apply spanF_csum. intros a Ha.
      apply (spanF_ext _ _ _ (fun u => csum o (S (S a)) (fun a' => T a' a * dot u (Q a')))); [intros u; apply Hcol; lia|].
      apply (spanF_mono _ (S (S a))); [lia|]. exists (fun a' => T a' a). reflexivity.
Qed.

(* lanczos_eigs (model in C14_Model.v) with its two oracles: eigh returns an eigen-decomposition of T, argsort a sorting
   permutation.  Then the returned values are ascending and every returned pair is a Ritz pair:
   A y_j = theta_j y_j + Y[k-1, idx j] w  (an exact eigenpair of A when beta_k = ||w|| = 0) *)
Theorem lanczos_eigs_spec w (cle : C -> C -> Prop)
  (eigh : nat -> (nat -> nat -> C) -> (nat -> C) * (nat -> nat -> C)) (argsort : nat -> (nat -> C) -> nat -> nat) :
  lanczos_facts w ->
  (forall a j, (a < k)%nat -> (j < k)%nat ->
     csum o k (fun c => T a c * snd (eigh k T) c j) = fst (eigh k T) j * snd (eigh k T) a j) ->        (* eigh: T Y = Y diag(theta) *)
  (forall j, (j < k)%nat -> (argsort k (fst (eigh k T)) j < k)%nat) ->                                  (* argsort: indices in range *)
  (forall i j, (i <= j < k)%nat -> cle (fst (eigh k T) (argsort k (fst (eigh k T)) i)) (fst (eigh k T) (argsort k (fst (eigh k T)) j))) ->   (* argsort: ascending *)
  let out := lanczos_eigs o A false rfix eigh argsort n v max_iters tol in
  (forall i j, (i <= j < k)%nat -> cle (fst out i) (fst out j)) /\
  (forall j, (j < k)%nat -> forall u,
     dot u (A (snd out j)) = fst out j * dot u (snd out j) + snd (eigh k T) (k - 1)%nat (argsort k (fst (eigh k T)) j) * dot u w).
Proof.
  intros F Heig Hrange Hsorted. unfold lanczos_eigs. fold r. fold k. fold T.
  destruct (eigh k T) as [theta Y] eqn:E. cbn [fst snd] in *. split; [exact Hsorted|].
  intros j Hj u. apply (lanczos_ritz w theta Y F Heig (argsort k theta j) (Hrange j Hj) u).
Qed.
End Run.
End Thms.

(* ---------- the column bound needs no law at all: any scalar type (floats included), aliasing or not, any batch ---------- *)
Lemma lloop_len {C V} (o : kops C V) A al rfix tol fuel m : forall i (ss : list (@lst C V)),
  length (snd (lloop o A al rfix fuel tol m i ss)) = length ss.
Proof. induction fuel as [|f IH]; intros i ss; simpl; [reflexivity|].
  destruct (lcond o rfix tol m i ss); simpl; [|reflexivity]. rewrite IH. apply map_length. Qed.

Theorem lanczos_batch_cols {C V} (o : kops C V) (A : V -> V) (alias rfix : bool) (n : nat) (vs : list V) (max_iters : nat) (tol : C) :
  let res := lanczos_batch o A alias rfix n vs max_iters tol in
  fst res <= Nat.min max_iters n /\ length (snd res) = length vs /\
  forall r, In r (snd res) -> length (rQ r) <= fst res /\ length (rdiag r) <= fst res /\ length (roff r) <= fst res - 1.
Proof.
  unfold lanczos_batch, lfact. cbn [fst snd]. set (m := Nat.min max_iters n).
  pose proof (lloop_le o A tol rfix alias m m 1 (map (linit o m) vs) ltac:(lia)) as Hle.
  split; [lia|]. split; [rewrite map_length, lloop_len, map_length; reflexivity|].
  intros r Hr. apply in_map_iff in Hr as (s & <- & _). unfold ltrim; cbn [rQ rdiag roff].
  rewrite !firstn_length. lia. Qed.

(* ---------- the full statement (every element of every batch of start vectors) and what is proved of it ---------- *)
Definition C14_statement (batch_size : nat -> Prop) : Prop :=
  forall (C V : Type) (o : kops C V) (A : V -> V) (nonneg : C -> Prop), klaws o A nonneg ->
  forall (rfix : bool) (tol : C) (vs : list V) (n max_iters : nat), batch_size (length vs) ->
  nonneg tol -> Forall (fun v => o.(vnrm) v <> o.(c0)) vs -> 1 <= n -> 1 <= max_iters ->
  forall b r, nth_error (snd (lanczos_batch o A false rfix n vs max_iters tol)) b = Some r ->
  exists w, lres_facts o A nonneg r (nth b vs o.(vzero)) n max_iters w /\ lres_krylov o A r (nth b vs o.(vzero)).
(* C14_full is NOT provable for the current code: an element of a batch whose Krylov space is exhausted keeps iterating while
   another element continues (flag lanczos_batch_shared_stop; witness C14_Witness.batch_bad).  Proved: batches of one vector,
   which is the 1-D start-vector path of lanczos(). *)
Definition C14_full : Prop := C14_statement (fun _ => True).
Theorem C14_single_start_partial : C14_statement (fun len => len = 1).
Proof.
  intros C V o A nonneg L rfix tol vs n mi Hlen Htol Hv Hn Hmi b r Hb.
  destruct vs as [|v [|? ?]]; try discriminate Hlen. inversion Hv as [|? ? Hvnz _]; subst.
  pose proof (lanczos_batch_cols o A false rfix n [v] mi tol) as (_ & Hl & _). cbn [length] in Hl.
  assert (Er : r = lanczos1 o A false rfix n v mi tol /\ b = 0).
  { unfold lanczos1. destruct (snd (lanczos_batch o A false rfix n [v] mi tol)) as [|x [|? ?]]; try discriminate Hl.
    destruct b as [|[|b]]; simpl in Hb; try discriminate Hb. injection Hb as <-. auto. }
  destruct Er as [-> ->]. cbn [nth].
  destruct (lanczos_run o A nonneg L tol v n mi rfix Htol Hvnz Hn Hmi) as (w & F).
  exists w. split; [exact F|]. eapply lanczos_krylov; eauto.
Qed.

