(* C09: specification of a matrix function and the matrix-level content of every rule of cola/linalg/unary/unary.py.
   IsFunOn P f n A M :  A is diagonalisable with spectrum in P, A V = V diag w, and M V = V diag (f w) for the same V
   (so M = V f(D) V^-1 = f(A)).  f is an arbitrary function R -> R (a user callable / numpy ufunc: an oracle); exp and
   pow enter only through the functional equations stated as hypotheses where a rule needs them. *)
From Coq Require Import Arith Lia List Ring Field ArithRing PeanoNat Bool.
From Core Require Import Base FieldBase C09_MatAlg.
Import ListNotations.

Section IsFun.
Context {R : Type} {RR : Ring R} {CR : CRing R}.
Add Ring Rr : Rth.
Open Scope R_scope.
Notation fm := (fm (R:=R)).

Definition Diagble (P : R -> Prop) (n : nat) (A : fm) : Prop :=
  exists V w, invertible n V /\ feq n n (mmul n A V) (mmul n V (dg w)) /\ forall i, (i < n)%nat -> P (w i).
Definition IsFunOn (P : R -> Prop) (f : R -> R) (n : nat) (A M : fm) : Prop :=
  exists V w, invertible n V /\ feq n n (mmul n A V) (mmul n V (dg w)) /\
              feq n n (mmul n M V) (mmul n V (dg (fun i => f (w i)))) /\ forall i, (i < n)%nat -> P (w i).
Definition IsFun := IsFunOn (fun _ => True).

Lemma isfun_diagble (P : R -> Prop) f n A M : IsFunOn P f n A M -> Diagble P n A.
Proof. intros (V & w & H1 & H2 & _ & H4). exists V, w. auto. Qed.
Lemma isfun_ext (P : R -> Prop) f n A A' M M' : feq n n A A' -> feq n n M M' -> IsFunOn P f n A M -> IsFunOn P f n A' M'.
Proof. intros HA HM (V & w & H1 & H2 & H3 & H4). exists V, w. repeat split; auto.
  - eapply feq_trans; [apply mmul_ext; [apply feq_sym; exact HA|apply feq_refl]|exact H2].
  - eapply feq_trans; [apply mmul_ext; [apply feq_sym; exact HM|apply feq_refl]|exact H3]. Qed.
Lemma isfun_weaken (P Q : R -> Prop) f n A M : (forall x, P x -> Q x) -> IsFunOn P f n A M -> IsFunOn Q f n A M.
Proof. intros H (V & w & H1 & H2 & H3 & H4). exists V, w. repeat split; auto. Qed.
(* two functions that agree on the spectrum *)
Lemma isfun_congr (P : R -> Prop) f g n A M : (forall x, P x -> f x = g x) -> IsFunOn P f n A M -> IsFunOn P g n A M.
Proof. intros H (V & w & H1 & H2 & H3 & H4). exists V, w. repeat split; auto.
  eapply feq_trans; [exact H3|]. intros i j Hi Hj. rewrite !mmul_dg_r by auto. rewrite H by auto. reflexivity. Qed.

(* ---- Diagonal, ScalarMul, Identity ---- *)
Lemma isfun_diag (P : R -> Prop) f n d : (forall i, (i < n)%nat -> P (d i)) -> IsFunOn P f n (dg d) (dg (fun i => f (d i))).
Proof. intros H. exists eye, d. repeat split; auto using invertible_eye.
  - intros i j Hi Hj. rewrite mmul_eye_l, mmul_dg_l by auto. unfold dg, eye. ring.
  - intros i j Hi Hj. rewrite mmul_eye_l, mmul_dg_l by auto. unfold dg, eye. ring. Qed.
Lemma isfun_scal (P : R -> Prop) f n c : P c -> IsFunOn P f n (fun i j => c * delta i j) (fun i j => f c * delta i j).
Proof. intros H. exact (isfun_diag P f n (fun _ => c) (fun _ _ => H)). Qed.
Lemma isfun_ident (P : R -> Prop) f n : P r1 -> IsFunOn P f n eye (fun i j => f r1 * delta i j).
Proof. intros H. eapply isfun_ext; [| |exact (isfun_scal P f n r1 H)]; [|apply feq_refl]. intros i j _ _. unfold eye. ring. Qed.

(* ---- Transpose, Adjoint ---- *)
Lemma isfun_tr (P : R -> Prop) f n A M : IsFunOn P f n A M -> IsFunOn P f n (tr A) (tr M).
Proof. intros (V & w & [W HI] & H2 & H3 & H4). exists (tr W), w.
  pose proof (eig_left n A V W (dg w) HI H2) as EA. pose proof (eig_left n M V W _ HI H3) as EM.
  repeat split; auto.
  - exists (tr V). apply inv2_tr. apply inv2_sym. exact HI.
  - intros i j Hi Hj. rewrite <- tr_mmul. unfold tr at 1. rewrite EA by auto. rewrite mmul_dg_l, mmul_dg_r by auto. unfold tr. ring.
  - intros i j Hi Hj. rewrite <- tr_mmul. unfold tr at 1. rewrite EM by auto. rewrite mmul_dg_l, mmul_dg_r by auto. unfold tr. ring. Qed.
Lemma isfun_adj (P : R -> Prop) f n A M : (forall x, P x -> f (conj x) = conj (f x)) ->
  IsFunOn P f n A M -> IsFunOn (fun x => P (conj x)) f n (cj A) (cj M).
Proof. intros Hf (V & w & [W HI] & H2 & H3 & H4). exists (cj W), (fun i => conj (w i)).
  pose proof (eig_left n A V W (dg w) HI H2) as EA. pose proof (eig_left n M V W _ HI H3) as EM.
  repeat split.
  - exists (cj V). apply inv2_cj. apply inv2_sym. exact HI.
  - intros i j Hi Hj. rewrite <- cj_mmul. unfold cj at 1. rewrite EA by auto. rewrite mmul_dg_l, mmul_dg_r by auto. unfold cj. rewrite conj_mul. ring.
  - intros i j Hi Hj. rewrite <- cj_mmul. unfold cj at 1. rewrite EM by auto. rewrite mmul_dg_l, mmul_dg_r by auto. unfold cj. rewrite conj_mul. rewrite Hf by auto. ring.
  - intros i Hi. rewrite conj_invol. auto. Qed.

(* ---- dense paths: V f(D) V^-1 (Eig, with inv(V) from C06 as an oracle W) and V f(D) V^H (Eigh) ---- *)
Lemma isfun_dense_eig (P : R -> Prop) f n A V W w : inv2 n V W -> feq n n (mmul n A V) (mmul n V (dg w)) -> (forall i, (i < n)%nat -> P (w i)) ->
  IsFunOn P f n A (mmul n (mmul n V (dg (fun i => f (w i)))) W).
Proof. intros HI HA HP. exists V, w. repeat split; auto; [exists W; exact HI|]. destruct HI as [HWV HVW].
  apply feq_trans with (mmul n (mmul n V (dg (fun i => f (w i)))) (mmul n W V)); [apply feq_mmul_assoc|].
  apply feq_trans with (mmul n (mmul n V (dg (fun i => f (w i)))) eye); [apply mmul_ext; [apply feq_refl|exact HWV]|apply feq_eye_r]. Qed.
Definition unitary (n : nat) (V : fm) := inv2 n V (cj V).
Lemma isfun_dense_eigh (P : R -> Prop) f n A V w : unitary n V -> feq n n (mmul n A V) (mmul n V (dg w)) -> (forall i, (i < n)%nat -> P (w i)) ->
  IsFunOn P f n A (mmul n (mmul n V (dg (fun i => f (w i)))) (cj V)).
Proof. intros HU. apply isfun_dense_eig. exact HU. Qed.

(* ---- integer powers, power 0 ---- *)
Lemma isfun_mpow (P : R -> Prop) n A k : Diagble P n A -> IsFunOn P (fun x => spow x k) n A (mpow n A k).
Proof. intros (V & w & H1 & H2 & H4). exists V, w. repeat split; auto. apply mpow_eig. exact H2. Qed.
Lemma isfun_pow0 (P : R -> Prop) n A : Diagble P n A -> IsFunOn P (fun _ => r1) n A eye.
Proof. intros H. exact (isfun_mpow P n A 0 H). Qed.

(* ---- sqrt applied twice acts as A ---- *)
Theorem sqrt_sqrt (P : R -> Prop) f n A M : IsFunOn P f n A M -> (forall x, P x -> f x * f x = x) -> feq n n (mmul n M M) A.
Proof. intros (V & w & HI & H2 & H3 & H4) Hf. apply cancel_r with V; [exact HI|].
  apply feq_trans with (mmul n M (mmul n M V)); [apply feq_mmul_assoc|].
  apply feq_trans with (mmul n M (mmul n V (dg (fun i => f (w i))))); [apply mmul_ext; [apply feq_refl|exact H3]|].
  apply feq_trans with (mmul n (mmul n M V) (dg (fun i => f (w i)))); [apply feq_sym, feq_mmul_assoc|].
  apply feq_trans with (mmul n (mmul n V (dg (fun i => f (w i)))) (dg (fun i => f (w i)))); [apply mmul_ext; [exact H3|apply feq_refl]|].
  apply feq_sym. eapply feq_trans; [exact H2|]. intros i j Hi Hj. rewrite !mmul_dg_r by auto. transitivity (V i j * (f (w j) * f (w j))); [rewrite Hf by auto; reflexivity|ring]. Qed.
(* more generally: f(A) g(A) = (f.g)(A), for functions of the same A realised through the same eigenbasis *)
Lemma isfun_compose_same_basis n (A M N V : fm) (w : nat -> R) f g : invertible n V ->
  feq n n (mmul n M V) (mmul n V (dg (fun i => f (w i)))) -> feq n n (mmul n N V) (mmul n V (dg (fun i => g (w i)))) ->
  feq n n (mmul n (mmul n M N) V) (mmul n V (dg (fun i => f (w i) * g (w i)))).
Proof. intros HI HM HN.
  apply feq_trans with (mmul n M (mmul n N V)); [apply feq_mmul_assoc|].
  apply feq_trans with (mmul n M (mmul n V (dg (fun i => g (w i))))); [apply mmul_ext; [apply feq_refl|exact HN]|].
  apply feq_trans with (mmul n (mmul n M V) (dg (fun i => g (w i)))); [apply feq_sym, feq_mmul_assoc|].
  apply feq_trans with (mmul n (mmul n V (dg (fun i => f (w i)))) (dg (fun i => g (w i)))); [apply mmul_ext; [exact HM|apply feq_refl]|].
  intros i j Hi Hj. rewrite !mmul_dg_r by auto. ring. Qed.
End IsFun.

Section IsFunField.
Context {R : Type} {RR : Ring R} {FF : Field R}.
Add Ring Rr2 : Rth.
Add Field Rf2 : Fth.
Open Scope R_scope.
Notation fm := (fm (R:=R)).
(* power -1 is the inverse: any left inverse of a diagonalisable A with non-zero spectrum is rinv(A) *)
Theorem pow_m1_inverse (P : R -> Prop) n A M : Diagble P n A -> (forall x, P x -> x <> r0) -> feq n n (mmul n M A) eye ->
  IsFunOn P rinv n A M.
Proof. intros (V & w & HI & H2 & H4) Hnz HM. exists V, w. repeat split; auto.
  assert (E : feq n n V (mmul n (mmul n M V) (dg w))).
  { apply feq_sym. apply feq_trans with (mmul n M (mmul n V (dg w))); [apply feq_mmul_assoc|].
    apply feq_trans with (mmul n M (mmul n A V)); [apply mmul_ext; [apply feq_refl|apply feq_sym; exact H2]|].
    apply feq_trans with (mmul n (mmul n M A) V); [apply feq_sym, feq_mmul_assoc|].
    apply feq_trans with (mmul n eye V); [apply mmul_ext; [exact HM|apply feq_refl]|apply feq_eye_l]. }
  intros i j Hi Hj. rewrite mmul_dg_r by auto. rewrite (E i j Hi Hj). rewrite mmul_dg_r by auto.
  assert (Hw := Hnz (w j) (H4 j Hj)). field. exact Hw. Qed.
End IsFunField.
