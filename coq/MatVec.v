(* 1-D operands: A @ x reshapes x to a column, calls the matrix product and flattens the result (operator_base.py
   __matmul__/__rmatmul__); both agree with the represented matrix. *)
From Coq Require Import Arith Lia List PeanoNat Bool.
From Core Require Import Base Kron Op OpProofs.
Section MV.
Context {R : Type} {RR : Ring R} {CR : CRing R}.
Notation op := (op (R:=R)).
Definition matvec (e : op) (x : nat -> R) : nat -> R :=
  fun i => dat (matmat e (mkarr (snd (shape e)) 1 (fun j _ => x j))) i 0%nat.
Definition rmatvec (e : op) (x : nat -> R) : nat -> R :=
  fun j => dat (rmatmat e (mkarr 1 (fst (shape e)) (fun _ i => x i))) 0%nat j.
Theorem matvec_den (e : op) x : wf e = true -> forall i, (i < fst (shape e))%nat ->
  matvec e x i = sum (snd (shape e)) (fun j => rmul (den e i j) (x j)).
Proof. intros W i Hi. destruct (proj1 (mm_den e W) (mkarr (snd (shape e)) 1 (fun j _ => x j)) eq_refl) as (E1 & E2 & E3).
  unfold matvec. rewrite E3; [reflexivity| rewrite E1; exact Hi | rewrite E2; cbn; lia]. Qed.
Theorem rmatvec_den (e : op) x : wf e = true -> forall j, (j < snd (shape e))%nat ->
  rmatvec e x j = sum (fst (shape e)) (fun i => rmul (x i) (den e i j)).
Proof. intros W j Hj. destruct (proj2 (mm_den e W) (mkarr 1 (fst (shape e)) (fun _ i => x i)) eq_refl) as (E1 & E2 & E3).
  unfold rmatvec. rewrite E3; [reflexivity| rewrite E1; cbn; lia | rewrite E2; exact Hj]. Qed.
End MV.
