(* Property C17: randomised routines are deterministic in their key, leave the process-wide NumPy generator as they
   found it, and the Hutchinson estimator is exact / unbiased / bounded by max_iters.
   Only statements closed by [exact]; models and lemmas live in C17_Rng.v and C17_Hutch.v.
   The generator (stream, seed_st), the hash (sha) and the stopping test (cont) are universally quantified. *)
From Coq Require Import List ZArith Arith Bool.
From Core Require Import Base C17_Rng C17_Hutch C17_Rademacher C17_Link.
Import ListNotations.

(* randn(key) = save; seed; draw; restore: returns a function of (key, size) only and leaves the state as found *)
Theorem C17_randn_restores : forall (St V : Type) (seed_st : Z -> St) (stream : St -> nat -> list V * St) (sha : Z -> Z)
  (key : option Z) (n : nat) (g : St),
  randn St V seed_st stream sha key n g = (keyed_values St V seed_st stream (opt_key sha key) n, g).
Proof. exact randn_spec. Qed.
Print Assumptions C17_randn_restores.

(* after ANY interleaving of keyed cola calls with user draws / reseeds / set_state, the global state and everything
   the user draws are what they would have been without the cola calls *)
Theorem C17_global_state_invariant : forall (St V Out : Type) (seed_st : Z -> St) (stream : St -> nat -> list V * St) (sha : Z -> Z)
  (h : list (event St V Out)) (g : St), Forall (cola_keyed St V Out) h ->
  snd (run_hist St V Out seed_st stream sha h g) = snd (run_hist St V Out seed_st stream sha (user_only St V Out h) g) /\
  user_obs V Out (fst (run_hist St V Out seed_st stream sha h g)) = fst (run_hist St V Out seed_st stream sha (user_only St V Out h) g).
Proof. exact global_state_invariant. Qed.
Print Assumptions C17_global_state_invariant.

(* same routine, same inputs, same key (= the same program) -> same value after any two histories *)
Theorem C17_keyed_deterministic : forall (St V Out : Type) (seed_st : Z -> St) (stream : St -> nat -> list V * St) (sha : Z -> Z)
  (p : prog V Out), keyed V p -> forall (h1 h2 : list (event St V Out)) (g1 g2 : St),
  fst (run St V seed_st stream sha p (snd (run_hist St V Out seed_st stream sha h1 g1)))
  = fst (run St V seed_st stream sha p (snd (run_hist St V Out seed_st stream sha h2 g2))).
Proof. exact keyed_deterministic. Qed.
Print Assumptions C17_keyed_deterministic.

(* every call site that draws through randn is keyed in this sense: Hutchinson loop, SLQ, default start vectors,
   Nystrom sketch, the unkeyed sketches (randomized_svd, ...), AdaNys / select_rank loops, and LOBPCG once its start
   block is drawn through randn (the np.random.normal variant is refuted below) *)
Theorem C17_sites_keyed : forall (V Out : Type) (sha : Z -> Z),
  (forall S_ c s nz mi key (st0 : S_) fin, keyed V (hutch_site V Out sha c s nz mi key st0 fin)) /\
  (forall key nz f, keyed V (slq_site V Out key nz f)) /\
  (forall st key n f, keyed V (start_site V Out sha st key n f)) /\
  (forall key nz f, keyed V (nystrom_site V Out sha key nz f)) /\
  (forall nz f, keyed V (unkeyed_sketch_site V Out nz f)) /\
  (forall n approx bad grow fuel r, keyed V (ada_site V Out sha n approx bad grow fuel r)) /\
  (forall nk f, keyed V (lobpcg_site_keyed V Out sha nk f)).      (* LOBPCG as repaired: start block through randn, key 42 *)
Proof. intros V Out sha.
  exact (Logic.conj (fun S_ c s nz mi key st0 fin => hutch_site_keyed V Out sha c s nz mi key st0 fin)
        (Logic.conj (slq_site_keyed V Out)
        (Logic.conj (start_site_keyed V Out sha)
        (Logic.conj (nystrom_site_keyed V Out sha)
        (Logic.conj (unkeyed_sketch_site_keyed V Out)
        (Logic.conj (ada_site_keyed V Out sha) (lobpcg_site_keyed_keyed V Out sha))))))). Qed.
Print Assumptions C17_sites_keyed.

(* refutation for the pinned tree: the LOBPCG call site IS a draw from the global generator ... *)
Theorem C17_lobpcg_reads_and_advances : forall (St V Out : Type) (seed_st : Z -> St) (stream : St -> nat -> list V * St) (sha : Z -> Z)
  (nk : nat) (f : list V -> Out) (g : St),
  run St V seed_st stream sha (lobpcg_site V Out nk f) g = (f (fst (stream g nk)), snd (stream g nk)).
Proof. exact lobpcg_reads_and_advances. Qed.
Print Assumptions C17_lobpcg_reads_and_advances.

(* ... so with any generator whose state moves when numbers are drawn the invariant fails on a one-event history *)
Theorem C17_lobpcg_global_rng : forall (St V Out : Type) (seed_st : Z -> St) (stream : St -> nat -> list V * St) (sha : Z -> Z)
  (nk : nat) (f : list V -> Out) (g : St), snd (stream g nk) <> g ->
  snd (run_hist St V Out seed_st stream sha [Cola St V Out (lobpcg_site V Out nk f)] g)
  <> snd (run_hist St V Out seed_st stream sha (user_only St V Out [Cola St V Out (lobpcg_site V Out nk f)]) g).
Proof. exact lobpcg_global_rng. Qed.
Print Assumptions C17_lobpcg_global_rng.

(* concrete witness (counter generator): the hypotheses above are satisfiable and the refutation is not vacuous *)
Example C17_lobpcg_global_rng_refuted : exists (h : list (event Z Z (list Z))) (g : Z),
    snd (run_hist Z Z (list Z) (fun k => k) toy_stream toy_sha h g)
    <> snd (run_hist Z Z (list Z) (fun k => k) toy_stream toy_sha (user_only Z Z (list Z) h) g).
Proof. exact lobpcg_global_rng_refuted. Qed.
Print Assumptions C17_lobpcg_global_rng_refuted.

(* the value of a Hutchinson call is the estimator loop run on the keyed probe blocks (link between the two models) *)
Theorem C17_hutch_site_value : forall (St V Out : Type) (seed_st : Z -> St) (stream : St -> nat -> list V * St) (sha : Z -> Z)
  (S_ : Type) c s nz mi key (st0 : S_) (fin : S_ -> Out),
  value St V seed_st stream sha (hutch_site V Out sha c s nz mi key st0 fin)
  = fin (pure_loop St V seed_st stream sha c s nz (S mi) (dflt42 sha key) st0).
Proof. intros. apply hutch_site_value. Qed.
Print Assumptions C17_hutch_site_value.

(* stops no later than max_iters (at least one block is always drawn), for EVERY stopping test *)
Theorem C17_hutch_steps : forall (T : Type) (zero : T) (add mul : T -> T -> T) (n bs : nat) (k : Z) (A : mat T)
  (cont : state T -> bool) (max_iters : nat) (probe : nat -> mat T),
  1 <= it (hutch T zero add mul n bs k A cont max_iters probe) <= Nat.max max_iters 1.
Proof. exact hutch_steps. Qed.
Print Assumptions C17_hutch_steps.

(* ... and if it stopped before the cap, the stopping test had said "converged" *)
Theorem C17_hutch_stopped_by_tol : forall (T : Type) (zero : T) (add mul : T -> T -> T) (n bs : nat) (k : Z) (A : mat T)
  (cont : state T -> bool) (max_iters : nat) (probe : nat -> mat T),
  it (hutch T zero add mul n bs k A cont max_iters probe) < max_iters ->
  cont (hutch T zero add mul n bs k A cont max_iters probe) = false.
Proof. exact hutch_stopped_by_tol. Qed.
Print Assumptions C17_hutch_stopped_by_tol.

(* exact on the main diagonal of diagonal operators for EVERY probe matrix with entries of square one:
   the accumulated sums are (number of probes) * A_ii, i.e. the returned mean is A_ii *)
Theorem C17_hutch_exact_diag_rademacher : forall (R : Type) (RR : Ring R) (n bs : nat) (k : Z) (A : nat -> nat -> R)
  (probe : nat -> nat -> nat -> R),
  (forall i j, i < n -> j < n -> i <> j -> A i j = r0) ->
  (forall t j b, j < n -> b < bs -> rmul (probe t j b) (probe t j b) = r1) ->
  k = 0%Z -> forall m i, i < n -> dsum (blocks n bs k A probe m) i = nmul (m * bs) (A i i).
Proof. exact @hutch_exact_sums. Qed.
Print Assumptions C17_hutch_exact_diag_rademacher.

(* unbiased, in linear-functional form, for every offset k and a fixed number m of probe blocks:
   E[sum] = (number of probes) * c * A[i+off, i+off+k] whenever E is linear with E[z_j z_l] = c * delta_jl *)
Theorem C17_hutch_unbiased_partial : forall (R : Type) (RR : Ring R) (n bs : nat) (k : Z) (A : nat -> nat -> R)
  (E : (P -> R) -> R) (c : R),
  (forall f g : P -> R, (forall p, f p = g p) -> E f = E g) ->
  (forall f g : P -> R, E (fun p => radd (f p) (g p)) = radd (E f) (E g)) ->
  (forall (a : R) (f : P -> R), E (fun p => rmul a (f p)) = rmul a (E f)) ->
  (forall t b j l, j < n -> l < n -> b < bs -> E (fun p => rmul (p t j b) (p t l b)) = rmul c (delta j l)) ->
  forall m i, i < n - Z.abs_nat k ->
  E (fun p => dsum (blocks n bs k A p m) i) = nmul (m * bs) (rmul c (target k A i)).
Proof. exact @hutch_unbiased. Qed.
Print Assumptions C17_hutch_unbiased_partial.

(* the Rademacher instance, by finite enumeration: second moments of the sum over all 2^N sign patterns ... *)
Theorem C17_rademacher_moment : forall (R : Type) (RR : Ring R) (N a b : nat), a < N -> b < N ->
  sum_signs N (fun s => rmul (s a) (s b)) = rmul (pow2 N) (delta a b).
Proof. exact @rademacher_moment. Qed.
Print Assumptions C17_rademacher_moment.

(* ... hence summed over ALL sign patterns of the m*bs*n probe entries the accumulated sums are exactly
   2^N * (number of probes) * A[i+off, i+off+k]: with Rademacher probes and a fixed number of blocks the estimator is
   exactly unbiased, for every operator, every offset k, every size (no division needed, no axiom) *)
Theorem C17_rademacher_unbiased : forall (R : Type) (RR : Ring R) (n bs : nat) (k : Z) (A : nat -> nat -> R) (m i : nat),
  i < n - Z.abs_nat k ->
  E_rad n bs m (fun p => dsum (blocks n bs k A p m) i) = nmul (m * bs) (rmul (pow2 (NN n bs m)) (target k A i)).
Proof. exact @rademacher_unbiased. Qed.
Print Assumptions C17_rademacher_unbiased.

(* the two models are one: a call hutchinson_diag_estimate(A, k, key=...) on generator state g returns the estimator
   loop of C17_Hutch.v run on the blocks of the key chain, and leaves g as it was - for every generator, hash,
   operator, offset, stopping test, and probe post-processing (identity / sign) *)
Theorem C17_hutch_call_is_model : forall (St T : Type) (seed_st : Z -> St) (stream : St -> nat -> list T * St) (sha : Z -> Z)
  (zero : T) (add mul : T -> T -> T) (n bs : nat) (k : Z) (A : mat T) (cont : state T -> bool) (max_iters : nat) (sgn : T -> T)
  (Out : Type) (fin : state T -> Out) (key : option Z) (g : St),
  run St T seed_st stream sha
      (hutch_site T Out sha (cnd T cont max_iters) (stp T zero add mul n bs k A sgn) (n * bs) max_iters key (st0 T zero) fin) g
  = (fin (hutch T zero add mul n bs k A cont max_iters (key_probe St T seed_st stream sha zero n bs sgn (dflt42 sha key))), g).
Proof. exact hutch_call_is_model. Qed.
Print Assumptions C17_hutch_call_is_model.

(* mean form: the value actually returned, diag_sum / (i * bs), for any division that inverts repeated addition *)
Theorem C17_hutch_exact_mean : forall (R : Type) (RR : Ring R) (divn : R -> nat -> R),
  (forall m x, 0 < m -> divn (nmul m x) m = x) ->
  forall (n bs : nat) (A : nat -> nat -> R) (probe : nat -> nat -> nat -> R),
  (forall i j, i < n -> j < n -> i <> j -> A i j = r0) ->
  (forall t j b, j < n -> b < bs -> rmul (probe t j b) (probe t j b) = r1) ->
  forall m i, i < n -> 0 < m * bs ->
  divn (dsum (blocks n bs 0%Z A probe m) i) (it (blocks n bs 0%Z A probe m) * bs) = A i i.
Proof. exact @hutch_exact_mean. Qed.
Print Assumptions C17_hutch_exact_mean.
Example C17_divn_satisfiable : forall m x, 0 < m -> Z.div (nmul m x) (Z.of_nat m) = x.
Proof. exact divn_Z_ok. Qed.
Print Assumptions C17_divn_satisfiable.
