(* C04 / C19: Gallina model of method resolution in the vendored plum fork
   (site-packages/plum/resolver.py:142-207, signature.py:__le__/match/append_default_args, util.py:Comparable,
   dispatcher.py:abstract, function.py:__call__).  Data (signatures, beartype order, isinstance table, condition
   values) come from the generated C04_RuleTable.v; this file is the hand-written ALGORITHM and the generic lemmas
   that turn a boolean sweep over the finite lattice into the quantified statement.

   Conventions: a type hint is a number t (bit position); a representative abstract argument ("rep") is a positive r.
     le_row t   = bit mask of the hints u with  TypeHint(t) <= TypeHint(u)      (beartype's order, tabulated live)
     bear_row r = bit mask of the hints t with  _is_bearable(instance r, t)     (tabulated live)
   A rule condition (the `cond=` lambda) is tabulated as (argument position, mask of the reps on which it holds). *)
From Coq Require Import List ZArith NArith PArith Bool String.
Import ListNotations.
Local Open Scope bool_scope.

Record rule := mkrule {
  rsig : list N;                    (* hint of every positional parameter *)
  rprec : Z;                        (* precedence= *)
  rcond : option (nat * N);         (* cond=: position it inspects, mask of reps on which it is true *)
  rorig : N                         (* index of the @dispatch registration this signature stems from *)
}.

(* a registration before plum's default-argument expansion: qdef = number of trailing parameters with a default *)
Record rawrule := mkraw { qsig : list N; qprec : Z; qcond : option (nat * N); qdef : nat }.

Inductive verdict := Unique (i : nat) | Ambiguous | NotFound.

(* ---------- append_default_args: one signature per number of dropped trailing defaults ---------- *)
Fixpoint expand1 (orig : N) (s : list N) (p : Z) (c : option (nat * N)) (k : nat) : list rule :=
  mkrule s p c orig :: match k with O => [] | S k' => expand1 orig (removelast s) p c k' end.

Fixpoint expand_from (i : N) (qs : list rawrule) : list rule :=
  match qs with
  | [] => []
  | q :: qs' => expand1 i (qsig q) (qprec q) (qcond q) (qdef q) ++ expand_from (N.succ i) qs'
  end.
Definition expand := expand_from 0%N.

Definition optcond_eqb (a b : option (nat * N)) : bool :=
  match a, b with
  | None, None => true
  | Some (i, m), Some (j, n) => Nat.eqb i j && N.eqb m n
  | _, _ => false
  end.
Fixpoint list_eqb {A} (e : A -> A -> bool) (a b : list A) : bool :=
  match a, b with [], [] => true | x :: a', y :: b' => e x y && list_eqb e a' b' | _, _ => false end.
Definition rule_eqb (r s : rule) : bool :=
  list_eqb N.eqb (rsig r) (rsig s) && Z.eqb (rprec r) (rprec s) && optcond_eqb (rcond r) (rcond s) && N.eqb (rorig r) (rorig s).

Section Resolve.
Variables (le_row : N -> N) (bear_row : positive -> N).

Definition tle (a b : N) : bool := N.testbit (le_row a) b.
Definition bearable (r : positive) (t : N) : bool := N.testbit (bear_row r) t.

Fixpoint all2 {A B} (f : A -> B -> bool) (la : list A) (lb : list B) : bool :=
  match la, lb with
  | [], [] => true
  | a :: la', b :: lb' => f a b && all2 f la' lb'
  | _, _ => false
  end.

(* Signature.__le__ without varargs: same arity and pointwise TypeHint <= *)
Definition sle (r s : rule) : bool := all2 tle (rsig r) (rsig s).
(* Comparable.__eq__, __lt__, is_comparable, literally *)
Definition seq_ (r s : rule) : bool := sle r s && sle s r.
Definition slt (r s : rule) : bool := sle r s && negb (seq_ r s).
Definition sgt (r s : rule) : bool := sle s r && negb (seq_ r s).
Definition comparable (r s : rule) : bool := slt r s || seq_ r s || sgt r s.

(* Signature.match on concrete arguments *)
Definition cond_holds (c : option (nat * N)) (args : list positive) : bool :=
  match c with
  | None => true
  | Some (pos, mask) => match nth_error args pos with Some r => N.testbit mask (Npos r) | None => false end
  end.
Definition matches (args : list positive) (ir : nat * rule) : bool :=
  all2 bearable args (rsig (snd ir)) && cond_holds (rcond (snd ir)) args.

(* one iteration of the candidate loop of Resolver.resolve *)
Definition step (cands : list (nat * rule)) (s : nat * rule) : list (nat * rule) :=
  if negb (existsb (fun c => comparable (snd c) (snd s)) cands) then cands ++ [s]
  else let nc := filter (fun c => negb (slt (snd s) (snd c))) cands in
       if existsb (fun c => sle (snd s) (snd c)) cands then nc ++ [s] else nc.

Fixpoint number {A} (i : nat) (l : list A) : list (nat * A) :=
  match l with [] => [] | x :: r => (i, x) :: number (S i) r end.

(* precedence + 0.5 for a conditional rule, doubled to stay in Z *)
Definition eprec (r : rule) : Z := (2 * rprec r + (if rcond r then 1 else 0))%Z.

Definition candidates (rules : list rule) (args : list positive) : list (nat * rule) :=
  fold_left step (filter (matches args) (number 0 rules)) [].

Definition resolve (rules : list rule) (args : list positive) : verdict :=
  match candidates rules args with
  | [] => NotFound
  | [c] => Unique (fst c)
  | c0 :: cs =>
      let mx := fold_left (fun m c => Z.max m (eprec (snd c))) cs (eprec (snd c0)) in
      match filter (fun c => Z.eqb (eprec (snd c)) mx) (c0 :: cs) with
      | [c] => Unique (fst c)
      | _ => Ambiguous
      end
  end.
End Resolve.

(* ---------- how a public call becomes the dispatched argument tuple ---------- *)
(* an optional argument is passed positionally, by keyword, or omitted *)
Inductive aform := Pos (r : positive) | Kw (r : positive) | Omit.

Fixpoint pos_prefix (l : list aform) : list positive :=
  match l with Pos r :: l' => r :: pos_prefix l' | _ => [] end.
Fixpoint fill (l : list aform) (defs : list positive) : list positive :=
  match l, defs with
  | a :: l', d :: defs' => (match a with Pos r => r | Kw r => r | Omit => d end) :: fill l' defs'
  | _, _ => []
  end.
(* fabs = Some defaults: the public name is the `dispatch.abstract` wrapper, which binds every parameter
   (sig.bind + apply_defaults) and dispatches on all of them; None: plum's Function.__call__ dispatches on the
   positional arguments only (keyword arguments are forwarded to the selected method, omitted ones are absent) *)
Definition dargs (abs : option (list positive)) (req : list positive) (opt : list aform) : list positive :=
  match abs with
  | Some defs => req ++ fill opt defs
  | None => req ++ pos_prefix opt
  end.

(* python call syntax: no positional argument after a keyword/omitted one *)
Fixpoint nonpos_ok (opt : list aform) (ch : list (list positive)) : Prop :=
  match opt, ch with
  | [], [] => True
  | Omit :: o', _ :: ch' => nonpos_ok o' ch'
  | Kw r :: o', c :: ch' => In r c /\ nonpos_ok o' ch'
  | _, _ => False
  end.
Fixpoint form_ok (opt : list aform) (ch : list (list positive)) : Prop :=
  match opt, ch with
  | [], [] => True
  | Pos r :: o', c :: ch' => In r c /\ form_ok o' ch'
  | _, _ => nonpos_ok opt ch
  end.

Fixpoint kwforms (ch : list (list positive)) : list (list aform) :=
  match ch with
  | [] => [[]]
  | c :: ch' => flat_map (fun a => map (cons a) (kwforms ch')) (Omit :: map Kw c)
  end.
Fixpoint forms (ch : list (list positive)) : list (list aform) :=
  match ch with
  | [] => [[]]
  | c :: ch' => flat_map (fun r => map (cons (Pos r)) (forms ch')) c ++ kwforms ch
  end.

Fixpoint prod {A} (ch : list (list A)) : list (list A) :=
  match ch with
  | [] => [[]]
  | c :: ch' => flat_map (fun a => map (cons a) (prod ch')) c
  end.

Record fspec := mkspec {
  fname : string;
  frules : list rule;                       (* live method list (after default expansion), registration order *)
  fabs : option (list positive);            (* defaults bound by the dispatch.abstract wrapper, if any *)
  freq : list (list positive);              (* admissible abstract arguments of every required parameter *)
  fopt : list (list positive)               (* ... of every optional parameter *)
}.

Definition calls (fs : fspec) : list (list positive * list aform) :=
  flat_map (fun req => map (pair req) (forms (fopt fs))) (prod (freq fs)).

(* ---------- committed exceptions: function name + class pattern (None = any class) + kind of failure ---------- *)
Inductive fkind := KAmbiguous | KNotFound.
Definition fkind_eqb (a b : fkind) : bool := match a, b with KAmbiguous, KAmbiguous | KNotFound, KNotFound => true | _, _ => false end.
Definition kentry := (string * list (option N) * fkind)%type.
Definition pat_matches (p : list (option N)) (cl : list N) : bool :=
  (fix go p cl := match p, cl with
                  | [], [] => true
                  | None :: p', _ :: cl' => go p' cl'
                  | Some a :: p', b :: cl' => N.eqb a b && go p' cl'
                  | _, _ => false
                  end) p cl.
Definition covered (known : list kentry) (kd : fkind) (f : string) (cl : list N) : bool :=
  existsb (fun k => String.eqb (fst (fst k)) f && pat_matches (snd (fst k)) cl && fkind_eqb (snd k) kd) known.

Section Sweep.
Variables (le_row : N -> N) (bear_row : positive -> N) (rep_class : positive -> N).
Variable known : list kentry.

Definition verdict_of (fs : fspec) (c : list positive * list aform) : verdict :=
  resolve le_row bear_row (frules fs) (dargs (fabs fs) (fst c) (snd c)).

Definition ok_call (fs : fspec) (c : list positive * list aform) : bool :=
  match verdict_of fs c with
  | Unique _ => true
  | Ambiguous => covered known KAmbiguous (fname fs) (map rep_class (dargs (fabs fs) (fst c) (snd c)))
  | NotFound => covered known KNotFound (fname fs) (map rep_class (dargs (fabs fs) (fst c) (snd c)))
  end.

Definition sweep (fs : fspec) : bool := forallb (ok_call fs) (calls fs).

(* ties are never acceptable, whatever algorithm object is passed (within the documented set or not) *)
Definition noties_call (fs : fspec) (c : list positive * list aform) : bool :=
  match verdict_of fs c with
  | Ambiguous => covered known KAmbiguous (fname fs) (map rep_class (dargs (fabs fs) (fst c) (snd c)))
  | _ => true
  end.
Definition sweep_noties (fs : fspec) : bool := forallb (noties_call fs) (calls fs).

Definition vcode (v : verdict) : N := match v with NotFound => 0 | Ambiguous => 1 | Unique i => 2 + N.of_nat i end%N.

(* indices (in `calls fs` order) at which the model's verdict differs from the expected code *)
Fixpoint diff_from (i : N) (got expected : list N) : list N :=
  match got, expected with
  | [], [] => []
  | g :: got', e :: exp' => if N.eqb g e then diff_from (N.succ i) got' exp' else i :: diff_from (N.succ i) got' exp'
  | _, _ => [i]     (* length mismatch *)
  end.
Definition mismatches (fs : fspec) (expected : list N) : list N :=
  diff_from 0%N (map (fun c => vcode (verdict_of fs c)) (calls fs)) expected.
End Sweep.

(* ---------- generic lemmas ---------- *)
Lemma in_prod : forall {A} (ch : list (list A)) (l : list A),
  In l (prod ch) <-> Forall2 (fun a c => In a c) l ch.
Proof.
  induction ch as [|c ch IH]; intros l; cbn [prod].
  - split.
    + intros [<-|[]]. constructor.
    + intros H. inversion H. now left.
  - rewrite in_flat_map. split.
    + intros (a & Ha & Hl). apply in_map_iff in Hl. destruct Hl as (l' & <- & Hl').
      constructor; [exact Ha | now apply IH].
    + intros H. inversion H as [|a c' l' ch' Ha Hl']; subst.
      exists a. split; [exact Ha|]. apply in_map. now apply IH.
Qed.

Lemma in_kwforms : forall ch opt, In opt (kwforms ch) <-> nonpos_ok opt ch.
Proof.
  induction ch as [|c ch IH]; intros opt.
  - cbn [kwforms]. split.
    + intros [<-|[]]. exact I.
    + destruct opt as [|[r|r|] o]; cbn; try tauto.
  - cbn [kwforms]. rewrite in_flat_map. split.
    + intros (a & Ha & Ho). apply in_map_iff in Ho. destruct Ho as (o' & <- & Ho').
      apply IH in Ho'. destruct Ha as [<-|Ha].
      * exact Ho'.
      * apply in_map_iff in Ha. destruct Ha as (r & <- & Hr). cbn. tauto.
    + destruct opt as [|[r|r|] o]; cbn [nonpos_ok]; try tauto.
      * intros (Hr & Ho). exists (Kw r). split; [right; now apply in_map|]. apply in_map. now apply IH.
      * intros Ho. exists Omit. split; [now left|]. apply in_map. now apply IH.
Qed.

Lemma in_forms : forall ch opt, In opt (forms ch) <-> form_ok opt ch.
Proof.
  induction ch as [|c ch IH]; intros opt.
  - cbn [forms]. split.
    + intros [<-|[]]. exact I.
    + destruct opt as [|[r|r|] o]; cbn; tauto.
  - cbn [forms]. rewrite in_app_iff, in_flat_map. split.
    + intros [(r & Hr & Ho)|H].
      * apply in_map_iff in Ho. destruct Ho as (o' & <- & Ho'). cbn. split; [exact Hr| now apply IH].
      * apply in_kwforms in H. destruct opt as [|[r|r|] o]; cbn in *; tauto.
    + destruct opt as [|[r|r|] o].
      * cbn. tauto.
      * cbn [form_ok]. intros (Hr & Ho). left. exists r. split; [exact Hr|]. apply in_map. now apply IH.
      * intros H. right. apply in_kwforms. exact H.
      * intros H. right. apply in_kwforms. exact H.
Qed.

(* the enumerated lattice is exactly: every required parameter ranges over its admissible set, and the optional
   parameters form a syntactically valid call whose explicit values range over their admissible sets *)
Lemma in_calls : forall fs req opt,
  In (req, opt) (calls fs) <-> Forall2 (fun a c => In a c) req (freq fs) /\ form_ok opt (fopt fs).
Proof.
  intros fs req opt. unfold calls. rewrite in_flat_map. split.
  - intros (r & Hr & H). apply in_map_iff in H. destruct H as (o & E & Ho). inversion E; subst.
    split; [now apply in_prod | now apply in_forms].
  - intros (Hr & Ho). exists req. split; [now apply in_prod|]. apply in_map. now apply in_forms.
Qed.

Lemma sweep_sound : forall le_row bear_row rep_class known fs,
  sweep le_row bear_row rep_class known fs = true ->
  forall req opt, Forall2 (fun a c => In a c) req (freq fs) -> form_ok opt (fopt fs) ->
    (exists i, resolve le_row bear_row (frules fs) (dargs (fabs fs) req opt) = Unique i)
    \/ (resolve le_row bear_row (frules fs) (dargs (fabs fs) req opt) = Ambiguous
        /\ covered known KAmbiguous (fname fs) (map rep_class (dargs (fabs fs) req opt)) = true)
    \/ (resolve le_row bear_row (frules fs) (dargs (fabs fs) req opt) = NotFound
        /\ covered known KNotFound (fname fs) (map rep_class (dargs (fabs fs) req opt)) = true).
Proof.
  intros le_row bear_row rep_class known fs H req opt Hr Ho.
  unfold sweep in H. rewrite forallb_forall in H.
  specialize (H (req, opt) (proj2 (in_calls fs req opt) (conj Hr Ho))).
  unfold ok_call, verdict_of in H. cbn [fst snd] in H.
  destruct (resolve le_row bear_row (frules fs) (dargs (fabs fs) req opt)) as [i| |].
  - left. now exists i.
  - right. left. split; [reflexivity | exact H].
  - right. right. split; [reflexivity | exact H].
Qed.

Lemma sweep_noties_sound : forall le_row bear_row rep_class known fs,
  sweep_noties le_row bear_row rep_class known fs = true ->
  forall req opt, Forall2 (fun a c => In a c) req (freq fs) -> form_ok opt (fopt fs) ->
    resolve le_row bear_row (frules fs) (dargs (fabs fs) req opt) = Ambiguous ->
    covered known KAmbiguous (fname fs) (map rep_class (dargs (fabs fs) req opt)) = true.
Proof.
  intros le_row bear_row rep_class known fs H req opt Hr Ho E.
  unfold sweep_noties in H. rewrite forallb_forall in H.
  specialize (H (req, opt) (proj2 (in_calls fs req opt) (conj Hr Ho))).
  unfold noties_call, verdict_of in H. cbn [fst snd] in H. rewrite E in H. exact H.
Qed.

(* resolution looks at an argument only through its isinstance row and the condition bits: two argument tuples with
   pointwise equal rows and equal condition values get the same verdict (justifies enumerating annotation variants
   only where some rule has a condition) *)
Lemma all2_ext : forall {A B} (f g : A -> B -> bool) la lb,
  (forall a b, In a la -> f a b = g a b) -> all2 f la lb = all2 g la lb.
Proof.
  induction la as [|a la IH]; intros [|b lb] H; cbn; try reflexivity.
  rewrite (H a b (or_introl eq_refl)). f_equal. apply IH. intros; apply H; now right.
Qed.

Lemma all2_map_l : forall {A A' B} (g : A -> A') (f : A' -> B -> bool) la lb,
  all2 f (map g la) lb = all2 (fun a b => f (g a) b) la lb.
Proof. induction la as [|a la IH]; intros [|b lb]; cbn; try reflexivity. now rewrite IH. Qed.

Lemma resolve_congr : forall le_row bear_row rules args args',
  map bear_row args = map bear_row args' ->
  (forall r, In r rules -> cond_holds (rcond r) args = cond_holds (rcond r) args') ->
  resolve le_row bear_row rules args = resolve le_row bear_row rules args'.
Proof.
  intros le_row bear_row rules args args' Hrow Hcond.
  unfold resolve, candidates.
  assert (E : filter (matches bear_row args) (number 0 rules) = filter (matches bear_row args') (number 0 rules)).
  { assert (G : forall l i, (forall r, In r l -> cond_holds (rcond r) args = cond_holds (rcond r) args') ->
               filter (matches bear_row args) (number i l) = filter (matches bear_row args') (number i l)).
    { induction l as [|r l IH]; intros i H; cbn [number filter]; [reflexivity|].
      assert (M : matches bear_row args (i, r) = matches bear_row args' (i, r)).
      { unfold matches. cbn [snd]. rewrite (H r (or_introl eq_refl)). f_equal.
        unfold bearable.
        change (all2 (fun a t => N.testbit (bear_row a) t) args (rsig r)) with
               (all2 (fun a t => (fun m t => N.testbit m t) (bear_row a) t) args (rsig r)).
        rewrite <- (all2_map_l bear_row (fun m t => N.testbit m t)).
        change (all2 (fun a t => N.testbit (bear_row a) t) args' (rsig r)) with
               (all2 (fun a t => (fun m t => N.testbit m t) (bear_row a) t) args' (rsig r)).
        rewrite <- (all2_map_l bear_row (fun m t => N.testbit m t)).
        now rewrite Hrow. }
      rewrite M. rewrite (IH (S i)); [reflexivity|]. intros; apply H; now right. }
    apply G. exact Hcond. }
  now rewrite E.
Qed.

(* a uniquely selected rule is a registered rule that matches the arguments: Unique never names a rule that does not
   apply (so "Unique" means the call reaches a rule whose signature and condition accept the arguments) *)
Lemma step_subset : forall le_row cands s x, In x (step le_row cands s) -> In x cands \/ x = s.
Proof.
  intros le_row cands s x. unfold step.
  destruct (negb (existsb _ cands)).
  - rewrite in_app_iff. cbn. intros [H|[H|[]]]; [now left | right; now symmetry].
  - destruct (existsb (fun c => sle le_row (snd s) (snd c)) cands).
    + rewrite in_app_iff, filter_In. cbn. intros [[H _]|[H|[]]]; [now left | right; now symmetry].
    + rewrite filter_In. intros [H _]. now left.
Qed.

Lemma fold_step_subset : forall le_row l acc x,
  In x (fold_left (step le_row) l acc) -> In x acc \/ In x l.
Proof.
  induction l as [|s l IH]; intros acc x H; cbn [fold_left] in H.
  - now left.
  - apply IH in H. destruct H as [H|H].
    + apply step_subset in H. destruct H as [H|H]; [now left| right; left; now symmetry].
    + right; now right.
Qed.

Lemma in_number : forall {A} (l : list A) i j x, In (j, x) (number i l) -> i <= j /\ nth_error l (j - i) = Some x.
Proof.
  induction l as [|y l IH]; intros i j x H; cbn [number] in H.
  - destruct H.
  - destruct H as [E|H].
    + inversion E; subst. split; [apply le_n|]. now rewrite PeanoNat.Nat.sub_diag.
    + apply IH in H. destruct H as (Hle & Hn). split; [now apply PeanoNat.Nat.lt_le_incl|].
      replace (j - i) with (S (j - S i)); [exact Hn|].
      rewrite <- PeanoNat.Nat.sub_succ_l by exact Hle. reflexivity.
Qed.

Lemma candidates_match : forall le_row bear_row rules args c,
  In c (candidates le_row bear_row rules args) ->
  nth_error rules (fst c) = Some (snd c) /\ matches bear_row args c = true.
Proof.
  intros le_row bear_row rules args c H. unfold candidates in H.
  apply fold_step_subset in H. destruct H as [[]|H].
  apply filter_In in H. destruct H as (Hn & Hm). split; [|exact Hm].
  destruct c as (j, x). apply in_number in Hn. destruct Hn as (_ & Hn).
  now rewrite PeanoNat.Nat.sub_0_r in Hn.
Qed.

Lemma resolve_unique_matches : forall le_row bear_row rules args i,
  resolve le_row bear_row rules args = Unique i ->
  exists r, nth_error rules i = Some r /\ matches bear_row args (i, r) = true.
Proof.
  intros le_row bear_row rules args i H. unfold resolve in H.
  pose proof (candidates_match le_row bear_row rules args) as HC.
  destruct (candidates le_row bear_row rules args) as [|c0 [|c1 cs]] eqn:E.
  - discriminate.
  - inversion H; subst. destruct c0 as (j, r). exists r. apply (HC (j, r)). now left.
  - set (l := c0 :: c1 :: cs) in *.
    destruct (filter _ l) as [|c [|]] eqn:F; try discriminate.
    inversion H; subst.
    assert (In c l). { assert (In c (filter (fun c2 => Z.eqb (eprec (snd c2)) (fold_left (fun m c2 => Z.max m (eprec (snd c2))) (c1 :: cs) (eprec (snd c0)))) l)) by (rewrite F; now left). apply filter_In in H0. tauto. }
    destruct c as (j, r). exists r. now apply HC.
Qed.

(* and conversely NotFound means that no registered rule matches *)
Lemma step_nonempty : forall le_row cands s, cands <> [] -> step le_row cands s <> [].
Proof.
  intros le_row cands s Hne. unfold step.
  destruct (negb (existsb _ cands)).
  - destruct cands; [contradiction | discriminate].
  - destruct (existsb (fun c => sle le_row (snd s) (snd c)) cands) eqn:E.
    + intros H. apply app_eq_nil in H. destruct H; discriminate.
    + (* nobody is >= s, so nothing is strictly above s: the filter keeps everything *)
      intros H. destruct cands as [|c cands]; [contradiction|].
      cbn [filter] in H. cbn [existsb] in E. apply orb_false_iff in E. destruct E as (E1 & _).
      unfold slt in H. rewrite E1 in H. cbn in H. discriminate.
Qed.

Lemma resolve_notfound : forall le_row bear_row rules args,
  resolve le_row bear_row rules args = NotFound ->
  forall i r, nth_error rules i = Some r -> matches bear_row args (i, r) = false.
Proof.
  intros le_row bear_row rules args H i r Hn. unfold resolve in H.
  destruct (candidates le_row bear_row rules args) as [|c0 [|c1 cs]] eqn:E.
  2:{ discriminate. }
  2:{ destruct (filter _ (c0 :: c1 :: cs)) as [|c [|]]; discriminate. }
  unfold candidates in E.
  destruct (matches bear_row args (i, r)) eqn:M; [|reflexivity]. exfalso.
  assert (In (i, r) (filter (matches bear_row args) (number 0 rules))).
  { apply filter_In. split; [|exact M].
    assert (K : forall l k j, nth_error l j = Some r -> In (k + j, r) (number k l)).
    { induction l as [|x l IH]; intros k j Hj.
      - destruct j; discriminate.
      - destruct j as [|j]; cbn in Hj.
        + inversion Hj; subst. cbn [number]. left. now rewrite PeanoNat.Nat.add_0_r.
        + cbn [number]. right. rewrite PeanoNat.Nat.add_succ_r. exact (IH (S k) j Hj). }
    exact (K rules 0 i Hn). }
  assert (G : forall l acc, (acc <> [] \/ l <> []) -> fold_left (step le_row) l acc <> []).
  { induction l as [|s l IH]; intros acc Hne; cbn [fold_left].
    - destruct Hne as [Hne|Hne]; [exact Hne | contradiction].
    - apply IH. left. destruct acc as [|a acc].
      + unfold step. cbn. discriminate.
      + apply step_nonempty. discriminate. }
  apply (G (filter (matches bear_row args) (number 0 rules)) []); [|exact E].
  right. intros Hnil. rewrite Hnil in H0. destruct H0.
Qed.

(* ---------- second level: calls made by the rules themselves ---------- *)
(* a template: inside rule (tcaller, registration trule) the function tcallee is called with required arguments
   ranging over treq and every optional argument passed in one of the listed ways *)
Record tmpl := mktmpl {
  tcaller : string; trule : N; tcallee : string;
  treq : list (list positive); topt : list (list aform)
}.

Definition mem (r : positive) (l : list positive) : bool := existsb (Pos.eqb r) l.
Definition subset (a b : list positive) : bool := forallb (fun r => mem r b) a.

Fixpoint nonpos_okb (opt : list aform) (ch : list (list positive)) : bool :=
  match opt, ch with
  | [], [] => true
  | Omit :: o', _ :: ch' => nonpos_okb o' ch'
  | Kw r :: o', c :: ch' => mem r c && nonpos_okb o' ch'
  | _, _ => false
  end.
Fixpoint form_okb (opt : list aform) (ch : list (list positive)) : bool :=
  match opt, ch with
  | [], [] => true
  | Pos r :: o', c :: ch' => mem r c && form_okb o' ch'
  | _, _ => nonpos_okb opt ch
  end.

Definition tmpl_ok (specs : list fspec) (t : tmpl) : bool :=
  match find (fun fs => String.eqb (fname fs) (tcallee t)) specs with
  | Some fs => all2 subset (treq t) (freq fs) && forallb (fun opt => form_okb opt (fopt fs)) (prod (topt t))
  | None => false
  end.

Lemma mem_In : forall r l, mem r l = true -> In r l.
Proof.
  intros r l H. unfold mem in H. apply existsb_exists in H. destruct H as (x & Hx & E).
  apply Pos.eqb_eq in E. now subst.
Qed.

Lemma nonpos_okb_sound : forall opt ch, nonpos_okb opt ch = true -> nonpos_ok opt ch.
Proof.
  induction opt as [|a o IH]; intros [|c ch] H; cbn in *; try discriminate; try exact I.
  - destruct a; discriminate.
  - destruct a as [r|r|]; try discriminate.
    + apply andb_true_iff in H. destruct H as (H1 & H2). split; [now apply mem_In | now apply IH].
    + now apply IH.
Qed.

Lemma form_okb_sound : forall opt ch, form_okb opt ch = true -> form_ok opt ch.
Proof.
  induction opt as [|a o IH]; intros [|c ch] H.
  - exact I.
  - cbn in H. discriminate.
  - cbn in H. destruct a; discriminate.
  - destruct a as [r|r|].
    + cbn [form_okb] in H. apply andb_true_iff in H. destruct H as (H1 & H2).
      cbn [form_ok]. split; [now apply mem_In | now apply IH].
    + cbn [form_okb] in H. cbn [form_ok]. now apply nonpos_okb_sound.
    + cbn [form_okb] in H. cbn [form_ok]. now apply nonpos_okb_sound.
Qed.

Lemma subset_Forall2 : forall (sets choices : list (list positive)) (req : list positive),
  all2 subset sets choices = true -> Forall2 (fun a c => In a c) req sets -> Forall2 (fun a c => In a c) req choices.
Proof.
  induction sets as [|s sets IH]; intros [|c choices] req H F; cbn in H; try discriminate.
  - inversion F. constructor.
  - inversion F as [|a s' req' sets' Ha F']; subst.
    apply andb_true_iff in H. destruct H as (H1 & H2).
    constructor.
    + unfold subset in H1. rewrite forallb_forall in H1. apply mem_In. now apply H1.
    + now apply IH.
Qed.

Lemma tmpl_ok_sound : forall specs t, tmpl_ok specs t = true ->
  exists fs, In fs specs /\ fname fs = tcallee t /\
    forall req opt, In req (prod (treq t)) -> In opt (prod (topt t)) ->
      Forall2 (fun a c => In a c) req (freq fs) /\ form_ok opt (fopt fs).
Proof.
  intros specs t H. unfold tmpl_ok in H.
  destruct (find (fun fs => String.eqb (fname fs) (tcallee t)) specs) as [fs|] eqn:F; [|discriminate].
  apply find_some in F. destruct F as (Hin & Hn). apply String.eqb_eq in Hn.
  apply andb_true_iff in H. destruct H as (H1 & H2). rewrite forallb_forall in H2.
  exists fs. repeat split; try assumption.
  - apply (subset_Forall2 (treq t)); [exact H1 | now apply in_prod].
  - apply form_okb_sound. now apply H2.
Qed.
