(* C07 - the final statements, about mathcomp's \det.
   slogdet_mxdet     : over every commutative ring with involution and every lawful carrier (V, L):
                       phase * exp(logabs) = \det of the represented matrix.
   slogdet_numfield  : over every mathcomp numFieldType with an involution cj compatible with the norm
                       (cj = id for real operators, cj = conjC for a numClosedFieldType):
                       sign * mag = \det,  `|sign| = 1,  0 < mag. *)
From Coq Require Import PeanoNat Ring_theory Field_theory.
From mathcomp Require Import all_ssreflect fingroup perm all_algebra.
From Core Require Import Base Kron Op FieldBase C07_DetLaws C07_MxBridge C07_Slogdet C07_Proofs C07_Field.
Set Implicit Arguments. Unset Strict Implicit. Unset Printing Implicit Defensive.
Import GRing.Theory Num.Theory.
Local Open Scope ring_scope.

Section General.
Variable R : comRingType.
Local Existing Instance mcRing.
Variable CR : CRing R.
Variables V L : Type.
Variable D : sdom (R:=R) V L.
Theorem slogdet_mxdet : sdom_laws V L D -> forall alg (e : sop (R:=R) L), valid V L D (mxdet R) alg e ->
  ev D (slogdet D all_fixed alg e) = vof D (mxdet R (dim e) (den (to_op e))).
Proof. move=> LW alg e Hv. exact: (slogdet_det_all V L D LW (mxdet R) (mx_DetLaws R) alg e Hv). Qed.
End General.

Section NumField.
Variable R : numFieldType.
Local Existing Instance mcRing.
Variable cj : R -> R.
Hypothesis cjD : forall x y, cj (x + y) = cj x + cj y.
Hypothesis cjM : forall x y, cj (x * y) = cj x * cj y.
Hypothesis cjK : forall x, cj (cj x) = x.
Hypothesis cj_norm : forall x : R, `|cj x| = `|x|.
Hypothesis cj_real : forall x : R, cj `|x| = `|x|.
Lemma cj0 : cj 0 = 0.
Proof. have H := cjD 0 0. rewrite addr0 in H. by apply: (addrI (cj 0)); rewrite -H addr0. Qed.
Lemma cj1 : cj 1 = 1.
Proof. by rewrite -[1]normr1 cj_real. Qed.
Definition numCRing : CRing R.
Proof. by refine (@Build_CRing R _ cj _ _ _ _ _); [exact: cjD|exact: cjM|exact: cjK|exact: cj0|exact: cj1]. Defined.
Local Existing Instance numCRing.
Definition numField : Field R.
Proof.
  refine (@Build_Field R _ (fun x => x^-1) (fun x y => x / y) _).
  constructor.
  - exact: (@Rth R (mcRing R)).
  - by move/eqP; rewrite oner_eq0.
  - by [].
  - by move=> p /eqP Hp; rewrite /= mulVf.
Defined.
Local Existing Instance numField.
Variables kabs ksgn : R -> R.
Definition nrm (x : R) : R := `|x|.
Lemma num_absval_laws : absval_laws nrm.
Proof. constructor; rewrite /nrm.
  - exact: normrM.
  - exact: normr1.
  - exact: normrN1.
  - by move=> x; rewrite normr_id.
  - by move=> x /eqP Hx; apply/eqP; rewrite normr_eq0.
  - exact: cj_norm.
  - exact: cj_real.
  - by move=> x; case: (eqVneq x 0) => [->|/eqP H]; [left|right].
Qed.
Definition numdom : sdom (R:=R) R R := fdom nrm kabs ksgn.

Theorem slogdet_numfield alg (e : sop (R:=R) R) : valid R R numdom (mxdet R) alg e ->
  let s := fst (slogdet numdom all_fixed alg e) in
  let m := snd (slogdet numdom all_fixed alg e) in
  s * m = \det (\matrix_(i < dim e, j < dim e) den (to_op e) i j) /\ `|s| = 1 /\ 0 < m.
Proof. move=> Hv s m.
  have E := slogdet_field nrm kabs ksgn num_absval_laws (mxdet R) (mx_DetLaws R) alg e Hv.
  have [U1 [U2 U3]] := slogdet_unit nrm kabs ksgn num_absval_laws (mxdet R) alg e Hv.
  split; first exact: E. split; first exact: U1.
  rewrite lt0r. apply/andP; split; first by apply/eqP.
  by apply/normr_idP.
Qed.
(* logdet in multiplicative form is the modulus of the determinant; hence  |det| < 1  iff  logabs "negative" (mag < 1) *)
Theorem logdet_numfield alg (e : sop (R:=R) R) : valid R R numdom (mxdet R) alg e ->
  logdet numdom all_fixed alg e = `|\det (\matrix_(i < dim e, j < dim e) den (to_op e) i j)|.
Proof. move=> Hv. have [E [U1 U2]] := slogdet_numfield Hv. rewrite -E normrM U1 mul1r /logdet. by rewrite gtr0_norm. Qed.
End NumField.

(* real operators: the sign is exactly the sign (+1 / -1) of the determinant *)
Section RealField.
Variable R : realFieldType.
Local Existing Instance mcRing.
Variables kabs ksgn : R -> R.
Definition realCRing : CRing R := @numCRing R (fun x => x) (fun _ _ => erefl) (fun _ _ => erefl) (fun _ => erefl) (fun _ => erefl).
Definition realdom : sdom (R:=R) R R := @numdom R (fun x => x) (fun _ _ => erefl) (fun _ _ => erefl) (fun _ => erefl) (fun _ => erefl) kabs ksgn.
Theorem slogdet_realfield alg (e : sop (R:=R) R) : @valid R (mcRing R) realCRing R R realdom (mxdet R) alg e ->
  let s := fst (slogdet realdom all_fixed alg e) in
  let d := \det (\matrix_(i < dim e, j < dim e) @den R (mcRing R) realCRing (to_op e) i j) in
  s = Num.sg d /\ (s = 1 \/ s = -1) /\ d != 0.
Proof. move=> Hv s d.
  have [E [U1 U2]] := @slogdet_numfield R (fun x => x) (fun _ _ => erefl) (fun _ _ => erefl) (fun _ => erefl) (fun _ => erefl) (fun _ => erefl) kabs ksgn alg e Hv.
  rewrite -/s in E U1. rewrite -/d in E.
  have Hs : s = Num.sg s by rewrite [LHS]numEsg U1 mulr1.
  have Hd : Num.sg d = Num.sg s by rewrite -E sgrM (gtr0_sg U2) mulr1.
  have Hs0 : s != 0 by rewrite -normr_eq0 U1 oner_eq0.
  split; first by rewrite Hd. split.
  - rewrite Hs. case: (sgrP s) Hs0 => //; by [left | right].
  - rewrite -E mulf_neq0 //. by move: U2; rewrite lt0r => /andP [].
Qed.
End RealField.

(* the hypotheses on the involution are satisfiable: identity (real operators) ... *)
Lemma cj_id_ok (R : numFieldType) : let cj := (fun x : R => x) in
  (forall x y, cj (x + y) = cj x + cj y) /\ (forall x y, cj (x * y) = cj x * cj y) /\ (forall x, cj (cj x) = x) /\
  (forall x, `|cj x| = `|x|) /\ (forall x : R, cj `|x| = `|x|).
Proof. by []. Qed.
(* ... and complex conjugation of a numClosedFieldType *)
Lemma cj_conjC_ok (C : numClosedFieldType) : let cj := (fun x : C => x^*) in
  (forall x y, cj (x + y) = cj x + cj y) /\ (forall x y, cj (x * y) = cj x * cj y) /\ (forall x, cj (cj x) = x) /\
  (forall x, `|cj x| = `|x|) /\ (forall x : C, cj `|x| = `|x|).
Proof. split; first exact: rmorphD. split; first exact: rmorphM. split; first exact: conjCK.
  split; first exact: norm_conjC. exact: conj_normC. Qed.
