(* C06 - consequences of inv_den: solve, left products and transposes of the inverse, the Auto table, consistency of
   TriangularInv's backward product, satisfiability of the hypotheses. *)
From Coq Require Import Arith Lia List Ring Field ArithRing PeanoNat Bool NArith QArith Qcanon.
From Core Require Import Base Kron KronAlg Op OpProofs Algebra AlgebraProofs AlgebraKron FieldBase C06_Inv C06_Proofs C06_Struct.
Import ListNotations.
Section T.
Context {R : Type} {RR : Ring R} {CR : CRing R} {FR : Field R}.
Add Ring Rring : Rth.
Open Scope R_scope.
Notation fm := (fm (R:=R)). Notation arr := (arr (R:=R)). Notation op := (op (R:=R)).
Notation iop := (iop (R:=R)). Notation ires := (ires (R:=R)).
Variable gmres_amb : bool.
Variable fwd_strict : bool.
Variable lu_o : nat -> fm -> (nat -> nat) * fm * fm.
Variable chol_o : nat -> fm -> fm.
Variable tinv_o : nat -> fm -> bool -> fm.
Variable iter_o : itag -> op -> fm.
Notation inv := (inv gmres_amb fwd_strict lu_o chol_o).
Notation base := (base lu_o chol_o).
Notation to_op := (to_op tinv_o iter_o).
Notation ok := (ok fwd_strict lu_o chol_o iter_o).
Notation tinv_ok := (tinv_ok tinv_o).
Notation solve := (solve gmres_amb fwd_strict lu_o chol_o tinv_o iter_o).
Notation lsolve := (lsolve gmres_amb fwd_strict lu_o chol_o tinv_o iter_o).


(* inv(A, alg) @ b and solve(A, b, alg) solve A x = b *)
Theorem solve_correct : tinv_ok -> forall al e a (X Y : arr), wf e = true -> is_sq e = true -> ok al e a ->
  nr X = fst (shape e) -> solve al e a X = Some Y ->
  nr Y = fst (shape e) /\ nc Y = nc X /\ feq (fst (shape e)) (nc X) (mmul (fst (shape e)) (den e) (dat Y)) (dat X).
Proof. intros TO al e a X Y W Sq OK HX H. unfold C06_Inv.solve in H. destruct (inv al e a) as [r|] eqn:E; [|discriminate]. inversion H; subst Y; clear H.
  destruct (inv_den gmres_amb fwd_strict lu_o chol_o tinv_o iter_o TO e al a r W Sq OK E) as (Wr & Sr & I).
  pose proof (sq_shape e Sq) as Sh. set (n := fst (shape e)) in *.
  destruct (proj1 (mm_den (to_op r) Wr) X) as (E1 & E2 & E3); [rewrite Sr, Sh; exact HX|].
  cbn [spec nr nc dat] in E1, E2, E3. rewrite Sr, Sh in E1, E3. cbn [fst snd] in E1, E3.
  split; [exact E1|]. split; [exact E2|]. intros i j Hi Hj.
  transitivity (mmul n (den e) (mmul n (den (to_op r)) (dat X)) i j).
  - apply (mmul_ext n n (nc X)); auto using feq_refl. intros p q Hp Hq. apply E3; [rewrite E1; exact Hp|rewrite E2; exact Hq].
  - rewrite <- mmul_assoc. transitivity (mmul n eye (dat X) i j); [|apply mmul_eye_l; auto].
    apply (mmul_ext n n (nc X)); auto using feq_refl. apply (proj2 I). Qed.

(* b @ inv(A, alg) is b A^-1 *)
Theorem inv_left_product : tinv_ok -> forall al e a (X Y : arr), wf e = true -> is_sq e = true -> ok al e a ->
  nc X = fst (shape e) -> lsolve al e a X = Some Y ->
  nr Y = nr X /\ nc Y = fst (shape e) /\ feq (nr X) (fst (shape e)) (mmul (fst (shape e)) (dat Y) (den e)) (dat X).
Proof. intros TO al e a X Y W Sq OK HX H. unfold C06_Inv.lsolve in H. destruct (inv al e a) as [r|] eqn:E; [|discriminate]. inversion H; subst Y; clear H.
  destruct (inv_den gmres_amb fwd_strict lu_o chol_o tinv_o iter_o TO e al a r W Sq OK E) as (Wr & Sr & I).
  pose proof (sq_shape e Sq) as Sh. set (n := fst (shape e)) in *.
  destruct (proj2 (mm_den (to_op r) Wr) X) as (E1 & E2 & E3); [rewrite Sr, Sh; exact HX|].
  cbn [rspec nr nc dat] in E1, E2, E3. rewrite Sr, Sh in E2, E3. cbn [fst snd] in E2, E3.
  split; [exact E1|]. split; [exact E2|]. intros i j Hi Hj.
  transitivity (mmul n (mmul n (dat X) (den (to_op r))) (den e) i j).
  - apply (mmul_ext (nr X) n n); auto using feq_refl. intros p q Hp Hq. apply E3; [rewrite E1; exact Hp|rewrite E2; exact Hq].
  - rewrite mmul_assoc. transitivity (mmul n (dat X) eye i j); [|apply mmul_eye_r; auto].
    apply (mmul_ext (nr X) n n); auto using feq_refl. apply (proj1 I). Qed.

(* inv(A, alg).T is the inverse of A^T *)
Theorem inv_transpose : tinv_ok -> forall al e a r sa, wf e = true -> is_sq e = true -> ok al e a -> inv al e a = IOk r ->
  (sa = true -> symmetric (to_op r)) ->
  let t := transpose sa (to_op r) in
  wf t = true /\ shape t = shape e /\ inv2 (fst (shape e)) (den t) (fun i j => den e j i).
Proof. intros TO al e a r sa W Sq OK E HS t.
  destruct (inv_den gmres_amb fwd_strict lu_o chol_o tinv_o iter_o TO e al a r W Sq OK E) as (Wr & Sr & I).
  destruct (transpose_sound sa (to_op r) Wr HS) as (Wt & St & Dt). pose proof (sq_shape e Sq) as Sh.
  split; [exact Wt|]. split; [unfold t; rewrite St, Sr, Sh; reflexivity|].
  rewrite Sr, Sh in Dt. cbn [fst snd] in Dt. eapply inv2_ext; [apply feq_sym; exact Dt|apply feq_refl|]. apply inv2_transpose. exact I. Qed.

(* TriangularInv._rmatmat solves with the transposed matrix: in exact arithmetic that is the same operator as the forward solve,
   which is why the model represents TriangularInv by one matrix *)
Theorem triinv_backward_consistent : tinv_ok -> forall n T lo, tri lo n T -> nzdiag n T ->
  feq n n (fun i j => tinv_o n (fun a b => T b a) (negb lo) j i) (tinv_o n T lo).
Proof. intros TO n T lo HT HN.
  assert (HT' : tri (negb lo) n (fun a b => T b a)). { destruct lo; cbn [negb tri] in *; intros i j Hi Hj Hlt; apply HT; auto. }
  pose proof (TO n (fun a b => T b a) (negb lo) HT' HN) as I1. apply inv2_transpose in I1. cbn beta in I1.
  pose proof (TO n T lo HT HN) as I2.
  apply (inv2_unique n _ T _); [apply (proj1 I1)|apply (proj2 I2)]. Qed.

(* the Auto rule *)
Definition generic (e : op) (a : atree) : bool :=
  match e with
  | Ident _ | Scal _ _ | Diag _ _ | Perm _ _ | Kron _ | BDiag _ => false
  | Dense _ => match atri a with Some _ => false | None => true end
  | Prod ms => negb (forallb is_sq ms)
  | _ => true
  end.
(* kinds whose rule (<kind>, Algorithm) has precedence 0 like the GMRES base rule *)
Definition tied (e : op) (a : atree) : bool :=
  match e with
  | Ident _ | Scal _ _ | Diag _ _ | Perm _ _ | Kron _ | BDiag _ => true
  | Dense _ => match atri a with Some _ => true | None => false end
  | _ => false
  end.
Theorem auto_choice_table :
  auto_choice true true = AChol /\ auto_choice true false = ACG /\ auto_choice false true = ALU /\ auto_choice false false = AGMRES
  /\ (forall m n, size_small (m, n) = true <-> (N.of_nat m * N.of_nat n <= 1000000)%N)
  /\ size_small (1000%nat, 1000%nat) = true /\ size_small (1001%nat, 1001%nat) = false
  /\ (forall e a, generic e a = true -> inv AAuto e a = base (auto_choice (apsd a) (size_small (shape e))) e a)
  /\ (forall e a, tied e a = true -> gmres_amb = true -> inv AGMRES e a = IErr EAmbig).
Proof. repeat split; try reflexivity.
  - unfold size_small. cbn [fst snd]. apply N.leb_le.
  - unfold size_small. cbn [fst snd]. apply N.leb_le.
  - intros e a G.
    assert (B : base AAuto e a = base (auto_choice (apsd a) (size_small (shape e))) e a).
    { unfold C06_Inv.base, base_alg. destruct (apsd a), (size_small (shape e)); reflexivity. }
    destruct e; cbn [generic] in G; try discriminate; cbn [C06_Inv.inv]; try exact B.
    + destruct (atri a); [discriminate|exact B].
    + apply negb_true_iff in G. rewrite G. exact B.
  - intros e a G F. destruct e; cbn [tied] in G; try discriminate; cbn [C06_Inv.inv]; unfold amb; rewrite ?F; try reflexivity.
    destruct (atri a); [reflexivity|discriminate].
Qed.
End T.

(* the hypotheses of inv_den are satisfiable: Diagonal (x) (3 * Permutation) over the Gaussian rationals *)
Definition ex_tree : op (R:=qi) :=
  Kron [Diag 2 (qof_vec [qic 2 1 0 1; qic 0 1 1 1]); Prod [Scal (qic 3 1 0 1) 2; Perm 2 (fun i => match i with 0 => 1 | _ => 0 end)%nat]].
Lemma qi_nz (x : qi) : qi_eqb x qi0 = false -> x <> r0.
Proof. intros H E. subst x. vm_compute in H. discriminate. Qed.
Lemma ex_ok : forall fwd lu_o chol_o iter_o, wf ex_tree = true /\ is_sq ex_tree = true /\ ok fwd lu_o chol_o iter_o AAuto ex_tree adef.
Proof. intros fwd lu ch it. split; [vm_compute; reflexivity|]. split; [vm_compute; reflexivity|].
  cbn [ok ex_tree akids adef map zipapp]. split; [vm_compute; reflexivity|].
  constructor.
  - intros i Hi. apply qi_nz. destruct i as [|[|i]]; [vm_compute; reflexivity|vm_compute; reflexivity|lia].
  - constructor; [|constructor].
    replace (forallb is_sq [Scal (qic 3 1 0 1) 2; Perm 2 (fun i => match i with 0 => 1 | _ => 0 end)%nat]) with true by (vm_compute; reflexivity).
    cbn [map zipapp]. constructor; [apply qi_nz; vm_compute; reflexivity|]. constructor; [|constructor].
    split.
    + intros i Hi. destruct i as [|[|i]]; cbn; lia.
    + intros i j Hi Hj. destruct i as [|[|i]], j as [|[|j]]; cbn; intros; try lia; try discriminate. Qed.

(* flag inv_psd_alg_forwarded_to_factors: on the pinned rules (fwd_strict = true) inv(PSD(Kronecker(PSD(D), D)), Cholesky()) raises the
   factor's assertion although the operator is declared PSD; the repaired rules (fwd_strict = false) return an operator *)
Definition fw_tree : op (R:=qi) := Kron [Dense (qof_list_mn 1 1 [[qic 2 1 0 1]]); Dense (qof_list_mn 1 1 [[qic 3 1 0 1]])].
Definition fw_ann : atree := AN true false true None [AN true false true None []; AN false false false None []].
Lemma fwd_pinned_refuted : forall g lu_o chol_o,
  inv g true lu_o chol_o AChol fw_tree fw_ann = IErr EAssert /\ (exists r, inv g false lu_o chol_o AChol fw_tree fw_ann = IOk r).
Proof. intros g lu ch. split; [reflexivity|]. cbn [C06_Inv.inv fw_tree fw_ann akids apsd map zipapp child_alg andb negb amb].
  unfold C06_Inv.base, base_alg. cbn [apsd auto_choice]. unfold is_sq, size_small. cbn [shape nr nc qof_list_mn fst snd Nat.eqb].
  destruct (lu 1%nat _) as [[p L] U]. cbn [seqres lift]. eexists. reflexivity. Qed.
