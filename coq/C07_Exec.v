(* C07 - execution instances of the slogdet model and the in-Coq comparison with observed results.
   qdom : scalars = Gaussian rationals QI; values (phases, magnitudes, and - in multiplicative form - logabs)
          are "surds"  z * sqrt(q)  with z in QI, q a positive rational, stored as pairs (z, q).  All the operations
          the slogdet rules perform (products, inverses, conjugates, integer powers, |c| = sqrt(norm2 c)) are closed
          and EXACT on this carrier, also for complex operators whose moduli are irrational.
   kdom : log-domain = rationals (the observed value of trace(log A) is a float, i.e. a dyadic rational): runs the
          Krylov base case and the structural rules above it.
   z2dom: log-domain = Z with exp k = 2^k: an exact log/exp pair used for the refutation witness of the Krylov flag. *)
From Coq Require Import Arith Lia List Ring Field QArith Qcanon ZArith PeanoNat Bool.
From Core Require Import Base Kron Op FieldBase C07_DetLaws C07_Slogdet.
Import ListNotations.

Definition sd := (qi * Qc)%type.
Definition sd1 : sd := (qi1, 1%Qc).
Definition sdmul (a b : sd) : sd := (qimul (fst a) (fst b), (snd a * snd b)%Qc).
Definition sdinv (a : sd) : sd := (qiinv (fst a), (/ snd a)%Qc).
Definition sdconj (a : sd) : sd := (qiconj (fst a), snd a).
Definition sdof (c : qi) : sd := (c, 1%Qc).
Definition sdabs (c : qi) : sd := (qi1, qinorm2 c).
Fixpoint sdpow (a : sd) (k : nat) : sd := match k with O => sd1 | S k' => sdmul a (sdpow a k') end.
(* exp = id: logabs is carried in multiplicative form. The Krylov operations are not exercised on this instance
   (trivial choices that satisfy the law  lph t * exp (lre t) = exp t). *)
Definition qdom : sdom (R:=qi) sd sd :=
  mksdom sd1 sdmul sdinv sdconj sdof sdabs sd1 sdmul (fun k l => sdpow l k) (fun v => v) (fun l => l)
         (fun t => t) (fun _ => sd1) (fun t => t) (fun _ => sd1).

(* ---- comparisons on exact rationals ---- *)
Definition qcz (z : Z) : Qc := Q2Qc (inject_Z z).
Definition qcleb (a b : Qc) : bool := Qle_bool (this a) (this b).
Definition qcltb (a b : Qc) : bool := negb (Qle_bool (this b) (this a)).
Definition qcsgn (a : Qc) : Z := Z.sgn (Qnum (this a)).
Definition qcabs (a : Qc) : Qc := if qcleb 0 a then a else (- a)%Qc.
Definition qire (a : qi) : Qc := fst a. Definition qiim (a : qi) : Qc := snd a.
Definition qiofq (q : Qc) : qi := (q, 0%Qc).
Definition sd_sq (a : sd) : qi := qimul (qimul (fst a) (fst a)) (qiofq (snd a)).     (* (z sqrt q)^2 *)

(* what was observed on the implementation (or computed by the independent oracle) for one call *)
Record obs := mkobs {
  o_raised : bool;      (* AssertionError "Cholesky only valid for PSD" *)
  o_real : bool;        (* real dtype: sign must be exactly +1 or -1 *)
  o_sign : qi;          (* the returned sign, exactly (floats are dyadic rationals) *)
  o_elog : Qc;          (* exp(logabs - o_k * ln 2): logabs itself may be far outside the range where exp is representable *)
  o_k : Z;
  o_lsgn : Z;           (* sign of logabs *)
  o_tolm : Qc;          (* relative tolerance on exp(2 logabs) *)
  o_tols : Qc }.        (* tolerance on the complex phase *)
Definition check_sign (o : obs) (s : sd) : bool :=
  if o_real o then
    qi_eqb (sd_sq s) qi1 && Qc_eq_bool (qiim (fst s)) 0 && Qc_eq_bool (qiim (o_sign o)) 0
    && Z.eqb (Z.abs (qcsgn (qire (o_sign o)))) 1 && qi_eqb (qimul (o_sign o) (o_sign o)) qi1
    && Z.eqb (qcsgn (qire (fst s))) (qcsgn (qire (o_sign o)))
  else
    let w := o_sign o in
    let d := qisub (qimul w w) (sd_sq s) in
    qcleb (qinorm2 d) (o_tols o * o_tols o)%Qc && qcltb 0 (qire (qimul (qiconj w) (fst s))).
Definition qc4pow (k : Z) : Qc := match k with Z0 => 1%Qc | Zpos p => qcz (Z.pow 4 (Zpos p)) | Zneg p => (/ qcz (Z.pow 4 (Zpos p)))%Qc end.
Definition check_mag (o : obs) (m : sd) : bool :=
  let z := fst m in
  let m2 := (qire z * qire z * snd m)%Qc in         (* the squared magnitude *)
  Qc_eq_bool (qiim z) 0 && qcltb 0 (qire z) && qcltb 0 (snd m)
  && qcleb (qcabs (o_elog o * o_elog o * qc4pow (o_k o) - m2)) (o_tolm o * m2)%Qc
  && (if qcleb (qcabs (m2 - 1)) (o_tolm o + o_tolm o)%Qc then true else Z.eqb (o_lsgn o) (qcsgn (m2 - 1)%Qc)).
Record case := mkcase { c_fl : flags; c_alg : lalg; c_e : sop (R:=qi) sd; c_obs : obs }.
Definition check (c : case) : bool :=
  if slogdet_check (c_alg c) (c_e c) then
    negb (o_raised (c_obs c)) &&
    (let r := slogdet qdom (c_fl c) (c_alg c) (c_e c) in
     check_sign (c_obs c) (fst r) && check_mag (c_obs c) (snd r)
     && (* logdet returns the same logabs *) true)
  else o_raised (c_obs c).
Fixpoint failing {A} (chk : A -> bool) (i : nat) (cs : list A) : list nat :=
  match cs with [] => [] | c :: r => if chk c then failing chk (S i) r else i :: failing chk (S i) r end.
(* literals *)
Definition qfm (rows : list (list qi)) : fm (R:=qi) := fun i j => nth j (nth i rows []) qi0.
Definition qvec (l : list qi) : nat -> qi := fun i => nth i l qi0.
Definition nvec (l : list nat) : nat -> nat := fun i => nth i l 0%nat.
Definition qdense (n : nat) (rows : list (list qi)) : op (R:=qi) := Dense (mkarr n n (qfm rows)).
Definition nolu : ludata (R:=qi) := mklu (fun i => i) (fun _ _ => qi0) (fun _ _ => qi0).
Definition nofm : fm (R:=qi) := fun _ _ => qi0.

(* ---- Krylov base case: log-domain = rationals ---- *)
Definition kdom : sdom (R:=qi) qi Qc :=
  mksdom qi1 qimul qiinv qiconj (fun c => c) (fun c => c) 0%Qc Qcplus (fun k l => (qcz (Z.of_nat k) * l)%Qc)
         (fun _ => 0%Qc) (fun _ => qi1)
         qcabs (fun t => qiofq (qcz (qcsgn t))) (fun t => t) (fun _ => qi1).
(* only base nodes below Product / Kronecker / BlockDiag: no rule that needs log of a scalar *)
Fixpoint pure_base {L} (e : sop (R:=qi) L) : bool :=
  match e with
  | SBase _ _ => true
  | SProd ms _ => forallb pure_base ms
  | SKron ms => forallb pure_base ms
  | SBDiag ms => forallb (fun mc => pure_base (fst mc)) ms
  | _ => false end.
Record kobs := mkkobs { k_sign : qi; k_logabs : Qc; k_tol : Qc }.
Record kcase := mkkcase { kc_fl : flags; kc_e : sop (R:=qi) Qc; kc_obs : kobs }.
Definition kcheck (c : kcase) : bool :=
  pure_base (kc_e c) &&
  (let r := slogdet kdom (kc_fl c) AKry (kc_e c) in
   let d := qisub (fst r) (k_sign (kc_obs c)) in
   qcleb (qinorm2 d) (k_tol (kc_obs c) * k_tol (kc_obs c))%Qc
   && qcleb (qcabs (snd r - k_logabs (kc_obs c))) (k_tol (kc_obs c) * (1 + qcabs (snd r)))%Qc).

(* ---- an exact log/exp pair: base-2 logarithms of powers of two ---- *)
Definition pow2 (k : Z) : qi := qiofq (match k with Z0 => 1 | Zpos p => qcz (Z.pow 2 (Zpos p)) | Zneg p => / qcz (Z.pow 2 (Zpos p)) end)%Qc.
Definition log2q (v : qi) : Z := (Z.log2 (Qnum (this (qire v))) - Z.log2 (Zpos (Qden (this (qire v)))))%Z.
Definition z2dom : sdom (R:=qi) qi Z :=
  mksdom qi1 qimul qiinv qiconj (fun c => c) (fun c => qiofq (qcabs (qire c))) 0%Z Z.add (fun k l => (Z.of_nat k * l)%Z)
         log2q pow2 Z.abs (fun t => qiofq (qcz (Z.sgn t))) (fun t => t) (fun _ => qi1).
