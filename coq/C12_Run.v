(* C12: the theorems of C12_Krylov.v transported to the observable result of [run_cg]:
   column independence (stage B) and optimality of every returned column (stage C). *)
From Coq Require Import List Bool Arith Lia Ring Field.
From Core Require Import C12_Ops C12_Model C12_Contract C12_Krylov.
Import ListNotations.

Section Columns.
Context {T V : Type} (o : ops T) (vo : vops T V).
Variables (A P : V -> V) (flag : bool) (tol : T) (bs x0s : list V).

Lemma nth_error_combine {X Y} : forall (l : list X) (l' : list Y) j a b,
  nth_error l j = Some a -> nth_error l' j = Some b -> nth_error (combine l l') j = Some (a, b).
Proof. induction l as [|x l IH]; intros [|y l'] [|j] a b Ha Hb; try discriminate.
  - inversion Ha; inversion Hb; reflexivity.
  - cbn. apply IH; assumption. Qed.

(* Stage B: the state of column j after k steps of the batched loop is the k-fold step of that column alone;
   the other columns influence only WHEN the loop stops, never the values *)
Theorem cg_column_independent : forall k j b x0,
  nth_error bs j = Some b -> nth_error x0s j = Some x0 ->
  nth_error (fst (cg_state o vo A P flag tol bs x0s k)) j
  = Some (Nat.iter k (step_col o vo A P) (init_col o vo A P flag tol b x0)).
Proof.
  induction k as [|k IH]; intros j b x0 Hb Hx.
  - unfold cg_state, cg_init. cbn [Nat.iter nat_rect fst]. rewrite nth_error_map, (nth_error_combine _ _ _ _ _ Hb Hx). reflexivity.
  - rewrite cg_state_S. unfold cg_body. cbn [fst]. rewrite nth_error_map, (IH j b x0 Hb Hx). reflexivity.
Qed.
End Columns.

Section RunOptimal.
Context {T V : Type} (o : ops T) (vo : vops T V).
Notation "0" := (o0 o) : T_scope.
Notation "1" := (o1 o) : T_scope.
Notation "x + y" := (oadd o x y) : T_scope.
Notation "x * y" := (omul o x y) : T_scope.
Notation "x - y" := (osub o x y) : T_scope.
Notation "x / y" := (odiv o x y) : T_scope.
Notation "- x" := (oopp o x) : T_scope.
Notation conj := (oconj o).
Notation dot := (vdot vo).
Local Open Scope T_scope.
Hypothesis Fth : field_theory 0 1 (oadd o) (omul o) (osub o) (oopp o) (odiv o) (fun x => 1 / x) eq.
Hypothesis conj_add : forall a b, conj (a + b) = conj a + conj b.
Hypothesis conj_mul : forall a b, conj (a * b) = conj a * conj b.
Hypothesis conj_opp : forall a, conj (- a) = - conj a.
Hypothesis conj_div : forall a b, conj (a / b) = conj a / conj b.
Variables (A P : V -> V).
Hypothesis dot_add_r : forall u v w, dot u (vadd vo v w) = dot u v + dot u w.
Hypothesis dot_sub_r : forall u v w, dot u (vsub vo v w) = dot u v - dot u w.
Hypothesis dot_scale_r : forall u a v, dot u (vscale vo a v) = a * dot u v.
Hypothesis dot_sym : forall u v, dot u v = conj (dot v u).
Hypothesis A_sa : forall u v, dot u (A v) = dot (A u) v.
Hypothesis P_sa : forall u v, dot u (P v) = dot (P u) v.
Variables (flag : bool) (tol : T) (max_iters : nat) (bs x0s : list V).

(* For the run on (bs, x0s): take any column j, with right-hand side b and initial guess x0.  The loop works on
   bn = b / ||b|| from the starting point [cx c0] (x0 / ||b|| on a repaired tree, x0 on the pinned one).  If the
   guards stay inactive and no breakdown occurs before the loop stops, the returned column is ||b|| * x_k where
   x_k minimises the A-norm of the error over  cx c0 + span{p_0, ..., p_(k-1)}  and k = steps. *)
Theorem cg_run_optimal : forall j b x0,
  nth_error bs j = Some b -> nth_error x0s j = Some x0 ->
  let r := run_cg o vo A P flag tol max_iters bs x0s in
  let c0 := init_col o vo A P flag tol b x0 in
  let bn := safe_vdiv o vo b (vnorm o vo b) in
  (forall k, k < steps r -> regular o vo A (cs o vo A P c0 k) /\ cgam (cs o vo A P c0 k) <> 0 /\ d o vo A P c0 k <> 0) ->
  forall xs, (forall u, dot u (A xs) = dot u bn) ->
  exists xk, nth_error (sol r) j = Some (vscale vo (cmult c0) xk) /\
    (forall u, dot u xk = dot u (vadd vo (cx c0) (comb o vo A P c0 (steps r) (al o vo A P c0)))) /\
    forall (Pos : T -> Prop), (forall v, Pos (dot v (A v))) ->
      forall c, Pos (phi vo A xs (vadd vo xk (comb o vo A P c0 (steps r) c)) - phi vo A xs xk).
Proof.
  intros j b x0 Hb Hx r c0 bn Hreg xs Hxs.
  pose proof (cg_contract o vo A P flag tol max_iters bs x0s) as C. cbv zeta in C.
  destruct C as (_ & _ & _ & _ & Hsol & _). unfold the_run in Hsol. fold r in Hsol.
  pose proof (cg_column_independent o vo A P flag tol bs x0s (steps r) j b x0 Hb Hx) as Hcol. fold c0 in Hcol.
  exists (cx (cs o vo A P c0 (steps r))).
  assert (Hm : forall k, cmult (Nat.iter k (step_col o vo A P) c0) = cmult c0).
  { induction k as [|k IH]; [reflexivity|]. cbn [Nat.iter nat_rect]. unfold step_col at 1. cbn [cmult]. exact IH. }
  split; [|split].
  - rewrite Hsol, nth_error_map, Hcol. cbn [option_map]. rewrite Hm. reflexivity.
  - intros u. apply (x_in_span o vo Fth A P dot_add_r dot_scale_r c0 (steps r) Hreg). lia.
  - intros Pos HA c.
    apply (cg_optimal o vo Fth conj_add conj_mul conj_opp conj_div A P dot_add_r dot_sub_r dot_scale_r dot_sym A_sa P_sa
             c0 eq_refl eq_refl (steps r) Hreg bn); auto.
    intros u. unfold c0, init_col. cbn [cr cx]. apply dot_sub_r.
Qed.

(* the same with the Krylov space itself: the returned column is ||b|| * x_k, x_k lies in  (start) + K_k(PA, P r0)
   and has the smallest A-norm of the error in that affine space; k = steps *)
Theorem cg_run_optimal_krylov : forall j b x0,
  nth_error bs j = Some b -> nth_error x0s j = Some x0 ->
  let r := run_cg o vo A P flag tol max_iters bs x0s in
  let c0 := init_col o vo A P flag tol b x0 in
  let bn := safe_vdiv o vo b (vnorm o vo b) in
  (forall k, k < steps r -> regular o vo A (cs o vo A P c0 k) /\ cgam (cs o vo A P c0 k) <> 0 /\ d o vo A P c0 k <> 0) ->
  forall xs, (forall u, dot u (A xs) = dot u bn) ->
  exists xk, nth_error (sol r) j = Some (vscale vo (cmult c0) xk) /\
    (exists v, Sp o vo (kgen A P c0) (steps r) v /\ weq vo xk (vadd vo (cx c0) v)) /\
    forall (Pos : T -> Prop), (forall v, Pos (dot v (A v))) ->
      forall v, Sp o vo (kgen A P c0) (steps r) v -> Pos (phi vo A xs (vadd vo (cx c0) v) - phi vo A xs xk).
Proof.
  intros j b x0 Hb Hx r c0 bn Hreg xs Hxs.
  pose proof (cg_contract o vo A P flag tol max_iters bs x0s) as C. cbv zeta in C.
  destruct C as (_ & _ & _ & _ & Hsol & _). unfold the_run in Hsol. fold r in Hsol.
  pose proof (cg_column_independent o vo A P flag tol bs x0s (steps r) j b x0 Hb Hx) as Hcol. fold c0 in Hcol.
  exists (cx (cs o vo A P c0 (steps r))).
  assert (Hm : forall k, cmult (Nat.iter k (step_col o vo A P) c0) = cmult c0).
  { induction k as [|k IH]; [reflexivity|]. cbn [Nat.iter nat_rect]. unfold step_col at 1. cbn [cmult]. exact IH. }
  assert (Hr0 : forall u, dot u (cr c0) = dot u bn - dot u (A (cx c0))).
  { intros u. unfold c0, init_col. cbn [cr cx]. apply dot_sub_r. }
  split; [|split].
  - rewrite Hsol, nth_error_map, Hcol. cbn [option_map]. rewrite Hm. reflexivity.
  - apply (cg_optimal_krylov o vo Fth conj_add conj_mul conj_opp conj_div A P dot_add_r dot_sub_r dot_scale_r dot_sym A_sa P_sa
             c0 eq_refl eq_refl (steps r) Hreg bn Hr0 xs Hxs (fun _ => True) (fun _ => I) (steps r) (le_n _)).
  - intros Pos HA.
    apply (cg_optimal_krylov o vo Fth conj_add conj_mul conj_opp conj_div A P dot_add_r dot_sub_r dot_scale_r dot_sym A_sa P_sa
             c0 eq_refl eq_refl (steps r) Hreg bn Hr0 xs Hxs Pos HA (steps r) (le_n _)).
Qed.
End RunOptimal.
