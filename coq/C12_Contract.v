(* C12, stage A: the stopping contract and the bookkeeping of the CG model (C12_Model.v), for every scalar and
   vector instance (no law is needed for these), and the zero right-hand-side clause for the list instance over
   any scalars in which 0 is absorbing.  Nothing here is specific to floats or to exact arithmetic: the theorems
   hold for the very term the correspondence check executes on PrimFloat. *)
From Coq Require Import List Bool Arith Lia.
From Core Require Import C12_Ops C12_Model.
Import ListNotations.

(* ------------------------------------------------------------------ the instrumented while loop *)
Section While.
Context {T St : Type}.
Variables (cond : St -> bool) (body : St -> St) (err : St -> T).

Lemma iter_succ_r (j : nat) (s : St) : Nat.iter (S j) body s = Nat.iter j body (body s).
Proof. induction j as [|j IH]; [reflexivity|]. change (Nat.iter (S (S j)) body s) with (body (Nat.iter (S j) body s)).
  rewrite IH. reflexivity. Qed.

Lemma wloop_spec : forall fuel s its errs nb out its' errs' nb',
  wloop cond body err fuel s its errs nb = (out, its', errs', nb') ->
  exists j, j <= fuel /\ nb' = nb + j /\ its' = its + j + 1 /\ length errs' = length errs + j + 1 /\
    out = Nat.iter j body s /\ (forall i, i < j -> cond (Nat.iter i body s) = true) /\
    (j = fuel \/ cond out = false).
Proof.
  induction fuel as [|f IH]; intros s its errs nb out its' errs' nb' H; cbn [wloop] in H.
  - inversion H; subst. exists 0. cbn [length Nat.iter nat_rect].
    split; [lia|]. split; [lia|]. split; [lia|]. split; [lia|]. split; [reflexivity|]. split; [intros; lia|now left].
  - destruct (cond s) eqn:C.
    + apply IH in H. destruct H as (j & Hj & Hnb & Hits & Hlen & Hout & Hall & Hex).
      exists (S j). cbn [length] in Hlen.
      split; [lia|]. split; [lia|]. split; [lia|]. split; [lia|]. split; [|split].
      * rewrite iter_succ_r. exact Hout.
      * intros i Hi. destruct i as [|i]; [exact C|]. rewrite iter_succ_r. apply Hall. lia.
      * destruct Hex as [->|Hc]; [now left|now right].
    + inversion H; subst. exists 0. cbn [length Nat.iter nat_rect].
      split; [lia|]. split; [lia|]. split; [lia|]. split; [lia|]. split; [reflexivity|]. split; [intros; lia|now right].
Qed.

(* info['iterations'] = bodies + 1 and len(info['errors']) = bodies: the repository's own reporting convention *)
Lemma while_winfo_spec : forall fuel init out its errs nb,
  while_winfo cond body err fuel init = (out, its, errs, nb) ->
  nb <= fuel /\ its = nb + 1 /\ length errs = nb /\ out = Nat.iter nb body init /\
  (forall i, i < nb -> cond (Nat.iter i body init) = true) /\ (nb = fuel \/ cond out = false).
Proof.
  intros fuel init out its errs nb H. unfold while_winfo in H.
  destruct (wloop cond body err fuel init 0 [] 0) as [[[out0 its0] errs0] nb0] eqn:E.
  injection H as H1 H2 H3 H4; subst. apply wloop_spec in E. destruct E as (j & Hj & Hnb & Hits & Hlen & Hout & Hall & Hex).
  cbn [length] in Hlen. assert (nb = j) by lia. subst j.
  split; [lia|]. split; [lia|]. split; [|split; [exact Hout|split; [exact Hall|exact Hex]]].
  change (length (skipn 2 (rev (err out :: errs0))) = nb). rewrite skipn_length, rev_length. cbn [length]. lia.
Qed.
End While.

(* ------------------------------------------------------------------ the CG loop *)
Section Contract.
Context {T V : Type} (o : ops T) (vo : vops T V).
Variables (A P : V -> V) (flag : bool).
Variables (tol : T) (max_iters : nat) (bs x0s : list V).

Definition cg_init : st (T:=T) (V:=V) := (map (fun bx => init_col o vo A P flag tol (fst bx) (snd bx)) (combine bs x0s), 0).
Definition cg_state (j : nat) : st := Nat.iter j (cg_body o vo A P) cg_init.
Definition all_converged (s : st (T:=T) (V:=V)) : bool := forallb (fun c => negb (unconverged o vo c)) (fst s).
(* the residual test of the property: every column satisfies  not (||r|| > tol*||r0|| + tol)  *)

Lemma existsb_forallb {X} (f : X -> bool) l : existsb f l = negb (forallb (fun x => negb (f x)) l).
Proof. induction l as [|a l IH]; [reflexivity|]. cbn [existsb forallb]. rewrite IH. destruct (f a); reflexivity. Qed.

Lemma cg_state_S j : cg_state (S j) = cg_body o vo A P (cg_state j).
Proof. reflexivity. Qed.
Lemma cg_state_k j : snd (cg_state j) = j.
Proof. induction j as [|j IH]; [reflexivity|]. unfold cg_state in *. cbn [Nat.iter nat_rect].
  unfold cg_body at 1. cbn [snd]. fold (Nat.iter j (cg_body o vo A P) cg_init). rewrite IH. reflexivity. Qed.

Lemma cg_state_ncols j : length (fst (cg_state j)) = length (combine bs x0s).
Proof. induction j as [|j IH]; [unfold cg_state, cg_init; cbn [Nat.iter nat_rect fst]; apply map_length|].
  unfold cg_state in *. cbn [Nat.iter nat_rect]. unfold cg_body at 1. cbn [fst]. rewrite map_length. exact IH. Qed.

Definition the_run := run_cg o vo A P flag tol max_iters bs x0s.

(* Stopping contract + bookkeeping.  [steps] is the least k such that every column passes the residual test at
   state k, or max_iters if there is none; the loop never runs out of fuel before its own condition fails. *)
Theorem cg_contract :
  let r := the_run in let k := steps r in
  k <= max_iters /\ bodies r = k /\ iterations r = k + 1 /\ length (errors r) = k /\
  sol r = map (fun c => vscale vo (cmult c) (cx c)) (fst (cg_state k)) /\
  (k = max_iters \/ all_converged (cg_state k) = true) /\
  (forall j, j < k -> all_converged (cg_state j) = false) /\
  cg_cond o vo max_iters (cg_state k) = false.
Proof.
  cbv zeta. unfold the_run, run_cg.
  fold cg_init.
  destruct (while_winfo (cg_cond o vo max_iters) (cg_body o vo A P) (track_res o vo) max_iters cg_init)
    as [[[out its] errs] nb] eqn:E.
  apply while_winfo_spec in E. destruct E as (Hnb & Hits & Hlen & Hout & Hall & Hex).
  cbn [steps bodies iterations errors sol].
  assert (Hk : snd out = nb). { rewrite Hout. apply cg_state_k. }
  rewrite Hk. fold (cg_state nb) in Hout.
  assert (Hcond : cg_cond o vo max_iters (cg_state nb) = false).
  { destruct Hex as [->|Hc]; [|rewrite <- Hout; exact Hc].
    unfold cg_cond. rewrite cg_state_k, Nat.ltb_irrefl. apply andb_false_r. }
  split; [exact Hnb|]. split; [reflexivity|]. split; [exact Hits|]. split; [exact Hlen|].
  split; [|split; [|split; [|exact Hcond]]].
  - rewrite Hout. reflexivity.
  - destruct (Nat.eq_dec nb max_iters) as [e|ne]; [now left|right].
    unfold cg_cond in Hcond. rewrite cg_state_k in Hcond.
    assert (L : Nat.ltb nb max_iters = true) by (apply Nat.ltb_lt; lia).
    rewrite L, andb_true_r, existsb_forallb in Hcond. unfold all_converged.
    destruct (forallb _ _); [reflexivity|discriminate].
  - intros j Hj. specialize (Hall j Hj). fold (cg_state j) in Hall. unfold cg_cond in Hall.
    apply andb_prop in Hall. destruct Hall as [Hx _]. rewrite existsb_forallb in Hx. unfold all_converged.
    destruct (forallb _ _); [discriminate|reflexivity].
Qed.

(* the instrumented loop computes the same final state as the plain loop *)
Lemma cg_loop_state : forall fuel s, exists j, j <= fuel /\ cg_loop o vo A P max_iters fuel s = Nat.iter j (cg_body o vo A P) s /\
  (forall i, i < j -> cg_cond o vo max_iters (Nat.iter i (cg_body o vo A P) s) = true) /\
  (j = fuel \/ cg_cond o vo max_iters (Nat.iter j (cg_body o vo A P) s) = false).
Proof.
  induction fuel as [|f IH]; intros s.
  - exists 0. cbn [cg_loop Nat.iter nat_rect]. split; [lia|]. split; [reflexivity|]. split; [intros; lia|now left].
  - cbn [cg_loop]. destruct (cg_cond o vo max_iters s) eqn:C.
    + destruct (IH (cg_body o vo A P s)) as (j & Hj & Hout & Hall & Hex). exists (S j).
      split; [lia|]. split; [|split].
      * rewrite iter_succ_r. exact Hout.
      * intros i Hi. destruct i as [|i]; [exact C|]. rewrite iter_succ_r. apply Hall. lia.
      * rewrite iter_succ_r. destruct Hex as [->|Hc]; [now left|now right].
    + exists 0. cbn [Nat.iter nat_rect]. split; [lia|]. split; [reflexivity|]. split; [intros; lia|now right].
Qed.
End Contract.

(* ------------------------------------------------------------------ zero right-hand side *)
Section ZeroRhs.
Context {T : Type} (o : ops T).
Hypothesis mul_0_l : forall x, omul o (o0 o) x = o0 o.
Hypothesis mul_0_r : forall x, omul o x (o0 o) = o0 o.
Hypothesis add_0_0 : oadd o (o0 o) (o0 o) = o0 o.
Hypothesis sqrt_0 : osqrt o (o0 o) = o0 o.

Definition allzero (v : list T) : Prop := Forall (fun x => x = o0 o) v.

Lemma ldot_zero_r u v : allzero v -> ldot o u v = o0 o.
Proof.
  unfold ldot. intros Hv. revert u. induction Hv as [|y v Hy Hv IH]; intros u.
  - destruct u; reflexivity.
  - destruct u as [|x u]; [reflexivity|]. cbn [combine fold_left fst snd]. subst y. rewrite mul_0_r, add_0_0. apply IH.
Qed.

Lemma scale_zero (v : list T) : allzero (vscale (lvops o) (o0 o) v).
Proof. unfold allzero. cbn [vscale lvops]. induction v as [|x v IH]; cbn [map]; constructor; auto. Qed.

Variables (A P : list T -> list T) (flag : bool) (tol : T) (max_iters : nat).

(* a column whose right-hand side is zero is returned as exactly zero, whatever x0, A, P, tol, max_iters and the
   other columns are *)
Theorem cg_zero_rhs : forall bs x0s j b,
  nth_error bs j = Some b -> j < length x0s -> allzero b ->
  exists x, nth_error (sol (run_cg o (lvops o) A P flag tol max_iters bs x0s)) j = Some x /\ allzero x.
Proof.
  intros bs x0s j b Hb Hj Hz.
  pose proof (cg_contract o (lvops o) A P flag tol max_iters bs x0s) as C. cbv zeta in C.
  destruct C as (_ & _ & _ & _ & Hsol & _). unfold the_run in Hsol. rewrite Hsol.
  set (k := steps _). clearbody k.
  (* the multiplier of column j is zero at every state *)
  assert (Hm : forall i, exists c, nth_error (fst (cg_state o (lvops o) A P flag tol bs x0s i)) j = Some c /\ cmult c = o0 o).
  { induction i as [|i [c [Hc Hc0]]].
    - unfold cg_state, cg_init. cbn [Nat.iter nat_rect fst].
      destruct (nth_error x0s j) as [x0|] eqn:Hx0; [|apply nth_error_None in Hx0; lia].
      assert (Hcomb : nth_error (combine bs x0s) j = Some (b, x0)).
      { clear - Hb Hx0. revert bs x0s Hb Hx0. induction j as [|j IH]; intros [|b' bs] [|x' xs] Hb Hx; try discriminate.
        - inversion Hb; inversion Hx; reflexivity.
        - cbn. apply IH; assumption. }
      eexists. split. { rewrite nth_error_map, Hcomb. reflexivity. }
      cbn [fst snd]. unfold init_col. cbn [cmult]. unfold vnorm. cbn [vdot lvops]. rewrite (ldot_zero_r b b Hz). apply sqrt_0.
    - rewrite cg_state_S. unfold cg_body. cbn [fst].
      eexists. split. { rewrite nth_error_map, Hc. reflexivity. } unfold step_col. cbn [cmult]. exact Hc0. }
  destruct (Hm k) as [c [Hc Hc0]].
  eexists. split. { rewrite nth_error_map, Hc. reflexivity. }
  cbn [option_map]. rewrite Hc0. apply scale_zero.
Qed.
End ZeroRhs.
