(* Model of to_dense(): kind-specific paths (Dense, Diagonal, Kronecker = reduce(np.kron), KronSum = reduce(kronsum),
   BlockDiag = block_diag) and the generic path that multiplies an identity on the cheaper side
   (left, through rmatmat, when 8*rows < cols).  Theorem: to_dense e represents den e. *)
From Coq Require Import Arith Lia List Ring ArithRing PeanoNat Bool.
From Core Require Import Base Kron Op OpProofs AlgebraProofs AlgebraKron.
Import ListNotations.
Section TD.
Context {R : Type} {RR : Ring R} {CR : CRing R}.
Add Ring Rring : Rth.
Open Scope R_scope.
Notation fm := (fm (R:=R)). Notation arr := (arr (R:=R)). Notation op := (op (R:=R)). Notation fac := (fac (R:=R)).

Definition afac (a : arr) : fac := mkfac (nr a) (nc a) (dat a).
Definition farr (F : fac) : arr := memo (mkarr (fr F) (fc F) (fmx F)).
Definition generic (e : op) : arr :=
  let m := fst (shape e) in let n := snd (shape e) in
  if (8 * m <? n)%nat then rmatmat e (mkarr m m eye) else matmat e (mkarr n n eye).
Fixpoint to_dense (e : op) : arr :=
  match e with
  | Dense a => a
  | Diag n d => memo (mkarr n n (fun i j => d i * delta i j))
  | Kron ms => match map (fun m => afac (to_dense m)) ms with
               | [] => generic e | F :: Fs => farr (fold_left kron2 Fs F) end
  | KronSum ms => match map (fun m => afac (to_dense m)) ms with
                  | [] => generic e | F :: Fs => farr (fold_left ksum2 Fs F) end
  | BDiag ms => memo (mkarr (fst (shape e)) (snd (shape e))
                        (bd (concat (map (fun mc => rep (snd mc) (shape (fst mc), dat (to_dense (fst mc)))) ms))))
  | _ => generic e
  end.

Definition tdgood (e : op) := wf e = true -> aeq (to_dense e) (mkarr (fst (shape e)) (snd (shape e)) (den e)).

Lemma generic_good (e : op) : wf e = true -> aeq (generic e) (mkarr (fst (shape e)) (snd (shape e)) (den e)).
Proof. intros W. destruct (mm_den e W) as [HF HB]. unfold generic. cbv zeta. destruct (8 * fst (shape e) <? snd (shape e))%nat.
  - destruct (HB (mkarr (fst (shape e)) (fst (shape e)) eye) eq_refl) as (E1 & E2 & E3). cbn [rspec nr nc dat] in *.
    repeat split; auto. cbn [nr nc dat]. intros i j Hi Hj. rewrite E3 by auto. apply mmul_eye_l. rewrite E1 in Hi. exact Hi.
  - destruct (HF (mkarr (snd (shape e)) (snd (shape e)) eye) eq_refl) as (E1 & E2 & E3). cbn [spec nr nc dat] in *.
    repeat split; auto. cbn [nr nc dat]. intros i j Hi Hj. rewrite E3 by auto. apply mmul_eye_r. rewrite E2 in Hj. exact Hj. Qed.

(* factors agree in range *)
Definition feqF (A B : fac) := fr A = fr B /\ fc A = fc B /\ feq (fr A) (fc A) (fmx A) (fmx B).
Lemma feqF_refl A : feqF A A. Proof. repeat split; auto; apply feq_refl. Qed.
Lemma feqF_trans A B C : feqF A B -> feqF B C -> feqF A C.
Proof. intros (a&b&c) (d&e&f). repeat split; try congruence. eapply feq_trans; eauto. rewrite a, b. exact f. Qed.
Lemma kron2_ext A A' B B' : (0 < fr B)%nat -> (0 < fc B)%nat -> feqF A A' -> feqF B B' -> feqF (kron2 A B) (kron2 A' B').
Proof. intros PR PC (a1&a2&a3) (b1&b2&b3). repeat split; cbn [kron2 fr fc fmx]; try congruence. intros i j Hi Hj.
  rewrite <- b1, <- b2. rewrite a3, b3; auto; try (apply Nat.mod_upper_bound; lia); apply Nat.div_lt_upper_bound; nia. Qed.
Lemma ksum2_ext A A' B B' : (0 < fr B)%nat -> (0 < fc B)%nat -> feqF A A' -> feqF B B' -> feqF (ksum2 A B) (ksum2 A' B').
Proof. intros PR PC (a1&a2&a3) (b1&b2&b3). repeat split; cbn [ksum2 fr fc fmx]; try congruence. intros i j Hi Hj.
  rewrite <- b1, <- b2. rewrite a3, b3; auto; try (apply Nat.mod_upper_bound; lia); apply Nat.div_lt_upper_bound; nia. Qed.
Definition posF (F : fac) := (0 < fr F)%nat /\ (0 < fc F)%nat.
Lemma posF_kron2 A B : posF A -> posF B -> posF (kron2 A B). Proof. intros [] []. split; cbn; nia. Qed.
Lemma posF_ksum2 A B : posF A -> posF B -> posF (ksum2 A B). Proof. intros [] []. split; cbn; nia. Qed.
Lemma fold_kron2_ext (l l' : list fac) : Forall2 feqF l l' -> Forall posF l -> forall F F', posF F -> feqF F F' ->
  feqF (fold_left kron2 l F) (fold_left kron2 l' F').
Proof. induction 1 as [|M M' l l' HM Hl IH]; intros HP F F' PF HF; cbn [fold_left]; auto. inversion HP; subst.
  apply IH; auto. - apply posF_kron2; auto. - destruct H1. apply kron2_ext; auto. Qed.
Lemma fold_ksum2_ext (l l' : list fac) : Forall2 feqF l l' -> Forall posF l -> forall F F', posF F -> feqF F F' ->
  feqF (fold_left ksum2 l F) (fold_left ksum2 l' F').
Proof. induction 1 as [|M M' l l' HM Hl IH]; intros HP F F' PF HF; cbn [fold_left]; auto. inversion HP; subst.
  apply IH; auto. - apply posF_ksum2; auto. - destruct H1. apply ksum2_ext; auto. Qed.
(* left fold = right-nested product *)
Lemma fold_kron2_kronR (l : list fac) : pos l -> forall F, posF F -> feqF (fold_left kron2 l F) (kron2 F (kronR l)).
Proof. induction l as [|M l IH]; intros P F PF; cbn [fold_left kronR].
  - repeat split; cbn [kron2 one11 fr fc fmx]; try lia. intros i j Hi Hj. rewrite ?Nat.div_1_r, ?Nat.mod_1_r. ring.
  - assert (P' : pos l). { unfold pos in *. cbn [forallb] in P. apply andb_prop in P; tauto. }
    assert (PM : posF M). { unfold pos in P. cbn [forallb] in P. apply andb_prop in P as [P _]. apply andb_prop in P as [A B]. apply Nat.ltb_lt in A, B. split; auto. }
    destruct (fr_kronR_pos l P'). destruct PM.
    eapply feqF_trans; [apply IH; auto; apply posF_kron2; auto; split; auto|].
    repeat split; cbn [kron2 fr fc]; try lia. intros i j Hi Hj. apply kron2_assoc; auto. Qed.
Lemma fold_ksum2_ksumR (l : list fac) : sqfacs l -> forall F, sqfac F -> feqF (fold_left ksum2 l F) (ksum2 F (ksumR l)).
Proof. induction 1 as [|M l SM Sl IH]; intros F SF; cbn [fold_left ksumR].
  - destruct SF as [E P]. repeat split; cbn [ksum2 zero11 fr fc fmx]; try lia. intros i j Hi Hj. rewrite ?Nat.div_1_r, ?Nat.mod_1_r.
    unfold delta. cbn [Nat.eqb]. ring.
  - pose proof (ksumR_dims l Sl) as SK. destruct SM as [EM PM], SF as [EF PF]. destruct SK as [EK PK].
    eapply feqF_trans; [apply IH; split; cbn [ksum2 fr fc]; [congruence|apply Nat.mul_pos_pos; assumption]|].
    repeat split; cbn [ksum2 fr fc]; try lia. intros i j Hi Hj. apply ksum2_assoc; split; auto. Qed.
Lemma bd_ext (L L' : list blk) : Forall2 (fun b b' => fst b = fst b' /\ feq (fst (fst b)) (snd (fst b)) (snd b) (snd b')) L L' ->
  forall i j, (i < rowsB L)%nat -> (j < colsB L)%nat -> bd L i j = bd L' i j.
Proof. induction 1 as [|[[r c] M] [[r' c'] M'] L L' [E HM] HL IH]; intros i j Hi Hj; [reflexivity|].
  cbn [fst snd] in *. inversion E; subst r' c'. cbn [bd fst snd]. cbn [rowsB colsB fold_right fst snd] in Hi, Hj. fold (rowsB L) in Hi. fold (colsB L) in Hj.
  destruct (Nat.ltb_spec i r), (Nat.ltb_spec j c); auto. apply IH; lia. Qed.

Lemma farr_aeq F : aeq (farr F) (mkarr (fr F) (fc F) (fmx F)). Proof. apply memo_aeq. Qed.
Lemma tdgood_facs (ms : list op) : Forall tdgood ms -> forallb wf ms = true ->
  Forall2 feqF (map (fun m => afac (to_dense m)) ms) (map facof ms).
Proof. intros HF W. induction HF as [|m ms Hm Hms IH]; cbn [map]; constructor.
  - cbn [forallb] in W. apply andb_prop in W as [Wm _]. destruct (Hm Wm) as (E1 & E2 & E3). cbn [nr nc dat] in *.
    repeat split; cbn [afac facof fr fc fmx]; auto.
  - apply IH. cbn [forallb] in W. apply andb_prop in W; tauto. Qed.
Lemma aeq_of_feqF F G m n M : feqF F G -> fr G = m -> fc G = n -> feq m n (fmx G) M -> aeq (farr F) (mkarr m n M).
Proof. intros (a & b & c) E1 E2 H. eapply aeq_trans; [apply farr_aeq|]. repeat split; cbn [nr nc dat]; try congruence.
  intros i j Hi Hj. rewrite c by auto. apply H; congruence. Qed.

Theorem to_dense_den : forall e, tdgood e.
Proof. apply op_ind2; try (intros; intros W; apply generic_good; exact W).
  - intros a _. cbn [to_dense shape den fst snd]. repeat split; auto; apply feq_refl.
  - intros n d _. cbn [to_dense shape den fst snd]. apply aeq_memo_l. apply aeq_refl.
  - (* Kron *) intros ms HF W. cbn [to_dense]. pose proof W as W0. cbn [wf] in W. apply andb_prop in W as [Wwf Wpos].
    pose proof (tdgood_facs ms HF Wwf) as F2. destruct ms as [|m ms]; [apply generic_good; exact W0|].
    cbn [map] in *. inversion F2 as [|? ? ? ? H1 H2]; subst.
    assert (Ppos : pos (map facof (m :: ms))) by (apply posl_pos; exact Wpos).
    assert (Pm : posF (facof m) /\ pos (map facof ms)).
    { unfold pos in Ppos. cbn [map forallb] in Ppos. apply andb_prop in Ppos as [A B]. apply andb_prop in A as [A1 A2]. apply Nat.ltb_lt in A1, A2. split; [split|]; auto. }
    destruct Pm as [Pm Pms].
    assert (Pl : Forall posF (map (fun m0 => afac (to_dense m0)) ms) /\ posF (afac (to_dense m))).
    { split.
      - clear - H2 Pms. revert H2 Pms. generalize (map (fun m0 : op => afac (to_dense m0)) ms) (map facof ms). induction 1 as [|A B l l' (a&b&_) Hl IH]; intros P; constructor.
        + unfold pos in P. cbn [forallb] in P. apply andb_prop in P as [P _]. apply andb_prop in P as [X Y]. apply Nat.ltb_lt in X, Y. split; congruence.
        + apply IH. unfold pos in *. cbn [forallb] in P. apply andb_prop in P; tauto.
      - destruct H1 as (a & b & _). destruct Pm. split; congruence. }
    destruct Pl as [Pl Pm'].
    eapply aeq_of_feqF.
    + eapply feqF_trans; [apply fold_kron2_ext; eauto|]. apply fold_kron2_kronR; auto.
    + cbn [shape]. rewrite kshape_kronR. reflexivity.
    + cbn [shape]. rewrite kshape_kronR. reflexivity.
    + apply feq_refl.
  - (* BDiag *) intros ms HF W. cbn [to_dense]. apply aeq_memo_l. repeat split; auto. cbn [nr nc dat]. intros i j Hi Hj.
    cbn [shape] in Hi, Hj. rewrite (bshape_blocks ms) in Hi, Hj. cbn [fst snd] in Hi, Hj. change (den (BDiag ms)) with (bd (blocks ms)).
    symmetry. apply bd_ext; auto. unfold blocks. cbn [wf] in W. clear Hi Hj.
    induction HF as [|[m mu] ms Hm Hms IH]; cbn [map concat]; [constructor|]. cbn [forallb fst] in W. apply andb_prop in W as [Wm Wms].
    apply Forall2_app; [|apply IH; exact Wms]. cbn [fst snd]. destruct (Hm Wm) as (E1 & E2 & E3). cbn [nr nc dat] in *.
    cbn [fst snd] in *. clear - E1 E2 E3. induction mu as [|mu IHmu]; cbn [rep]; [constructor|]. constructor; [|exact IHmu]. cbn [fst snd]. split; [reflexivity|]. apply feq_sym. rewrite <- E1, <- E2. exact E3.
  - (* KronSum *) intros ms HF W. cbn [to_dense]. pose proof W as W0. cbn [wf] in W. apply andb_prop in W as [W Wsq]. apply andb_prop in W as [Wne Wwf].
    pose proof (tdgood_facs ms HF Wwf) as F2. destruct ms as [|m ms]; [discriminate|].
    cbn [map] in *. inversion F2 as [|? ? ? ? H1 H2]; subst.
    pose proof (sqposl_sqfacs (m :: ms) Wsq) as SQ. cbn [map] in SQ. inversion SQ as [|? ? Sm Sms]; subst.
    assert (Pl : Forall posF (map (fun m0 => afac (to_dense m0)) ms) /\ posF (afac (to_dense m))).
    { split.
      - clear - H2 Sms. revert H2 Sms. generalize (map (fun m0 : op => afac (to_dense m0)) ms) (map facof ms). induction 1 as [|A B l l' (a&b&_) Hl IH]; intros P; constructor.
        + inversion P as [|? ? [E Q] ?]; subst. split; lia.
        + apply IH. inversion P; auto.
      - destruct H1 as (a & b & _). destruct Sm as [E Q]. split; lia. }
    destruct Pl as [Pl Pm'].
    eapply aeq_of_feqF.
    + eapply feqF_trans; [apply fold_ksum2_ext; eauto|]. apply fold_ksum2_ksumR; auto.
    + cbn [shape]. rewrite (kshape_sq (m :: ms) Wsq). cbn [fst]. change (ksum2 (facof m) (ksumR (map facof ms))) with (ksumR (map facof (m :: ms))).
      rewrite fr_ksumR. apply (sq_prod (m :: ms) Wsq).
    + cbn [shape]. rewrite (kshape_sq (m :: ms) Wsq). cbn [snd]. change (ksum2 (facof m) (ksumR (map facof ms))) with (ksumR (map facof (m :: ms))).
      rewrite fc_ksumR. reflexivity.
    + apply feq_refl.
Qed.
End TD.
