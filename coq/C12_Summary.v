(* C12: the hypotheses of the exact-arithmetic theorems bundled in one record, the theorems restated against it
   (these are the statements PropsC12.v exposes), and the full-strength statement C12_full. *)
From Coq Require Import List Bool Arith Lia Ring Field.
From Core Require Import C12_Ops C12_Model C12_Contract C12_Krylov C12_Run C12_Homog.
Import ListNotations.

(* a field with involution, a vector type with an inner product obeying the weak (scalar) laws, a Hermitian
   operator and a Hermitian preconditioner *)
Record ips_laws {T V : Type} (o : ops T) (vo : vops T V) (A P : V -> V) : Prop := mk_ips_laws {
  l_field : field_theory (o0 o) (o1 o) (oadd o) (omul o) (osub o) (oopp o) (odiv o) (fun x => odiv o (o1 o) x) eq;
  l_conj_add : forall a b, oconj o (oadd o a b) = oadd o (oconj o a) (oconj o b);
  l_conj_mul : forall a b, oconj o (omul o a b) = omul o (oconj o a) (oconj o b);
  l_conj_opp : forall a, oconj o (oopp o a) = oopp o (oconj o a);
  l_conj_div : forall a b, oconj o (odiv o a b) = odiv o (oconj o a) (oconj o b);
  l_dot_add_r : forall u v w, vdot vo u (vadd vo v w) = oadd o (vdot vo u v) (vdot vo u w);
  l_dot_sub_r : forall u v w, vdot vo u (vsub vo v w) = osub o (vdot vo u v) (vdot vo u w);
  l_dot_scale_r : forall u a v, vdot vo u (vscale vo a v) = omul o a (vdot vo u v);
  l_dot_sym : forall u v, vdot vo u v = oconj o (vdot vo v u);
  l_A_sa : forall u v, vdot vo u (A v) = vdot vo (A u) v;
  l_P_sa : forall u v, vdot vo u (P v) = vdot vo (P u) v }.

Section Bundled.
Context {T V : Type} (o : ops T) (vo : vops T V) (A P : V -> V).
Hypothesis L : ips_laws o vo A P.

(* a column state from which the recurrences start: p0 = P r0, gamma0 = <r0, P r0> (what init_col builds) *)
Definition started (c0 : col (T:=T) (V:=V)) : Prop := cp c0 = P (cr c0) /\ cgam c0 = vdot vo (cr c0) (P (cr c0)).
(* guards inactive and no breakdown during the first K steps *)
Definition no_breakdown (c0 : col (T:=T) (V:=V)) (K : nat) : Prop :=
  forall k, k < K -> regular o vo A (cs o vo A P c0 k) /\ cgam (cs o vo A P c0 k) <> o0 o /\ d o vo A P c0 k <> o0 o.

Theorem cg_invariants_b c0 K : started c0 -> no_breakdown c0 K -> forall k, k <= K -> Inv o vo A P c0 k.
Proof. intros [H1 H2] Hreg k Hk. destruct L.
  eapply (cg_invariants o vo); eauto. Qed.

Theorem cg_residual_b c0 K bn : no_breakdown c0 K ->
  (forall u, vdot vo u (cr c0) = osub o (vdot vo u bn) (vdot vo u (A (cx c0)))) ->
  forall k u, k <= K -> vdot vo u (cr (cs o vo A P c0 k)) = osub o (vdot vo u bn) (vdot vo u (A (cx (cs o vo A P c0 k)))).
Proof. intros Hreg H0 k u Hk. destruct L. eapply (cg_residual o vo); eauto. Qed.

Theorem cg_galerkin_b c0 K : started c0 -> no_breakdown c0 K ->
  forall k c j, k <= j -> j <= K -> vdot vo (comb o vo A P c0 k c) (cr (cs o vo A P c0 j)) = o0 o.
Proof. intros [H1 H2] Hreg k c j Hkj Hj. destruct L. eapply (cg_galerkin o vo); eauto. Qed.

Theorem cg_pythagoras_b c0 K bn xs : started c0 -> no_breakdown c0 K ->
  (forall u, vdot vo u (cr c0) = osub o (vdot vo u bn) (vdot vo u (A (cx c0)))) ->
  (forall u, vdot vo u (A xs) = vdot vo u bn) ->
  forall k c, k <= K ->
  phi vo A xs (vadd vo (cx (cs o vo A P c0 k)) (comb o vo A P c0 k c))
  = oadd o (phi vo A xs (cx (cs o vo A P c0 k))) (vdot vo (comb o vo A P c0 k c) (A (comb o vo A P c0 k c))).
Proof. intros [H1 H2] Hreg H0 Hxs k c Hk. destruct L.
  exact (cg_pythagoras o vo l_field0 l_conj_add0 l_conj_mul0 l_conj_opp0 l_conj_div0 A P l_dot_add_r0 l_dot_sub_r0 l_dot_scale_r0
           l_dot_sym0 l_A_sa0 l_P_sa0 c0 H1 H2 K Hreg bn H0 xs Hxs k c Hk). Qed.

Theorem span_is_krylov_b c0 K : started c0 -> no_breakdown c0 K -> forall k v, k <= S K ->
  (Sp o vo (kgen A P c0) k v <-> Sp o vo (pgen o vo A P c0) k v).
Proof. intros [H1 H2] Hreg k v Hk. destruct L. split.
  - eapply (krylov_in_span o vo); eauto.
  - eapply (span_in_krylov o vo); eauto. Qed.

Theorem cg_run_optimal_b (flag : bool) (tol : T) (max_iters : nat) (bs x0s : list V) : forall j b x0,
  nth_error bs j = Some b -> nth_error x0s j = Some x0 ->
  let r := run_cg o vo A P flag tol max_iters bs x0s in
  let c0 := init_col o vo A P flag tol b x0 in
  no_breakdown c0 (steps r) ->
  forall xs, (forall u, vdot vo u (A xs) = vdot vo u (safe_vdiv o vo b (vnorm o vo b))) ->
  exists xk, nth_error (sol r) j = Some (vscale vo (cmult c0) xk) /\
    (forall u, vdot vo u xk = vdot vo u (vadd vo (cx c0) (comb o vo A P c0 (steps r) (al o vo A P c0)))) /\
    forall (Pos : T -> Prop), (forall v, Pos (vdot vo v (A v))) ->
      forall c, Pos (osub o (phi vo A xs (vadd vo xk (comb o vo A P c0 (steps r) c))) (phi vo A xs xk)).
Proof. intros j b x0 Hb Hx r c0 Hreg xs Hxs. destruct L.
  eapply (cg_run_optimal o vo); eauto. Qed.
End Bundled.

(* exact module laws used by the homogeneity theorem (vector equalities; true of lists over a commutative field) *)
Record module_laws {T V : Type} (o : ops T) (vo : vops T V) (A P : V -> V) : Prop := mk_module_laws {
  m_field : field_theory (o0 o) (o1 o) (oadd o) (omul o) (osub o) (oopp o) (odiv o) (fun x => odiv o (o1 o) x) eq;
  m_add : forall u a b, vscale vo u (vadd vo a b) = vadd vo (vscale vo u a) (vscale vo u b);
  m_sub : forall u a b, vscale vo u (vsub vo a b) = vsub vo (vscale vo u a) (vscale vo u b);
  m_assoc : forall a b v, vscale vo a (vscale vo b v) = vscale vo (omul o a b) v;
  m_div : forall v c, vdivs vo v c = vscale vo (odiv o (o1 o) c) v;
  m_A : forall u v, A (vscale vo u v) = vscale vo u (A v);
  m_P : forall u v, P (vscale vo u v) = vscale vo u (P v);
  m_dot : forall u a b, vdot vo (vscale vo u a) (vscale vo u b) = omul o (omul o (oconj o u) u) (vdot vo a b) }.

(* cg(alpha * B) = alpha * cg(B) for x0 = 0 (x0 "zero-like": invariant under scaling), alpha = a * u with a = |alpha| <> 0
   and u a unit phase; the 1e-40 guards on ||b|| inactive for both runs (part of [good_col]) *)
Theorem cg_homogeneous_b {T V : Type} (o : ops T) (vo : vops T V) (A P : V -> V) : module_laws o vo A P ->
  forall u alpha a : T, omul o (oconj o u) u = o1 o -> a <> o0 o -> u = odiv o alpha a ->
  forall (flag : bool) (tol : T) (max_iters : nat) (bs x0s : list V),
  (forall b x0, In (b, x0) (combine bs x0s) -> good_col o vo alpha a b x0) ->
  let r := run_cg o vo A P flag tol max_iters bs x0s in
  let r' := run_cg o vo A P flag tol max_iters (map (vscale vo alpha) bs) x0s in
  sol r' = map (vscale vo alpha) (sol r) /\ steps r' = steps r /\ iterations r' = iterations r /\ errors r' = errors r.
Proof. intros L u alpha a Hu Ha Hua flag tol max_iters bs x0s Hg. destruct L.
  eapply (cg_homogeneous o vo); eauto. Qed.

(* ---------------------------------------------------------------- the full-strength statement *)
(* Everything the property states about the iterate, for the model with the defect flag cleared: for every column,
   without breakdown, the returned vector is ||b|| * x_k, where x_k lies in  x0/||b|| + K_k(PA, P r0)  (the
   preconditioned Krylov space of the normalised system, k = steps) and minimises the A-norm of the error over that
   affine space ([Sp o vo (kgen A P c0) k] = K_k as a weakly closed span; [Pos] = "is a non-negative real").
   Multiplying by ||b|| gives the statement for the original system: x0 + K_k(PA, P (b - A x0)).
   The other clauses (contract, bookkeeping, zero right-hand side, homogeneity) are cg_contract, cg_zero_rhs and
   cg_homogeneous_b. *)
Definition C12_full : Prop :=
  forall (T V : Type) (o : ops T) (vo : vops T V) (A P : V -> V), ips_laws o vo A P ->
  forall (tol : T) (max_iters : nat) (bs x0s : list V) j b x0,
  nth_error bs j = Some b -> nth_error x0s j = Some x0 ->
  let r := run_cg o vo A P false tol max_iters bs x0s in
  let c0 := init_col o vo A P false tol b x0 in
  no_breakdown o vo A P c0 (steps r) ->
  forall xs, (forall u, vdot vo u (A xs) = vdot vo u (safe_vdiv o vo b (vnorm o vo b))) ->
  exists xk, nth_error (sol r) j = Some (vscale vo (cmult c0) xk) /\
    (exists v, Sp o vo (kgen A P c0) (steps r) v /\ weq vo xk (vadd vo (cx c0) v)) /\
    forall (Pos : T -> Prop), (forall v, Pos (vdot vo v (A v))) ->
      forall v, Sp o vo (kgen A P c0) (steps r) v -> Pos (osub o (phi vo A xs (vadd vo (cx c0) v)) (phi vo A xs xk)).

Theorem C12_full_proved : C12_full.
Proof. intros T V o vo A P L tol max_iters bs x0s j b x0 Hb Hx r c0 Hreg xs Hxs. destruct L.
  eapply (cg_run_optimal_krylov o vo); eauto. Qed.
