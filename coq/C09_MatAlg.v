(* Small matrix algebra on top of Base.v, shared by the spectral properties C09 / C10 / C16:
   diagonal matrices, two-sided inverses, transposes / adjoints, cancellation. Everything is stated
   pointwise on in-range indices ([feq]) over a commutative ring (with involution where needed). *)
From Coq Require Import Arith Lia List Ring ArithRing PeanoNat Bool.
From Core Require Import Base.
Import ListNotations.
Section MatAlg.
Context {R : Type} {RR : Ring R}.
Add Ring Rring : Rth.
Open Scope R_scope.
Notation fm := (fm (R:=R)).

Definition dg (w : nat -> R) : fm := fun i j => w i * delta i j.
Definition tr (A : fm) : fm := fun i j => A j i.
Definition msc (c : R) (A : fm) : fm := fun i j => c * A i j.

Lemma delta_refl i : delta (R:=R) i i = r1. Proof. unfold delta. rewrite Nat.eqb_refl. reflexivity. Qed.
Lemma delta_ne i j : i <> j -> delta (R:=R) i j = r0.
Proof. intros H. unfold delta. destruct (Nat.eqb_spec i j); [contradiction|reflexivity]. Qed.
Lemma delta_sym i j : delta (R:=R) i j = delta j i. Proof. unfold delta. rewrite Nat.eqb_sym. reflexivity. Qed.

Lemma mmul_dg_r n (V : fm) w i j : (j < n)%nat -> mmul n V (dg w) i j = V i j * w j.
Proof. intros Hj. unfold mmul, dg.
  rewrite (sum_ext n _ (fun l => (V i l * w l) * delta l j)) by (intros; ring).
  rewrite sum_delta_r by auto. reflexivity. Qed.
Lemma mmul_dg_l n (V : fm) w i j : (i < n)%nat -> mmul n (dg w) V i j = w i * V i j.
Proof. intros Hi. unfold mmul, dg.
  rewrite (sum_ext n _ (fun l => delta i l * (w i * V l j))).
  - rewrite sum_delta_l by auto. reflexivity.
  - intros l Hl. unfold delta. destruct (Nat.eqb_spec i l); [subst; ring|ring]. Qed.
Lemma dg_mul n w u : feq n n (mmul n (dg w) (dg u)) (dg (fun i => w i * u i)).
Proof. intros i j Hi Hj. rewrite mmul_dg_l by auto. unfold dg. ring. Qed.

Lemma feq_mmul_assoc m n k l (A B C : fm) : feq m n (mmul l (mmul k A B) C) (mmul k A (mmul l B C)).
Proof. intros i j _ _. apply mmul_assoc. Qed.
Lemma feq_eye_l m n (X : fm) : feq m n (mmul m eye X) X.
Proof. intros i j Hi Hj. apply mmul_eye_l; auto. Qed.
Lemma feq_eye_r m n (X : fm) : feq m n (mmul n X eye) X.
Proof. intros i j Hi Hj. apply mmul_eye_r; auto. Qed.
Lemma tr_mmul k (A B : fm) i j : tr (mmul k A B) i j = mmul k (tr B) (tr A) i j.
Proof. unfold tr, mmul. apply sum_ext; intros; ring. Qed.
Lemma tr_eye i j : tr eye i j = eye (R:=R) i j. Proof. unfold tr, eye. apply delta_sym. Qed.
Lemma tr_dg w i j : tr (dg w) i j = dg w i j.
Proof. unfold tr, dg, delta. rewrite Nat.eqb_sym. destruct (Nat.eqb_spec i j); [subst; reflexivity|ring]. Qed.
Lemma feq_tr m n (A B : fm) : feq m n A B -> feq n m (tr A) (tr B).
Proof. intros H i j Hi Hj. unfold tr. apply H; auto. Qed.

(* two-sided inverse *)
Definition inv2 (n : nat) (V W : fm) := feq n n (mmul n W V) eye /\ feq n n (mmul n V W) eye.
Definition invertible (n : nat) (V : fm) := exists W, inv2 n V W.
Lemma inv2_sym n V W : inv2 n V W -> inv2 n W V. Proof. intros [A B]; split; auto. Qed.
Lemma inv2_eye n : inv2 n eye eye.
Proof. split; apply feq_eye_l. Qed.
Lemma invertible_eye n : invertible n eye. Proof. exists eye. apply inv2_eye. Qed.
Lemma inv2_tr n V W : inv2 n V W -> inv2 n (tr V) (tr W).
Proof. intros [A B]. split; intros i j Hi Hj.
  - rewrite <- tr_mmul. unfold tr at 1. rewrite B by auto. apply delta_sym.
  - rewrite <- tr_mmul. unfold tr at 1. rewrite A by auto. apply delta_sym. Qed.

(* right cancellation:  X V = Y V  with V invertible gives X = Y *)
Lemma cancel_r m n (X Y V : fm) : invertible n V -> feq m n (mmul n X V) (mmul n Y V) -> feq m n X Y.
Proof. intros [W [HWV HVW]] H.
  apply feq_trans with (mmul n X (mmul n V W)).
  { apply feq_sym. apply feq_trans with (mmul n X eye); [|apply feq_eye_r]. apply mmul_ext; [apply feq_refl|exact HVW]. }
  apply feq_trans with (mmul n (mmul n X V) W); [apply feq_sym, feq_mmul_assoc|].
  apply feq_trans with (mmul n (mmul n Y V) W); [apply mmul_ext; [exact H|apply feq_refl]|].
  apply feq_trans with (mmul n Y (mmul n V W)); [apply feq_mmul_assoc|].
  apply feq_trans with (mmul n Y eye); [apply mmul_ext; [apply feq_refl|exact HVW]|apply feq_eye_r]. Qed.
Lemma cancel_l m n (X Y V : fm) : invertible m V -> feq m n (mmul m V X) (mmul m V Y) -> feq m n X Y.
Proof. intros [W [HWV HVW]] H.
  apply feq_trans with (mmul m (mmul m W V) X).
  { apply feq_sym. apply feq_trans with (mmul m eye X); [|apply feq_eye_l]. apply mmul_ext; [exact HWV|apply feq_refl]. }
  apply feq_trans with (mmul m W (mmul m V X)); [apply feq_mmul_assoc|].
  apply feq_trans with (mmul m W (mmul m V Y)); [apply mmul_ext; [apply feq_refl|exact H]|].
  apply feq_trans with (mmul m (mmul m W V) Y); [apply feq_sym, feq_mmul_assoc|].
  apply feq_trans with (mmul m eye Y); [apply mmul_ext; [exact HWV|apply feq_refl]|apply feq_eye_l]. Qed.

(* A V = V D  with  inv2 V W   gives   W A = D W   and   A = V D W *)
Lemma eig_left n (A V W D : fm) : inv2 n V W -> feq n n (mmul n A V) (mmul n V D) -> feq n n (mmul n W A) (mmul n D W).
Proof. intros HI H. apply cancel_r with V; [exists W; exact HI|]. destruct HI as [HWV HVW].
  apply feq_trans with (mmul n W (mmul n A V)); [apply feq_mmul_assoc|].
  apply feq_trans with (mmul n W (mmul n V D)); [apply mmul_ext; [apply feq_refl|exact H]|].
  apply feq_trans with (mmul n (mmul n W V) D); [apply feq_sym, feq_mmul_assoc|].
  apply feq_trans with (mmul n eye D); [apply mmul_ext; [exact HWV|apply feq_refl]|].
  apply feq_trans with D; [apply feq_eye_l|].
  apply feq_sym. apply feq_trans with (mmul n D (mmul n W V)); [apply feq_mmul_assoc|].
  apply feq_trans with (mmul n D eye); [apply mmul_ext; [apply feq_refl|exact HWV]|apply feq_eye_r]. Qed.
Lemma eig_recompose n (A V W D : fm) : inv2 n V W -> feq n n (mmul n A V) (mmul n V D) -> feq n n A (mmul n (mmul n V D) W).
Proof. intros HI H. apply cancel_r with V; [exists W; exact HI|]. destruct HI as [HWV HVW].
  apply feq_trans with (mmul n V D); [exact H|]. apply feq_sym.
  apply feq_trans with (mmul n (mmul n V D) (mmul n W V)); [apply feq_mmul_assoc|].
  apply feq_trans with (mmul n (mmul n V D) eye); [apply mmul_ext; [apply feq_refl|exact HWV]|apply feq_eye_r]. Qed.

(* columns of an invertible matrix are non-zero (in a non-trivial ring) and independent *)
Lemma invertible_col_nonzero n V j : r1 <> r0 :> R -> invertible n V -> (j < n)%nat -> ~ (forall i, (i < n)%nat -> V i j = r0).
Proof. intros H10 [W [HWV _]] Hj Hz. apply H10. rewrite <- (delta_refl j). change (delta j j) with (eye (R:=R) j j).
  rewrite <- (HWV j j Hj Hj). unfold mmul. rewrite (sum_ext n _ (fun _ => r0)); [apply sum_zero|].
  intros l Hl. rewrite Hz by auto. ring. Qed.
Lemma invertible_independent n V (c : nat -> R) : invertible n V ->
  (forall i, (i < n)%nat -> sum n (fun j => V i j * c j) = r0) -> forall j, (j < n)%nat -> c j = r0.
Proof. intros [W [HWV _]] H j Hj.
  assert (E : sum n (fun i => W j i * sum n (fun l => V i l * c l)) = c j).
  { erewrite sum_ext by (intros; rewrite <- sum_mul_l; reflexivity). rewrite sum_swap.
    rewrite (sum_ext n _ (fun l => delta j l * c l)).
    - apply (sum_delta_l n j c Hj).
    - intros l Hl. rewrite <- (HWV j l Hj Hl : mmul n W V j l = delta j l). unfold mmul. rewrite <- sum_mul_r. apply sum_ext; intros; ring. }
  rewrite <- E. rewrite (sum_ext n _ (fun _ => r0)); [apply sum_zero|]. intros i Hi. rewrite H by auto. ring. Qed.

(* matrix power by repeated multiplication *)
Fixpoint mpow (n : nat) (A : fm) (k : nat) : fm := match k with O => eye | S k' => mmul n A (mpow n A k') end.
Fixpoint spow (x : R) (k : nat) : R := match k with O => r1 | S k' => x * spow x k' end.
Lemma mpow_eig n A V w k : feq n n (mmul n A V) (mmul n V (dg w)) ->
  feq n n (mmul n (mpow n A k) V) (mmul n V (dg (fun i => spow (w i) k))).
Proof. intros H. induction k as [|k IH]; cbn [mpow spow].
  - apply feq_trans with V; [apply feq_eye_l|]. intros i j Hi Hj. rewrite mmul_dg_r by auto. ring.
  - apply feq_trans with (mmul n A (mmul n (mpow n A k) V)); [apply feq_mmul_assoc|].
    apply feq_trans with (mmul n A (mmul n V (dg (fun i => spow (w i) k)))); [apply mmul_ext; [apply feq_refl|exact IH]|].
    apply feq_trans with (mmul n (mmul n A V) (dg (fun i => spow (w i) k))); [apply feq_sym, feq_mmul_assoc|].
    apply feq_trans with (mmul n (mmul n V (dg w)) (dg (fun i => spow (w i) k))); [apply mmul_ext; [exact H|apply feq_refl]|].
    intros i j Hi Hj. rewrite !mmul_dg_r by auto. ring. Qed.
End MatAlg.

Section Adjoint.
Context {R : Type} {RR : Ring R} {CR : CRing R}.
Add Ring Rring2 : Rth.
Open Scope R_scope.
Notation fm := (fm (R:=R)).
Definition cj (A : fm) : fm := fun i j => conj (A j i).
Lemma conj_sum' n f : conj (sum n f) = sum n (fun i => conj (f i)).
Proof. induction n; simpl; [apply conj_0|]. rewrite conj_add, IHn. reflexivity. Qed.
Lemma conj_delta i j : conj (delta (R:=R) i j) = delta i j.
Proof. unfold delta. destruct (Nat.eqb i j); [apply conj_1|apply conj_0]. Qed.
Lemma cj_mmul k (A B : fm) i j : cj (mmul k A B) i j = mmul k (cj B) (cj A) i j.
Proof. unfold cj, mmul. rewrite conj_sum'. apply sum_ext; intros. rewrite conj_mul. ring. Qed.
Lemma cj_eye i j : cj eye i j = eye (R:=R) i j.
Proof. unfold cj, eye. rewrite conj_delta. apply delta_sym. Qed.
Lemma cj_dg w i j : cj (dg w) i j = dg (fun l => conj (w l)) i j.
Proof. unfold cj, dg. rewrite conj_mul, conj_delta. unfold delta. rewrite Nat.eqb_sym. destruct (Nat.eqb_spec i j); [subst; reflexivity|ring]. Qed.
Lemma cj_cj (A : fm) i j : cj (cj A) i j = A i j. Proof. unfold cj. apply conj_invol. Qed.
Lemma feq_cj m n (A B : fm) : feq m n A B -> feq n m (cj A) (cj B).
Proof. intros H i j Hi Hj. unfold cj. rewrite H; auto. Qed.
Lemma inv2_cj n V W : inv2 n V W -> inv2 n (cj V) (cj W).
Proof. intros [A B]. split; intros i j Hi Hj.
  - rewrite <- cj_mmul. unfold cj at 1. rewrite B by auto. change (conj (eye j i)) with (cj eye i j). apply cj_eye.
  - rewrite <- cj_mmul. unfold cj at 1. rewrite A by auto. change (conj (eye j i)) with (cj eye i j). apply cj_eye. Qed.
End Adjoint.
