From Coq Require Import List Bool Arith. Import ListNotations.
Inductive annot := SA | PSD | St | Un.
Definition annot_eqb (a b : annot) := match a, b with SA,SA | PSD,PSD | St,St | Un,Un => true | _,_ => false end.
Definition mem (a : annot) (s : list annot) := existsb (annot_eqb a) s.
Definition inter (s t : list annot) := filter (fun a => mem a t) s.
Definition minus (s t : list annot) := filter (fun a => negb (mem a t)) s.
Definition union (s t : list annot) := s ++ minus t s.
Definition norm (s : list annot) : list bool := [mem SA s; mem PSD s; mem St s; mem Un s].
(* skeleton of an operator tree, enough for annotation inference *)
Inductive sk :=
| KLeaf            (* Dense / Diagonal / Tridiagonal / Triangular ... : no inferred annotation *)
| KScal | KIdent | KPerm
| KSum (ms : list sk) | KProd (ms : list sk) | KKron (ms : list sk) | KBD (ms : list sk)
| KTransp (a : sk) | KAdj (a : sk)
| KAnn (s : list annot) (a : sk).
Fixpoint is_scal (e : sk) : bool := match e with KScal => true | KAnn _ a => is_scal a | _ => false end.
Definition inter_all (l : list (list annot)) : list annot :=
  match l with [] => [] | s :: r => fold_left inter r s end.
Fixpoint infer (e : sk) : list annot :=
  match e with
  | KLeaf | KScal => []
  | KIdent => [Un; PSD]
  | KPerm => [Un]
  | KSum ms => minus (inter_all (map infer ms)) [Un; St]
  | KKron ms | KBD ms => inter_all (map infer ms)
  | KProd ms =>
      let nc := filter (fun m => negb (is_scal m)) ms in
      match nc with
      | [m] => (fix pick (l : list sk) : list annot := match l with [] => [] | x :: r => if negb (is_scal x) then infer x else pick r end) ms
      | _ => inter (inter_all (map infer ms)) [Un; St]
      end
  | KTransp a | KAdj a => infer a
  | KAnn s a => union (infer a) s
  end.
