(* C13: the GMRES reduction in an abstract inner-product space.  Given an orthonormal family q_0..q_m, the Arnoldi
   relation  A q_j = sum_{i<=m} H[i,j] q_i  (j < m)  and  r0 = beta q_0  (all weakly), the residual
   rho(y) = r0 - sum_{j<m} y_j A q_j  has the coordinates  beta e1 - H~ y  in that family:
     <q_k, rho> = (beta e1 - H~ y)_k                              (gmres_coordinates)
     <rho, rho> = sum_{k<=m} |(beta e1 - H~ y)_k|^2                (gmres_reduction: ||r0 - A Q y|| = ||beta e1 - H~ y||)
   and the normal equations of the small problem,  (H~^H H~) y = H~^H (beta e1),  are exactly the orthogonality
   conditions  <A q_i, rho> = 0  (gmres_normal_equations); with C13_Proofs.gmres_minimal this gives minimality of
   the residual over x0 + K_m (gmres_optimal_from_normal_equations). *)
From Coq Require Import List Bool Arith Lia Ring Field.
From Core Require Import C12_Ops C12_Krylov C13_Model C13_Proofs.
Import ListNotations.

Section Reduction.
Context {T V : Type} (o : ops T) (vo : vops T V).
Notation "0" := (o0 o) : T_scope.
Notation "1" := (o1 o) : T_scope.
Notation "x + y" := (oadd o x y) : T_scope.
Notation "x * y" := (omul o x y) : T_scope.
Notation "x - y" := (osub o x y) : T_scope.
Notation "x / y" := (odiv o x y) : T_scope.
Notation "- x" := (oopp o x) : T_scope.
Notation conj := (oconj o).
Notation dot := (vdot vo).
Local Open Scope T_scope.

Hypothesis Fth : field_theory 0 1 (oadd o) (omul o) (osub o) (oopp o) (odiv o) (fun x => 1 / x) eq.
Add Field Tfield13r : Fth.
Hypothesis conj_add : forall a b, conj (a + b) = conj a + conj b.
Hypothesis conj_mul : forall a b, conj (a * b) = conj a * conj b.
Hypothesis conj_opp : forall a, conj (- a) = - conj a.
Hypothesis conj_invol : forall a, conj (conj a) = a.
Hypothesis dot_sub_r : forall u v w, dot u (vsub vo v w) = dot u v - dot u w.
Hypothesis dot_scale_r : forall u a v, dot u (vscale vo a v) = a * dot u v.
Hypothesis dot_sym : forall u v, dot u v = conj (dot v u).

Fixpoint sum (n : nat) (f : nat -> T) : T := match n with O => 0 | S k => sum k f + f k end.
Lemma sum_ext n f g : (forall i, (i < n)%nat -> f i = g i) -> sum n f = sum n g.
Proof. induction n as [|n IH]; intros H; cbn [sum]; [reflexivity|]. rewrite IH, H by (intros; try apply H; lia). reflexivity. Qed.
Lemma sum_add n f g : sum n (fun i => f i + g i) = sum n f + sum n g.
Proof. induction n as [|n IH]; cbn [sum]; [ring|rewrite IH; ring]. Qed.
Lemma sum_sub n f g : sum n (fun i => f i - g i) = sum n f - sum n g.
Proof. induction n as [|n IH]; cbn [sum]; [ring|rewrite IH; ring]. Qed.
Lemma sum_mul_l n c f : sum n (fun i => c * f i) = c * sum n f.
Proof. induction n as [|n IH]; cbn [sum]; [ring|rewrite IH; ring]. Qed.
Lemma sum_mul_r n c f : sum n (fun i => f i * c) = sum n f * c.
Proof. induction n as [|n IH]; cbn [sum]; [ring|rewrite IH; ring]. Qed.
Lemma sum_zero n : sum n (fun _ => 0) = 0.
Proof. induction n as [|n IH]; cbn [sum]; [ring|rewrite IH; ring]. Qed.
Lemma sum_swap m n (f : nat -> nat -> T) : sum m (fun i => sum n (fun j => f i j)) = sum n (fun j => sum m (fun i => f i j)).
Proof. induction m as [|m IH]; cbn [sum]. - rewrite sum_zero; reflexivity. - rewrite IH, <- sum_add. reflexivity. Qed.
Lemma conj_zero_r : conj 0 = 0.
Proof. assert (H : conj 0 + conj 0 = conj 0). { rewrite <- conj_add. f_equal. ring. }
  transitivity (conj 0 + conj 0 - conj 0); [ring|rewrite H; ring]. Qed.
Lemma conj_sub_r a b : conj (a - b) = conj a - conj b.
Proof. replace (a - b) with (a + - b) by ring. rewrite conj_add, conj_opp. ring. Qed.
Lemma sum_conj n f : conj (sum n f) = sum n (fun i => conj (f i)).
Proof. induction n as [|n IH]; cbn [sum]; [apply conj_zero_r|]. rewrite conj_add, IH. reflexivity. Qed.
Definition delta (a b : nat) : T := if Nat.eqb a b then 1 else 0.
Lemma sum_delta n k f : (k < n)%nat -> sum n (fun i => f i * delta k i) = f k.
Proof. induction n as [|n IH]; intros H; [lia|]. cbn [sum]. destruct (Nat.eq_dec k n) as [->|Hne].
  - unfold delta at 2. rewrite Nat.eqb_refl. rewrite (sum_ext n _ (fun _ => 0)), sum_zero; [ring|].
    intros i Hi. unfold delta. destruct (Nat.eqb_spec n i); [lia|ring].
  - rewrite IH by lia. unfold delta. destruct (Nat.eqb_spec k n); [lia|ring]. Qed.

Variable A : V -> V.
Variables (q : nat -> V) (H : nat -> nat -> T) (m : nat) (beta : T) (r0 rho : V) (y : nat -> T).
Hypothesis Hon : forall i j, (i <= m)%nat -> (j <= m)%nat -> dot (q i) (q j) = delta i j.
Hypothesis Hrel : forall j, (j < m)%nat -> forall u, dot u (A (q j)) = sum (S m) (fun i => H i j * dot u (q i)).
Hypothesis Hr0 : forall u, dot u r0 = beta * dot u (q 0%nat).
Hypothesis Hrho : forall u, dot u rho = dot u r0 - sum m (fun j => y j * dot u (A (q j))).

Definition coord (k : nat) : T := beta * delta k 0%nat - sum m (fun j => H k j * y j).    (* (beta e1 - H~ y)_k *)

Lemma rho_expand u : dot u rho = sum (S m) (fun i => coord i * dot u (q i)).
Proof.
  rewrite Hrho, Hr0. unfold coord.
  rewrite (sum_ext (S m) _ (fun i => beta * delta i 0%nat * dot u (q i) - sum m (fun j => H i j * y j) * dot u (q i))) by (intros; ring).
  rewrite sum_sub. f_equal.
  - rewrite (sum_ext (S m) _ (fun i => (beta * dot u (q i)) * delta 0%nat i)).
    + rewrite (sum_delta (S m) 0%nat (fun i => beta * dot u (q i))) by lia. reflexivity.
    + intros i Hi. unfold delta. rewrite (Nat.eqb_sym i 0%nat). ring.
  - rewrite (sum_ext m _ (fun j => sum (S m) (fun i => H i j * y j * dot u (q i)))).
    + rewrite sum_swap. apply sum_ext. intros i Hi. rewrite <- sum_mul_r. reflexivity.
    + intros j Hj. rewrite Hrel by assumption. rewrite <- sum_mul_l. apply sum_ext. intros; ring.
Qed.

Theorem gmres_coordinates k : (k <= m)%nat -> dot (q k) rho = coord k.
Proof.
  intros Hk. rewrite rho_expand. rewrite (sum_ext (S m) _ (fun i => coord i * delta k i)).
  - apply (sum_delta (S m) k coord). lia.
  - intros i Hi. rewrite Hon by lia. reflexivity.
Qed.

Theorem gmres_reduction : dot rho rho = sum (S m) (fun k => coord k * conj (coord k)).
Proof.
  rewrite rho_expand. apply sum_ext. intros i Hi. rewrite (dot_sym rho (q i)), gmres_coordinates by lia. reflexivity.
Qed.

Definition Gram (i j : nat) : T := sum (S m) (fun k => conj (H k i) * H k j).            (* (H~^H H~)[i,j] *)

Theorem gmres_normal_equations :
  (forall i, (i < m)%nat -> sum m (fun j => Gram i j * y j) = conj (H 0%nat i) * beta) ->
  forall i, (i < m)%nat -> dot (A (q i)) rho = 0.
Proof.
  intros Hne i Hi. rewrite dot_sym, Hrel by assumption. rewrite sum_conj.
  rewrite (sum_ext (S m) _ (fun k => conj (H k i) * coord k)).
  2:{ intros k Hk. rewrite conj_mul, <- dot_sym, gmres_coordinates by lia. reflexivity. }
  unfold coord.
  rewrite (sum_ext (S m) _ (fun k => (conj (H k i) * beta) * delta 0%nat k - sum m (fun j => conj (H k i) * H k j * y j))).
  2:{ intros k Hk. rewrite (sum_ext m (fun j => conj (H k i) * H k j * y j) (fun j => conj (H k i) * (H k j * y j))) by (intros; ring).
      rewrite sum_mul_l. unfold delta. rewrite (Nat.eqb_sym k 0%nat).
      ring. }
  rewrite sum_sub, (sum_delta (S m) 0%nat (fun k => conj (H k i) * beta)) by lia.
  rewrite sum_swap.
  rewrite (sum_ext m _ (fun j => Gram i j * y j)) by (intros j Hj; unfold Gram; rewrite <- sum_mul_r; reflexivity).
  rewrite Hne by assumption. ring.
Qed.
End Reduction.

(* ---- the two halves put together: coordinates' normal equations  ==>  minimal residual ---- *)
Section Optimal.
Context {T V : Type} (o : ops T) (vo : vops T V).
Notation "0" := (o0 o) : T_scope.
Notation "1" := (o1 o) : T_scope.
Notation "x + y" := (oadd o x y) : T_scope.
Notation "x * y" := (omul o x y) : T_scope.
Notation "x - y" := (osub o x y) : T_scope.
Notation "x / y" := (odiv o x y) : T_scope.
Notation "- x" := (oopp o x) : T_scope.
Notation conj := (oconj o).
Notation dot := (vdot vo).
Local Open Scope T_scope.
Hypothesis Fth : field_theory 0 1 (oadd o) (omul o) (osub o) (oopp o) (odiv o) (fun x => 1 / x) eq.
Add Field Tfield13o : Fth.
Hypothesis conj_add : forall a b, conj (a + b) = conj a + conj b.
Hypothesis conj_mul : forall a b, conj (a * b) = conj a * conj b.
Hypothesis conj_opp : forall a, conj (- a) = - conj a.
Hypothesis conj_invol : forall a, conj (conj a) = a.
Hypothesis dot_sub_r : forall u v w, dot u (vsub vo v w) = dot u v - dot u w.
Hypothesis dot_scale_r : forall u a v, dot u (vscale vo a v) = a * dot u v.
Hypothesis dot_sym : forall u v, dot u v = conj (dot v u).
Variable A : V -> V.
Variables (q : nat -> V) (H : nat -> nat -> T) (m : nat) (beta : T) (r0 : V) (y : nat -> T).

Definition ws : list V := map (fun j => A (q j)) (seq 0 m).
Definition rho_of (yl : list T) : V := lsq_res vo ws yl r0.

Lemma lsum_app13 l1 l2 : lsum o (l1 ++ l2) = lsum o l1 + lsum o l2.
Proof. induction l1 as [|a l1 IH]; cbn [app]; [rewrite lsum_nil; ring|]. rewrite !lsum_cons, IH. ring. Qed.

Lemma lsum_sum (f : nat -> T) k : lsum o (map f (seq 0 k)) = sum o k f.
Proof. induction k as [|k IH]; [reflexivity|]. rewrite seq_S, map_app, lsum_app13, IH. cbn [map sum Nat.add]. rewrite lsum_cons, lsum_nil. ring. Qed.

Lemma rho_of_dot u : dot u (rho_of (map y (seq 0 m))) = dot u r0 - sum o m (fun j => y j * dot u (A (q j))).
Proof.
  unfold rho_of. rewrite (lsq_res_dot o vo Fth dot_sub_r dot_scale_r). f_equal. unfold ws, zipw.
  rewrite <- (lsum_sum (fun j => y j * dot u (A (q j))) m). f_equal.
  generalize (seq 0 m) as l. induction l as [|a l IH]; [reflexivity|]. cbn [map combine fst snd]. f_equal. exact IH.
Qed.

Theorem gmres_optimal_from_normal_equations (Pos : T -> Prop) : (forall v, Pos (dot v v)) ->
  (forall i j, (i <= m)%nat -> (j <= m)%nat -> dot (q i) (q j) = delta o i j) ->
  (forall j, (j < m)%nat -> forall u, dot u (A (q j)) = sum o (S m) (fun i => H i j * dot u (q i))) ->
  (forall u, dot u r0 = beta * dot u (q 0%nat)) ->
  (forall i, (i < m)%nat -> sum o m (fun j => Gram o H m i j * y j) = conj (H 0%nat i) * beta) ->
  forall y' : list T,
  Pos (dot (rho_of y') (rho_of y') - dot (rho_of (map y (seq 0 m))) (rho_of (map y (seq 0 m)))).
Proof.
  intros HP Hon Hrel Hr0 Hne y'.
  apply (gmres_minimal o vo Fth conj_add conj_opp dot_sub_r dot_scale_r dot_sym Pos HP).
  intros w Hw. unfold ws in Hw. apply in_map_iff in Hw. destruct Hw as [i [<- Hi]]. apply in_seq in Hi.
  apply (gmres_normal_equations o vo Fth conj_add conj_mul dot_sym A q H m beta r0 _ y Hon Hrel Hr0 rho_of_dot Hne). lia.
Qed.
End Optimal.
