(* C13: the Arnoldi invariants over the whole loop of one column, and their function-indexed form that feeds the
   reduction theorems of C13_Reduction.v.  Hypothesis: during the first K steps no new vector is clipped
   (norm >= tol/2) or zero - the regime in which arnoldi_fact is an Arnoldi process at all. *)
From Coq Require Import List Bool Arith Lia Ring Field.
From Core Require Import C12_Ops C12_Krylov C13_Model C13_Proofs C13_Reduction.
Import ListNotations.

Section Loop.
Context {T V : Type} (o : ops T) (vo : vops T V).
Notation "0" := (o0 o) : T_scope.
Notation "1" := (o1 o) : T_scope.
Notation "x + y" := (oadd o x y) : T_scope.
Notation "x * y" := (omul o x y) : T_scope.
Notation "x - y" := (osub o x y) : T_scope.
Notation "x / y" := (odiv o x y) : T_scope.
Notation "- x" := (oopp o x) : T_scope.
Notation conj := (oconj o).
Notation dot := (vdot vo).
Local Open Scope T_scope.
Hypothesis Fth : field_theory 0 1 (oadd o) (omul o) (osub o) (oopp o) (odiv o) (fun x => 1 / x) eq.
Add Field Tfield13l : Fth.
Hypothesis conj_add : forall a b, conj (a + b) = conj a + conj b.
Hypothesis conj_mul : forall a b, conj (a * b) = conj a * conj b.
Hypothesis conj_opp : forall a, conj (- a) = - conj a.
Hypothesis conj_div : forall a b, conj (a / b) = conj a / conj b.
Hypothesis dot_sub_r : forall u v w, dot u (vsub vo v w) = dot u v - dot u w.
Hypothesis dot_scale_r : forall u a v, dot u (vscale vo a v) = a * dot u v.
Hypothesis dot_divs_r : forall u v a, dot u (vdivs vo v a) = dot u v / a.
Hypothesis dot_sym : forall u v, dot u v = conj (dot v u).
Hypothesis nrm_sq : forall v, vnrm o vo v * vnrm o vo v = dot v v.
Hypothesis nrm_real : forall v, conj (vnrm o vo v) = vnrm o vo v.
Variable A : V -> V.
Variables (selfref zero_nan abs_clip : bool).       (* the theorems hold for either value of the two Arnoldi flags *)
Variables (tol : T) (r0 : V).
Hypothesis Hr0nz : vnrm o vo r0 <> 0.
Hypothesis Hstart : start_den o zero_nan (vnrm o vo r0) = vnrm o vo r0.    (* the start vector is divided by its norm *)

Definition acs (k : nat) : acol (T:=T) (V:=V) := Nat.iter k (arnoldi_step o vo A selfref abs_clip tol) (init_acol o vo zero_nan r0).
(* the new vector is divided by its own, non-zero, norm (not clipped at tol/2, not replaced by zero) *)
Definition unclipped (c : acol (T:=T) (V:=V)) : Prop :=
  forall w hs, mgs vo (aqs c) (A (alast c)) [] = (w, hs) ->
  next_q o vo selfref (step_thr o abs_clip tol (ahs c ++ [rev hs ++ [vnrm o vo w]])) w (vnrm o vo w) = vdivs vo w (vnrm o vo w) /\ vnrm o vo w <> 0.
Variable K : nat.
Hypothesis Hunc : forall k, (k < K)%nat -> unclipped (acs k).

Definition rel_ok (c : acol (T:=T) (V:=V)) : Prop :=
  forall j hcol qj, nth_error (ahs c) j = Some hcol -> nth_error (aqs c) j = Some qj ->
    length hcol = S (S j) /\ forall u, dot u (A qj) = lsum o (zipw (fun h q => h * dot u q) hcol (aqs c)).
Definition AInv (k : nat) (c : acol (T:=T) (V:=V)) : Prop :=
  orthonormal o vo (aqs c) /\ length (aqs c) = S k /\ length (ahs c) = k /\ nth_error (aqs c) k = Some (alast c) /\ rel_ok c.

Lemma combine_app_short {X Y} : forall (a : list X) (b b' : list Y), (length a <= length b)%nat -> combine a (b ++ b') = combine a b.
Proof. induction a as [|x a IH]; intros [|y b] b' H; cbn in *; try reflexivity; try lia. f_equal. apply IH. lia. Qed.

Lemma acs_S k : acs (S k) = arnoldi_step o vo A selfref abs_clip tol (acs k). Proof. reflexivity. Qed.

Theorem arnoldi_invariant k : (k <= K)%nat -> AInv k (acs k).
Proof.
  induction k as [|k IH]; intros Hk.
  - unfold acs, init_acol. cbn [Nat.iter nat_rect]. rewrite Hstart. unfold AInv. cbn [aqs ahs alast length].
    split; [|split; [reflexivity|split; [reflexivity|split; [reflexivity|]]]].
    + intros i j qi qj Hi Hj. destruct i as [|i]; [|destruct i; discriminate]. destruct j as [|j]; [|destruct j; discriminate].
      cbn in Hi, Hj. inversion Hi; inversion Hj; subst. cbn [Nat.eqb].
      rewrite dot_divs_r, (dot_sym (vdivs vo r0 (vnrm o vo r0)) r0), dot_divs_r, conj_div, <- dot_sym, nrm_real, <- (nrm_sq r0).
      field. exact Hr0nz.
    + intros j hcol qj Hh. destruct j; discriminate.
  - destruct (IH ltac:(lia)) as (Hon & Lq & Lh & Hlast & Hrel).
    destruct (mgs vo (aqs (acs k)) (A (alast (acs k))) []) as [w hs] eqn:Hm.
    destruct (Hunc k ltac:(lia) w hs Hm) as [Hclip Hnz].
    destruct (arnoldi_step_spec o vo Fth conj_add conj_div dot_sub_r dot_scale_r dot_divs_r dot_sym A nrm_sq nrm_real selfref abs_clip tol (acs k) Hon w hs Hm Hclip Hnz)
      as (Hon' & hcol & Eh & Lc & Eq & Hnew).
    rewrite acs_S. set (c' := arnoldi_step o vo A selfref abs_clip tol (acs k)) in *.
    unfold AInv. split; [exact Hon'|]. split; [rewrite Eq, app_length; cbn [length]; lia|].
    split; [rewrite Eh, app_length; cbn [length]; lia|]. split.
    + rewrite Eq, nth_error_app2 by lia. rewrite Lq, Nat.sub_diag. reflexivity.
    + intros j hc qj Hh Hq. rewrite Eh in Hh. destruct (Nat.lt_ge_cases j k) as [Hlt|Hge].
      * rewrite nth_error_app1 in Hh by lia. rewrite Eq in Hq. rewrite nth_error_app1 in Hq by lia.
        destruct (Hrel j hc qj Hh Hq) as [Ll Hr]. split; [exact Ll|]. intros u. rewrite Hr, Eq. unfold zipw.
        rewrite combine_app_short by lia. reflexivity.
      * rewrite nth_error_app2 in Hh by lia. rewrite Lh in Hh. destruct (j - k)%nat as [|dd] eqn:Ed; [|destruct dd; discriminate].
        cbn in Hh. inversion Hh; subst hc. assert (j = k) by lia. subst j.
        rewrite Eq in Hq. rewrite nth_error_app1 in Hq by lia. rewrite Hlast in Hq. inversion Hq; subst qj.
        split; [lia|]. exact Hnew.
Qed.

(* ---- function-indexed view of the final state after K steps, as required by C13_Reduction.v ---- *)
Definition cK : acol (T:=T) (V:=V) := acs K.
Definition qf (i : nat) : V := nth i (aqs cK) (alast cK).
Definition Hf (i j : nat) : T := hent o cK i j.
Definition beta0 : T := vnrm o vo r0.

Lemma sum_shift n (f : nat -> T) : sum o (S n) f = f 0%nat + sum o n (fun i => f (S i)).
Proof. induction n as [|n IH]; [cbn [sum]; ring|]. change (sum o (S (S n)) f) with (sum o (S n) f + f (S n)). rewrite IH. cbn [sum]. ring. Qed.

Lemma lsum_zipw_sum (u d : V) : forall qs hcol, (length hcol <= length qs)%nat ->
  lsum o (zipw (fun h q => h * dot u q) hcol qs) = sum o (length qs) (fun i => nth i hcol 0 * dot u (nth i qs d)).
Proof.
  induction qs as [|q qs IH]; intros hcol Hl.
  - destruct hcol; [reflexivity|cbn in Hl; lia].
  - destruct hcol as [|h hcol].
    + unfold zipw. cbn [combine map length]. rewrite lsum_nil.
      rewrite (sum_ext o (S (length qs)) _ (fun _ => 0)), (sum_zero o Fth); [reflexivity|].
      intros i _. destruct i; cbn [nth]; ring.
    + unfold zipw. cbn [combine map fst snd length]. rewrite lsum_cons, sum_shift. cbn [nth]. f_equal.
      apply IH. cbn in Hl. lia.
Qed.

Lemma aqs_head k : exists tl, aqs (acs k) = vdivs vo r0 (vnrm o vo r0) :: tl.
Proof. induction k as [|k [tl IH]]; [exists []; unfold acs, init_acol; cbn [Nat.iter nat_rect aqs]; rewrite Hstart; reflexivity|]. rewrite acs_S. unfold arnoldi_step.
  destruct (mgs vo (aqs (acs k)) (A (alast (acs k))) []) as [w hs]. cbn [aqs]. rewrite IH. eexists. reflexivity. Qed.

Lemma qf_nth i : (i <= K)%nat -> nth_error (aqs cK) i = Some (qf i).
Proof. intros Hi. destruct (arnoldi_invariant K (le_n _)) as (_ & Lq & _). unfold qf. apply nth_error_nth'. fold cK in Lq. lia. Qed.

Lemma qf_orthonormal i j : (i <= K)%nat -> (j <= K)%nat -> dot (qf i) (qf j) = delta o i j.
Proof. intros Hi Hj. destruct (arnoldi_invariant K (le_n _)) as (Hon & _). apply (Hon i j); apply qf_nth; assumption. Qed.

Lemma qf_relation j : (j < K)%nat -> forall u, dot u (A (qf j)) = sum o (S K) (fun i => Hf i j * dot u (qf i)).
Proof.
  intros Hj u. destruct (arnoldi_invariant K (le_n _)) as (_ & Lq & Lh & _ & Hrel). fold cK in Lq, Lh, Hrel.
  destruct (nth_error (ahs cK) j) as [hcol|] eqn:Eh; [|apply nth_error_None in Eh; lia].
  destruct (Hrel j hcol (qf j) Eh (qf_nth j ltac:(lia))) as [Ll Hr]. rewrite Hr.
  rewrite (lsum_zipw_sum u (alast cK)) by lia. rewrite Lq. apply (sum_ext o). intros i Hi.
  unfold Hf, hent, qf. rewrite (nth_error_nth _ _ _ Eh). reflexivity.
Qed.

Lemma r0_beta u : dot u r0 = beta0 * dot u (qf 0%nat).
Proof. unfold qf, beta0, cK. destruct (aqs_head K) as [tl E]. rewrite E. cbn [nth]. rewrite dot_divs_r. field. exact Hr0nz. Qed.

(* For the H buffer and the basis produced by K unclipped steps of arnoldi_fact: coefficients solving the small
   normal equations (Gram of the FULL (K+1) x K Hessenberg matrix) give the residual of minimal norm among
   r0 - sum_j y'_j A q_j, i.e. over x0 + K_K(A, r0). *)
Theorem arnoldi_gmres_optimal (Pos : T -> Prop) : (forall v, Pos (dot v v)) ->
  forall y : nat -> T,
  (forall i, (i < K)%nat -> sum o K (fun j => Gram o Hf K i j * y j) = conj (Hf 0%nat i) * beta0) ->
  forall y' : list T,
  Pos (dot (rho_of vo A qf K r0 y') (rho_of vo A qf K r0 y') - dot (rho_of vo A qf K r0 (map y (seq 0 K))) (rho_of vo A qf K r0 (map y (seq 0 K)))).
Proof.
  intros HP y Hne y'.
  apply (gmres_optimal_from_normal_equations o vo Fth conj_add conj_mul conj_opp dot_sub_r dot_scale_r dot_sym A qf Hf K beta0 r0 y Pos HP
           qf_orthonormal qf_relation r0_beta Hne).
Qed.
End Loop.
