(* Property C07: slogdet / logdet equal the determinant's phase and log-magnitude.
   Only statements closed by [exact]; the lemmas live in C07_*.v. *)
From Coq Require Import List Arith Bool.
From mathcomp Require Import all_ssreflect all_algebra.
From Core Require Import Base Kron Op C07_DetLaws C07_MxBridge.

(* mathcomp's determinant satisfies the interface the C07 development is built on, over every commutative ring *)
Theorem C07_mathcomp_det_laws : forall R : comRingType, @DetLaws R (mcRing R) (mxdet R).
Proof. exact mx_DetLaws. Qed.
Print Assumptions C07_mathcomp_det_laws.
