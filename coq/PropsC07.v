(* Property C07: slogdet / logdet equal the determinant's phase and log-magnitude.
   Only statements closed by [exact]; the lemmas live in C07_*.v.
   Reading guide.  [slogdet D fl alg e] is the model of cola.linalg.slogdet on a decorated operator tree e
   (C07_Slogdet.v): D = carriers of phases/magnitudes (V) and of logabs (L) with abstract exp/log; fl = the recorded
   defect flags (all_fixed = none); alg = Auto | Cholesky | LU | Lanczos/Arnoldi.  [ev D (s, l)] = s * exp l.
   [valid ... alg e] = the tree is well-formed, non-singular (non-zero pivots / scalars / diagonal entries,
   permutations are permutations) and the LAPACK / Krylov answers decorating the base-case nodes which the selected
   algorithm reads satisfy their specifications (P L U = A with L, U triangular; L L^H = A; exp(trace log A) = det A). *)
From Coq Require Import List Arith Bool ZArith.
From mathcomp Require Import all_ssreflect all_algebra.
From Core Require Import Base Kron Op FieldBase C07_DetLaws C07_MxBridge C07_Slogdet C07_Proofs C07_Field C07_Exec C07_Refute C07_MxFinal C07_Unary.
Import GRing.Theory Num.Theory.
Local Open Scope ring_scope.

(* 1. mathcomp's determinant satisfies the interface the development is built on, over every commutative ring *)
Theorem C07_mathcomp_det_laws : forall R : comRingType, @DetLaws R (mcRing R) (mxdet R).
Proof. exact mx_DetLaws. Qed.
Print Assumptions C07_mathcomp_det_laws.

(* 2. from the interface alone: det (A (x) B) = det(A)^n det(B)^m  (the law behind the Kronecker rule) *)
Theorem C07_det_kron : forall (R : Type) (RR : Ring R) (fdet : nat -> fm (R:=R) -> R), DetLaws fdet ->
  forall m n A B, fdet (m * n)%nat (kron n n A B) = (rpow (fdet m A) n * rpow (fdet n B) m)%R.
Proof. exact (@fdet_kron). Qed.
Print Assumptions C07_det_kron.

(* 3. from the interface alone: a permutation matrix has determinant = the parity computed by sorting with row swaps *)
Theorem C07_det_perm : forall (R : Type) (RR : Ring R) (fdet : nat -> fm (R:=R) -> R), DetLaws fdet ->
  forall n p, is_perm n p -> fdet n (fun i j => delta (p i) j) = perm_sign n p.
Proof. exact (@fdet_perm). Qed.
Print Assumptions C07_det_perm.

(* 4. THE property, for every determinant function satisfying the interface, every commutative ring with involution,
      every lawful pair of carriers, every algorithm choice and every valid tree (all structural rules, all base cases) *)
Theorem C07_slogdet_det : forall (R : Type) (RR : Ring R) (CR : CRing R) (V L : Type) (D : sdom (R:=R) V L),
  sdom_laws V L D -> forall fdet : nat -> fm (R:=R) -> R, DetLaws fdet ->
  forall alg (e : sop (R:=R) L), valid V L D fdet alg e ->
  ev D (slogdet D all_fixed alg e) = vof D (fdet (dim e) (den (to_op e))).
Proof. exact (@slogdet_det_all). Qed.
Print Assumptions C07_slogdet_det.

(* 5. ... hence about mathcomp's \det, over every comRingType *)
Theorem C07_slogdet_mxdet : forall (R : comRingType) (CR : @CRing R (mcRing R)) (V L : Type) (D : sdom (R:=R) V L),
  @sdom_laws R (mcRing R) CR V L D -> forall alg (e : sop (R:=R) L), @valid R (mcRing R) CR V L D (mxdet R) alg e ->
  ev D (@slogdet R (mcRing R) V L D all_fixed alg e) = vof D (mxdet R (dim e) (@den R (mcRing R) CR (to_op e))).
Proof. exact (@slogdet_mxdet). Qed.
Print Assumptions C07_slogdet_mxdet.

(* 6. over every numFieldType with a norm-compatible involution (identity: real operators; conjC: complex):
      sign * mag = \det,  |sign| = 1,  0 < mag   (multiplicative form: mag = exp(logabs)) *)
Theorem C07_slogdet_numfield : forall (R : numFieldType) (cj : R -> R)
  (cjD : forall x y, cj (x + y) = cj x + cj y) (cjM : forall x y, cj (x * y) = cj x * cj y) (cjK : forall x, cj (cj x) = x)
  (cj_norm : forall x : R, `|cj x| = `|x|) (cj_real : forall x : R, cj `|x| = `|x|) (kabs ksgn : R -> R)
  alg (e : sop (R:=R) R),
  @valid R (mcRing R) (numCRing cjD cjM cjK cj_real) R R (numdom cjD cjM cjK cj_real kabs ksgn) (mxdet R) alg e ->
  let s := fst (@slogdet R (mcRing R) R R (numdom cjD cjM cjK cj_real kabs ksgn) all_fixed alg e) in
  let m := snd (@slogdet R (mcRing R) R R (numdom cjD cjM cjK cj_real kabs ksgn) all_fixed alg e) in
  s * m = \det (\matrix_(i < dim e, j < dim e) @den R (mcRing R) (numCRing cjD cjM cjK cj_real) (to_op e) i j) /\ `|s| = 1 /\ 0 < m.
Proof. exact (@slogdet_numfield). Qed.
Print Assumptions C07_slogdet_numfield.

(* 7. logdet returns the modulus of the determinant (multiplicative form): |det| < 1 iff logabs is negative *)
Theorem C07_logdet_numfield : forall (R : numFieldType) (cj : R -> R)
  (cjD : forall x y, cj (x + y) = cj x + cj y) (cjM : forall x y, cj (x * y) = cj x * cj y) (cjK : forall x, cj (cj x) = x)
  (cj_norm : forall x : R, `|cj x| = `|x|) (cj_real : forall x : R, cj `|x| = `|x|) (kabs ksgn : R -> R)
  alg (e : sop (R:=R) R),
  @valid R (mcRing R) (numCRing cjD cjM cjK cj_real) R R (numdom cjD cjM cjK cj_real kabs ksgn) (mxdet R) alg e ->
  @logdet R (mcRing R) R R (numdom cjD cjM cjK cj_real kabs ksgn) all_fixed alg e
  = `|\det (\matrix_(i < dim e, j < dim e) @den R (mcRing R) (numCRing cjD cjM cjK cj_real) (to_op e) i j)|.
Proof. exact (@logdet_numfield). Qed.
Print Assumptions C07_logdet_numfield.

(* 7b. real operators (any realFieldType, trivial involution): the sign is exactly Num.sg of the determinant, it is +1 or -1,
       and the determinant of a valid (non-singular) tree is non-zero; so odd permutations / negative scalars flip it *)
Theorem C07_slogdet_realfield : forall (R : realFieldType) (kabs ksgn : R -> R) alg (e : sop (R:=R) R),
  @valid R (mcRing R) (realCRing R) R R (realdom kabs ksgn) (mxdet R) alg e ->
  let s := fst (@slogdet R (mcRing R) R R (realdom kabs ksgn) all_fixed alg e) in
  let d := \det (\matrix_(i < dim e, j < dim e) @den R (mcRing R) (realCRing R) (to_op e) i j) in
  s = Num.sg d /\ (s = 1 \/ s = -1) /\ d != 0.
Proof. exact (@slogdet_realfield). Qed.
Print Assumptions C07_slogdet_realfield.

(* 8. the exact instance that vm_compute runs in the correspondence check is covered by theorem 4 *)
Theorem C07_exec_instance : forall fdet : nat -> fm (R:=qi) -> qi, DetLaws fdet ->
  forall alg (e : sop (R:=qi) sd), valid sd sd qdom fdet alg e ->
  sdmul (fst (slogdet qdom all_fixed alg e)) (snd (slogdet qdom all_fixed alg e)) = sdof (fdet (dim e) (den (to_op e))).
Proof. exact slogdet_qdom. Qed.
Print Assumptions C07_exec_instance.

(* 8b. the matrix-function rule behind the Lanczos/Arnoldi path (model of LanczosUnary/ArnoldiUnary._matmat): the cut-off for spurious
       Ritz values depends on eps only, and nothing is dropped when every Ritz value is above 10 * eps * max|ritz| *)
Theorem C07_unary_cutoff_keeps : forall eps10 w fw, length w = length fw ->
  forallb (fun x => qcltb (Qcanon.Qcmult (Qcanon.Qcmult eps10 eps10) (maxn2 w)) (qinorm2 x)) w = true -> mask_f eps10 w fw = fw.
Proof. exact mask_f_keeps. Qed.
Print Assumptions C07_unary_cutoff_keeps.

(* 9-12. with a recorded flag on (the pinned tree) the answer is not the determinant: concrete witnesses *)
Theorem C07_scalar_slogdet_ignores_n_refuted : forall fdet : nat -> fm (R:=qi) -> qi, DetLaws fdet ->
  valid sd sd qdom fdet AAuto w_scal /\
  ev qdom (slogdet qdom (mkflags true false false) AAuto w_scal) <> vof qdom (fdet (dim w_scal) (den (to_op w_scal))).
Proof. exact scalar_slogdet_ignores_n_refuted. Qed.
Print Assumptions C07_scalar_slogdet_ignores_n_refuted.

Theorem C07_perm_slogdet_ignores_parity_refuted : forall fdet : nat -> fm (R:=qi) -> qi, DetLaws fdet ->
  valid sd sd qdom fdet AAuto w_perm /\
  ev qdom (slogdet qdom (mkflags false true false) AAuto w_perm) <> vof qdom (fdet (dim w_perm) (den (to_op w_perm))).
Proof. exact perm_slogdet_ignores_parity_refuted. Qed.
Print Assumptions C07_perm_slogdet_ignores_parity_refuted.

Theorem C07_dense_odd_pivot_refuted : forall fdet : nat -> fm (R:=qi) -> qi, DetLaws fdet ->
  valid sd sd qdom fdet ALU w_swap /\
  ev qdom (slogdet qdom (mkflags false true false) ALU w_swap) <> vof qdom (fdet (dim w_swap) (den (to_op w_swap))).
Proof. exact dense_odd_pivot_refuted. Qed.
Print Assumptions C07_dense_odd_pivot_refuted.

Theorem C07_krylov_slogdet_abs_of_trace_refuted : forall fdet : nat -> fm (R:=qi) -> qi, DetLaws fdet ->
  valid qi Z z2dom fdet AKry w_kry /\
  ev z2dom (slogdet z2dom (mkflags false false true) AKry w_kry) <> vof z2dom (fdet (dim w_kry) (den (to_op w_kry))).
Proof. exact krylov_slogdet_abs_of_trace_refuted. Qed.
Print Assumptions C07_krylov_slogdet_abs_of_trace_refuted.

(* the hypotheses are satisfiable: a nested BlockDiag / Kronecker / Permutation / Triangular / ScalarMul tree is valid for every algorithm *)
Example C07_valid_example : forall (fdet : nat -> fm (R:=qi) -> qi) alg, valid sd sd qdom fdet alg w_ex.
Proof. exact w_ex_valid. Qed.
Print Assumptions C07_valid_example.
(* the involutions of theorem 6 exist: identity on any numFieldType, conjugation on any numClosedFieldType *)
Example C07_conj_example : forall C : numClosedFieldType, let cj := (fun x : C => x^*) in
  (forall x y, cj (x + y) = cj x + cj y) /\ (forall x y, cj (x * y) = cj x * cj y) /\ (forall x, cj (cj x) = x) /\
  (forall x, `|cj x| = `|x|) /\ (forall x : C, cj `|x| = `|x|).
Proof. exact cj_conjC_ok. Qed.
Print Assumptions C07_conj_example.
