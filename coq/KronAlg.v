From Coq Require Import Arith Lia List Ring ArithRing PeanoNat Bool.
From Core Require Import Base Kron.
Import ListNotations.
Section KronAlg.
Context {R : Type} {RR : Ring R}.
Add Ring Rring : Rth.
Open Scope R_scope.
Notation fm := (fm (R:=R)). Notation fac := (fac (R:=R)).

(* binary mixed product on facs:  (A (x) B)(C (x) D) = (AC) (x) (BD), inner dims fc A = fr C, fc B = fr D *)
Definition fmul (A C : fac) : fac := mkfac (fr A) (fc C) (mmul (fc A) (fmx A) (fmx C)).
Lemma kron2_mixed A B C D i j : (0 < fc B)%nat -> fc B = fr D ->
  mmul (fc A * fc B) (fmx (kron2 A B)) (fmx (kron2 C D)) i j = fmx (kron2 (fmul A C) (fmul B D)) i j.
Proof.
  intros Hk HBD. cbn [kron2 fmul fmx fr fc]. unfold mmul. rewrite sum_prod.
  erewrite sum_ext. 2:{ intros a Ha. apply sum_ext. intros b Hb. rewrite <- HBD.
    rewrite Nat.div_add_l, (Nat.div_small b (fc B)), Nat.add_0_r by lia.
    rewrite Nat.add_comm, Nat.mod_add, (Nat.mod_small b (fc B)) by lia. reflexivity. }
  rewrite <- sum_mul_r. apply sum_ext; intros a Ha. rewrite <- sum_mul_l. apply sum_ext; intros b Hb. ring. Qed.

(* n-ary: compatible lists *)
Fixpoint compat (As Cs : list fac) : Prop :=
  match As, Cs with
  | [], [] => True
  | A :: As', C :: Cs' => fc A = fr C /\ (0 < fc A)%nat /\ compat As' Cs'
  | _, _ => False end.
Fixpoint fmuls (As Cs : list fac) : list fac :=
  match As, Cs with A :: As', C :: Cs' => fmul A C :: fmuls As' Cs' | _, _ => [] end.
Lemma compat_dims As Cs : compat As Cs -> fc (kronR As) = fr (kronR Cs) /\ (0 < fc (kronR As))%nat.
Proof. revert Cs. induction As as [|A As IH]; intros [|C Cs] H; simpl in *; try tauto; try lia.
  destruct H as (H1&H2&H3). destruct (IH Cs H3) as [E P]. split; [congruence|]. apply Nat.mul_pos_pos; auto. Qed.
Lemma fr_fmuls As Cs : compat As Cs -> fr (kronR (fmuls As Cs)) = fr (kronR As) /\ fc (kronR (fmuls As Cs)) = fc (kronR Cs).
Proof. revert Cs. induction As as [|A As IH]; intros [|C Cs] H; simpl in *; try tauto.
  destruct H as (H1&H2&H3). destruct (IH Cs H3) as [E1 E2]. rewrite E1, E2. auto. Qed.
Theorem kronR_mixed As Cs : compat As Cs -> forall i j,
  mmul (fc (kronR As)) (fmx (kronR As)) (fmx (kronR Cs)) i j = fmx (kronR (fmuls As Cs)) i j.
Proof.
  revert Cs. induction As as [|A As IH]; intros [|C Cs] H i j; simpl in H; try tauto.
  - simpl. unfold mmul. simpl. ring.
  - destruct H as (H1&H2&H3). destruct (compat_dims As Cs H3) as [E P].
    cbn [kronR fmuls]. change (fc (kron2 A (kronR As))) with (fc A * fc (kronR As))%nat.
    rewrite kron2_mixed by auto.
    cbn [kron2 fmul fmx fr fc]. destruct (fr_fmuls As Cs H3) as [E1 E2]. rewrite E1, E2.
    f_equal. apply IH; auto.
Qed.
(* identity *)
Definition feye (n : nat) : fac := mkfac n n eye.
Lemma kronR_eye ns : (forall n, In n ns -> 0 < n)%nat -> forall i j, (i < fr (kronR (map feye ns)))%nat -> (j < fc (kronR (map feye ns)))%nat ->
  fmx (kronR (map feye ns)) i j = eye i j.
Proof.
  induction ns as [|n ns IH]; intros Hpos i j Hi Hj.
  - simpl in *. assert (i = 0 /\ j = 0)%nat as [-> ->] by lia. reflexivity.
  - cbn [map kronR kron2 feye fmx fr fc] in *. set (N := fr (kronR (map feye ns))) in *.
    assert (HN : fc (kronR (map feye ns)) = N). { clear. unfold N. induction ns; simpl; auto. }
    rewrite HN in *. assert (0 < n)%nat by (apply Hpos; left; auto).
    assert (0 < N)%nat by nia.
    rewrite IH; [| intros; apply Hpos; right; auto | apply Nat.mod_upper_bound; lia | apply Nat.mod_upper_bound; lia].
    unfold eye, delta.
    destruct (Nat.eqb_spec (i / N) (j / N)); destruct (Nat.eqb_spec (i mod N) (j mod N)); destruct (Nat.eqb_spec i j); try ring; exfalso.
    + apply n0. rewrite (Nat.div_mod i N), (Nat.div_mod j N) by lia. congruence.
    + subst. congruence.
    + subst. congruence.
    + subst. congruence.
Qed.
End KronAlg.
Check kronR_mixed. Check kronR_eye.
