From Coq Require Import ZArith List Bool Arith Lia.
Import ListNotations.
Open Scope Z_scope.
(* faithful index-level model of cola.linalg.trace.diagonal_estimation.exact_diag over Z;
   M : nat -> nat -> Z is the represented n x n matrix, block size BS = min(100, n) *)
Definition fmz := nat -> nat -> Z.
Definition delta (a b : nat) : Z := if Nat.eqb a b then 1 else 0.
Definition sumn (n : nat) (f : nat -> Z) : Z := fold_left (fun acc k => acc + f k) (seq 0 n) 0.
(* columns of the identity chunk I[:, a:b) clipped to n: width and start *)
Definition clipn (x n : nat) := Nat.min x n.
(* one chunk: returns None on numpy broadcast error, else contribution vector (as function of row r) *)
Definition chunk_contrib (n bs : nat) (M : fmz) (k : Z) (i : nat) : option (nat -> Z) :=
  if k =? 0 then
    let w := (clipn (i + bs) n - clipn i n)%nat in
    Some (fun r => sumn w (fun c => M r (i + c)%nat * delta r (i + c)%nat))
  else if k <? 0 then
    let k' := Z.to_nat (- k) in
    let a := clipn i n in let b := clipn (i + bs + k') n in
    let w := (b - a)%nat in                       (* width of I_chunk *)
    let cw := Nat.min bs w in                     (* chunk = I_chunk[:, :bs] *)
    (* padded: n x (bs+k'), padded[:, :w] = I_chunk ; shifted = padded[:, k':k'+bs] : width bs *)
    let shifted := fun (r c : nat) => if (k' + c <? w)%nat then delta r (a + k' + c)%nat else 0 in
    let prod :=
      if Nat.eqb cw bs then Some (fun r c => M r (a + c)%nat * shifted r c)
      else if Nat.eqb cw 1 then Some (fun r c => M r a * shifted r c)      (* broadcast of a single column *)
      else if Nat.eqb bs 1 then Some (fun r c => M r (a + c)%nat * shifted r 0%nat)
      else None in
    match prod with
    | None => None
    | Some p => Some (fun r => sumn (Nat.max cw bs) (fun c => p r c))
    end
  else
    let kk := Z.to_nat k in
    let a := clipn (i - kk) n in let b := clipn (i + bs) n in
    let w := (b - a)%nat in
    let cw := Nat.min bs w in                     (* chunk = I_chunk[:, -bs:] : last cw columns *)
    let off := (bs + kk - w)%nat in               (* padded[:, -w:] = I_chunk, padded has bs+kk columns *)
    let shifted := fun (r c : nat) => if (off <=? c)%nat then delta r (a + (c - off))%nat else 0 in
    let prod :=
      if Nat.eqb cw bs then Some (fun r c => M r (b - cw + c)%nat * shifted r c)
      else if Nat.eqb cw 1 then Some (fun r c => M r (b - 1)%nat * shifted r c)
      else if Nat.eqb bs 1 then Some (fun r c => M r (b - cw + c)%nat * shifted r 0%nat)
      else None in
    match prod with
    | None => None
    | Some p => Some (fun r => sumn (Nat.max cw bs) (fun c => p r c))
    end.
Fixpoint chunks (fuel i bs n : nat) : list nat :=
  match fuel with O => [] | S f => if (i <? n)%nat then i :: chunks f (i + bs)%nat bs n else [] end.
Definition exact_diag (n : nat) (M : fmz) (k : Z) : option (list Z) :=
  let bs := Nat.min 100 n in
  let cs := map (chunk_contrib n bs M k) (chunks (S n) 0 bs n) in
  if forallb (fun o => match o with Some _ => true | None => false end) cs then
    let tot := fun r => fold_left (fun acc o => match o with Some f => acc + f r | None => acc end) cs 0 in
    let ak := Z.to_nat (Z.abs k) in
    Some (if k <=? 0 then map (fun r => tot (ak + r)%nat) (seq 0 (n - ak)) else map tot (seq 0 (n - ak)))
  else None.
Definition true_diag (n : nat) (M : fmz) (k : Z) : list Z :=
  let ak := Z.to_nat (Z.abs k) in
  if k <=? 0 then map (fun r => M (ak + r)%nat r) (seq 0 (n - ak)) else map (fun r => M r (r + ak)%nat) (seq 0 (n - ak)).
Definition Mtest (n : nat) : fmz := fun i j => Z.of_nat i * Z.of_nat n + Z.of_nat j + 1.
Definition leqb (a b : list Z) := Nat.eqb (length a) (length b) && forallb (fun p => Z.eqb (fst p) (snd p)) (combine a b).
(* outcome code: 0 = ok and equals true diagonal, 1 = ok but wrong, 2 = error *)
Definition outcome (n : nat) (k : Z) : nat :=
  match exact_diag n (Mtest n) k with None => 2%nat | Some d => if leqb d (true_diag n (Mtest n) k) then 0%nat else 1%nat end.
