(* C17 - the Hutchinson diagonal estimator of cola/linalg/trace/diagonal_estimation.py:163-210, probes as given data.

     bs = min(100, n);  state = (i, diag_sum, diag_sumsq)
     body:  z  = probe block i (n x bs);  z2 = roll(z, -k, 0);  z2[0:|k|] = 0 if k <= 0 else z2[-|k|:] = 0
            estimator = ((A @ z) * z2)[ |k|: if k < 0 else :n-|k| ]
            state = (i+1, diag_sum + estimator.sum(-1), diag_sumsq + (estimator**2).sum(-1))
     cond:  i == 0  or  (i < max_iters and err(state) > tol)
     result: diag_sum / (i * bs)

   The model is written over raw operations (so that the very same term runs on Z and on PrimFloat in the
   correspondence check) and the theorems are proved for every commutative ring. The stopping test `err(state) > tol`
   (sqrt, abs, max, mean: floating point) is a PARAMETER [cont] of the loop: the step bound and the stopping
   contract hold for every such test; the check instantiates it with the relative-stderr rule in PrimFloat. *)
From Coq Require Import List Arith Bool Lia ZArith Ring.
From Core Require Import Base.
Import ListNotations.

Section Model.
Variable T : Type.
Variable zero : T.
Variables add mul : T -> T -> T.

Definition vec := nat -> T.
Definition mat := nat -> nat -> T.
Fixpoint tsum (n : nat) (f : nat -> T) : T := match n with O => zero | S m => add (tsum m f) (f m) end.

Variable n : nat.        (* A is n x n *)
Variable bs : nat.       (* probes per block *)
Variable k : Z.          (* requested diagonal *)
Variable A : mat.

Definition ak : nat := Z.abs_nat k.
Definition len : nat := n - ak.                       (* length of the k-th diagonal *)
(* A @ z *)
Definition prod (z : mat) : mat := fun i b => tsum n (fun j => mul (A i j) (z j b)).
(* np.roll(z, -k, 0)[r] = z[(r + k) mod n] *)
Definition roll (z : mat) : mat := fun r b => z (Z.to_nat ((Z.of_nat r + k) mod Z.of_nat n)) b.
(* update_array(z2, 0, slice(0, |k|) if k <= 0 else slice(-|k|, None)) *)
Definition zero_rows (z : mat) : mat :=
  fun r b => if (k <=? 0)%Z then (if r <? ak then zero else z r b) else (if n - ak <=? r then zero else z r b).
(* slc = slice(|k|, None) if -k > 0 else slice(None, -|k| or None): result row i is array row i + off *)
Definition off : nat := if (k <? 0)%Z then ak else 0.
Definition estimator (z : mat) : mat :=
  fun i b => mul (prod z (i + off) b) (zero_rows (roll z) (i + off) b).

Record state := mkst { it : nat; dsum : vec; dsq : vec }.
Definition st0 : state := mkst 0 (fun _ => zero) (fun _ => zero).
Definition body (st : state) (z : mat) : state :=
  let e := estimator z in
  mkst (S (it st)) (fun i => add (dsum st i) (tsum bs (fun b => e i b)))
                   (fun i => add (dsq st i) (tsum bs (fun b => mul (e i b) (e i b)))).

Variable cont : state -> bool.     (* err(state) > tol *)
Variable max_iters : nat.
Definition cond (st : state) : bool := Nat.eqb (it st) 0 || (Nat.ltb (it st) max_iters && cont st).

Variable probe : nat -> mat.       (* probe block used by iteration t *)
Fixpoint loop (fuel : nat) (st : state) : state :=
  match fuel with
  | O => st
  | S f => if cond st then loop f (body st (probe (it st))) else st
  end.
Definition hutch : state := loop (S max_iters) st0.
(* fixed number of blocks (no data-dependent stopping) *)
Fixpoint run_blocks (m : nat) : state := match m with O => st0 | S j => body (run_blocks j) (probe j) end.

(* ---------- stopping contract (for every stopping test) ---------- *)
Lemma loop_it_ge fuel : forall st, it st <= it (loop fuel st).
Proof. induction fuel; intros st; cbn [loop]; auto. destruct (cond st); auto.
  specialize (IHfuel (body st (probe (it st)))). cbn [body it] in *. lia. Qed.

Lemma loop_it_le fuel : forall st, it st <= Nat.max max_iters 1 -> it (loop fuel st) <= Nat.max max_iters 1.
Proof. induction fuel; intros st H; cbn [loop]; auto. destruct (cond st) eqn:Hc; auto.
  apply IHfuel. cbn [body it]. unfold cond in Hc. apply orb_true_iff in Hc. destruct Hc as [Hc|Hc].
  - apply Nat.eqb_eq in Hc. lia.
  - apply andb_true_iff in Hc. destruct Hc as [Hc _]. apply Nat.ltb_lt in Hc. lia. Qed.

Lemma loop_done fuel : forall st, it st + fuel > max_iters -> 0 < it st + fuel -> cond (loop fuel st) = false.
Proof. induction fuel; intros st H H0; cbn [loop].
  - unfold cond. replace (it st =? 0) with false by (symmetry; apply Nat.eqb_neq; lia).
    replace (it st <? max_iters) with false by (symmetry; apply Nat.ltb_ge; lia). reflexivity.
  - destruct (cond st) eqn:Hc; auto. apply IHfuel; cbn [body it]; lia. Qed.

Lemma loop_is_run_blocks fuel : forall j, loop fuel (run_blocks j) = run_blocks (it (loop fuel (run_blocks j))).
Proof. induction fuel; intros j; cbn [loop].
  - assert (H : it (run_blocks j) = j) by (induction j; cbn; auto). rewrite H. reflexivity.
  - assert (H : it (run_blocks j) = j) by (induction j; cbn; auto).
    destruct (cond (run_blocks j)); [|rewrite H; reflexivity].
    rewrite H. change (body (run_blocks j) (probe j)) with (run_blocks (S j)). apply IHfuel. Qed.

(* number of blocks drawn: at least one, never more than max(max_iters, 1) *)
Theorem hutch_steps : 1 <= it hutch /\ it hutch <= Nat.max max_iters 1.
Proof. split.
  - unfold hutch. cbn [loop]. unfold cond at 1. cbn [st0 it Nat.eqb orb].
    pose proof (loop_it_ge max_iters (body st0 (probe 0))). cbn [body it st0] in *. lia.
  - apply loop_it_le. cbn. lia. Qed.

(* the loop ended because its own condition became false - the fuel of the model is never what stops it *)
Theorem hutch_fuel_enough : cond hutch = false.
Proof. apply loop_done; cbn; lia. Qed.

(* if it stopped before the cap, the stopping test said so *)
Theorem hutch_stopped_by_tol : it hutch < max_iters -> cont hutch = false.
Proof. intros H. pose proof hutch_fuel_enough as Hc. pose proof hutch_steps as [H1 _]. unfold cond in Hc.
  apply orb_false_iff in Hc. destruct Hc as [_ Hc]. apply andb_false_iff in Hc. destruct Hc as [Hc|Hc]; auto.
  apply Nat.ltb_ge in Hc. lia. Qed.

(* the result is the state after exactly [it hutch] probe blocks *)
Theorem hutch_is_run_blocks : hutch = run_blocks (it hutch).
Proof. unfold hutch. exact (loop_is_run_blocks (S max_iters) 0). Qed.
End Model.

Arguments mkst {T}. Arguments it {T}. Arguments dsum {T}. Arguments dsq {T}.

(* =================== values: exactness and unbiasedness over any commutative ring =================== *)
Section Values.
Context {R : Type} {RR : Ring R}.
Add Ring Rr : Rth.
Open Scope R_scope.

Lemma tsum_sum m f : tsum R r0 radd m f = sum m f.
Proof. induction m; cbn; congruence. Qed.

Definition nmul (m : nat) (x : R) : R := sum m (fun _ => x).
Lemma nmul_S m x : nmul (S m) x = nmul m x + x. Proof. reflexivity. Qed.
Lemma nmul_add a b x : nmul (a + b)%nat x = nmul a x + nmul b x.
Proof. unfold nmul. rewrite sum_app. reflexivity. Qed.
Lemma sum_const m x : sum m (fun _ => x) = nmul m x. Proof. reflexivity. Qed.

Variable n bs : nat.
Variable k : Z.
Variable A : nat -> nat -> R.
Local Notation ak := (Z.abs_nat k).
Local Notation off := (C17_Hutch.off k).

(* the entry of A the i-th component of the result is about: A[i, i+k] (k >= 0), A[i+|k|, i] (k < 0) = numpy.diag(A, k)[i] *)
Definition target (i : nat) : R := A (i + off)%nat (Z.to_nat (Z.of_nat (i + off)%nat + k)%Z).

Lemma off_cases : ((k < 0)%Z /\ off = ak) \/ ((0 <= k)%Z /\ off = 0%nat).
Proof. unfold C17_Hutch.off, C17_Hutch.ak. destruct (Z.ltb_spec k 0); [left|right]; auto. Qed.

(* inside the slice the rolled probe is the plain shifted probe (no wrap, not zeroed) *)
Lemma shifted_row (z : nat -> nat -> R) i b : (i < n - ak)%nat ->
  zero_rows R r0 n k (roll R n k z) (i + off)%nat b = z (Z.to_nat (Z.of_nat (i + off)%nat + k)%Z) b.
Proof. intros Hi. unfold zero_rows, roll, C17_Hutch.ak.
  destruct off_cases as [[Hk Ho]|[Hk Ho]]; rewrite Ho.
  - replace (k <=? 0)%Z with true by (symmetry; apply Z.leb_le; lia).
    replace (i + Z.abs_nat k <? Z.abs_nat k)%nat with false by (symmetry; apply Nat.ltb_ge; lia).
    rewrite Z.mod_small by lia. reflexivity.
  - destruct (Z.leb_spec k 0).
    + assert (Hk0 : k = 0%Z) by lia. rewrite Hk0 in *. cbn [Z.abs_nat] in *.
      replace (i + 0 <? 0)%nat with false by (symmetry; apply Nat.ltb_ge; lia).
      rewrite Z.mod_small by lia. reflexivity.
    + replace (n - Z.abs_nat k <=? i + 0)%nat with false by (symmetry; apply Nat.leb_gt; lia).
      rewrite Z.mod_small by lia. reflexivity. Qed.

Definition est (z : nat -> nat -> R) := estimator R r0 radd rmul n k A z.
Lemma est_eq z i b : (i < n - ak)%nat ->
  est z i b = sum n (fun j => A (i + off)%nat j * z j b) * z (Z.to_nat (Z.of_nat (i + off)%nat + k)%Z) b.
Proof. intros Hi. unfold est, estimator. rewrite shifted_row by exact Hi. unfold prod. rewrite tsum_sum. reflexivity. Qed.

Lemma target_col_lt i : (i < n - ak)%nat -> (Z.to_nat (Z.of_nat (i + off)%nat + k)%Z < n)%nat.
Proof. intros Hi. destruct off_cases as [[Hk Ho]|[Hk Ho]]; rewrite Ho; lia. Qed.

(* ---- sums after a fixed number of blocks ---- *)
Variable probe : nat -> nat -> nat -> R.
Definition blocks := run_blocks R r0 radd rmul n bs k A probe.
Lemma blocks_it m : it (blocks m) = m. Proof. induction m; cbn; auto. Qed.
Lemma blocks_dsum m i : dsum (blocks m) i = sum m (fun t => sum bs (fun b => est (probe t) i b)).
Proof. induction m; cbn [blocks run_blocks body dsum st0 sum]; [reflexivity|].
  fold (blocks m). rewrite IHm, tsum_sum. reflexivity. Qed.

(* ---- exactness: diagonal operator, probes with entries of square one (Rademacher), main diagonal ---- *)
Hypothesis Hdiag : forall i j, (i < n)%nat -> (j < n)%nat -> i <> j -> A i j = r0.
Hypothesis Hpm1 : forall t j b, (j < n)%nat -> (b < bs)%nat -> probe t j b * probe t j b = r1.

Lemma est_exact t i b : k = 0%Z -> (i < n)%nat -> (b < bs)%nat -> est (probe t) i b = A i i.
Proof. intros Hk Hi Hb. assert (Ha : ak = 0%nat) by (rewrite Hk; reflexivity).
  rewrite est_eq by lia. destruct off_cases as [[Hk' _]|[_ Ho]]; [lia|]. rewrite Ho, Hk.
  replace (Z.to_nat (Z.of_nat (i + 0)%nat + 0)%Z) with i by lia. replace (i + 0)%nat with i by lia.
  rewrite (sum_ext n _ (fun j => delta i j * (A i i * probe t i b))).
  - rewrite (sum_delta_l n i (fun _ => A i i * probe t i b)) by exact Hi.
    transitivity (A i i * (probe t i b * probe t i b)); [ring|]. rewrite Hpm1 by assumption. ring.
  - intros j Hj. unfold delta. destruct (Nat.eqb_spec i j) as [->|Hne]; [ring|]. rewrite Hdiag by assumption. ring. Qed.

Theorem hutch_exact_sums : k = 0%Z -> forall m i, (i < n)%nat -> dsum (blocks m) i = nmul (m * bs)%nat (A i i).
Proof. intros Hk m i Hi. rewrite blocks_dsum.
  rewrite (sum_ext m _ (fun _ => nmul bs (A i i))).
  - induction m; cbn [sum]; [reflexivity|]. rewrite IHm. change (S m * bs)%nat with (bs + m * bs)%nat. rewrite nmul_add. ring.
  - intros t _. unfold nmul. apply sum_ext. intros b Hb. apply est_exact; assumption. Qed.
End Values.

(* ---- unbiasedness in linear-functional form, for a fixed number of blocks ----
   E is any linear functional on functions of the probe sequence whose second moments are c * delta (c = 1 for a
   normalised expectation; c = 2^N for the plain sum over all sign patterns, see rademacher_moment below). *)
Section Unbiased.
Context {R : Type} {RR : Ring R}.
Add Ring Rr2 : Rth.
Open Scope R_scope.
Variable n bs : nat.
Variable k : Z.
Variable A : nat -> nat -> R.
Definition P := nat -> nat -> nat -> R.
Variable E : (P -> R) -> R.
Variable c : R.
Hypothesis E_ext : forall f g, (forall p, f p = g p) -> E f = E g.
Hypothesis E_add : forall f g, E (fun p => f p + g p) = E f + E g.
Hypothesis E_scale : forall a f, E (fun p => a * f p) = a * E f.
Hypothesis E_moment : forall t b j l, (j < n)%nat -> (l < n)%nat -> (b < bs)%nat -> E (fun p => p t j b * p t l b) = c * delta j l.

Lemma E_zero : E (fun _ => r0) = r0.
Proof. rewrite (E_ext _ (fun p => r0 * r0)) by (intros; ring). rewrite (E_scale r0 (fun _ => r0)). ring. Qed.
Lemma E_sum m (f : nat -> P -> R) : E (fun p => sum m (fun t => f t p)) = sum m (fun t => E (f t)).
Proof. induction m; cbn [sum]; [apply E_zero|]. rewrite E_add, IHm. reflexivity. Qed.

Theorem hutch_unbiased : forall m i, (i < n - Z.abs_nat k)%nat ->
  E (fun p => dsum (blocks n bs k A p m) i) = nmul (m * bs)%nat (c * target k A i).
Proof. intros m i Hi.
  rewrite (E_ext _ (fun p => sum m (fun t => sum bs (fun b => est n k A (p t) i b)))) by (intros; apply blocks_dsum).
  rewrite E_sum.
  rewrite (sum_ext m _ (fun _ => nmul bs (c * target k A i))).
  - clear. induction m; cbn [sum]; [reflexivity|]. rewrite IHm. change (S m * bs)%nat with (bs + m * bs)%nat. rewrite nmul_add. ring.
  - intros t _. rewrite E_sum. unfold nmul. apply sum_ext. intros b Hb.
    set (col := Z.to_nat (Z.of_nat (i + off k)%nat + k)%Z).
    rewrite (E_ext _ (fun p => sum n (fun j => A (i + off k)%nat j * (p t j b * p t col b)))).
    + rewrite E_sum.
      rewrite (sum_ext n _ (fun j => (c * A (i + off k)%nat j) * delta j col)).
      * rewrite (sum_delta_r n col (fun j => c * A (i + off k)%nat j)) by (apply target_col_lt; exact Hi). reflexivity.
      * intros j Hj. rewrite E_scale, E_moment; [ring|exact Hj|apply target_col_lt; exact Hi|exact Hb].
    + intros p. rewrite est_eq by exact Hi. fold col. rewrite <- sum_mul_r. apply sum_ext. intros; ring. Qed.
End Unbiased.
