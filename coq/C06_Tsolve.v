(* C06 - the triangular solve by substitution ([tsolve], the executable reference used for TriangularInv in the
   correspondence check) satisfies the oracle specification [tinv_ok]: for a triangular matrix with non-zero diagonal it
   computes a two-sided inverse.  So the global hypothesis of inv_den is satisfiable, over every field. *)
From Coq Require Import Arith Lia List Ring Field ArithRing PeanoNat Bool.
From Core Require Import Base Kron Op FieldBase C06_Inv C06_Proofs.
Import ListNotations.
Section TS.
Context {R : Type} {RR : Ring R} {FR : Field R}.
Add Ring Rring : Rth.
Open Scope R_scope.
Notation fm := (fm (R:=R)).

Lemma div_mul (a b : R) : b <> r0 -> b * (a / b) = a.
Proof. intros Hb. rewrite (Fdiv_def Fth). transitivity (a * (rinv b * b)); [ring|]. rewrite (Finv_l Fth b Hb). ring. Qed.
Lemma mul_zero_r (a b : R) : a <> r0 -> a * b = r0 -> b = r0.
Proof. intros Ha E. transitivity ((rinv a * a) * b); [rewrite (Finv_l Fth a Ha); ring|]. transitivity (rinv a * (a * b)); [ring|]. rewrite E. ring. Qed.

(* sums *)
Lemma sum_cut n i (f : nat -> R) : (i < n)%nat -> (forall j, (i < j < n)%nat -> f j = r0) -> sum n f = sum (S i) f.
Proof. intros Hi Hz. induction n as [|n IH]; [lia|]. destruct (Nat.eq_dec i n) as [->|Hne]; [reflexivity|].
  cbn [sum]. rewrite Hz by lia. rewrite IH by (try lia; intros; apply Hz; lia). cbn [sum]. ring. Qed.
Lemma sum_shift n (f : nat -> R) : sum (S n) f = f 0%nat + sum n (fun k => f (S k)).
Proof. induction n as [|n IH]; [cbn [sum]; ring|]. cbn [sum] in *. rewrite IH. ring. Qed.
Lemma sum_rev n (f : nat -> R) : sum n (fun l => f (n - 1 - l)%nat) = sum n f.
Proof. revert f. induction n as [|n IH]; intros f; [reflexivity|].
  rewrite (sum_shift n f). cbn [sum]. replace (S n - 1 - n)%nat with 0%nat by lia.
  rewrite <- (IH (fun k => f (S k))). rewrite (sum_ext n _ (fun l => f (S (n - 1 - l)))); [ring|].
  intros l Hl. f_equal. lia. Qed.

(* rows computed by forward substitution *)
Lemma fsub_len T n k : length (fsub_rows T n k) = k.
Proof. induction k; cbn [fsub_rows]; [reflexivity|]. rewrite app_length, IHk. cbn. lia. Qed.
Lemma fsub_stable T n k i c : (i < k)%nat -> getl (fsub_rows T n (S k)) i c = getl (fsub_rows T n k) i c.
Proof. intros H. unfold getl. cbn [fsub_rows]. rewrite app_nth1 by (rewrite fsub_len; lia). reflexivity. Qed.
Lemma fsub_stable' T n k m i c : (i < k)%nat -> (k <= m)%nat -> getl (fsub_rows T n m) i c = getl (fsub_rows T n k) i c.
Proof. intros H Hm. induction m as [|m IH]; [lia|]. destruct (Nat.eq_dec k (S m)) as [->|]; [reflexivity|]. rewrite fsub_stable by lia. apply IH. lia. Qed.
Lemma fsub_row T n k c : (c < n)%nat ->
  getl (fsub_rows T n (S k)) k c = (delta k c - sum k (fun j => T k j * getl (fsub_rows T n k) j c)) / T k k.
Proof. intros Hc. unfold getl at 1. cbn [fsub_rows]. rewrite app_nth2 by (rewrite fsub_len; lia). rewrite fsub_len, Nat.sub_diag. cbn [nth].
  rewrite (nth_indep _ r0 ((fun c0 => (delta k c0 - sum k (fun j => T k j * getl (fsub_rows T n k) j c0)) / T k k) 0%nat)) by (rewrite map_length, seq_length; lia).
  rewrite (map_nth (fun c0 => (delta k c0 - sum k (fun j => T k j * getl (fsub_rows T n k) j c0)) / T k k) (seq 0 n) 0%nat c), seq_nth by lia. reflexivity. Qed.
Definition lsol (n : nat) (T : fm) : fm := fun i c => getl (fsub_rows T n n) i c.
Lemma lsol_rec n T i c : (i < n)%nat -> (c < n)%nat -> lsol n T i c = (delta i c - sum i (fun j => T i j * lsol n T j c)) / T i i.
Proof. intros Hi Hc. unfold lsol. rewrite (fsub_stable' T n (S i) n i c) by lia. rewrite fsub_row by auto. f_equal. f_equal.
  apply sum_ext. intros j Hj. rewrite (fsub_stable' T n i n j c) by lia. reflexivity. Qed.

(* right inverse *)
Lemma lsol_right n T : lower n T -> nzdiag n T -> feq n n (mmul n T (lsol n T)) eye.
Proof. intros LT NZ i c Hi Hc. unfold mmul. rewrite (sum_cut n i) by (auto; intros j Hj; rewrite LT by lia; ring).
  cbn [sum]. rewrite (lsol_rec n T i c Hi Hc). rewrite div_mul by auto. unfold eye. ring. Qed.
(* a lower triangular matrix with non-zero diagonal is injective *)
Lemma lower_inj n T W : lower n T -> nzdiag n T -> (forall i c, (i < n)%nat -> (c < n)%nat -> mmul n T W i c = r0) ->
  forall i c, (i < n)%nat -> (c < n)%nat -> W i c = r0.
Proof. intros LT NZ H i. induction i as [i IH] using lt_wf_ind. intros c Hi Hc.
  specialize (H i c Hi Hc). unfold mmul in H. rewrite (sum_cut n i) in H by (auto; intros j Hj; rewrite LT by lia; ring).
  cbn [sum] in H. rewrite (sum_ext i _ (fun _ => r0)) in H by (intros j Hj; rewrite IH by lia; ring). rewrite sum_zero in H.
  apply (mul_zero_r (T i i)); auto. rewrite <- H. ring. Qed.
Lemma mmul_sub_r n (A B C : fm) i j : mmul n A (fun a b => B a b - C a b) i j = mmul n A B i j - mmul n A C i j.
Proof. unfold mmul. transitivity (sum n (fun l => A i l * B l j + (- r1) * (A i l * C l j))); [apply sum_ext; intros; ring|]. rewrite sum_add, sum_mul_l. ring. Qed.
Lemma lsol_inv2 n T : lower n T -> nzdiag n T -> inv2 n (lsol n T) T.
Proof. intros LT NZ. pose proof (lsol_right n T LT NZ) as RI. split; [|exact RI].
  set (X := lsol n T) in *. set (W := fun a b => mmul n X T a b - eye a b).
  assert (HW : forall i c, (i < n)%nat -> (c < n)%nat -> W i c = r0).
  { apply (lower_inj n T W LT NZ). intros i c Hi Hc. unfold W. rewrite mmul_sub_r.
    rewrite <- mmul_assoc. rewrite mmul_eye_r by auto.
    transitivity (mmul n eye T i c - T i c); [|rewrite mmul_eye_l by auto; ring]. f_equal.
    apply (mmul_ext n n n); auto using feq_refl. }
  intros i c Hi Hc. specialize (HW i c Hi Hc). unfold W in HW. transitivity ((mmul n X T i c - eye i c) + eye i c); [ring|]. rewrite HW. ring. Qed.

(* upper triangular: flip both indices *)
Definition flip (n : nat) (A : fm) : fm := fun i j => A (n - 1 - i)%nat (n - 1 - j)%nat.
Lemma flip_inv2 n B A : inv2 n B A -> inv2 n (flip n B) (flip n A).
Proof. assert (G : forall B A, feq n n (mmul n B A) eye -> feq n n (mmul n (flip n B) (flip n A)) eye).
  { clear. intros B A H i j Hi Hj. unfold mmul, flip. rewrite (sum_rev n (fun l => B (n - 1 - i)%nat l * A l (n - 1 - j)%nat)).
    change (mmul n B A (n - 1 - i)%nat (n - 1 - j)%nat = eye i j). rewrite H by lia. unfold eye, delta.
    destruct (Nat.eqb_spec (n - 1 - i) (n - 1 - j)), (Nat.eqb_spec i j); try reflexivity; lia. }
  intros [H1 H2]. split; apply G; auto. Qed.
Lemma flip_lower n T : upper n T -> lower n (flip n T).
Proof. intros H i j Hi Hj Hl. unfold flip. apply H; lia. Qed.
Lemma flip_nz n T : nzdiag n T -> nzdiag n (flip n T).
Proof. intros H i Hi. unfold flip. apply H. lia. Qed.
Lemma flip_flip n A : feq n n (flip n (flip n A)) A.
Proof. intros i j Hi Hj. unfold flip. f_equal; lia. Qed.

Theorem tsolve_ok : tinv_ok (tsolve (R:=R)).
Proof. intros n T lo HT NZ. destruct lo; cbn [tri] in HT.
  - change (tsolve n T true) with (lsol n T). apply lsol_inv2; auto.
  - change (tsolve n T false) with (flip n (lsol n (flip n T))).
    eapply inv2_ext; [apply feq_refl|apply flip_flip|]. apply flip_inv2. apply lsol_inv2; [apply flip_lower|apply flip_nz]; auto. Qed.
End TS.
