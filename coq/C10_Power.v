(* C10: power iteration (cola/linalg/eig/power_iteration.py:37-81).  The model is generic in a record of scalar
   operations (executed on binary64 in the correspondence check); the theorems take a Field and treat the square
   root / absolute value / comparison as oracles.  Loop = recursion on the fuel max_iter the code enforces. *)
From Coq Require Import Arith Lia List Ring Field PeanoNat Bool.
From Core Require Import Base FieldBase.
Import ListNotations.

Record pops (T : Type) := mkpops {
  pz : T; padd : T -> T -> T; psub : T -> T -> T; pmul : T -> T -> T; pdiv : T -> T -> T;
  pabs : T -> T; psqrt : T -> T; pgtb : T -> T -> bool (* a > b *); pconj : T -> T }.
(* the two recorded defects of the pinned loop, as flags: [f_absden] = the relative change is divided by |eig| (repaired)
   instead of eig; [f_conjrq] = the Rayleigh quotient conjugates its left argument (repaired) *)
Record pflags := mkpflags { f_absden : bool; f_conjrq : bool }.
Definition pinned_flags := mkpflags false false.
Definition fixed_flags := mkpflags true true.
Arguments pconj {T}.
Arguments pz {T}. Arguments padd {T}. Arguments psub {T}. Arguments pmul {T}. Arguments pdiv {T}.
Arguments pabs {T}. Arguments psqrt {T}. Arguments pgtb {T}.

Section Power.
Context {T : Type} (o : pops T) (fl : pflags).
Definition pdot (u v : list T) : T := fold_left (fun acc p => padd o acc (pmul o (fst p) (snd p))) (combine u v) (pz o).
Definition pmv (A : list (list T)) (x : list T) : list T := map (fun r => pdot r x) A.
Definition pdotc (u v : list T) : T := fold_left (fun acc p => padd o acc (pmul o (pconj o (fst p)) (snd p))) (combine u v) (pz o).
Definition pnorm (v : list T) : T := psqrt o (pdotc v v).   (* xnp.norm(p) = sqrt(sum |p_i|^2) *)
Definition prq (u v : list T) : T := if f_conjrq fl then pdotc u v else pdot u v.   (* eig = v @ p  |  conj(v) @ p *)
Record pstate := mkps { pit : nat; pv : list T; pvprev : list T; peig : T; peigprev : T }.
(* body: p = A @ v; eig, eigprev = v @ p, eig; return i+1, p / norm(p), v, eig, eigprev *)
Definition pbody (A : list (list T)) (s : pstate) : pstate :=
  let p := pmv A (pv s) in
  let nrm := pnorm p in
  mkps (S (pit s)) (map (fun x => pdiv o x nrm) p) (pv s) (prq (pv s) p) (peig s).
(* err = abs(eigprev - eig) / eig   |   abs(eigprev - eig) / abs(eig) *)
Definition perr (s : pstate) : T :=
  pdiv o (pabs o (psub o (peigprev s) (peig s))) (if f_absden fl then pabs o (peig s) else peig s).
(* cond: (i < max_iter) & (err > tol); the fuel is max_iter - i *)
Fixpoint ploop (A : list (list T)) (tol : T) (fuel : nat) (s : pstate) : pstate :=
  match fuel with
  | O => s
  | S f => if pgtb o (perr s) tol then ploop A tol f (pbody A s) else s
  end.
(* initial state (0, v, v, 10., 1.) *)
Definition power_iteration (A : list (list T)) (tol : T) (max_iter : nat) (ten one : T) (v0 : list T) : pstate :=
  ploop A tol max_iter (mkps 0 v0 v0 ten one).

(* ---- stopping contract (pure control flow: holds for every interpretation of the operations) ---- *)
Lemma ploop_contract A tol fuel s : let s' := ploop A tol fuel s in
  (pit s <= pit s')%nat /\ (pit s' <= pit s + fuel)%nat /\ (pit s' = (pit s + fuel)%nat \/ pgtb o (perr s') tol = false).
Proof. revert s. induction fuel as [|f IH]; intros s; cbn [ploop].
  - cbn zeta. repeat split; try lia; left; lia.
  - cbn zeta. destruct (pgtb o (perr s) tol) eqn:E.
    + specialize (IH (pbody A s)). cbn zeta in IH. cbn [pbody pit] in IH. destruct IH as (H1 & H2 & H3). repeat split; try lia.
      destruct H3 as [H3|H3]; [left; lia|right; exact H3].
    + repeat split; try lia. right. exact E. Qed.
Theorem power_stopping A tol max_iter ten one v0 : let s := power_iteration A tol max_iter ten one v0 in
  (pit s <= max_iter)%nat /\ (pit s = max_iter \/ pgtb o (perr s) tol = false).
Proof. cbn zeta. unfold power_iteration. pose proof (ploop_contract A tol max_iter (mkps 0 v0 v0 ten one)) as H. cbn zeta in H. cbn [pit] in H.
  destruct H as (_ & H2 & H3). split; [lia|]. destruct H3; [left; lia|right; assumption]. Qed.
End Power.

(* ---- a fixed point of the normalised step is an eigenpair whose value is the Rayleigh quotient ---- *)
Section Fixed.
Context {R : Type} {RR : Ring R} {FF : Field R}.
Add Ring Rr : Rth.
Add Field Rf : Fth.
Open Scope R_scope.
Variables (fabs fsqrt : R -> R) (fgtb : R -> R -> bool) (fconj : R -> R).   (* oracles: no property of them is needed *)
Variable fl : pflags.
Definition fo : pops R := mkpops R r0 radd rsub rmul rdiv fabs fsqrt fgtb fconj.
Lemma pdot_scale_gen (h : R -> R) c (u v : list R) a :
  fold_left (fun acc p => acc + h (fst p) * snd p) (combine u (map (fun x => c * x) v)) (c * a)
  = c * fold_left (fun acc p => acc + h (fst p) * snd p) (combine u v) a.
Proof. revert v a. induction u as [|x u IH]; intros [|y v] a; cbn [combine map fold_left]; try reflexivity.
  cbn [fst snd]. rewrite <- IH. f_equal. ring. Qed.
Lemma prq_scale c (u v : list R) : prq fo fl u (map (fun x => c * x) v) = c * prq fo fl u v.
Proof. unfold prq, pdot, pdotc. cbn [fo pz padd pmul pconj]. destruct (f_conjrq fl).
  - rewrite <- (pdot_scale_gen fconj). f_equal. ring.
  - rewrite <- (pdot_scale_gen (fun x => x)). f_equal. ring. Qed.
Theorem power_fixed_point (A : list (list R)) (v vp : list R) (i : nat) (e ep : R) :
  let s := mkps i v vp e ep in let c := pnorm fo (pmv fo A v) in
  c <> r0 -> pv (pbody fo fl A s) = v ->
  pmv fo A v = map (fun x => c * x) v /\ peig (pbody fo fl A s) = c * prq fo fl v v.
Proof. cbn zeta. cbn [pbody pv peig]. set (p := pmv fo A v). set (c := pnorm fo p). intros Hc Hv.
  assert (Hp : p = map (fun x => c * x) v).
  { rewrite <- Hv at 1. rewrite map_map. rewrite <- (map_id p) at 1. apply map_ext. intros x. cbn [fo pdiv]. field. exact Hc. }
  split; [exact Hp|]. rewrite Hp at 1. apply prq_scale. Qed.
(* ... so for a unit vector (Rayleigh quotient of v with itself = 1) the returned value is the eigenvalue: A v = eig v *)
Corollary power_fixed_point_unit (A : list (list R)) (v vp : list R) (i : nat) (e ep : R) :
  let s := mkps i v vp e ep in
  pnorm fo (pmv fo A v) <> r0 -> pv (pbody fo fl A s) = v -> prq fo fl v v = r1 ->
  pmv fo A v = map (fun x => peig (pbody fo fl A s) * x) v.
Proof. cbn zeta. intros Hc Hv H1. destruct (power_fixed_point A v vp i e ep Hc Hv) as [Hp He].
  rewrite He, H1. rewrite Hp at 1. apply map_ext. intros x. ring. Qed.
End Fixed.
