(* C07 - bridge: mathcomp's \det satisfies the determinant interface [DetLaws] of C07_DetLaws.v
   over EVERY commutative ring.
   [mcRing R]  : the Base.Ring instance carried by a mathcomp comRingType.
   [mxdet R n A] : \det of the n x n mathcomp matrix tabulating the function A : nat -> nat -> R.
   [mx_DetLaws] : all seven laws (ext, mul, eye, 2-block diagonal, lower/upper triangular, row swap). *)
From Coq Require Import PeanoNat Ring_theory.
From mathcomp Require Import all_ssreflect fingroup perm all_algebra.
From Core Require Import Base C07_DetLaws.
Set Implicit Arguments. Unset Strict Implicit. Unset Printing Implicit Defensive.
Import GRing.Theory.
Local Open Scope ring_scope.

Definition mcRing (R : comRingType) : Ring R.
Proof.
  refine (@Build_Ring R 0 1 +%R *%R (fun x y => x - y) -%R _).
  constructor.
  - exact: add0r.
  - exact: addrC.
  - exact: addrA.
  - exact: mul1r.
  - exact: mulrC.
  - exact: mulrA.
  - exact: mulrDl.
  - by [].
  - exact: subrr.
Defined.

Definition mxdet (R : comRingType) (n : nat) (A : nat -> nat -> R) : R :=
  \det (\matrix_(i < n, j < n) A i j).
Arguments mxdet R n A : clear implicits.

Section Bridge.
Variable R : comRingType.
Local Notation RR := (mcRing R).
Local Notation mat := (nat -> nat -> R).
Definition mx (m n : nat) (A : mat) : 'M[R]_(m, n) := \matrix_(i, j) A i j.

Lemma mxdetE n A : mxdet R n A = \det (mx n n A).
Proof. by []. Qed.

Lemma sumE n (f : nat -> R) : @sum R RR n f = \sum_(i < n) f i.
Proof. elim: n => [|n IH] /=; first by rewrite big_ord0. by rewrite big_ord_recr /= IH. Qed.

Lemma prodnE n (f : nat -> R) : @prodn R RR n f = \prod_(i < n) f i.
Proof. elim: n => [|n IH] /=; first by rewrite big_ord0. by rewrite big_ord_recr /= IH. Qed.

Lemma deltaE (a b : nat) : @delta R RR a b = (a == b)%:R.
Proof. by rewrite /delta; case: (Nat.eqb_spec a b) => [->|/eqP/negbTE->] //=; rewrite eqxx. Qed.

Lemma mx_ext m n A B : @feq R m n A B -> mx m n A = mx m n B.
Proof. move=> H; apply/matrixP => i j; rewrite !mxE; apply: H; apply/ltP; exact: ltn_ord. Qed.

Lemma mx_mmul m k n A B : mx m n (@mmul R RR k A B) = mx m k A *m mx k n B.
Proof. apply/matrixP => i j; rewrite !mxE /mmul sumE. by apply: eq_bigr => l _; rewrite !mxE. Qed.

Lemma mx_eye n : mx n n (@eye R RR) = 1%:M.
Proof. by apply/matrixP => i j; rewrite !mxE /eye deltaE. Qed.

Lemma ltbE (a b : nat) : Nat.ltb a b = (a < b)%N.
Proof. by case: (Nat.ltb_spec a b) => [/ltP->|/leP]; rewrite // ltnNge => ->. Qed.

Lemma mx_bdiag m1 m2 A B :
  mx (m1 + m2) (m1 + m2) (@bdiag2 R RR m1 A B) = block_mx (mx m1 m1 A) 0 0 (mx m2 m2 B).
Proof.
  apply/matrixP => i j; rewrite [LHS]mxE /bdiag2 !ltbE [RHS]mxE.
  case: (splitP i) => i' Hi; rewrite [RHS]mxE; case: (splitP j) => j' Hj;
    rewrite ?mxE ?Hi ?Hj ?ltn_ord ?ltnNge ?leq_addr /= ?minusE ?addKn //.
Qed.

Lemma mx_tr n A : (mx n n A)^T = mx n n (fun i j => A j i).
Proof. by apply/matrixP => i j; rewrite !mxE. Qed.

Lemma mx_lower n A : @lower_tri R RR n A -> is_trig_mx (mx n n A).
Proof.
  move=> H; apply/is_trig_mxP => i j Hij; rewrite mxE.
  by apply: H; apply/ltP.
Qed.

Lemma tswapE n (a b : 'I_n) (i : 'I_n) : tswap a b i = tperm a b i :> nat.
Proof.
  rewrite /tswap; case: tpermP => [->|->|].
  - by rewrite Nat.eqb_refl.
  - case: (Nat.eqb_spec b a) => [E|_]; first by rewrite E.
    by rewrite Nat.eqb_refl.
  - move=> Ha Hb.
    case: (Nat.eqb_spec i a) => [E|_]; first by case: Ha; apply: val_inj.
    by case: (Nat.eqb_spec i b) => [E|_] //; case: Hb; apply: val_inj.
Qed.

Lemma mx_swap n A (a b : 'I_n) :
  mx n n (fun i j => A (tswap a b i) j) = row_perm (tperm a b) (mx n n A).
Proof. by apply/matrixP => i j; rewrite !mxE tswapE. Qed.

Theorem mx_DetLaws : @DetLaws R RR (mxdet R).
Proof.
  split.
  - by move=> n A B H; rewrite !mxdetE (mx_ext H).
  - by move=> n A B; rewrite !mxdetE mx_mmul det_mulmx.
  - by move=> n; rewrite mxdetE mx_eye det1.
  - by move=> m1 m2 A B; rewrite !mxdetE mx_bdiag det_ublock.
  - move=> n A H; rewrite mxdetE (det_trig (mx_lower H)) prodnE.
    by apply: eq_bigr => i _; rewrite mxE.
  - move=> n A H; rewrite mxdetE -det_tr mx_tr prodnE.
    have L : @lower_tri R RR n (fun i j => A j i) by move=> i j Hi Hj Hij; apply: H.
    rewrite (det_trig (mx_lower L)).
    by apply: eq_bigr => i _; rewrite mxE.
  - move=> n A a b /ltP Ha /ltP Hb Hab; rewrite !mxdetE.
    rewrite (mx_swap A (Ordinal Ha) (Ordinal Hb)) row_permE det_mulmx det_perm odd_tperm.
    have -> : (Ordinal Ha != Ordinal Hb) by apply/eqP => -[].
    by rewrite /= expr1 mulN1r.
Qed.
End Bridge.

Print Assumptions mx_DetLaws.
