(* Property C09: exp / log / sqrt / isqrt / pow / apply_unary return an operator that acts as f of the matrix.
   Only statements closed by [exact]. Spec: C09_IsFun.v (IsFunOn); model: C09_Model.v; lemmas: C09_Struct.v, C09_Sound.v,
   C09_Krylov.v, C09_Check.v.  Scalars: any commutative ring with involution (field for the inverse): in particular C.
   The scalar function f is arbitrary (a user callable / numpy ufunc is an oracle); exp and x**alpha enter only through
   the functional equations a rule needs (AddOK for exp(KronSum), MulOK for pow(Kronecker), ConjOK for Adjoint), stated
   on a class P of admissible eigenvalues - for the principal branch these hold on the positive reals, not on all of C.

   Full statement (reference): for every operator tree whose matrix is diagonalisable with spectrum in the function's
   domain, every rule and algorithm returns M with IsFun f A M; integer powers are repeated products; pow -1 is the
   inverse; sqrt twice is A.
   Proved below: all of it for the structural and dense rules (dense rules relative to the eigen-oracle's
   specification) and for the Krylov rules given a COMPLETE factorisation; what is not proved: that LAPACK / Lanczos /
   Arnoldi meet those specifications (C14, C15, oracle checks), uniqueness of f(A) across different eigenbases, rounding. *)
From Coq Require Import ZArith QArith Qcanon List Arith Bool.
From Core Require Import Base Kron Op OpProofs FieldBase Algebra C09_MatAlg C09_IsFun C09_Struct C09_Model C09_Sound C09_Krylov C10_Check C09_Check.
Import ListNotations.

Definition C09_full : Prop :=
  forall (R : Type) (RR : Ring R) (CR : CRing R) (P : R -> Prop) (f : R -> R) (m : mode) (u : uop (R:=R)),
    Covered P f m u -> Good P f m u.

(* unary_rule_sound: every rule of apply_unary / exp / pow (non-integer) preserves "is f of the matrix" - Diagonal (entry-wise),
   BlockDiag (block-wise, multiplicities kept), Identity, ScalarMul, Transpose, Adjoint, exp(KronSum) = Kronecker of exps,
   pow(Kronecker) factor-wise, and the dense rules V f(D) V^H / V f(D) V^-1 at the leaves given the eigen-oracle's answer.
   The result is a well-formed square operator tree of the same size.  (This IS C09_full.) *)
Theorem C09_unary_rule_sound : forall (R : Type) (RR : Ring R) (CR : CRing R) (P : R -> Prop) (f : R -> R) (u : uop (R:=R)) (m : mode),
  Covered P f m u -> Good P f m u.
Proof. intros R RR CR. exact (unary_rule_sound (R:=R)). Qed.
Print Assumptions C09_unary_rule_sound.

(* the dense paths on their own *)
Theorem C09_dense_eigh : forall (R : Type) (RR : Ring R) (CR : CRing R) (P : R -> Prop) (f : R -> R) n (A V : fm (R:=R)) w,
  unitary n V -> feq n n (mmul n A V) (mmul n V (dg w)) -> (forall i, (i < n)%nat -> P (w i)) ->
  IsFunOn P f n A (mmul n (mmul n V (dg (fun i => f (w i)))) (cj V)).
Proof. intros R RR CR. exact (isfun_dense_eigh (R:=R)). Qed.
Print Assumptions C09_dense_eigh.
Theorem C09_dense_eig : forall (R : Type) (RR : Ring R) (CR : CRing R) (P : R -> Prop) (f : R -> R) n (A V W : fm (R:=R)) w,
  inv2 n V W -> feq n n (mmul n A V) (mmul n V (dg w)) -> (forall i, (i < n)%nat -> P (w i)) ->
  IsFunOn P f n A (mmul n (mmul n V (dg (fun i => f (w i)))) W).
Proof. intros R RR CR. exact (isfun_dense_eig (R:=R)). Qed.
Print Assumptions C09_dense_eig.

(* matrix-level content of the product rules *)
Theorem C09_block_diag : forall (R : Type) (RR : Ring R) (CR : CRing R) (P : R -> Prop) (f : R -> R) (As Ms : list (shp * fm (R:=R))),
  Forall2 (fun a m => sqblk a /\ fst m = fst a /\ IsFunOn P f (fst (fst a)) (snd a) (snd m)) As Ms ->
  IsFunOn P f (blkdim As) (bd As) (bd Ms).
Proof. intros R RR CR. exact (isfun_bd (R:=R)). Qed.
Print Assumptions C09_block_diag.
Theorem C09_pow_kronecker : forall (R : Type) (RR : Ring R) (CR : CRing R) (P : R -> Prop) (f : R -> R) (As Ms : list (fac (R:=R))),
  (forall a b, P a -> P b -> P (rmul a b)) -> (forall a b, P a -> P b -> f (rmul a b) = rmul (f a) (f b)) -> P r1 -> f r1 = r1 ->
  Forall2 (facrel P f) As Ms -> IsFunOn P f (fr (kronR As)) (fmx (kronR As)) (fmx (kronR Ms)).
Proof. intros R RR CR. exact (isfun_kronR (R:=R)). Qed.
Print Assumptions C09_pow_kronecker.
Theorem C09_exp_kronsum : forall (R : Type) (RR : Ring R) (CR : CRing R) (P : R -> Prop) (f : R -> R) (As Ms : list (fac (R:=R))),
  (forall a b, P a -> P b -> P (radd a b)) -> (forall a b, P a -> P b -> f (radd a b) = rmul (f a) (f b)) -> P r0 -> f r0 = r1 ->
  Forall2 (facrel P f) As Ms -> IsFunOn P f (fr (kronR As)) (fmx (ksumR As)) (fmx (kronR Ms)).
Proof. intros R RR CR. exact (isfun_ksumR (R:=R)). Qed.
Print Assumptions C09_exp_kronsum.

(* integer powers: product([A]*k), built with the rewriting rules of `@`, is the k-fold matrix product ... *)
Theorem C09_pow_int_repeated : forall (R : Type) (RR : Ring R) (CR : CRing R) (a : op (R:=R)) n k,
  wf a = true -> shape a = (n, n) -> (1 <= k)%nat ->
  exists c, product_k a k = Ok c /\ wf c = true /\ shape c = (n, n) /\ feq n n (den c) (mpow n (den a) k).
Proof. intros R RR CR. exact (pow_int_repeated (R:=R)). Qed.
Print Assumptions C09_pow_int_repeated.
(* ... which is x^k of the matrix; pow 0 is the identity *)
Theorem C09_pow_int_isfun : forall (R : Type) (RR : Ring R) (CR : CRing R) (P : R -> Prop) n (A : fm (R:=R)) k,
  Diagble P n A -> IsFunOn P (fun x => spow x k) n A (mpow n A k).
Proof. intros R RR CR. exact (isfun_mpow (R:=R)). Qed.
Print Assumptions C09_pow_int_isfun.
Theorem C09_pow_0 : forall (R : Type) (RR : Ring R) (CR : CRing R) (P : R -> Prop) (a : op (R:=R)) n,
  shape a = (n, n) -> Diagble P n (den a) -> IsFunOn P (fun _ => r1) n (den a) (den (Ident n)).
Proof. intros R RR CR. exact (pow_0 (R:=R)). Qed.
Print Assumptions C09_pow_0.
(* power -1: any left inverse (C06's inv) of a diagonalisable matrix with non-zero spectrum is x^-1 of it *)
Theorem C09_pow_m1_inverse : forall (R : Type) (RR : Ring R) (FF : Field R) (P : R -> Prop) n (A M : fm (R:=R)),
  Diagble P n A -> (forall x, P x -> x <> r0) -> feq n n (mmul n M A) eye -> IsFunOn P rinv n A M.
Proof. intros R RR FF. exact (pow_m1_inverse (R:=R)). Qed.
Print Assumptions C09_pow_m1_inverse.
(* sqrt(A) applied twice acts as A (for any f with f x * f x = x on the spectrum) *)
Theorem C09_sqrt_sqrt : forall (R : Type) (RR : Ring R) (CR : CRing R) (P : R -> Prop) (f : R -> R) n (A M : fm (R:=R)),
  IsFunOn P f n A M -> (forall x, P x -> rmul (f x) (f x) = x) -> feq n n (mmul n M M) A.
Proof. intros R RR CR. exact (sqrt_sqrt (R:=R)). Qed.
Print Assumptions C09_sqrt_sqrt.

(* Krylov rules (LanczosUnary, ArnoldiUnary), given a complete factorisation A Q = Q H (Q unitary) and H P = P diag(theta):
   the operator is g(A) for the MASKED function g, and the vector the code computes, Q P (g(theta) * (P^-1 e1) ||v||), is
   that operator applied to v *)
Theorem C09_krylov_isfun : forall (R : Type) (RR : Ring R) (CR : CRing R) n (A Q H Pm Pi : fm (R:=R)) theta (P : R -> Prop) g,
  unitary n Q -> feq n n (mmul n A Q) (mmul n Q H) -> inv2 n Pm Pi -> feq n n (mmul n H Pm) (mmul n Pm (dg theta)) ->
  (forall i, (i < n)%nat -> P (theta i)) -> IsFunOn P g n A (kM n Q Pm Pi theta g).
Proof. intros R RR CR. exact (krylov_unary_isfun (R:=R)). Qed.
Print Assumptions C09_krylov_isfun.
Theorem C09_krylov_action : forall (R : Type) (RR : Ring R) (CR : CRing R) n (Q Pm Pi : fm (R:=R)) theta g,
  (0 < n)%nat -> unitary n Q -> forall (v : nat -> R) (nrm : R), (forall i, (i < n)%nat -> v i = rmul nrm (Q i 0%nat)) ->
  forall i, (i < n)%nat ->
  sum n (fun j => rmul (kM n Q Pm Pi theta g i j) (v j)) = sum n (fun l => rmul (kV n Q Pm i l) (rmul (g (theta l)) (rmul (Pi l 0%nat) nrm))).
Proof. intros R RR CR. exact (krylov_unary_action (R:=R)). Qed.
Print Assumptions C09_krylov_action.
(* with no eigenvalue under the mask's threshold this is f(A); with one it is not: C09_krylov_mask_refuted *)
Theorem C09_krylov_unmasked : forall (R : Type) (RR : Ring R) (CR : CRing R) n (A Q H Pm Pi : fm (R:=R)) theta (P : R -> Prop) f small,
  unitary n Q -> feq n n (mmul n A Q) (mmul n Q H) -> inv2 n Pm Pi -> feq n n (mmul n H Pm) (mmul n Pm (dg theta)) ->
  (forall i, (i < n)%nat -> P (theta i)) -> (forall x, P x -> small x = false) ->
  IsFunOn P f n A (kM n Q Pm Pi theta (masked small f)).
Proof. intros R RR CR. exact (krylov_unary_unmasked (R:=R)). Qed.
Print Assumptions C09_krylov_unmasked.

(* ---- refutation witnesses on the pinned code's model ---- *)
Theorem C09_krylov_mask_refuted :
  let M := kM 3 eye eye eye th012 (masked (fun x => qi_eqb x (qz 0)) f_wit) in
  qi_eqb (M 0%nat 0%nat) (qz 0) = true /\ qi_eqb (f_wit (th012 0%nat)) (qz 1) = true /\
  feqb 3 3 (mmul 3 (dg th012) eye) (mmul 3 eye (dg th012)) = true.
Proof. exact krylov_mask_refuted. Qed.
Print Assumptions C09_krylov_mask_refuted.
Theorem C09_pow_kron_branch_refuted :
  let u := UKron [leaf_m1; leaf_m1] in
  admissible MPow u = true /\ qi_eqb (den (erase u) 0%nat 0%nat) (qz 1) = true /\
  qi_eqb (den (unary MPow f_sqrt_wit u) 0%nat 0%nat) (qz (-1)) = true /\ qi_eqb (f_sqrt_wit (qz 1)) (qz 1) = true.
Proof. exact pow_kron_branch_refuted. Qed.
Print Assumptions C09_pow_kron_branch_refuted.

(* hypotheses are satisfiable: x^3 of a block-diagonal tree with a dense leaf (multiplicity 2) and a diagonal block *)
Example C09_example :
  let r := unary MGeneric f_ex tree_ex in
  wf r = true /\ shape r = (6, 6)%nat /\
  feqb 6 6 (den r) (mmul 6 (den (erase tree_ex)) (mmul 6 (den (erase tree_ex)) (den (erase tree_ex)))) = true.
Proof. exact unary_example. Qed.
Print Assumptions C09_example.
