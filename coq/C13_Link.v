(* C13: from the abstract minimality theorem to the value returned by the model's gmres_fwd for one column, on the
   repaired tree (flag gmres_square_H cleared: the full (m+1) x m Hessenberg matrix enters the normal equations).
   Hypotheses, all explicit: exact arithmetic laws; A has an adjoint (it is a linear operator); m unclipped Arnoldi
   steps (no breakdown: m <= grade of r0); no row/column of H is masked as padding; the oracle [solve] returns a
   solution of the m x m system it is given.  Conclusion: the returned x minimises ||b - A x'|| over
   x' in x0 + span{q_0..q_(m-1)} = x0 + K_m(A, r0). *)
From Coq Require Import List Bool Arith Lia Ring Field.
From Core Require Import C12_Ops C12_Krylov C13_Model C13_Proofs C13_Reduction C13_Loop.
Import ListNotations.

Section Link.
Context {T V : Type} (o : ops T) (vo : vops T V).
Notation "0" := (o0 o) : T_scope.
Notation "1" := (o1 o) : T_scope.
Notation "x + y" := (oadd o x y) : T_scope.
Notation "x * y" := (omul o x y) : T_scope.
Notation "x - y" := (osub o x y) : T_scope.
Notation "x / y" := (odiv o x y) : T_scope.
Notation "- x" := (oopp o x) : T_scope.
Notation conj := (oconj o).
Notation dot := (vdot vo).
Local Open Scope T_scope.
Hypothesis Fth : field_theory 0 1 (oadd o) (omul o) (osub o) (oopp o) (odiv o) (fun x => 1 / x) eq.
Add Field Tfield13k : Fth.
Hypothesis conj_add : forall a b, conj (a + b) = conj a + conj b.
Hypothesis conj_mul : forall a b, conj (a * b) = conj a * conj b.
Hypothesis conj_opp : forall a, conj (- a) = - conj a.
Hypothesis conj_div : forall a b, conj (a / b) = conj a / conj b.
Hypothesis dot_add_r : forall u v w, dot u (vadd vo v w) = dot u v + dot u w.
Hypothesis dot_sub_r : forall u v w, dot u (vsub vo v w) = dot u v - dot u w.
Hypothesis dot_scale_r : forall u a v, dot u (vscale vo a v) = a * dot u v.
Hypothesis dot_divs_r : forall u v a, dot u (vdivs vo v a) = dot u v / a.
Hypothesis dot_sym : forall u v, dot u v = conj (dot v u).
Hypothesis nrm_sq : forall v, vnrm o vo v * vnrm o vo v = dot v v.
Hypothesis nrm_real : forall v, conj (vnrm o vo v) = vnrm o vo v.
Variables (A As : V -> V).
Hypothesis A_adj : forall u v, dot u (A v) = dot (As u) v.            (* A is linear: it has an adjoint *)
Variable solve : list (list T) -> list T -> list T.
Variables (pad_buf selfref zero_nan abs_clip : bool) (tol mfac : T) (m : nat) (b x0 : V).
Let r0 : V := vsub vo b (A x0).
Hypothesis Hr0nz : vnrm o vo r0 <> 0.
Hypothesis Hstart : start_den o zero_nan (vnrm o vo r0) = vnrm o vo r0.
Hypothesis Hunc : forall k, (k < m)%nat -> unclipped o vo A selfref abs_clip tol (acs o vo A selfref zero_nan abs_clip tol r0 k).
Let c : acol (T:=T) (V:=V) := acs o vo A selfref zero_nan abs_clip tol r0 m.
Let h := hent o c.

(* the pieces of gmres_y (flag cleared) *)
Definition Gm : list (list T) := tabulate m (fun i => tabulate m (fun j => tsum o (S m) (fun k => conj (h k i) * h k j))).
Definition rhsm : list T := tabulate m (fun i => conj (h 0%nat i)).
Definition pad_of : list bool :=
  let largest := tabulate m (fun i => lmax o (tabulate (S m) (fun k => oabs o (h k i)))) in
  map (fun l => if zero_nan then oltb o l (omul o mfac (lmax o largest)) else negb (oltb o (omul o mfac (lmax o largest)) l)) largest.
Hypothesis Hnopad : Forall (fun p => p = false) pad_of.
Hypothesis Hsolve : length (solve Gm rhsm) = m /\
  forall i, (i < m)%nat -> lsum o (zipw (omul o) (nth i Gm []) (solve Gm rhsm)) = nth i rhsm 0.

Let y0 := solve Gm rhsm.
Let beta := vnrm o vo r0.
Definition ym (j : nat) : T := nth j y0 0 * beta.

Lemma tabulate_nopad : forall (pad : list bool) (G : nat -> nat -> T), Forall (fun p => p = false) pad ->
  tabulate m (fun i => tabulate m (fun j => if Nat.eqb i j && nth i pad false then G i j + 1 else G i j)) = tabulate m (fun i => tabulate m (G i)).
Proof.
  intros pad G Hp. unfold tabulate. apply map_ext. intros i. apply map_ext. intros j.
  assert (E : nth i pad false = false).
  { destruct (nth_in_or_default i pad false) as [Hin|E]; [|exact E]. rewrite Forall_forall in Hp. apply Hp. exact Hin. }
  rewrite E, andb_false_r. reflexivity.
Qed.
Lemma mask_nopad : forall (pad : list bool) (y : list T), Forall (fun p => p = false) pad -> length pad = length y ->
  map (fun py : bool * T => if fst py then 0 else snd py * beta) (combine pad y) = map (fun v => v * beta) y.
Proof.
  induction pad as [|p pad IH]; intros [|v y] Hp Hl; cbn in Hl; try discriminate; [reflexivity|].
  inversion Hp; subst. cbn [combine map fst snd]. f_equal. apply IH; [assumption|lia].
Qed.

Lemma gmres_y_value : gmres_y o solve false zero_nan mfac m h beta = map (fun v => v * beta) y0.
Proof.
  unfold gmres_y. cbv zeta.
  change (map (fun l => if zero_nan then oltb o l (omul o mfac (lmax o (tabulate m (fun i => lmax o (tabulate (S m) (fun k => oabs o (h k i))))))) else negb (oltb o (omul o mfac (lmax o (tabulate m (fun i => lmax o (tabulate (S m) (fun k => oabs o (h k i))))))) l))
              (tabulate m (fun i => lmax o (tabulate (S m) (fun k => oabs o (h k i)))))) with pad_of.
  rewrite (tabulate_nopad pad_of (fun i j => tsum o (S m) (fun k => conj (h k i) * h k j)) Hnopad).
  fold Gm. fold rhsm. fold y0. apply mask_nopad; [exact Hnopad|].
  unfold pad_of. rewrite map_length. unfold tabulate. rewrite map_length, seq_length. symmetry. apply Hsolve.
Qed.

(* ---- list plumbing ---- *)
Lemma tsum_sum k f : tsum o k f = sum o k f.
Proof. unfold tsum. induction k as [|k IH]; [reflexivity|]. rewrite seq_S, fold_left_app, IH. reflexivity. Qed.
Lemma nth_tabulate {X} k (f : nat -> X) d i : (i < k)%nat -> nth i (tabulate k f) d = f i.
Proof. intros Hi. unfold tabulate. rewrite (nth_indep _ d (f 0%nat)) by (rewrite map_length, seq_length; lia).
  rewrite (map_nth f (seq 0 k) 0%nat i), seq_nth by lia. reflexivity. Qed.
Lemma length_tabulate {X} k (f : nat -> X) : length (tabulate k f) = k.
Proof. unfold tabulate. rewrite map_length, seq_length. reflexivity. Qed.
Lemma lsum_zipmul_sum : forall (bl al : list T), (length al <= length bl)%nat ->
  lsum o (zipw (omul o) al bl) = sum o (length bl) (fun i => nth i al 0 * nth i bl 0).
Proof.
  induction bl as [|bv bl IH]; intros al Hl.
  - destruct al; [reflexivity|cbn in Hl; lia].
  - destruct al as [|av al].
    + unfold zipw. cbn [combine map length]. rewrite lsum_nil.
      rewrite (sum_ext o (S (length bl)) _ (fun _ => 0)), (sum_zero o Fth); [reflexivity|]. intros i _. destruct i; cbn [nth]; ring.
    + unfold zipw. cbn [combine map fst snd length]. rewrite lsum_cons, (sum_shift o Fth). cbn [nth]. f_equal. apply IH. cbn in Hl. lia.
Qed.
Lemma map_seq_nth (l : list T) (g : T -> T) : map (fun j => g (nth j l 0)) (seq 0 (length l)) = map g l.
Proof. induction l as [|a l IH]; [reflexivity|]. cbn [length seq map nth]. f_equal. rewrite <- seq_shift, map_map. exact IH. Qed.

(* ---- the coefficient vector of the code solves the normal equations of C13_Reduction ---- *)
Notation Hfm := (Hf o vo A selfref zero_nan abs_clip tol r0 m).
Notation qfm := (qf o vo A selfref zero_nan abs_clip tol r0 m).
Lemma Hf_h i j : Hfm i j = h i j. Proof. reflexivity. Qed.

Lemma ym_normal_equations i : (i < m)%nat ->
  sum o m (fun j => Gram o Hfm m i j * ym j) = conj (Hfm 0%nat i) * beta0 o vo r0.
Proof.
  intros Hi. destruct Hsolve as [Ly Hs]. specialize (Hs i Hi). fold y0 in Ly, Hs.
  unfold Gm in Hs. rewrite nth_tabulate in Hs by assumption. unfold rhsm in Hs. rewrite nth_tabulate in Hs by assumption.
  rewrite lsum_zipmul_sum in Hs by (rewrite length_tabulate; lia). rewrite Ly in Hs.
  assert (E2 : sum o m (fun j => Gram o Hfm m i j * nth j y0 0) = conj (h 0%nat i)).
  { rewrite <- Hs. apply (sum_ext o). intros j Hj. rewrite nth_tabulate by assumption. rewrite tsum_sum. reflexivity. }
  unfold ym. rewrite (sum_ext o m _ (fun j => (Gram o Hfm m i j * nth j y0 0) * beta)) by (intros; ring).
  rewrite (sum_mul_r o Fth), E2. reflexivity.
Qed.

(* ---- the returned vector and its residual ---- *)
Lemma lincomb_dot u : forall qs y xx, dot u (lincomb vo qs y xx) = dot u xx + lsum o (zipw (fun yj q => yj * dot u q) y qs).
Proof.
  intros qs y xx. unfold lincomb, zipw. destruct (combine y qs) as [|[ya qa] rest]; [cbn [map]; rewrite lsum_nil; ring|].
  cbn [map fst snd]. rewrite lsum_cons, dot_add_r. f_equal.
  assert (G : forall l acc, dot u (fold_left (fun acc yq => vadd vo acc (vscale vo (fst yq) (snd yq))) l acc)
                        = dot u acc + lsum o (map (fun p : T * V => fst p * dot u (snd p)) l)).
  { induction l as [|[yb qb] l IH]; intros acc; cbn [fold_left map fst snd]; [rewrite lsum_nil; ring|].
    rewrite IH, lsum_cons, dot_add_r, dot_scale_r. ring. }
  rewrite G, dot_scale_r. reflexivity.
Qed.
Lemma zipw_map_r {X Y Z W} (f : X -> Z -> W) (g : Y -> Z) (a : list X) (bl : list Y) :
  zipw f a (map g bl) = zipw (fun x yv => f x (g yv)) a bl.
Proof. unfold zipw. revert a. induction bl as [|bv bl IH]; intros [|av a]; cbn [map combine fst snd]; try reflexivity. f_equal. apply IH. Qed.
Lemma nth_firstn13 {X} : forall k (l : list X) d i, (i < k)%nat -> nth i (firstn k l) d = nth i l d.
Proof. induction k as [|k IH]; intros [|a l] d [|i] Hi; cbn; try reflexivity; try lia. apply IH. lia. Qed.
Lemma firstn_qf : firstn m (aqs c) = map qfm (seq 0 m).
Proof.
  destruct (arnoldi_invariant o vo Fth conj_add conj_div dot_sub_r dot_scale_r dot_divs_r dot_sym nrm_sq nrm_real A selfref zero_nan abs_clip tol r0 Hr0nz Hstart m Hunc m (le_n _)) as (_ & Lq & _).
  fold c in Lq. apply (nth_ext _ _ (alast c) (alast c)).
  - rewrite firstn_length, map_length, seq_length, Lq. lia.
  - intros i Hi. rewrite firstn_length, Lq in Hi. assert (i < m)%nat by lia.
    rewrite nth_firstn13 by assumption.
    rewrite (nth_indep (map qfm (seq 0 m)) (alast c) (qfm 0%nat)) by (rewrite map_length, seq_length; lia).
    rewrite (map_nth qfm (seq 0 m) 0%nat i), seq_nth by lia. reflexivity.
Qed.

(* candidate x' = x0 + sum_j y'_j q_j: its residual b - A x' is (weakly) r0 - sum_j y'_j A q_j *)
Definition cand (y' : list T) : V := lincomb vo (firstn m (aqs c)) y' x0.
Lemma cand_residual y' u : dot u (vsub vo b (A (cand y'))) = dot u (rho_of vo A qfm m r0 y').
Proof.
  assert (Er : dot u r0 = dot u b - dot u (A x0)) by (unfold r0; apply dot_sub_r).
  unfold rho_of, ws. rewrite (lsq_res_dot o vo Fth dot_sub_r dot_scale_r), dot_sub_r, A_adj. unfold cand.
  rewrite lincomb_dot, firstn_qf, !zipw_map_r, <- A_adj, Er.
  assert (Ez : forall l : list (T * nat), map (fun p => fst p * dot (As u) (qfm (snd p))) l = map (fun p => fst p * dot u (A (qfm (snd p)))) l).
  { intros l. apply map_ext. intros [yy jj]. cbn [fst snd]. rewrite A_adj. reflexivity. }
  unfold zipw. rewrite Ez. ring.
Qed.
Lemma normsq_weq v v' : (forall u, dot u v = dot u v') -> dot v v = dot v' v'.
Proof. intros H. rewrite (H v), (dot_sym v v'), (H v'), <- dot_sym. reflexivity. Qed.

(* the value returned by the model for this column *)
Definition xm : V := gmres_col o vo solve false zero_nan mfac m x0 r0 c.
Lemma xm_cand : xm = cand (map (fun v => v * beta) y0).
Proof. unfold xm, gmres_col, cand. fold h. fold beta. rewrite gmres_y_value. reflexivity. Qed.

(* Minimal residual: no x' = x0 + sum_j y'_j q_j, i.e. no element of x0 + K_m(A, r0), has a smaller residual norm
   than the returned vector ([Pos] = "is a non-negative real"). *)
Theorem gmres_model_minimal (Pos : T -> Prop) : (forall v, Pos (dot v v)) ->
  forall y' : list T,
  Pos (dot (vsub vo b (A (cand y'))) (vsub vo b (A (cand y'))) - dot (vsub vo b (A xm)) (vsub vo b (A xm))).
Proof.
  intros HP y'. rewrite xm_cand.
  rewrite (normsq_weq _ _ (cand_residual y')), (normsq_weq _ _ (cand_residual (map (fun v => v * beta) y0))).
  assert (E : map (fun v => v * beta) y0 = map ym (seq 0 m)).
  { destruct Hsolve as [Ly _]. fold y0 in Ly. rewrite <- Ly. unfold ym. symmetry. apply (map_seq_nth y0 (fun v => v * beta)). }
  rewrite E.
  apply (arnoldi_gmres_optimal o vo Fth conj_add conj_mul conj_opp conj_div dot_sub_r dot_scale_r dot_divs_r dot_sym nrm_sq nrm_real A selfref zero_nan abs_clip tol r0 Hr0nz Hstart m Hunc Pos HP ym ym_normal_equations).
Qed.

(* corollary: the residual of the returned vector does not exceed that of the initial guess *)
Corollary gmres_model_residual_le_r0 (Pos : T -> Prop) : (forall v, Pos (dot v v)) ->
  Pos (dot r0 r0 - dot (vsub vo b (A xm)) (vsub vo b (A xm))).
Proof. intros HP. pose proof (gmres_model_minimal Pos HP []) as H. unfold cand, lincomb in H. cbn [combine] in H. exact H. Qed.

(* ---- the same for gmres_fwd on one column, when the Arnoldi loop takes its m steps ---- *)
Variable n : nat.
Hypothesis Hmn : (m <= n)%nat.
Hypothesis Hcond : forall k, (k < m)%nat -> arnoldi_cond o selfref tol (Nat.min m n) ([acs o vo A selfref zero_nan abs_clip tol r0 k], k) = true.

Lemma arnoldi_loop_runs : forall fuel k, (k + fuel <= m)%nat ->
  arnoldi_loop o vo A selfref abs_clip tol (Nat.min m n) fuel ([acs o vo A selfref zero_nan abs_clip tol r0 k], k) = ([acs o vo A selfref zero_nan abs_clip tol r0 (k + fuel)], (k + fuel)%nat).
Proof.
  induction fuel as [|f IH]; intros k Hk; cbn [arnoldi_loop].
  - rewrite Nat.add_0_r. reflexivity.
  - rewrite Hcond by lia. unfold arnoldi_body. cbn [fst snd map].
    change (arnoldi_step o vo A selfref abs_clip tol (acs o vo A selfref zero_nan abs_clip tol r0 k)) with (acs o vo A selfref zero_nan abs_clip tol r0 (S k)).
    rewrite IH by lia. rewrite Nat.add_succ_r. reflexivity.
Qed.

Lemma gmres_fwd_value : gmres_fwd o vo A solve false pad_buf selfref zero_nan abs_clip tol mfac m n [b] [x0] = {| gsol := [xm]; gsteps := m |}.
Proof.
  unfold gmres_fwd, arnoldi_fact. cbn [combine map fst snd]. fold r0.
  change (init_acol o vo zero_nan r0) with (acs o vo A selfref zero_nan abs_clip tol r0 0).
  rewrite (arnoldi_loop_runs (Nat.min m n) 0) by (rewrite Nat.min_l by assumption; lia).
  rewrite Nat.min_l by assumption. cbn [Nat.add fst snd combine map]. destruct pad_buf; reflexivity.
Qed.

Theorem gmres_fwd_minimal (Pos : T -> Prop) : (forall v, Pos (dot v v)) ->
  exists x, gsol (gmres_fwd o vo A solve false pad_buf selfref zero_nan abs_clip tol mfac m n [b] [x0]) = [x] /\ gsteps (gmres_fwd o vo A solve false pad_buf selfref zero_nan abs_clip tol mfac m n [b] [x0]) = m /\
    (forall y' : list T, Pos (dot (vsub vo b (A (cand y'))) (vsub vo b (A (cand y'))) - dot (vsub vo b (A x)) (vsub vo b (A x)))) /\
    Pos (dot r0 r0 - dot (vsub vo b (A x)) (vsub vo b (A x))).
Proof.
  intros HP. exists xm. rewrite gmres_fwd_value. cbn [gsol gsteps]. split; [reflexivity|]. split; [reflexivity|]. split.
  - apply gmres_model_minimal. exact HP.
  - apply gmres_model_residual_le_r0. exact HP.
Qed.
End Link.
