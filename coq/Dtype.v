(* dtype clause of C01: model of the dtype every constructor computes (A.dtype) and of the dtype of A @ X / X @ A
   per kind, on a dtype skeleton of the operator tree; numpy's promotion table is generated (DtypeTable.v).
   Behaviours of the pinned tree that break the clause are isolated behind flags. *)
From Coq Require Import List Bool.
From Core Require Import DtypeTable.
Import ListNotations.

Definition dt_eqb (a b : dt) : bool :=
  match a, b with I32, I32 | I64, I64 | F32, F32 | F64, F64 | C64, C64 | C128, C128 => true | _, _ => false end.
Lemma promote_comm a b : promote a b = promote b a. Proof. destruct a, b; reflexivity. Qed.
Lemma promote_assoc a b c : promote a (promote b c) = promote (promote a b) c. Proof. destruct a, b, c; reflexivity. Qed.
Lemma promote_idem a : promote a a = a. Proof. destruct a; reflexivity. Qed.

Record dflags := { sum_first : bool;       (* Sum.dtype = Ms[0].dtype *)
                   concat_first : bool;    (* Concatenated.dtype = Ms[0].dtype *)
                   ident_pass : bool;      (* Identity @ X returns X unchanged (dtype of X) *)
                   perm_pass : bool;       (* Permutation @ X = X[perm] (dtype of X) *)
                   kronsum_inplace : bool; (* KronSum accumulates in place into a buffer of X's dtype *)
                   sliced_cast : bool }.   (* Sliced scatters X into a buffer of the operator's dtype *)
Definition dfixed := {| sum_first := false; concat_first := false; ident_pass := false; perm_pass := false; kronsum_inplace := false; sliced_cast := false |}.

Inductive lkind := LDense | LSparse | LDiag | LScal | LTridiag | LHouse | LIdent | LPerm.
(* LDense also stands for Triangular; LSparse has an explicit left product *)
Inductive dsk :=
| DLeaf (k : lkind) (d : dt)
| DSum (l : list dsk) | DProd (l : list dsk) | DKron (l : list dsk) | DKronSum (l : list dsk) | DBDiag (l : list dsk)
| DConcat (l : list dsk)
| DTransp (a : dsk) | DAdj (a : dsk) | DSliced (a : dsk).

Definition reduce1 (l : list dt) (dflt : dt) : dt := match l with [] => dflt | x :: r => fold_left promote r x end.

Section Model.
Variable fl : dflags.
(* A.dtype *)
Fixpoint dtype (e : dsk) : dt :=
  match e with
  | DLeaf _ d => d
  | DSum l => if sum_first fl then (match l with [] => F32 | x :: _ => dtype x end) else reduce1 (map dtype l) F32
  | DConcat l => if concat_first fl then (match l with [] => F32 | x :: _ => dtype x end) else reduce1 (map dtype l) F32
  | DProd l | DKron l | DKronSum l | DBDiag l => reduce1 (map dtype l) F32
  | DTransp a | DAdj a | DSliced a => dtype a
  end.
(* (dtype of A @ X, dtype of X @ A) for an operand of dtype dx *)
Fixpoint outs (e : dsk) (dx : dt) {struct e} : dt * dt :=
  match e with
  | DLeaf k d =>
      match k with
      | LIdent => if ident_pass fl then (dx, dx) else (promote d dx, promote d dx)
      | LPerm => if perm_pass fl then (dx, promote dx dx) else (promote d dx, promote d dx)
      | _ => (promote d dx, promote d dx)
      end
  | DSum l => (reduce1 (map (fun m => fst (outs m dx)) l) dx, reduce1 (map (fun m => snd (outs m dx)) l) dx)
  | DProd l => (fold_right (fun m acc => fst (outs m acc)) dx l, fold_left (fun acc m => snd (outs m acc)) l dx)
  | DKron l => let o := fold_left (fun acc m => fst (outs m acc)) l dx in (o, promote o dx)
  | DKronSum l => let o := if kronsum_inplace fl then dx else reduce1 (map (fun m => fst (outs m dx)) l) dx in (o, promote o dx)
  | DBDiag l | DConcat l => let o := reduce1 (map (fun m => fst (outs m dx)) l) dx in (o, promote o dx)
  | DTransp a | DAdj a => (snd (outs a dx), fst (outs a dx))
  | DSliced a => if sliced_cast fl then (fst (outs a (dtype a)), snd (outs a (dtype a)))
                 else (fst (outs a (promote (dtype a) dx)), snd (outs a (promote (dtype a) dx)))
  end.
End Model.
Definition out_dtype fl e dx := fst (outs fl e dx).
Definition rout_dtype fl e dx := snd (outs fl e dx).

(* the promoted dtype of the dense computation: promotion over all leaves *)
Fixpoint ddtype (e : dsk) : dt :=
  match e with
  | DLeaf _ d => d
  | DSum l | DProd l | DKron l | DKronSum l | DBDiag l | DConcat l => reduce1 (map ddtype l) F32
  | DTransp a | DAdj a | DSliced a => ddtype a
  end.
Fixpoint nonempty (e : dsk) : bool :=
  match e with
  | DLeaf _ _ => true
  | DSum l | DProd l | DKron l | DKronSum l | DBDiag l | DConcat l => negb (Nat.eqb (length l) 0) && forallb nonempty l
  | DTransp a | DAdj a | DSliced a => nonempty a
  end.
