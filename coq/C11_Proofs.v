(* C11 - lemmas: triangular / permutation structure and factorisation identities are preserved by Kronecker products and by
   block-diagonal direct sums. *)
From Coq Require Import Arith Lia List Ring ArithRing PeanoNat Bool.
From Core Require Import Base Kron KronAlg Op OpProofs Algebra AlgebraProofs AlgebraKron C06_Inv C06_Proofs.
Import ListNotations.
Section L.
Context {R : Type} {RR : Ring R} {CR : CRing R}.
Add Ring Rring : Rth.
Open Scope R_scope.
Notation fm := (fm (R:=R)). Notation arr := (arr (R:=R)). Notation op := (op (R:=R)). Notation fac := (fac (R:=R)).

Definition permmat (n : nat) (M : fm) := exists p, is_perm n p /\ feq n n M (pmat p).
Lemma conj_delta i j : conj (delta (R:=R) i j) = delta i j.
Proof. unfold delta. destruct (Nat.eqb i j); [apply conj_1|apply conj_0]. Qed.
Lemma ctr_eye n k : feq n n (ctr k (eye (R:=R))) eye.
Proof. intros i j _ _. unfold ctr, eye. rewrite conj_delta. unfold delta. rewrite Nat.eqb_sym. reflexivity. Qed.
Lemma lower_eye n : lower n (eye (R:=R)). Proof. intros i j _ _ H. unfold eye, delta. destruct (Nat.eqb_spec i j); [lia|reflexivity]. Qed.
Lemma upper_eye n : upper n (eye (R:=R)). Proof. intros i j _ _ H. unfold eye, delta. destruct (Nat.eqb_spec i j); [lia|reflexivity]. Qed.
Lemma permmat_eye n : permmat n eye.
Proof. exists (fun i => i). split; [split; auto|]. intros i j _ _. reflexivity. Qed.
Lemma lower_ext n A B : feq n n A B -> lower n A -> lower n B. Proof. intros E H i j Hi Hj Hl. rewrite <- E; auto. Qed.
Lemma upper_ext n A B : feq n n A B -> upper n A -> upper n B. Proof. intros E H i j Hi Hj Hl. rewrite <- E; auto. Qed.
Lemma permmat_ext n A B : feq n n A B -> permmat n A -> permmat n B.
Proof. intros E (p & HP & F). exists p. split; auto. eapply feq_trans; [apply feq_sym; exact E|exact F]. Qed.
Lemma ctr_ext m n A B : feq m n A B -> feq n m (ctr 0 A) (ctr 0 B).
Proof. intros E i j Hi Hj. unfold ctr. rewrite E; auto. Qed.

Lemma mmul_ext_all k (A B B' : fm) i j : (forall l c, B l c = B' l c) -> mmul k A B i j = mmul k A B' i j.
Proof. intros H. unfold mmul. apply sum_ext. intros l Hl. rewrite H. reflexivity. Qed.
(* ---------- Kronecker products ---------- *)
Definition ctrfac (X : fac) : fac := mkfac (fc X) (fr X) (ctr 0 (fmx X)).
Lemma kron2_ctr (X Y : fac) i j : ctr 0 (fmx (kron2 X Y)) i j = fmx (kron2 (ctrfac X) (ctrfac Y)) i j.
Proof. unfold ctr. cbn [kron2 ctrfac fmx fr fc]. unfold ctr. apply conj_mul. Qed.
Lemma kron2_ext (X X' Y Y' : fac) a b N M : fr X = a -> fc X = b -> fr Y = N -> fc Y = M -> fr X' = a -> fc X' = b -> fr Y' = N -> fc Y' = M ->
  (0 < N)%nat -> (0 < M)%nat -> feq a b (fmx X) (fmx X') -> feq N M (fmx Y) (fmx Y') -> feq (a * N) (b * M) (fmx (kron2 X Y)) (fmx (kron2 X' Y')).
Proof. intros E1 E2 E3 E4 E5 E6 E7 E8 HN HM HX HY i j Hi Hj. cbn [kron2 fmx]. rewrite E3, E4, E7, E8.
  rewrite HX, HY; auto; try (apply Nat.mod_upper_bound; lia); apply Nat.div_lt_upper_bound; nia. Qed.
Lemma div_mod_lt i j N : (0 < N)%nat -> (i < j)%nat -> (i / N < j / N)%nat \/ ((i / N = j / N)%nat /\ (i mod N < j mod N)%nat).
Proof. intros HN Hl. pose proof (Nat.div_le_mono i j N ltac:(lia) ltac:(lia)) as H.
  destruct (Nat.eq_dec (i / N) (j / N)) as [E|]; [right|left; lia]. split; auto.
  pose proof (Nat.div_mod i N ltac:(lia)). pose proof (Nat.div_mod j N ltac:(lia)). rewrite E in *. nia. Qed.
Lemma kron2_lower (X Y : fac) a N : fr X = a -> fc X = a -> fr Y = N -> fc Y = N -> (0 < N)%nat ->
  lower a (fmx X) -> lower N (fmx Y) -> lower (a * N) (fmx (kron2 X Y)).
Proof. intros E1 E2 E3 E4 HN LX LY i j Hi Hj Hl. cbn [kron2 fmx]. rewrite E3, E4.
  assert (Di : (i / N < a)%nat) by (apply Nat.div_lt_upper_bound; nia). assert (Dj : (j / N < a)%nat) by (apply Nat.div_lt_upper_bound; nia).
  destruct (div_mod_lt i j N HN Hl) as [H|[H1 H2]].
  - rewrite LX by auto. ring.
  - rewrite (LY (i mod N)%nat (j mod N)%nat) by (auto; apply Nat.mod_upper_bound; lia). ring. Qed.
Lemma kron2_upper (X Y : fac) a N : fr X = a -> fc X = a -> fr Y = N -> fc Y = N -> (0 < N)%nat ->
  upper a (fmx X) -> upper N (fmx Y) -> upper (a * N) (fmx (kron2 X Y)).
Proof. intros E1 E2 E3 E4 HN LX LY i j Hi Hj Hl. cbn [kron2 fmx]. rewrite E3, E4.
  assert (Di : (i / N < a)%nat) by (apply Nat.div_lt_upper_bound; nia). assert (Dj : (j / N < a)%nat) by (apply Nat.div_lt_upper_bound; nia).
  destruct (div_mod_lt j i N HN Hl) as [H|[H1 H2]].
  - rewrite LX by auto. ring.
  - rewrite (LY (i mod N)%nat (j mod N)%nat) by (auto; apply Nat.mod_upper_bound; lia). ring. Qed.
Lemma kron2_permmat (X Y : fac) a N : fr X = a -> fc X = a -> fr Y = N -> fc Y = N -> (0 < N)%nat ->
  permmat a (fmx X) -> permmat N (fmx Y) -> permmat (a * N) (fmx (kron2 X Y)).
Proof. intros E1 E2 E3 E4 HN (p & [Pr Pi] & FX) (q & [Qr Qi] & FY).
  exists (fun i => (p (i / N) * N + q (i mod N))%nat). split; [split|].
  - intros i Hi. assert (i / N < a)%nat by (apply Nat.div_lt_upper_bound; nia). assert (i mod N < N)%nat by (apply Nat.mod_upper_bound; lia).
    specialize (Pr (i / N)%nat ltac:(auto)). specialize (Qr (i mod N)%nat ltac:(auto)). nia.
  - intros i j Hi Hj E.
    assert (Ai : (i / N < a)%nat) by (apply Nat.div_lt_upper_bound; nia). assert (Aj : (j / N < a)%nat) by (apply Nat.div_lt_upper_bound; nia).
    assert (Bi : (i mod N < N)%nat) by (apply Nat.mod_upper_bound; lia). assert (Bj : (j mod N < N)%nat) by (apply Nat.mod_upper_bound; lia).
    pose proof (Qr _ Bi) as Q1. pose proof (Qr _ Bj) as Q2.
    assert (E1' : p (i / N)%nat = p (j / N)%nat).
    { apply (f_equal (fun x => x / N)%nat) in E. rewrite !Nat.div_add_l, !(Nat.div_small (q _)) in E by lia. lia. }
    assert (E2' : q (i mod N)%nat = q (j mod N)%nat).
    { apply (f_equal (fun x => x mod N)%nat) in E. rewrite !(Nat.add_comm (_ * N)), !Nat.mod_add, !(Nat.mod_small (q _)) in E by lia. exact E. }
    apply Pi in E1'; auto. apply Qi in E2'; auto. rewrite (Nat.div_mod i N), (Nat.div_mod j N) by lia. congruence.
  - intros i j Hi Hj. cbn [kron2 fmx]. rewrite E3, E4.
    assert (Ai : (i / N < a)%nat) by (apply Nat.div_lt_upper_bound; nia). assert (Aj : (j / N < a)%nat) by (apply Nat.div_lt_upper_bound; nia).
    assert (Bi : (i mod N < N)%nat) by (apply Nat.mod_upper_bound; lia). assert (Bj : (j mod N < N)%nat) by (apply Nat.mod_upper_bound; lia).
    rewrite FX, FY by auto. unfold pmat. pose proof (Qr _ Bi) as Q1.
    rewrite (delta_divmod N (p (i / N) * N + q (i mod N))%nat j HN).
    rewrite Nat.div_add_l, (Nat.div_small (q _)), Nat.add_0_r by lia.
    rewrite (Nat.add_comm (_ * N)), Nat.mod_add, (Nat.mod_small (q _)) by lia. reflexivity. Qed.

(* factor-wise Cholesky *)
Definition cholfac (L A : fac) := fr A = fc A /\ (0 < fr A)%nat /\ fr L = fr A /\ fc L = fr A /\ lower (fr A) (fmx L)
  /\ feq (fr A) (fr A) (mmul (fr A) (fmx L) (ctr 0 (fmx L))) (fmx A).
Lemma cholfac_one : cholfac one11 one11.
Proof. unfold cholfac, one11; cbn [fr fc fmx]. repeat split; auto.
  - intros i j Hi Hj Hl. lia.
  - intros i j Hi Hj. unfold mmul, ctr. cbn [sum]. rewrite conj_1. ring. Qed.
Lemma kron_chol (Ls As : list fac) : Forall2 cholfac Ls As -> cholfac (kronR Ls) (kronR As).
Proof. induction 1 as [|L A Ls As (Sq & Pos & E1 & E2 & LL & F) HF IH]; [exact cholfac_one|].
  destruct IH as (Sq' & Pos' & E1' & E2' & LL' & F'). set (N := fr (kronR As)) in *. set (a := fr A) in *.
  unfold cholfac. cbn [kronR kron2 fr fc]. fold N a. rewrite <- Sq, <- Sq', E1, E2, E1', E2'. fold N a.
  repeat split; auto; try nia.
  - apply (kron2_lower L (kronR Ls) a N); auto.
  - intros i j Hi Hj.
    transitivity (mmul (a * N) (fmx (kron2 L (kronR Ls))) (fmx (kron2 (ctrfac L) (ctrfac (kronR Ls)))) i j).
    { apply mmul_ext_all. intros l c. apply kron2_ctr. }
    pose proof (kron2_mixed L (kronR Ls) (ctrfac L) (ctrfac (kronR Ls)) i j) as M. cbn [ctrfac fr fc] in M. rewrite E2, E2' in M. fold a N in M.
    rewrite M by auto.
    apply (kron2_ext (fmul L (ctrfac L)) A (fmul (kronR Ls) (ctrfac (kronR Ls))) (kronR As) a a N N); auto; cbn [fmul ctrfac fr fc fmx]; try congruence.
    + rewrite E2. exact F.
    + rewrite E2'. exact F'. Qed.

(* factor-wise P L U *)
Definition plufac (PLU : fac * fac * fac) (A : fac) :=
  let '(P, L, U) := PLU in let n := fr A in
  fc A = n /\ (0 < n)%nat /\ fr P = n /\ fc P = n /\ fr L = n /\ fc L = n /\ fr U = n /\ fc U = n /\
  permmat n (fmx P) /\ lower n (fmx L) /\ upper n (fmx U) /\ feq n n (mmul n (fmx P) (mmul n (fmx L) (fmx U))) (fmx A).
Definition fst3 (t : fac * fac * fac) := fst (fst t). Definition snd3 (t : fac * fac * fac) := snd (fst t). Definition thd3 (t : fac * fac * fac) := snd t.
Lemma kron_plu (Ts : list (fac * fac * fac)) (As : list fac) : Forall2 plufac Ts As ->
  plufac (kronR (map fst3 Ts), kronR (map snd3 Ts), kronR (map thd3 Ts)) (kronR As).
Proof. induction 1 as [|[[P L] U] A Ts As H HF IH].
  - unfold plufac. cbn [map kronR one11 fr fc fmx]. repeat split; auto.
    + exists (fun i => i). split; [split; auto|]. intros i j Hi Hj. unfold pmat, delta. assert (i = 0 /\ j = 0)%nat as [-> ->] by lia. reflexivity.
    + intros i j Hi Hj Hl. lia.
    + intros i j Hi Hj Hl. lia.
    + intros i j Hi Hj. unfold mmul. cbn [sum]. ring.
  - unfold plufac in H, IH |- *. cbn [map fst3 snd3 thd3 fst snd] in *.
    destruct H as (Sq & Pos & P1 & P2 & L1 & L2 & U1 & U2 & PP & LL & UU & F).
    destruct IH as (Sq' & Pos' & P1' & P2' & L1' & L2' & U1' & U2' & PP' & LL' & UU' & F').
    set (Ps := kronR (map fst3 Ts)) in *. set (Ls := kronR (map snd3 Ts)) in *. set (Us := kronR (map thd3 Ts)) in *.
    set (N := fr (kronR As)) in *. set (a := fr A) in *.
    cbn [kronR kron2 fr fc]. fold N a. rewrite ?Sq, ?Sq', ?P1, ?P2, ?L1, ?L2, ?U1, ?U2, ?P1', ?P2', ?L1', ?L2', ?U1', ?U2'.
    repeat split; auto; try nia.
    + apply (kron2_permmat P Ps a N); auto.
    + apply (kron2_lower L Ls a N); auto.
    + apply (kron2_upper U Us a N); auto.
    + intros i j Hi Hj.
      transitivity (mmul (a * N) (fmx (kron2 P Ps)) (fmx (kron2 (fmul L U) (fmul Ls Us))) i j).
      { apply mmul_ext_all. intros l c.
        pose proof (kron2_mixed L Ls U Us l c) as M. rewrite L2, L2', U1' in M. apply M; auto. }
      pose proof (kron2_mixed P Ps (fmul L U) (fmul Ls Us) i j) as M. cbn [fmul fr fc] in M. rewrite P2, P2', L1' in M.
      transitivity (fmx (kron2 (fmul P (fmul L U)) (fmul Ps (fmul Ls Us))) i j); [apply M; auto|].
      apply (kron2_ext (fmul P (fmul L U)) A (fmul Ps (fmul Ls Us)) (kronR As) a a N N); auto; cbn [fmul fr fc fmx]; try congruence.
      * rewrite P2, L2. exact F.
      * rewrite P2', L2'. exact F'. Qed.
End L.
