(* C13: theorems about the Arnoldi / GMRES model (C13_Model.v).
   - contract: the number of Arnoldi steps (= products with A, apart from the initial residual) is <= min(m, n);
   - exact arithmetic (any field with involution, weak inner-product laws, as in C12_Krylov.v): modified
     Gram-Schmidt orthogonality, one Arnoldi step preserves orthonormality and yields the Arnoldi relation;
   - least squares: a residual orthogonal to the span of the w_j = A q_j is minimal (normal equations characterise
     the minimiser), corollary residual <= ||r0||. *)
From Coq Require Import List Bool Arith Lia Ring Field.
From Core Require Import C12_Ops C12_Krylov C13_Model.
Import ListNotations.

(* ------------------------------------------------------------------ contract *)
Section Steps.
Context {T V : Type} (o : ops T) (vo : vops T V) (A : V -> V) (selfref zero_nan abs_clip : bool).

Lemma arnoldi_loop_steps tol cap : forall fuel s, snd (arnoldi_loop o vo A selfref abs_clip tol cap fuel s) <= snd s + fuel /\
  length (fst (arnoldi_loop o vo A selfref abs_clip tol cap fuel s)) = length (fst s).
Proof.
  induction fuel as [|f IH]; intros s; cbn [arnoldi_loop]; [split; [lia|reflexivity]|].
  destruct (arnoldi_cond o selfref tol cap s); [|split; [lia|reflexivity]].
  destruct (IH (arnoldi_body o vo A selfref abs_clip tol s)) as [H1 H2]. unfold arnoldi_body in *. cbn [fst snd] in *.
  rewrite map_length in H2. split; [lia|exact H2].
Qed.

(* the loop never takes a step from a state whose counter has reached the cap *)
Lemma arnoldi_loop_cap tol cap : forall fuel s, snd s <= cap -> snd (arnoldi_loop o vo A selfref abs_clip tol cap fuel s) <= cap.
Proof.
  induction fuel as [|f IH]; intros s Hs; cbn [arnoldi_loop]; [exact Hs|].
  destruct (arnoldi_cond o selfref tol cap s) eqn:C; [|exact Hs].
  apply IH. unfold arnoldi_cond in C. apply andb_prop in C. destruct C as [C _]. apply Nat.ltb_lt in C.
  unfold arnoldi_body. cbn [snd]. lia.
Qed.

Theorem arnoldi_steps_le tol m n rhs : snd (arnoldi_fact o vo A selfref zero_nan abs_clip tol m n rhs) <= Nat.min m n.
Proof. unfold arnoldi_fact. apply arnoldi_loop_cap. cbn [snd]. lia. Qed.

Theorem gmres_products solve flag pad_buf tol mfac m n bs x0s :
  gsteps (gmres_fwd o vo A solve flag pad_buf selfref zero_nan abs_clip tol mfac m n bs x0s) <= Nat.min m n.
Proof. unfold gmres_fwd. cbn [gsteps]. apply arnoldi_steps_le. Qed.
End Steps.

(* ------------------------------------------------------------------ exact arithmetic *)
Section Exact.
Context {T V : Type} (o : ops T) (vo : vops T V).
Notation "0" := (o0 o) : T_scope.
Notation "1" := (o1 o) : T_scope.
Notation "x + y" := (oadd o x y) : T_scope.
Notation "x * y" := (omul o x y) : T_scope.
Notation "x - y" := (osub o x y) : T_scope.
Notation "x / y" := (odiv o x y) : T_scope.
Notation "- x" := (oopp o x) : T_scope.
Notation conj := (oconj o).
Notation dot := (vdot vo).
Local Open Scope T_scope.

Hypothesis Fth : field_theory 0 1 (oadd o) (omul o) (osub o) (oopp o) (odiv o) (fun x => 1 / x) eq.
Add Field Tfield13 : Fth.
Hypothesis conj_add : forall a b, conj (a + b) = conj a + conj b.
Hypothesis conj_mul : forall a b, conj (a * b) = conj a * conj b.
Hypothesis conj_opp : forall a, conj (- a) = - conj a.
Hypothesis conj_div : forall a b, conj (a / b) = conj a / conj b.
Hypothesis dot_sub_r : forall u v w, dot u (vsub vo v w) = dot u v - dot u w.
Hypothesis dot_scale_r : forall u a v, dot u (vscale vo a v) = a * dot u v.
Hypothesis dot_divs_r : forall u v a, dot u (vdivs vo v a) = dot u v / a.
Hypothesis dot_sym : forall u v, dot u v = conj (dot v u).

Lemma conj_zero13 : conj 0 = 0.
Proof. assert (H : conj 0 + conj 0 = conj 0). { rewrite <- conj_add. f_equal. ring. }
  transitivity (conj 0 + conj 0 - conj 0); [ring|rewrite H; ring]. Qed.
Lemma conj_sub13 a b : conj (a - b) = conj a - conj b.
Proof. replace (a - b) with (a + - b) by ring. rewrite conj_add, conj_opp. ring. Qed.
Lemma dot_sub_l13 u v w : dot (vsub vo u v) w = dot u w - dot v w.
Proof. rewrite dot_sym, dot_sub_r, conj_sub13, <- !dot_sym. reflexivity. Qed.
Lemma dot_scale_l13 a u w : dot (vscale vo a u) w = conj a * dot u w.
Proof. rewrite dot_sym, dot_scale_r, conj_mul, <- dot_sym. reflexivity. Qed.
Lemma dot_divs_l13 a u w : dot (vdivs vo u a) w = dot u w / conj a.
Proof. rewrite dot_sym, dot_divs_r, conj_div, <- dot_sym. reflexivity. Qed.

Definition lsum (l : list T) : T := fold_right (fun x acc => x + acc) 0 l.
Lemma lsum_cons a l : lsum (a :: l) = a + lsum l. Proof. reflexivity. Qed.
Lemma lsum_nil : lsum [] = 0. Proof. reflexivity. Qed.
Definition zipw {X Y Z} (f : X -> Y -> Z) (a : list X) (b : list Y) : list Z := map (fun p => f (fst p) (snd p)) (combine a b).

Lemma combine_app_same {X Y} : forall (a a' : list X) (b b' : list Y), length a = length b ->
  combine (a ++ a') (b ++ b') = combine a b ++ combine a' b'.
Proof. induction a as [|x a IH]; intros a' [|y b] b' H; try discriminate; [reflexivity|]. cbn. f_equal. apply IH. cbn in H. lia. Qed.

Definition orthonormal (qs : list V) : Prop := forall i j qi qj,
  nth_error qs i = Some qi -> nth_error qs j = Some qj -> dot qi qj = if Nat.eqb i j then 1 else 0.

(* ---- modified Gram-Schmidt: the loop of the code, its coefficients and its result ---- *)
Lemma mgs_spec : forall qs w hs w' hs', mgs vo qs w hs = (w', hs') ->
  exists hl, hs' = rev hl ++ hs /\ length hl = length qs /\
    forall u, dot u w' = dot u w - lsum (zipw (fun h q => h * dot u q) hl qs).
Proof.
  induction qs as [|q qs IH]; intros w hs w' hs' H; cbn [mgs] in H.
  - inversion H; subst. exists []. repeat split. intros u. unfold zipw. cbn [combine map]. rewrite lsum_nil. ring.
  - apply IH in H. destruct H as (hl & E & L & W). exists (dot q w :: hl). split; [|split].
    + rewrite E. cbn [rev]. rewrite <- app_assoc. reflexivity.
    + cbn [length]. lia.
    + intros u. rewrite W, dot_sub_r, dot_scale_r. unfold zipw. cbn [combine map fst snd]. rewrite lsum_cons. ring.
Qed.

Lemma mgs_orth_gen : forall qs done w w' hs hs', mgs vo qs w hs = (w', hs') ->
  orthonormal (done ++ qs) -> (forall u, In u done -> dot u w = 0) ->
  forall u, In u (done ++ qs) -> dot u w' = 0.
Proof.
  induction qs as [|q qs IH]; intros done w w' hs hs' H Hon Hdone u Hu; cbn [mgs] in H.
  - inversion H; subst. rewrite app_nil_r in Hu. auto.
  - replace (done ++ q :: qs) with ((done ++ [q]) ++ qs) in * by (rewrite <- app_assoc; reflexivity).
    apply (IH (done ++ [q]) _ _ _ _ H Hon); auto. intros u' Hu'. rewrite dot_sub_r, dot_scale_r.
    apply in_app_or in Hu' as [Hd|[<-|[]]].
    + rewrite (Hdone _ Hd). destruct (In_nth_error _ _ Hd) as [i Hi].
      assert (Li : i < length done) by (apply nth_error_Some; congruence).
      assert (E : dot u' q = 0).
      { rewrite (Hon i (length done) u' q).
        - destruct (Nat.eqb_spec i (length done)); [lia|reflexivity].
        - rewrite <- app_assoc, nth_error_app1 by assumption. exact Hi.
        - rewrite <- app_assoc, nth_error_app2, Nat.sub_diag by lia. reflexivity. }
      rewrite E. ring.
    + assert (E : dot q q = 1).
      { rewrite (Hon (length done) (length done) q q).
        - rewrite Nat.eqb_refl. reflexivity.
        - rewrite <- app_assoc, nth_error_app2, Nat.sub_diag by lia. reflexivity.
        - rewrite <- app_assoc, nth_error_app2, Nat.sub_diag by lia. reflexivity. }
      rewrite E. ring.
Qed.

Theorem mgs_orth qs w w' hs hs' : mgs vo qs w hs = (w', hs') -> orthonormal qs -> forall u, In u qs -> dot u w' = 0.
Proof. intros H Hon u Hu. apply (mgs_orth_gen qs [] w w' hs hs' H); cbn [app]; auto. intros ? []. Qed.

(* ---- one Arnoldi step ---- *)
Variable A : V -> V.
Hypothesis nrm_sq : forall v, vnrm o vo v * vnrm o vo v = dot v v.     (* sqrt(x)^2 = x on the values <v,v> *)
Hypothesis nrm_real : forall v, conj (vnrm o vo v) = vnrm o vo v.

(* If the basis is orthonormal, the new vector is normalised by its own norm (not clipped / zeroed: norm above tol/2)
   and non-zero, then
   the extended basis is orthonormal and the new column of H satisfies the Arnoldi relation
      A q_idx = sum_{i <= idx+1} H[i, idx] q_i      (weakly: tested against every u). *)
Theorem arnoldi_step_spec selfref abs_clip tol (c : acol (T:=T) (V:=V)) :
  orthonormal (aqs c) ->
  let c' := arnoldi_step o vo A selfref abs_clip tol c in
  forall w hs, mgs vo (aqs c) (A (alast c)) [] = (w, hs) ->
  next_q o vo selfref (step_thr o abs_clip tol (ahs c ++ [rev hs ++ [vnrm o vo w]])) w (vnrm o vo w) = vdivs vo w (vnrm o vo w) -> vnrm o vo w <> 0 ->
  orthonormal (aqs c') /\
  exists hcol, ahs c' = ahs c ++ [hcol] /\ length hcol = S (length (aqs c)) /\ aqs c' = aqs c ++ [alast c'] /\
    forall u, dot u (A (alast c)) = lsum (zipw (fun h q => h * dot u q) hcol (aqs c')).
Proof.
  intros Hon c' w hs Hm Hclip Hnz. unfold c', arnoldi_step. rewrite Hm. cbn [aqs ahs alast]. rewrite Hclip.
  set (nrm := vnrm o vo w) in *. set (qn := vdivs vo w nrm).
  destruct (mgs_spec _ _ _ _ _ Hm) as (hl & E & L & W). rewrite app_nil_r in E. subst hs. rewrite rev_involutive.
  pose proof (mgs_orth _ _ _ _ _ Hm Hon) as Horth.
  assert (Hcn : conj nrm <> 0). { unfold nrm. rewrite nrm_real. exact Hnz. }
  split.
  - (* orthonormality of aqs c ++ [qn] *)
    intros i j qi qj Hi Hj.
    assert (Hlen : forall k q, nth_error (aqs c ++ [qn]) k = Some q -> (k < length (aqs c) /\ nth_error (aqs c) k = Some q) \/ (k = length (aqs c) /\ q = qn)).
    { intros k q Hk. destruct (Nat.lt_ge_cases k (length (aqs c))) as [Hlt|Hge].
      - left. split; [assumption|]. rewrite nth_error_app1 in Hk by assumption. exact Hk.
      - right. rewrite nth_error_app2 in Hk by assumption. destruct (k - length (aqs c))%nat as [|d] eqn:Ed.
        + cbn in Hk. inversion Hk. split; [lia|reflexivity].
        + cbn in Hk. destruct d; discriminate. }
    destruct (Hlen i qi Hi) as [[Li Ei]|[Li Ei]], (Hlen j qj Hj) as [[Lj Ej]|[Lj Ej]].
    + apply (Hon i j); assumption.
    + subst qj. unfold qn. rewrite dot_divs_r, (Horth qi (nth_error_In _ _ Ei)).
      destruct (Nat.eqb_spec i j); [lia|]. field. exact Hnz.
    + subst qi. unfold qn. rewrite dot_divs_l13. rewrite dot_sym, (Horth qj (nth_error_In _ _ Ej)), conj_zero13.
      destruct (Nat.eqb_spec i j); [lia|]. field. exact Hcn.
    + subst qi qj. destruct (Nat.eqb_spec i j); [|lia]. unfold qn. rewrite dot_divs_r, dot_divs_l13.
      replace (conj nrm) with nrm by (symmetry; apply nrm_real). rewrite <- (nrm_sq w). fold nrm. field. exact Hnz.
  - exists (hl ++ [nrm]). split; [reflexivity|]. split; [rewrite app_length; cbn [length]; lia|]. split; [reflexivity|].
    intros u. unfold zipw. rewrite combine_app_same by exact L.
    rewrite map_app. cbn [combine map fst snd].
    assert (Hsum : forall l1 l2, lsum (l1 ++ l2) = lsum l1 + lsum l2).
    { induction l1 as [|a l1 IH]; intros l2; cbn [app]; [rewrite lsum_nil; ring|]. rewrite !lsum_cons, IH. ring. }
    rewrite Hsum, lsum_cons, lsum_nil.
    assert (Hq : nrm * dot u qn = dot u w). { unfold qn. rewrite dot_divs_r. field. exact Hnz. }
    rewrite Hq, W. unfold zipw. ring.
Qed.

(* ---- least squares: a residual orthogonal to span{w_j} is minimal ---- *)
(* r0 - sum_j y_j w_j, built with the vector operations (no zero vector needed) *)
Definition lsq_res (ws : list V) (y : list T) (r0 : V) : V :=
  fold_left (fun acc yw => vsub vo acc (vscale vo (fst yw) (snd yw))) (combine y ws) r0.
Lemma lsq_res_dot : forall ws y r0 u, dot u (lsq_res ws y r0) = dot u r0 - lsum (zipw (fun yj wj => yj * dot u wj) y ws).
Proof.
  intros ws y. unfold lsq_res, zipw. generalize (combine y ws) as l. induction l as [|[yj wj] l IH]; intros r0 u.
  - cbn [fold_left map]. rewrite lsum_nil. ring.
  - cbn [fold_left map fst snd]. rewrite lsum_cons, IH, dot_sub_r, dot_scale_r. ring.
Qed.
Lemma lsum_zero : forall l, (forall x, In x l -> x = 0) -> lsum l = 0.
Proof. induction l as [|a l IH]; intros H; [reflexivity|]. rewrite lsum_cons.
  rewrite (H a (or_introl eq_refl)), IH by (intros; apply H; right; assumption). ring. Qed.

(* [Pos] is any predicate on scalars (read "is a non-negative real") holding for every <v,v>.  If the residual
   rho = r0 - sum y_j w_j is orthogonal to every w_j - the normal equations - then no other coefficient vector
   gives a smaller squared residual norm. *)
Theorem gmres_minimal (Pos : T -> Prop) : (forall v, Pos (dot v v)) ->
  forall ws y r0, (forall w, In w ws -> dot w (lsq_res ws y r0) = 0) ->
  forall y', Pos (dot (lsq_res ws y' r0) (lsq_res ws y' r0) - dot (lsq_res ws y r0) (lsq_res ws y r0)).
Proof.
  intros HP ws y r0 Hne y'. set (rho := lsq_res ws y r0). set (rho' := lsq_res ws y' r0).
  set (dl := vsub vo rho rho').
  (* rho is orthogonal to both residuals' difference *)
  assert (Hspan : forall yy, dot rho (lsq_res ws yy r0) = dot rho r0).
  { intros yy. rewrite lsq_res_dot. rewrite lsum_zero; [ring|].
    intros x Hx. unfold zipw in Hx. apply in_map_iff in Hx. destruct Hx as [[yj wj] [Ex Hin]]. cbn [fst snd] in Ex. subst x.
    apply in_combine_r in Hin. rewrite (dot_sym rho wj). unfold rho. rewrite (Hne wj Hin), conj_zero13. ring. }
  assert (O1 : dot rho dl = 0). { unfold dl. rewrite dot_sub_r. unfold rho' at 1. unfold rho at 2. rewrite (Hspan y), (Hspan y'). ring. }
  assert (O2 : dot dl rho = 0). { rewrite dot_sym, O1. apply conj_zero13. }
  assert (E : dot rho' rho' = dot rho rho + dot dl dl).
  { assert (R1 : forall u, dot u rho' = dot u rho - dot u dl). { intros u. unfold dl. rewrite dot_sub_r. ring. }
    assert (L1 : forall u, dot rho' u = dot rho u - dot dl u). { intros u. unfold dl. rewrite dot_sub_l13. ring. }
    rewrite R1, !L1, O1, O2. ring. }
  rewrite E. replace (dot rho rho + dot dl dl - dot rho rho) with (dot dl dl) by ring. apply HP.
Qed.

(* the residual of the least-squares iterate does not exceed the initial residual *)
Corollary gmres_residual_le_r0 (Pos : T -> Prop) : (forall v, Pos (dot v v)) ->
  forall ws y r0, (forall w, In w ws -> dot w (lsq_res ws y r0) = 0) ->
  Pos (dot r0 r0 - dot (lsq_res ws y r0) (lsq_res ws y r0)).
Proof. intros HP ws y r0 Hne. exact (gmres_minimal Pos HP ws y r0 Hne []). Qed.
End Exact.
