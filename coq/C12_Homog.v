(* C12, stage A: homogeneity of CG in the right-hand side for a zero initial guess,  cg(alpha * B) = alpha * cg(B),
   for every non-zero scalar alpha (real or complex), together with the invariance of the step count and of the
   reported residual history.  The code normalises every column by its norm, so scaling b by alpha multiplies the
   normalised column by the unit phase u = alpha/|alpha| and the multiplier by |alpha|; the whole loop is covariant
   under a unit phase.  Scalars: a field with involution; vectors: EXACT module laws here (equalities between
   vectors), which the list instance satisfies over any commutative field. *)
From Coq Require Import List Bool Arith Lia Ring Field.
From Core Require Import C12_Ops C12_Model C12_Contract C12_Krylov.
Import ListNotations.

(* ---- a loop run from an image state: simulation lemma for the instrumented while loop ---- *)
Section Sim.
Context {T St : Type}.
Variables (cond : St -> bool) (body : St -> St) (err : St -> T) (F : St -> St).
Hypothesis Hc : forall s, cond (F s) = cond s.
Hypothesis He : forall s, err (F s) = err s.
Hypothesis Hb : forall s, body (F s) = F (body s).
Lemma wloop_sim : forall fuel s its errs nb,
  wloop cond body err fuel (F s) its errs nb =
  (let '(out, i, e, n) := wloop cond body err fuel s its errs nb in (F out, i, e, n)).
Proof.
  induction fuel as [|f IH]; intros s its errs nb; cbn [wloop]; rewrite He.
  - reflexivity.
  - rewrite Hc. destruct (cond s); [|reflexivity]. rewrite Hb. apply IH.
Qed.
Lemma while_winfo_sim fuel s :
  while_winfo cond body err fuel (F s) =
  (let '(out, i, e, n) := while_winfo cond body err fuel s in (F out, i, e, n)).
Proof.
  unfold while_winfo. rewrite wloop_sim.
  destruct (wloop cond body err fuel s 0 [] 0) as [[[out i] e] n]. rewrite He. reflexivity.
Qed.
End Sim.

Section Homog.
Context {T V : Type} (o : ops T) (vo : vops T V).
Notation "0" := (o0 o) : T_scope.
Notation "1" := (o1 o) : T_scope.
Notation "x + y" := (oadd o x y) : T_scope.
Notation "x * y" := (omul o x y) : T_scope.
Notation "x - y" := (osub o x y) : T_scope.
Notation "x / y" := (odiv o x y) : T_scope.
Notation "- x" := (oopp o x) : T_scope.
Notation conj := (oconj o).
Notation dot := (vdot vo).
Local Open Scope T_scope.
Hypothesis Fth : field_theory 0 1 (oadd o) (omul o) (osub o) (oopp o) (odiv o) (fun x => 1 / x) eq.
Add Field Tfieldh : Fth.
Variables (A P : V -> V).
(* exact module laws *)
Hypothesis E_add : forall u a b, vscale vo u (vadd vo a b) = vadd vo (vscale vo u a) (vscale vo u b).
Hypothesis E_sub : forall u a b, vscale vo u (vsub vo a b) = vsub vo (vscale vo u a) (vscale vo u b).
Hypothesis E_assoc : forall a b v, vscale vo a (vscale vo b v) = vscale vo (a * b) v.
Hypothesis E_div : forall v c, vdivs vo v c = vscale vo (1 / c) v.
Hypothesis E_A : forall u v, A (vscale vo u v) = vscale vo u (A v).
Hypothesis E_P : forall u v, P (vscale vo u v) = vscale vo u (P v).
Hypothesis E_dot : forall u a b, dot (vscale vo u a) (vscale vo u b) = (conj u * u) * dot a b.

Lemma E_comm u a v : vscale vo u (vscale vo a v) = vscale vo a (vscale vo u v).
Proof. rewrite !E_assoc. f_equal. ring. Qed.

Variable u : T.
Hypothesis Hu : conj u * u = 1.

Lemma dot_phase a b : dot (vscale vo u a) (vscale vo u b) = dot a b.
Proof. rewrite E_dot, Hu. ring. Qed.
Lemma vnorm_phase v : vnorm o vo (vscale vo u v) = vnorm o vo v.
Proof. unfold vnorm. rewrite dot_phase. reflexivity. Qed.

(* the column state with all vectors multiplied by the unit phase u and the multiplier by a *)
Definition scol (a : T) (c : col (T:=T) (V:=V)) : col :=
  {| cx := vscale vo u (cx c); cr := vscale vo u (cr c); cp := vscale vo u (cp c); cgam := cgam c; ctol := ctol c;
     cmult := a * cmult c |}.

Lemma step_scol a c : step_col o vo A P (scol a c) = scol a (step_col o vo A P c).
Proof.
  unfold step_col, scol. cbn [cx cr cp cgam ctol cmult].
  rewrite vnorm_phase, E_A, dot_phase.
  set (conv := oltb o (vnorm o vo (cr c)) (osmall o)).
  set (alpha := if conv then 0 else safe_div o (cgam c) (dot (cp c) (A (cp c)))).
  rewrite (E_comm alpha u (cp c)), (E_comm alpha u (A (cp c))), <- E_add, <- E_sub, E_P, dot_phase.
  set (r1 := vsub vo (cr c) (vscale vo alpha (A (cp c)))).
  set (beta := if conv then 0 else safe_div o (dot r1 (P r1)) (cgam c)).
  rewrite (E_comm beta u (cp c)), <- E_add. reflexivity.
Qed.
Lemma unconverged_scol a c : unconverged o vo (scol a c) = unconverged o vo c.
Proof. unfold unconverged, scol. cbn [cr ctol]. rewrite vnorm_phase. reflexivity. Qed.

Definition Fst (a : T) (s : st (T:=T) (V:=V)) : st := (map (scol a) (fst s), snd s).
Lemma cond_F a mx s : cg_cond o vo mx (Fst a s) = cg_cond o vo mx s.
Proof. unfold cg_cond, Fst. cbn [fst snd]. f_equal. induction (fst s) as [|c l IH]; [reflexivity|]. cbn [map existsb]. rewrite unconverged_scol, IH. reflexivity. Qed.
Lemma body_F a s : cg_body o vo A P (Fst a s) = Fst a (cg_body o vo A P s).
Proof. unfold cg_body, Fst. cbn [fst snd]. f_equal. rewrite !map_map. apply map_ext. intros c. apply step_scol. Qed.
Lemma track_F a s : track_res o vo (Fst a s) = track_res o vo s.
Proof. unfold track_res, Fst. cbn [fst]. rewrite map_length, map_map. f_equal. f_equal. apply map_ext. intros c. unfold scol. cbn [cr]. apply vnorm_phase. Qed.

(* ---- the initial states ---- *)
Variables (alpha a : T).
Hypothesis Ha : a <> 0.
Hypothesis Hua : u = alpha / a.
Variables (flag : bool) (tol : T).

(* b is scaled by alpha; x0 behaves like the zero vector under scaling and division *)
Definition good_col (b x0 : V) : Prop :=
  vnorm o vo (vscale vo alpha b) = a * vnorm o vo b /\ vnorm o vo b <> 0 /\
  safe_den o (vnorm o vo b) = vnorm o vo b /\ safe_den o (a * vnorm o vo b) = a * vnorm o vo b /\
  (forall c, vscale vo c x0 = x0).

Lemma mul_nz x y : x <> 0 -> y <> 0 -> x * y <> 0.
Proof. intros Hx Hy H. apply Hy. replace y with ((x * y) / x) by (field; assumption). rewrite H. field. assumption. Qed.

Lemma init_scaled b x0 : good_col b x0 ->
  init_col o vo A P flag tol (vscale vo alpha b) x0 = scol a (init_col o vo A P flag tol b x0).
Proof.
  intros (Hn & Hm & Hg1 & Hg2 & Hz). unfold init_col, scol, safe_vdiv. cbn [cx cr cp cgam ctol cmult].
  rewrite Hn, Hg1, Hg2. set (m := vnorm o vo b) in *.
  assert (Hx0 : (if flag then x0 else vdivs vo x0 (a * m)) = (if flag then x0 else vdivs vo x0 m)).
  { destruct flag; [reflexivity|]. rewrite !E_div, !Hz. reflexivity. }
  rewrite Hx0. set (x0' := if flag then x0 else vdivs vo x0 m).
  assert (Hzx : forall c, vscale vo c x0' = x0'). { intros c. unfold x0'. destruct flag; [apply Hz|]. rewrite E_div, Hz. apply Hz. }
  assert (Hbn : vdivs vo (vscale vo alpha b) (a * m) = vscale vo u (vdivs vo b m)).
  { rewrite !E_div, !E_assoc. f_equal. rewrite Hua. field. repeat split; try assumption; try (apply mul_nz; assumption). }
  rewrite Hbn.
  assert (Hr : vsub vo (vscale vo u (vdivs vo b m)) (A x0') = vscale vo u (vsub vo (vdivs vo b m) (A x0'))).
  { rewrite E_sub. f_equal. rewrite <- E_A, Hzx. reflexivity. }
  rewrite Hr, E_P, dot_phase, vnorm_phase. rewrite (Hzx u). reflexivity.
Qed.

Variables (max_iters : nat) (bs x0s : list V).
Hypothesis Hgood : forall b x0, In (b, x0) (combine bs x0s) -> good_col b x0.

Lemma init_states_scaled :
  cg_init o vo A P flag tol (map (vscale vo alpha) bs) x0s = Fst a (cg_init o vo A P flag tol bs x0s).
Proof.
  unfold cg_init, Fst. cbn [fst snd]. f_equal. revert x0s Hgood. induction bs as [|b bs' IH]; intros xs Hg; [reflexivity|].
  destruct xs as [|x0 xs]; [reflexivity|]. cbn [map combine fst snd]. f_equal.
  - apply init_scaled. apply Hg. left. reflexivity.
  - apply IH. intros b' x' Hin. apply Hg. right. exact Hin.
Qed.

(* Homogeneity: scaling every right-hand side by alpha scales every returned column by alpha and changes neither
   the number of steps nor the reported iteration count and residual history. *)
Theorem cg_homogeneous :
  let r := run_cg o vo A P flag tol max_iters bs x0s in
  let r' := run_cg o vo A P flag tol max_iters (map (vscale vo alpha) bs) x0s in
  sol r' = map (vscale vo alpha) (sol r) /\ steps r' = steps r /\ iterations r' = iterations r /\ errors r' = errors r.
Proof.
  cbv zeta. unfold run_cg. fold (cg_init o vo A P flag tol bs x0s). fold (cg_init o vo A P flag tol (map (vscale vo alpha) bs) x0s).
  rewrite init_states_scaled.
  rewrite (while_winfo_sim (cg_cond o vo max_iters) (cg_body o vo A P) (track_res o vo) (Fst a) (cond_F a max_iters) (track_F a) (body_F a)).
  destruct (while_winfo (cg_cond o vo max_iters) (cg_body o vo A P) (track_res o vo) max_iters (cg_init o vo A P flag tol bs x0s)) as [[[out its] errs] nb].
  cbn [sol steps iterations errors]. split; [|repeat split].
  unfold Fst. cbn [fst]. rewrite !map_map. apply map_ext. intros c. unfold scol. cbn [cx cmult].
  rewrite !E_assoc. f_equal. rewrite Hua. field. assumption.
Qed.
End Homog.
