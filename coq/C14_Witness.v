(* C14 - refutation witnesses: the faithful model, run on binary64 (PrimFloat), violates the property on these inputs.
   Each witness is replayed on the implementation by the probes of harness/props/c14.py. *)
From Coq Require Import List PrimFloat Bool.
From Core Require Import C14_Model C14_Float.
Import ListNotations. Open Scope float_scope.

Definition fr (x : float) : cf := (x, 0).
Definition tol7 : cf := (0x1.ad7f29abcaf48p-24, 0).   (* 1e-7 *)
Definition I3 : list cvec := [[fr 1; fr 0; fr 0]; [fr 0; fr 1; fr 0]; [fr 0; fr 0; fr 1]].
Definition ones3 : cvec := [fr 1; fr 1; fr 1].

(* flag lanczos_alias_identity: the product of Identity returns its argument; from the second iteration on the in-place
   updates of the product result overwrite basis column i.  The second returned column has norm ~1e-47 instead of 1. *)
Definition alias_bad (al : bool) : bool :=
  let r := lanczos1 (fops 3) (fmv I3) al false 3 ones3 3 tol7 in
  Nat.eqb (length (rQ r)) 3 && (fst (fvdot (nth 1 (rQ r) []) (nth 1 (rQ r) [])) <? 0x1p-1).
Theorem lanczos_alias_refuted : alias_bad true = true /\ alias_bad false = false.
Proof. split; vm_compute; reflexivity. Qed.

(* flag lanczos_reltol_first_step: v is an eigenvector of S3 up to rounding (|S3 v - lam v| <= 1e-15 entrywise), so the Krylov
   space is exhausted at the first step; the test at i = 2 compares beta_1 with tol*beta_1 and the loop goes on: 3 columns,
   and beta_1 ~ 5e-16 has been normalised into a basis column. *)
Definition S3 : list cvec := [[fr 2; fr 1; fr 0]; [fr 1; fr 3; fr 1]; [fr 0; fr 1; fr 4]].
Definition ev3 : cvec := [fr 0x1.93cd3a2c8198ep-1; fr (-0x1.279a74590331ap-1); fr 0x1.b0cb174df99c4p-3].
Definition lam3 : cf := fr 0x1.4498517a7b356p+0.
Definition reltol_bad_at (rfix : bool) : bool :=
  let r := lanczos1 (fops 3) (fmv S3) false rfix 3 ev3 3 tol7 in
  (vdiff (fmv S3 ev3) (fvscale lam3 ev3) <=? 0x1.203af9ee75616p-50)      (* 1e-15 *)
  && Nat.eqb (length (rQ r)) 3
  && (fst (nth 0 (roff r) f0) <? 0x1.203af9ee75616p-50).
Definition reltol_bad : bool := reltol_bad_at false.
Theorem lanczos_reltol_first_step_refuted : reltol_bad = true.
Proof. vm_compute. reflexivity. Qed.
(* the repaired stopping test (reference ||A q_1|| instead of beta_1) stops after the first column on the same input *)
Theorem lanczos_reltol_first_step_repaired :
  length (rQ (lanczos1 (fops 3) (fmv S3) false true 3 ev3 3 tol7)) = 1%nat.
Proof. vm_compute. reflexivity. Qed.

(* flag lanczos_batch_shared_stop: element 1 of the batch lies in a 2-dimensional invariant subspace; alone it stops after
   2 columns, in a batch with a generic vector it is iterated to 4 columns through beta_2 ~ 1e-16. *)
Definition S5 : list cvec :=
  [[fr 1; fr 0x1p-1; fr 0; fr 0; fr 0]; [fr 0x1p-1; fr 2; fr 0x1p-1; fr 0; fr 0]; [fr 0; fr 0x1p-1; fr 3; fr 0x1p-1; fr 0];
   [fr 0; fr 0; fr 0x1p-1; fr 4; fr 0x1p-1]; [fr 0; fr 0; fr 0; fr 0x1p-1; fr 5]].
Definition g5 : cvec := [fr 1; fr (-1); fr 2; fr 0x1p-1; fr 0x1.8p+0].
Definition u01 : cvec := [fr 0x1.500b868ffb207p+0; fr 0x1.87ae4e8245e1ap-2; fr (-0x1.6374d6a216aabp-2); fr 0x1.953aeffe06554p-4; fr (-0x1.17a85dc5f057ap-6)].
Definition batch_bad : bool :=
  let alone := lanczos_batch (fops 5) (fmv S5) false false 5 [u01] 4 tol7 in
  let both := lanczos_batch (fops 5) (fmv S5) false false 5 [g5; u01] 4 tol7 in
  Nat.eqb (fst alone) 2 && Nat.eqb (fst both) 4
  && (fst (nth 1 (roff (nth 1 (snd both) (mk_lres [] [] []))) f1) <? 0x1.19799812dea11p-40).   (* beta_2 < 1e-12 *)
Theorem lanczos_batch_shared_stop_refuted : batch_bad = true.
Proof. vm_compute. reflexivity. Qed.

(* flag lanczos_start_dtype_cast (and arnoldi_start_dtype_cast): the basis buffer is allocated in the operator's dtype, so a complex
   start vector on a real operator is stored without its imaginary part; the run is then that of Re(v): its first column is far from
   v/||v||.  (The cast happens when the buffer is filled, outside the algorithm proper: the model below is the same model applied to
   the cast vector.) *)
Definition cast_real (v : cvec) : cvec := map (fun z => (fst z, 0)) v.
Definition vcplx : cvec := [(1, 2); (2, -1); (0, 3)].
Definition first_col_err (q : cvec) (v : cvec) : float := vdiff q (fvdiv v (fvnrm v)).
Definition start_cast_bad (cast : bool) : bool :=
  let v := if cast then cast_real vcplx else vcplx in
  let r := lanczos1 (fops 3) (fmv S3) false true 3 v 2 tol7 in
  0x1p-2 <? first_col_err (nth 0 (rQ r) []) vcplx.
Theorem lanczos_start_dtype_cast_refuted : start_cast_bad true = true /\ start_cast_bad false = false.
Proof. split; vm_compute; reflexivity. Qed.
