From Coq Require Import ZArith List Lia Bool.
Import ListNotations.
Open Scope Z_scope.
Record pslice := mkslice { pstart : option Z; pstop : option Z; pstep : option Z }.
(* CPython PySlice_Unpack + PySlice_AdjustIndices, on unbounded Z *)
Definition clamp_start (step n : Z) (o : option Z) : Z :=
  match o with
  | None => if step <? 0 then n - 1 else 0
  | Some s => let s := if s <? 0 then s + n else s in
              if s <? 0 then (if step <? 0 then -1 else 0)
              else if n <=? s then (if step <? 0 then n - 1 else n) else s
  end.
Definition clamp_stop (step n : Z) (o : option Z) : Z :=
  match o with
  | None => if step <? 0 then -1 else n
  | Some s => let s := if s <? 0 then s + n else s in
              if s <? 0 then (if step <? 0 then -1 else 0)
              else if n <=? s then (if step <? 0 then n - 1 else n) else s
  end.
Definition slice_len (start stop step : Z) : Z :=
  if step <? 0 then (if stop <? start then (start - stop - 1) / (- step) + 1 else 0)
  else (if start <? stop then (stop - start - 1) / step + 1 else 0).
Definition adjust (s : pslice) (n : Z) : option (Z * Z * Z) :=
  let step := match pstep s with None => 1 | Some k => k end in
  if step =? 0 then None
  else Some (clamp_start step n (pstart s), clamp_stop step n (pstop s), step).
Definition indices (s : pslice) (n : nat) : option (list nat) :=
  match adjust s (Z.of_nat n) with
  | None => None
  | Some (start, stop, step) =>
      let len := Z.to_nat (slice_len start stop step) in
      Some (map (fun i => Z.to_nat (start + Z.of_nat i * step)) (seq 0 len))
  end.
(* every produced index is in range *)
Lemma slice_len_nonneg a b c : c <> 0 -> 0 <= slice_len a b c.
Proof. intros Hc. unfold slice_len. destruct (c <? 0) eqn:E.
  - apply Z.ltb_lt in E. destruct (b <? a) eqn:E2; [|lia]. apply Z.ltb_lt in E2.
    assert (0 <= (a - b - 1) / (- c)) by (apply Z.div_pos; lia). lia.
  - apply Z.ltb_ge in E. destruct (a <? b) eqn:E2; [|lia]. apply Z.ltb_lt in E2.
    assert (0 <= (b - a - 1) / c) by (apply Z.div_pos; lia). lia. Qed.
Theorem indices_in_range s n l : indices s n = Some l -> forall x, In x l -> (x < n)%nat.
Proof.
  unfold indices, adjust. set (step := match pstep s with None => 1 | Some k => k end).
  destruct (step =? 0) eqn:E0; [discriminate|]. apply Z.eqb_neq in E0.
  set (N := Z.of_nat n). set (a := clamp_start step N (pstart s)). set (b := clamp_stop step N (pstop s)).
  intros H; injection H as <-. intros x Hx. apply in_map_iff in Hx as (i & <- & Hi). apply in_seq in Hi.
  assert (Hlen : Z.of_nat i < slice_len a b step) by (pose proof (slice_len_nonneg a b step E0); lia).
  assert (Ha : -1 <= a <= N /\ (0 < step -> 0 <= a) /\ (step < 0 -> a <= N - 1)).
  { unfold a, clamp_start. destruct (pstart s) as [z|]; repeat (match goal with |- context [if ?c then _ else _] => destruct c eqn:? end); lia. }
  assert (Hb : -1 <= b <= N) by (unfold b, clamp_stop; destruct (pstop s) as [z|]; repeat (match goal with |- context [if ?c then _ else _] => destruct c eqn:? end); lia).
  unfold slice_len in Hlen. destruct (step <? 0) eqn:Es.
  - apply Z.ltb_lt in Es. destruct (b <? a) eqn:Eba; [|lia]. apply Z.ltb_lt in Eba.
    assert (Z.of_nat i * (- step) <= a - b - 1).
    { assert (Z.of_nat i <= (a - b - 1) / (- step)) by lia.
      transitivity (((a - b - 1) / (- step)) * (- step)); [nia|]. rewrite Z.mul_comm. apply Z.mul_div_le; lia. }
    apply Nat2Z.inj_lt. rewrite Z2Nat.id by nia. fold N. nia.
  - apply Z.ltb_ge in Es. destruct (a <? b) eqn:Eab; [|lia]. apply Z.ltb_lt in Eab.
    assert (Z.of_nat i * step <= b - a - 1).
    { assert (Z.of_nat i <= (b - a - 1) / step) by lia.
      transitivity (((b - a - 1) / step) * step); [nia|]. rewrite Z.mul_comm. apply Z.mul_div_le; lia. }
    apply Nat2Z.inj_lt. rewrite Z2Nat.id by nia. fold N. nia.
Qed.
Print Assumptions indices_in_range.
