(* C04: theorems about the REGENERATED rule table (C04_RuleTable.v, written by harness/translate_c04_rules.py from the
   live plum registry).  Everything here is re-checked by `make` whenever the table changes.
   Bound of the finite sweeps: the lattice is `calls fs` for the 23 dispatched functions of `specs_full` --
   every operator kind of the live tree (33 classes incl. internal ones) x 5 declared-annotation variants
   (+ the all-factors-square bit for Product) x every admissible algorithm class x every syntactic way of passing the
   optional arguments (positional / keyword / omitted); about 1.6e5 calls, enumerated completely. *)
From Coq Require Import List ZArith NArith PArith Bool String.
From Core Require Import C04_Resolver C04_RuleTable.
Import ListNotations.

(* the admissible lattice of one function, as a predicate (Appendix B of DESIGN.md, data in the generated table) *)
Definition admissible (fs : fspec) (req : list positive) (opt : list aform) : Prop :=
  Forall2 (fun a c => In a c) req (freq fs) /\ form_ok opt (fopt fs).

Definition dispatched (fs : fspec) (req : list positive) (opt : list aform) : list positive :=
  dargs (fabs fs) req opt.

Definition select (fs : fspec) (req : list positive) (opt : list aform) : verdict :=
  resolve le_row bear_row (frules fs) (dispatched fs req opt).

Definition is_known (kd : fkind) (fs : fspec) (req : list positive) (opt : list aform) : Prop :=
  covered known kd (fname fs) (map rep_class (dispatched fs req opt)) = true.

(* full statement of the property on the model: no exception list *)
Definition C04_full : Prop :=
  forall fs, In fs specs_full -> forall req opt, admissible fs req opt -> exists i, select fs req opt = Unique i.

Lemma sweep_all_full : forallb (sweep le_row bear_row rep_class known) specs_full = true.
Proof. vm_compute. reflexivity. Qed.

(* total and unambiguous on the whole lattice, up to the committed exception list *)
Theorem total_unambiguous_modulo_known :
  forall fs, In fs specs_full -> forall req opt, admissible fs req opt ->
    (exists i, select fs req opt = Unique i)
    \/ (select fs req opt = Ambiguous /\ is_known KAmbiguous fs req opt)
    \/ (select fs req opt = NotFound /\ is_known KNotFound fs req opt).
Proof.
  intros fs Hfs req opt (Hr & Ho).
  pose proof sweep_all_full as H. rewrite forallb_forall in H.
  exact (sweep_sound le_row bear_row rep_class known fs (H fs Hfs) req opt Hr Ho).
Qed.

(* no ties for ANY algorithm object: every Algorithm subclass of the live package (enumerated by the translator, not
   from a hand-written list) in every algorithm position of every function -- an algorithm outside the documented set may find no
   rule (NotFound) or reach a rule that raises, but two rules never tie *)
Lemma sweep_noties_ext : forallb (sweep_noties le_row bear_row rep_class known) specs_ext = true.
Proof. vm_compute. reflexivity. Qed.

Theorem no_ties_any_algorithm :
  forall fs, In fs specs_ext -> forall req opt, admissible fs req opt ->
    select fs req opt = Ambiguous -> is_known KAmbiguous fs req opt.
Proof.
  intros fs Hfs req opt (Hr & Ho) E.
  pose proof sweep_noties_ext as H. rewrite forallb_forall in H.
  exact (sweep_noties_sound le_row bear_row rep_class known fs (H fs Hfs) req opt Hr Ho E).
Qed.

(* the lattice that is swept is the complete product: membership in the enumerated list = admissibility *)
Theorem lattice_complete : forall fs req opt, In (req, opt) (calls fs) <-> admissible fs req opt.
Proof. intros. apply in_calls. Qed.

(* plum's default-argument expansion (append_default_args), as modelled by `expand`, reproduces the live method list
   of every function from its registrations *)
Theorem default_expansion_agrees : map (fun p => expand (fst p)) raw_tables = map snd raw_tables.
Proof. vm_compute. reflexivity. Qed.

(* whatever is selected applies: Unique i names a registered signature that accepts the dispatched arguments
   (arity, isinstance on every position, condition) *)
Theorem selected_rule_applies : forall fs req opt i, select fs req opt = Unique i ->
  exists r, nth_error (frules fs) i = Some r /\ matches bear_row (dispatched fs req opt) (i, r) = true.
Proof. intros fs req opt i H. exact (resolve_unique_matches le_row bear_row _ _ i H). Qed.

Theorem notfound_means_no_rule : forall fs req opt, select fs req opt = NotFound ->
  forall i r, nth_error (frules fs) i = Some r -> matches bear_row (dispatched fs req opt) (i, r) = false.
Proof. intros fs req opt H. exact (resolve_notfound le_row bear_row _ _ H). Qed.

(* the verdict depends on an argument only through its isinstance row and the condition bits *)
Theorem verdict_depends_on_rows_only : forall rules args args',
  map bear_row args = map bear_row args' ->
  (forall r, In r rules -> cond_holds (rcond r) args = cond_holds (rcond r) args') ->
  resolve le_row bear_row rules args = resolve le_row bear_row rules args'.
Proof. intros. now apply resolve_congr. Qed.

(* the reduced lattice (annotation variants only for functions with a conditional rule) is what the quick
   correspondence tier enumerates; it satisfies the same statement *)
Lemma sweep_all_red : forallb (sweep le_row bear_row rep_class known) specs_red = true.
Proof. vm_compute. reflexivity. Qed.

(* second level (closure under the rules' own dispatched calls): every instance of every call template of the
   hand-written call graph is an admissible call of the callee's lattice -- hence selects a unique rule or is a
   committed exception *)
Lemma templates_closed : forallb (tmpl_ok specs_full) templates = true.
Proof. vm_compute. reflexivity. Qed.

Theorem second_level_total : forall t, In t templates ->
  exists fs, In fs specs_full /\ fname fs = tcallee t /\
  forall req opt, In req (prod (treq t)) -> In opt (prod (topt t)) ->
    admissible fs req opt /\
    ((exists i, select fs req opt = Unique i)
     \/ (select fs req opt = Ambiguous /\ is_known KAmbiguous fs req opt)
     \/ (select fs req opt = NotFound /\ is_known KNotFound fs req opt)).
Proof.
  intros t Ht. pose proof templates_closed as H. rewrite forallb_forall in H.
  destruct (tmpl_ok_sound specs_full t (H t Ht)) as (fs & Hfs & Hn & Hadm).
  exists fs. split; [exact Hfs|]. split; [exact Hn|].
  intros req opt Hr Ho. pose proof (Hadm req opt Hr Ho) as Ha. split; [exact Ha|].
  exact (total_unambiguous_modulo_known fs Hfs req opt Ha).
Qed.

(* ------------------------------------------------------------------------------------------------------------
   Frozen witness of the defect mechanism on the pinned tree (hand-copied fragment, independent of the regenerated
   table, so it stays valid after a repair): the six `dot` rules of cola/fns.py:63-90.
   hints: 0 LinearOperator, 1 Product, 2 Any, 3 Identity;  reps: 1 Dense, 2 Identity, 3 Product. *)
Definition pin_le (a : N) : N := match a with 0 => 0x5 | 1 => 0x7 | 2 => 0x4 | 3 => 0xd | _ => 0 end%N.
Definition pin_bear (r : positive) : N :=
  match r with 1%positive => 0x5%N | 2%positive => 0xd%N | 3%positive => 0x7%N | _ => 0%N end.
Definition pin_dot : list rule :=
  [mkrule [0;0]%N 0 None 0; mkrule [1;0]%N 0 None 1; mkrule [0;1]%N 0 None 2; mkrule [1;1]%N 0 None 3;
   mkrule [2;3]%N 0 None 4; mkrule [3;2]%N 0 None 5]%N.
(* the repair sketched in DESIGN.md Appendix C: precedence 1 on the Identity rules + a rule for the pair *)
Definition pin_dot_fixed : list rule :=
  [mkrule [0;0]%N 0 None 0; mkrule [1;0]%N 0 None 1; mkrule [0;1]%N 0 None 2; mkrule [1;1]%N 0 None 3;
   mkrule [2;3]%N 1 None 4; mkrule [3;2]%N 1 None 5; mkrule [3;3]%N 2 None 6]%N.

Theorem pinned_dot_identity_refuted :
  exists args, Forall (fun r => In r [1;2;3]%positive) args /\ resolve pin_le pin_bear pin_dot args = Ambiguous.
Proof. exists [1;2]%positive. split; [repeat constructor; cbn; tauto | vm_compute; reflexivity]. Qed.

Theorem pinned_dot_identity_repaired :
  forallb (fun args => match resolve pin_le pin_bear pin_dot_fixed args with Unique _ => true | _ => false end)
          (prod [[1;2;3]; [1;2;3]]%positive) = true.
Proof. vm_compute. reflexivity. Qed.
