(* C06 - lemmas: two-sided inverses, the argsort permutation, oracle specifications, the leaf rules and the dense paths. *)
From Coq Require Import Arith Lia List Ring Field ArithRing PeanoNat Bool NArith.
From Core Require Import Base Kron Op OpProofs Algebra AlgebraProofs FieldBase C06_Inv.
Import ListNotations.
Section P.
Context {R : Type} {RR : Ring R} {CR : CRing R} {FR : Field R}.
Add Ring Rring : Rth.
Open Scope R_scope.
Notation fm := (fm (R:=R)). Notation arr := (arr (R:=R)). Notation op := (op (R:=R)).
Notation iop := (iop (R:=R)). Notation ires := (ires (R:=R)).

(* ---------- two-sided inverses ---------- *)
Definition inv2 (n : nat) (B A : fm) := feq n n (mmul n B A) eye /\ feq n n (mmul n A B) eye.
Lemma inv2_sym n B A : inv2 n B A -> inv2 n A B. Proof. intros [H1 H2]; split; auto. Qed.
Lemma inv2_ext n B B' A A' : feq n n B B' -> feq n n A A' -> inv2 n B A -> inv2 n B' A'.
Proof. intros HB HA [H1 H2]. split.
  - apply (feq_trans n n _ (mmul n B A)); [|exact H1]. apply mmul_ext; auto using feq_sym.
  - apply (feq_trans n n _ (mmul n A B)); [|exact H2]. apply mmul_ext; auto using feq_sym. Qed.
Lemma inv2_eye n : inv2 n eye eye.
Proof. split; intros i j Hi Hj; apply mmul_eye_l; auto. Qed.
Lemma mmul_eye_r_feq n X : feq n n (mmul n X eye) X. Proof. intros i j Hi Hj. apply mmul_eye_r; auto. Qed.
Lemma mmul_eye_l_feq n X : feq n n (mmul n eye X) X. Proof. intros i j Hi Hj. apply mmul_eye_l; auto. Qed.
Lemma half_mul n A B C D : feq n n (mmul n B A) eye -> feq n n (mmul n D C) eye -> feq n n (mmul n (mmul n D B) (mmul n A C)) eye.
Proof. intros H1 H2 i j Hi Hj. rewrite mmul_assoc.
  transitivity (mmul n D C i j); [|apply H2; auto].
  apply (mmul_ext n n n); auto using feq_refl. intros a b Ha Hb. rewrite <- mmul_assoc.
  transitivity (mmul n eye C a b); [|apply mmul_eye_l; auto]. apply (mmul_ext n n n); auto using feq_refl. Qed.
(* (A C)^-1 = C^-1 A^-1 *)
Lemma inv2_mul n B A D C : inv2 n B A -> inv2 n D C -> inv2 n (mmul n D B) (mmul n A C).
Proof. intros [H1 H2] [H3 H4]. split; apply half_mul; auto. Qed.
Lemma inv2_unique n B A C : feq n n (mmul n B A) eye -> feq n n (mmul n A C) eye -> feq n n B C.
Proof. intros H1 H2 i j Hi Hj.
  transitivity (mmul n B (mmul n A C) i j).
  - symmetry. transitivity (mmul n B eye i j); [|apply mmul_eye_r; auto]. apply (mmul_ext n n n); auto using feq_refl.
  - rewrite <- mmul_assoc. transitivity (mmul n eye C i j); [|apply mmul_eye_l; auto]. apply (mmul_ext n n n); auto using feq_refl. Qed.
Lemma inv2_transpose n B A : inv2 n B A -> inv2 n (fun i j => B j i) (fun i j => A j i).
Proof. intros [H1 H2]. split; intros i j Hi Hj; unfold mmul.
  - transitivity (mmul n A B j i); [unfold mmul; apply sum_ext; intros; ring|]. rewrite H2 by auto. unfold eye, delta. rewrite Nat.eqb_sym. reflexivity.
  - transitivity (mmul n B A j i); [unfold mmul; apply sum_ext; intros; ring|]. rewrite H1 by auto. unfold eye, delta. rewrite Nat.eqb_sym. reflexivity. Qed.

(* ---------- permutations ---------- *)
Definition is_perm (n : nat) (p : nat -> nat) := (forall i, (i < n)%nat -> (p i < n)%nat) /\ (forall i j, (i < n)%nat -> (j < n)%nat -> p i = p j -> i = j).
Definition pmat (p : nat -> nat) : fm := fun i j => delta (p i) j.
Lemma find_first n (f : nat -> bool) j : (j < n)%nat -> f j = true -> exists k, find f (seq 0 n) = Some k /\ (k <= j)%nat /\ f k = true.
Proof. intros Hj Hf. assert (G : forall s len, (s <= j < s + len)%nat -> exists k, find f (seq s len) = Some k /\ (k <= j)%nat /\ f k = true).
  { intros s len. revert s. induction len as [|len IH]; intros s H; [lia|]. cbn [seq find]. destruct (f s) eqn:E.
    - exists s. repeat split; auto; lia.
    - assert (s <> j) by (intros ->; congruence). apply IH. lia. }
  apply G. lia. Qed.
Lemma NoDup_map_inj {A B} (f : A -> B) (l : list A) : NoDup l -> (forall a b, In a l -> In b l -> f a = f b -> a = b) -> NoDup (map f l).
Proof. induction 1 as [|x l Hx ND IH]; intros Hinj; cbn [map]; constructor.
  - intros Hin. apply in_map_iff in Hin as [y [E Hy]]. apply Hx. rewrite (Hinj x y); auto; [left; auto|right; auto].
  - apply IH. intros a b Ha Hb. apply Hinj; right; auto. Qed.
Lemma perm_surj n p : is_perm n p -> forall i, (i < n)%nat -> exists j, (j < n)%nat /\ p j = i.
Proof. intros [Hr Hi] i Hlt.
  assert (ND : NoDup (map p (seq 0 n))).
  { apply NoDup_map_inj; [apply seq_NoDup|]. intros a b Ha Hb. apply in_seq in Ha, Hb. apply Hi; lia. }
  assert (Hin : incl (seq 0 n) (map p (seq 0 n))).
  { apply NoDup_length_incl; [exact ND | rewrite map_length; lia |].
    intros x Hx. apply in_map_iff in Hx as [y [<- Hy]]. apply in_seq in Hy. apply in_seq. specialize (Hr y). lia. }
  assert (Hx : In i (map p (seq 0 n))) by (apply Hin; apply in_seq; lia).
  apply in_map_iff in Hx as [j [E Hj]]. apply in_seq in Hj. exists j. split; [lia|auto]. Qed.
Lemma argsort_spec n p : is_perm n p -> forall i, (i < n)%nat -> (argsort n p i < n)%nat /\ p (argsort n p i) = i.
Proof. intros HP i Hi. destruct (perm_surj n p HP i Hi) as [j [Hj E]].
  destruct (find_first n (fun j => Nat.eqb (p j) i) j Hj) as [k [Hf [Hk Ek]]]; [apply Nat.eqb_eq; auto|].
  unfold argsort. rewrite Hf. apply Nat.eqb_eq in Ek. split; [lia|auto]. Qed.
Theorem perm_argsort_inverse n p : is_perm n p ->
  is_perm n (argsort n p) /\ (forall i, (i < n)%nat -> p (argsort n p i) = i) /\ (forall i, (i < n)%nat -> argsort n p (p i) = i).
Proof. intros HP. assert (S := argsort_spec n p HP). destruct HP as [Hr Hinj].
  assert (L : forall i, (i < n)%nat -> argsort n p (p i) = i).
  { intros i Hi. destruct (S (p i) (Hr i Hi)) as [A B]. apply Hinj; auto. }
  repeat split; auto.
  - intros i Hi. apply S; auto.
  - intros i j Hi Hj E. destruct (S i Hi) as [_ A], (S j Hj) as [_ B]. rewrite <- A, <- B, E. reflexivity.
  - intros i Hi. apply S; auto. Qed.
Lemma pmat_mul n p q i j : (i < n)%nat -> (q i < n)%nat -> mmul n (pmat q) (pmat p) i j = delta (p (q i)) j.
Proof. intros Hi Hq. unfold mmul, pmat. rewrite (sum_delta_l n (q i) (fun l => delta (p l) j)) by auto. reflexivity. Qed.
Lemma pmat_inv n p : is_perm n p -> inv2 n (pmat (argsort n p)) (pmat p).
Proof. intros HP. destruct (perm_argsort_inverse n p HP) as [[Qr _] [E1 E2]]. destruct HP as [Pr _].
  split; intros i j Hi Hj; rewrite pmat_mul by auto; unfold eye; [rewrite E1|rewrite E2]; auto. Qed.

(* ---------- oracle specifications ---------- *)
Definition lower (n : nat) (T : fm) := forall i j, (i < n)%nat -> (j < n)%nat -> (i < j)%nat -> T i j = r0.
Definition upper (n : nat) (T : fm) := forall i j, (i < n)%nat -> (j < n)%nat -> (j < i)%nat -> T i j = r0.
Definition tri (lo : bool) (n : nat) (T : fm) := if lo then lower n T else upper n T.
Definition nzdiag (n : nat) (T : fm) := forall i, (i < n)%nat -> T i i <> r0.
Definition unitary (n : nat) (A : fm) := inv2 n (ctr n A) A.
Lemma conj_nz x : x <> r0 -> conj x <> r0.
Proof. intros H E. apply H. rewrite <- (conj_invol x), E. apply conj_0. Qed.
Lemma ctr_upper n L : lower n L -> upper n (ctr n L).
Proof. intros H i j Hi Hj Hlt. unfold ctr. rewrite H by auto. apply conj_0. Qed.
Lemma ctr_nz n L : nzdiag n L -> nzdiag n (ctr n L).
Proof. intros H i Hi. unfold ctr. apply conj_nz; auto. Qed.

Variable gmres_amb : bool.
Variable fwd_strict : bool.
Variable lu_o : nat -> fm -> (nat -> nat) * fm * fm.
Variable chol_o : nat -> fm -> fm.
Variable tinv_o : nat -> fm -> bool -> fm.
Variable iter_o : itag -> op -> fm.
Notation inv := (inv gmres_amb fwd_strict lu_o chol_o).
Notation base := (base lu_o chol_o).
Notation to_op := (to_op tinv_o iter_o).
(* TriangularInv: the triangular solve inverts a triangular matrix with non-zero diagonal *)
Definition tinv_ok := forall n T lo, tri lo n T -> nzdiag n T -> inv2 n (tinv_o n T lo) T.
(* scipy.linalg.lu(A, p_indices=True) on a non-singular A: A = (L U)[p, :] = P L U *)
Definition lu_ok (n : nat) (A : fm) :=
  let '(p, L, U) := lu_o n A in
  is_perm n p /\ lower n L /\ nzdiag n L /\ upper n U /\ nzdiag n U /\ feq n n (mmul n (pmat p) (mmul n L U)) A.
(* numpy.linalg.cholesky on a positive definite A *)
Definition chol_ok (n : nat) (A : fm) :=
  let L := chol_o n A in lower n L /\ nzdiag n L /\ feq n n (mmul n L (ctr n L)) A.

(* ---------- what "correct" means for a returned operator ---------- *)
Definition good (r : iop) (e : op) :=
  wf (to_op r) = true /\ shape (to_op r) = shape e /\ inv2 (fst (shape e)) (den (to_op r)) (den e).
Lemma sq_shape (e : op) : is_sq e = true -> shape e = (fst (shape e), fst (shape e)).
Proof. unfold is_sq. intros H. apply Nat.eqb_eq in H. destruct (shape e); cbn [fst snd] in *; subst; reflexivity. Qed.
Lemma dense_den (e : op) : wf e = true -> feq (fst (shape e)) (snd (shape e)) (dense e) (den e).
Proof. intros W i j Hi Hj. unfold dense.
  destruct (proj1 (mm_den e W) (mkarr (snd (shape e)) (snd (shape e)) eye) eq_refl) as (E1 & E2 & E3).
  rewrite E3 by (rewrite ?E1, ?E2; auto). cbn [spec dat]. apply mmul_eye_r; auto. Qed.
Lemma amb_ok al (x : ires) (r : iop) : amb gmres_amb al x = IOk r -> x = IOk r.
Proof. unfold amb. destruct al; auto. destruct gmres_amb; [discriminate|auto]. Qed.

(* ---------- leaf rules ---------- *)
Lemma scal_inv2 n c : c <> r0 -> inv2 n (fun i j => rinv c * delta i j) (fun i j => c * delta i j).
Proof. intros Hc. pose proof (Finv_l Fth c Hc) as E.
  split; intros i j Hi Hj; unfold mmul.
  - rewrite (sum_ext n _ (fun l => delta i l * ((rinv c * c) * delta l j))) by (intros; ring).
    rewrite sum_delta_l by auto. rewrite E. unfold eye. ring.
  - rewrite (sum_ext n _ (fun l => delta i l * ((rinv c * c) * delta l j))) by (intros; ring).
    rewrite sum_delta_l by auto. rewrite E. unfold eye. ring. Qed.
Lemma diag_inv2 n (d : nat -> R) : (forall i, (i < n)%nat -> d i <> r0) -> inv2 n (fun i j => rinv (d i) * delta i j) (fun i j => d i * delta i j).
Proof. intros Hd. split; intros i j Hi Hj; unfold mmul.
  - rewrite (sum_ext n _ (fun l => delta i l * (rinv (d i) * (d l * delta l j)))) by (intros; ring).
    rewrite sum_delta_l by auto. transitivity ((rinv (d i) * d i) * delta i j); [ring|]. rewrite (Finv_l Fth (d i) (Hd i Hi)). unfold eye. ring.
  - rewrite (sum_ext n _ (fun l => delta i l * (d i * (rinv (d l) * delta l j)))) by (intros; ring).
    rewrite sum_delta_l by auto. transitivity ((rinv (d i) * d i) * delta i j); [ring|]. rewrite (Finv_l Fth (d i) (Hd i Hi)). unfold eye. ring. Qed.

Lemma good_Ident n : good (IOp (Ident n)) (Ident n).
Proof. repeat split; auto; intros i j Hi Hj; cbn [to_op den shape fst]; apply mmul_eye_l; auto. Qed.
Lemma good_Scal c n : c <> r0 -> good (IOp (Scal (rinv c) n)) (Scal c n).
Proof. intros Hc. split; [reflexivity|]. split; [reflexivity|]. cbn [to_op den shape fst]. apply scal_inv2; auto. Qed.
Lemma good_Diag n d : (forall i, (i < n)%nat -> d i <> r0) -> good (IOp (Diag n (fun i => rinv (d i)))) (Diag n d).
Proof. intros Hd. split; [reflexivity|]. split; [reflexivity|]. cbn [to_op den shape fst]. apply diag_inv2; auto. Qed.
Lemma good_Perm n p : is_perm n p -> good (IOp (Perm n (argsort n p))) (Perm n p).
Proof. intros HP. split; [|split; [reflexivity|]].
  - cbn [to_op wf]. apply forallb_forall. intros i Hi. apply in_seq in Hi. apply Nat.ltb_lt.
    destruct (perm_argsort_inverse n p HP) as [[Qr _] _]. apply Qr. lia.
  - cbn [to_op den shape fst]. apply (pmat_inv n p HP). Qed.
Lemma good_Tri (A : arr) lo : tinv_ok -> nr A = nc A -> tri lo (nr A) (dat A) -> nzdiag (nr A) (dat A) ->
  good (ITri (nr A) (dat A) lo) (Dense A).
Proof. intros TO Sq HT HN. split; [reflexivity|]. split; [cbn [to_op shape nr nc]; congruence|].
  cbn [to_op den shape fst dat]. apply TO; auto. Qed.

(* ---------- dense paths ---------- *)
Lemma wf_prod_sq (l : list op) n : l <> [] -> Forall (fun m => wf m = true /\ shape m = (n, n)) l ->
  wf (Prod l) = true /\ shape (Prod l) = (n, n).
Proof. intros Hne HF. split.
  - cbn [wf]. rewrite !andb_true_iff. repeat split.
    + destruct l; [contradiction|reflexivity].
    + apply forallb_forall. intros m Hm. rewrite Forall_forall in HF. apply HF; auto.
    + clear Hne. induction HF as [|m l [_ Sm] HF IH]; [reflexivity|]. cbn [map chain_ok]. destruct l as [|m' l']; [reflexivity|].
      inversion HF as [|? ? [_ Sm'] _]; subst. cbn [map] in IH |- *. rewrite Sm, Sm' in *. cbn [fst snd]. rewrite Nat.eqb_refl. exact IH.
  - cbn [shape]. destruct l as [|m l]; [contradiction|]. inversion HF as [|? ? [_ Sm] HF']; subst. cbn [map hd]. rewrite Sm. cbn [fst]. f_equal.
    assert (G : forall (l : list op) (s : shp), snd s = n -> Forall (fun m : op => wf m = true /\ shape m = (n, n)) l -> snd (last (s :: map shape l) (0,0)%nat) = n).
    { clear. induction l as [|m' l IH]; intros s Hs HF; [exact Hs|]. inversion HF as [|? ? [_ Sm'] HF'']; subst.
      change (last (s :: map shape (m' :: l)) (0,0)%nat) with (last (shape m' :: map shape l) (0,0)%nat). apply IH; auto. rewrite Sm'. reflexivity. }
    apply G; auto. Qed.
Definition gen (n : nat) (X : fm) : op := Gen (mkarr n n X).
Lemma den_prod2 n X1 X2 : feq n n (den (Prod [gen n X1; gen n X2])) (mmul n X1 X2).
Proof. intros i j Hi Hj. cbn [den map chain fold_right gen shape nr nc dat fst snd].
  apply (mmul_ext n n n); auto using feq_refl. apply mmul_eye_r_feq. Qed.
Lemma den_prod3 n X1 X2 (e3 : op) : shape e3 = (n, n) -> feq n n (den (Prod [gen n X1; gen n X2; e3])) (mmul n X1 (mmul n X2 (den e3))).
Proof. intros S3 i j Hi Hj. cbn [den map chain fold_right gen shape nr nc dat fst snd]. rewrite S3. cbn [snd].
  apply (mmul_ext n n n); auto using feq_refl. apply (mmul_ext n n n); auto using feq_refl. apply mmul_eye_r_feq. Qed.

Definition base_ok (al : alg) (e : op) (a : atree) : Prop :=
  let n := fst (shape e) in
  match base_alg al e a with
  | AChol => chol_ok n (dense e)
  | ALU => lu_ok n (dense e)
  | AOther => unitary n (den e) /\ (asa a = true -> hermitian e)
  | ACG => inv2 n (iter_o ICG e) (den e)          (* the solver is exact (properties C12 / C13) *)
  | AGMRES => inv2 n (iter_o IGMRES e) (den e)
  | AAuto => True
  end.
Lemma good_Iter t (e : op) : is_sq e = true -> inv2 (fst (shape e)) (iter_o t e) (den e) -> good (IIter t e) e.
Proof. intros Sq I. split; [reflexivity|]. split; [cbn [to_op shape nr nc]; destruct (shape e); reflexivity|]. exact I. Qed.
Lemma base_good (al : alg) (e : op) (a : atree) r : tinv_ok -> wf e = true -> is_sq e = true -> base_ok al e a ->
  base al e a = IOk r -> good r e.
Proof. intros TO W Sq OK H. unfold base in H. unfold base_ok in OK.
  pose proof (sq_shape e Sq) as Sh. set (n := fst (shape e)) in *.
  assert (DD : feq n n (dense e) (den e)). { pose proof (dense_den e W) as D. rewrite Sh in D. exact D. }
  destruct (base_alg al e a).
  - discriminate.
  - (* LU *) rewrite Sq in H. unfold lu_ok in OK. destruct (lu_o n (dense e)) as [[p L] U].
    destruct OK as (HP & LL & NL & UU & NU & E). inversion H; subst r; clear H.
    pose proof (TO n U false UU NU) as IU. pose proof (TO n L true LL NL) as IL. pose proof (pmat_inv n p HP) as IP.
    assert (WS : wf (Prod [gen n (tinv_o n U false); gen n (tinv_o n L true); Perm n (argsort n p)]) = true /\
                 shape (Prod [gen n (tinv_o n U false); gen n (tinv_o n L true); Perm n (argsort n p)]) = (n, n)).
    { apply wf_prod_sq; [discriminate|]. repeat constructor. apply (proj1 (good_Perm n p HP)). }
    split; [exact (proj1 WS)|]. split; [rewrite Sh; exact (proj2 WS)|].
    change (to_op (IProd [ITri n U false; ITri n L true; IOp (Perm n (argsort n p))]))
      with (Prod [gen n (tinv_o n U false); gen n (tinv_o n L true); Perm n (argsort n p)]).
    eapply inv2_ext; [apply feq_sym; apply den_prod3; reflexivity | eapply feq_trans; [exact E|exact DD] |].
    (* (P (L U))^-1 = (L U)^-1 P^-1 = (U^-1 L^-1) P^-1 *)
    assert (I1 : inv2 n (mmul n (tinv_o n U false) (tinv_o n L true)) (mmul n L U)) by (apply inv2_mul; auto).
    assert (I2 : inv2 n (mmul n (mmul n (tinv_o n U false) (tinv_o n L true)) (pmat (argsort n p))) (mmul n (pmat p) (mmul n L U))) by (apply inv2_mul; auto).
    eapply inv2_ext; [|apply feq_refl|exact I2]. intros i j Hi Hj. cbn [den]. apply mmul_assoc.
  - (* Cholesky *) destruct (apsd a); [|discriminate]. rewrite Sq in H. unfold chol_ok in OK. destruct OK as (LL & NL & E).
    inversion H; subst r; clear H. set (L := chol_o n (dense e)) in *.
    pose proof (TO n L true LL NL) as IL. pose proof (TO n (ctr n L) false (ctr_upper n L LL) (ctr_nz n L NL)) as IH.
    assert (WS : wf (Prod [gen n (tinv_o n (ctr n L) false); gen n (tinv_o n L true)]) = true /\
                 shape (Prod [gen n (tinv_o n (ctr n L) false); gen n (tinv_o n L true)]) = (n, n)).
    { apply wf_prod_sq; [discriminate|]. repeat constructor. }
    split; [exact (proj1 WS)|]. split; [rewrite Sh; exact (proj2 WS)|].
    change (to_op (IProd [ITri n (ctr n L) false; ITri n L true])) with (Prod [gen n (tinv_o n (ctr n L) false); gen n (tinv_o n L true)]).
    eapply inv2_ext; [apply feq_sym; apply den_prod2 | eapply feq_trans; [exact E|exact DD] |].
    apply inv2_mul; auto.
  - destruct (apsd a); [|discriminate]. inversion H; subst r. apply good_Iter; auto.
  - inversion H; subst r. apply good_Iter; auto.
  - (* any other algorithm object: only the Unitary rule matches *)
    destruct (auni a); [|discriminate]. inversion H; subst r; clear H. destruct OK as [UN HS].
    destruct (adjoint_sound (asa a) e W HS) as (W' & S' & D').
    split; [exact W'|]. cbn [to_op]. split; [rewrite S', Sh; reflexivity|].
    rewrite Sh in D'. cbn [fst snd] in D'. eapply inv2_ext; [apply feq_sym; exact D'|apply feq_refl|]. exact UN.
Qed.
End P.
