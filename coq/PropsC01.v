(* Property C01: an operator acts on arrays exactly as the matrix it represents.
   Only statements closed by [exact]; the lemmas live in OpProofs.v / ToDense.v / Dtype.v. *)
From Coq Require Import List Arith Bool ZArith.
From Core Require Import Base Kron Op OpProofs ToDense MatVec ZIInst DtypeTable Dtype DtypeProofs.
Import ListNotations.

(* forward product = represented matrix times operand, with the right shape, for every operator tree,
   over every commutative ring with involution (in particular the reals, the complex numbers, Z[i]) *)
Theorem C01_matmat_den : forall (R : Type) (RR : Ring R) (CR : CRing R) (e : op (R:=R)) (X : arr (R:=R)),
  wf e = true -> nr X = snd (shape e) -> aeq (matmat e X) (spec e X).
Proof. intros R RR CR e X Hwf HX. exact (proj1 (mm_den e Hwf) X HX). Qed.
Print Assumptions C01_matmat_den.

Theorem C01_matmat_shape : forall (R : Type) (RR : Ring R) (CR : CRing R) (e : op (R:=R)) (X : arr (R:=R)),
  wf e = true -> nr X = snd (shape e) -> nr (matmat e X) = fst (shape e) /\ nc (matmat e X) = nc X.
Proof. intros R RR CR e X Hwf HX. destruct (proj1 (mm_den e Hwf) X HX) as (H1 & H2 & _). exact (Logic.conj H1 H2). Qed.
Print Assumptions C01_matmat_shape.

(* 1-D operand: A @ x (reshape to a column, product, flatten) is the represented matrix times the vector *)
Theorem C01_matvec_den : forall (R : Type) (RR : Ring R) (CR : CRing R) (e : op (R:=R)) (x : nat -> R),
  wf e = true -> forall i, i < fst (shape e) -> matvec e x i = sum (snd (shape e)) (fun j => rmul (den e i j) (x j)).
Proof. intros R RR CR. exact (@matvec_den R RR CR). Qed.
Print Assumptions C01_matvec_den.

(* densification: the kind-specific paths (Dense, Diagonal, Kronecker = reduce(np.kron), KronSum = reduce(kronsum),
   BlockDiag = block_diag) and both generic paths (identity on the right; on the left, through the backward product,
   when 8*rows < cols) return the represented matrix *)
Theorem C01_to_dense_den : forall (R : Type) (RR : Ring R) (CR : CRing R) (e : op (R:=R)),
  wf e = true -> aeq (to_dense e) (mkarr (fst (shape e)) (snd (shape e)) (den e)).
Proof. intros R RR CR e. exact (@to_dense_den R RR CR e). Qed.
Print Assumptions C01_to_dense_den.

(* non-vacuity: a nested tree with three Kronecker factors, a block multiplicity and a slice is well-formed *)
Example C01_example :
  let D := Dense (of_list_mn 2 2 [[(1,0)%Z; (2,1)%Z]; [(0,-1)%Z; (3,0)%Z]]) in
  let e : op (R:=zi) := Sum [Kron [D; Ident 2; Diag 1 (fun _ => (2,0)%Z)]; BDiag [(Sliced (Kron [D; D]) [0;1] [2;3], 2)]] in
  wf e = true /\ shape e = (4, 4).
Proof. cbv zeta. split; reflexivity. Qed.

(* dtype clause (repaired flags): A.dtype is the promotion over all leaves; (A @ X).dtype and (X @ A).dtype are its
   promotion with the operand's dtype - for every tree of the dtype skeleton; the promotion table is numpy's (generated) *)
Theorem C01_dtype_promoted : forall e : dsk, nonempty e = true ->
  dtype dfixed e = ddtype e /\ forall dx, outs dfixed e dx = (promote (ddtype e) dx, promote (ddtype e) dx).
Proof. exact dtype_promoted. Qed.
Print Assumptions C01_dtype_promoted.
Theorem C01_promote_semilattice : (forall a b, promote a b = promote b a) /\ (forall a b c, promote a (promote b c) = promote (promote a b) c) /\ (forall a, promote a a = a).
Proof. exact (Logic.conj promote_comm (Logic.conj promote_assoc promote_idem)). Qed.
Print Assumptions C01_promote_semilattice.
(* the pinned tree: Sum takes its first term's dtype; Identity returns the operand's dtype; Sliced casts the operand *)
Theorem C01_sum_first_refuted : let fl := {| sum_first := true; concat_first := false; ident_pass := false; perm_pass := false; kronsum_inplace := false; sliced_cast := false |} in
  dtype fl (DSum [DLeaf LDense F32; DLeaf LDense F64]) <> ddtype (DSum [DLeaf LDense F32; DLeaf LDense F64]).
Proof. exact sum_first_refuted. Qed.
Theorem C01_ident_pass_refuted : let fl := {| sum_first := false; concat_first := false; ident_pass := true; perm_pass := false; kronsum_inplace := false; sliced_cast := false |} in
  out_dtype fl (DLeaf LIdent C128) F64 <> promote (ddtype (DLeaf LIdent C128)) F64.
Proof. exact ident_pass_refuted. Qed.
Theorem C01_sliced_cast_refuted : let fl := {| sum_first := false; concat_first := false; ident_pass := false; perm_pass := false; kronsum_inplace := false; sliced_cast := true |} in
  out_dtype fl (DSliced (DLeaf LDense F32)) C128 <> promote (ddtype (DSliced (DLeaf LDense F32))) C128.
Proof. exact sliced_cast_refuted. Qed.
