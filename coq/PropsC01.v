(* Property C01: an operator acts on arrays exactly as the matrix it represents.
   Only statements closed by [exact]; the lemmas live in OpProofs.v / ToDense.v / Dtype.v. *)
From Coq Require Import List Arith Bool.
From Core Require Import Base Kron Op OpProofs.
Import ListNotations.

(* forward product = represented matrix times operand, with the right shape, for every operator tree,
   over every commutative ring with involution (in particular the reals, the complex numbers, Z[i]) *)
Theorem C01_matmat_den : forall (R : Type) (RR : Ring R) (CR : CRing R) (e : op (R:=R)) (X : arr (R:=R)),
  wf e = true -> nr X = snd (shape e) -> aeq (matmat e X) (spec e X).
Proof. intros R RR CR e X Hwf HX. exact (proj1 (mm_den e Hwf) X HX). Qed.
Print Assumptions C01_matmat_den.

Theorem C01_matmat_shape : forall (R : Type) (RR : Ring R) (CR : CRing R) (e : op (R:=R)) (X : arr (R:=R)),
  wf e = true -> nr X = snd (shape e) -> nr (matmat e X) = fst (shape e) /\ nc (matmat e X) = nc X.
Proof. intros R RR CR e X Hwf HX. destruct (proj1 (mm_den e Hwf) X HX) as (H1 & H2 & _). exact (Logic.conj H1 H2). Qed.
Print Assumptions C01_matmat_shape.
