(* C18 - the positive half of history independence: if every class is used UNIFORMLY - there is a table U saying, per
   class and attribute name, whether the attribute holds array parameters, and every assignment ever executed agrees
   with it - then after any history the registry agrees with U on everything it has registered, and the leaves of an
   operator whose classes have all been registered are the ideal leaves (those of U): they do not depend on the history.
   The pinned tree violates the hypothesis for BlockDiag.multiplicities and Sliced.slices (C18_Registry.v). *)
From Coq Require Import List String Bool Arith Lia.
From Core Require Import C18_Registry.
Import ListNotations.
Open Scope string_scope.
Open Scope list_scope.

Section Uniform.
Variable U : cls -> name -> bool.

(* flatten with the ideal table *)
Fixpoint leavesU (v : val) : list val :=
  match v with
  | VArr _ | VAtom _ => [v]
  | VNone => []
  | VTup vs => (fix go (l : list val) : list val := match l with [] => [] | x :: t => leavesU x ++ go t end) vs
  | VOp c fs => (fix go (l : list (name * val)) : list val :=
                   match l with [] => [] | (n, x) :: t => (if U c n then leavesU x else []) ++ go t end) fs
  end.

(* the registry agrees with U on every name it has registered *)
Definition agree (r : reg) : Prop := forall c n, registered r c n = true -> dyn r c n = U c n.
(* every operator node inside v has all its attribute names registered *)
Fixpoint covered (r : reg) (v : val) : bool :=
  match v with
  | VArr _ | VAtom _ | VNone => true
  | VTup vs => (fix go (l : list val) : bool := match l with [] => true | x :: t => covered r x && go t end) vs
  | VOp c fs => (fix go (l : list (name * val)) : bool :=
                   match l with [] => true | (n, x) :: t => registered r c n && covered r x && go t end) fs
  end.

Lemma leaves_ideal r : agree r -> forall v, covered r v = true -> leaves r v = leavesU v.
Proof. intros Ha v. induction v as [i|t| |vs IH|c fs IH] using val_ind2; intros Hc; cbn [leaves leavesU]; try reflexivity.
  - cbn [covered] in Hc. induction IH as [|x l Hx Hl IHl]; [reflexivity|].
    apply andb_true_iff in Hc. destruct Hc as [H1 H2]. rewrite Hx by exact H1. f_equal. apply IHl. exact H2.
  - cbn [covered] in Hc. induction IH as [|[n x] l Hx Hl IHl]; [reflexivity|].
    apply andb_true_iff in Hc. destruct Hc as [H1 H3]. apply andb_true_iff in H1. destruct H1 as [H1 H2].
    cbn [snd] in Hx. rewrite (Ha c n H1). rewrite Hx by exact H2. f_equal. apply IHl. exact H3. Qed.

(* ---- uniform use: every assignment that registers a name decides as U says ---- *)
Fixpoint uniform_assigns (r : reg) (c : cls) (fs : list (name * val)) : Prop :=
  match fs with
  | [] => True
  | (n, v) :: t => (registered r c n = false -> cond_of r v = U c n) /\ uniform_assigns (setattr r c n v) c t
  end.
Lemma agree_setattr r c n v : rfind r c <> None -> agree r -> (registered r c n = false -> cond_of r v = U c n) -> agree (setattr r c n v).
Proof. intros Hc Ha Hu c' n' Hr. unfold setattr in *. destruct (registered r c n) eqn:E; [apply Ha; exact Hr|].
  pose proof (Ha c' n') as Ha'. specialize (Hu eq_refl). clear Ha E.
  unfold registered, dyn in *. rewrite (rfind_radd r c n _ c' Hc) in *.
  destruct (String.eqb_spec c c') as [<-|Hne]; [|apply Ha'; exact Hr].
  destruct (rfind r c) as [m|] eqn:Em; [|congruence]. cbn [option_map] in *. rewrite cfind_app in *.
  destruct (cfind m n') eqn:En; [apply Ha'; reflexivity|].
  destruct (String.eqb_spec n n') as [<-|Hn]; [|discriminate]. exact Hu. Qed.

Lemma agree_assign_all fs : forall r c, rfind r c <> None -> agree r -> uniform_assigns r c fs -> agree (assign_all r c fs).
Proof. unfold assign_all. induction fs as [|[n v] t IH]; intros r c Hc Ha Hu; cbn [fold_left fst snd]; [exact Ha|].
  destruct Hu as [H1 H2]. apply IH; [apply setattr_rfind; exact Hc| |exact H2]. apply agree_setattr; assumption. Qed.

Lemma base_map_false n b : cfind base_map n = Some b -> b = false.
Proof. unfold base_map. cbn [cfind]. intros H.
  destruct (String.eqb "xnp" n); [congruence|]. destruct (String.eqb "shape" n); [congruence|].
  destruct (String.eqb "dtype" n); [congruence|]. destruct (String.eqb "device" n); [congruence|].
  destruct (String.eqb "annotations" n); [congruence|]. discriminate. Qed.

Lemma agree_declare r c p : agree r -> (forall n, registered r p n = true -> dyn r p n = U c n) ->
  (rfind r p = None -> forall n, cfind base_map n <> None -> U c n = false) -> agree (declare r c p).
Proof. intros Ha Hp Hb c' n' Hr. unfold declare in *. destruct (rfind r c) eqn:Ec; [apply Ha; exact Hr|].
  pose proof (Ha c' n') as Ha'. pose proof (Hp n') as Hp'. clear Ha Hp.
  unfold registered, dyn in *. rewrite rfind_app in *.
  destruct (rfind r c') as [m|] eqn:Ec'; [apply Ha'; exact Hr|].
  destruct (String.eqb_spec c c') as [<-|Hne]; [|discriminate].
  destruct (rfind r p) as [mp|] eqn:Ep.
  - destruct (cfind mp n'); [apply Hp'; reflexivity|discriminate].
  - destruct (cfind base_map n') as [b|] eqn:Eb; [|discriminate].
    rewrite (Hb eq_refl n') by congruence. apply (base_map_false n'). exact Eb. Qed.

(* class creation rule used below: a new class inherits decisions; uniformity asks that U agrees with what is inherited *)
Fixpoint uniform (h : list event) (r : reg) : Prop :=
  match h with
  | [] => True
  | e :: t =>
      (match e with
       | EDecl c p => agree (declare r c p)
       | ECons k => agree (declare r (k_cls k) (k_parent k)) /\
                    uniform_assigns (declare r (k_cls k) (k_parent k)) (k_cls k) (k_assigns k)
       end) /\ uniform t (step r e)
  end.

(* uniform use keeps the registry in agreement with U *)
Theorem uniform_agree : forall (h : list event) (r : reg), agree r -> uniform h r -> agree (run_hist h r).
Proof. unfold run_hist. induction h as [|e t IH]; intros r Ha Hu; cbn [fold_left]; [exact Ha|].
  destruct Hu as [He Ht]. apply IH; [|exact Ht]. destruct e as [c p|k]; cbn [step].
  - exact He.
  - destruct He as [Hd Hs]. change (fst (construct r k)) with (assign_all (declare r (k_cls k) (k_parent k)) (k_cls k) (k_assigns k)).
    apply agree_assign_all; [apply rfind_declare_self|exact Hd|exact Hs]. Qed.

(* hence: after ANY two uniform histories, an operator all of whose classes are registered has the same leaves - the ideal ones *)
Theorem history_independent_partial : forall (h1 h2 : list event) (r0 : reg) (v : val),
  agree r0 -> uniform h1 r0 -> uniform h2 r0 ->
  covered (run_hist h1 r0) v = true -> covered (run_hist h2 r0) v = true ->
  leaves (run_hist h1 r0) v = leaves (run_hist h2 r0) v /\ leaves (run_hist h1 r0) v = leavesU v.
Proof. intros h1 h2 r0 v Ha H1 H2 C1 C2.
  rewrite (leaves_ideal _ (uniform_agree h1 r0 Ha H1) v C1), (leaves_ideal _ (uniform_agree h2 r0 Ha H2) v C2). auto. Qed.

(* a decidable sufficient condition for [agree], to discharge the hypotheses on concrete registries by computation *)
Definition agreeb (r : reg) : bool := forallb (fun cm => forallb (fun nb => Bool.eqb (snd nb) (U (fst cm) (fst nb))) (snd cm)) r.
Lemma cfind_in m n b : cfind m n = Some b -> In (n, b) m.
Proof. induction m as [|[k x] t IH]; cbn; [discriminate|]. destruct (String.eqb_spec k n) as [->|]; intros H; [injection H as ->; auto|auto]. Qed.
Lemma rfind_in r c m : rfind r c = Some m -> In (c, m) r.
Proof. induction r as [|[k x] t IH]; cbn; [discriminate|]. destruct (String.eqb_spec k c) as [->|]; intros H; [injection H as ->; auto|auto]. Qed.
Lemma agreeb_sound r : agreeb r = true -> agree r.
Proof. intros H c n Hr. unfold registered, dyn in *. destruct (rfind r c) as [m|] eqn:Em; [|discriminate].
  destruct (cfind m n) as [b|] eqn:En; [|discriminate]. unfold agreeb in H. rewrite forallb_forall in H.
  specialize (H _ (rfind_in _ _ _ Em)). cbn [fst snd] in H. rewrite forallb_forall in H.
  specialize (H _ (cfind_in _ _ _ En)). cbn [fst snd] in H. apply Bool.eqb_prop in H. exact H. Qed.
End Uniform.

(* the hypotheses are satisfiable: two Dense operators and a BlockDiag with a list of multiplicities, with the table
   "A and Ms hold arrays, nothing else does" *)
Definition U_ex (c : cls) (n : name) : bool := String.eqb n "A" || String.eqb n "Ms".
Example uniform_example :
  agree U_ex reg0 /\ uniform U_ex (h_plain ++ [ECons (k_blockdiag mult_list)]) reg0.
Proof. split; [apply agreeb_sound; reflexivity|].
  cbn [h_plain app uniform step]. repeat split; try (apply agreeb_sound; vm_compute; reflexivity); try (intros _; vm_compute; reflexivity). Qed.

