(* C07 - the multiplicative-form instance of the slogdet model over a field with an absolute value:
   V = L = the field, exp = log = id, log-sum = product, k * logabs = power.
   Theorems:  slogdet_field      sign * mag = det                      (from C07_Proofs.slogdet_det_all)
              slogdet_unit       |sign| = 1  and  |mag| = mag            (order-free form of "unit phase, mag >= 0")
   The absolute value is abstract: a : R -> R with the laws listed in [absval_laws]; no order is needed. *)
From Coq Require Import Arith Lia List Ring Field ArithRing PeanoNat Bool ZArith.
From Core Require Import Base Kron Op FieldBase C07_DetLaws C07_Slogdet C07_Proofs.
Import ListNotations.
Section FieldInst.
Context {R : Type} {RR : Ring R} {CR : CRing R} {FR : Field R}.
Add Field Rfield : Fth.
Open Scope R_scope.
Notation fm := (fm (R:=R)).
Variable a : R -> R.                     (* the absolute value, embedded in the field *)
Variables kabs ksgn : R -> R.            (* |t|, t/|t| applied to a trace of a logarithm: only read when the Krylov flag is on *)
Record absval_laws : Prop := {
  a_mul : forall x y, a (x * y) = a x * a y;
  a_1 : a r1 = r1;
  a_opp1 : a (- r1) = r1;
  a_idem : forall x, a (a x) = a x;
  a_nz : forall x, x <> r0 -> a x <> r0;
  a_conj : forall x, a (conj x) = a x;
  a_real : forall x, conj (a x) = a x;
  zdec : forall x : R, x = r0 \/ x <> r0 }.
Hypothesis AL : absval_laws.

Definition fdom : sdom (R:=R) R R :=
  mksdom r1 rmul rinv conj (fun c => c) a r1 rmul (fun k l => rpow l k) (fun v => v) (fun l => l)
         kabs ksgn a (fun t => t * rinv (a t)).

Lemma rinv_r x : x <> r0 -> x * rinv x = r1.
Proof. intros H. field. exact H. Qed.
Lemma inv_unique x y : x * y = r1 -> x <> r0 -> y = rinv x.
Proof. intros H Hx. transitivity (rinv x * (x * y)); [field; exact Hx|]. rewrite H. ring. Qed.
Lemma vpow_fdom x k : vpow fdom x k = rpow x k.
Proof. induction k; cbn [vpow rpow]; [reflexivity|]. rewrite IHk. reflexivity. Qed.
Lemma r1_nz : r1 <> r0 :> R. Proof. intro H. apply (F_1_neq_0 Fth). exact H. Qed.

Lemma fdom_laws : sdom_laws R R fdom.
Proof. constructor; cbn [fdom vone vmul vinv vconj vof vabs lzero ladd lscale llog lexp lre lph]; intros; try ring.
  - apply rinv_r. apply (a_nz AL). assumption.
  - symmetry. apply vpow_fdom.
  - apply conj_mul.
  - apply conj_1.
  - apply (a_real AL).
  - (* conj (1/|c|) = 1/|c| *) apply inv_unique; [|apply (a_nz AL); assumption].
    rewrite <- (a_real AL c) at 1. rewrite <- conj_mul, rinv_r by (apply (a_nz AL); assumption). apply conj_1.
  - (* t/|t| * |t| = t *) destruct (zdec AL t) as [->|Hn]; [ring|]. field. apply (a_nz AL). exact Hn.
Qed.

(* ---------- sign * magnitude = determinant ---------- *)
Section Det.
Variable fdet : nat -> fm -> R.
Hypothesis DL : DetLaws fdet.
Theorem slogdet_field alg (e : sop (R:=R) R) : valid R R fdom fdet alg e ->
  fst (slogdet fdom all_fixed alg e) * snd (slogdet fdom all_fixed alg e) = fdet (dim e) (den (to_op e)).
Proof. intros Hv. exact (slogdet_det_all R R fdom fdom_laws fdet DL alg e Hv). Qed.

(* ---------- |sign| = 1, |mag| = mag ---------- *)
Definition U (r : R * R) : Prop := a (fst r) = r1 /\ a (snd r) = snd r /\ snd r <> r0.
Lemma mul_nz x y : x <> r0 -> y <> r0 -> x * y <> r0.
Proof. intros Hx Hy H. apply Hy. transitivity (rinv x * (x * y)); [field; exact Hx|]. rewrite H. ring. Qed.
Lemma a_rinv x : x <> r0 -> a (rinv x) = rinv (a x).
Proof. intros Hx. apply inv_unique; [|apply (a_nz AL); exact Hx]. rewrite <- (a_mul AL), rinv_r, (a_1 AL) by exact Hx. reflexivity. Qed.
Lemma U_phase c : c <> r0 -> U (phase fdom c, llog fdom (vabs fdom c)).
Proof. intros Hc. unfold U, phase. cbn [fdom vone vmul vinv vof vabs llog fst snd]. split; [|split; [apply (a_idem AL)|apply (a_nz AL); exact Hc]].
  rewrite (a_mul AL), a_rinv, (a_idem AL) by (apply (a_nz AL); exact Hc). apply rinv_r. apply (a_nz AL). exact Hc. Qed.
Lemma U_one : U (r1, r1). Proof. split; [apply (a_1 AL)|split; [apply (a_1 AL)|apply r1_nz]]. Qed.
Lemma U_mul r1' r2 : U r1' -> U r2 -> U (fst r1' * fst r2, snd r1' * snd r2).
Proof. intros (A1 & A2 & A3) (B1 & B2 & B3). split; [|split]; cbn [fst snd]; [rewrite (a_mul AL), A1, B1; ring|rewrite (a_mul AL), A2, B2; reflexivity|apply mul_nz; assumption]. Qed.
Lemma U_pow k r : U r -> U (rpow (fst r) k, rpow (snd r) k).
Proof. intros Hr. induction k; cbn [rpow]; [apply U_one|]. apply (U_mul r _ Hr IHk). Qed.
Lemma U_scale k r : U r -> U (scale_res fdom k r).
Proof. intros Hr. unfold scale_res. cbn [fdom lscale]. rewrite vpow_fdom. apply U_pow; exact Hr. Qed.
Lemma U_comb_gen rs acc : Forall U rs -> U acc ->
  U (fold_left rmul (map fst rs) (fst acc), fold_left rmul (map snd rs) (snd acc)).
Proof. intros HF. revert acc. induction HF as [|r rs Hr _ IH]; intros acc Ha; cbn [map fold_left]; [destruct acc; exact Ha|].
  apply (IH (fst acc * fst r, snd acc * snd r)). apply U_mul; auto. Qed.
Lemma U_comb rs : Forall U rs -> U (comb fdom rs).
Proof. intros HF. unfold comb. cbn [fdom vone vmul lzero ladd]. apply (U_comb_gen rs (r1, r1) HF U_one). Qed.
Lemma U_diag n d : (forall i, (i < n)%nat -> d i <> r0) -> U (diag_rule fdom n d).
Proof. induction n as [|n IH]; intros Hd; cbn [diag_rule]; [apply U_one|].
  apply (U_mul (diag_rule fdom n d) (phase fdom (d n), llog fdom (vabs fdom (d n)))); [apply IH; intros; apply Hd; lia|apply U_phase; apply Hd; lia]. Qed.
Lemma a_opp x : a (- x) = a x.
Proof. replace (- x) with (- r1 * x) by ring. rewrite (a_mul AL), (a_opp1 AL). ring. Qed.
Lemma a_perm_sign n : forall p, a (perm_sign n p) = r1.
Proof. induction n as [|n IH]; intros p; cbn [perm_sign]; [apply (a_1 AL)|].
  destruct (Nat.eqb _ n); [apply IH|rewrite a_opp; apply IH]. Qed.
Lemma U_chol n ch : nzdiag n ch -> U (chol_rule fdom n ch).
Proof. intros Hd. unfold chol_rule, tri_rule. destruct (U_diag n (fun i => ch i i) Hd) as (A1 & A2 & A3).
  split; [|split]; cbn [fdom vmul vconj lscale fst snd].
  - rewrite (a_mul AL), (a_conj AL), A1. ring.
  - cbn [rpow]. rewrite !(a_mul AL), A2, (a_1 AL). reflexivity.
  - cbn [rpow]. apply mul_nz; [exact A3|apply mul_nz; [exact A3|apply r1_nz]]. Qed.
Lemma U_base alg n A b : base_ok R R fdom fdet alg n A b -> U (base_rule fdom all_fixed alg n b).
Proof. unfold base_ok, base_rule. destruct (pick alg (b_psd b) n).
  - intros (_ & Hd & _). apply U_chol; exact Hd.
  - intros (_ & _ & _ & HL & HU & _). unfold lu_rule. apply U_comb. constructor; [|constructor; [|constructor; [|constructor]]].
    + unfold perm_rule. cbn [perm_slogdet_ignores_parity all_fixed]. split; [|split]; cbn [fdom vof lzero fst snd]; [apply a_perm_sign|apply (a_1 AL)|apply r1_nz].
    + apply (U_diag n _ HL).
    + apply (U_diag n _ HU).
  - intros [E Hn]. cbn [fdom lexp vof] in E. unfold kry_rule. cbn [krylov_slogdet_abs_of_trace all_fixed fdom lph lre].
    assert (Ht : b_kt b <> r0) by (rewrite E; exact Hn).
    split; [|split]; cbn [fst snd]; [|apply (a_idem AL)|apply (a_nz AL); exact Ht].
    rewrite (a_mul AL), a_rinv, (a_idem AL) by (apply (a_nz AL); exact Ht). apply rinv_r. apply (a_nz AL). exact Ht. Qed.
Theorem slogdet_unit alg (e : sop (R:=R) R) : valid R R fdom fdet alg e -> U (slogdet fdom all_fixed alg e).
Proof. induction e using (sop_ind2 (R:=R) R); intros Hv; inversion Hv; subst.
  - cbn [slogdet]. match goal with E : shape _ = (_, _) |- _ => rewrite E end. cbn [fst]. eapply U_base; eassumption.
  - cbn [slogdet]. apply U_diag. assumption.
  - cbn [slogdet]. apply U_diag. assumption.
  - apply U_one.
  - cbn [slogdet]. unfold scal_rule. cbn [scalar_slogdet_ignores_n all_fixed].
    apply (U_scale n (phase fdom c, llog fdom (vabs fdom c))). apply U_phase. assumption.
  - cbn [slogdet]. unfold perm_rule. cbn [perm_slogdet_ignores_parity all_fixed]. split; [|split]; cbn [fdom vof lzero fst snd]; [apply a_perm_sign|apply (a_1 AL)|apply r1_nz].
  - cbn [slogdet].
    assert (Hsq : forallb (fun m => is_square (shape (to_op m))) ms = true).
    { apply forallb_forall. intros m Hm. match goal with Hs : Forall (fun m => shape (to_op m) = _) ms |- _ => rewrite Forall_forall in Hs; rewrite (Hs m Hm) end.
      unfold is_square. cbn. apply Nat.eqb_refl. }
    rewrite Hsq. apply U_comb. rewrite Forall_forall in *. intros r Hr. apply in_map_iff in Hr as (m & <- & Hm). auto.
  - cbn [slogdet]. match goal with E : forallb _ _ = false |- _ => rewrite E end.
    match goal with E : shape (Prod _) = (_, _) |- _ => rewrite E end. cbn [fst]. eapply U_base; eassumption.
  - cbn [slogdet]. unfold kron_rule. apply U_comb. rewrite Forall_forall in *. intros r Hr.
    apply in_map_iff in Hr as (nr & <- & Hnr). apply in_map_iff in Hnr as (m & <- & Hm). cbn [fst snd]. apply U_scale. auto.
  - cbn [slogdet]. unfold bdiag_rule. apply U_comb. rewrite Forall_forall in *. intros r Hr.
    apply in_map_iff in Hr as (nr & <- & Hnr). apply in_map_iff in Hnr as (m & <- & Hm). cbn [fst snd]. apply U_scale. auto.
Qed.
End Det.
End FieldInst.
