(* C05: semantic predicates (self-adjoint, PSD in weighted Gram form, Stiefel, unitary) on matrices as functions,
   and their closure under the matrix constructions cola's inference rules use. Any commutative ring with involution;
   positivity is an abstract predicate [nonneg] closed under 1 and products, whose members are real. *)
From Coq Require Import Arith Lia List Ring ArithRing PeanoNat Bool.
From Core Require Import Base Kron Op OpProofs AlgebraKron C05_Annot.
Import ListNotations.
Section Sem.
Context {R : Type} {RR : Ring R} {CR : CRing R}.
Add Ring Rring : Rth.
Open Scope R_scope.
Notation fm := (fm (R:=R)).
Variable nonneg : R -> Prop.
Hypothesis nonneg_1 : nonneg r1.
Hypothesis nonneg_mul : forall a b, nonneg a -> nonneg b -> nonneg (a * b).
Hypothesis nonneg_real : forall a, nonneg a -> conj a = a.

Definition gram (k : nat) (G : fm) (d : nat -> R) : fm := fun i j => sum k (fun l => conj (G l i) * d l * G l j).
Definition SAm (n : nat) (M : fm) := feq n n M (fun i j => conj (M j i)).
Definition Stm (m n : nat) (M : fm) := feq n n (fun i j => sum m (fun l => conj (M l i) * M l j)) eye.
Definition Com (m n : nat) (M : fm) := feq m m (fun i j => sum n (fun l => M i l * conj (M j l))) eye.   (* M M^H = I *)
Definition Unm (n : nat) (M : fm) := Stm n n M /\ Com n n M.
Definition PSDm (n : nat) (M : fm) := exists k G d, (forall l, (l < k)%nat -> nonneg (d l)) /\ feq n n M (gram k G d).
Definition holds (a : annot) (s : shp) (M : fm) : Prop :=
  match a with
  | SA => fst s = snd s /\ SAm (fst s) M
  | PSD => fst s = snd s /\ PSDm (fst s) M
  | St => Stm (fst s) (snd s) M
  | Un => fst s = snd s /\ Unm (fst s) M
  end.

Lemma conj_delta a b : conj (delta (R:=R) a b) = delta a b.
Proof. unfold delta. destruct (Nat.eqb a b); [apply conj_1|apply conj_0]. Qed.
Lemma delta_sym a b : delta (R:=R) a b = delta b a.
Proof. unfold delta. rewrite Nat.eqb_sym. reflexivity. Qed.

(* invariance under entry-wise equality in range *)
Lemma holds_ext a m n M M' : feq m n M M' -> holds a (m, n) M -> holds a (m, n) M'.
Proof. intros E H. destruct a; cbn [holds fst snd] in *.
  - destruct H as [-> H]. split; auto. intros i j Hi Hj. rewrite <- (E i j), <- (E j i) by auto. apply H; auto.
  - destruct H as [-> (k & G & d & Hd & H)]. split; auto. exists k, G, d. split; auto. intros i j Hi Hj. rewrite <- (E i j) by auto. apply H; auto.
  - intros i j Hi Hj. rewrite <- (H i j Hi Hj). apply sum_ext; intros l Hl. rewrite !E by auto. reflexivity.
  - destruct H as [-> [H1 H2]]. split; auto. split.
    + intros i j Hi Hj. rewrite <- (H1 i j Hi Hj). apply sum_ext; intros l Hl. rewrite !E by auto. reflexivity.
    + intros i j Hi Hj. rewrite <- (H2 i j Hi Hj). apply sum_ext; intros l Hl. rewrite !E by auto. reflexivity. Qed.

(* PSD (Gram form) implies self-adjoint *)
Lemma gram_herm k G d i j : (forall l, (l < k)%nat -> nonneg (d l)) -> gram k G d i j = conj (gram k G d j i).
Proof. intros Hd. unfold gram. rewrite conj_sum. apply sum_ext; intros l Hl. rewrite !conj_mul, conj_invol, (nonneg_real _ (Hd l Hl)). ring. Qed.
Lemma PSD_SA n M : PSDm n M -> SAm n M.
Proof. intros (k & G & d & Hd & H) i j Hi Hj. rewrite (H i j), (H j i) by auto. apply gram_herm; auto. Qed.

(* identity *)
Lemma St_eye n : Stm n n eye.
Proof. intros i j Hi Hj. unfold eye. rewrite (sum_ext n _ (fun l => delta i l * delta l j)).
  - rewrite sum_delta_l by auto. reflexivity.
  - intros l Hl. rewrite conj_delta, (delta_sym l i). reflexivity. Qed.
Lemma Co_eye n : Com n n eye.
Proof. intros i j Hi Hj. unfold eye. rewrite (sum_ext n _ (fun l => delta i l * delta l j)).
  - rewrite sum_delta_l by auto. reflexivity.
  - intros l Hl. rewrite conj_delta, (delta_sym j l). reflexivity. Qed.
Lemma PSD_eye n : PSDm n eye.
Proof. exists n, eye, (fun _ => r1). split; [intros; apply nonneg_1|]. intros i j Hi Hj. unfold gram, eye.
  rewrite (sum_ext n _ (fun l => delta i l * delta l j)).
  - rewrite sum_delta_l by auto. reflexivity.
  - intros l Hl. rewrite conj_delta, (delta_sym l i). ring. Qed.

(* sums *)
Lemma SA_zero n : SAm n zerom. Proof. intros i j _ _. unfold zerom. rewrite conj_0. reflexivity. Qed.
Lemma SA_add n A B : SAm n A -> SAm n B -> SAm n (madd A B).
Proof. intros HA HB i j Hi Hj. unfold madd. rewrite conj_add, <- HA, <- HB by auto. reflexivity. Qed.
Lemma PSD_zero n : PSDm n zerom.
Proof. exists 0%nat, zerom, (fun _ => r0). split; [intros; lia|]. intros i j _ _. reflexivity. Qed.
Lemma PSD_add n A B : PSDm n A -> PSDm n B -> PSDm n (madd A B).
Proof. intros (k1 & G1 & d1 & H1 & E1) (k2 & G2 & d2 & H2 & E2).
  exists (k1 + k2)%nat, (fun l i => if (l <? k1)%nat then G1 l i else G2 (l - k1)%nat i), (fun l => if (l <? k1)%nat then d1 l else d2 (l - k1)%nat).
  split.
  - intros l Hl. destruct (Nat.ltb_spec l k1); [apply H1; auto|apply H2; lia].
  - intros i j Hi Hj. unfold madd, gram. rewrite sum_app, E1, E2 by auto. unfold gram. f_equal.
    + apply sum_ext; intros l Hl. destruct (Nat.ltb_spec l k1); [reflexivity|lia].
    + apply sum_ext; intros l Hl. destruct (Nat.ltb_spec (k1 + l) k1); [lia|]. replace (k1 + l - k1)%nat with l by lia. reflexivity. Qed.

(* products: A (m x k), B (k x n) *)
Lemma St_mul m k n A B : Stm m k A -> Stm k n B -> Stm m n (mmul k A B).
Proof. intros HA HB i j Hi Hj. unfold mmul.
  rewrite (sum_ext m _ (fun l => sum k (fun p => sum k (fun q => (conj (B p i) * B q j) * (conj (A l p) * A l q))))).
  2:{ intros l Hl. rewrite conj_sum. rewrite <- sum_mul_r. apply sum_ext; intros p Hp. rewrite <- sum_mul_l. apply sum_ext; intros q Hq. rewrite conj_mul. ring. }
  rewrite sum_swap. rewrite (sum_ext k _ (fun p => conj (B p i) * B p j)).
  - apply HB; auto.
  - intros p Hp. rewrite sum_swap. rewrite (sum_ext k _ (fun q => delta p q * (conj (B p i) * B q j))).
    + rewrite (sum_delta_l k p (fun q => conj (B p i) * B q j)) by auto. reflexivity.
    + intros q Hq. rewrite sum_mul_l. rewrite (HA p q Hp Hq). unfold eye. ring. Qed.
Lemma Co_mul m k n A B : Com m k A -> Com k n B -> Com m n (mmul k A B).
Proof. intros HA HB i j Hi Hj. unfold mmul.
  rewrite (sum_ext n _ (fun l => sum k (fun p => sum k (fun q => (A i p * conj (A j q)) * (B p l * conj (B q l)))))).
  2:{ intros l Hl. rewrite conj_sum. rewrite <- sum_mul_r. apply sum_ext; intros p Hp. rewrite <- sum_mul_l. apply sum_ext; intros q Hq. rewrite conj_mul. ring. }
  rewrite sum_swap. rewrite (sum_ext k _ (fun p => A i p * conj (A j p))).
  - apply HA; auto.
  - intros p Hp. rewrite sum_swap. rewrite (sum_ext k _ (fun q => delta p q * (A i p * conj (A j q)))).
    + rewrite (sum_delta_l k p (fun q => A i p * conj (A j q))) by auto. reflexivity.
    + intros q Hq. rewrite sum_mul_l. rewrite (HB p q Hp Hq). unfold eye. ring. Qed.

(* transposes / adjoints *)
Definition trm (M : fm) : fm := fun i j => M j i.
Definition adm (M : fm) : fm := fun i j => conj (M j i).
Lemma SA_tr n M : SAm n M -> SAm n (trm M).
Proof. intros H i j Hi Hj. unfold trm. apply H; auto. Qed.
Lemma SA_ad n M : SAm n M -> SAm n (adm M).
Proof. intros H i j Hi Hj. unfold adm. rewrite <- (H i j), <- (H j i) by auto. apply H; auto. Qed.
Lemma PSD_tr n M : PSDm n M -> PSDm n (trm M).
Proof. intros (k & G & d & Hd & E). exists k, (fun l i => conj (G l i)), d. split; auto. intros i j Hi Hj. unfold trm, gram.
  rewrite (E j i) by auto. unfold gram. apply sum_ext; intros l Hl. rewrite conj_invol. ring. Qed.
Lemma PSD_ad n M : PSDm n M -> PSDm n (adm M).
Proof. intros H. destruct H as (k & G & d & Hd & E). exists k, G, d. split; auto. intros i j Hi Hj. unfold adm.
  rewrite <- (PSD_SA n M) by (try (exists k, G, d; split; auto); auto). apply E; auto. Qed.
Lemma Un_tr n M : Unm n M -> Unm n (trm M).
Proof. intros [H1 H2]. split; intros i j Hi Hj; unfold trm.
  - transitivity (eye (R:=R) j i); [|unfold eye; apply delta_sym]. rewrite <- (H2 j i Hj Hi). apply sum_ext; intros l Hl. ring.
  - transitivity (eye (R:=R) j i); [|unfold eye; apply delta_sym]. rewrite <- (H1 j i Hj Hi). apply sum_ext; intros l Hl. ring. Qed.
Lemma Un_ad n M : Unm n M -> Unm n (adm M).
Proof. intros [H1 H2]. split; intros i j Hi Hj; unfold adm.
  - rewrite <- (H2 i j Hi Hj). apply sum_ext; intros l Hl. rewrite conj_invol. reflexivity.
  - rewrite <- (H1 i j Hi Hj). apply sum_ext; intros l Hl. rewrite conj_invol. reflexivity. Qed.

(* Gram patterns A^H A and A A^H *)
Lemma PSD_AHA m n A : PSDm n (mmul m (adm A) A).
Proof. exists m, A, (fun _ => r1). split; [intros; apply nonneg_1|]. intros i j Hi Hj. unfold mmul, adm, gram. apply sum_ext; intros l Hl. ring. Qed.
Lemma PSD_AAH m n A : PSDm m (mmul n A (adm A)).
Proof. exists n, (adm A), (fun _ => r1). split; [intros; apply nonneg_1|]. intros i j Hi Hj. unfold mmul, adm, gram. apply sum_ext; intros l Hl.
  rewrite conj_invol. ring. Qed.

(* principal sub-matrices *)
Lemma SA_sub n M idx : (forall i, (i < length idx)%nat -> (nth i idx 0 < n)%nat) -> SAm n M -> SAm (length idx) (fun i j => M (nth i idx 0%nat) (nth j idx 0%nat)).
Proof. intros Hb H i j Hi Hj. apply H; auto. Qed.
Lemma PSD_sub n M idx : (forall i, (i < length idx)%nat -> (nth i idx 0 < n)%nat) -> PSDm n M -> PSDm (length idx) (fun i j => M (nth i idx 0%nat) (nth j idx 0%nat)).
Proof. intros Hb (k & G & d & Hd & E). exists k, (fun l i => G l (nth i idx 0%nat)), d. split; auto. intros i j Hi Hj. rewrite E by auto. reflexivity. Qed.
End Sem.
