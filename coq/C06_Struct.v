(* C06 - the structural rules (Kronecker, BlockDiag, Product) and the main theorems: inv_den, solve_correct,
   inv_left_product, inv_transpose, auto_choice_table. *)
From Coq Require Import Arith Lia List Ring Field ArithRing PeanoNat Bool NArith.
From Core Require Import Base Kron KronAlg Op OpProofs Algebra AlgebraProofs AlgebraKron FieldBase C06_Inv C06_Proofs.
Import ListNotations.
Section S.
Context {R : Type} {RR : Ring R} {CR : CRing R} {FR : Field R}.
Add Ring Rring : Rth.
Open Scope R_scope.
Notation fm := (fm (R:=R)). Notation arr := (arr (R:=R)). Notation op := (op (R:=R)). Notation fac := (fac (R:=R)).
Notation iop := (iop (R:=R)). Notation ires := (ires (R:=R)).

(* ---------- Kronecker products of inverses ---------- *)
Definition facinv (B A : fac) := fr A = fc A /\ (0 < fr A)%nat /\ fr B = fr A /\ fc B = fr A /\ inv2 (fr A) (fmx B) (fmx A).
Lemma kron2_eye (X Y : fac) a N : fr X = a -> fc X = a -> fr Y = N -> fc Y = N -> (0 < N)%nat ->
  feq a a (fmx X) eye -> feq N N (fmx Y) eye -> feq (a * N) (a * N) (fmx (kron2 X Y)) eye.
Proof. intros E1 E2 E3 E4 HN HX HY i j Hi Hj. cbn [kron2 fmx]. rewrite E3, E4.
  rewrite HX, HY; try (apply Nat.mod_upper_bound; lia); try (apply Nat.div_lt_upper_bound; nia).
  unfold eye. symmetry. apply delta_divmod; auto. Qed.
Lemma kron_inv2 (Bs As : list fac) : Forall2 facinv Bs As ->
  let N := fr (kronR As) in
  fc (kronR As) = N /\ fr (kronR Bs) = N /\ fc (kronR Bs) = N /\ (0 < N)%nat /\ inv2 N (fmx (kronR Bs)) (fmx (kronR As)).
Proof. induction 1 as [|B A Bs As (Sq & Pos & E1 & E2 & I) HF IH]; cbn zeta in *.
  - cbn [kronR one11 fr fc fmx]. repeat split; auto; intros i j Hi Hj; unfold mmul; cbn [sum]; unfold eye, delta;
    assert (i = 0 /\ j = 0)%nat as [-> ->] by lia; cbn [Nat.eqb]; ring.
  - destruct IH as (F1 & F2 & F3 & PN & IN). set (N := fr (kronR As)) in *. set (a := fr A) in *.
    cbn [kronR kron2 fr fc]. fold N. rewrite F1, F2, F3, E1, E2, <- Sq. fold a.
    repeat split; auto; try nia.
    + intros i j Hi Hj.
      pose proof (kron2_mixed B (kronR Bs) A (kronR As) i j) as M. rewrite F3, E2 in M. fold a N in M.
      rewrite M by (try lia; congruence).
      apply (kron2_eye (fmul B A) (fmul (kronR Bs) (kronR As)) a N); auto; cbn [fmul fr fc fmx]; try congruence.
      * rewrite E2. fold a. apply (proj1 I).
      * rewrite F3. apply (proj1 IN).
    + intros i j Hi Hj.
      pose proof (kron2_mixed A (kronR As) B (kronR Bs) i j) as M. rewrite F1, F2, <- Sq in M. fold a N in M.
      rewrite M by (try lia; congruence).
      apply (kron2_eye (fmul A B) (fmul (kronR As) (kronR Bs)) a N); auto; cbn [fmul fr fc fmx]; try congruence.
      * rewrite <- Sq. fold a. apply (proj2 I).
      * rewrite F1. apply (proj2 IN).
Qed.

(* ---------- block-diagonal matrices of inverses ---------- *)
Definition blkinv (B A : blk) := exists n, fst A = (n, n) /\ fst B = (n, n) /\ inv2 n (snd B) (snd A).
Lemma bd_inv2 (Bs As : list blk) : Forall2 blkinv Bs As ->
  let N := rowsB As in colsB As = N /\ rowsB Bs = N /\ colsB Bs = N /\ inv2 N (bd Bs) (bd As).
Proof. induction 1 as [|[sb B] [sa A] Bs As (n & Ea & Eb & I) HF IH]; cbn zeta in *.
  - cbn [rowsB colsB fold_right]. repeat split; auto; intros i j Hi Hj; lia.
  - cbn [fst snd] in *. subst sa sb. destruct IH as (F1 & F2 & F3 & IN). set (N := rowsB As) in *.
    cbn [rowsB colsB fold_right fst snd]. fold (rowsB As) (colsB As) (rowsB Bs) (colsB Bs). rewrite F1, F2, F3. fold N.
    assert (G : forall (B0 A0 : fm) (Bs0 As0 : list blk), colsB Bs0 = N -> feq n n (mmul n B0 A0) eye -> feq N N (mmul N (bd Bs0) (bd As0)) eye ->
                feq (n + N) (n + N) (mmul (n + N) (bd (((n, n), B0) :: Bs0)) (bd (((n, n), A0) :: As0))) eye).
    { intros B1 A1 Bs1 As1 EC H1 H2 i j Hi Hj.
      transitivity (bdmul (((n, n), B1) :: Bs1) (fun g => bd (((n, n), A1) :: As1) g j) i).
      { unfold bdmul, mmul. cbn [colsB fold_right fst snd]. fold (colsB Bs1). rewrite EC. reflexivity. }
      rewrite bdmul_cons. cbn [fst snd]. destruct (Nat.ltb_spec i n) as [Hin|Hin].
      - destruct (Nat.ltb_spec j n) as [Hjn|Hjn].
        + rewrite <- (H1 i j Hin Hjn). unfold mmul. apply sum_ext. intros g Hg. cbn [bd fst snd].
          destruct (Nat.ltb_spec g n); [|lia]. destruct (Nat.ltb_spec j n); [reflexivity|lia].
        + rewrite (sum_ext n _ (fun _ => r0)); [rewrite sum_zero; unfold eye, delta; destruct (Nat.eqb_spec i j); [lia|reflexivity]|].
          intros g Hg. cbn [bd fst snd]. destruct (Nat.ltb_spec g n); [|lia]. destruct (Nat.ltb_spec j n); [lia|ring].
      - unfold bdmul. rewrite EC. destruct (Nat.ltb_spec j n) as [Hjn|Hjn].
        + rewrite (sum_ext N _ (fun _ => r0)); [rewrite sum_zero; unfold eye, delta; destruct (Nat.eqb_spec i j); [lia|reflexivity]|].
          intros g Hg. cbn [bd fst snd]. destruct (Nat.ltb_spec (n + g) n); [lia|]. destruct (Nat.ltb_spec j n); [ring|lia].
        + transitivity (mmul N (bd Bs1) (bd As1) (i - n)%nat (j - n)%nat).
          * unfold mmul. apply sum_ext. intros g Hg. cbn [bd fst snd]. destruct (Nat.ltb_spec (n + g) n); [lia|]. destruct (Nat.ltb_spec j n); [lia|].
            replace (n + g - n)%nat with g by lia. reflexivity.
          * rewrite H2 by lia. unfold eye, delta. destruct (Nat.eqb_spec (i - n) (j - n)), (Nat.eqb_spec i j); try reflexivity; lia. }
    repeat split; auto; apply G; auto; try apply (proj1 I); try apply (proj2 I); try apply (proj1 IN); try apply (proj2 IN).
Qed.
Lemma Forall2_rep {A B} (Q : A -> B -> Prop) k x y : Q x y -> Forall2 Q (rep k x) (rep k y).
Proof. intros H. induction k; cbn [rep]; constructor; auto. Qed.

Variable gmres_amb : bool.
Variable fwd_strict : bool.
Variable lu_o : nat -> fm -> (nat -> nat) * fm * fm.
Variable chol_o : nat -> fm -> fm.
Variable tinv_o : nat -> fm -> bool -> fm.
Variable iter_o : itag -> op -> fm.
Notation inv := (inv gmres_amb fwd_strict lu_o chol_o).
Notation base := (base lu_o chol_o).
Notation to_op := (to_op tinv_o iter_o).
Notation good := (good tinv_o iter_o).
Notation base_ok := (base_ok lu_o chol_o iter_o).
Notation tinv_ok := (tinv_ok tinv_o).

Definition goodl (ms : list op) (rs : list iop) := Forall2 (fun m r => good r m) ms rs.
Lemma goodl_shapes ms rs : goodl ms rs -> map shape (map to_op rs) = map shape ms /\ forallb wf (map to_op rs) = true.
Proof. induction 1 as [|m r ms rs (W & S & _) _ [IH1 IH2]]; [split; reflexivity|]. cbn [map forallb]. rewrite S, IH1, W, IH2. split; reflexivity. Qed.

Lemma kron_good ms rs : wf (Kron ms) = true -> forallb is_sq ms = true -> goodl ms rs -> good (IKron rs) (Kron ms).
Proof. intros W Sq G. destruct (goodl_shapes ms rs G) as [ES EW]. cbn [wf] in W. apply andb_prop in W as [W Pos].
  unfold C06_Proofs.good. change (to_op (IKron rs)) with (Kron (map to_op rs)).
  split; [cbn [wf]; rewrite EW, ES, Pos; reflexivity|]. split; [cbn [shape]; rewrite ES; reflexivity|].
  assert (FI : Forall2 facinv (map facof (map to_op rs)) (map facof ms)).
  { clear ES EW. induction G as [|m r ms rs (Wr & Sr & I) G IH]; cbn [map]; constructor.
    - cbn [forallb] in Sq, W, Pos. apply andb_prop in Sq as [Sq _]. cbn [map forallb] in Pos. apply andb_prop in Pos as [P _]. apply andb_prop in P as [P _].
      apply Nat.ltb_lt in P. apply Nat.eqb_eq in Sq. unfold facinv, facof. cbn [fr fc fmx]. rewrite Sr. repeat split; auto; try apply (proj1 I); try apply (proj2 I).
    - cbn [forallb map] in Sq, W, Pos. apply andb_prop in Sq as [_ Sq]. apply andb_prop in W as [_ W]. apply andb_prop in Pos as [_ Pos]. apply IH; auto. }
  destruct (kron_inv2 _ _ FI) as (F1 & F2 & F3 & PN & IN).
  change (den (Kron (map to_op rs))) with (fmx (kronR (map facof (map to_op rs)))). change (den (Kron ms)) with (fmx (kronR (map facof ms))).
  cbn [shape]. rewrite kshape_kronR. cbn [fst]. exact IN. Qed.

Lemma bdiag_good (ms : list (op * nat)) rs : wf (BDiag ms) = true -> forallb (fun mc => is_sq (fst mc)) ms = true -> goodl (map fst ms) rs ->
  good (IBDiag (combine rs (map snd ms))) (BDiag ms).
Proof. intros W Sq G. cbn [wf] in W.
  unfold C06_Proofs.good. change (to_op (IBDiag (combine rs (map snd ms)))) with (BDiag (map (fun mc => (to_op (fst mc), snd mc)) (combine rs (map snd ms)))).
  set (ps := map (fun mc : iop * nat => (to_op (fst mc), snd mc)) (combine rs (map snd ms))).
  assert (H : forallb (fun mc => wf (fst mc)) ps = true /\ map (fun mc => (shape (fst mc), snd mc)) ps = map (fun mc => (shape (fst mc), snd mc)) ms
              /\ Forall2 blkinv (blocks ps) (blocks ms)).
  { unfold ps. clear ps. revert rs G. induction ms as [|[m mu] ms IH]; intros rs G; inversion G as [|? r ? rs' (Wr & Sr & I) G']; subst.
    - repeat split; constructor.
    - cbn [forallb fst] in W, Sq. apply andb_prop in W as [_ W]. apply andb_prop in Sq as [Sq1 Sq]. destruct (IH W Sq rs' G') as (A1 & A2 & A3).
      cbn [map combine fst snd forallb]. rewrite Wr, A1, A2, Sr. repeat split; auto.
      unfold blocks in *. cbn [map concat fst snd]. apply Forall2_app; [|exact A3]. apply Forall2_rep.
      exists (fst (shape m)). cbn [fst snd]. rewrite Sr. split; [apply sq_shape; auto|]. split; [apply sq_shape; auto|exact I]. }
  destruct H as (H1 & H2 & H3). destruct (bd_inv2 _ _ H3) as (F1 & F2 & F3 & IN).
  split; [exact H1|]. split; [cbn [shape]; rewrite H2; reflexivity|].
  change (den (BDiag ps)) with (bd (blocks ps)). change (den (BDiag ms)) with (bd (blocks ms)).
  cbn [shape]. rewrite bshape_blocks. cbn [fst]. exact IN. Qed.

(* ---------- products: the inverse is the reversed product of the inverses ---------- *)
Lemma goodl_all n ms rs : goodl ms rs -> Forall (fun m => shape m = (n, n)) ms -> Forall (fun r => wf (to_op r) = true /\ shape (to_op r) = (n, n)) rs.
Proof. induction 1 as [|m r ms rs (Wr & Sr & _) G IH]; intros HF; [constructor|]. inversion HF; subst. constructor; [split; congruence|auto]. Qed.
Lemma chain_inv2 n ms rs : goodl ms rs -> Forall (fun m => shape m = (n, n)) ms -> inv2 n (chainl (map to_op (rev rs))) (chainl ms).
Proof. induction 1 as [|m r ms rs (Wr & Sr & I) G IH]; intros HF.
  - cbn [rev map]. apply inv2_eye.
  - inversion HF as [|? ? Sm HF']; subst. specialize (IH HF'). rewrite Sm in *. cbn [fst] in I.
    rewrite chainl_cons, Sm. cbn [snd rev]. rewrite map_app. cbn [map].
    assert (E : feq n n (chainl (map to_op (rev rs) ++ [to_op r])) (mmul n (chainl (map to_op (rev rs))) (den (to_op r)))).
    { destruct (map to_op (rev rs)) as [|x l] eqn:El.
      - cbn [app]. rewrite chainl_cons, Sr. cbn [snd]. intros i j Hi Hj. change (chainl []) with (eye (R:=R)).
        rewrite mmul_eye_r, mmul_eye_l by auto. reflexivity.
      - intros i j Hi Hj. rewrite chainl_app by discriminate.
        assert (EL : snd (last (map shape (x :: l)) (0,0)%nat) = n).
        { rewrite <- El.
          assert (AL : forall s, In s (map shape (map to_op (rev rs))) -> s = (n, n)).
          { intros s Hs. apply in_map_iff in Hs as [y [<- Hy]]. apply in_map_iff in Hy as [z [<- Hz]]. apply in_rev in Hz.
            pose proof (goodl_all n ms rs G HF') as GA. rewrite Forall_forall in GA. apply GA; auto. }
          assert (NE : map shape (map to_op (rev rs)) <> []) by (rewrite El; discriminate).
          destruct (exists_last NE) as (l0 & s0 & E0). rewrite E0, last_last. rewrite (AL s0); [reflexivity|]. rewrite E0. apply in_or_app. right. left. reflexivity. }
        rewrite EL. apply (mmul_ext n n n); auto using feq_refl. intros a b Ha Hb. rewrite chainl_cons, Sr. cbn [snd].
        change (chainl []) with (eye (R:=R)). apply mmul_eye_r; auto. }
    eapply inv2_ext; [apply feq_sym; exact E|apply feq_refl|]. apply inv2_mul; auto. Qed.
Lemma all_sq_shapes (ms : list op) : ms <> [] -> forallb is_sq ms = true -> chain_ok (map shape ms) = true ->
  let n := fst (hd (0,0)%nat (map shape ms)) in Forall (fun m => shape m = (n, n)) ms.
Proof. destruct ms as [|m ms]; [contradiction|]. intros _ Sq Ch. cbn [map hd]. cbn zeta. revert m Sq Ch.
  induction ms as [|m' ms IH]; intros m Sq Ch.
  - cbn [forallb] in Sq. apply andb_prop in Sq as [Sq _]. constructor; [apply sq_shape; auto|constructor].
  - cbn [forallb] in Sq. apply andb_prop in Sq as [S1 Sq]. cbn [map chain_ok] in Ch. apply andb_prop in Ch as [C1 Ch]. apply Nat.eqb_eq in C1.
    pose proof (sq_shape m S1) as E1. assert (S2 := Sq). cbn [forallb] in S2. apply andb_prop in S2 as [S2 _]. pose proof (sq_shape m' S2) as E2.
    assert (EN : fst (shape m') = fst (shape m)). { rewrite E1 in C1. cbn [snd] in C1. auto. }
    constructor; [exact E1|]. rewrite <- EN. apply IH; auto. Qed.
Lemma prod_good ms rs : wf (Prod ms) = true -> forallb is_sq ms = true -> goodl ms rs -> good (IProd (rev rs)) (Prod ms).
Proof. intros W Sq G. cbn [wf] in W. apply andb_prop in W as [W Ch]. apply andb_prop in W as [Ne W].
  assert (Ne' : ms <> []) by (destruct ms; discriminate).
  pose proof (all_sq_shapes ms Ne' Sq Ch) as AS. cbn zeta in AS. set (n := fst (hd (0,0)%nat (map shape ms))) in *.
  destruct (goodl_shapes ms rs G) as [ES EW].
  unfold C06_Proofs.good. change (to_op (IProd (rev rs))) with (Prod (map to_op (rev rs))).
  assert (WS : wf (Prod (map to_op (rev rs))) = true /\ shape (Prod (map to_op (rev rs))) = (n, n)).
  { apply wf_prod_sq.
    - assert (NR : rs <> []) by (clear - G Ne'; destruct G; [contradiction|discriminate]).
      intros E. apply map_eq_nil in E. apply (f_equal (@rev _)) in E. rewrite rev_involutive in E. cbn in E. contradiction.
    - apply Forall_forall. intros x Hx. apply in_map_iff in Hx as [y [<- Hy]]. apply in_rev in Hy.
      pose proof (goodl_all n ms rs G AS) as GA. rewrite Forall_forall in GA. apply GA; auto. }
  assert (SP : shape (Prod ms) = (n, n)).
  { assert (WP : wf (Prod ms) = true /\ shape (Prod ms) = (n, n)); [|tauto]. apply wf_prod_sq; auto.
    rewrite Forall_forall in *. rewrite forallb_forall in W. intros x Hx. split; auto. }
  split; [exact (proj1 WS)|]. split; [rewrite SP; exact (proj2 WS)|]. rewrite SP. cbn [fst].
  change (den (Prod (map to_op (rev rs)))) with (chainl (map to_op (rev rs))). change (den (Prod ms)) with (chainl ms).
  apply chain_inv2; auto. Qed.

(* ---------- the hypotheses on the leaves ("nonsingular"), following the same rule selection ---------- *)
Fixpoint ok (al : alg) (e : op) (a : atree) {struct e} : Prop :=
  match e with
  | Ident _ => True
  | Scal c _ => c <> r0
  | Diag n d => forall i, (i < n)%nat -> d i <> r0
  | Perm n p => is_perm n p
  | Dense A => match atri a with
               | Some lo => nr A = nc A /\ tri lo (nr A) (dat A) /\ nzdiag (nr A) (dat A)
               | None => base_ok al e a
               end
  | Kron ms => forallb is_sq ms = true /\ Forall (fun P : Prop => P) (zipapp (map (fun m k => ok (child_alg fwd_strict (apsd a) al k) m k) ms) (akids a))
  | BDiag ms => forallb (fun mc => is_sq (fst mc)) ms = true /\ Forall (fun P : Prop => P) (zipapp (map (fun mc k => ok (child_alg fwd_strict (apsd a) al k) (fst mc) k) ms) (akids a))
  | Prod ms => if forallb is_sq ms then Forall (fun P : Prop => P) (zipapp (map (fun m k => ok (child_alg fwd_strict (apsd a) al k) m k) ms) (akids a)) else base_ok al e a
  | _ => base_ok al e a
  end.

Definition Pgood (e : op) := forall al a r, wf e = true -> is_sq e = true -> ok al e a -> inv al e a = IOk r -> good r e.
Lemma zipapp_cons {A} (f : atree -> A) fs ks : zipapp (f :: fs) ks = f (hd adef ks) :: zipapp fs (tl ks).
Proof. destruct ks; reflexivity. Qed.
Lemma list_good (ca : atree -> alg) (ms : list op) : Forall Pgood ms -> forall ks rs, forallb wf ms = true -> forallb is_sq ms = true ->
  Forall (fun P : Prop => P) (zipapp (map (fun m k => ok (ca k) m k) ms) ks) ->
  seqres (zipapp (map (fun m k => inv (ca k) m k) ms) ks) = inr rs -> goodl ms rs.
Proof. induction 1 as [|m ms Pm HF IH]; intros ks rs W Sq OK H.
  - cbn in H. inversion H; subst. constructor.
  - cbn [map] in OK, H. rewrite zipapp_cons in OK. rewrite zipapp_cons in H. cbn [seqres] in H. inversion OK as [|? ? O1 O2]; subst.
    cbn [forallb] in W, Sq. apply andb_prop in W as [W1 W]. apply andb_prop in Sq as [S1 Sq].
    destruct (inv (ca (hd adef ks)) m (hd adef ks)) as [r|k] eqn:E; [|discriminate].
    destruct (seqres (zipapp (map (fun m k => inv (ca k) m k) ms) (tl ks))) as [k|rs'] eqn:E2; [discriminate|]. inversion H; subst rs.
    constructor; [apply (Pm (ca (hd adef ks)) (hd adef ks)); auto|]. apply (IH (tl ks)); auto. Qed.
Lemma lift_ok (f : list iop -> iop) x r : lift f x = IOk r -> exists rs, x = inr rs /\ r = f rs.
Proof. destruct x; cbn [lift]; intros H; inversion H. eexists; split; reflexivity. Qed.
Lemma forallb_rev {A} (f : A -> bool) l : forallb f (rev l) = forallb f l.
Proof. destruct (forallb f l) eqn:E.
  - apply forallb_forall. intros x Hx. rewrite forallb_forall in E. apply E. apply in_rev; auto.
  - destruct (forallb f (rev l)) eqn:E2; [|reflexivity]. rewrite forallb_forall in E2.
    assert (forallb f l = true); [|congruence]. apply forallb_forall. intros x Hx. apply E2. apply -> in_rev; auto. Qed.
Lemma forallb_map_fst {A B} (f : A -> bool) (l : list (A * B)) : forallb f (map fst l) = forallb (fun mc => f (fst mc)) l.
Proof. induction l as [|x l IH]; cbn; [reflexivity|rewrite IH; reflexivity]. Qed.
Lemma direct_bdiag (rs : list iop) (mus : list nat) : length mus = length rs -> forallb (fun mc : iop * nat => direct (fst mc)) (combine rs mus) = forallb direct rs.
Proof. revert mus. induction rs as [|r rs IH]; intros [|mu mus] H; cbn in *; try reflexivity; try lia. rewrite IH by lia. reflexivity. Qed.

(* C06: on every dispatch path the returned operator is a well-formed operator of the same shape whose matrix is a two-sided
   inverse of the input's matrix (iterative paths: provided the solver is exact on the operators it is applied to) *)
Theorem inv_den : tinv_ok -> forall e, Pgood e.
Proof. intros TO. apply op_ind2; unfold Pgood.
  - (* Dense *) intros A al a r W Sq OK H. cbn [inv ok] in *. destruct (atri a) as [lo|].
    + apply amb_ok in H. inversion H; subst r. destruct OK as (E & T & N). apply good_Tri; auto.
    + eapply base_good; eauto.
  - (* Diag *) intros n d al a r W Sq OK H. cbn [inv ok] in *. apply amb_ok in H. inversion H; subst r. apply good_Diag; auto.
  - intros n al a r W Sq OK H. cbn [inv] in H. apply amb_ok in H. inversion H; subst r. apply good_Ident.
  - intros c n al a r W Sq OK H. cbn [inv ok] in *. apply amb_ok in H. inversion H; subst r. apply good_Scal; auto.
  - (* Sum *) intros ms _ al a r W Sq OK H. eapply base_good; eauto.
  - (* Prod *) intros ms HF al a r W Sq OK H. cbn [inv ok] in *. destruct (forallb is_sq ms) eqn:SQ; [|eapply base_good; eauto].
    apply lift_ok in H as (rs & E & ->).
    apply prod_good; auto. eapply list_good; eauto.
    cbn [wf] in W. apply andb_prop in W as [W _]. apply andb_prop in W as [_ W]. exact W.
  - (* Kron *) intros ms HF al a r W Sq OK H. cbn [inv ok] in *. apply amb_ok in H. apply lift_ok in H as (rs & E & ->). destruct OK as [SQ OK].
    apply kron_good; auto. eapply list_good; eauto. cbn [wf] in W. apply andb_prop in W as [W _]. exact W.
  - (* BDiag *) intros ms HF al a r W Sq OK H. cbn [inv ok] in *. apply amb_ok in H. apply lift_ok in H as (rs & E & ->). destruct OK as [SQ OK].
    assert (G : goodl (map fst ms) rs).
    { apply (list_good (child_alg fwd_strict (apsd a) al) (map fst ms)) with (ks := akids a); auto.
      - apply Forall_map. exact HF.
      - cbn [wf] in W. rewrite forallb_map_fst. exact W.
      - rewrite forallb_map_fst. exact SQ.
      - rewrite map_map. exact OK.
      - rewrite map_map. exact E. }
    apply bdiag_good; auto.
  - intros e _ al a r W Sq OK H. eapply base_good; eauto.
  - intros e _ al a r W Sq OK H. eapply base_good; eauto.
  - intros A al a r W Sq OK H. eapply base_good; eauto.
  - (* Perm *) intros n p al a r W Sq OK H. cbn [inv ok] in *. apply amb_ok in H. inversion H; subst r. apply good_Perm; auto.
  - intros n al be ga alg a r W Sq OK H. eapply base_good; eauto.
  - intros n v beta al a r W Sq OK H. eapply base_good; eauto.
  - intros m n ent al a r W Sq OK H. eapply base_good; eauto.
  - intros ms _ al a r W Sq OK H. eapply base_good; eauto.
  - intros e rs cs _ al a r W Sq OK H. eapply base_good; eauto.
  - intros ms _ al a r W Sq OK H. eapply base_good; eauto.
Qed.
End S.
