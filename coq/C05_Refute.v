(* C05: the three unsound inference behaviours of the pinned tree, each refuted on a concrete operator
   (Gaussian integers; nonneg z := z is a non-negative real integer). *)
From Coq Require Import ZArith Arith Lia List Bool.
From Core Require Import Base Kron Op OpProofs ZIInst C05_Annot C05_Sem C05_Sem2 C05_Sound.
Import ListNotations.
Definition zi_nonneg (z : zi) : Prop := snd z = 0%Z /\ (0 <= fst z)%Z.
Lemma zi_nonneg_1 : zi_nonneg r1. Proof. split; cbn; lia. Qed.
Lemma zi_nonneg_mul a b : zi_nonneg a -> zi_nonneg b -> zi_nonneg (rmul a b).
Proof. destruct a as [a1 a2], b as [b1 b2]. unfold zi_nonneg. cbn. intros [-> Ha] [-> Hb]. split; nia. Qed.
Lemma zi_nonneg_real a : zi_nonneg a -> conj a = a.
Proof. destruct a as [a1 a2]. unfold zi_nonneg. cbn. intros [-> _]. reflexivity. Qed.
Notation zsem := (sem zi_nonneg).
Notation ztruthful := (truthful zi_nonneg).

Definition only_scalar := {| keep_scalar := true; keep_stiefel := false; ata_transpose := false |}.
Definition only_stiefel := {| keep_scalar := false; keep_stiefel := true; ata_transpose := false |}.
Definition only_ata := {| keep_scalar := false; keep_stiefel := false; ata_transpose := true |}.

(* 2 * I is reported Unitary *)
Definition w_scalar : aop (R:=zi) := XProd [XLeaf (Scal (2,0)%Z 1) []; XLeaf (Ident 1) []] [].
Theorem scalar_keeps_annotations_refuted :
  wf (erase w_scalar) = true /\ ztruthful w_scalar /\ mem Un (infer only_scalar w_scalar) = true /\ ~ zsem w_scalar Un.
Proof. split; [reflexivity|]. split; [cbn; intuition|]. split; [reflexivity|].
  intros [_ [H _]]. specialize (H 0%nat 0%nat ltac:(cbn; lia) ltac:(cbn; lia)). cbv in H. discriminate. Qed.

(* the adjoint of a 2x1 matrix with orthonormal columns is reported to have orthonormal columns *)
Definition w_stiefel : aop (R:=zi) := XAdj (XLeaf (Dense (of_list_mn 2 1 [[(1,0)%Z]; [(0,0)%Z]])) [St]) [].
Theorem transpose_keeps_stiefel_refuted :
  wf (erase w_stiefel) = true /\ ztruthful w_stiefel /\ mem St (infer only_stiefel w_stiefel) = true /\ ~ zsem w_stiefel St.
Proof. split; [reflexivity|]. split.
  - cbn. split; [intros a []|]. split; [|exact I]. intros a [<-|[]]. intros i j Hi Hj. cbn in Hi, Hj. assert (i = 0 /\ j = 0)%nat as [-> ->] by lia. reflexivity.
  - split; [reflexivity|]. intros H. specialize (H 1%nat 1%nat ltac:(cbn; lia) ltac:(cbn; lia)). cbv in H. discriminate. Qed.

(* K^T K is reported PSD for complex K *)
Definition Kc : arr (R:=zi) := of_list_mn 2 2 [[(1,0)%Z; (0,1)%Z]; [(0,0)%Z; (1,0)%Z]].
Definition w_ata : aop (R:=zi) := XGram false true false (XLeaf (Gen Kc) []) [].
Theorem ata_psd_refuted :
  wf (erase w_ata) = true /\ ztruthful w_ata /\ mem PSD (infer only_ata w_ata) = true /\ ~ zsem w_ata PSD.
Proof. split; [reflexivity|]. split.
  - cbn. split; [intros a []|]. split; [split; [intros a []|exact I]|]. intros H; discriminate.
  - split; [reflexivity|]. intros [_ H]. apply (PSD_SA zi_nonneg zi_nonneg_real) in H.
    specialize (H 0%nat 1%nat ltac:(cbn; lia) ltac:(cbn; lia)). cbv in H. discriminate. Qed.
