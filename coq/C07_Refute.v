(* C07 - (1) the exact execution instance qdom satisfies the laws, so slogdet_det_all applies literally to the term
   that vm_compute runs in the correspondence check; (2) refutation witnesses: with a recorded flag ON (the pinned
   tree's behaviour) the model's answer is NOT the determinant, on a concrete small operator, for every determinant
   function satisfying the interface. *)
From Coq Require Import Arith Lia List Ring Field QArith Qcanon ZArith PeanoNat Bool.
From Core Require Import Base Kron Op FieldBase C07_DetLaws C07_Slogdet C07_Proofs C07_Exec.
Import ListNotations.

Lemma Qc_eq_bool_refl x : Qc_eq_bool x x = true.
Proof. unfold Qc_eq_bool. destruct (Qc_eq_dec x x); congruence. Qed.
Lemma qi_eqb_eq a b : qi_eqb a b = true -> a = b.
Proof. destruct a, b. unfold qi_eqb; cbn [fst snd]. intros H. apply andb_prop in H as [A B].
  apply Qc_eq_bool_correct in A, B. congruence. Qed.
Lemma qi_neq a b : qi_eqb a b = false -> a <> b.
Proof. intros H E. subst. unfold qi_eqb in H. rewrite !Qc_eq_bool_refl in H. discriminate. Qed.
Lemma qimul_1_l z : qimul qi1 z = z. Proof. exact (Rmul_1_l QIth z). Qed.
Lemma qiinv_1 : qiinv qi1 = qi1. Proof. apply qi_eqb_eq. vm_compute. reflexivity. Qed.
Lemma qiconj_1 : qiconj qi1 = qi1. Proof. apply qi_eqb_eq. vm_compute. reflexivity. Qed.

Lemma qdom_laws : sdom_laws (R:=qi) sd sd qdom.
Proof. constructor; cbn [qdom vone vmul vinv vconj vof vabs lzero ladd lscale llog lexp lre lph].
  - intros [a qa] [b qb]. unfold sdmul; cbn [fst snd]. f_equal; [apply (Rmul_comm QIth)|ring].
  - intros [a qa] [b qb] [c qc']. unfold sdmul; cbn [fst snd]. f_equal; [apply (Rmul_assoc QIth)|ring].
  - intros [a qa]. unfold sdmul, sd1; cbn [fst snd]. f_equal; [apply qimul_1_l|ring].
  - intros x y. unfold sdmul, sdof; cbn [fst snd]. f_equal; try ring.
  - reflexivity.
  - intros c Hc. unfold sdmul, sdinv, sdabs, sd1; cbn [fst snd]. rewrite qiinv_1, qimul_1_l. f_equal.
    apply Qcmult_inv_r. apply qinorm2_nz. exact Hc.
  - reflexivity.
  - reflexivity.
  - intros k a. induction k; cbn [sdpow vpow]; [reflexivity|]. rewrite IHk. reflexivity.
  - reflexivity.
  - intros [a qa] [b qb]. unfold sdconj, sdmul; cbn [fst snd]. f_equal. exact (@conj_mul qi QIRing QICRing a b).
  - unfold sdconj, sd1; cbn [fst snd]. rewrite qiconj_1. reflexivity.
  - reflexivity.
  - intros c. unfold sdconj, sdabs; cbn [fst snd]. rewrite qiconj_1. reflexivity.
  - intros c _. unfold sdconj, sdinv, sdabs; cbn [fst snd]. rewrite qiinv_1, qiconj_1. reflexivity.
  - intros [a qa]. unfold sdmul, sd1; cbn [fst snd]. f_equal; [apply qimul_1_l|ring].
Qed.

Section Witnesses.
Variable fdet : nat -> fm (R:=qi) -> qi.
Hypothesis DL : DetLaws fdet.
(* what vm_compute runs is covered by the theorem *)
Theorem slogdet_qdom alg (e : sop (R:=qi) sd) : valid sd sd qdom fdet alg e ->
  sdmul (fst (slogdet qdom all_fixed alg e)) (snd (slogdet qdom all_fixed alg e)) = sdof (fdet (dim e) (den (to_op e))).
Proof. intros Hv. exact (slogdet_det_all sd sd qdom qdom_laws fdet DL alg e Hv). Qed.

Definition q2 : qi := qic 2 1 0 1.
(* ScalarMul: det (2 * I_3) = 8, the pinned rule answers 2 *)
Definition w_scal : sop (R:=qi) sd := SScal q2 3.
Theorem scalar_slogdet_ignores_n_refuted :
  valid sd sd qdom fdet AAuto w_scal /\
  ev qdom (slogdet qdom (mkflags true false false) AAuto w_scal) <> vof qdom (fdet (dim w_scal) (den (to_op w_scal))).
Proof. split.
  - apply V_Scal. apply qi_neq. vm_compute. reflexivity.
  - unfold w_scal, dim. cbn [to_op shape den fst]. rewrite (fdet_scal fdet DL). intro H.
    apply (f_equal (fun x : sd => qi_eqb (fst x) q2)) in H. vm_compute in H. discriminate H. Qed.
(* Permutation [1,0,2] is odd: det = -1, the pinned rule answers +1 *)
Definition w_perm : sop (R:=qi) sd := SPerm 3 (nvec [1;0;2]%nat).
Lemma w_perm_is_perm : is_perm 3 (nvec [1;0;2]%nat).
Proof. split.
  - intros i Hi. destruct i as [|[|[|i]]]; cbn; lia.
  - intros a b Ha Hb. destruct a as [|[|[|a]]]; destruct b as [|[|[|b]]]; cbn; lia. Qed.
Theorem perm_slogdet_ignores_parity_refuted :
  valid sd sd qdom fdet AAuto w_perm /\
  ev qdom (slogdet qdom (mkflags false true false) AAuto w_perm) <> vof qdom (fdet (dim w_perm) (den (to_op w_perm))).
Proof. split.
  - apply V_Perm. exact w_perm_is_perm.
  - unfold w_perm, dim. cbn [to_op shape den fst]. rewrite (fdet_perm fdet DL 3 _ w_perm_is_perm). intro H.
    apply (f_equal (fun x : sd => qi_eqb (fst x) qi1)) in H. vm_compute in H. discriminate H. Qed.
(* ... and through P@L@U every dense operator with an odd pivot permutation: A = [[0,1],[1,0]], P = [1,0], L = U = I *)
Definition w_swap : sop (R:=qi) sd :=
  SBase (qdense 2 [[qi0; qi1]; [qi1; qi0]]) (mkbased false (mklu (nvec [1;0]%nat) (qfm [[qi1; qi0]; [qi0; qi1]]) (qfm [[qi1; qi0]; [qi0; qi1]])) nofm sd1).
Lemma feq2 (A B : fm (R:=qi)) : qi_eqb (A 0 0)%nat (B 0 0)%nat && qi_eqb (A 0 1)%nat (B 0 1)%nat && qi_eqb (A 1 0)%nat (B 1 0)%nat && qi_eqb (A 1 1)%nat (B 1 1)%nat = true -> feq 2 2 A B.
Proof. intros H. apply andb_prop in H as [H H3]. apply andb_prop in H as [H H2]. apply andb_prop in H as [H H1']. intros i j Hi Hj.
  destruct i as [|[|i]]; destruct j as [|[|j]]; try lia; apply qi_eqb_eq; assumption. Qed.
Theorem dense_odd_pivot_refuted :
  valid sd sd qdom fdet ALU w_swap /\
  ev qdom (slogdet qdom (mkflags false true false) ALU w_swap) <> vof qdom (fdet (dim w_swap) (den (to_op w_swap))).
Proof.
  assert (Hp : is_perm 2 (nvec [1;0]%nat)).
  { split; [intros i Hi; destruct i as [|[|i]]; cbn; lia|intros a b Ha Hb; destruct a as [|[|a]]; destruct b as [|[|b]]; cbn; lia]. }
  assert (HA : feq 2 2 (den (to_op w_swap)) (mmul 2 (pm (nvec [1;0]%nat)) (mmul 2 (qfm [[qi1; qi0]; [qi0; qi1]]) (qfm [[qi1; qi0]; [qi0; qi1]])))).
  { apply feq2. vm_compute. reflexivity. }
  assert (HL : lower_tri 2 (qfm [[qi1; qi0]; [qi0; qi1]])).
  { intros i j Hi Hj Hij. destruct i as [|[|i]]; destruct j as [|[|j]]; try lia. reflexivity. }
  assert (HU : upper_tri 2 (qfm [[qi1; qi0]; [qi0; qi1]])).
  { intros i j Hi Hj Hij. destruct i as [|[|i]]; destruct j as [|[|j]]; try lia. reflexivity. }
  assert (HD : nzdiag 2 (qfm [[qi1; qi0]; [qi0; qi1]])).
  { intros i Hi. destruct i as [|[|i]]; try lia; apply qi_neq; vm_compute; reflexivity. }
  split.
  - apply (V_Base sd sd qdom fdet ALU _ _ 2); [reflexivity|reflexivity|]. unfold base_ok. cbn [pick b_psd b_lu lu_p lu_L lu_U].
    exact (Logic.conj Hp (Logic.conj HL (Logic.conj HU (Logic.conj HD (Logic.conj HD HA))))).
  - change (fdet (dim w_swap) (den (to_op w_swap))) with (fdet 2 (den (to_op w_swap))). rewrite (det_ext fdet DL 2 _ _ HA), !(det_mul fdet DL).
    rewrite (det_lower fdet DL 2 _ HL). unfold pm. rewrite (fdet_perm fdet DL 2 _ Hp). intro H.
    apply (f_equal (fun x : sd => qi_eqb (fst x) qi1)) in H. vm_compute in H. discriminate H. Qed.

(* Krylov path: A = diag(1/2, 1/4), det = 1/8. In the exact log-domain of base-2 logarithms trace(log2 A) = -3;
   the pinned rule returns (t/|t|, |t|) = (-1, 3), i.e. claims det = -(2^3). *)
Definition w_kry : sop (R:=qi) Z :=
  SBase (qdense 2 [[qic 1 2 0 1; qi0]; [qi0; qic 1 4 0 1]]) (mkbased true nolu nofm (-3)%Z).
Theorem krylov_slogdet_abs_of_trace_refuted :
  valid qi Z z2dom fdet AKry w_kry /\
  ev z2dom (slogdet z2dom (mkflags false false true) AKry w_kry) <> vof z2dom (fdet (dim w_kry) (den (to_op w_kry))).
Proof.
  assert (HL : lower_tri 2 (qfm [[qic 1 2 0 1; qi0]; [qi0; qic 1 4 0 1]])).
  { intros i j Hi Hj Hij. destruct i as [|[|i]]; destruct j as [|[|j]]; try lia. reflexivity. }
  assert (E : fdet 2 (qfm [[qic 1 2 0 1; qi0]; [qi0; qic 1 4 0 1]]) = qic 1 8 0 1).
  { rewrite (det_lower fdet DL 2 _ HL). apply qi_eqb_eq. vm_compute. reflexivity. }
  split.
  - apply (V_Base qi Z z2dom fdet AKry _ _ 2); [reflexivity|reflexivity|]. unfold base_ok. cbn [pick].
    cbn [w_kry to_op den qdense dat b_kt]. rewrite E. split; [apply qi_eqb_eq; vm_compute; reflexivity|apply qi_neq; vm_compute; reflexivity].
  - unfold dim. cbn [w_kry to_op shape den qdense nr dat fst]. rewrite E. intro H.
    apply (f_equal (fun x : qi => qi_eqb x (qic 1 8 0 1))) in H. vm_compute in H. discriminate H. Qed.

(* the hypotheses are satisfiable on a nested tree: BlockDiag( (Permutation [1,0] (x) Triangular [[2,0],[1,1/2]]) x 2, ScalarMul(-3, 1x1) x 3 ) *)
Definition w_ex : sop (R:=qi) sd :=
  SBDiag [ (SKron [SPerm 2 (nvec [1;0]%nat); STri 2 true (qfm [[q2; qi0]; [qi1; qic 1 2 0 1]])], 2%nat);
           (SScal (qic (-3) 1 0 1) 1, 3%nat) ].
Example w_ex_valid : forall alg, valid sd sd qdom fdet alg w_ex.
Proof. intros alg.
  assert (Hp : is_perm 2 (nvec [1;0]%nat)).
  { split; [intros i Hi; destruct i as [|[|i]]; cbn; lia|intros a b Ha Hb; destruct a as [|[|a]]; destruct b as [|[|b]]; cbn; lia]. }
  apply V_BDiag.
  - constructor; [exists 4%nat; reflexivity|]. constructor; [exists 1%nat; reflexivity|constructor].
  - constructor; [|constructor; [|constructor]]; cbn [fst].
    + apply V_Kron.
      * constructor; [exists 2%nat; split; [lia|reflexivity]|]. constructor; [exists 2%nat; split; [lia|reflexivity]|constructor].
      * constructor; [apply V_Perm; exact Hp|]. constructor; [|constructor]. apply V_Tri.
        -- intros i j Hi Hj Hij. destruct i as [|[|i]]; destruct j as [|[|j]]; try lia. reflexivity.
        -- intros i Hi. destruct i as [|[|i]]; try lia; apply qi_neq; vm_compute; reflexivity.
    + apply V_Scal. apply qi_neq. vm_compute. reflexivity.
Qed.
End Witnesses.
