(* C17 - the process-wide NumPy generator as a state machine.

   Anchors: cola/backends/np_fns.py:148-164 (PRNGKey / next_key = sha_hash), :243-252 (randn: get_state; seed(key);
   randn; set_state), and every call site that draws (see the section "call sites").

   The generator itself (MT19937 + Box-Muller cache) is EXTERNAL: it is a Section variable
       stream : St -> nat -> list V * St       (np.random.randn(n) from state g: the n values and the successor state)
       seed_st : Z -> St                       (np.random.seed(k))
       sha : Z -> Z                            (sha_hash; no property of it is needed)
   so every closed theorem reads "for every generator ...".  Nothing about the distribution is assumed. *)
From Coq Require Import List Arith Bool Lia ZArith.
Import ListNotations.

Section Rng.
Variable St : Type.        (* np.random.get_state() *)
Variable V : Type.         (* one drawn number *)
Variable Out : Type.       (* the value a cola routine returns *)
Variable seed_st : Z -> St.
Variable stream : St -> nat -> list V * St.
Variable sha : Z -> Z.

(* ---- state monad over the global generator ---- *)
Definition M (A : Type) := St -> A * St.
Definition ret {A} (a : A) : M A := fun g => (a, g).
Definition bind {A B} (m : M A) (f : A -> M B) : M B := fun g => let (a, g1) := m g in f a g1.

(* the four primitives of numpy.random used by cola *)
Definition get_state : M St := fun g => (g, g).
Definition set_state (s : St) : M unit := fun _ => (tt, s).
Definition seed (k : Z) : M unit := fun _ => (tt, seed_st k).
Definition draw (n : nat) : M (list V) := fun g => stream g n.

Definition PRNGKey (x : Z) : Z := sha x.
Definition next_key (k : Z) : Z := sha k.

(* np_fns.randn( *shape, key=key): n = number of entries of the shape.
     if key is None: warning; key = PRNGKey(0)
     old_state = np.random.get_state(); np.random.seed(key); z = np.random.randn( *shape); np.random.set_state(old_state) *)
Definition opt_key (key : option Z) : Z := match key with None => PRNGKey 0 | Some k => k end.
Definition randn (key : option Z) (n : nat) : M (list V) :=
  bind get_state (fun old =>
  bind (seed (opt_key key)) (fun _ =>
  bind (draw n) (fun z =>
  bind (set_state old) (fun _ => ret z)))).

(* what a keyed draw returns: a function of the key and the size only *)
Definition keyed_values (k : Z) (n : nat) : list V := fst (stream (seed_st k) n).

Lemma randn_spec key n g : randn key n g = (keyed_values (opt_key key) n, g).
Proof. unfold randn, bind, get_state, seed, draw, set_state, ret, keyed_values.
  destruct (stream (seed_st (opt_key key)) n); reflexivity. Qed.

(* ---- programs: what a cola routine does with randomness ----
   A routine is a tree: it returns, or draws through randn (keyed or key=None) and continues with an arbitrary
   (Gallina) function of the values, or draws from np.random directly (the LOBPCG call site). The continuation
   carries the operator, the tolerances, the products, ... *)
Inductive prog (A : Type) : Type :=
| Ret (a : A)
| Randn (key : option Z) (n : nat) (k : list V -> prog A)
| NpRandom (n : nat) (k : list V -> prog A).
Arguments Ret {A}. Arguments Randn {A}. Arguments NpRandom {A}.

Fixpoint run {A} (p : prog A) : M A :=
  match p with
  | Ret a => ret a
  | Randn key n k => bind (randn key n) (fun z => run (k z))
  | NpRandom n k => bind (draw n) (fun z => run (k z))
  end.

(* the routine only draws through randn *)
Fixpoint keyed {A} (p : prog A) : Prop :=
  match p with
  | Ret _ => True
  | Randn _ _ k => forall z, keyed (k z)
  | NpRandom _ _ => False
  end.

(* its value, computed without any generator state *)
Fixpoint value {A} (p : prog A) : A :=
  match p with
  | Ret a => a
  | Randn key n k => value (k (keyed_values (opt_key key) n))
  | NpRandom _ k => value (k [])      (* irrelevant: only used for keyed programs *)
  end.

Lemma run_keyed {A} (p : prog A) : keyed p -> forall g, run p g = (value p, g).
Proof. induction p as [a|key n k IH|n k IH]; cbn [run keyed value]; intros Hk g.
  - reflexivity.
  - unfold bind. rewrite randn_spec. apply IH, Hk.
  - destruct Hk. Qed.

Fixpoint pbind {A B} (p : prog A) (f : A -> prog B) : prog B :=
  match p with
  | Ret a => f a
  | Randn key n k => Randn key n (fun z => pbind (k z) f)
  | NpRandom n k => NpRandom n (fun z => pbind (k z) f)
  end.
Lemma pbind_keyed {A B} (p : prog A) (f : A -> prog B) : keyed p -> (forall a, keyed (f a)) -> keyed (pbind p f).
Proof. induction p as [a|key n k IH|n k IH]; cbn [pbind keyed]; intros Hp Hf; auto. Qed.
Lemma run_pbind {A B} (p : prog A) (f : A -> prog B) g : run (pbind p f) g = bind (run p) (fun a => run (f a)) g.
Proof. revert g. induction p as [a|key n k IH|n k IH]; intros g; cbn [pbind run].
  - reflexivity.
  - unfold bind. destruct (randn key n g) as [z g1]. rewrite IH. unfold bind. reflexivity.
  - unfold bind. destruct (draw n g) as [z g1]. rewrite IH. unfold bind. reflexivity. Qed.

(* =============================== call sites =============================== *)
(* default key of the routines that take key=None: PRNGKey(42) *)
Definition dflt42 (key : option Z) : Z := match key with None => PRNGKey 42 | Some k => k end.

(* hutchinson_diag_estimate (diagonal_estimation.py:163-210): key = PRNGKey(42) if None; while cond(state):
   key = next_key(key); z = randn(n, bs, key=key); state = body(state, z).  The condition holds at i = 0 and is
   false from i = max_iters on, so (S max_iters) units of fuel are never exhausted (C17_Hutch.hutch_fuel_enough). *)
Section LoopSite.
Context {S_ : Type}.
Variable cond : S_ -> bool.
Variable step : S_ -> list V -> S_.
Variable nz : nat.   (* n * bs entries per probe block *)
Fixpoint keyed_loop (fuel : nat) (key : Z) (st : S_) : prog S_ :=
  match fuel with
  | O => Ret st
  | S f => if cond st then Randn (Some (next_key key)) nz (fun z => keyed_loop f (next_key key) (step st z))
           else Ret st
  end.
Lemma keyed_loop_keyed fuel : forall key st, keyed (keyed_loop fuel key st).
Proof. induction fuel; intros key st; cbn [keyed_loop keyed]; auto. destruct (cond st); cbn [keyed]; auto. Qed.

(* the same loop fed with the keyed values directly: what C17_Hutch.v runs on "probes as given data" *)
Fixpoint pure_loop (fuel : nat) (key : Z) (st : S_) : S_ :=
  match fuel with
  | O => st
  | S f => if cond st then pure_loop f (next_key key) (step st (keyed_values (next_key key) nz)) else st
  end.
Lemma keyed_loop_value fuel : forall key st, value (keyed_loop fuel key st) = pure_loop fuel key st.
Proof. induction fuel; intros key st; cbn [keyed_loop pure_loop value]; auto.
  destruct (cond st); cbn [value opt_key]; auto. Qed.
End LoopSite.

Definition hutch_site {S_} cond step nz (max_iters : nat) (key : option Z) (st0 : S_) (fin : S_ -> Out) : prog Out :=
  pbind (keyed_loop cond step nz (S max_iters) (dflt42 key) st0) (fun st => Ret (fin st)).

(* stochastic_lanczos_quad / slq_fwd (slq.py:38-52): rhs = randn(n, num_samples, key=key) with the caller's key passed
   through unchanged (None -> the unkeyed branch of randn, PRNGKey(0)); Lanczos is then started from rhs (no draw). *)
Definition slq_site (key : option Z) (nz : nat) (f : list V -> Out) : prog Out := Randn key nz (fun z => Ret (f z)).

(* lanczos (lanczos.py:209-213), arnoldi (arnoldi.py:188-190), power_iteration (power_iteration.py:54-55):
   start vector = randn(n, key = PRNGKey(42) if key is None else key) unless the caller supplies one *)
Definition start_site (start : option (list V)) (key : option Z) (n : nat) (f : list V -> Out) : prog Out :=
  match start with
  | Some v => Ret (f v)
  | None => Randn (Some (dflt42 key)) n (fun z => Ret (f z))
  end.

(* NystromPrecond.__init__ (preconditioners.py:105-109): Omega = randn(n, rank, key = PRNGKey(42) if None) *)
Definition nystrom_site (key : option Z) (nz : nat) (f : list V -> Out) : prog Out :=
  Randn (Some (dflt42 key)) nz (fun z => Ret (f z)).

(* randomized_svd (randomized_svd.py:23), svrg / nullspace start blocks: randn without a key *)
Definition unkeyed_sketch_site (nz : nat) (f : list V -> Out) : prog Out := Randn None nz (fun z => Ret (f z)).

(* estimate_approx_error -> power_iteration(E, key=None): a start_site with the default key *)
(* AdaNysPrecond.__init__ (preconditioners.py:10-31) and select_rank_adaptively (:39-71): an unkeyed sketch, an error
   estimate by power iteration (default key), then a loop that enlarges the rank while the error is too large;
   [grow] is the rank update, [bad] the loop test on the error estimate, fuel = the 12 rounds `i <= 10` allows
   (AdaNys) or the number of doublings below rank_max (select_rank). *)
Section AdaSite.
Variable n : nat.
Variable approx : list V -> list V -> Out.   (* get_nys_approx + estimate_approx_error: sketch, power-iteration start *)
Variable bad : Out -> bool.
Variable grow : nat -> nat.
Definition one_sketch (rank : nat) : prog Out :=
  Randn None (n * rank) (fun om => Randn (Some (PRNGKey 42)) n (fun v => Ret (approx om v))).
Fixpoint ada_loop (fuel rank : nat) (cur : Out) : prog Out :=
  match fuel with
  | O => Ret cur
  | S f => if bad cur then pbind (one_sketch (grow rank)) (fun o => ada_loop f (grow rank) o) else Ret cur
  end.
Definition ada_site (fuel rank : nat) : prog Out := pbind (one_sketch rank) (fun o => ada_loop fuel rank o).
Lemma one_sketch_keyed r : keyed (one_sketch r). Proof. cbn. auto. Qed.
Lemma ada_loop_keyed fuel : forall r c, keyed (ada_loop fuel r c).
Proof. induction fuel; intros r c; cbn [ada_loop keyed]; auto. destruct (bad c); cbn [keyed]; auto.
  apply pbind_keyed; auto using one_sketch_keyed. Qed.
Lemma ada_site_keyed fuel r : keyed (ada_site fuel r).
Proof. apply pbind_keyed; auto using one_sketch_keyed, ada_loop_keyed. Qed.
End AdaSite.

(* lobpcg (lobpcg.py:23): X = np.random.normal(size=(n, k)) on the GLOBAL generator *)
Definition lobpcg_site (nk : nat) (f : list V -> Out) : prog Out := NpRandom nk (fun z => Ret (f z)).

(* the repaired call site: X = randn(n, k, key = PRNGKey(42)) - a keyed draw with the default key, exactly like the
   default start vectors; no key parameter is added to the public signature *)
Definition lobpcg_site_keyed (nk : nat) (f : list V -> Out) : prog Out := Randn (Some (PRNGKey 42)) nk (fun z => Ret (f z)).
Lemma lobpcg_site_keyed_keyed nk f : keyed (lobpcg_site_keyed nk f). Proof. cbn; auto. Qed.

Lemma hutch_site_keyed {S_} c s nz mi key (st0 : S_) fin : keyed (hutch_site c s nz mi key st0 fin).
Proof. apply pbind_keyed; [apply keyed_loop_keyed|cbn; auto]. Qed.
Lemma slq_site_keyed key nz f : keyed (slq_site key nz f). Proof. cbn; auto. Qed.
Lemma start_site_keyed st key n f : keyed (start_site st key n f). Proof. destruct st; cbn; auto. Qed.
Lemma nystrom_site_keyed key nz f : keyed (nystrom_site key nz f). Proof. cbn; auto. Qed.
Lemma unkeyed_sketch_site_keyed nz f : keyed (unkeyed_sketch_site nz f). Proof. cbn; auto. Qed.
Lemma lobpcg_site_not_keyed nk f : ~ keyed (lobpcg_site nk f). Proof. cbn; auto. Qed.

(* the value of the Hutchinson call = the pure loop over the keyed probe blocks (the link to C17_Hutch.v) *)
Lemma hutch_site_value {S_} c s nz mi key (st0 : S_) fin :
  value (hutch_site c s nz mi key st0 fin) = fin (pure_loop c s nz (S mi) (dflt42 key) st0).
Proof. unfold hutch_site. generalize (S mi) (dflt42 key) st0. intros fuel. induction fuel; intros k st; cbn [keyed_loop pure_loop pbind value]; auto.
  destruct (c st); cbn [pbind value opt_key]; auto. Qed.

(* =============================== histories =============================== *)
(* what happens in the process, in order: the user draws / reseeds / installs a state computed from the current one
   (np.random.set_state of anything), or calls a cola routine *)
Inductive event : Type :=
| UDraw (n : nat)
| USeed (k : Z)
| USet (f : St -> St)
| Cola (p : prog Out).
Inductive obs : Type := ODraw (z : list V) | OUnit | OCola (o : Out).

Definition is_user (e : event) : bool := match e with Cola _ => false | _ => true end.
Definition is_user_obs (o : obs) : bool := match o with OCola _ => false | _ => true end.
Definition step_event (e : event) : M obs :=
  match e with
  | UDraw n => bind (draw n) (fun z => ret (ODraw z))
  | USeed k => bind (seed k) (fun _ => ret OUnit)
  | USet f => fun g => (OUnit, f g)
  | Cola p => bind (run p) (fun o => ret (OCola o))
  end.
Fixpoint run_hist (h : list event) : M (list obs) :=
  match h with
  | [] => ret []
  | e :: r => bind (step_event e) (fun o => bind (run_hist r) (fun os => ret (o :: os)))
  end.
Definition user_only (h : list event) : list event := filter is_user h.
Definition user_obs (os : list obs) : list obs := filter is_user_obs os.
Definition cola_keyed (e : event) : Prop := match e with Cola p => keyed p | _ => True end.

Lemma run_hist_cons e r g :
  run_hist (e :: r) g = (fst (step_event e g) :: fst (run_hist r (snd (step_event e g))), snd (run_hist r (snd (step_event e g)))).
Proof. cbn [run_hist]. unfold bind, ret. destruct (step_event e g) as [o g1]. cbn [fst snd]. destruct (run_hist r g1) as [os g2]. reflexivity. Qed.
Lemma user_step_obs e g : is_user e = true -> is_user_obs (fst (step_event e g)) = true.
Proof. destruct e; cbn; intros H; try discriminate; unfold bind, ret, draw, seed.
  - destruct (stream g n); reflexivity.
  - reflexivity.
  - reflexivity. Qed.
Lemma cola_step p g : keyed p -> step_event (Cola p) g = (OCola (value p), g).
Proof. intros Hk. cbn [step_event]. unfold bind. rewrite (run_keyed p Hk). reflexivity. Qed.

(* refinement to the "user draws only" machine: same final state, and the user sees the same numbers *)
Theorem global_state_invariant : forall (h : list event) (g : St), Forall cola_keyed h ->
  snd (run_hist h g) = snd (run_hist (user_only h) g) /\
  user_obs (fst (run_hist h g)) = fst (run_hist (user_only h) g).
Proof.
  induction h as [|e r IH]; intros g HF.
  - cbn. auto.
  - inversion HF as [|? ? He Hr]; subst. rewrite run_hist_cons. cbn [fst snd].
    destruct (is_user e) eqn:Hu.
    + unfold user_only. cbn [filter]. rewrite Hu. fold (user_only r). rewrite run_hist_cons. cbn [fst snd].
      unfold user_obs. cbn [filter]. rewrite (user_step_obs e g Hu). fold (user_obs (fst (run_hist r (snd (step_event e g))))).
      destruct (IH (snd (step_event e g)) Hr) as [H1 H2]. rewrite H1, H2. auto.
    + destruct e as [n|k|f|p]; try discriminate. cbn in He. rewrite (cola_step p g He). cbn [fst snd].
      unfold user_only. cbn [filter is_user]. fold (user_only r).
      unfold user_obs. cbn [filter is_user_obs]. fold (user_obs (fst (run_hist r g))). apply IH, Hr.
Qed.

(* same routine, same key, same inputs (= the same program) -> same value whatever happened before:
   the value does not depend on the generator state the call starts from *)
Theorem keyed_deterministic : forall (p : prog Out), keyed p ->
  forall (h1 h2 : list event) (g1 g2 : St),
  fst (run p (snd (run_hist h1 g1))) = fst (run p (snd (run_hist h2 g2))).
Proof. intros p Hk h1 h2 g1 g2. rewrite !(run_keyed p Hk). reflexivity. Qed.

Corollary keyed_call_value : forall (p : prog Out), keyed p -> forall g, run p g = (value p, g).
Proof. intros; apply run_keyed; auto. Qed.

(* the LOBPCG call site is a user draw in disguise: it reads the global state and leaves the advanced one *)
Theorem lobpcg_reads_and_advances : forall nk f g,
  run (lobpcg_site nk f) g = (f (fst (stream g nk)), snd (stream g nk)).
Proof. intros. cbn. unfold bind, draw, ret. destruct (stream g nk); reflexivity. Qed.

(* hence: whenever a draw changes the generator state at all, a history with one LOBPCG call ends in a state
   different from the user-only history (which is empty) *)
Theorem lobpcg_global_rng : forall nk f g, snd (stream g nk) <> g ->
  snd (run_hist [Cola (lobpcg_site nk f)] g) <> snd (run_hist (user_only [Cola (lobpcg_site nk f)]) g).
Proof. intros nk f g H. cbn. unfold bind, draw, ret. destruct (stream g nk) as [z g1]. cbn in *. exact H. Qed.

(* and whenever two states yield different numbers, its value depends on the history *)
Theorem lobpcg_history_dependent : forall nk f g1 g2, f (fst (stream g1 nk)) <> f (fst (stream g2 nk)) ->
  fst (run (lobpcg_site nk f) g1) <> fst (run (lobpcg_site nk f) g2).
Proof. intros. rewrite !lobpcg_reads_and_advances. exact H. Qed.
End Rng.

Arguments Ret {V A}. Arguments Randn {V A}. Arguments NpRandom {V A}.

(* ---- a concrete generator showing the hypotheses are satisfiable and the refutation is not vacuous:
        state = counter, seed k = k, the i-th draw from state g is g + i ---- *)
Definition toy_stream (g : Z) (n : nat) : list Z * Z := (map (fun i => (g + Z.of_nat i)%Z) (seq 0 n), (g + Z.of_nat n)%Z).
Definition toy_sha (k : Z) : Z := (2 * k + 1)%Z.

Example lobpcg_global_rng_refuted :
  exists (h : list (event Z Z (list Z))) (g : Z),
    snd (run_hist Z Z (list Z) (fun k => k) toy_stream toy_sha h g)
    <> snd (run_hist Z Z (list Z) (fun k => k) toy_stream toy_sha (user_only Z Z (list Z) h) g).
Proof. exists [UDraw Z Z (list Z) 2; Cola Z Z (list Z) (lobpcg_site Z (list Z) 6 (fun z => z)); UDraw Z Z (list Z) 1], 0%Z.
  vm_compute. discriminate. Qed.

(* the same history with the keyed sites instead: state and user-visible numbers as if cola had not been called *)
Example keyed_history_example :
  let h := [UDraw Z Z (list Z) 2; Cola Z Z (list Z) (slq_site Z (list Z) (Some 5%Z) 6 (fun z => z));
            Cola Z Z (list Z) (start_site Z (list Z) toy_sha None None 3 (fun z => z)); UDraw Z Z (list Z) 1] in
  run_hist Z Z (list Z) (fun k => k) toy_stream toy_sha h 0%Z
  = ([ODraw Z (list Z) [0;1]%Z; OCola Z (list Z) [5;6;7;8;9;10]%Z; OCola Z (list Z) [85;86;87]%Z; ODraw Z (list Z) [2]%Z], 3%Z).
Proof. vm_compute. reflexivity. Qed.
