From Coq Require Import Arith Lia List Ring ArithRing PeanoNat Bool.
From Core Require Import Base Kron Op.
Import ListNotations.
Section C01.
Context {R : Type} {RR : Ring R} {CR : CRing R}.
Add Ring Rring : Rth.
Open Scope R_scope.
Notation fm := (fm (R:=R)). Notation arr := (arr (R:=R)). Notation op := (op (R:=R)).

Section Ind.
Variable P : op -> Prop.
Hypothesis HDense : forall a, P (Dense a).
Hypothesis HDiag : forall n d, P (Diag n d).
Hypothesis HIdent : forall n, P (Ident n).
Hypothesis HScal : forall c n, P (Scal c n).
Hypothesis HSum : forall ms, Forall P ms -> P (Sum ms).
Hypothesis HProd : forall ms, Forall P ms -> P (Prod ms).
Hypothesis HKron : forall ms, Forall P ms -> P (Kron ms).
Hypothesis HBDiag : forall ms, Forall (fun mc => P (fst mc)) ms -> P (BDiag ms).
Hypothesis HTransp : forall a, P a -> P (Transp a).
Hypothesis HAdj : forall a, P a -> P (Adj a).
Hypothesis HGen : forall a, P (Gen a).
Hypothesis HPerm : forall n p, P (Perm n p).
Hypothesis HTridiag : forall n al be ga, P (Tridiag n al be ga).
Hypothesis HHouse : forall n v beta, P (House n v beta).
Hypothesis HSparse : forall m n ent, P (Sparse m n ent).
Hypothesis HKronSum : forall ms, Forall P ms -> P (KronSum ms).
Hypothesis HSliced : forall a rs cs, P a -> P (Sliced a rs cs).
Hypothesis HConcatV : forall ms, Forall P ms -> P (ConcatV ms).
Fixpoint op_ind2 (e : op) : P e :=
  match e with
  | Dense a => HDense a | Diag n d => HDiag n d | Ident n => HIdent n | Scal c n => HScal c n
  | Sum ms => HSum ms ((fix go l : Forall P l := match l with [] => Forall_nil _ | m :: l' => Forall_cons _ (op_ind2 m) (go l') end) ms)
  | Prod ms => HProd ms ((fix go l : Forall P l := match l with [] => Forall_nil _ | m :: l' => Forall_cons _ (op_ind2 m) (go l') end) ms)
  | Kron ms => HKron ms ((fix go l : Forall P l := match l with [] => Forall_nil _ | m :: l' => Forall_cons _ (op_ind2 m) (go l') end) ms)
  | BDiag ms => HBDiag ms ((fix go l : Forall (fun mc => P (fst mc)) l := match l with [] => Forall_nil _ | mc :: l' => Forall_cons _ (op_ind2 (fst mc)) (go l') end) ms)
  | Transp a => HTransp a (op_ind2 a)
  | Adj a => HAdj a (op_ind2 a)
  | Gen a => HGen a | Perm n p => HPerm n p | Tridiag n al be ga => HTridiag n al be ga
  | House n v beta => HHouse n v beta | Sparse m n ent => HSparse m n ent
  | KronSum ms => HKronSum ms ((fix go l : Forall P l := match l with [] => Forall_nil _ | m :: l' => Forall_cons _ (op_ind2 m) (go l') end) ms)
  | Sliced a rs cs => HSliced a rs cs (op_ind2 a)
  | ConcatV ms => HConcatV ms ((fix go l : Forall P l := match l with [] => Forall_nil _ | m :: l' => Forall_cons _ (op_ind2 m) (go l') end) ms)
  end.
End Ind.

Definition spec (e : op) (X : arr) : arr := mkarr (fst (shape e)) (nc X) (mmul (snd (shape e)) (den e) (dat X)).
Definition rspec (e : op) (X : arr) : arr := mkarr (nr X) (snd (shape e)) (mmul (fst (shape e)) (dat X) (den e)).
Definition goodF (e : op) : Prop := forall X, nr X = snd (shape e) -> aeq (matmat e X) (spec e X).
Definition goodB (e : op) : Prop := forall X, nc X = fst (shape e) -> aeq (rmatmat e X) (rspec e X).
Definition good (e : op) : Prop := wf e = true -> goodF e /\ goodB e.

Lemma aeq_memo_l a b : aeq a b -> aeq (memo a) b.
Proof. intros H. eapply aeq_trans; [apply memo_aeq|exact H]. Qed.
Lemma mmul_add_r k X A B i j : mmul k X (madd A B) i j = mmul k X A i j + mmul k X B i j.
Proof. unfold mmul, madd. rewrite <- sum_add. apply sum_ext; intros; ring. Qed.
Lemma conj_sum n f : conj (sum n f) = sum n (fun i => conj (f i)).
Proof. induction n; simpl; [apply conj_0|]. rewrite conj_add, IHn. reflexivity. Qed.
Lemma cja_aeq a b : aeq a b -> aeq (cja a) (cja b).
Proof. intros (H1&H2&H3). unfold cja. repeat split; simpl; auto. intros i j Hi Hj. rewrite H3; auto. Qed.

(* default backward product *)
Lemma lt_spec e : goodF e -> forall X, nc X = fst (shape e) ->
  aeq (lt (matmat e) (fst (shape e)) (snd (shape e)) X) (rspec e X).
Proof.
  intros HF X HX. unfold lt. apply aeq_memo_l. unfold rspec. repeat split; auto. cbn [nr nc dat].
  set (n := snd (shape e)). set (m := fst (shape e)).
  destruct (HF (mkarr n n eye) eq_refl) as (E1&E2&E3). cbn [spec nr nc dat] in E1, E2, E3. fold n m in E1, E3.
  apply mmul_ext with (m := nr X) (n := n); auto using feq_refl.
  intros a b Ha Hb. rewrite E3 by (rewrite ?E1, ?E2; auto). apply mmul_eye_r; auto.
Qed.

Lemma good_Dense a : good (Dense a).
Proof. intros _. split; intros X HX; cbn [matmat rmatmat mm fst snd]; apply aeq_memo_l; unfold spec, rspec; apply aeq_refl. Qed.
Lemma good_Diag n d : good (Diag n d).
Proof. intros _. split; intros X HX; cbn [matmat rmatmat mm fst snd shape] in *; apply aeq_memo_l; unfold spec, rspec; cbn [shape den fst snd];
  repeat split; auto; cbn [nr nc dat]; intros i j Hi Hj; unfold mmul.
  - rewrite (sum_ext n _ (fun l => delta i l * (d i * dat X l j))) by (intros; ring). rewrite sum_delta_l by auto. reflexivity.
  - rewrite (sum_ext n _ (fun l => (dat X i l * d l) * delta l j)) by (intros; ring).
    rewrite (sum_delta_r n j (fun l => dat X i l * d l)) by auto. reflexivity.
Qed.
Lemma good_Ident n : good (Ident n).
Proof. intros _. split; intros X HX; cbn [shape fst snd] in HX; cbn [matmat rmatmat mm fst snd]; unfold spec, rspec; cbn [shape den fst snd];
  repeat split; auto; intros i j Hi Hj; cbn [dat].
  - rewrite mmul_eye_l by lia. reflexivity.
  - rewrite mmul_eye_r by lia. reflexivity.
Qed.
Lemma goodF_Scal c n : goodF (Scal c n).
Proof. intros X HX. cbn [shape snd] in HX. cbn [matmat mm fst]. apply aeq_memo_l. unfold spec; cbn [shape den fst snd]. repeat split; auto. cbn [nr nc dat].
  intros i j Hi Hj. unfold mmul. rewrite (sum_ext n _ (fun l => delta i l * (c * dat X l j))) by (intros; ring).
  rewrite sum_delta_l by lia. reflexivity. Qed.
Lemma good_Scal c n : good (Scal c n).
Proof. intros _. split; [apply goodF_Scal|]. intros X HX. apply (lt_spec (Scal c n) (goodF_Scal c n) X HX). Qed.

(* Sum *)
Lemma Sum_all (ms : list op) s0 : s0 = hd (0,0)%nat (map shape ms) -> forallb wf ms = true ->
  forallb (fun s => shp_eqb s s0) (map shape ms) = true -> forall m, In m ms -> wf m = true /\ shape m = s0.
Proof. intros _ Hwfs Hsh m Hm. rewrite forallb_forall in Hwfs, Hsh. split; [apply Hwfs; auto|].
  specialize (Hsh (shape m) (in_map shape _ _ Hm)). unfold shp_eqb in Hsh. apply andb_prop in Hsh as [A B].
  apply Nat.eqb_eq in A, B. destruct (shape m), s0; simpl in *; congruence. Qed.
Lemma good_Sum ms : Forall good ms -> good (Sum ms).
Proof.
  intros HF Hwf. simpl in Hwf. apply andb_prop in Hwf as [Hwf Hsh]. apply andb_prop in Hwf as [Hne Hwfs].
  set (s0 := hd (0,0)%nat (map shape ms)) in *.
  assert (Hall := Sum_all ms s0 eq_refl Hwfs Hsh). clear Hne Hwfs Hsh.
  split; intros X HX; cbn [matmat rmatmat mm fst snd]; apply aeq_memo_l; unfold spec, rspec; cbn [shape] in *; fold s0 in HX |- *;
  clearbody s0; repeat split; auto; cbn [nr nc dat]; intros i j Hi Hj;
  change (den (Sum ms)) with (fold_right (fun M acc => madd M acc) zerom (map den ms)).
  - induction ms as [|m ms IH]; cbn [map fold_right].
    + unfold zerom, mmul. rewrite (sum_ext _ _ (fun _ => r0)) by (intros; cbv beta; ring). rewrite sum_zero. reflexivity.
    + inversion HF as [|? ? Hm HF']; subst. destruct (Hall m (or_introl eq_refl)) as [Wm Sm].
      destruct (proj1 (Hm Wm) X) as (E1&E2&E3); [rewrite Sm; exact HX|].
      unfold madd at 1. rewrite IH; auto; [|intros m' Hm'; apply Hall; right; auto].
      rewrite E3; [|rewrite E1; cbn; rewrite Sm; exact Hi| rewrite E2; exact Hj].
      cbn [spec dat]. rewrite Sm. rewrite mmul_add_l. reflexivity.
  - induction ms as [|m ms IH]; cbn [map fold_right].
    + unfold zerom, mmul. rewrite (sum_ext _ _ (fun _ => r0)) by (intros; cbv beta; ring). rewrite sum_zero. reflexivity.
    + inversion HF as [|? ? Hm HF']; subst. destruct (Hall m (or_introl eq_refl)) as [Wm Sm].
      destruct (proj2 (Hm Wm) X) as (E1&E2&E3); [rewrite Sm; exact HX|].
      unfold madd at 1. rewrite IH; auto; [|intros m' Hm'; apply Hall; right; auto].
      rewrite E3; [|rewrite E1; exact Hi| rewrite E2; cbn; rewrite Sm; exact Hj].
      cbn [rspec dat]. rewrite Sm. rewrite mmul_add_r. reflexivity.
Qed.

(* Prod *)
Lemma chain_cons s M l : chain ((s, M) :: l) = mmul (snd s) M (chain l).
Proof. reflexivity. Qed.
Lemma goodF_Prod_gen ms : Forall good ms -> ms <> [] -> forallb wf ms = true -> chain_ok (map shape ms) = true ->
  forall X, nr X = snd (last (map shape ms) (0,0)%nat) ->
  aeq (fold_right (fun m acc => fst (mm m) acc) X ms)
      (mkarr (fst (hd (0,0)%nat (map shape ms))) (nc X)
             (mmul (snd (last (map shape ms) (0,0)%nat)) (chain (map (fun m => (shape m, den m)) ms)) (dat X))).
Proof.
  induction ms as [|m ms IH]; intros HF Hne Hwf Hch X HX; [congruence|].
  inversion HF as [|? ? Hm HF']; subst. cbn [forallb] in Hwf. apply andb_prop in Hwf as [Wm Wms].
  destruct (Hm Wm) as [HmF _].
  destruct ms as [|m' ms'].
  - cbn [map last hd fold_right fst snd] in *.
    eapply aeq_trans; [apply (HmF X HX)|]. unfold spec. repeat split; auto. cbn [nr nc dat].
    intros i j Hi Hj. rewrite chain_cons. cbn [snd chain fold_right]. rewrite mmul_assoc. symmetry.
    apply (mmul_ext (fst (shape m)) (snd (shape m)) (nc X)); [apply feq_refl| |auto|auto].
    intros a b Ha Hb. apply mmul_eye_l; auto.
  - cbn [map chain_ok] in Hch. apply andb_prop in Hch as [Hc Hch]. apply Nat.eqb_eq in Hc.
    assert (IH' := IH HF' ltac:(discriminate) Wms Hch X HX). clear IH.
    set (Y := fold_right (fun m acc => fst (mm m) acc) X (m' :: ms')) in *.
    change (fold_right (fun m acc => fst (mm m) acc) X (m :: m' :: ms')) with (fst (mm m) Y).
    destruct IH' as (E1&E2&E3). cbn [nr nc dat map hd fst] in E1, E2, E3.
    assert (HY : nr Y = snd (shape m)) by congruence.
    eapply aeq_trans; [apply (HmF Y HY)|]. unfold spec.
    change (last (map shape (m :: m' :: ms')) (0,0)%nat) with (last (map shape (m' :: ms')) (0,0)%nat).
    cbn [map hd fst]. repeat split; auto. cbn [nr nc dat].
    intros i j Hi Hj. rewrite chain_cons. cbn [snd fst]. rewrite mmul_assoc.
    apply mmul_ext with (m := fst (shape m)) (n := nc Y); auto using feq_refl.
    intros a b Ha Hb. apply E3; congruence.
Qed.
Lemma goodB_Prod_gen ms : Forall good ms -> ms <> [] -> forallb wf ms = true -> chain_ok (map shape ms) = true ->
  forall X, nc X = fst (hd (0,0)%nat (map shape ms)) ->
  aeq (fold_left (fun acc m => snd (mm m) acc) ms X)
      (mkarr (nr X) (snd (last (map shape ms) (0,0)%nat))
             (mmul (fst (hd (0,0)%nat (map shape ms))) (dat X) (chain (map (fun m => (shape m, den m)) ms)))).
Proof.
  induction ms as [|m ms IH]; intros HF Hne Hwf Hch X HX; [congruence|].
  inversion HF as [|? ? Hm HF']; subst. cbn [forallb] in Hwf. apply andb_prop in Hwf as [Wm Wms].
  destruct (Hm Wm) as [_ HmB]. cbn [map hd fst] in HX.
  destruct (HmB X HX) as (E1&E2&E3). cbn [rspec nr nc dat] in E1, E2, E3. unfold rmatmat in E1, E2, E3.
  destruct ms as [|m' ms'].
  - cbn [map last hd fold_left fst snd] in *. repeat split; auto. cbn [nr nc dat]. intros i j Hi Hj.
    rewrite E3 by assumption. rewrite chain_cons. cbn [snd chain fold_right].
    apply (mmul_ext (nr X) (fst (shape m)) (snd (shape m))); [apply feq_refl| |congruence|congruence].
    intros a b Ha Hb. symmetry. apply mmul_eye_r; auto.
  - cbn [map chain_ok] in Hch. apply andb_prop in Hch as [Hc Hch]. apply Nat.eqb_eq in Hc.
    change (fold_left (fun acc m => snd (mm m) acc) (m :: m' :: ms') X) with (fold_left (fun acc m => snd (mm m) acc) (m' :: ms') (snd (mm m) X)).
    set (Y := snd (mm m) X) in *.
    assert (HY : nc Y = fst (hd (0,0)%nat (map shape (m' :: ms')))) by (cbn [map hd fst]; congruence).
    destruct (IH HF' ltac:(discriminate) Wms Hch Y HY) as (F1&F2&F3). cbn [nr nc dat] in F1, F2, F3.
    change (last (map shape (m :: m' :: ms')) (0,0)%nat) with (last (map shape (m' :: ms')) (0,0)%nat).
    cbn [map hd fst] in *. fold Y in E1, E2, E3. split; [cbn [nr]; congruence|]. split; [cbn [nc]; congruence|].
    cbn [nr nc dat]. intros i j Hi Hj.
    rewrite F3 by assumption. rewrite (chain_cons (shape m) (den m)). cbn [snd fst]. rewrite <- mmul_assoc. rewrite <- Hc.
    apply (mmul_ext (nr X) (snd (shape m)) (snd (last (map shape (m' :: ms')) (0,0)%nat))); auto using feq_refl; try congruence.
    { intros a b Ha Hb. apply E3; congruence. }
    cbn [map]. rewrite <- F2. exact Hj.
Qed.
Lemma good_Prod ms : Forall good ms -> good (Prod ms).
Proof.
  intros HF Hwf. cbn [wf] in Hwf. apply andb_prop in Hwf as [Hwf Hch]. apply andb_prop in Hwf as [Hne Hwfs].
  assert (Hne' : ms <> []) by (destruct ms; [discriminate|discriminate]).
  split; intros X HX; cbn [matmat rmatmat mm fst snd]; unfold spec, rspec; cbn [shape den fst snd] in *.
  - apply goodF_Prod_gen; auto.
  - apply goodB_Prod_gen; auto.
Qed.
(* Kron *)
Definition facof (m : op) : fac := mkfac (fst (shape m)) (snd (shape m)) (den m).
Definition kgo (K : nat) := fix go (l : list op) (P : nat) (x : nat -> R) {struct l} : nat -> R :=
  match l with
  | [] => x
  | m :: l' =>
      let r := fst (shape m) in let c := snd (shape m) in
      let S := (prodcs l' * K)%nat in
      let Z := mkarr c (P * S) (fun j col => x (((col / S) * c + j) * S + col mod S)%nat) in
      let Y := fst (mm m) Z in
      go l' (P * r)%nat (fun idx => dat Y ((idx / S) mod r)%nat ((idx / (r * S)) * S + idx mod S)%nat)
  end.
Lemma matmat_Kron ms X : matmat (Kron ms) X =
  memo (mkarr (fst (shape (Kron ms))) (nc X) (fun i j => kgo (nc X) ms 1%nat (fun idx => dat X (idx / nc X)%nat (idx mod nc X)%nat) (i * nc X + j)%nat)).
Proof. reflexivity. Qed.
Definition prodrs (l : list op) : nat := fold_right (fun m acc => (fst (shape m) * acc)%nat) 1%nat l.
Lemma prodc_facs l : prodc (map facof l) = prodcs l. Proof. induction l; simpl; congruence. Qed.
Lemma prodr_facs l : prodr (map facof l) = prodrs l. Proof. induction l; simpl; congruence. Qed.
Definition posl (l : list op) := forallb (fun s => (0 <? fst s)%nat && (0 <? snd s)%nat) (map shape l) = true.
Lemma posl_pos l : posl l -> pos (map facof l).
Proof. unfold posl, pos. induction l; simpl; auto. intros H. apply andb_prop in H as [H1 H2]. rewrite H1. simpl. auto. Qed.
Lemma prodcs_pos l : posl l -> (0 < prodcs l)%nat.
Proof. intros H. rewrite <- prodc_facs, prodc_kronR. apply fr_kronR_pos. apply posl_pos; auto. Qed.

Lemma kgo_run K l : (0 < K)%nat -> Forall good l -> forallb wf l = true -> posl l ->
  forall P x x', (forall idx, (idx < P * prodcs l * K)%nat -> x idx = x' idx) ->
  forall idx, (idx < P * prodrs l * K)%nat -> kgo K l P x idx = run (map facof l) K x' idx.
Proof.
  intros HK. induction l as [|m l IH]; intros HF Hwf Hpos P x x' Hx idx Hidx.
  - simpl in *. apply Hx. lia.
  - inversion HF as [|? ? Hm HF']; subst. cbn [forallb] in Hwf. apply andb_prop in Hwf as [Wm Wl].
    assert (Hpos' : posl l). { unfold posl in *. cbn [map forallb] in Hpos. apply andb_prop in Hpos; tauto. }
    assert (Hrc : (0 < fst (shape m) /\ 0 < snd (shape m))%nat).
    { unfold posl in Hpos. cbn [map forallb] in Hpos. apply andb_prop in Hpos as [H _]. apply andb_prop in H as [A B].
      apply Nat.ltb_lt in A, B. tauto. }
    cbn [kgo map run]. fold (kgo K). rewrite prodc_facs. cbn [facof fc fr fmx].
    set (r := fst (shape m)) in *. set (c := snd (shape m)) in *. set (S := (prodcs l * K)%nat).
    assert (HS : (0 < S)%nat) by (unfold S; pose proof (prodcs_pos l Hpos'); nia).
    apply IH; auto.
    + intros i Hi.
      assert (Hi' : (i < P * r * S)%nat) by (unfold S; nia).
      set (a := (i / (r * S))%nat). set (rho := ((i / S) mod r)%nat). set (s := (i mod S)%nat).
      assert (Ha : (a < P)%nat) by (apply Nat.div_lt_upper_bound; nia).
      assert (Hrho : (rho < r)%nat) by (apply Nat.mod_upper_bound; lia).
      assert (Hs : (s < S)%nat) by (apply Nat.mod_upper_bound; lia).
      set (Z := mkarr c (P * S) (fun j col => x (((col / S) * c + j) * S + col mod S)%nat)).
      destruct (proj1 (Hm Wm) Z eq_refl) as (E1&E2&E).
      rewrite E; [|rewrite E1; cbn; exact Hrho| rewrite E2; cbn; nia].
      unfold spec, mode. cbn [dat]. unfold mmul. fold c a rho s. apply sum_ext; intros j Hj. cbn [dat Z].
      rewrite Nat.div_add_l, (Nat.div_small s S), Nat.add_0_r by lia.
      rewrite (Nat.add_comm (a*S) s), Nat.mod_add, (Nat.mod_small s S) by lia.
      rewrite Hx; [reflexivity|]. cbn [prodcs fold_right]. fold c. fold (prodcs l).
      assert (H1: (a*c+j+1 <= P*c)%nat) by nia.
      assert (H2 : ((a*c+j)*S + s < (a*c+j+1)*S)%nat) by nia.
      assert (H3: ((a*c+j+1)*S <= P*c*S)%nat) by (apply Nat.mul_le_mono_r; exact H1).
      replace (P * (c*prodcs l)*K)%nat with (P*c*S)%nat by (unfold S; ring). lia.
    + cbn [prodrs fold_right] in Hidx. fold r in Hidx. fold (prodrs l) in Hidx. nia.
Qed.
Lemma kshape_kronR l : kshape (map shape l) = (fr (kronR (map facof l)), fc (kronR (map facof l))).
Proof. induction l as [|m l IH]; [reflexivity|]. cbn [map kshape fold_right kronR kron2 fr fc facof].
  change (fold_right (fun s acc => (fst s * fst acc, snd s * snd acc)%nat) (1,1)%nat (map shape l)) with (kshape (map shape l)).
  rewrite IH. reflexivity. Qed.
Lemma goodF_Kron ms : Forall good ms -> wf (Kron ms) = true -> goodF (Kron ms).
Proof.
  intros HF Hwf X HX. cbn [wf] in Hwf. apply andb_prop in Hwf as [Hwfs Hpos].
  rewrite matmat_Kron. apply aeq_memo_l. unfold spec.
  assert (Hsh := kshape_kronR ms). cbn [shape] in *. rewrite Hsh in *. cbn [fst snd] in *.
  change (den (Kron ms)) with (fmx (kronR (map facof ms))).
  set (F := kronR (map facof ms)) in *.
  repeat split; auto. cbn [nr nc dat]. intros i j Hi Hj.
  set (K := nc X) in *. assert (HK : (0 < K)%nat) by lia.
  rewrite (kgo_run K ms HK HF Hwfs Hpos 1%nat _ (fun idx => dat X (idx / K)%nat (idx mod K)%nat)); [|reflexivity|].
  - replace (i * K + j)%nat with ((0 * fr F + i) * K + j)%nat by ring.
    unfold F. rewrite run_kron; auto using posl_pos. fold F. unfold mmul. apply sum_ext; intros g Hg.
    replace ((0 * fc F + g) * K + j)%nat with (g * K + j)%nat by ring.
    rewrite Nat.div_add_l, (Nat.div_small j K), Nat.add_0_r by lia.
    rewrite (Nat.add_comm (g*K) j), Nat.mod_add, (Nat.mod_small j K) by lia. reflexivity.
  - rewrite <- prodr_facs, prodr_kronR. fold F. nia.
Qed.
Lemma good_Kron ms : Forall good ms -> good (Kron ms).
Proof. intros HF Hwf. pose proof (goodF_Kron ms HF Hwf) as GF. split; [exact GF|]. intros X HX. apply (lt_spec (Kron ms) GF X HX). Qed.
(* BlockDiag *)
Definition blk := (shp * fm)%type.
Definition colsB (B : list blk) : nat := fold_right (fun b acc => (snd (fst b) + acc)%nat) 0%nat B.
Definition rowsB (B : list blk) : nat := fold_right (fun b acc => (fst (fst b) + acc)%nat) 0%nat B.
Definition bdmul (B : list blk) (v : nat -> R) (i : nat) : R := sum (colsB B) (fun g => bd B i g * v g).
Lemma bdmul_nil v i : bdmul [] v i = r0. Proof. reflexivity. Qed.
Lemma bdmul_cons s D L v i : bdmul ((s, D) :: L) v i =
  if (i <? fst s)%nat then sum (snd s) (fun g => D i g * v g) else bdmul L (fun g => v (snd s + g)%nat) (i - fst s)%nat.
Proof.
  unfold bdmul. cbn [colsB fold_right fst snd]. fold (colsB L). rewrite sum_app. cbn [bd].
  destruct (Nat.ltb_spec i (fst s)).
  - rewrite (sum_ext (colsB L) _ (fun _ => r0)).
    + rewrite sum_zero. rewrite (sum_ext (snd s) _ (fun g => D i g * v g)); [ring|].
      intros g Hg. destruct (Nat.ltb_spec g (snd s)); [reflexivity|lia].
    + intros g Hg. destruct (Nat.ltb_spec (snd s + g) (snd s)); [lia|ring].
  - rewrite (sum_ext (snd s) _ (fun _ => r0)).
    + rewrite sum_zero. rewrite (sum_ext (colsB L) _ (fun g => bd L (i - fst s)%nat g * v (snd s + g)%nat)); [ring|].
      intros g Hg. destruct (Nat.ltb_spec (snd s + g) (snd s)); [lia|]. replace (snd s + g - snd s)%nat with g by lia. reflexivity.
    + intros g Hg. destruct (Nat.ltb_spec g (snd s)); [ring|lia].
Qed.
Lemma bdmul_rep mu s D L v i :
  bdmul (rep mu (s, D) ++ L) v i =
  if (i <? mu * fst s)%nat then sum (snd s) (fun g => D (i mod fst s)%nat g * v ((i / fst s) * snd s + g)%nat)
  else bdmul L (fun g => v (mu * snd s + g)%nat) (i - mu * fst s)%nat.
Proof.
  revert v i. induction mu as [|mu IH]; intros v i.
  - cbn [rep app]. rewrite Nat.ltb_irrefl || (destruct (Nat.ltb_spec i (0 * fst s)); [lia|]). 
    replace (i - 0 * fst s)%nat with i by lia. unfold bdmul. apply sum_ext; intros; reflexivity.
  - cbn [rep app]. rewrite bdmul_cons.
    destruct (Nat.ltb_spec i (fst s)) as [Hlt|Hge].
    + destruct (Nat.ltb_spec i (S mu * fst s)); [|nia].
      rewrite Nat.mod_small, Nat.div_small by lia. apply sum_ext; intros g Hg. reflexivity.
    + rewrite IH.
      assert (Hr : (0 < fst s)%nat \/ fst s = 0%nat) by lia. destruct Hr as [Hr|Hr].
      * remember (i - fst s)%nat as t eqn:Ht. assert (Hi : i = (t + 1 * fst s)%nat) by lia. clear Ht. subst i.
        destruct (Nat.ltb_spec t (mu * fst s)); destruct (Nat.ltb_spec (t + 1 * fst s) (S mu * fst s)); try nia.
        -- apply sum_ext; intros g Hg.
           rewrite Nat.mod_add, Nat.div_add by lia. f_equal. f_equal. ring.
        -- replace (t + 1 * fst s - S mu * fst s)%nat with (t - mu * fst s)%nat by nia.
           unfold bdmul. apply sum_ext; intros g Hg. f_equal. f_equal. ring.
      * rewrite Hr in *. destruct (Nat.ltb_spec (i - 0) (mu * 0)); [lia|]. destruct (Nat.ltb_spec i (S mu * 0)); [lia|].
        replace (i - 0 - mu * 0)%nat with (i - S mu * 0)%nat by lia.
        unfold bdmul. apply sum_ext; intros g Hg. f_equal. f_equal. ring.
Qed.
Definition blocks (l : list (op * nat)) : list blk := concat (map (fun mc => rep (snd mc) (shape (fst mc), den (fst mc))) l).
Definition bgo (X : arr) := fix go (l : list (op * nat)) (ri ci : nat) {struct l} : fm :=
  match l with
  | [] => zerom
  | (m, mu) :: l' =>
      let r := fst (shape m) in let c := snd (shape m) in
      let Z := mkarr c (nc X * mu) (fun g col => dat X (ci + (col mod mu) * c + g)%nat (col / mu)%nat) in
      let Y := fst (mm m) Z in
      let rest := go l' (ri + mu * r)%nat (ci + mu * c)%nat in
      fun i j => if (i <? ri + mu * r)%nat then dat Y ((i - ri) mod r)%nat (j * mu + (i - ri) / r)%nat else rest i j
  end.
Lemma matmat_BDiag ms X : matmat (BDiag ms) X = memo (mkarr (fst (shape (BDiag ms))) (nc X) (bgo X ms 0%nat 0%nat)).
Proof. reflexivity. Qed.
Lemma rowsB_rep mu s D L : rowsB (rep mu (s, D) ++ L) = (mu * fst s + rowsB L)%nat.
Proof. induction mu; cbn [rep app rowsB fold_right fst snd] in *; [reflexivity|]. fold (rowsB (rep mu (s,D) ++ L)). rewrite IHmu. ring. Qed.
Lemma colsB_rep mu s D L : colsB (rep mu (s, D) ++ L) = (mu * snd s + colsB L)%nat.
Proof. induction mu; cbn [rep app colsB fold_right fst snd] in *; [reflexivity|]. fold (colsB (rep mu (s,D) ++ L)). rewrite IHmu. ring. Qed.
Lemma bshape_blocks l : bshape (map (fun mc => (shape (fst mc), snd mc)) l) = (rowsB (blocks l), colsB (blocks l)).
Proof. induction l as [|[m mu] l IH]; [reflexivity|]. unfold blocks in *. cbn [map concat bshape fold_right fst snd].
  change (fold_right _ (0,0)%nat (map (fun mc : op * nat => (shape (fst mc), snd mc)) l)) with (bshape (map (fun mc : op * nat => (shape (fst mc), snd mc)) l)).
  rewrite IH, rowsB_rep, colsB_rep. cbn [fst snd]. f_equal; ring. Qed.

Lemma bgo_spec X l : Forall (fun mc => good (fst mc)) l -> forallb (fun mc => wf (fst mc)) l = true ->
  forall ri ci i j, (ri <= i)%nat -> (i < ri + rowsB (blocks l))%nat -> (j < nc X)%nat ->
  bgo X l ri ci i j = bdmul (blocks l) (fun g => dat X (ci + g)%nat j) (i - ri)%nat.
Proof.
  induction l as [|[m mu] l IH]; intros HF Hwf ri ci i j Hri Hi Hj.
  - cbn in Hi. lia.
  - inversion HF as [|? ? Hm HF']; subst. cbn [fst] in Hm. cbn [forallb fst] in Hwf. apply andb_prop in Hwf as [Wm Wl].
    unfold blocks in *. cbn [map concat fst snd] in *. rewrite rowsB_rep in Hi. cbn [fst] in Hi.
    rewrite bdmul_rep. cbn [fst snd bgo]. fold (bgo X).
    set (r := fst (shape m)) in *. set (c := snd (shape m)) in *.
    destruct (Nat.ltb_spec i (ri + mu * r)) as [Hlt|Hge].
    + destruct (Nat.ltb_spec (i - ri) (mu * r)); [|lia].
      set (t := (i - ri)%nat) in *. assert (Hr : (0 < r)%nat) by nia.
      assert (Hmu : (t / r < mu)%nat) by (apply Nat.div_lt_upper_bound; nia).
      set (Z := mkarr c (nc X * mu) (fun g col => dat X (ci + (col mod mu) * c + g)%nat (col / mu)%nat)).
      destruct (proj1 (Hm Wm) Z eq_refl) as (E1&E2&E).
      rewrite E; [|rewrite E1; cbn; apply Nat.mod_upper_bound; lia| rewrite E2; cbn; nia].
      unfold spec. cbn [dat]. unfold mmul. fold c. apply sum_ext; intros g Hg. cbn [dat Z].
      rewrite Nat.div_add_l, (Nat.div_small (t / r) mu), Nat.add_0_r by lia.
      rewrite (Nat.add_comm (j*mu)), Nat.mod_add, (Nat.mod_small (t / r) mu) by lia.
      f_equal. f_equal. ring.
    + destruct (Nat.ltb_spec (i - ri) (mu * r)); [lia|].
      rewrite IH; auto; try lia.
      replace (i - (ri + mu * r))%nat with (i - ri - mu * r)%nat by lia.
      unfold bdmul. apply sum_ext; intros g Hg. f_equal. f_equal. ring.
Qed.
Lemma goodF_BDiag ms : Forall (fun mc => good (fst mc)) ms -> wf (BDiag ms) = true -> goodF (BDiag ms).
Proof.
  intros HF Hwf X HX. cbn [wf] in Hwf. rewrite matmat_BDiag. apply aeq_memo_l. unfold spec.
  cbn [shape] in *. rewrite bshape_blocks in *. cbn [fst snd] in *.
  repeat split; auto. cbn [nr nc dat]. intros i j Hi Hj.
  rewrite (bgo_spec X ms HF Hwf 0 0 i j) by lia. rewrite Nat.sub_0_r. reflexivity.
Qed.
Lemma good_BDiag ms : Forall (fun mc => good (fst mc)) ms -> good (BDiag ms).
Proof. intros HF Hwf. pose proof (goodF_BDiag ms HF Hwf) as GF. split; [exact GF|]. intros X HX. apply (lt_spec (BDiag ms) GF X HX). Qed.

(* Transpose / Adjoint *)
Lemma good_Transp a : good a -> good (Transp a).
Proof.
  intros Ha Hwf. cbn [wf] in Hwf. destruct (Ha Hwf) as [HF HB]. unfold goodF, goodB, matmat, rmatmat in *.
  split; intros X HX; cbn [mm fst snd shape] in *.
  - destruct (HB (tra X)) as (E1&E2&E3); [cbn; exact HX|]. cbn [rspec tra nr nc dat] in E1, E2, E3.
    unfold spec, tra; cbn [shape den fst snd nr nc dat]. split; [exact E2|]. split; [exact E1|]. cbn [nr nc dat].
    intros i j Hi Hj. rewrite E3 by assumption. unfold mmul. apply sum_ext; intros l Hl. ring.
  - destruct (HF (tra X)) as (E1&E2&E3); [cbn; exact HX|]. cbn [spec tra nr nc dat] in E1, E2, E3.
    unfold rspec, tra; cbn [shape den fst snd nr nc dat]. split; [exact E2|]. split; [exact E1|]. cbn [nr nc dat].
    intros i j Hi Hj. rewrite E3 by assumption. unfold mmul. apply sum_ext; intros l Hl. ring.
Qed.
Lemma good_Adj a : good a -> good (Adj a).
Proof.
  intros Ha Hwf. cbn [wf] in Hwf. destruct (Ha Hwf) as [HF HB]. unfold goodF, goodB, matmat, rmatmat in *.
  split; intros X HX; cbn [mm fst snd shape] in *.
  - destruct (HB (tra (cja X))) as (E1&E2&E3); [cbn; exact HX|]. cbn [rspec tra cja nr nc dat] in E1, E2, E3.
    unfold spec, tra, cja; cbn [shape den fst snd nr nc dat]. split; [exact E2|]. split; [exact E1|]. cbn [nr nc dat].
    intros i j Hi Hj. rewrite E3 by assumption. unfold mmul. rewrite conj_sum. apply sum_ext; intros l Hl.
    rewrite conj_mul, conj_invol. ring.
  - destruct (HF (tra (cja X))) as (E1&E2&E3); [cbn; exact HX|]. cbn [spec tra cja nr nc dat] in E1, E2, E3.
    unfold rspec, tra, cja; cbn [shape den fst snd nr nc dat]. split; [exact E2|]. split; [exact E1|]. cbn [nr nc dat].
    intros i j Hi Hj. rewrite E3 by assumption. unfold mmul. rewrite conj_sum. apply sum_ext; intros l Hl.
    rewrite conj_mul, conj_invol. ring.
Qed.


(* ---- further kinds ---- *)
Lemma good_lt e : (wf e = true -> goodF e) -> snd (mm e) = lt (fst (mm e)) (fst (shape e)) (snd (shape e)) -> good e.
Proof. intros HF Hb Hwf. split; [auto|]. intros X HX. unfold rmatmat. rewrite Hb. apply (lt_spec e (HF Hwf) X HX). Qed.
Lemma good_Gen a : good (Gen a).
Proof. apply good_lt; [|reflexivity]. intros _ X HX. cbn [matmat mm fst]. apply aeq_memo_l. unfold spec. apply aeq_refl. Qed.
Lemma good_Perm n p : good (Perm n p).
Proof. apply good_lt; [|reflexivity]. intros Hwf X HX. cbn [wf] in Hwf. cbn [shape snd] in HX. cbn [matmat mm fst]. apply aeq_memo_l.
  unfold spec; cbn [shape den fst snd]. repeat split; auto. cbn [nr nc dat]. intros i j Hi Hj. unfold mmul.
  rewrite (sum_delta_l n (p i) (fun l => dat X l j)); [reflexivity|].
  rewrite forallb_forall in Hwf. apply Nat.ltb_lt. apply Hwf. apply in_seq. lia. Qed.
Lemma good_Tridiag n al be ga : good (Tridiag n al be ga).
Proof. apply good_lt; [|reflexivity]. intros _ X HX. cbn [shape snd] in HX. cbn [matmat mm fst]. apply aeq_memo_l.
  unfold spec; cbn [shape den fst snd]. repeat split; auto. cbn [nr nc dat]. intros i j Hi Hj. unfold mmul.
  rewrite (sum_ext n _ (fun l => (delta i l * (be i * dat X l j) + (if Nat.eqb i (S l) then al l else r0) * dat X l j) + (if Nat.eqb (S i) l then ga i else r0) * dat X l j)).
  2:{ intros l Hl. unfold delta. destruct (Nat.eqb i l); ring. }
  rewrite !sum_add. rewrite sum_delta_l by auto. f_equal; [f_equal|].
  - destruct (0 <? i)%nat eqn:E.
    + apply Nat.ltb_lt in E. rewrite (sum_ext n _ (fun l => delta (i - 1)%nat l * (al l * dat X l j))).
      * rewrite (sum_delta_l n (i - 1)%nat (fun l => al l * dat X l j)) by lia. reflexivity.
      * intros l Hl. unfold delta. destruct (Nat.eqb_spec i (S l)), (Nat.eqb_spec (i - 1)%nat l); try lia; ring.
    + apply Nat.ltb_ge in E. rewrite (sum_ext n _ (fun _ => r0)); [symmetry; apply sum_zero|].
      intros l Hl. destruct (Nat.eqb_spec i (S l)); [lia|ring].
  - destruct (S i <? n)%nat eqn:E.
    + apply Nat.ltb_lt in E. rewrite (sum_ext n _ (fun l => delta (S i) l * (ga i * dat X l j))).
      * rewrite (sum_delta_l n (S i) (fun l => ga i * dat X l j)) by lia. reflexivity.
      * intros l Hl. unfold delta. destruct (Nat.eqb (S i) l); ring.
    + apply Nat.ltb_ge in E. rewrite (sum_ext n _ (fun _ => r0)); [symmetry; apply sum_zero|].
      intros l Hl. destruct (Nat.eqb_spec (S i) l); [lia|ring].
Qed.
Lemma good_House n v beta : good (House n v beta).
Proof. apply good_lt; [|reflexivity]. intros _ X HX. cbn [shape snd] in HX. cbn [matmat mm fst]. apply aeq_memo_l.
  unfold spec; cbn [shape den fst snd]. repeat split; auto. cbn [nr nc dat]. intros i j Hi Hj. unfold mmul.
  rewrite (sum_ext n (fun l => (delta i l - beta * v i * conj (v l)) * dat X l j) (fun l => delta i l * dat X l j + (- (beta * v i)) * (dat X l j * conj (v l)))) by (intros; ring).
  rewrite sum_add, sum_mul_l, sum_delta_l by auto. ring. Qed.
Lemma spden_cons r c x ent i j : spden ((r, c, x) :: ent) i j = (if Nat.eqb r i && Nat.eqb c j then x else r0) + spden ent i j.
Proof. reflexivity. Qed.
Lemma spden_nil_sum n (f : nat -> R) i : sum n (fun l => spden [] i l * f l) = r0.
Proof. rewrite (sum_ext n _ (fun _ => r0)); [apply sum_zero|]. intros; unfold spden; cbn [fold_right]; ring. Qed.
Lemma spden_nil_sum_r n (f : nat -> R) j : sum n (fun l => f l * spden [] l j) = r0.
Proof. rewrite (sum_ext n _ (fun _ => r0)); [apply sum_zero|]. intros; unfold spden; cbn [fold_right]; ring. Qed.
Lemma good_Sparse m n ent : good (Sparse m n ent).
Proof. intros Hwf. cbn [wf] in Hwf. rewrite forallb_forall in Hwf.
  split; intros X HX; cbn [shape fst snd] in HX; cbn [matmat rmatmat mm fst snd]; apply aeq_memo_l; unfold spec, rspec; cbn [shape den fst snd];
  repeat split; auto; cbn [nr nc dat]; intros i j Hi Hj; unfold mmul.
  - induction ent as [|[[r c] x] ent IH].
    + cbn [fold_right]. rewrite spden_nil_sum. reflexivity.
    + cbn [fold_right fst snd]. rewrite IH by (intros e He; apply Hwf; right; auto).
      assert (Hc : (c < n)%nat). { specialize (Hwf (r, c, x) (or_introl eq_refl)). cbn [fst snd] in Hwf. apply andb_prop in Hwf as [_ H]. apply Nat.ltb_lt; auto. }
      rewrite (sum_ext n (fun l => spden ((r, c, x) :: ent) i l * dat X l j)
                 (fun l => (if Nat.eqb r i then delta c l * (x * dat X l j) else r0) + spden ent i l * dat X l j)).
      2:{ intros l Hl. rewrite spden_cons. unfold delta. destruct (Nat.eqb r i), (Nat.eqb c l); cbn [andb]; ring. }
      rewrite sum_add. f_equal. destruct (Nat.eqb r i); [rewrite sum_delta_l by auto; reflexivity|symmetry; apply sum_zero].
  - induction ent as [|[[r c] x] ent IH].
    + cbn [fold_right]. rewrite spden_nil_sum_r. reflexivity.
    + cbn [fold_right fst snd]. rewrite IH by (intros e He; apply Hwf; right; auto).
      assert (Hr : (r < m)%nat). { specialize (Hwf (r, c, x) (or_introl eq_refl)). cbn [fst snd] in Hwf. apply andb_prop in Hwf as [H _]. apply Nat.ltb_lt; auto. }
      rewrite (sum_ext m (fun l => dat X i l * spden ((r, c, x) :: ent) l j) (fun l => (if Nat.eqb c j then (dat X i l * x) * delta l r else r0) + dat X i l * spden ent l j)).
      2:{ intros l Hl. rewrite spden_cons. unfold delta. rewrite (Nat.eqb_sym l r).
          destruct (Nat.eqb r l), (Nat.eqb c j); cbn [andb]; ring. }
      rewrite sum_add. f_equal. destruct (Nat.eqb c j); [rewrite (sum_delta_r m r (fun l => dat X i l * x)) by auto; reflexivity|symmetry; apply sum_zero].
Qed.
(* KronSum *)
Definition sqposl (l : list op) := forallb (fun s => (0 <? fst s)%nat && Nat.eqb (fst s) (snd s)) (map shape l) = true.
Definition ksgo (K : nat) (x0 : nat -> R) := fix go (l : list op) (P : nat) {struct l} : nat -> R :=
  match l with
  | [] => fun _ => r0
  | m :: l' =>
      let d := fst (shape m) in
      let S := (prodcs l' * K)%nat in
      let Z := mkarr d (P * S) (fun j col => x0 (((col / S) * d + j) * S + col mod S)%nat) in
      let Y := fst (mm m) Z in
      let rest := go l' (P * d)%nat in
      fun idx => dat Y ((idx / S) mod d)%nat ((idx / (d * S)) * S + idx mod S)%nat + rest idx
  end.
Lemma matmat_KronSum ms X : matmat (KronSum ms) X =
  memo (mkarr (fst (shape (KronSum ms))) (nc X) (fun i j => ksgo (nc X) (fun idx => dat X (idx / nc X)%nat (idx mod nc X)%nat) ms 1%nat (i * nc X + j)%nat)).
Proof. reflexivity. Qed.
Lemma fr_ksumR l : fr (ksumR (map facof l)) = prodrs l.
Proof. induction l as [|m l IH]; [reflexivity|]. cbn [map ksumR ksum2 fr facof prodrs fold_right]. rewrite IH. reflexivity. Qed.
Lemma fc_ksumR l : fc (ksumR (map facof l)) = prodcs l.
Proof. induction l as [|m l IH]; [reflexivity|]. cbn [map ksumR ksum2 fc facof prodcs fold_right]. rewrite IH. reflexivity. Qed.
Lemma sq_prod l : sqposl l -> prodrs l = prodcs l /\ (0 < prodcs l)%nat.
Proof. unfold sqposl. induction l as [|m l IH]; cbn [map forallb prodrs prodcs fold_right]; intros H; [split; [reflexivity|lia]|].
  apply andb_prop in H as [H1 H2]. apply andb_prop in H1 as [A B]. apply Nat.ltb_lt in A. apply Nat.eqb_eq in B.
  destruct (IH H2) as [E P]. fold (prodrs l). fold (prodcs l). rewrite E, <- B. split; [reflexivity|nia]. Qed.
Lemma ksgo_spec K x0 l : (0 < K)%nat -> Forall good l -> forallb wf l = true -> sqposl l ->
  forall P p rho kap, (p < P)%nat -> (rho < prodcs l)%nat -> (kap < K)%nat ->
  ksgo K x0 l P ((p * prodcs l + rho) * K + kap)%nat
  = sum (prodcs l) (fun g => fmx (ksumR (map facof l)) rho g * x0 ((p * prodcs l + g) * K + kap)%nat).
Proof.
  intros HK. induction l as [|m l IH]; intros HF Hwf Hsq P p rho kap Hp Hrho Hkap.
  - cbn [ksgo prodcs fold_right map ksumR zero11 fmx sum]. ring.
  - inversion HF as [|? ? Hm HF']; subst. cbn [forallb] in Hwf. apply andb_prop in Hwf as [Wm Wl].
    assert (Hsq' : sqposl l). { unfold sqposl in *. cbn [map forallb] in Hsq. apply andb_prop in Hsq; tauto. }
    assert (Hd : (0 < fst (shape m))%nat /\ fst (shape m) = snd (shape m)).
    { unfold sqposl in Hsq. cbn [map forallb] in Hsq. apply andb_prop in Hsq as [H _]. apply andb_prop in H as [A B].
      apply Nat.ltb_lt in A. apply Nat.eqb_eq in B. tauto. }
    destruct Hd as [Hd Hsqm]. destruct (sq_prod l Hsq') as [Erc HN'].
    cbn [ksgo]. fold (ksgo K x0). cbn [prodcs fold_right] in *. fold (prodcs l) in *.
    rewrite <- Hsqm in *.
    set (d := fst (shape m)) in *. set (N' := prodcs l) in *. set (S := (N' * K)%nat).
    assert (HS : (0 < S)%nat) by (unfold S; nia).
    set (r := (rho / N')%nat). set (rho' := (rho mod N')%nat).
    assert (Hr : rho = (r * N' + rho')%nat) by (unfold r, rho'; rewrite Nat.mul_comm; apply Nat.div_mod; lia).
    assert (Hrho' : (rho' < N')%nat) by (apply Nat.mod_upper_bound; lia).
    assert (Hr1 : (r < d)%nat) by (apply Nat.div_lt_upper_bound; lia).
    clearbody r rho'. subst rho.
    set (s := (rho' * K + kap)%nat). assert (Hs : (s < S)%nat) by (unfold s, S; nia).
    set (idx := ((p * (d * N') + (r * N' + rho')) * K + kap)%nat).
    assert (Eidx : idx = ((p * d + r) * S + s)%nat) by (unfold idx, S, s; ring).
    assert (E1 : (idx / S = p * d + r)%nat) by (symmetry; apply Nat.div_unique with (r := s); [lia|rewrite Eidx; ring]).
    assert (E2 : (idx mod S = s)%nat) by (symmetry; apply Nat.mod_unique with (q := (p * d + r)%nat); [lia|rewrite Eidx; ring]).
    assert (E3 : (idx / (d * S) = p)%nat).
    { assert (Hb : ((r + 1) * S <= d * S)%nat) by (apply Nat.mul_le_mono_r; lia).
      symmetry. apply Nat.div_unique with (r := (r * S + s)%nat); [lia|rewrite Eidx; ring]. }
    assert (E4 : ((p * d + r) mod d = r)%nat) by (rewrite Nat.add_comm, Nat.mod_add by lia; apply Nat.mod_small; lia).
    rewrite E1, E2, E3, E4.
    (* first term: the factor's product *)
    set (Z := mkarr d (P * S) (fun j col => x0 (((col / S) * d + j) * S + col mod S)%nat)).
    destruct (proj1 (Hm Wm) Z) as (F1&F2&F3); [cbn; congruence|]. unfold matmat in *.
    rewrite F3; [|rewrite F1; cbn; exact Hr1| rewrite F2; cbn; nia].
    cbn [spec dat]. unfold mmul. rewrite <- Hsqm. fold d.
    (* rest: induction hypothesis *)
    replace idx with (((p * d + r) * N' + rho') * K + kap)%nat by (unfold idx; ring).
    rewrite (IH HF' Wl Hsq' (P * d)%nat (p * d + r)%nat rho' kap) by (auto; nia).
    (* right-hand side *)
    transitivity (sum d (fun j => den m r j * x0 (((p * d + j) * N' + rho') * K + kap)%nat)
                  + sum N' (fun g' => fmx (ksumR (map facof l)) rho' g' * x0 (((p * d + r) * N' + g') * K + kap)%nat)).
    { f_equal. apply sum_ext; intros j Hj. cbn [dat Z].
      replace (p * S + s)%nat with (s + p * S)%nat by ring.
      rewrite Nat.div_add, (Nat.div_small s S), Nat.add_0_l, Nat.mod_add, (Nat.mod_small s S) by lia.
      replace ((p * d + j) * S + s)%nat with (((p * d + j) * N' + rho') * K + kap)%nat by (unfold S, s; ring). reflexivity. }
    symmetry. rewrite sum_prod.
    match goal with |- sum d ?F = _ =>
      rewrite (sum_ext d F (fun j => den m r j * x0 (((p * d + j) * N' + rho') * K + kap)%nat
                              + delta r j * sum N' (fun g' => fmx (ksumR (map facof l)) rho' g' * x0 (((p * d + j) * N' + g') * K + kap)%nat))) end.
    2:{ intros j Hj.
        match goal with |- sum N' ?F = _ =>
        rewrite (sum_ext N' F (fun g' => delta rho' g' * (den m r j * x0 (((p * d + j) * N' + g') * K + kap)%nat)
                                      + delta r j * (fmx (ksumR (map facof l)) rho' g' * x0 (((p * d + j) * N' + g') * K + kap)%nat))) end.
        - rewrite sum_add, sum_mul_l. rewrite (sum_delta_l N' rho' (fun g' => den m r j * x0 (((p * d + j) * N' + g') * K + kap)%nat)) by auto. reflexivity.
        - intros g' Hg'. cbn [map ksumR ksum2 fmx fr fc facof]. rewrite fr_ksumR, fc_ksumR, Erc. fold N'.
          rewrite !Nat.div_add_l, (Nat.div_small g' N'), (Nat.div_small rho' N'), !Nat.add_0_r by lia.
          rewrite (Nat.add_comm (j * N') g'), (Nat.add_comm (r * N') rho'), !Nat.mod_add, (Nat.mod_small g' N'), (Nat.mod_small rho' N') by lia.
          replace ((p * (d * N') + (g' + j * N')) * K + kap)%nat with (((p * d + j) * N' + g') * K + kap)%nat by ring.
          ring. }
    rewrite sum_add. f_equal.
    rewrite (sum_delta_l d r (fun j => sum N' (fun g' => fmx (ksumR (map facof l)) rho' g' * x0 (((p * d + j) * N' + g') * K + kap)%nat))) by auto.
    reflexivity.
Qed.
Lemma kshape_sq l : sqposl l -> kshape (map shape l) = (prodcs l, prodcs l).
Proof. intros H. induction l as [|m l IH]; [reflexivity|]. cbn [map kshape fold_right prodcs].
  change (fold_right (fun s acc => (fst s * fst acc, snd s * snd acc)%nat) (1,1)%nat (map shape l)) with (kshape (map shape l)).
  assert (H' : sqposl l). { unfold sqposl in *. cbn [map forallb] in H. apply andb_prop in H; tauto. }
  rewrite (IH H'). cbn [fst snd]. fold (prodcs l).
  unfold sqposl in H. cbn [map forallb] in H. apply andb_prop in H as [H _]. apply andb_prop in H as [_ B]. apply Nat.eqb_eq in B.
  rewrite B. reflexivity. Qed.
Lemma good_KronSum ms : Forall good ms -> good (KronSum ms).
Proof. intros HF. apply good_lt; [|reflexivity]. intros Hwf X HX. cbn [wf] in Hwf.
  apply andb_prop in Hwf as [Hwf Hsq]. apply andb_prop in Hwf as [Hne Hwfs].
  rewrite matmat_KronSum. apply aeq_memo_l. unfold spec. cbn [shape] in *. rewrite (kshape_sq ms Hsq) in *. cbn [fst snd] in *.
  change (den (KronSum ms)) with (fmx (ksumR (map facof ms))).
  repeat split; auto. cbn [nr nc dat]. intros i j Hi Hj.
  set (K := nc X) in *. assert (HK : (0 < K)%nat) by lia.
  replace (i * K + j)%nat with ((0 * prodcs ms + i) * K + j)%nat by ring.
  rewrite (ksgo_spec K _ ms HK HF Hwfs Hsq 1%nat 0%nat i j) by (auto; lia).
  unfold mmul. apply sum_ext; intros g Hg. f_equal.
  replace ((0 * prodcs ms + g) * K + j)%nat with (j + g * K)%nat by ring.
  rewrite Nat.div_add, (Nat.div_small j K), Nat.add_0_l, Nat.mod_add, (Nat.mod_small j K) by lia. reflexivity.
Qed.


(* ConcatV *)
Lemma vstack_spec (X : arr) n j (l : list op) :
  (forall m, In m l -> goodF m /\ snd (shape m) = n) -> nr X = n -> (j < nc X)%nat ->
  forall i, (i < fold_right (fun s acc => (fst s + acc)%nat) 0%nat (map shape l))%nat ->
  vstack (map (fun m => (fst (shape m), dat (fst (mm m) X))) l) i j
  = mmul n (vstack (map (fun m => (fst (shape m), den m)) l)) (dat X) i j.
Proof.
  intros Hall HX Hj. induction l as [|m l IH]; intros i Hi; cbn [map fold_right] in *; [lia|].
  destruct (Hall m (or_introl eq_refl)) as [Gm Sm].
  cbn [vstack]. unfold mmul. cbn [fst] in Hi. destruct (i <? fst (shape m))%nat eqn:E.
  - apply Nat.ltb_lt in E. destruct (Gm X) as (E1&E2&E3); [congruence|]. unfold matmat in *.
    rewrite E3 by (rewrite ?E1, ?E2; cbn [spec nr nc]; auto). cbn [spec dat]. unfold mmul. rewrite Sm. reflexivity.
  - apply Nat.ltb_ge in E. rewrite IH; [reflexivity| intros m' Hm'; apply Hall; right; auto | lia].
Qed.
Lemma good_ConcatV ms : Forall good ms -> good (ConcatV ms).
Proof. intros HF. apply good_lt; [|reflexivity]. intros Hwf X HX. cbn [wf] in Hwf.
  apply andb_prop in Hwf as [Hwf Hsh]. apply andb_prop in Hwf as [Hne Hwfs].
  cbn [shape snd] in HX. cbn [matmat mm fst]. apply aeq_memo_l. unfold spec. repeat split; auto. cbn [nr nc dat].
  cbn [shape fst snd den]. intros i j Hi Hj. apply vstack_spec; auto.
  intros m Hm. rewrite Forall_forall in HF. rewrite forallb_forall in Hwfs, Hsh. split.
  - apply HF; auto.
  - specialize (Hsh (shape m) (in_map shape _ _ Hm)). apply Nat.eqb_eq in Hsh. exact Hsh.
Qed.

(* Sliced *)
Lemma nodupb_NoDup l : nodupb l = true -> NoDup l.
Proof. induction l as [|x l IH]; cbn [nodupb]; intros H; [constructor|]. apply andb_prop in H as [H1 H2]. constructor; auto.
  intros Hin. apply negb_true_iff in H1. assert (existsb (Nat.eqb x) l = true); [|congruence].
  apply existsb_exists. exists x. split; auto. apply Nat.eqb_refl. Qed.
Lemma scat_spec cs (X : fm) l j : NoDup cs -> scat cs X l j = sum (length cs) (fun k => delta (nth k cs 0%nat) l * X k j).
Proof. intros Hnd. unfold scat.
  assert (H : forall t, (t <= length cs)%nat ->
     fold_left (fun acc k => if Nat.eqb (nth k cs 0%nat) l then X k j else acc) (seq 0 t) r0 = sum t (fun k => delta (nth k cs 0%nat) l * X k j)).
  { induction t as [|t IH]; intros Ht; [reflexivity|]. rewrite seq_S, fold_left_app. cbn [fold_left plus sum]. rewrite IH by lia.
    destruct (Nat.eqb_spec (nth t cs 0%nat) l) as [Heq|Hne].
    - rewrite (sum_ext t _ (fun _ => r0)).
      + rewrite sum_zero. unfold delta. rewrite Heq, Nat.eqb_refl. ring.
      + intros k Hk. unfold delta. destruct (Nat.eqb_spec (nth k cs 0%nat) l) as [Hk2|]; [|ring].
        exfalso. rewrite (NoDup_nth cs 0%nat) in Hnd. assert (k = t); [apply Hnd; try lia; rewrite Hk2, Heq; reflexivity|lia].
    - unfold delta. destruct (Nat.eqb_spec (nth t cs 0%nat) l); [contradiction|ring]. }
  apply H. lia. Qed.
Lemma scatc_scat rs (X : fm) i l : scatc rs X i l = scat rs (fun k j' => X j' k) l i.
Proof. reflexivity. Qed.
Lemma good_Sliced a rs cs : good a -> good (Sliced a rs cs).
Proof. intros Ha Hwf. cbn [wf] in Hwf. repeat (apply andb_prop in Hwf as [Hwf ?]).
  destruct (Ha Hwf) as [HF HB]. clear Ha.
  match goal with H : nodupb rs = true |- _ => apply nodupb_NoDup in H; rename H into Nrs end.
  match goal with H : nodupb cs = true |- _ => apply nodupb_NoDup in H; rename H into Ncs end.
  match goal with H : forallb _ rs = true |- _ => rewrite forallb_forall in H; rename H into Brs end.
  match goal with H : forallb _ cs = true |- _ => rewrite forallb_forall in H; rename H into Bcs end.
  assert (Hrs : forall i, (i < length rs)%nat -> (nth i rs 0 < fst (shape a))%nat).
  { intros i Hi. apply Nat.ltb_lt. apply Brs. apply nth_In; auto. }
  assert (Hcs : forall i, (i < length cs)%nat -> (nth i cs 0 < snd (shape a))%nat).
  { intros i Hi. apply Nat.ltb_lt. apply Bcs. apply nth_In; auto. }
  unfold goodF, goodB, matmat, rmatmat in *. split; intros X HX; cbn [shape fst snd] in HX; cbn [mm fst snd]; apply aeq_memo_l;
  unfold spec, rspec; cbn [shape den fst snd]; repeat split; auto; cbn [nr nc dat]; intros i j Hi Hj.
  - set (Y := memo (mkarr (snd (shape a)) (nc X) (scat cs (dat X)))).
    destruct (HF Y eq_refl) as (E1&E2&E3). cbn [spec nr nc dat] in E1, E2, E3.
    rewrite E3 by (rewrite ?E1, ?E2; cbn; auto).
    destruct (memo_aeq (mkarr (snd (shape a)) (nc X) (scat cs (dat X)))) as (_&_&EY). cbn [nr nc dat] in EY. fold Y in EY.
    unfold mmul. rewrite (sum_ext _ _ (fun l => sum (length cs) (fun k => (delta (nth k cs 0%nat) l * den a (nth i rs 0%nat) l) * dat X k j))).
    2:{ intros l Hl. rewrite EY by auto. rewrite scat_spec by auto. rewrite <- sum_mul_l. apply sum_ext; intros; ring. }
    rewrite sum_swap. apply sum_ext. intros k Hk. rewrite sum_mul_r.
    rewrite (sum_delta_l (snd (shape a)) (nth k cs 0%nat) (fun l => den a (nth i rs 0%nat) l)) by auto. reflexivity.
  - set (Y := memo (mkarr (nr X) (fst (shape a)) (scatc rs (dat X)))).
    destruct (HB Y eq_refl) as (E1&E2&E3). cbn [rspec nr nc dat] in E1, E2, E3.
    rewrite E3 by (rewrite ?E1, ?E2; cbn; auto).
    destruct (memo_aeq (mkarr (nr X) (fst (shape a)) (scatc rs (dat X)))) as (_&_&EY). cbn [nr nc dat] in EY. fold Y in EY.
    unfold mmul. rewrite (sum_ext _ _ (fun l => sum (length rs) (fun k => dat X i k * (delta (nth k rs 0%nat) l * den a l (nth j cs 0%nat))))).
    2:{ intros l Hl. rewrite EY by auto. rewrite scatc_scat, scat_spec by auto. rewrite <- sum_mul_r. apply sum_ext; intros; ring. }
    rewrite sum_swap. apply sum_ext. intros k Hk. rewrite sum_mul_l.
    rewrite (sum_delta_l (fst (shape a)) (nth k rs 0%nat) (fun l => den a l (nth j cs 0%nat))) by auto. reflexivity.
Qed.

Theorem mm_den : forall e, good e.
Proof. apply op_ind2; auto using good_Dense, good_Diag, good_Ident, good_Scal, good_Sum, good_Prod, good_Kron, good_BDiag, good_Transp, good_Adj,
  good_Gen, good_Perm, good_Tridiag, good_House, good_Sparse, good_KronSum, good_Sliced, good_ConcatV. Qed.
End C01.
