(* Soundness of the operator algebra (C02: transpose/adjoint; C03: add, dot, mul, neg, sub, kron, block_diag):
   every rewriting rule preserves the represented matrix, shape and well-formedness. *)
From Coq Require Import Arith Lia List Ring ArithRing PeanoNat Bool.
From Core Require Import Base Kron Op OpProofs Algebra.
Import ListNotations.
Section AP.
Context {R : Type} {RR : Ring R} {CR : CRing R}.
Add Ring Rring : Rth.
Open Scope R_scope.
Notation fm := (fm (R:=R)). Notation arr := (arr (R:=R)). Notation op := (op (R:=R)).

Lemma shp_eqb_eq a b : shp_eqb a b = true <-> a = b.
Proof. unfold shp_eqb. destruct a, b; cbn [fst snd]. rewrite andb_true_iff, !Nat.eqb_eq. split; [intros [-> ->]; reflexivity|intros H; inversion H; auto]. Qed.

(* ---------- sums ---------- *)
Definition fsum (l : list op) : fm := fold_right (fun M acc => madd M acc) zerom (map den l).
Lemma fsum_app l1 l2 i j : fsum (l1 ++ l2) i j = fsum l1 i j + fsum l2 i j.
Proof. unfold fsum. induction l1 as [|m l1 IH]; cbn [app map fold_right].
  - unfold zerom. ring.
  - unfold madd at 1 3. rewrite IH. ring. Qed.
Lemma fsum_terms (a : op) i j : fsum (terms a) i j = den a i j.
Proof. destruct a; try reflexivity; cbn [terms]; unfold fsum; cbn [map fold_right]; unfold madd, zerom; ring. Qed.
Definition allshape (s : shp) (l : list op) := Forall (fun t => wf t = true /\ shape t = s) l.
Lemma wf_Sum_intro l s : l <> [] -> allshape s l -> wf (Sum l) = true /\ shape (Sum l) = s.
Proof. intros Hne HF. assert (Hhd : hd (0,0)%nat (map shape l) = s).
  { destruct l as [|m l]; [contradiction|]. inversion HF; subst. cbn. tauto. }
  cbn [wf shape]. rewrite Hhd. split; [|reflexivity].
  rewrite !andb_true_iff. repeat split.
  - destruct l; [contradiction|reflexivity].
  - rewrite forallb_forall. intros x Hx. unfold allshape in HF. rewrite Forall_forall in HF. apply HF; auto.
  - rewrite forallb_forall. intros x Hx. apply in_map_iff in Hx as [m [<- Hm]]. unfold allshape in HF. rewrite Forall_forall in HF.
    apply shp_eqb_eq. apply HF; auto. Qed.
Lemma terms_wf (a : op) : wf a = true -> terms a <> [] /\ allshape (shape a) (terms a).
Proof. intros Hwf. destruct a; try (cbn [terms]; split; [discriminate|constructor; [tauto|constructor]]).
  cbn [terms]. cbn [wf] in Hwf. apply andb_prop in Hwf as [Hwf Hsh]. apply andb_prop in Hwf as [Hne Hwfs]. split.
  - destruct ms; [discriminate|discriminate].
  - unfold allshape. rewrite Forall_forall. intros m Hm. apply (Sum_all ms _ eq_refl Hwfs Hsh m Hm). Qed.
Theorem add_sound (a b c : op) : wf a = true -> wf b = true -> add a b = Ok c ->
  wf c = true /\ shape c = shape a /\ forall i j, den c i j = den a i j + den b i j.
Proof. intros Wa Wb H. unfold add in H. destruct (shp_eqb (shape a) (shape b)) eqn:E; [|discriminate]. inversion H; subst c; clear H.
  apply shp_eqb_eq in E. destruct (terms_wf a Wa) as [Na Fa]. destruct (terms_wf b Wb) as [Nb Fb]. rewrite <- E in Fb.
  destruct (wf_Sum_intro (terms a ++ terms b) (shape a)) as [W S].
  - destruct (terms a); [contradiction|discriminate].
  - apply Forall_app; split; assumption.
  - repeat split; auto. intros i j. change (den (Sum (terms a ++ terms b))) with (fsum (terms a ++ terms b)).
    rewrite fsum_app, !fsum_terms. reflexivity. Qed.
Theorem add_rejects (a b : op) : shape a <> shape b -> add a b = Err EShape.
Proof. intros H. unfold add. destruct (shp_eqb (shape a) (shape b)) eqn:E; [apply shp_eqb_eq in E; contradiction|reflexivity]. Qed.

(* ---------- scalar multiples ---------- *)
Theorem mul_sound (a : op) (c : R) : wf a = true ->
  wf (mul a c) = true /\ shape (mul a c) = shape a /\
  feq (fst (shape a)) (snd (shape a)) (den (mul a c)) (fun i j => c * den a i j).
Proof. intros Wa.
  assert (G : wf (Prod [Scal c (fst (shape a)); a]) = true /\ shape (Prod [Scal c (fst (shape a)); a]) = shape a /\
              feq (fst (shape a)) (snd (shape a)) (den (Prod [Scal c (fst (shape a)); a])) (fun i j => c * den a i j)).
  { cbn [wf shape map hd last fst snd length forallb chain_ok Nat.eqb]. rewrite Wa, Nat.eqb_refl. cbn [andb negb].
    repeat split; [destruct (shape a); reflexivity|].
    intros i j Hi Hj. cbn [den map chain fold_right shape fst snd]. unfold mmul at 1.
    rewrite (sum_ext _ _ (fun l => delta i l * (c * den a l j))).
    - rewrite sum_delta_l by auto. reflexivity.
    - intros l Hl. rewrite mmul_eye_r by auto. ring. }
  destruct a; try exact G. cbn [mul wf shape den fst snd]. repeat split; auto. intros i j Hi Hj. ring. Qed.
Corollary neg_sound (a : op) : wf a = true ->
  wf (neg a) = true /\ shape (neg a) = shape a /\ feq (fst (shape a)) (snd (shape a)) (den (neg a)) (fun i j => - den a i j).
Proof. intros Wa. destruct (mul_sound a (- r1) Wa) as (W & S & D). repeat split; auto. intros i j Hi Hj. unfold neg. rewrite (D i j Hi Hj). ring. Qed.

(* ---------- products ---------- *)
Definition chainl (l : list op) : fm := chain (map (fun m => (shape m, den m)) l).
Lemma chainl_cons m l : chainl (m :: l) = mmul (snd (shape m)) (den m) (chainl l).
Proof. reflexivity. Qed.
Lemma chainl_app l1 l2 : l1 <> [] -> forall i j,
  chainl (l1 ++ l2) i j = mmul (snd (last (map shape l1) (0,0)%nat)) (chainl l1) (chainl l2) i j.
Proof. induction l1 as [|m l1 IH]; [contradiction|]. intros _ i j. destruct l1 as [|m' l1].
  - cbn [app map last]. rewrite !chainl_cons. change (chainl []) with (eye (R:=R)).
    rewrite mmul_assoc. unfold mmul at 1 2. apply sum_ext; intros l Hl. rewrite mmul_eye_l by auto. reflexivity.
  - change ((m :: m' :: l1) ++ l2) with (m :: ((m' :: l1) ++ l2)). rewrite chainl_cons.
    change (last (map shape (m :: m' :: l1)) (0,0)%nat) with (last (map shape (m' :: l1)) (0,0)%nat).
    rewrite (chainl_cons m (m' :: l1)). rewrite mmul_assoc. unfold mmul at 1 2. apply sum_ext; intros l Hl.
    rewrite IH by discriminate. reflexivity. Qed.
Lemma chain_ok_app l1 l2 : l1 <> [] -> l2 <> [] -> chain_ok l1 = true -> chain_ok l2 = true ->
  snd (last l1 (0,0)%nat) = fst (hd (0,0)%nat l2) -> chain_ok (l1 ++ l2) = true.
Proof. induction l1 as [|s l1 IH]; [contradiction|]. intros _ N2 C1 C2 E. destruct l1 as [|s' l1].
  - destruct l2 as [|t l2]; [contradiction|]. cbn [app chain_ok]. cbn [last hd] in E. rewrite E, Nat.eqb_refl. exact C2.
  - change ((s :: s' :: l1) ++ l2) with (s :: s' :: (l1 ++ l2)). cbn [chain_ok] in C1 |- *. apply andb_prop in C1 as [A B].
    rewrite A. cbn [andb]. apply (IH ltac:(discriminate) N2 B C2). exact E. Qed.
Lemma factors_wf (a : op) : wf a = true ->
  factors a <> [] /\ forallb wf (factors a) = true /\ chain_ok (map shape (factors a)) = true /\
  fst (hd (0,0)%nat (map shape (factors a))) = fst (shape a) /\ snd (last (map shape (factors a)) (0,0)%nat) = snd (shape a).
Proof. intros Wa. destruct a; try (cbn [factors map forallb chain_ok hd last]; rewrite Wa; repeat split; discriminate || reflexivity).
  cbn [factors]. cbn [wf] in Wa. apply andb_prop in Wa as [Wa C]. apply andb_prop in Wa as [N W]. repeat split; auto.
  destruct ms; discriminate. Qed.
Lemma chainl_factors (a : op) : forall i j, (j < snd (shape a))%nat -> chainl (factors a) i j = den a i j.
Proof. intros i j Hj. destruct a; try reflexivity; cbn [factors]; rewrite chainl_cons; change (chainl []) with (eye (R:=R)); apply mmul_eye_r; exact Hj. Qed.
Lemma last_app_ne {A} (l1 l2 : list A) d : l2 <> [] -> last (l1 ++ l2) d = last l2 d.
Proof. intros H. induction l1 as [|x l1 IH]; [reflexivity|]. cbn [app]. rewrite <- IH.
  destruct (l1 ++ l2) eqn:E; [|reflexivity]. destruct l1; [cbn in E; contradiction|discriminate]. Qed.
Theorem dot_sound (a b c : op) : wf a = true -> wf b = true -> dot a b = Ok c ->
  wf c = true /\ shape c = (fst (shape a), snd (shape b)) /\
  feq (fst (shape a)) (snd (shape b)) (den c) (mmul (snd (shape a)) (den a) (den b)).
Proof. intros Wa Wb H. unfold dot in H. destruct (Nat.eqb (snd (shape a)) (fst (shape b))) eqn:E; cbn [negb] in H; [|discriminate].
  apply Nat.eqb_eq in E. destruct (is_ident b) eqn:Ib.
  { inversion H; subst c. destruct b; try discriminate. cbn [shape fst snd] in *. repeat split; auto.
    - rewrite <- E. destruct (shape a); reflexivity.
    - intros i j Hi Hj. cbn [den]. rewrite E. rewrite mmul_eye_r by auto. reflexivity. }
  destruct (is_ident a) eqn:Ia.
  { inversion H; subst c. destruct a; try discriminate. cbn [shape fst snd] in *. repeat split; auto.
    - rewrite E. destruct (shape b); reflexivity.
    - intros i j Hi Hj. cbn [den]. rewrite mmul_eye_l by auto. reflexivity. }
  inversion H; subst c; clear H.
  destruct (factors_wf a Wa) as (Na & Fa & Ca & Ha & La). destruct (factors_wf b Wb) as (Nb & Fb & Cb & Hb & Lb).
  assert (Hne : factors a ++ factors b <> []) by (destruct (factors a); [contradiction|discriminate]).
  assert (Hsh : shape (Prod (factors a ++ factors b)) = (fst (shape a), snd (shape b))).
  { cbn [shape]. rewrite map_app. f_equal.
    - destruct (factors a); [contradiction|]. exact Ha.
    - rewrite last_app_ne; [exact Lb|]. destruct (factors b); [contradiction|discriminate]. }
  repeat split; auto.
  - cbn [wf]. rewrite !andb_true_iff. repeat split.
    + destruct (factors a ++ factors b); [contradiction|reflexivity].
    + rewrite forallb_app, Fa, Fb. reflexivity.
    + rewrite map_app. apply chain_ok_app; auto.
      * destruct (factors a); [contradiction|discriminate].
      * destruct (factors b); [contradiction|discriminate].
      * rewrite La, Hb. exact E.
  - intros i j Hi Hj. change (den (Prod (factors a ++ factors b))) with (chainl (factors a ++ factors b)).
    rewrite chainl_app by auto. rewrite La. unfold mmul. apply sum_ext; intros l Hl.
    rewrite chainl_factors by auto. rewrite chainl_factors by auto. reflexivity. Qed.
Theorem dot_rejects (a b : op) : snd (shape a) <> fst (shape b) -> dot a b = Err EShape.
Proof. intros H. unfold dot. destruct (Nat.eqb_spec (snd (shape a)) (fst (shape b))); [contradiction|reflexivity]. Qed.

(* ---------- transpose / adjoint ---------- *)
Lemma spden_swap ent i j : spden (map (fun x : nat * nat * R => (snd (fst x), fst (fst x), snd x)) ent) i j = spden ent j i.
Proof. unfold spden. induction ent as [|[[r c] x] ent IH]; [reflexivity|]. cbn [map fold_right fst snd]. rewrite IH.
  rewrite (andb_comm (Nat.eqb c i)). reflexivity. Qed.
Definition symmetric (e : op) := fst (shape e) = snd (shape e) /\ feq (fst (shape e)) (fst (shape e)) (den e) (fun i j => den e j i).
Definition hermitian (e : op) := fst (shape e) = snd (shape e) /\ feq (fst (shape e)) (fst (shape e)) (den e) (fun i j => conj (den e j i)).
Theorem transpose_sound sa (e : op) : wf e = true -> (sa = true -> symmetric e) ->
  wf (transpose sa e) = true /\ shape (transpose sa e) = (snd (shape e), fst (shape e)) /\
  feq (snd (shape e)) (fst (shape e)) (den (transpose sa e)) (fun i j => den e j i).
Proof. intros We Hsa.
  assert (G : wf (if sa then e else Transp e) = true /\ shape (if sa then e else Transp e) = (snd (shape e), fst (shape e)) /\
              feq (snd (shape e)) (fst (shape e)) (den (if sa then e else Transp e)) (fun i j => den e j i)).
  { destruct sa.
    - destruct (Hsa eq_refl) as [Sq Sy]. repeat split; auto.
      + rewrite <- Sq. destruct (shape e); cbn [fst snd] in *; subst; reflexivity.
      + rewrite <- Sq. exact Sy.
    - cbn [wf shape den]. repeat split; auto; try (intros i j _ _; reflexivity). }
  destruct e; try exact G; clear G.
  - cbn [transpose wf shape den tra nr nc dat fst snd]. repeat split; auto; try (intros i j _ _; reflexivity).
  - cbn [transpose]. cbn [wf] in We. repeat split; auto; try (intros i j _ _; reflexivity).
    cbn [shape fst snd]. destruct (shape e); reflexivity.
  - cbn [transpose wf shape den fst snd] in *. repeat split; auto; try (intros i j _ _; apply spden_swap).
    rewrite forallb_forall in *. intros x Hx. apply in_map_iff in Hx as [[[r c] v] [<- Hy]]. cbn [fst snd].
    specialize (We _ Hy). cbn [fst snd] in We. rewrite andb_comm. exact We. Qed.
Theorem adjoint_sound sa (e : op) : wf e = true -> (sa = true -> hermitian e) ->
  wf (adjoint sa e) = true /\ shape (adjoint sa e) = (snd (shape e), fst (shape e)) /\
  feq (snd (shape e)) (fst (shape e)) (den (adjoint sa e)) (fun i j => conj (den e j i)).
Proof. intros We Hsa.
  assert (G : wf (if sa then e else Adj e) = true /\ shape (if sa then e else Adj e) = (snd (shape e), fst (shape e)) /\
              feq (snd (shape e)) (fst (shape e)) (den (if sa then e else Adj e)) (fun i j => conj (den e j i))).
  { destruct sa.
    - destruct (Hsa eq_refl) as [Sq Sy]. repeat split; auto.
      + rewrite <- Sq. destruct (shape e); cbn [fst snd] in *; subst; reflexivity.
      + rewrite <- Sq. exact Sy.
    - cbn [wf shape den]. repeat split; auto; try (intros i j _ _; reflexivity). }
  destruct e; try exact G; clear G.
  - cbn [adjoint wf shape den tra cja nr nc dat fst snd]. repeat split; auto; try (intros i j _ _; reflexivity).
  - cbn [adjoint]. cbn [wf] in We. repeat split; auto.
    + cbn [shape fst snd]. destruct (shape e); reflexivity.
    + intros i j _ _. cbn [den]. rewrite conj_invol. reflexivity. Qed.

(* towers of .T / .H of any depth *)
Inductive tw := TT | TH.
Definition step_tw (saf : op -> bool) (e : op) (t : tw) : op :=
  match t with TT => transpose (saf e) e | TH => adjoint (saf e) e end.
Definition step_spec (sM : shp * fm) (t : tw) : shp * fm :=
  let '((m, n), M) := sM in
  match t with TT => ((n, m), fun i j => M j i) | TH => ((n, m), fun i j => conj (M j i)) end.
Definition sound_saf (saf : op -> bool) := forall e, wf e = true -> saf e = true -> symmetric e /\ hermitian e.
Theorem tower_sound saf w : sound_saf saf -> forall e, wf e = true ->
  let r := fold_left (step_tw saf) w e in
  let sM := fold_left step_spec w (shape e, den e) in
  wf r = true /\ shape r = fst sM /\ feq (fst (shape r)) (snd (shape r)) (den r) (snd sM).
Proof. intros Hs. induction w as [|t w IH]; intros e We; cbn [fold_left].
  - repeat split; auto; try apply feq_refl.
  - assert (St : wf (step_tw saf e t) = true /\ shape (step_tw saf e t) = fst (step_spec (shape e, den e) t) /\
                 feq (snd (shape e)) (fst (shape e)) (den (step_tw saf e t)) (snd (step_spec (shape e, den e) t))).
    { destruct t; cbn [step_tw step_spec]; destruct (shape e) as [m n] eqn:Es; cbn [fst snd].
      - destruct (transpose_sound (saf e) e We) as (A & B & C); [intros H; apply Hs; auto|]. rewrite Es in *. auto.
      - destruct (adjoint_sound (saf e) e We) as (A & B & C); [intros H; apply Hs; auto|]. rewrite Es in *. auto. }
    destruct St as (W1 & S1 & D1). specialize (IH _ W1). cbn zeta in IH. destruct IH as (W2 & S2 & D2).
    (* the spec only depends on the matrix entries in range *)
    assert (Ext : forall w' s M M', feq (fst s) (snd s) M M' ->
              fst (fold_left step_spec w' (s, M)) = fst (fold_left step_spec w' (s, M')) /\
              feq (fst (fst (fold_left step_spec w' (s, M)))) (snd (fst (fold_left step_spec w' (s, M))))
                  (snd (fold_left step_spec w' (s, M))) (snd (fold_left step_spec w' (s, M')))).
    { induction w' as [|t' w' IH']; intros s M M' HM; cbn [fold_left]; [split; auto|].
      destruct s as [m n]. destruct t'; cbn [step_spec]; apply IH'; cbn [fst snd] in *; intros i j Hi Hj; rewrite HM; auto. }
    destruct (step_spec (shape e, den e) t) as [s1 M1] eqn:E1. cbn [fst snd] in *.
    destruct (Ext w (shape (step_tw saf e t)) (den (step_tw saf e t)) M1) as [X1 X2].
    { rewrite S1. destruct t; cbn [step_spec] in E1; destruct (shape e) as [m n]; inversion E1; subst; cbn [fst snd] in *; exact D1. }
    rewrite S1 in *. repeat split; auto.
    + rewrite S2. exact X1.
    + eapply feq_trans; [exact D2|]. rewrite S2. exact X2. Qed.
End AP.
