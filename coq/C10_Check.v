(* C10: execution instances and in-Coq comparison for the correspondence check (Gaussian rationals QI, exact;
   binary64 for power iteration), and the refutation witnesses of the pinned tree. *)
From Coq Require Import ZArith QArith Qcanon Arith Lia List Bool PeanoNat PrimFloat.
From Core Require Import Base FieldBase PySlice C09_MatAlg C10_Model C10_Proofs C10_Power.
Import ListNotations.

(* ---------- QI helpers ---------- *)
Definition qle (a b : Qc) : bool := Qle_bool (this a) (this b).
(* numpy sorts complex numbers lexicographically (real part, then imaginary part) *)
Definition qi_leb (a b : qi) : bool := if Qc_eq_bool (fst a) (fst b) then qle (snd a) (snd b) else qle (fst a) (fst b).
(* comparison of magnitudes (|a|^2 <= |b|^2): the order the repaired rules sort by *)
Definition qi_mag_leb (a b : qi) : bool := qle (qinorm2 a) (qinorm2 b).
Definition qi_dist2 (a b : qi) : Qc := let d := qisub a b in qinorm2 d.
Definition qi_close (tol2 : Qc) (a b : qi) : bool := qle (qi_dist2 a b) tol2.
Definition vecl (l : list qi) : nat -> qi := fun i => nth i l qi0.
Definition matl (l : list (list qi)) : fm (R:=qi) := fun i j => nth j (nth i l []) qi0.
Definition out_eq (cmp : qi -> qi -> bool) (n : nat) (o : eout (R:=qi)) (w : list qi) (V : list (list qi)) : bool :=
  Nat.eqb (ek o) (length w) &&
  forallb (fun j => cmp (ew o j) (nth j w qi0)) (seq 0 (ek o)) &&
  forallb (fun i => forallb (fun j => cmp (eV o i j) (nth j (nth i V []) qi0)) (seq 0 (ek o))) (seq 0 n).

(* rule under test *)
Inductive crule :=
(* [srt = Some idx]: repaired rule - the pairs are reordered by idx = the backend's argsort of the magnitudes (oracle data,
   checked to be a permutation that sorts by magnitude) before slicing; [None]: the pinned rule *)
| ROracle (srt : option (list nat)) (m : nat) (w : list qi) (V : list (list qi))   (* dense / Krylov rule: the oracle's output as data *)
| RIdent
| RDiag (srt : option (list nat)) (d : list qi)
| RTri (srt : option (list nat)) (lower_rule : bool) (A : list (list qi)) (real_buffer : bool).   (* lower_rule: repaired rule for a lower triangular operator *)
Record ecase := mkecase { cn : nat; crl : crule; ck : Z; cwh : which; ctol2 : Qc;   (* squared tolerance; 0 = exact *)
                          cok : bool;                       (* the implementation returned a result *)
                          cw : list qi; cV : list (list qi) }.
Fixpoint nodupb (l : list nat) : bool := match l with [] => true | x :: r => negb (existsb (Nat.eqb x) r) && nodupb r end.
(* the backend sorts the ROUNDED magnitudes (hypot in binary64): keys that agree to 2^-40 relative may come in either order *)
Definition qi_mag_leb_tol (a b : qi) : bool := qle (qinorm2 a) (qinorm2 b * qc 1099511627777 1099511627776)%Qc.
Fixpoint sortedb (w : nat -> qi) (l : list nat) : bool :=
  match l with x :: ((y :: _) as r) => qi_mag_leb_tol (w x) (w y) && sortedb w r | _ => true end.
Definition valid_argsort (m : nat) (w : nat -> qi) (idx : list nat) : bool :=
  Nat.eqb (length idx) m && forallb (fun x => (x <? m)%nat) idx && nodupb idx && sortedb w idx.
Definition cast_of (rb : bool) : qi -> qi := if rb then (fun x => (fst x, 0%Qc)) else (fun x => x).
Definition run_rule (c : ecase) : option (eout (R:=qi)) :=
  match crl c with
  | ROracle None m w V => eig_oracle m (vecl w) (matl V) (ck c) (cwh c)
  | ROracle (Some idx) m w V => if valid_argsort m (vecl w) idx then eig_take idx (mkeout m (vecl w) (matl V)) (ck c) (cwh c) else None
  | RIdent => eig_ident (cn c) (ck c) (cwh c)
  | RDiag None d => eig_diag qi_leb (cn c) (vecl d) (ck c) (cwh c)
  | RDiag (Some idx) d => if valid_argsort (cn c) (vecl d) idx then eig_take idx (diag_out (cn c) (vecl d)) (ck c) (cwh c) else None
  | RTri None lw A rb => (if lw then eig_tri_lower else eig_tri) qi_leb usolve (cast_of rb) (cn c) (matl A) (ck c) (cwh c)
  | RTri (Some idx) lw A rb =>
      if valid_argsort (cn c) (fun i => matl A i i) idx
      then eig_take idx ((if lw then tri_lower_out else tri_out) usolve (cast_of rb) (cn c) (matl A)) (ck c) (cwh c) else None
  end.
Definition check_ecase (c : ecase) : bool :=
  match run_rule c with
  | None => negb (cok c)
  | Some o => cok c && out_eq (qi_close (ctol2 c)) (cn c) o (cw c) (cV c)
  end.
Fixpoint failing_from {A} (chk : A -> bool) (i : nat) (cs : list A) : list nat :=
  match cs with [] => [] | c :: r => if chk c then failing_from chk (S i) r else i :: failing_from chk (S i) r end.
Definition qz (n : Z) : qi := (qc n 1, qc 0 1).
(* the Auto rule: which algorithm the implementation was observed to take (its result equals that rule's, bit for bit) *)
Definition ealg_eqb (a b : ealg) : bool :=
  match a, b with APower, APower | AEigh, AEigh | AEig, AEig | ALanczos, ALanczos | AArnoldi, AArnoldi | ALobpcg, ALobpcg => true | _, _ => false end.
Record acase := mkacase { a_sa : bool; a_small : bool; a_k : Z; a_wh : which; a_tag : ealg }.
Definition check_acase (c : acase) : bool := ealg_eqb (auto_alg (a_sa c) (a_small c) (a_k c) (a_wh c)) (a_tag c).

(* ---------- power iteration on binary64 (real and complex) ---------- *)
Open Scope float_scope.
Definition FP : pops float := mkpops float 0 PrimFloat.add PrimFloat.sub PrimFloat.mul PrimFloat.div PrimFloat.abs PrimFloat.sqrt (fun a b => b <? a) (fun x => x).
Definition cfl := (float * float)%type.
(* complex scalars; every division of the algorithm is by a real quantity (a norm, an absolute value) *)
Definition FPC : pops cfl := mkpops cfl (0, 0)
  (fun a b => (fst a + fst b, snd a + snd b)) (fun a b => (fst a - fst b, snd a - snd b))
  (fun a b => (fst a * fst b - snd a * snd b, fst a * snd b + snd a * fst b))
  (fun a b => (fst a / fst b, snd a / fst b))
  (fun a => (PrimFloat.sqrt (fst a * fst a + snd a * snd a), 0)) (fun a => (PrimFloat.sqrt (fst a), 0))
  (fun a b => fst b <? fst a) (fun a => (fst a, - snd a)).
Definition fmaxf (a b : float) := if a <? b then b else a.
Definition relclose (tol a b : float) : bool := PrimFloat.abs (a - b) <=? tol * fmaxf 1 (fmaxf (PrimFloat.abs a) (PrimFloat.abs b)).
Section PCheck.
Context {T : Type} (o : pops T) (re : T -> float) (close closev : float -> T -> T -> bool).   (* close: purely relative (eigenvalue, any scale); closev: unit vectors *)
(* smallest relative distance of the stopping test from its threshold along the run: the iteration count is only
   compared when it exceeds tie_tol *)
Fixpoint pmargin (fl : pflags) (A : list (list T)) (tol : T) (fuel : nat) (s : pstate (T:=T)) (acc : float) : float :=
  match fuel with
  | O => acc
  | S f => let e := re (perr o fl s) in let t := re tol in
           let m := PrimFloat.abs (e - t) / fmaxf t (PrimFloat.abs e) in
           let acc := if m <? acc then m else acc in
           if pgtb o (perr o fl s) tol then pmargin fl A tol f (pbody o fl A s) acc else acc
  end.
Record pcase := mkpcase { pfl : pflags; pA : list (list T); ptol : T; pmax : nat; pv0 : list T; pten : T; pone : T;
                          pr_eig : T; pr_iters : nat; pr_v : list T }.
(* 0 = agree, 1 = disagree, 2 = near tie (skipped) *)
Definition check_pcase (c : pcase) : nat :=
  let s := power_iteration o (pfl c) (pA c) (ptol c) (pmax c) (pten c) (pone c) (pv0 c) in
  let mg := pmargin (pfl c) (pA c) (ptol c) (pmax c) (mkps 0 (pv0 c) (pv0 c) (pten c) (pone c)) 1 in
  if mg <? 0x1.0c6f7a0b5ed8dp-20 (* 1e-6 *) then 2%nat
  else if Nat.eqb (pit s) (pr_iters c) && close 0x1.12e0be826d695p-30 (* 1e-9 *) (peig s) (pr_eig c)
          && forallb (fun p => closev 0x1.12e0be826d695p-30 (fst p) (snd p)) (combine (pv s) (pr_v c))
          && Nat.eqb (length (pv s)) (length (pr_v c)) then 0%nat else 1%nat.
End PCheck.
Definition cclose (tol : float) (a b : cfl) : bool :=
  let d := PrimFloat.sqrt ((fst a - fst b) * (fst a - fst b) + (snd a - snd b) * (snd a - snd b)) in
  let sc := fmaxf 1 (fmaxf (PrimFloat.sqrt (fst a * fst a + snd a * snd a)) (PrimFloat.sqrt (fst b * fst b + snd b * snd b))) in
  d <=? tol * sc.
Definition relclose0 (tol a b : float) : bool := PrimFloat.abs (a - b) <=? tol * fmaxf (PrimFloat.abs a) (PrimFloat.abs b).
Definition cclose0 (tol : float) (a b : cfl) : bool :=
  let d := PrimFloat.sqrt ((fst a - fst b) * (fst a - fst b) + (snd a - snd b) * (snd a - snd b)) in
  d <=? tol * fmaxf (PrimFloat.sqrt (fst a * fst a + snd a * snd a)) (PrimFloat.sqrt (fst b * fst b + snd b * snd b)).
Definition check_pcase_r := check_pcase FP (fun x => x) relclose0 relclose.
Definition check_pcase_c := check_pcase FPC fst cclose0 cclose.
Fixpoint codes_from {A} (chk : A -> nat) (i : nat) (cs : list A) : list (nat * nat) :=
  match cs with [] => [] | c :: r => match chk c with O => codes_from chk (S i) r | k => (i, k) :: codes_from chk (S i) r end end.
Close Scope float_scope.

(* ---------- refutation witnesses (the faithful model of the pinned code violates the property's clauses) ---------- *)
Definition mag2 (a : qi) : Qc := qinorm2 a.
Lemma qi_neq (a b : qi) : qi_eqb a b = false -> a <> b.
Proof. intros H E. subst b. unfold qi_eqb in H.
  assert (R : forall x : Qc, Qc_eq_bool x x = true) by (intros x; unfold Qc_eq_bool; destruct (Qc_eq_dec x x); congruence).
  rewrite !R in H. discriminate. Qed.

(* Eigh rule: eigh returns ascending ALGEBRAIC order; 'LM' with k=1 on spectrum {-5,1,2} returns 2, not -5 *)
Definition w_eigh : list qi := [qz (-5); qz 1; qz 2].
Theorem eigh_LM_refuted :
  exists o, eig_oracle 3 (vecl w_eigh) eye 1 LM = Some o /\ ek o = 1%nat /\ ew o 0%nat = qz 2 /\
            qle (mag2 (ew o 0%nat)) (mag2 (vecl w_eigh 0%nat)) = true /\ mag2 (ew o 0%nat) <> mag2 (vecl w_eigh 0%nat).
Proof. eexists. split; [reflexivity|]. split; [reflexivity|]. split; [reflexivity|]. split; [reflexivity|].
  intros E. apply (f_equal this) in E. vm_compute in E. discriminate. Qed.
(* ... although the data meet everything the eigh oracle promises for A = diag(-5,1,2) *)
Lemma eigh_witness_spec : EigSpec 3 3 (dg (vecl w_eigh)) (vecl w_eigh) eye.
Proof. apply diag_spec. Qed.

(* Eig rule: LAPACK's order is kept; for A = [[5,2],[0,1]] it is (5, 1) and 'LM' k=1 returns the LAST entry, 1 *)
Definition A_eig : list (list qi) := [[qz 5; qz 2]; [qz 0; qz 1]].
Definition w_eig : list qi := [qz 5; qz 1].
Definition V_eig : list (list qi) := [[qz 1; qz 1]; [qz 0; qz (-2)]].
Definition feqb (m n : nat) (A B : fm (R:=qi)) : bool :=
  forallb (fun i => forallb (fun j => qi_eqb (A i j) (B i j)) (seq 0 n)) (seq 0 m).
Theorem eig_dense_unsorted_refuted :
  feqb 2 2 (mmul 2 (matl A_eig) (matl V_eig)) (mmul 2 (matl V_eig) (dg (vecl w_eig))) = true /\
  exists o, eig_oracle 2 (vecl w_eig) (matl V_eig) 1 LM = Some o /\ ew o 0%nat = qz 1 /\
            qle (mag2 (ew o 0%nat)) (mag2 (vecl w_eig 0%nat)) = true /\ mag2 (ew o 0%nat) <> mag2 (vecl w_eig 0%nat).
Proof. split; [vm_compute; reflexivity|]. eexists. split; [reflexivity|]. split; [reflexivity|]. split; [reflexivity|].
  intros E. apply (f_equal this) in E. vm_compute in E. discriminate. Qed.

(* Diagonal rule: argsort by value *)
Theorem eig_diag_by_value_refuted :
  exists o, eig_diag qi_leb 3 (vecl w_eigh) 1 LM = Some o /\ qi_eqb (ew o 0%nat) (qz 2) = true /\
            qle (mag2 (ew o 0%nat)) (mag2 (vecl w_eigh 0%nat)) = true /\ qle (mag2 (vecl w_eigh 0%nat)) (mag2 (ew o 0%nat)) = false.
Proof. eexists. split; [reflexivity|]. split; [vm_compute; reflexivity|]. split; vm_compute; reflexivity. Qed.

(* the repaired rules (sort by magnitude, then slice) return -5 on the same data *)
Theorem sorted_by_magnitude_repaired :
  (exists o, eig_sorted qi_mag_leb 3 (vecl w_eigh) eye 1 LM = Some o /\ qi_eqb (ew o 0%nat) (qz (-5)) = true) /\
  (exists o, eig_sorted qi_mag_leb 2 (vecl w_eig) (matl V_eig) 1 LM = Some o /\ qi_eqb (ew o 0%nat) (qz 5) = true) /\
  (exists o, eig_diag qi_mag_leb 3 (vecl w_eigh) 1 LM = Some o /\ qi_eqb (ew o 0%nat) (qz (-5)) = true).
Proof. repeat split; eexists; (split; [reflexivity|vm_compute; reflexivity]). Qed.
Lemma qi_mag_leb_total a b : qi_mag_leb a b = true \/ qi_mag_leb b a = true.
Proof. unfold qi_mag_leb, qle. destruct (Qle_bool (this (qinorm2 a)) (this (qinorm2 b))) eqn:E; [left; reflexivity|right].
  apply Qle_bool_iff. apply Qlt_le_weak. apply Qnot_le_lt. intros H. apply Qle_bool_iff in H. congruence. Qed.
Lemma qi_mag_leb_trans a b c : qi_mag_leb a b = true -> qi_mag_leb b c = true -> qi_mag_leb a c = true.
Proof. unfold qi_mag_leb, qle. rewrite !Qle_bool_iff. apply Qle_trans. Qed.

(* Triangular rule applied to a LOWER triangular matrix: the routine returns the identity columns *)
Definition L_tri : list (list qi) := [[qz 1; qz 0]; [qz 3; qz 2]].
Theorem eig_tri_lower_refuted :
  exists o, eig_tri qi_leb usolve (fun x => x) 2 (matl L_tri) 2 LM = Some o /\ ~ EigPairs 2 (matl L_tri) o.
Proof. eexists. split; [reflexivity|]. match goal with |- ~ EigPairs _ _ ?oo => set (o := oo) end. intros H. assert (Hk : (0 < ek o)%nat) by (vm_compute; lia); destruct (H 0%nat Hk) as [H1 _]. specialize (H1 1%nat ltac:(lia)).
  revert H1. apply qi_neq. vm_compute. reflexivity. Qed.

(* the repaired rule for lower triangular operators returns eigenpairs on the same matrix *)
Theorem eig_tri_lower_repaired :
  exists o, eig_tri_lower qi_mag_leb usolve (fun x => x) 2 (matl L_tri) 2 LM = Some o /\
            feqb 2 2 (mmul 2 (matl L_tri) (eV o)) (fun i j => qimul (ew o j) (eV o i j)) = true.
Proof. eexists. split; [reflexivity|vm_compute; reflexivity]. Qed.

(* complex upper-triangular input: the solutions are written into a float64 buffer and lose their imaginary part *)
Definition U_cplx : list (list qi) := [[qic 1 1 1 1; qz 2]; [qz 0; qic 2 1 (-1) 1]].
Theorem eig_tri_complex_refuted :
  exists o, eig_tri qi_leb usolve (fun x => (fst x, 0%Qc)) 2 (matl U_cplx) 2 LM = Some o /\ ~ EigPairs 2 (matl U_cplx) o.
Proof. eexists. split; [reflexivity|]. match goal with |- ~ EigPairs _ _ ?oo => set (o := oo) end. intros H.
  assert (Hk : (1 < ek o)%nat) by (vm_compute; lia). destruct (H 1%nat Hk) as [H1 _]. specialize (H1 0%nat ltac:(lia)).
  revert H1. apply qi_neq. vm_compute. reflexivity. Qed.

(* power iteration on A = diag(-5,1,2) from v0 = (2,1,1): the relative-change test divides by the (negative) value,
   so the loop stops after ONE un-normalised step and returns v0.(A v0) = -17, whatever the square root does *)
Definition qabs (a : qi) : qi := (if qle (fst a) 0%Qc then (- fst a)%Qc else fst a, 0%Qc).
Definition qgtb (a b : qi) : bool := negb (qle (fst a) (fst b)).
Definition A_pow : list (list qi) := [[qz (-5); qz 0; qz 0]; [qz 0; qz 1; qz 0]; [qz 0; qz 0; qz 2]].
Theorem power_negative_refuted : forall fsqrt : qi -> qi,
  let s := power_iteration (fo qabs fsqrt qgtb qiconj) pinned_flags A_pow (qc 1 1000000, 0%Qc) 100 (qz 10) (qz 1) [qz 2; qz 1; qz 1] in
  pit s = 1%nat /\ qi_eqb (peig s) (qz (-17)) = true.
Proof. intros fsqrt. cbn zeta. unfold power_iteration. change 100%nat with (S (S 98)).
  set (s0 := mkps 0 [qz 2; qz 1; qz 1] [qz 2; qz 1; qz 1] (qz 10) (qz 1)).
  set (o := fo qabs fsqrt qgtb qiconj). set (tol := (qc 1 1000000, 0%Qc)).
  assert (E1 : pgtb o (perr o pinned_flags s0) tol = true) by (vm_compute; reflexivity).
  assert (E2 : pgtb o (perr o pinned_flags (pbody o pinned_flags A_pow s0)) tol = false) by (vm_compute; reflexivity).
  cbn [ploop]. rewrite E1. rewrite E2. split; [reflexivity|]. vm_compute. reflexivity. Qed.
(* with the repaired error test abs(eigprev - eig) / abs(eig) the same run does not stop there: the test is still open
   after the first step (relative change 27/17) *)
Theorem power_negative_repaired : forall fsqrt : qi -> qi,
  let o := fo qabs fsqrt qgtb qiconj in
  let s1 := pbody o fixed_flags A_pow (mkps 0 [qz 2; qz 1; qz 1] [qz 2; qz 1; qz 1] (qz 10) (qz 1)) in
  qi_eqb (peig s1) (qz (-17)) = true /\ pgtb o (perr o fixed_flags s1) (qc 1 1000000, 0%Qc) = true.
Proof. intros fsqrt. cbn zeta. split; vm_compute; reflexivity. Qed.

(* satisfiable hypotheses: an upper-triangular matrix with distinct diagonal and its eigenpairs from the Triangular rule *)
Definition U_ex : list (list qi) := [[qz 2; qz 1; qz 4]; [qz 0; qz (-3); qz 5]; [qz 0; qz 0; qz 1]].
Example eig_tri_example : exists o, eig_tri qi_leb usolve (fun x => x) 3 (matl U_ex) 2 LM = Some o /\ ek o = 2%nat /\
  feqb 3 2 (mmul 3 (matl U_ex) (eV o)) (fun i j => qimul (ew o j) (eV o i j)) = true.
Proof. eexists. split; [reflexivity|]. split; vm_compute; reflexivity. Qed.
