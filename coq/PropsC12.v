(* Property C12: conjugate gradients returns the Krylov-optimal iterate and honours its stopping contract.
   Only statements closed by [exact]; the lemmas live in C12_Contract.v, C12_Krylov.v, C12_Run.v, C12_Summary.v,
   C12_Witness.v.  The model (C12_Model.v) is a transcription of cola/linalg/inverse/cg.py and of
   cola/utils/torch_tqdm.py:while_loop_winfo over an abstract scalar/vector interface; the same term is executed
   on PrimFloat by the correspondence check. *)
From Coq Require Import List Bool Arith QArith Qcanon.
From Core Require Import C12_Ops C12_Model C12_Contract C12_Krylov C12_Run C12_Homog C12_Summary C12_Witness.
Import ListNotations.
Local Close Scope Qc_scope. Local Close Scope Q_scope.

(* the instrumented while loop: info['iterations'] = bodies + 1, len(info['errors']) = bodies, for any loop *)
Theorem C12_while_winfo_bookkeeping : forall (T St : Type) (cond : St -> bool) (body : St -> St) (err : St -> T) fuel init out its errs nb,
  while_winfo cond body err fuel init = (out, its, errs, nb) ->
  nb <= fuel /\ its = nb + 1 /\ length errs = nb /\ out = Nat.iter nb body init /\
  (forall i, i < nb -> cond (Nat.iter i body init) = true) /\ (nb = fuel \/ cond out = false).
Proof. exact @while_winfo_spec. Qed.
Print Assumptions C12_while_winfo_bookkeeping.

(* stopping contract, for every scalar/vector instance (floats included), every operator, preconditioner, flag:
   steps <= max_iters; iterations = steps+1; len(errors) = steps; the result is the state after [steps] steps;
   it stopped because max_iters was reached or every column passed the residual test; no earlier state passed it;
   the loop's own condition is false at exit (the fuel of the model never cuts a run short) *)
Theorem C12_contract : forall (T V : Type) (o : ops T) (vo : vops T V) (A P : V -> V) (flag : bool) (tol : T) (max_iters : nat) (bs x0s : list V),
  let r := run_cg o vo A P flag tol max_iters bs x0s in let k := steps r in
  k <= max_iters /\ bodies r = k /\ iterations r = k + 1 /\ length (errors r) = k /\
  sol r = map (fun c => vscale vo (cmult c) (cx c)) (fst (cg_state o vo A P flag tol bs x0s k)) /\
  (k = max_iters \/ all_converged o vo (cg_state o vo A P flag tol bs x0s k) = true) /\
  (forall j, j < k -> all_converged o vo (cg_state o vo A P flag tol bs x0s j) = false) /\
  cg_cond o vo max_iters (cg_state o vo A P flag tol bs x0s k) = false.
Proof. exact @cg_contract. Qed.
Print Assumptions C12_contract.

(* a zero right-hand side column is returned as exactly zero (any x0, A, P, tol, max_iters, other columns) *)
Theorem C12_zero_rhs : forall (T : Type) (o : ops T),
  (forall x, omul o (o0 o) x = o0 o) -> (forall x, omul o x (o0 o) = o0 o) -> oadd o (o0 o) (o0 o) = o0 o -> osqrt o (o0 o) = o0 o ->
  forall (A P : list T -> list T) flag tol max_iters bs x0s j b,
  nth_error bs j = Some b -> j < length x0s -> allzero o b ->
  exists x, nth_error (sol (run_cg o (lvops o) A P flag tol max_iters bs x0s)) j = Some x /\ allzero o x.
Proof. exact @cg_zero_rhs. Qed.
Print Assumptions C12_zero_rhs.

(* homogeneity in b for a zero initial guess: cg(alpha*B) = alpha*cg(B), same steps / iterations / residual history, for every
   non-zero real or complex alpha = |alpha| * u (exact module laws on vectors, guards on ||b|| inactive) *)
Theorem C12_homogeneous : forall (T V : Type) (o : ops T) (vo : vops T V) (A P : V -> V), module_laws o vo A P ->
  forall u alpha a : T, omul o (oconj o u) u = o1 o -> a <> o0 o -> u = odiv o alpha a ->
  forall (flag : bool) (tol : T) (max_iters : nat) (bs x0s : list V),
  (forall b x0, In (b, x0) (combine bs x0s) -> good_col o vo alpha a b x0) ->
  let r := run_cg o vo A P flag tol max_iters bs x0s in
  let r' := run_cg o vo A P flag tol max_iters (map (vscale vo alpha) bs) x0s in
  sol r' = map (vscale vo alpha) (sol r) /\ steps r' = steps r /\ iterations r' = iterations r /\ errors r' = errors r.
Proof. exact @cg_homogeneous_b. Qed.
Print Assumptions C12_homogeneous.

(* its hypotheses are satisfiable: alpha = -2 on a 2x2 rational system *)
Example C12_homogeneous_instance :
  let b : V2 := (qz 3, qz 4) in let x0 : V2 := (qz 0, qz 0) in
  let r := run_cg QcOps v2ops A2 P2 false wtol 2 [b] [x0] in
  let r' := run_cg QcOps v2ops A2 P2 false wtol 2 (map (vscale v2ops (qz (-2))) [b]) [x0] in
  sol r' = map (vscale v2ops (qz (-2))) (sol r) /\ steps r' = steps r /\ iterations r' = iterations r /\ errors r' = errors r.
Proof. exact cg_homogeneous_instance. Qed.
Print Assumptions C12_homogeneous_instance.

(* columns do not influence each other's values *)
Theorem C12_column_independent : forall (T V : Type) (o : ops T) (vo : vops T V) (A P : V -> V) flag tol (bs x0s : list V) k j b x0,
  nth_error bs j = Some b -> nth_error x0s j = Some x0 ->
  nth_error (fst (cg_state o vo A P flag tol bs x0s k)) j = Some (Nat.iter k (step_col o vo A P) (init_col o vo A P flag tol b x0)).
Proof. exact @cg_column_independent. Qed.
Print Assumptions C12_column_independent.

(* exact arithmetic, Hermitian A and P, guards inactive: orthogonality / conjugacy invariants of the code's step *)
Theorem C12_invariants : forall (T V : Type) (o : ops T) (vo : vops T V) (A P : V -> V), ips_laws o vo A P ->
  forall c0 K, started vo P c0 -> no_breakdown o vo A P c0 K -> forall k, k <= K -> Inv o vo A P c0 k.
Proof. exact @cg_invariants_b. Qed.
Print Assumptions C12_invariants.

Theorem C12_residual_identity : forall (T V : Type) (o : ops T) (vo : vops T V) (A P : V -> V), ips_laws o vo A P ->
  forall c0 K bn, no_breakdown o vo A P c0 K ->
  (forall u, vdot vo u (cr c0) = osub o (vdot vo u bn) (vdot vo u (A (cx c0)))) ->
  forall k u, k <= K -> vdot vo u (cr (cs o vo A P c0 k)) = osub o (vdot vo u bn) (vdot vo u (A (cx (cs o vo A P c0 k)))).
Proof. exact @cg_residual_b. Qed.
Print Assumptions C12_residual_identity.

Theorem C12_pythagoras : forall (T V : Type) (o : ops T) (vo : vops T V) (A P : V -> V), ips_laws o vo A P ->
  forall c0 K bn xs, started vo P c0 -> no_breakdown o vo A P c0 K ->
  (forall u, vdot vo u (cr c0) = osub o (vdot vo u bn) (vdot vo u (A (cx c0)))) ->
  (forall u, vdot vo u (A xs) = vdot vo u bn) ->
  forall k c, k <= K ->
  phi vo A xs (vadd vo (cx (cs o vo A P c0 k)) (comb o vo A P c0 k c))
  = oadd o (phi vo A xs (cx (cs o vo A P c0 k))) (vdot vo (comb o vo A P c0 k c) (A (comb o vo A P c0 k c))).
Proof. exact @cg_pythagoras_b. Qed.
Print Assumptions C12_pythagoras.

(* optimality of what run_cg returns: column j of the result is ||b|| * x_k, x_k lies in (start) + span{p_0..p_(k-1)}
   and no element of that affine space has a smaller A-norm of the error ([Pos] = "is a non-negative real") *)
Theorem C12_run_optimal : forall (T V : Type) (o : ops T) (vo : vops T V) (A P : V -> V), ips_laws o vo A P ->
  forall (flag : bool) (tol : T) (max_iters : nat) (bs x0s : list V) j b x0,
  nth_error bs j = Some b -> nth_error x0s j = Some x0 ->
  let r := run_cg o vo A P flag tol max_iters bs x0s in
  let c0 := init_col o vo A P flag tol b x0 in
  no_breakdown o vo A P c0 (steps r) ->
  forall xs, (forall u, vdot vo u (A xs) = vdot vo u (safe_vdiv o vo b (vnorm o vo b))) ->
  exists xk, nth_error (sol r) j = Some (vscale vo (cmult c0) xk) /\
    (forall u, vdot vo u xk = vdot vo u (vadd vo (cx c0) (comb o vo A P c0 (steps r) (al o vo A P c0)))) /\
    forall (Pos : T -> Prop), (forall v, Pos (vdot vo v (A v))) ->
      forall c, Pos (osub o (phi vo A xs (vadd vo xk (comb o vo A P c0 (steps r) c))) (phi vo A xs xk)).
Proof. exact @cg_run_optimal_b. Qed.
Print Assumptions C12_run_optimal.

(* the full statement: optimality over the preconditioned Krylov space K_k(PA, P r0) itself (flag cleared) *)
Theorem C12_krylov_optimal : C12_full.
Proof. exact C12_full_proved. Qed.
Print Assumptions C12_krylov_optimal.

(* span{p_0..p_(k-1)} = K_k(PA, P r0): both inclusions *)
Theorem C12_span_is_krylov : forall (T V : Type) (o : ops T) (vo : vops T V) (A P : V -> V), ips_laws o vo A P ->
  forall c0 K, started vo P c0 -> no_breakdown o vo A P c0 K -> forall k v, k <= S K ->
  (Sp o vo (kgen A P c0) k v <-> Sp o vo (pgen o vo A P c0) k v).
Proof. exact @span_is_krylov_b. Qed.
Print Assumptions C12_span_is_krylov.

(* the hypotheses of C12_run_optimal are satisfiable: a 2x2 rational system, two steps *)
Example C12_run_optimal_instance :
  let b : V2 := (qz 3, qz 4) in let x0 : V2 := (qz 0, qz 0) in
  let r := run_cg QcOps v2ops A2 P2 false wtol 2 [b] [x0] in
  let c0 := init_col QcOps v2ops A2 P2 false wtol b x0 in
  steps r = 2 /\
  forall xs : V2, (forall u, vdot v2ops u (A2 xs) = vdot v2ops u (safe_vdiv QcOps v2ops b (vnorm QcOps v2ops b))) ->
  exists xk, nth_error (sol r) 0 = Some (vscale v2ops (vnorm QcOps v2ops b) xk) /\
    forall c, (0 <= phi v2ops A2 xs (vadd v2ops xk (comb QcOps v2ops A2 P2 c0 2 c)) - phi v2ops A2 xs xk)%Qc.
Proof. exact cg_run_optimal_instance. Qed.
Print Assumptions C12_run_optimal_instance.

(* the pinned tree (flag cg_x0_unscaled = true) violates the optimality clause: A = diag(1,2), b = (3,4),
   x0 = (27/10, 9/5), one step - an element of x0 + K_1 has a strictly smaller A-norm error than the returned vector *)
Theorem C12_refuted_x0_unscaled :
  exists t, Qc_ltb (werr2 (wkrylov1 t)) (werr2 (wsol true)) = true /\ steps (wrun true) = 1.
Proof. exact cg_refuted_x0_unscaled. Qed.
Print Assumptions C12_refuted_x0_unscaled.

(* with the flag cleared the same witness returns exactly the optimum of x0 + K_1 *)
Theorem C12_witness_fixed_optimal : map this (wsol false) = map this (wkrylov1 (qq 25 41)).
Proof. exact cg_witness_fixed_optimal. Qed.
Print Assumptions C12_witness_fixed_optimal.
