(* Property C12 (placeholder while the lemma files are being written). *)
From Core Require Import C12_Ops C12_Model.
