(* C16: execution instance (Gaussian rationals), in-Coq comparison, refutation witnesses. *)
From Coq Require Import ZArith QArith Qcanon Arith Lia List Bool PeanoNat.
From Core Require Import Base FieldBase C09_MatAlg C10_Model C10_Check C09_Check C16_Model C16_Proofs.
Import ListNotations.

Definition mat_close (tol2 : Qc) (m n : nat) (A : fm (R:=qi)) (l : list (list qi)) : bool :=
  forallb (fun i => forallb (fun j => qi_close tol2 (A i j) (nth j (nth i l []) qi0)) (seq 0 n)) (seq 0 m).
Definition vec_close (tol2 : Qc) (n : nat) (v : nat -> qi) (l : list qi) : bool :=
  forallb (fun i => qi_close tol2 (v i) (nth i l qi0)) (seq 0 n).
Definition svd_eq (tol2 : Qc) (m n : nat) (o : svdout (R:=qi)) (k : nat) (U : list (list qi)) (s : list qi) (V : list (list qi)) : bool :=
  Nat.eqb (sk o) k && mat_close tol2 m k (sU o) U && vec_close tol2 k (sS o) s && mat_close tol2 n k (sV o) V.

Inductive srule :=
| SRDense (ksl : option (Z * which)) (r : nat) (U : list (list qi)) (s : list qi) (V : list (list qi))   (* LAPACK svd output; Some (k, which) = repaired rule (sliced) *)
| SRLanczos (tall : bool) (q : nat) (A : list (list qi)) (lam : list qi) (W : list (list qi)) (sqrt_tab : list (qi * qi)) (k : Z) (wh : which)
| SRIdent (ksl : option (Z * which))
| SRDiag (d : list qi)
| SRDiagSigned (idx : list nat) (ab ph : list qi).    (* repaired Diagonal rule: oracle data |d|, d/|d| and the kept positions *)
Record scase := mkscase { sm : nat; sn : nat; srl : srule; stol2 : Qc;
                          srk : nat; srU : list (list qi); srS : list qi; srV : list (list qi) }.
Definition run_scase (c : scase) : option (svdout (R:=qi)) :=
  match srl c with
  | SRDense None r U s V => Some (svd_dense qi_leb r (matl U) (vecl s) (matl V))
  | SRDense (Some (k, wh)) r U s V => svd_dense_k qi_leb r (matl U) (vecl s) (matl V) k wh
  | SRLanczos tall q A lam W tab k wh =>   (* tall: A^H A is decomposed (Lanczos with n <= m; LOBPCG always) *)
      if tall then svd_lanczos_tall (sm c) (sn c) q (matl A) (vecl lam) (matl W) (flook tab) k wh
      else svd_lanczos_wide (sm c) (sn c) q (matl A) (vecl lam) (matl W) (flook tab) k wh
  | SRIdent None => Some (svd_ident (sn c))
  | SRIdent (Some (k, wh)) => svd_ident_k (sn c) k wh
  | SRDiag d => Some (svd_diag (sn c) (vecl d))
  | SRDiagSigned idx ab ph =>
      if forallb (fun x => (x <? sn c)%nat) idx && nodupb idx then Some (svd_diag_signed idx (vecl ab) (vecl ph)) else None
  end.
Definition check_scase (c : scase) : bool :=
  match run_scase c with
  | Some o => svd_eq (stol2 c) (sm c) (sn c) o (srk c) (srU c) (srS c) (srV c)
  | None => false
  end.

(* pinv *)
Inductive prule :=
| PRDiag (d : list qi)
| PRScal (c : qi)
| PRPerm (p : list nat)
| PRIdent
| PRCg (A : list (list qi)) (Y : list (list qi)) (eps : qi) (k : nat) (B : list (list qi)).   (* Y = oracle solve of (A^H A) Y = A^H B *)
Record pcase16 := mkpcase16 { pm : nat; pn : nat; prl : prule; ptol2 : Qc; pres : list (list qi) }.   (* pres: dense pinv (n x m) or pinv @ B (n x k) *)
Definition inv_perm (n : nat) (p : list nat) : nat -> nat := fun i => nth i (argsort Nat.leb n (fun j => nth j p 0%nat)) 0%nat.
Definition check_pcase16 (c : pcase16) : bool :=
  match prl c with
  | PRDiag d => mat_close (ptol2 c) (pn c) (pn c) (dg (pinv_diag (vecl d))) (pres c)
  | PRScal x => mat_close (ptol2 c) (pn c) (pn c) (fun i j => qimul (pinv_scal x) (delta i j)) (pres c)
  | PRPerm p => mat_close (ptol2 c) (pn c) (pn c) (pinv_perm (inv_perm (pn c) p)) (pres c)
  | PRIdent => mat_close (ptol2 c) (pn c) (pn c) eye (pres c)
  | PRCg A Y eps k B => mat_close (ptol2 c) (pn c) k
        (fun i j => qiadd (matl Y i j) (qimul eps (mmul (pm c) (cj (matl A)) (matl B) i j))) (pres c)
  end.

(* Auto rules: observed algorithm for operators below the size threshold *)
Definition check_auto16 (small : bool) (svd_dense_seen pinv_lstsq_seen : bool) : bool :=
  (match auto_svd small with SDense => svd_dense_seen | _ => negb svd_dense_seen end) &&
  (match auto_pinv small with PLstsq => pinv_lstsq_seen | _ => negb pinv_lstsq_seen end).

(* ---------- refutation witnesses ---------- *)
(* svd(Diagonal([-1, 2])): Sigma = A has a negative entry *)
Theorem svd_diag_negative_refuted :
  let o := svd_diag 2 (vecl [qz (-1); qz 2]) in
  qi_eqb (sS o 0%nat) (qz (-1)) = true /\ qle (fst (sS o 0%nat)) 0%Qc = true /\ qle 0%Qc (fst (sS o 0%nat)) = false.
Proof. cbn zeta. repeat split; vm_compute; reflexivity. Qed.
(* the repaired rule on the same input: Sigma = |d| = (1, 2), the sign goes into U *)
Theorem svd_diag_signed_repaired :
  let o := svd_diag_signed [0%nat; 1%nat] (vecl [qz 1; qz 2]) (vecl [qz (-1); qz 1]) in
  qi_eqb (sS o 0%nat) (qz 1) = true /\ qi_eqb (sU o 0%nat 0%nat) (qz (-1)) = true /\
  feqb 2 2 (fun i j => sum 2 (fun l => qimul (qimul (sU o i l) (sS o l)) (qiconj (sV o j l)))) (dg (vecl [qz (-1); qz 2])) = true.
Proof. cbn zeta. repeat split; vm_compute; reflexivity. Qed.
(* DenseSVD ignores k: it always returns all min(m,n) triplets *)
Theorem svd_dense_k_ignored_refuted :
  let o := svd_dense qi_leb 2 eye (vecl [qz 1; qz 2]) eye in sk o = 2%nat.
Proof. reflexivity. Qed.

(* the repaired dense rule returns the k requested triplets *)
Theorem svd_dense_k_repaired :
  exists o, svd_dense_k qi_leb 2 eye (vecl [qz 1; qz 2]) eye 1 LM = Some o /\ sk o = 1%nat /\ qi_eqb (sS o 0%nat) (qz 2) = true.
Proof. eexists. split; [reflexivity|]. split; [reflexivity|vm_compute; reflexivity]. Qed.

(* the jitter of the pinned CG rule is added to the inverse: for A = [[1000]] with the exact inverse of A^H A and eps = 1/1000
   the result is 1/1000 + 1, which fails the first Penrose equation A X A = A (the repaired rule, eps = 0, satisfies it) *)
Theorem pinv_cg_jitter_refuted :
  let A : fm (R:=qi) := fun _ _ => qz 1000 in let Minv : fm (R:=qi) := fun _ _ => qic 1 1000000 0 1 in
  qi_eqb (mmul 1 (mmul 1 A (pinv_cg 1 1 A Minv (qic 1 1000 0 1))) A 0%nat 0%nat) (A 0%nat 0%nat) = false /\
  qi_eqb (mmul 1 (mmul 1 A (pinv_cg 1 1 A Minv (qz 0))) A 0%nat 0%nat) (A 0%nat 0%nat) = true.
Proof. cbn zeta. split; vm_compute; reflexivity. Qed.

(* satisfiable hypotheses: a 2x2 permutation matrix and its inverse by argsort *)
Example pinv_perm_example : feqb 3 3 (mmul 3 (fun i j => delta (nth i [2;0;1]%nat 0%nat) j) (pinv_perm (inv_perm 3 [2;0;1]%nat))) eye = true.
Proof. vm_compute. reflexivity. Qed.
