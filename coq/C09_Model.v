(* C09: model of the rules of cola/linalg/unary/unary.py on operator trees.
   [uop] is an operator tree in which every node that unary.py hands to a DENSE rule (any kind without a structural
   rule) carries the eigen-oracle's answer for it: eigenvalues w, eigenvectors V, and W = V^H (Eigh) or inv(V) (Eig,
   inv from C06).  [erase] forgets the annotations: it is the cola operator the function is applied to. *)
From Coq Require Import ZArith Arith Lia List Ring ArithRing PeanoNat Bool.
From Core Require Import Base Kron Op Algebra.
Import ListNotations.

Section Model.
Context {R : Type} {RR : Ring R} {CR : CRing R}.
Open Scope R_scope.
Notation fm := (fm (R:=R)). Notation arr := (arr (R:=R)). Notation op := (op (R:=R)).

Inductive uop :=
| ULeaf (e : op) (w : nat -> R) (V W : arr)
| UDiag (n : nat) (d : nat -> R)
| UIdent (n : nat)
| UScal (c : R) (n : nat)
| UTransp (a : uop)
| UAdj (a : uop)
| UBDiag (ms : list (uop * nat))
| UKron (ms : list uop)
| UKronSum (ms : list uop).

Fixpoint erase (u : uop) : op :=
  match u with
  | ULeaf e _ _ _ => e
  | UDiag n d => Diag n d
  | UIdent n => Ident n
  | UScal c n => Scal c n
  | UTransp a => Transp (erase a)
  | UAdj a => Adj (erase a)
  | UBDiag ms => BDiag (map (fun mc => (erase (fst mc), snd mc)) ms)
  | UKron ms => Kron (map erase ms)
  | UKronSum ms => KronSum (map erase ms)
  end.

(* which entry point is running: apply_unary (generic), exp (has the KronSum rule), pow (has the Kronecker rule) *)
Inductive mode := MGeneric | MExp | MPow.

(* apply_unary / exp / pow with a non-integer exponent; [f] is the scalar function (xnp.exp, xnp.log, x ** alpha, a user callable) *)
Fixpoint unary (m : mode) (f : R -> R) (u : uop) : op :=
  match u with
  | ULeaf e w V W => Prod [Dense V; Diag (nr V) (fun i => f (w i)); Dense W]        (* V @ Diagonal(f(eigs)) @ V.H | inv(V) *)
  | UDiag n d => Diag n (fun i => f (d i))                                           (* Diagonal(f(A.diag)) *)
  | UIdent n => mul (Ident n) (f r1)                                                 (* f(one) * A *)
  | UScal c n => mul (Ident n) (f c)                                                 (* f(A.c) * I_like(A) *)
  | UTransp a => Transp (unary MGeneric f a)                                         (* Transpose(apply_unary(f, A.A, alg)) *)
  | UAdj a => Adj (unary MGeneric f a)
  | UBDiag ms => BDiag (map (fun mc => (unary MGeneric f (fst mc), snd mc)) ms)      (* block-wise, same multiplicities *)
  | UKron ms => match m with MPow => Kron (map (unary MPow f) ms) | _ => erase u end     (* pow(Kronecker) factor-wise *)
  | UKronSum ms => match m with MExp => Kron (map (unary MExp f) ms) | _ => erase u end  (* exp(KronSum) = Kronecker of exps *)
  end.
(* a Kronecker / KronSum node reached by an entry point without the corresponding rule is treated by a dense rule:
   such trees are presented as ULeaf; [admissible] says the tree respects this *)
Fixpoint admissible (m : mode) (u : uop) : bool :=
  match u with
  | ULeaf _ _ _ _ | UDiag _ _ | UIdent _ | UScal _ _ => true
  | UTransp a | UAdj a => admissible MGeneric a
  | UBDiag ms => forallb (fun mc => admissible MGeneric (fst mc)) ms
  | UKron ms => match m with MPow => forallb (admissible MPow) ms | _ => false end
  | UKronSum ms => match m with MExp => forallb (admissible MExp) ms | _ => false end
  end.

(* Auto rule of apply_unary (unary.py:108-125) *)
Inductive ualg := UEigh | UEig | ULanczos | UArnoldi.
Definition auto_unary (psd small : bool) : ualg :=
  if psd && small then UEigh else if negb psd && small then UEig else if psd then ULanczos else UArnoldi.

(* pow: the integer shortcuts (unary.py:268-290). [isint] = np.isclose(alpha, round(alpha)), [k] = round(alpha) *)
Inductive pcase := CZero | CRep (k : nat) | CInv | CFun.
Definition pow_case (isint : bool) (k : Z) : pcase :=
  if isint then
    (if Z.eqb k 0 then CZero else if Z.ltb 0 k && Z.ltb k 10 then CRep (Z.to_nat k) else if Z.eqb k (-1) then CInv else CFun)
  else CFun.
(* product([A] * k) = reduce(lambda x, y: x @ y, [A] * k), with the rewriting rules of `@` (Algebra.dot) *)
Fixpoint product_k (a : op) (k : nat) : res op :=
  match k with
  | O => Err EShape          (* reduce of an empty list: not reached (k >= 1) *)
  | S O => Ok a
  | S k' => bindr (product_k a k') (fun p => dot p a)
  end.
(* pow at a node that is not a Kronecker (or without the alg argument); the inverse for k = -1 is C06's: an oracle *)
Definition pow_node (pc : pcase) (f : R -> R) (inv_oracle : op) (u : uop) : res op :=
  match pc with
  | CZero => Ok (Ident (fst (shape (erase u))))
  | CRep k => product_k (erase u) k
  | CInv => Ok inv_oracle
  | CFun => Ok (unary MPow f u)
  end.
(* sqrt(A, alg) = pow(A, 0.5, alg); isqrt(A, alg) = pow(A, -0.5, alg): both reach CFun *)
Lemma sqrt_is_pow_fun : pow_case false 0 = CFun /\ pow_case false (-1) = CFun. Proof. split; reflexivity. Qed.
End Model.
