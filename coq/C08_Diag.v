(* Property C08: Gallina model of cola/linalg/trace/diagonal_estimation.py (exact_diag, get_I_chunk_like) at the level
   of whole-array numpy primitives (slices with clipping, zero padding with left/right aligned assignment, the
   broadcasting rule of `*` as the only source of ValueError, sum over the last axis, final trimming).
   The product `A @ chunk` is a parameter `mulA a0 X`: `a0` is ghost information (the index of the identity column
   the chunk starts with) that the faithful instance (the operator's own matmat) ignores and the index-level instance
   (columns of a dense matrix) uses; the two are proved equal on identity chunks (C08_Proofs.v). *)
From Coq Require Import ZArith Arith Lia List Bool.
From Core Require Import Base.
Import ListNotations.

Section ExactDiag.
Context {R : Type} {RR : Ring R}.
Open Scope R_scope.
Notation fm := (fm (R:=R)). Notation arr := (arr (R:=R)).

(* X[:, a:b] for 0 <= a, b (python clips both bounds to the number of columns) *)
Definition slice_cols (X : arr) (a b : nat) : arr :=
  let a' := Nat.min a (nc X) in let b' := Nat.min b (nc X) in
  mkarr (nr X) (b' - a') (fun i j => dat X i (a' + j)%nat).
(* X[:, -w:] for w >= 1 *)
Definition last_cols (X : arr) (w : nat) : arr :=
  let w' := Nat.min w (nc X) in mkarr (nr X) w' (fun i j => dat X i (nc X - w' + j)%nat).
(* P = zeros((n, tot)); P[:, :w] = X   with w = X.shape[-1]   (numpy refuses when the shapes differ) *)
Definition pad_left (n tot : nat) (X : arr) : option arr :=
  if (nc X <=? tot)%nat then Some (mkarr n tot (fun i j => if (j <? nc X)%nat then dat X i j else r0)) else None.
(* P = zeros((n, tot)); P[:, -w:] = X   (for w = 0 the slice -0: is the whole row and numpy refuses) *)
Definition pad_right (n tot : nat) (X : arr) : option arr :=
  if (nc X <=? tot)%nat && negb (Nat.eqb (nc X) 0) then
    Some (mkarr n tot (fun i j => if (tot - nc X <=? j)%nat then dat X i (j - (tot - nc X))%nat else r0))
  else None.
(* ((P * S).sum(-1)) with numpy's broadcasting of the last axis: equal widths, or one of them 1 *)
Definition bmul_sum (P S : arr) : option (nat -> R) :=
  if Nat.eqb (nc P) (nc S) then Some (fun r => sum (nc P) (fun c => dat P r c * dat S r c))
  else if Nat.eqb (nc P) 1 then Some (fun r => sum (nc S) (fun c => dat P r 0%nat * dat S r c))
  else if Nat.eqb (nc S) 1 then Some (fun r => sum (nc P) (fun c => dat P r c * dat S r 0%nat))
  else None.

(* get_I_chunk_like(A, i, bs, shift = k) for an n x n operator: (chunk, shifted_chunk, ghost start column of chunk).
   fx = false: the pinned code (the shifted chunk always has bs columns);  fx = true: the repaired code (the shifted chunk is
   cut to the width of the chunk: padded[:, k:k+chunk.shape[-1]] resp. padded[:, bs-chunk.shape[-1]:bs]) *)
Definition get_I_chunk_like (fx : bool) (n i bs : nat) (k : Z) : option (arr * arr * nat) :=
  let Id := mkarr n n eye in                                  (* I_like(A)[:, a:b].to_dense() = columns a..b-1 of the identity *)
  if (k =? 0)%Z then
    let C := slice_cols Id i (i + bs) in Some (C, C, Nat.min i n)
  else if (k <=? 0)%Z then
    let k' := Z.to_nat (- k) in
    let C := slice_cols Id i (i + bs + k') in
    match pad_left n (bs + k') C with
    | None => None
    | Some P => let Ch := slice_cols C 0 bs in
                Some (Ch, slice_cols P k' (k' + (if fx then nc Ch else bs)), Nat.min i n)
    end
  else
    let kk := Z.to_nat k in
    let C := slice_cols Id (i - kk) (i + bs) in              (* max(i - k, 0) *)
    match pad_right n (bs + kk) C with
    | None => None
    | Some P => let Ch := last_cols C bs in
                Some (Ch, slice_cols P (if fx then bs - nc Ch else 0) bs, (Nat.min (i - kk) n + (nc C - Nat.min bs (nc C)))%nat)
    end.

(* range(0, n, bs) *)
Fixpoint chunk_starts (fuel i bs n : nat) : list nat :=
  match fuel with O => [] | S f => if (i <? n)%nat then i :: chunk_starts f (i + bs)%nat bs n else [] end.
Definition is_some {A} (o : option A) : bool := match o with Some _ => true | None => false end.

(* exact_diag(A, k, bs): the argument bs is overwritten by min(B, n), B = 100 in the source *)
Definition exact_diag (fx : bool) (B n : nat) (mulA : nat -> arr -> arr) (k : Z) : option (list R) :=
  let bs := Nat.min B n in
  let contribs := map (fun i => match get_I_chunk_like fx n i bs k with
                                | None => None
                                | Some (C, Sh, a0) => bmul_sum (mulA a0 C) Sh
                                end) (chunk_starts (S n) 0 bs n) in
  if forallb is_some contribs then
    let diag_sum := fun r => fold_left (fun acc o => match o with Some f => acc + f r | None => acc end) contribs r0 in
    let ak := Z.to_nat (Z.abs k) in
    Some (if (k <=? 0)%Z then map (fun t => diag_sum (ak + t)%nat) (seq 0 (n - ak))      (* diag_sum[abs(k):] *)
          else map diag_sum (seq 0 (n - ak)))                                              (* diag_sum[:-k] *)
  else None.

(* the two product oracles *)
Definition mul_dense (n : nat) (M : fm) : nat -> arr -> arr :=              (* (M @ X) entry by entry *)
  fun _ X => mkarr n (nc X) (mmul n M (dat X)).
Definition mul_cols (n : nat) (M : fm) : nat -> arr -> arr :=               (* M @ (identity columns a0..) = columns of M *)
  fun a0 X => mkarr n (nc X) (fun r c => M r (a0 + c)%nat).

(* specification: numpy.diag(M, k) of an m x n matrix *)
Definition true_diag (m n : nat) (M : fm) (k : Z) : list R :=
  if (0 <=? k)%Z then let kk := Z.to_nat k in map (fun i => M i (i + kk)%nat) (seq 0 (Nat.min m (n - kk)))
  else let kk := Z.to_nat (- k) in map (fun i => M (i + kk)%nat i) (seq 0 (Nat.min (m - kk) n)).

(* exact characterisation of the inputs on which the pinned code raises (C08_Proofs.exact_diag_none_iff):
   more than one block, a ragged last block of r = n mod B columns, and
     k < 0 : r >= 2            (chunk has r columns, shifted chunk has B: not broadcastable)
     k > 0 : k < B - r         (chunk has r + k < B columns) *)
Definition ragged (B n : nat) (k : Z) : bool :=
  (B <? n)%nat && negb (Nat.eqb (n mod B) 0) &&
  (((k <? 0)%Z && (2 <=? n mod B)%nat) || ((0 <? k)%Z && (k <? Z.of_nat (B - n mod B))%Z)).
End ExactDiag.
