(* C11 - block-diagonal lemmas and the main theorems chol_correct, plu_correct, structure_kept. *)
From Coq Require Import Arith Lia List Ring ArithRing PeanoNat Bool.
From Core Require Import Base Kron KronAlg BdAlg Op OpProofs Algebra AlgebraProofs AlgebraKron C06_Inv C06_Proofs C06_Struct C11_Decomp C11_Proofs.
Import ListNotations.
Section S.
Context {R : Type} {RR : Ring R} {CR : CRing R}.
Add Ring Rring : Rth.
Open Scope R_scope.
Notation fm := (fm (R:=R)). Notation arr := (arr (R:=R)). Notation op := (op (R:=R)). Notation fac := (fac (R:=R)).
Notation blk := (OpProofs.blk (R:=R)). Notation rowsB := (OpProofs.rowsB (R:=R)). Notation colsB := (OpProofs.colsB (R:=R)).

(* ---------- block-diagonal direct sums ---------- *)
Definition sqblk (Q : nat -> fm -> Prop) (b : blk) := exists n, fst b = (n, n) /\ Q n (snd b).
Lemma rows_cols_sq (L : list blk) Q : Forall (sqblk Q) L -> colsB L = rowsB L.
Proof. induction 1 as [|[s M] L (n & E & _) _ IH]; [reflexivity|]. cbn [OpProofs.colsB OpProofs.rowsB fold_right fst snd] in *. subst s. cbn [fst snd].
  fold (colsB L) (rowsB L). rewrite IH. reflexivity. Qed.
Lemma bd_lower (L : list blk) : Forall (sqblk (fun n M => lower n M)) L -> lower (rowsB L) (bd L).
Proof. induction 1 as [|[s M] L (n & E & LM) HF IH]; [intros i j Hi; cbn in Hi; lia|]. cbn [fst snd] in *. subst s.
  intros i j Hi Hj Hl. cbn [OpProofs.rowsB fold_right fst snd] in Hi, Hj. fold (rowsB L) in Hi, Hj. cbn [bd fst snd].
  destruct (Nat.ltb_spec i n); destruct (Nat.ltb_spec j n); try reflexivity; try lia.
  - apply LM; auto.
  - apply IH; lia. Qed.
Lemma bd_upper (L : list blk) : Forall (sqblk (fun n M => upper n M)) L -> upper (rowsB L) (bd L).
Proof. induction 1 as [|[s M] L (n & E & LM) HF IH]; [intros i j Hi; cbn in Hi; lia|]. cbn [fst snd] in *. subst s.
  intros i j Hi Hj Hl. cbn [OpProofs.rowsB fold_right fst snd] in Hi, Hj. fold (rowsB L) in Hi, Hj. cbn [bd fst snd].
  destruct (Nat.ltb_spec i n); destruct (Nat.ltb_spec j n); try reflexivity; try lia.
  - apply LM; auto.
  - apply IH; lia. Qed.
Definition ctrblk (b : blk) : blk := ((snd (fst b), fst (fst b)), ctr 0 (snd b)).
Lemma bd_ctr (L : list blk) i j : ctr 0 (bd L) i j = bd (map ctrblk L) i j.
Proof. revert i j. induction L as [|[[r c] M] L IH]; intros i j; [unfold ctr, zerom; cbn; apply conj_0|].
  unfold ctr in *. cbn [map ctrblk bd fst snd].
  destruct (Nat.ltb_spec j r); destruct (Nat.ltb_spec i c); try apply conj_0; try reflexivity. apply IH. Qed.
Lemma bd_ext (L L' : list blk) : Forall2 (fun b b' => fst b = fst b' /\ feq (fst (fst b)) (snd (fst b)) (snd b) (snd b')) L L' ->
  feq (rowsB L) (colsB L) (bd L) (bd L').
Proof. induction 1 as [|[[r c] M] [s' M'] L L' [E F] HF IH]; [intros i j Hi; cbn in Hi; lia|]. cbn [fst snd] in *. subst s'.
  intros i j Hi Hj. cbn [OpProofs.rowsB OpProofs.colsB fold_right fst snd] in Hi, Hj. fold (rowsB L) in Hi. fold (colsB L) in Hj. cbn [bd fst snd].
  destruct (Nat.ltb_spec i r); destruct (Nat.ltb_spec j c); try reflexivity.
  - apply F; auto.
  - apply IH; lia. Qed.
Lemma bd_permmat (L : list blk) : Forall (sqblk (fun n M => permmat n M)) L -> permmat (rowsB L) (bd L).
Proof. induction 1 as [|[s M] L (n & E & (p & [Pr Pi] & FM)) HF (q & [Qr Qi] & FL)].
  - exists (fun i => i). split; [split; auto|]. intros i j Hi; cbn in Hi; lia.
  - cbn [fst snd] in *. subst s. cbn [OpProofs.rowsB fold_right fst snd]. fold (rowsB L). set (N := rowsB L) in *.
    exists (fun i => if (i <? n)%nat then p i else (n + q (i - n))%nat). split; [split|].
    + intros i Hi. destruct (Nat.ltb_spec i n); [specialize (Pr i ltac:(auto)); lia|specialize (Qr (i - n)%nat ltac:(lia)); lia].
    + intros i j Hi Hj. destruct (Nat.ltb_spec i n); destruct (Nat.ltb_spec j n); intros E.
      * apply Pi; auto.
      * specialize (Pr i ltac:(auto)). lia.
      * specialize (Pr j ltac:(auto)). lia.
      * assert (q (i - n)%nat = q (j - n)%nat) by lia. apply Qi in H1; lia.
    + intros i j Hi Hj. cbn [bd fst snd]. unfold pmat.
      destruct (Nat.ltb_spec i n); destruct (Nat.ltb_spec j n).
      * apply FM; auto.
      * specialize (Pr i ltac:(auto)). unfold delta. destruct (Nat.eqb_spec (p i) j); [lia|reflexivity].
      * unfold delta. destruct (Nat.eqb_spec (n + q (i - n))%nat j); [lia|reflexivity].
      * rewrite FL by lia. unfold pmat, delta. destruct (Nat.eqb_spec (q (i - n)%nat) (j - n)%nat); destruct (Nat.eqb_spec (n + q (i - n))%nat j); try reflexivity; lia. Qed.
(* products of direct sums (BdAlg.bd_mul restated on square blocks) *)
Definition sqshapes (L : list blk) (ns : list nat) := map fst L = map (fun n => (n, n)) ns.
Lemma bcompat_sq (A B : list blk) ns : sqshapes A ns -> sqshapes B ns -> BdAlg.bcompat A B.
Proof. revert A B. induction ns as [|n ns IH]; intros [|[sa a] A] [|[sb b] B] HA HB; try discriminate; cbn; auto.
  unfold sqshapes in *. cbn [map fst] in *. injection HA as Ea HA'. injection HB as Eb HB'. subst sa sb. cbn [fst snd]. split; auto. Qed.
Lemma bmuls_sq (A B : list blk) ns : sqshapes A ns -> sqshapes B ns -> sqshapes (BdAlg.bmuls A B) ns.
Proof. revert A B. induction ns as [|n ns IH]; intros [|[sa a] A] [|[sb b] B] HA HB; try discriminate; cbn; auto.
  unfold sqshapes in *. cbn [map fst] in *. injection HA as Ea HA'. injection HB as Eb HB'. subst sa sb. cbn [fst snd BdAlg.bmuls map]. f_equal. apply IH; auto. Qed.
Lemma sq_dims (A : list blk) ns : sqshapes A ns -> rowsB A = fold_right Nat.add 0%nat ns /\ colsB A = fold_right Nat.add 0%nat ns.
Proof. revert A. induction ns as [|n ns IH]; intros [|[sa a] A] HA; try discriminate; [split; reflexivity|].
  unfold sqshapes in *. cbn [map fst] in HA. injection HA as Ea HA'. subst sa. destruct (IH A HA') as [E1 E2].
  cbn [OpProofs.rowsB OpProofs.colsB fold_right fst snd]. fold (rowsB A) (colsB A). rewrite E1, E2. split; reflexivity. Qed.
Lemma bd_mul_sq (A B : list blk) ns i j : sqshapes A ns -> sqshapes B ns ->
  mmul (fold_right Nat.add 0%nat ns) (bd A) (bd B) i j = bd (BdAlg.bmuls A B) i j.
Proof. intros HA HB. rewrite <- (BdAlg.bd_mul A B (bcompat_sq A B ns HA HB)). destruct (sq_dims A ns HA) as [_ E].
  change (BdAlg.colsB A) with (colsB A). rewrite E. reflexivity. Qed.

(* block-wise Cholesky *)
Definition cholblk (L A : blk) := exists n, fst A = (n, n) /\ fst L = (n, n) /\ lower n (snd L) /\ feq n n (mmul n (snd L) (ctr 0 (snd L))) (snd A).
Lemma cholblk_shapes Ls As : Forall2 cholblk Ls As -> exists ns, sqshapes Ls ns /\ sqshapes As ns.
Proof. induction 1 as [|[sl L] [sa A] Ls As (n & E1 & E2 & _) _ (ns & H1 & H2)]; [exists []; split; reflexivity|].
  cbn [fst snd] in *. subst. exists (n :: ns). unfold sqshapes in *. cbn [map fst]. rewrite H1, H2. split; reflexivity. Qed.
Lemma sqshapes_ctr L ns : sqshapes L ns -> sqshapes (map ctrblk L) ns.
Proof. revert L. induction ns as [|n ns IH]; intros [|[[r c] M] L] H; try discriminate; [reflexivity|].
  unfold sqshapes in *. cbn [map fst ctrblk snd] in *. injection H as Er Ec H'. subst r c. f_equal. apply IH; auto. Qed.
Lemma bd_chol (Ls As : list blk) : Forall2 cholblk Ls As ->
  let N := rowsB As in rowsB Ls = N /\ colsB Ls = N /\ colsB As = N /\ lower N (bd Ls) /\ feq N N (mmul N (bd Ls) (ctr 0 (bd Ls))) (bd As).
Proof. intros H. destruct (cholblk_shapes Ls As H) as (ns & SL & SA). destruct (sq_dims Ls ns SL) as [R1 C1]. destruct (sq_dims As ns SA) as [R2 C2].
  cbn zeta. rewrite R1, C1, R2, C2. repeat split; auto.
  - rewrite <- R1. apply bd_lower. clear - H. induction H as [|[sl L] [sa A] Ls As (n & E1 & E2 & LL & _) _ IH]; constructor; auto. exists n. cbn [fst snd] in *. auto.
  - intros i j Hi Hj.
    transitivity (mmul (fold_right Nat.add 0%nat ns) (bd Ls) (bd (map ctrblk Ls)) i j); [apply mmul_ext_all; intros; apply bd_ctr|].
    rewrite (bd_mul_sq Ls (map ctrblk Ls) ns) by auto using sqshapes_ctr.
    assert (E : feq (rowsB (BdAlg.bmuls Ls (map ctrblk Ls))) (colsB (BdAlg.bmuls Ls (map ctrblk Ls))) (bd (BdAlg.bmuls Ls (map ctrblk Ls))) (bd As)).
    { apply bd_ext. clear - H. induction H as [|[sl L] [sa A] Ls As (n & E1 & E2 & _ & F) _ IH]; [constructor|]. cbn [fst snd] in *. subst.
      cbn [map ctrblk BdAlg.bmuls fst snd]. constructor; auto. }
    destruct (sq_dims _ ns (bmuls_sq Ls (map ctrblk Ls) ns SL (sqshapes_ctr Ls ns SL))) as [R3 C3]. rewrite R3, C3 in E. apply E; auto. Qed.
(* block-wise P L U *)
Definition plublk (T : blk * blk * blk) (A : blk) := let '(P, L, U) := T in
  exists n, fst A = (n, n) /\ fst P = (n, n) /\ fst L = (n, n) /\ fst U = (n, n) /\ permmat n (snd P) /\ lower n (snd L) /\ upper n (snd U)
            /\ feq n n (mmul n (snd P) (mmul n (snd L) (snd U))) (snd A).
Definition b1 (t : blk * blk * blk) := fst (fst t). Definition b2 (t : blk * blk * blk) := snd (fst t). Definition b3 (t : blk * blk * blk) := snd t.
Lemma plublk_shapes Ts As : Forall2 plublk Ts As -> exists ns, sqshapes (map b1 Ts) ns /\ sqshapes (map b2 Ts) ns /\ sqshapes (map b3 Ts) ns /\ sqshapes As ns.
Proof. induction 1 as [|[[[sp P] [sl L]] [su U]] [sa A] Ts As (n & E1 & E2 & E3 & E4 & _) _ (ns & H1 & H2 & H3 & H4)]; [exists []; repeat split; reflexivity|].
  cbn [fst snd] in *. subst. exists (n :: ns). unfold sqshapes in *. cbn [map fst b1 b2 b3 snd]. rewrite H1, H2, H3, H4. repeat split; reflexivity. Qed.
Lemma bd_plu (Ts : list (blk * blk * blk)) (As : list blk) : Forall2 plublk Ts As ->
  let N := rowsB As in
  rowsB (map b1 Ts) = N /\ colsB (map b1 Ts) = N /\ rowsB (map b2 Ts) = N /\ colsB (map b2 Ts) = N /\ rowsB (map b3 Ts) = N /\ colsB (map b3 Ts) = N /\ colsB As = N /\
  permmat N (bd (map b1 Ts)) /\ lower N (bd (map b2 Ts)) /\ upper N (bd (map b3 Ts)) /\
  feq N N (mmul N (bd (map b1 Ts)) (mmul N (bd (map b2 Ts)) (bd (map b3 Ts)))) (bd As).
Proof. intros H. destruct (plublk_shapes Ts As H) as (ns & S1 & S2 & S3 & SA).
  destruct (sq_dims _ ns S1) as [R1 C1]. destruct (sq_dims _ ns S2) as [R2 C2]. destruct (sq_dims _ ns S3) as [R3 C3]. destruct (sq_dims As ns SA) as [RA CA].
  cbn zeta. rewrite R1, C1, R2, C2, R3, C3, RA, CA. repeat split; auto.
  - rewrite <- R1. apply bd_permmat. clear - H. induction H as [|[[[sp P] [sl L]] [su U]] [sa A] Ts As (n & E1 & E2 & E3 & E4 & PP & _) _ IH]; constructor; auto. exists n. cbn [fst snd b1] in *. auto.
  - rewrite <- R2. apply bd_lower. clear - H. induction H as [|[[[sp P] [sl L]] [su U]] [sa A] Ts As (n & E1 & E2 & E3 & E4 & _ & LL & _) _ IH]; constructor; auto. exists n. cbn [fst snd b2] in *. auto.
  - rewrite <- R3. apply bd_upper. clear - H. induction H as [|[[[sp P] [sl L]] [su U]] [sa A] Ts As (n & E1 & E2 & E3 & E4 & _ & _ & UU & _) _ IH]; constructor; auto. exists n. cbn [fst snd b3] in *. auto.
  - intros i j Hi Hj. set (N := fold_right Nat.add 0%nat ns) in *.
    transitivity (mmul N (bd (map b1 Ts)) (bd (BdAlg.bmuls (map b2 Ts) (map b3 Ts))) i j).
    { apply mmul_ext_all. intros l c. apply bd_mul_sq; auto. }
    pose proof (bmuls_sq _ _ ns S2 S3) as S23. rewrite (bd_mul_sq _ _ ns) by auto.
    assert (E : feq (rowsB (BdAlg.bmuls (map b1 Ts) (BdAlg.bmuls (map b2 Ts) (map b3 Ts)))) (colsB (BdAlg.bmuls (map b1 Ts) (BdAlg.bmuls (map b2 Ts) (map b3 Ts))))
                    (bd (BdAlg.bmuls (map b1 Ts) (BdAlg.bmuls (map b2 Ts) (map b3 Ts)))) (bd As)).
    { apply bd_ext. clear - H. induction H as [|[[[sp P] [sl L]] [su U]] [sa A] Ts As (n & E1 & E2 & E3 & E4 & _ & _ & _ & F) _ IH]; [constructor|]. cbn [fst snd] in *. subst.
      cbn [map b1 b2 b3 BdAlg.bmuls fst snd]. constructor; auto. }
    destruct (sq_dims _ ns (bmuls_sq _ _ ns S1 S23)) as [R4 C4]. rewrite R4, C4 in E. apply E; auto. Qed.

(* ---------- the model's rules ---------- *)
Variable chol_o : nat -> fm -> fm.
Variable lu_o : nat -> fm -> (nat -> nat) * fm * fm.
Variable sqrt_o : R -> R.
Variable plu_sqrt : bool.
Notation chol := (chol chol_o sqrt_o).
Notation plu := (plu lu_o sqrt_o plu_sqrt).
Notation dense := C11_Decomp.dense.

Definition cholgood (r : dop) (e : op) := let n := fst (shape e) in
  wf (dto_op r) = true /\ shape (dto_op r) = shape e /\ lower n (den (dto_op r)) /\ feq n n (mmul n (den (dto_op r)) (ctr 0 (den (dto_op r)))) (den e).
Definition plugood (t : dop * dop * dop) (e : op) := let '(P, L, U) := t in let n := fst (shape e) in
  (wf (dto_op P) = true /\ shape (dto_op P) = shape e) /\ (wf (dto_op L) = true /\ shape (dto_op L) = shape e) /\ (wf (dto_op U) = true /\ shape (dto_op U) = shape e) /\
  permmat n (den (dto_op P)) /\ lower n (den (dto_op L)) /\ upper n (den (dto_op U)) /\
  feq n n (mmul n (den (dto_op P)) (mmul n (den (dto_op L)) (den (dto_op U)))) (den e).

(* hypotheses on the leaves *)
Definition chol_spec (n : nat) (A : fm) := let L := chol_o n A in lower n L /\ feq n n (mmul n L (ctr 0 L)) A.
Definition lu_spec (n : nat) (A : fm) := let '(p, L, U) := lu_o n A in is_perm n p /\ lower n L /\ upper n U /\ feq n n (mmul n (pmat p) (mmul n L U)) A.
Fixpoint cok (e : op) {struct e} : Prop :=
  match e with
  | Ident _ => True
  | Diag n d => forall i, (i < n)%nat -> sqrt_o (d i) * conj (sqrt_o (d i)) = d i
  | Scal c _ => sqrt_o c * conj (sqrt_o c) = c
  | Kron ms => forallb is_sq ms = true /\ Forall (fun P : Prop => P) (map cok ms)
  | BDiag ms => forallb (fun mc => is_sq (fst mc)) ms = true /\ Forall (fun P : Prop => P) (map (fun mc => cok (fst mc)) ms)
  | _ => chol_spec (fst (shape e)) (dense e)
  end.
Fixpoint pok (e : op) {struct e} : Prop :=
  match e with
  | Ident _ => True
  | Diag n d => plu_sqrt = true -> forall i, (i < n)%nat -> sqrt_o (d i) * sqrt_o (d i) = d i
  | Scal c _ => plu_sqrt = true -> sqrt_o c * sqrt_o c = c
  | Kron ms => forallb is_sq ms = true /\ Forall (fun P : Prop => P) (map pok ms)
  | BDiag ms => forallb (fun mc => is_sq (fst mc)) ms = true /\ Forall (fun P : Prop => P) (map (fun mc => pok (fst mc)) ms)
  | _ => lu_spec (fst (shape e)) (dense e)
  end.

Lemma diag_den_mul n (s t : nat -> R) : feq n n (mmul n (fun i j => s i * delta i j) (fun i j => t i * delta i j)) (fun i j => (s i * t i) * delta i j).
Proof. intros i j Hi Hj. unfold mmul. rewrite (sum_ext n _ (fun l => delta i l * (s i * (t l * delta l j)))) by (intros; ring).
  rewrite sum_delta_l by auto. ring. Qed.
Lemma diag_lower n (s : nat -> R) : lower n (fun i j => s i * delta i j).
Proof. intros i j _ _ H. unfold delta. destruct (Nat.eqb_spec i j); [lia|ring]. Qed.
Lemma diag_upper n (s : nat -> R) : upper n (fun i j => s i * delta i j).
Proof. intros i j _ _ H. unfold delta. destruct (Nat.eqb_spec i j); [lia|ring]. Qed.
Lemma ctr_diag n (s : nat -> R) : feq n n (ctr 0 (fun i j => s i * delta i j)) (fun i j => conj (s i) * delta i j).
Proof. intros i j _ _. unfold ctr. rewrite conj_mul, conj_delta. unfold delta. rewrite Nat.eqb_sym. destruct (Nat.eqb_spec i j); [subst; reflexivity|ring]. Qed.
(* c * Identity *)
Lemma scal_id n c : wf (mul (Ident n) c) = true /\ shape (mul (Ident n) c) = (n, n) /\ feq n n (den (mul (Ident n) c)) (fun i j => c * delta i j).
Proof. destruct (mul_sound (Ident n) c eq_refl) as (W & S & D). repeat split; auto. Qed.
Lemma dense_den' (e : op) : wf e = true -> feq (fst (shape e)) (snd (shape e)) (dense e) (den e).
Proof. exact (dense_den e). Qed.

Lemma chol_leaf_diag n (s d : nat -> R) : (forall i, (i < n)%nat -> s i * conj (s i) = d i) ->
  feq n n (mmul n (fun i j => s i * delta i j) (ctr 0 (fun i j => s i * delta i j))) (fun i j => d i * delta i j).
Proof. intros H. eapply feq_trans; [apply (mmul_ext n n n); [apply feq_refl|apply ctr_diag]|].
  eapply feq_trans; [apply diag_den_mul|]. intros i j Hi Hj. cbn beta. rewrite H by auto. reflexivity. Qed.

Definition Pchol (e : op) := wf e = true -> is_sq e = true -> cok e -> cholgood (chol e) e.
Lemma chol_dense (e : op) : wf e = true -> is_sq e = true -> chol_spec (fst (shape e)) (dense e) ->
  cholgood (DTri true (fst (shape e)) (chol_o (fst (shape e)) (dense e))) e.
Proof. intros W Sq [LL F]. pose proof (sq_shape e Sq) as Sh. unfold cholgood. cbn [dto_op wf shape nr nc den dat].
  split; [reflexivity|]. split; [symmetry; exact Sh|]. split; [exact LL|].
  eapply feq_trans; [exact F|]. pose proof (dense_den' e W) as D. rewrite Sh in D. exact D. Qed.
Lemma forall_map_id {A} (f : A -> Prop) l : Forall (fun P : Prop => P) (map f l) <-> Forall f l.
Proof. rewrite Forall_map. tauto. Qed.

Theorem chol_correct : forall e, Pchol e.
Proof. apply op_ind2; unfold Pchol; try (intros; apply chol_dense; assumption).
  - (* Diag *) intros n d W Sq OK. cbn [cok chol] in *. unfold cholgood, sqrt_diag. cbn [dto_op wf shape den fst].
    split; [reflexivity|]. split; [reflexivity|]. split; [apply diag_lower|]. apply chol_leaf_diag; auto.
  - (* Ident *) intros n W Sq OK. unfold cholgood. cbn [chol dto_op wf shape den fst]. split; [reflexivity|]. split; [reflexivity|]. split; [apply lower_eye|].
    eapply feq_trans; [apply (mmul_ext n n n); [apply feq_refl|apply (ctr_eye n 0)]|]. apply mmul_eye_l_feq.
  - (* Scal *) intros c n W Sq OK. cbn [cok chol] in *. unfold cholgood, sqrt_scal. cbn [dto_op shape fst]. destruct (scal_id n (sqrt_o c)) as (W' & S' & D').
    split; [exact W'|]. split; [exact S'|]. split; [eapply lower_ext; [apply feq_sym; exact D'|apply (diag_lower n (fun _ => sqrt_o c))]|].
    eapply feq_trans; [apply (mmul_ext n n n); [exact D'|apply (ctr_ext n n); exact D']|].
    cbn [den]. apply (chol_leaf_diag n (fun _ => sqrt_o c) (fun _ => c)). auto.
  - (* Kron *) intros ms HF W Sq [SQ OK]. apply forall_map_id in OK. cbn [chol]. cbn [wf] in W. apply andb_prop in W as [W Pos].
    assert (G : Forall2 (fun r m => cholgood r m) (map chol ms) ms).
    { clear Pos Sq. induction ms as [|m ms IH]; [constructor|]. inversion HF; inversion OK; subst. cbn [forallb] in W, SQ. apply andb_prop in W as [W1 W]. apply andb_prop in SQ as [S1 SQ].
      cbn [map]. constructor; auto. }
    assert (ES : map shape (map dto_op (map chol ms)) = map shape ms /\ forallb wf (map dto_op (map chol ms)) = true).
    { clear - G. induction G as [|r m rs ms (Wr & Sr & _) _ [IH1 IH2]]; [split; reflexivity|]. cbn [map forallb]. rewrite Sr, IH1, Wr, IH2. split; reflexivity. }
    destruct ES as [ES EW].
    assert (FI : Forall2 cholfac (map facof (map dto_op (map chol ms))) (map facof ms)).
    { clear ES EW Sq. induction G as [|r m rs ms (Wr & Sr & LL & F) G IH]; cbn [map]; constructor.
      - cbn [forallb map] in SQ, Pos. apply andb_prop in SQ as [S1 _]. apply andb_prop in Pos as [P _]. apply andb_prop in P as [P _]. apply Nat.ltb_lt in P. apply Nat.eqb_eq in S1.
        unfold cholfac, facof. cbn [fr fc fmx]. rewrite Sr. repeat split; auto.
      - cbn [forallb map] in SQ, Pos, W. apply andb_prop in SQ as [_ SQ]. apply andb_prop in Pos as [_ Pos]. apply andb_prop in W as [_ W]. inversion HF; inversion OK; subst. apply IH; auto. }
    destruct (kron_chol _ _ FI) as (Sq' & Pos' & E1 & E2 & LL & F).
    unfold cholgood. change (dto_op (DKron (map chol ms))) with (Kron (map dto_op (map chol ms))).
    split; [cbn [wf]; rewrite EW, ES, Pos; reflexivity|]. split; [cbn [shape]; rewrite ES; reflexivity|].
    change (den (Kron (map dto_op (map chol ms)))) with (fmx (kronR (map facof (map dto_op (map chol ms))))). change (den (Kron ms)) with (fmx (kronR (map facof ms))).
    cbn [shape]. rewrite kshape_kronR. cbn [fst]. split; assumption.
  - (* BDiag *) intros ms HF W Sq [SQ OK]. apply forall_map_id in OK. cbn [chol]. cbn [wf] in W. unfold cholgood.
    change (dto_op (DBDiag (map (fun mc => (chol (fst mc), snd mc)) ms))) with (BDiag (map (fun mc => (dto_op (fst mc), snd mc)) (map (fun mc => (chol (fst mc), snd mc)) ms))).
    set (ps := map (fun mc : dop * nat => (dto_op (fst mc), snd mc)) (map (fun mc => (chol (fst mc), snd mc)) ms)).
    assert (H : forallb (fun mc => wf (fst mc)) ps = true /\ map (fun mc => (shape (fst mc), snd mc)) ps = map (fun mc => (shape (fst mc), snd mc)) ms
                /\ Forall2 cholblk (blocks ps) (blocks ms)).
    { unfold ps. clear ps Sq. induction ms as [|[m mu] ms IH]; [repeat split; constructor|].
      inversion HF as [|? ? Pm HF']; inversion OK as [|? ? O1 O2]; subst. cbn [forallb fst] in W, SQ. apply andb_prop in W as [W1 W]. apply andb_prop in SQ as [S1 SQ].
      destruct (IH HF' W SQ O2) as (A1 & A2 & A3). destruct (Pm W1 S1 O1) as (Wr & Sr & LL & F). cbn [fst] in *.
      cbn [map fst snd forallb]. rewrite Wr, A1, A2, Sr. repeat split; auto.
      unfold blocks in *. cbn [map concat fst snd]. apply Forall2_app; [|exact A3]. apply Forall2_rep.
      exists (fst (shape m)). cbn [fst snd]. rewrite Sr. split; [apply sq_shape; auto|]. split; [apply sq_shape; auto|]. split; assumption. }
    destruct H as (H1 & H2 & H3). destruct (bd_chol _ _ H3) as (F1 & F2 & F3 & LL & F).
    split; [exact H1|]. split; [cbn [shape]; rewrite H2; reflexivity|].
    change (den (BDiag ps)) with (bd (blocks ps)). change (den (BDiag ms)) with (bd (blocks ms)).
    cbn [shape]. rewrite bshape_blocks. cbn [fst]. split; assumption.
Qed.
End S.
