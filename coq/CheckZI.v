(* In-Coq comparison of the model (instantiated at the Gaussian integers) with results observed on the implementation. *)
From Coq Require Import ZArith List Bool Arith.
From Core Require Import Base Kron Op ZIInst.
Import ListNotations.
Definition M := list (list zi).
Record case := { ce : op (R:=zi); cm : nat; cn : nat; ck : nat;
                 cx : M;       (* right operand  cn x ck *)
                 cxl : M;      (* left operand   ck x cm *)
                 cdense : M;   (* A.to_dense()   cm x cn *)
                 cres : M;     (* A @ X          cm x ck *)
                 cresl : M;    (* XL @ A         ck x cn *)
                 cvec : list zi (* A @ X[:,0] with a 1-D operand *) }.
Definition shape_ok (c : case) := let s := shape (ce c) in Nat.eqb (fst s) (cm c) && Nat.eqb (snd s) (cn c).
Definition col0 (a : arr (R:=zi)) (m : nat) (l : list zi) : bool :=
  forallb (fun i => zi_eqb (dat a i 0%nat) (nth i l zi0)) (seq 0 m).
(* forward product, densification, 1-D operand *)
Definition check_fwd (c : case) : bool :=
  let e := ce c in
  wf e && shape_ok c
  && arr_eqb_mn (mkarr (cm c) (cn c) (den e)) (cm c) (cn c) (cdense c)
  && (let Y := matmat e (of_list_mn (cn c) (ck c) (cx c)) in
      arr_eqb_mn Y (cm c) (ck c) (cres c) && (Nat.eqb (ck c) 0 || col0 Y (cm c) (cvec c))).
(* backward product *)
Definition check_bwd (c : case) : bool :=
  let e := ce c in
  wf e && shape_ok c && arr_eqb_mn (rmatmat e (of_list_mn (ck c) (cm c) (cxl c))) (ck c) (cn c) (cresl c).
