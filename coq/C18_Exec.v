(* C18 - in-Coq comparison of the registry machine (C18_Registry.v) and of the aliasing signatures (C18_Sigs.v)
   with what was observed on the implementation. *)
From Coq Require Import List String Bool Arith.
From Core Require Import C18_Registry C18_Sigs.
Import ListNotations.
Open Scope string_scope.
Open Scope list_scope.

Definition leaf_eqb (a b : val) : bool :=
  match a, b with
  | VArr i, VArr j => Nat.eqb i j
  | VAtom s, VAtom t => String.eqb s t
  | _, _ => false
  end.
Fixpoint leaves_eqb (a b : list val) : bool :=
  match a, b with
  | [], [] => true
  | x :: r, y :: s => leaf_eqb x y && leaves_eqb r s
  | _, _ => false
  end.

(* a script run in a fresh interpreter: constructions in order; for each one the leaves flatten() returned right after
   the construction and again at the end of the script *)
(* XPartial: a constructor that raised after some assignments - same effect on the registry, no object to flatten *)
Inductive xevent := XE (e : event) | XPartial (k : ctor).
Record rcase := { r_hist : list xevent; r_now : list (list val); r_end : list (list val) }.
Fixpoint replay (h : list xevent) (r : reg) (acc : list (val * list val)) : reg * list (val * list val) :=
  match h with
  | [] => (r, rev acc)
  | XE (EDecl c p) :: t => replay t (step r (EDecl c p)) acc
  | XE (ECons k) :: t => let (r1, v) := construct r k in replay t r1 ((v, leaves r1 v) :: acc)
  | XPartial k :: t => replay t (step r (ECons k)) acc
  end.
Definition rcase_ok (c : rcase) : bool :=
  let (rf, objs) := replay (r_hist c) reg0 [] in
  Nat.eqb (List.length objs) (List.length (r_now c)) && Nat.eqb (List.length objs) (List.length (r_end c)) &&
  forallb (fun p => leaves_eqb (snd (fst p)) (snd p)) (combine objs (r_now c)) &&
  forallb (fun p => leaves_eqb (leaves rf (fst (fst p))) (snd p)) (combine objs (r_end c)) &&
  (* flatten_roundtrip, executed: unflatten(flatten v) = v structurally (build succeeds and consumes all leaves) *)
  forallb (fun p => match build (treedef rf (fst p)) (leaves rf (fst p)) with Some (_, []) => true | _ => false end) objs.
Fixpoint failing_from {A} (chk : A -> bool) (i : nat) (cs : list A) : list nat :=
  match cs with [] => [] | c :: r => if chk c then failing_from chk (S i) r else i :: failing_from chk (S i) r end.

(* aliasing: which prediction function, the operator's structure, what np.shares_memory said *)
Inductive aq := QMatmat | QRmatmat | QDense | QDiag.
Record acase := { a_q : aq; a_tree : ktree; a_obs : bool }.
Definition predict (q : aq) (t : ktree) : tri :=
  match q with QMatmat => alias_mm t | QRmatmat => alias_rmm t | QDense => alias_dense t | QDiag => alias_diag t end.
Definition acase_ok (c : acase) : bool := agrees (predict (a_q c) (a_tree c)) (a_obs c).
