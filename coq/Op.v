From Coq Require Import Arith Lia List Ring ArithRing PeanoNat Bool.
From Core Require Import Base Kron.
Import ListNotations.
Section Op.
Context {R : Type} {RR : Ring R} {CR : CRing R}.
Add Ring Rring : Rth.
Open Scope R_scope.
Notation fm := (fm (R:=R)). Notation arr := (arr (R:=R)).

Inductive op :=
| Dense (a : arr)
| Diag (n : nat) (d : nat -> R)
| Ident (n : nat)
| Scal (c : R) (n : nat)
| Sum (ms : list op)
| Prod (ms : list op)
| Kron (ms : list op)
| BDiag (ms : list (op * nat))
| Transp (a : op)
| Adj (a : op)
| Gen (a : arr)
| Perm (n : nat) (p : nat -> nat)
| Tridiag (n : nat) (al be ga : nat -> R)
| House (n : nat) (v : nat -> R) (beta : R)
| Sparse (m n : nat) (ent : list (nat * nat * R))
| KronSum (ms : list op)
| Sliced (a : op) (rs cs : list nat)
| ConcatV (ms : list op).

Definition shp := (nat * nat)%type.
Definition kshape (ss : list shp) : shp := fold_right (fun s acc => (fst s * fst acc, snd s * snd acc)%nat) (1,1)%nat ss.
Fixpoint rep {A} (k : nat) (x : A) : list A := match k with O => [] | S k' => x :: rep k' x end.
Definition bshape (ss : list (shp * nat)) : shp :=
  fold_right (fun sc acc => (fst (fst sc) * snd sc + fst acc, snd (fst sc) * snd sc + snd acc)%nat) (0,0)%nat ss.
Fixpoint shape (e : op) : shp :=
  match e with
  | Dense a => (nr a, nc a)
  | Diag n _ => (n, n) | Ident n => (n, n) | Scal _ n => (n, n)
  | Sum ms => hd (0,0)%nat (map shape ms)
  | Prod ms => let ss := map shape ms in (fst (hd (0,0)%nat ss), snd (last ss (0,0)%nat))
  | Kron ms => kshape (map shape ms)
  | BDiag ms => bshape (map (fun mc => (shape (fst mc), snd mc)) ms)
  | Transp a | Adj a => (snd (shape a), fst (shape a))
  | Gen a => (nr a, nc a)
  | Perm n _ => (n, n) | Tridiag n _ _ _ => (n, n) | House n _ _ => (n, n)
  | Sparse m n _ => (m, n)
  | KronSum ms => kshape (map shape ms)
  | Sliced a rs cs => (length rs, length cs)
  | ConcatV ms => let ss := map shape ms in (fold_right (fun s acc => (fst s + acc)%nat) 0%nat ss, snd (hd (0,0)%nat ss))
  end.
Definition shp_eqb (a b : shp) := Nat.eqb (fst a) (fst b) && Nat.eqb (snd a) (snd b).
Fixpoint chain_ok (ss : list shp) : bool :=
  match ss with [] => true | s :: rest => match rest with [] => true | s' :: _ => Nat.eqb (snd s) (fst s') && chain_ok rest end end.
Fixpoint nodupb (l : list nat) : bool :=
  match l with [] => true | x :: r => negb (existsb (Nat.eqb x) r) && nodupb r end.
Fixpoint wf (e : op) : bool :=
  match e with
  | Dense _ | Diag _ _ | Ident _ | Scal _ _ => true
  | Sum ms => negb (Nat.eqb (length ms) 0) && forallb wf ms && forallb (fun s => shp_eqb s (hd (0,0)%nat (map shape ms))) (map shape ms)
  | Prod ms => negb (Nat.eqb (length ms) 0) && forallb wf ms && chain_ok (map shape ms)
  | Kron ms => forallb wf ms && forallb (fun s => (0 <? fst s)%nat && (0 <? snd s)%nat) (map shape ms)
  | BDiag ms => forallb (fun mc => wf (fst mc)) ms
  | Transp a | Adj a => wf a
  | Gen _ | Tridiag _ _ _ _ | House _ _ _ => true
  | Perm n p => forallb (fun i => (p i <? n)%nat) (seq 0 n)
  | Sparse m n ent => forallb (fun e => (fst (fst e) <? m)%nat && (snd (fst e) <? n)%nat) ent
  | KronSum ms => negb (Nat.eqb (length ms) 0) && forallb wf ms && forallb (fun s => (0 <? fst s)%nat && Nat.eqb (fst s) (snd s)) (map shape ms)
  | Sliced a rs cs => wf a && forallb (fun i => (i <? fst (shape a))%nat) rs && forallb (fun j => (j <? snd (shape a))%nat) cs
                      && nodupb rs && nodupb cs
  | ConcatV ms => negb (Nat.eqb (length ms) 0) && forallb wf ms && forallb (fun s => Nat.eqb (snd s) (snd (hd (0,0)%nat (map shape ms)))) (map shape ms)
  end.

Definition zerom : fm := fun _ _ => r0.
Definition chain (l : list (shp * fm)) : fm :=
  fold_right (fun sm acc => mmul (snd (fst sm)) (snd sm) acc) eye l.
Fixpoint bd (l : list (shp * fm)) : fm :=
  match l with [] => zerom
  | (s, M) :: rest => fun i j =>
      if (i <? fst s)%nat then (if (j <? snd s)%nat then M i j else r0)
      else (if (j <? snd s)%nat then r0 else bd rest (i - fst s)%nat (j - snd s)%nat) end.
Fixpoint vstack (l : list (nat * fm)) : fm :=
  match l with [] => zerom | (r, M) :: rest => fun i j => if (i <? r)%nat then M i j else vstack rest (i - r)%nat j end.
Definition ksum2 (A B : fac) : fac :=
  mkfac (fr A * fr B) (fc A * fc B)
    (fun i j => fmx A (i / fr B)%nat (j / fc B)%nat * delta (i mod fr B)%nat (j mod fc B)%nat
              + delta (i / fr B)%nat (j / fc B)%nat * fmx B (i mod fr B)%nat (j mod fc B)%nat).
Definition zero11 : fac := mkfac 1 1 (fun _ _ => r0).
(* Kronecker sum, right-nested:  M (+) Ms' = M (x) I + I (x) (+)Ms'  (the empty sum is the 1x1 zero) *)
Fixpoint ksumR (Ms : list fac) : fac := match Ms with [] => zero11 | M :: Ms' => ksum2 M (ksumR Ms') end.
Definition spden (ent : list (nat * nat * R)) : fm :=
  fun i j => fold_right (fun e acc => (if Nat.eqb (fst (fst e)) i && Nat.eqb (snd (fst e)) j then snd e else r0) + acc) r0 ent.
Definition scat (cs : list nat) (X : fm) : fm :=
  fun l j => fold_left (fun acc k => if Nat.eqb (nth k cs 0%nat) l then X k j else acc) (seq 0 (length cs)) r0.
Definition scatc (rs : list nat) (X : fm) : fm :=
  fun i l => fold_left (fun acc k => if Nat.eqb (nth k rs 0%nat) l then X i k else acc) (seq 0 (length rs)) r0.
Fixpoint den (e : op) : fm :=
  match e with
  | Dense a => dat a
  | Diag n d => fun i j => d i * delta i j
  | Ident n => eye
  | Scal c n => fun i j => c * delta i j
  | Sum ms => fold_right (fun M acc => madd M acc) zerom (map den ms)
  | Prod ms => chain (map (fun m => (shape m, den m)) ms)
  | Kron ms => fmx (kronR (map (fun m => mkfac (fst (shape m)) (snd (shape m)) (den m)) ms))
  | BDiag ms => bd (concat (map (fun mc => rep (snd mc) (shape (fst mc), den (fst mc))) ms))
  | Transp a => fun i j => den a j i
  | Adj a => fun i j => conj (den a j i)
  | Gen a => dat a
  | Perm n p => fun i j => delta (p i) j
  | Tridiag n al be ga => fun i j => (if Nat.eqb i j then be i else r0) + (if Nat.eqb i (S j) then al j else r0) + (if Nat.eqb (S i) j then ga i else r0)
  | House n v beta => fun i j => delta i j - beta * v i * conj (v j)
  | Sparse m n ent => spden ent
  | KronSum ms => fmx (ksumR (map (fun m => mkfac (fst (shape m)) (snd (shape m)) (den m)) ms))
  | Sliced a rs cs => fun i j => den a (nth i rs 0%nat) (nth j cs 0%nat)
  | ConcatV ms => vstack (map (fun m => (fst (shape m), den m)) ms)
  end.

Definition cja (a : arr) : arr := mkarr (nr a) (nc a) (fun i j => conj (dat a i j)).
(* default backward product: linear transpose of the forward product *)
Definition lt (fwd : arr -> arr) (m n : nat) (X : arr) : arr :=
  memo (mkarr (nr X) n (mmul m (dat X) (dat (fwd (mkarr n n eye))))).
Definition prodcs (l : list op) : nat := fold_right (fun m acc => (snd (shape m) * acc)%nat) 1%nat l.

Fixpoint mm (e : op) {struct e} : (arr -> arr) * (arr -> arr) :=
  match e with
  | Dense a => (fun X => memo (mkarr (nr a) (nc X) (mmul (nc a) (dat a) (dat X))),
                fun X => memo (mkarr (nr X) (nc a) (mmul (nr a) (dat X) (dat a))))
  | Diag n d => (fun X => memo (mkarr n (nc X) (fun i j => d i * dat X i j)),
                 fun X => memo (mkarr (nr X) n (fun i j => dat X i j * d j)))
  | Ident n => (fun X => X, fun X => X)
  | Scal c n => let fwd := fun X => memo (mkarr (nr X) (nc X) (fun i j => c * dat X i j)) in (fwd, lt fwd n n)
  | Sum ms =>
      (fun X => memo (mkarr (fst (shape e)) (nc X) (fold_right (fun y acc => madd (dat y) acc) zerom (map (fun m => fst (mm m) X) ms))),
       fun X => memo (mkarr (nr X) (snd (shape e)) (fold_right (fun y acc => madd (dat y) acc) zerom (map (fun m => snd (mm m) X) ms))))
  | Prod ms => (fun X => fold_right (fun m acc => fst (mm m) acc) X ms,
                fun X => fold_left (fun acc m => snd (mm m) acc) ms X)
  | Kron ms =>
      let fwd := fun X =>
        let K := nc X in
        let xf := (fix go (l : list op) (P : nat) (x : nat -> R) {struct l} : nat -> R :=
          match l with
          | [] => x
          | m :: l' =>
              let r := fst (shape m) in let c := snd (shape m) in
              let S := (prodcs l' * K)%nat in
              let Z := mkarr c (P * S) (fun j col => x (((col / S) * c + j) * S + col mod S)%nat) in
              let Y := fst (mm m) Z in
              go l' (P * r)%nat (fun idx => dat Y ((idx / S) mod r)%nat ((idx / (r * S)) * S + idx mod S)%nat)
          end) ms 1%nat (fun idx => dat X (idx / K)%nat (idx mod K)%nat) in
        memo (mkarr (fst (shape e)) K (fun i j => xf (i * K + j)%nat)) in
      (fwd, lt fwd (fst (shape e)) (snd (shape e)))
  | BDiag ms =>
      let fwd := fun X =>
        let K := nc X in
        let out := (fix go (l : list (op * nat)) (ri ci : nat) {struct l} : fm :=
          match l with
          | [] => zerom
          | (m, mu) :: l' =>
              let r := fst (shape m) in let c := snd (shape m) in
              let Z := mkarr c (K * mu) (fun g col => dat X (ci + (col mod mu) * c + g)%nat (col / mu)%nat) in
              let Y := fst (mm m) Z in
              let rest := go l' (ri + mu * r)%nat (ci + mu * c)%nat in
              fun i j => if (i <? ri + mu * r)%nat then dat Y ((i - ri) mod r)%nat (j * mu + (i - ri) / r)%nat else rest i j
          end) ms 0%nat 0%nat in
        memo (mkarr (fst (shape e)) K out) in
      (fwd, lt fwd (fst (shape e)) (snd (shape e)))
  | Transp a => let fb := mm a in (fun X => tra (snd fb (tra X)), fun X => tra (fst fb (tra X)))
  | Adj a => let fb := mm a in (fun X => tra (cja (snd fb (tra (cja X)))), fun X => tra (cja (fst fb (tra (cja X)))))
  | Gen a => let fwd := fun X => memo (mkarr (nr a) (nc X) (mmul (nc a) (dat a) (dat X))) in (fwd, lt fwd (nr a) (nc a))
  | Perm n p => let fwd := fun X => memo (mkarr n (nc X) (fun i j => dat X (p i) j)) in (fwd, lt fwd n n)
  | Tridiag n al be ga =>
      let fwd := fun X => memo (mkarr n (nc X) (fun i j =>
           be i * dat X i j + (if (0 <? i)%nat then al (i - 1)%nat * dat X (i - 1)%nat j else r0)
           + (if (S i <? n)%nat then ga i * dat X (S i) j else r0))) in (fwd, lt fwd n n)
  | House n v beta =>
      let fwd := fun X => memo (mkarr n (nc X) (fun i j => dat X i j - beta * sum n (fun l => dat X l j * conj (v l)) * v i)) in
      (fwd, lt fwd n n)
  | Sparse m n ent =>
      (fun X => memo (mkarr m (nc X) (fun i j => fold_right (fun e acc => (if Nat.eqb (fst (fst e)) i then snd e * dat X (snd (fst e)) j else r0) + acc) r0 ent)),
       fun X => memo (mkarr (nr X) n (fun i j => fold_right (fun e acc => (if Nat.eqb (snd (fst e)) j then dat X i (fst (fst e)) * snd e else r0) + acc) r0 ent)))
  | KronSum ms =>
      let fwd := fun X =>
        let K := nc X in
        let x0 := fun idx => dat X (idx / K)%nat (idx mod K)%nat in
        let xf := (fix go (l : list op) (P : nat) {struct l} : nat -> R :=
          match l with
          | [] => fun _ => r0
          | m :: l' =>
              let d := fst (shape m) in
              let S := (prodcs l' * K)%nat in
              let Z := mkarr d (P * S) (fun j col => x0 (((col / S) * d + j) * S + col mod S)%nat) in
              let Y := fst (mm m) Z in
              let rest := go l' (P * d)%nat in
              fun idx => dat Y ((idx / S) mod d)%nat ((idx / (d * S)) * S + idx mod S)%nat + rest idx
          end) ms 1%nat in
        memo (mkarr (fst (shape e)) K (fun i j => xf (i * K + j)%nat)) in
      (fwd, lt fwd (fst (shape e)) (snd (shape e)))
  | Sliced a rs cs =>
      let fb := mm a in
      (fun X => let Y := memo (mkarr (snd (shape a)) (nc X) (scat cs (dat X))) in
                let out := fst fb Y in
                memo (mkarr (length rs) (nc X) (fun i j => dat out (nth i rs 0%nat) j)),
       fun X => let Y := memo (mkarr (nr X) (fst (shape a)) (scatc rs (dat X))) in
                let out := snd fb Y in
                memo (mkarr (nr X) (length cs) (fun i j => dat out i (nth j cs 0%nat))))
  | ConcatV ms =>
      let fwd := fun X => memo (mkarr (fst (shape e)) (nc X) (vstack (map (fun m => (fst (shape m), dat (fst (mm m) X))) ms))) in
      (fwd, lt fwd (fst (shape e)) (snd (shape e)))
  end.
Definition matmat e := fst (mm e).
Definition rmatmat e := snd (mm e).
End Op.
