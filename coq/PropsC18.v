(* Property C18: operators are persistent values - inputs are never mutated, flatten/unflatten round-trips with
   leaves = the array parameters, regardless of construction history.
   Only statements closed by [exact]; models and lemmas live in C18_Registry.v, C18_Store.v, C18_Sigs.v. *)
From Coq Require Import List String Bool Arith.
From Core Require Import C18_Registry C18_Store C18_Sigs C18_Uniform.
Import ListNotations.

(* unflatten (flatten A) = A: same class, same fields (annotations included), in EVERY registry state, i.e. after
   every history of class definitions and constructions *)
Theorem C18_flatten_roundtrip : forall (r : reg) (v : val), unflatten (snd (flatten r v)) (fst (flatten r v)) = Some v.
Proof. exact flatten_roundtrip. Qed.
Print Assumptions C18_flatten_roundtrip.

(* in particular after any history h *)
Theorem C18_flatten_roundtrip_any_history : forall (h : list event) (v : val),
  unflatten (treedef (run_hist h reg0) v) (leaves (run_hist h reg0) v) = Some v.
Proof. exact (fun h v => flatten_roundtrip (run_hist h reg0) v). Qed.
Print Assumptions C18_flatten_roundtrip_any_history.

(* the mechanism: once a class has registered a name, no later event changes whether it is an array parameter *)
Theorem C18_first_instance_decides : forall (h : list event) (r : reg) (c : cls) (n : name),
  registered r c n = true -> registered (run_hist h r) c n = true /\ dyn (run_hist h r) c n = dyn r c n.
Proof. exact first_instance_decides. Qed.
Print Assumptions C18_first_instance_decides.

(* every attribute a constructor assigns is registered afterwards: flatten never looks up a missing key *)
Theorem C18_registered_after_construct : forall (r : reg) (k : ctor) (n : name),
  In n (map fst (k_assigns k)) -> registered (fst (construct r k)) (k_cls k) n = true.
Proof. exact registered_after_construct. Qed.
Print Assumptions C18_registered_after_construct.

(* the annotation wrapper and .to(None) return an operator with the same class and fields (new annotation set for the wrapper) *)
Theorem C18_wrap_spec : forall (r : reg) (a : val) (c : cls) (fs : list (name * val)),
  wrap r a (VOp c fs) = Some (VOp c (set_field "annotations"%string a fs)).
Proof. exact wrap_spec. Qed.
Print Assumptions C18_wrap_spec.
Theorem C18_to_none_spec : forall (r : reg) (v : val), to_none r v = Some v.
Proof. exact to_none_spec. Qed.
Print Assumptions C18_to_none_spec.

(* REFUTED on the pinned tree: the leaves of one and the same operator depend on what was constructed before,
   and can contain non-arrays (two-step witness, computed in Coq, replayed in fresh interpreters by the check) *)
Theorem C18_history_dependent_refuted : exists (h1 h2 : list event) (k : ctor), leaves_after h1 k <> leaves_after h2 k.
Proof. exact history_dependent_refuted. Qed.
Print Assumptions C18_history_dependent_refuted.
(* second witness, supported inputs only: the failed constructor call behind A[np.array([0,2])] poisons Sliced[Dense,tuple] *)
Theorem C18_history_dependent_sliced_refuted :
  leaves_after h_sliced_plain (k_sliced_full slices_plain) <> leaves_after h_sliced_failed (k_sliced_full slices_plain).
Proof. exact history_dependent_sliced_refuted. Qed.
Print Assumptions C18_history_dependent_sliced_refuted.
Theorem C18_history_independent_refuted : ~ C18_history_independent_full.
Proof. exact history_independent_refuted. Qed.
Print Assumptions C18_history_independent_refuted.
Theorem C18_leaves_not_only_arrays_refuted : exists (h : list event) (k : ctor), existsb (fun l => negb (is_array l)) (leaves_after h k) = true.
Proof. exact leaves_not_only_arrays_refuted. Qed.
Print Assumptions C18_leaves_not_only_arrays_refuted.

(* the positive half (partial: under a uniformity hypothesis the pinned tree does not guarantee): if every class is used
   uniformly - a table U says per class and attribute whether it holds arrays, and every executed assignment agrees -
   the registry always agrees with U, and the leaves of an operator whose classes are registered are the ideal leaves
   of U after ANY two such histories. What is missing for the full statement: the hypothesis itself - BlockDiag.multiplicities
   and Sliced.slices can be assigned both kinds of values (the refutations above). *)
Theorem C18_uniform_agree : forall (U : cls -> name -> bool) (h : list event) (r : reg),
  agree U r -> uniform U h r -> agree U (run_hist h r).
Proof. exact uniform_agree. Qed.
Print Assumptions C18_uniform_agree.
Theorem C18_history_independent_partial : forall (U : cls -> name -> bool) (h1 h2 : list event) (r0 : reg) (v : val),
  agree U r0 -> uniform U h1 r0 -> uniform U h2 r0 ->
  covered (run_hist h1 r0) v = true -> covered (run_hist h2 r0) v = true ->
  leaves (run_hist h1 r0) v = leaves (run_hist h2 r0) v /\ leaves (run_hist h1 r0) v = leavesU U v.
Proof. exact history_independent_partial. Qed.
Print Assumptions C18_history_independent_partial.
Example C18_uniform_example : agree U_ex reg0 /\ uniform U_ex (h_plain ++ [ECons (k_blockdiag mult_list)]) reg0.
Proof. exact uniform_example. Qed.
Print Assumptions C18_uniform_example.

(* heap model: for ALL operation sequences whose write targets are fresh or library-owned, caller-owned cells keep
   their contents *)
Theorem C18_no_caller_write : forall (D : Type) (ss : list (step D)) (st : store D) (j : nat) (c : cell D),
  all_safe D ss st = true -> nth_error st j = Some c -> caller_owned D c = true -> nth_error (run D ss st) j = Some c.
Proof. exact no_caller_write. Qed.
Print Assumptions C18_no_caller_write.

(* ... a static taint analysis is sufficient for that ... *)
Theorem C18_no_caller_write_static : forall (D : Type) (ps : list (pstep D)) (st : store D) (j : nat) (c : cell D),
  ok_static D ps [] = true -> nth_error st j = Some c -> caller_owned D c = true -> nth_error (prun D ps [] st) j = Some c.
Proof. exact no_caller_write_static. Qed.
Print Assumptions C18_no_caller_write_static.

(* ... and every program over the operation alphabet with the signatures of C18_Sigs.v passes it, unless it calls Identity.to *)
Theorem C18_alphabet_no_caller_write_partial : forall (D : Type) (cs : list (call D)) (st : store D) (j : nat) (c : cell D),
  forallb (fun c => pure_op (c_op D c)) cs = true ->
  nth_error st j = Some c -> caller_owned D c = true ->
  nth_error (prun D (map (to_pstep D) cs) [] st) j = Some c.
Proof. exact alphabet_no_caller_write. Qed.
Print Assumptions C18_alphabet_no_caller_write_partial.

(* REFUTED on the pinned tree: Identity.to writes the caller's operator *)
Theorem C18_identity_to_mutates_self_refuted : exists (cs : list (call nat)) (st : store nat) (j : nat) (c : cell nat),
  nth_error st j = Some c /\ caller_owned nat c = true /\ nth_error (prun nat (map (to_pstep nat) cs) [] st) j <> Some c.
Proof. exact identity_to_mutates_self_refuted. Qed.
Print Assumptions C18_identity_to_mutates_self_refuted.

(* in-place accumulation inside a product (Sum / KronSum / running sums): with a freshly allocated accumulator every
   sum-like node passes the taint analysis whatever its children; accumulating into the FIRST term is rejected as soon as
   the first child may return its argument (Identity, products / Kronecker products of such) and the operand is the
   caller's - and executing it does change the caller's cell *)
Theorem C18_accumulate_fresh_ok : forall (D : Type) (ms : list ktree) (env : list bool) (args : list ref) (ad wd : nat -> D),
  step_ok D env {| psg := sig_accumulate AccFresh ms; pargs := args; padata := ad; pwdata := wd |} = true.
Proof. exact accumulate_fresh_ok. Qed.
Print Assumptions C18_accumulate_fresh_ok.
Theorem C18_accumulate_first_term_rejected : forall (D : Type) (first : ktree) (rest : list ktree) (A x : handle) (ad wd : nat -> D),
  alias_mm first <> No ->
  step_ok D [] {| psg := sig_accumulate AccFirstTerm (first :: rest); pargs := [RCaller A; RCaller x]; padata := ad; pwdata := wd |} = false.
Proof. exact accumulate_first_term_rejected. Qed.
Print Assumptions C18_accumulate_first_term_rejected.
Theorem C18_accumulate_first_term_writes_caller : exists (st : store nat) (p : pstep nat) (j : nat) (c : cell nat),
  psg nat p = sig_accumulate AccFirstTerm [KIdent; KDense] /\
  nth_error st j = Some c /\ caller_owned nat c = true /\ nth_error (prun nat [p] [] st) j <> Some c.
Proof. exact accumulate_first_term_writes_caller. Qed.
Print Assumptions C18_accumulate_first_term_writes_caller.
