(* C12/C13: scalar and vector interfaces of the Krylov models, the list-backed vector instance that is
   executed, and the two execution instances over binary64 ([PrimFloat]): reals and complex pairs.
   No law is assumed here; laws are hypotheses of the theorems (C12_Contract.v, C12_Krylov.v, C13_*.v). *)
From Coq Require Import List Bool Arith PrimFloat.
Import ListNotations.

(* one scalar sort: complex scalars and the real quantities computed from them (norms, tolerances) live in the
   same type, as in numpy after promotion; [oltb] compares real parts *)
Record ops (T : Type) := mkops {
  o0 : T; o1 : T;
  oadd : T -> T -> T; osub : T -> T -> T; omul : T -> T -> T; odiv : T -> T -> T;
  oopp : T -> T; oconj : T -> T;
  osqrt : T -> T;            (* applied to real non-negative values only *)
  oabs : T -> T;             (* modulus, as a real *)
  oltb : T -> T -> bool;     (* strict comparison of real values *)
  osmall : T;                (* cola.linalg.inverse.cg._small_value = 1e-40 *)
  ozero : T;                 (* do_safe_div calls a denominator zero when its modulus is below this: 1e-40 on the pinned tree
                                (defect flag cg_absolute_small_guard); the smallest positive number (exact zero test) after the repair *)
  osafe : T                  (* what do_safe_div puts in place of a denominator below osmall: 1e-40 on the pinned tree
                                (defect flag cg_safe_div_subnormal), 1 after the repair *)
}.
Arguments o0 {T}. Arguments o1 {T}. Arguments oadd {T}. Arguments osub {T}. Arguments omul {T}. Arguments odiv {T}.
Arguments oopp {T}. Arguments oconj {T}. Arguments osqrt {T}. Arguments oabs {T}. Arguments oltb {T}. Arguments osmall {T}. Arguments osafe {T}. Arguments ozero {T}.

(* whole-vector primitives used by the algorithms (numpy array expressions) *)
Record vops (T V : Type) := mkvops {
  vadd : V -> V -> V;        (* u + v *)
  vsub : V -> V -> V;        (* u - v *)
  vscale : T -> V -> V;      (* a * v *)
  vdivs : V -> T -> V;       (* v / a *)
  vdot : V -> V -> T         (* sum(conj(u) * v) *)
}.
Arguments vadd {T V}. Arguments vsub {T V}. Arguments vscale {T V}. Arguments vdivs {T V}. Arguments vdot {T V}.

Section Generic.
Context {T : Type} (o : ops T).
Fixpoint ofnat (n : nat) : T := match n with 0 => o0 o | S k => oadd o (ofnat k) (o1 o) end.

(* ---- list-backed vectors ---- *)
Definition ldot (u v : list T) : T :=
  fold_left (fun acc p => oadd o acc (omul o (oconj o (fst p)) (snd p))) (combine u v) (o0 o).
Definition ldotu (u v : list T) : T :=   (* no conjugation: one row of a matrix-vector product *)
  fold_left (fun acc p => oadd o acc (omul o (fst p) (snd p))) (combine u v) (o0 o).
Definition lmap2 (f : T -> T -> T) (u v : list T) : list T := map (fun p => f (fst p) (snd p)) (combine u v).
Definition lvops : vops T (list T) :=
  {| vadd := lmap2 (oadd o); vsub := lmap2 (osub o);
     vscale := fun a v => map (fun x => omul o a x) v;
     vdivs := fun v a => map (fun x => odiv o x a) v;
     vdot := ldot |}.
Definition mv (A : list (list T)) (x : list T) : list T := map (fun r => ldotu r x) A.
Definition lmax (l : list T) : T := fold_left (fun acc x => if oltb o acc x then x else acc) l (o0 o).
End Generic.

(* ---- binary64 reals ---- *)
Definition small_f : float := 0x1.16c262777579cp-133%float.  (* float(1e-40).hex() *)
Definition FR : ops float :=
  {| o0 := 0%float; o1 := 1%float; oadd := PrimFloat.add; osub := PrimFloat.sub; omul := PrimFloat.mul;
     odiv := PrimFloat.div; oopp := PrimFloat.opp; oconj := fun x => x; osqrt := PrimFloat.sqrt;
     oabs := PrimFloat.abs; oltb := PrimFloat.ltb; osmall := small_f; ozero := small_f; osafe := small_f |}.
(* the same with the repaired do_safe_div *)
Definition FR1 : ops float :=
  {| o0 := o0 FR; o1 := o1 FR; oadd := oadd FR; osub := osub FR; omul := omul FR; odiv := odiv FR; oopp := oopp FR; oconj := oconj FR;
     osqrt := osqrt FR; oabs := oabs FR; oltb := oltb FR; osmall := osmall FR; ozero := ozero FR; osafe := 1%float |}.
(* the same with an exact zero test in do_safe_div: |den| < 2^-1074 iff den = 0 *)
Definition FR2 : ops float :=
  {| o0 := o0 FR; o1 := o1 FR; oadd := oadd FR; osub := osub FR; omul := omul FR; odiv := odiv FR; oopp := oopp FR; oconj := oconj FR;
     osqrt := osqrt FR; oabs := oabs FR; oltb := oltb FR; osmall := osmall FR; ozero := 0x1p-1074%float; osafe := 1%float |}.

(* ---- binary64 complex numbers as pairs ---- *)
Definition cpx := (float * float)%type.
Open Scope float_scope.
Definition cx_mul (a b : cpx) : cpx := (fst a * fst b - snd a * snd b, fst a * snd b + snd a * fst b).
(* numpy's complex division (Smith's algorithm) *)
Definition cx_div (a b : cpx) : cpx :=
  let '(ar, ai) := a in let '(br, bi) := b in
  if PrimFloat.abs bi <=? PrimFloat.abs br then
    let rat := bi / br in let scl := 1 / (br + bi * rat) in
    ((ar + ai * rat) * scl, (ai - ar * rat) * scl)
  else
    let rat := br / bi in let scl := 1 / (br * rat + bi) in
    ((ar * rat + ai) * scl, (ai * rat - ar) * scl).
Definition cx_abs (a : cpx) : cpx := (PrimFloat.sqrt (fst a * fst a + snd a * snd a), 0).
Definition FC : ops cpx :=
  {| o0 := (0, 0); o1 := (1, 0);
     oadd := fun a b => (fst a + fst b, snd a + snd b); osub := fun a b => (fst a - fst b, snd a - snd b);
     omul := cx_mul; odiv := cx_div; oopp := fun a => (- fst a, - snd a); oconj := fun a => (fst a, - snd a);
     osqrt := fun a => (PrimFloat.sqrt (fst a), 0); oabs := cx_abs;
     oltb := fun a b => fst a <? fst b; osmall := (small_f, 0); ozero := (small_f, 0); osafe := (small_f, 0) |}.
Definition FC1 : ops cpx :=
  {| o0 := o0 FC; o1 := o1 FC; oadd := oadd FC; osub := osub FC; omul := omul FC; odiv := odiv FC; oopp := oopp FC; oconj := oconj FC;
     osqrt := osqrt FC; oabs := oabs FC; oltb := oltb FC; osmall := osmall FC; ozero := ozero FC; osafe := (1, 0) |}.
Definition FC2 : ops cpx :=
  {| o0 := o0 FC; o1 := o1 FC; oadd := oadd FC; osub := osub FC; omul := omul FC; odiv := odiv FC; oopp := oopp FC; oconj := oconj FC;
     osqrt := osqrt FC; oabs := oabs FC; oltb := oltb FC; osmall := osmall FC; ozero := (0x1p-1074, 0); osafe := (1, 0) |}.
Close Scope float_scope.

(* ---- tolerance comparison helpers used by the generated case files ---- *)
Open Scope float_scope.
Definition fclose (rtol scale a b : float) : bool := PrimFloat.abs (a - b) <=? rtol * scale.
Definition cclose (rtol scale : float) (a b : cpx) : bool := fclose rtol scale (fst a) (fst b) && fclose rtol scale (snd a) (snd b).
Fixpoint all2 {X Y} (f : X -> Y -> bool) (u : list X) (v : list Y) : bool :=
  match u, v with
  | [], [] => true
  | a :: u', b :: v' => f a b && all2 f u' v'
  | _, _ => false
  end.
Close Scope float_scope.
Fixpoint failing {X} (chk : X -> bool) (i : nat) (l : list X) : list nat :=
  match l with [] => [] | c :: t => if chk c then failing chk (S i) t else i :: failing chk (S i) t end.
