(* C12: in-Coq comparison of the PrimFloat instances of the CG model with results observed on the implementation.
   Generated files (run/gen/c12_*.v) define [cases] and evaluate [classify]; only the lists of failing / near-tie
   case indices are parsed by the harness. *)
From Coq Require Import List Bool Arith NArith PrimFloat.
From Core Require Import C12_Ops C12_Model.
Import ListNotations.

Record case (T : Type) := mkcase {
  kA : list (list T);        (* dense operator, rows *)
  kP : list (list T);        (* dense preconditioner, rows *)
  kB : list (list T);        (* right-hand sides, one list per column *)
  kX0 : list (list T);       (* initial guesses, one list per column *)
  ktol : T; kmax : N; kflag : bool;
  eX : list (list T);        (* cola's solution, per column *)
  eScale : list float;       (* per column: max |entry| of cola's solution (0 for an all-zero column) *)
  eSteps : N;                (* number of products with A, minus the one for r0 *)
  eIts : N;                  (* info['iterations'] *)
  eErr : list float          (* info['errors'] *)
}.
Arguments kA {T}. Arguments kP {T}. Arguments kB {T}. Arguments kX0 {T}. Arguments ktol {T}. Arguments kmax {T}.
Arguments kflag {T}. Arguments eX {T}. Arguments eScale {T}. Arguments eSteps {T}. Arguments eIts {T}. Arguments eErr {T}.

Section Check.
Context {T : Type} (o : ops T) (toR : T -> float) (close : float -> float -> T -> T -> bool).
Variables (rtol mrel mabs : float).
Open Scope float_scope.

Definition run (c : case T) : result (T:=T) (V:=list T) :=
  run_cg o (lvops o) (mv o (kA c)) (mv o (kP c)) (kflag c) (ktol c) (N.to_nat (kmax c)) (kB c) (kX0 c).

(* a stopping decision is decisive when every column's residual norm is away from its tolerance *)
Definition col_decisive (c : col (T:=T) (V:=list T)) : bool :=
  let rs := toR (vnorm o (lvops o) (cr c)) in let tl := toR (ctol c) in
  mrel * tl + mabs <? PrimFloat.abs (rs - tl).
Fixpoint decisive (A P : list T -> list T) (max_iters fuel : nat) (s : st (T:=T) (V:=list T)) : bool :=
  forallb col_decisive (fst s) &&
  match fuel with
  | 0%nat => true
  | S f => if cg_cond o (lvops o) max_iters s then decisive A P max_iters f (cg_body o (lvops o) A P s) else true
  end.
Definition case_decisive (c : case T) : bool :=
  let A := mv o (kA c) in let P := mv o (kP c) in let m := N.to_nat (kmax c) in
  decisive A P m m (map (fun bx => init_col o (lvops o) A P (kflag c) (ktol c) (fst bx) (snd bx)) (combine (kB c) (kX0 c)), 0%nat).

Definition err_close (a : T) (b : float) : bool :=
  PrimFloat.abs (toR a - b) <=? 0x1.ad7f29abcaf48p-24 (* 1e-7 *) * PrimFloat.abs b + 0x1.5fd7fe1796495p-37 (* 1e-11 *).
Definition agree (c : case T) : bool :=
  let r := run c in
  N.eqb (N.of_nat (steps r)) (eSteps c) && N.eqb (N.of_nat (iterations r)) (eIts c)
  && N.eqb (N.of_nat (bodies r)) (eSteps c)
  && all2 err_close (errors r) (eErr c)
  && all2 (fun xs es => all2 (close rtol (snd es)) xs (fst es)) (sol r) (combine (eX c) (eScale c)).
(* 0 = agrees, 1 = disagrees, 2 = stopping decision too close to call (skipped, counted) *)
Definition classify1 (c : case T) : nat := if agree c then 0%nat else if case_decisive c then 1%nat else 2%nat.
Fixpoint classify (i : nat) (l : list (case T)) : list nat * list nat :=
  match l with
  | [] => ([], [])
  | c :: t => let '(f, n) := classify (S i) t in
              match classify1 c with 0%nat => (f, n) | 1%nat => (i :: f, n) | _ => (f, i :: n) end
  end.
End Check.

Definition rtol_f : float := 0x1.12e0be826d695p-30%float.   (* 1e-9 *)
Definition mrel_f : float := 0x1.0c6f7a0b5ed8dp-20%float.   (* 1e-6 *)
Definition mabs_f : float := 0x1.6849b86a12b9bp-47%float.   (* 1e-14 *)
Definition classify_real := classify FR (fun x => x) fclose rtol_f mrel_f mabs_f 0.
Definition classify_cplx := classify FC (fun x => fst x) cclose rtol_f mrel_f mabs_f 0.
(* the same with the repaired do_safe_div (defect flag cg_safe_div_subnormal cleared) *)
Definition classify_real1 := classify FR1 (fun x => x) fclose rtol_f mrel_f mabs_f 0.
Definition classify_cplx1 := classify FC1 (fun x => fst x) cclose rtol_f mrel_f mabs_f 0.
(* ... and with the exact zero test in do_safe_div (defect flag cg_absolute_small_guard cleared) *)
Definition classify_real2 := classify FR2 (fun x => x) fclose rtol_f mrel_f mabs_f 0.
Definition classify_cplx2 := classify FC2 (fun x => fst x) cclose rtol_f mrel_f mabs_f 0.
