(* C13: hypotheses of the exact-arithmetic theorems bundled in one record, the theorems restated against it (the
   statements PropsC13.v exposes), and the full-strength statement C13_full. *)
From Coq Require Import List Bool Arith Lia Ring Field.
From Core Require Import C12_Ops C13_Model C13_Proofs C13_Reduction C13_Loop C13_Link.
Import ListNotations.

(* a field with involution and a vector type with an inner product obeying the weak (scalar) laws; sqrt is a
   square root on the values <v,v> and returns reals *)
Record arn_laws {T V : Type} (o : ops T) (vo : vops T V) : Prop := mk_arn_laws {
  a_field : field_theory (o0 o) (o1 o) (oadd o) (omul o) (osub o) (oopp o) (odiv o) (fun x => odiv o (o1 o) x) eq;
  a_conj_add : forall a b, oconj o (oadd o a b) = oadd o (oconj o a) (oconj o b);
  a_conj_mul : forall a b, oconj o (omul o a b) = omul o (oconj o a) (oconj o b);
  a_conj_opp : forall a, oconj o (oopp o a) = oopp o (oconj o a);
  a_conj_div : forall a b, oconj o (odiv o a b) = odiv o (oconj o a) (oconj o b);
  a_dot_add_r : forall u v w, vdot vo u (vadd vo v w) = oadd o (vdot vo u v) (vdot vo u w);
  a_dot_sub_r : forall u v w, vdot vo u (vsub vo v w) = osub o (vdot vo u v) (vdot vo u w);
  a_dot_scale_r : forall u a v, vdot vo u (vscale vo a v) = omul o a (vdot vo u v);
  a_dot_divs_r : forall u v a, vdot vo u (vdivs vo v a) = odiv o (vdot vo u v) a;
  a_dot_sym : forall u v, vdot vo u v = oconj o (vdot vo v u);
  a_nrm_sq : forall v, omul o (vnrm o vo v) (vnrm o vo v) = vdot vo v v;
  a_nrm_real : forall v, oconj o (vnrm o vo v) = vnrm o vo v }.

Section Bundled.
Context {T V : Type} (o : ops T) (vo : vops T V).
Hypothesis L : arn_laws o vo.

Theorem mgs_orth_b qs w w' hs hs' : mgs vo qs w hs = (w', hs') -> orthonormal o vo qs -> forall u, In u qs -> vdot vo u w' = o0 o.
Proof. destruct L. eapply (mgs_orth o vo); eauto. Qed.

Theorem arnoldi_step_b (A : V -> V) selfref abs_clip tol (c : acol (T:=T) (V:=V)) :
  orthonormal o vo (aqs c) ->
  let c' := arnoldi_step o vo A selfref abs_clip tol c in
  forall w hs, mgs vo (aqs c) (A (alast c)) [] = (w, hs) ->
  next_q o vo selfref (step_thr o abs_clip tol (ahs c ++ [rev hs ++ [vnrm o vo w]])) w (vnrm o vo w) = vdivs vo w (vnrm o vo w) -> vnrm o vo w <> o0 o ->
  orthonormal o vo (aqs c') /\
  exists hcol, ahs c' = ahs c ++ [hcol] /\ length hcol = S (length (aqs c)) /\ aqs c' = aqs c ++ [alast c'] /\
    forall u, vdot vo u (A (alast c)) = lsum o (zipw (fun h q => omul o h (vdot vo u q)) hcol (aqs c')).
Proof. destruct L. eapply (arnoldi_step_spec o vo); eauto. Qed.

Theorem gmres_minimal_b (Pos : T -> Prop) : (forall v, Pos (vdot vo v v)) ->
  forall ws y r0, (forall w, In w ws -> vdot vo w (lsq_res vo ws y r0) = o0 o) ->
  forall y', Pos (osub o (vdot vo (lsq_res vo ws y' r0) (lsq_res vo ws y' r0)) (vdot vo (lsq_res vo ws y r0) (lsq_res vo ws y r0))).
Proof. destruct L. eapply (gmres_minimal o vo); eauto. Qed.

Theorem gmres_residual_le_r0_b (Pos : T -> Prop) : (forall v, Pos (vdot vo v v)) ->
  forall ws y r0, (forall w, In w ws -> vdot vo w (lsq_res vo ws y r0) = o0 o) ->
  Pos (osub o (vdot vo r0 r0) (vdot vo (lsq_res vo ws y r0) (lsq_res vo ws y r0))).
Proof. destruct L. eapply (gmres_residual_le_r0 o vo); eauto. Qed.

(* the reduction  ||r0 - A Q_m y||^2 = ||beta e1 - H~ y||^2  from orthonormality + the Arnoldi relation *)
Theorem gmres_reduction_b (A : V -> V) (q : nat -> V) (H : nat -> nat -> T) (m : nat) (beta : T) (r0 rho : V) (y : nat -> T) :
  (forall i j, i <= m -> j <= m -> vdot vo (q i) (q j) = delta o i j) ->
  (forall j, j < m -> forall u, vdot vo u (A (q j)) = sum o (S m) (fun i => omul o (H i j) (vdot vo u (q i)))) ->
  (forall u, vdot vo u r0 = omul o beta (vdot vo u (q 0))) ->
  (forall u, vdot vo u rho = osub o (vdot vo u r0) (sum o m (fun j => omul o (y j) (vdot vo u (A (q j)))))) ->
  vdot vo rho rho = sum o (S m) (fun k => omul o (coord o H m beta y k) (oconj o (coord o H m beta y k))).
Proof. intros. destruct L. eapply (gmres_reduction o vo); eauto. Qed.

(* the code's small normal equations, read in coordinates, make the residual minimal over all coefficient vectors *)
Theorem gmres_optimal_b (A : V -> V) (q : nat -> V) (H : nat -> nat -> T) (m : nat) (beta : T) (r0 : V) (y : nat -> T) (Pos : T -> Prop) :
  (forall v, Pos (vdot vo v v)) ->
  (forall i j, i <= m -> j <= m -> vdot vo (q i) (q j) = delta o i j) ->
  (forall j, j < m -> forall u, vdot vo u (A (q j)) = sum o (S m) (fun i => omul o (H i j) (vdot vo u (q i)))) ->
  (forall u, vdot vo u r0 = omul o beta (vdot vo u (q 0))) ->
  (forall i, i < m -> sum o m (fun j => omul o (Gram o H m i j) (y j)) = omul o (oconj o (H 0 i)) beta) ->
  forall y' : list T,
  Pos (osub o (vdot vo (rho_of vo A q m r0 y') (rho_of vo A q m r0 y'))
              (vdot vo (rho_of vo A q m r0 (map y (seq 0 m))) (rho_of vo A q m r0 (map y (seq 0 m))))).
Proof. intros. destruct L. eapply (gmres_optimal_from_normal_equations o vo); eauto. Qed.
End Bundled.

(* the Arnoldi invariants over the whole loop of one column *)
Section Bundled2.
Context {T V : Type} (o : ops T) (vo : vops T V).
Hypothesis L : arn_laws o vo.
Theorem arnoldi_invariant_b (A : V -> V) (selfref zero_nan abs_clip : bool) (tol : T) (r0 : V) (K : nat) : vnrm o vo r0 <> o0 o ->
  start_den o zero_nan (vnrm o vo r0) = vnrm o vo r0 ->
  (forall k, k < K -> unclipped o vo A selfref abs_clip tol (acs o vo A selfref zero_nan abs_clip tol r0 k)) ->
  forall k, k <= K -> AInv o vo A k (acs o vo A selfref zero_nan abs_clip tol r0 k).
Proof. intros. destruct L. eapply (arnoldi_invariant o vo); eauto. Qed.
End Bundled2.

(* Full-strength statement, one column, model with the defect flag gmres_square_H cleared.  Explicit hypotheses:
   exact-arithmetic laws; A linear (it has an adjoint As); m <= n unclipped Arnoldi steps during which the loop's own
   test stays true (no breakdown); no row masked as padding; the oracle [solve] solves the system it is handed.
   Conclusion: gmres_fwd returns x, after exactly m steps, such that no x' = x0 + sum_j y'_j q_j - no element of
   x0 + K_m(A, r0) - has a smaller residual norm, and the residual of x is at most the initial residual. *)
Definition C13_full : Prop :=
  forall (T V : Type) (o : ops T) (vo : vops T V), arn_laws o vo ->
  forall (A As : V -> V), (forall u v, vdot vo u (A v) = vdot vo (As u) v) ->
  forall (solve : list (list T) -> list T -> list T) (pad_buf selfref zero_nan abs_clip : bool) (tol mfac : T) (m : nat) (b x0 : V),
  vnrm o vo (vsub vo b (A x0)) <> o0 o ->
  start_den o zero_nan (vnrm o vo (vsub vo b (A x0))) = vnrm o vo (vsub vo b (A x0)) ->
  (forall k, k < m -> unclipped o vo A selfref abs_clip tol (acs o vo A selfref zero_nan abs_clip tol (vsub vo b (A x0)) k)) ->
  Forall (fun p : bool => p = false) (pad_of o vo A selfref zero_nan abs_clip tol mfac m b x0) ->
  (length (solve (Gm o vo A selfref zero_nan abs_clip tol m b x0) (rhsm o vo A selfref zero_nan abs_clip tol m b x0)) = m /\
   forall i, i < m -> lsum o (zipw (omul o) (nth i (Gm o vo A selfref zero_nan abs_clip tol m b x0) []) (solve (Gm o vo A selfref zero_nan abs_clip tol m b x0) (rhsm o vo A selfref zero_nan abs_clip tol m b x0)))
                      = nth i (rhsm o vo A selfref zero_nan abs_clip tol m b x0) (o0 o)) ->
  forall n, m <= n ->
  (forall k, k < m -> arnoldi_cond o selfref tol (Nat.min m n) ([acs o vo A selfref zero_nan abs_clip tol (vsub vo b (A x0)) k], k) = true) ->
  forall (Pos : T -> Prop), (forall v, Pos (vdot vo v v)) ->
  exists x, gsol (gmres_fwd o vo A solve false pad_buf selfref zero_nan abs_clip tol mfac m n [b] [x0]) = [x] /\ gsteps (gmres_fwd o vo A solve false pad_buf selfref zero_nan abs_clip tol mfac m n [b] [x0]) = m /\
    (forall y' : list T, Pos (osub o (vdot vo (vsub vo b (A (cand o vo A selfref zero_nan abs_clip tol m b x0 y'))) (vsub vo b (A (cand o vo A selfref zero_nan abs_clip tol m b x0 y'))))
                                    (vdot vo (vsub vo b (A x)) (vsub vo b (A x))))) /\
    Pos (osub o (vdot vo (vsub vo b (A x0)) (vsub vo b (A x0))) (vdot vo (vsub vo b (A x)) (vsub vo b (A x)))).

Theorem C13_full_proved : C13_full.
Proof. intros T V o vo L A As Hadj solve pad_buf selfref zero_nan abs_clip tol mfac m b x0 Hnz Hstart Hunc Hpad Hsolve n Hmn Hcond Pos HP. destruct L.
  eapply (gmres_fwd_minimal o vo); eauto. Qed.
