(* C13: hypotheses of the exact-arithmetic theorems bundled in one record, the theorems restated against it (the
   statements PropsC13.v exposes), and the full-strength statement C13_full. *)
From Coq Require Import List Bool Arith Lia Ring Field.
From Core Require Import C12_Ops C13_Model C13_Proofs C13_Reduction.
Import ListNotations.

(* a field with involution and a vector type with an inner product obeying the weak (scalar) laws; sqrt is a
   square root on the values <v,v> and returns reals *)
Record arn_laws {T V : Type} (o : ops T) (vo : vops T V) : Prop := mk_arn_laws {
  a_field : field_theory (o0 o) (o1 o) (oadd o) (omul o) (osub o) (oopp o) (odiv o) (fun x => odiv o (o1 o) x) eq;
  a_conj_add : forall a b, oconj o (oadd o a b) = oadd o (oconj o a) (oconj o b);
  a_conj_mul : forall a b, oconj o (omul o a b) = omul o (oconj o a) (oconj o b);
  a_conj_opp : forall a, oconj o (oopp o a) = oopp o (oconj o a);
  a_conj_div : forall a b, oconj o (odiv o a b) = odiv o (oconj o a) (oconj o b);
  a_dot_sub_r : forall u v w, vdot vo u (vsub vo v w) = osub o (vdot vo u v) (vdot vo u w);
  a_dot_scale_r : forall u a v, vdot vo u (vscale vo a v) = omul o a (vdot vo u v);
  a_dot_divs_r : forall u v a, vdot vo u (vdivs vo v a) = odiv o (vdot vo u v) a;
  a_dot_sym : forall u v, vdot vo u v = oconj o (vdot vo v u);
  a_nrm_sq : forall v, omul o (vnrm o vo v) (vnrm o vo v) = vdot vo v v;
  a_nrm_real : forall v, oconj o (vnrm o vo v) = vnrm o vo v }.

Section Bundled.
Context {T V : Type} (o : ops T) (vo : vops T V).
Hypothesis L : arn_laws o vo.

Theorem mgs_orth_b qs w w' hs hs' : mgs vo qs w hs = (w', hs') -> orthonormal o vo qs -> forall u, In u qs -> vdot vo u w' = o0 o.
Proof. destruct L. eapply (mgs_orth o vo); eauto. Qed.

Theorem arnoldi_step_b (A : V -> V) tol (c : acol (T:=T) (V:=V)) :
  orthonormal o vo (aqs c) ->
  let c' := arnoldi_step o vo A tol c in
  forall w hs, mgs vo (aqs c) (A (alast c)) [] = (w, hs) ->
  clip_min o (vnrm o vo w) (odiv o tol (oadd o (o1 o) (o1 o))) = vnrm o vo w -> vnrm o vo w <> o0 o ->
  orthonormal o vo (aqs c') /\
  exists hcol, ahs c' = ahs c ++ [hcol] /\ length hcol = S (length (aqs c)) /\ aqs c' = aqs c ++ [alast c'] /\
    forall u, vdot vo u (A (alast c)) = lsum o (zipw (fun h q => omul o h (vdot vo u q)) hcol (aqs c')).
Proof. destruct L. eapply (arnoldi_step_spec o vo); eauto. Qed.

Theorem gmres_minimal_b (Pos : T -> Prop) : (forall v, Pos (vdot vo v v)) ->
  forall ws y r0, (forall w, In w ws -> vdot vo w (lsq_res vo ws y r0) = o0 o) ->
  forall y', Pos (osub o (vdot vo (lsq_res vo ws y' r0) (lsq_res vo ws y' r0)) (vdot vo (lsq_res vo ws y r0) (lsq_res vo ws y r0))).
Proof. destruct L. eapply (gmres_minimal o vo); eauto. Qed.

Theorem gmres_residual_le_r0_b (Pos : T -> Prop) : (forall v, Pos (vdot vo v v)) ->
  forall ws y r0, (forall w, In w ws -> vdot vo w (lsq_res vo ws y r0) = o0 o) ->
  Pos (osub o (vdot vo r0 r0) (vdot vo (lsq_res vo ws y r0) (lsq_res vo ws y r0))).
Proof. destruct L. eapply (gmres_residual_le_r0 o vo); eauto. Qed.

(* the reduction  ||r0 - A Q_m y||^2 = ||beta e1 - H~ y||^2  from orthonormality + the Arnoldi relation *)
Theorem gmres_reduction_b (A : V -> V) (q : nat -> V) (H : nat -> nat -> T) (m : nat) (beta : T) (r0 rho : V) (y : nat -> T) :
  (forall i j, i <= m -> j <= m -> vdot vo (q i) (q j) = delta o i j) ->
  (forall j, j < m -> forall u, vdot vo u (A (q j)) = sum o (S m) (fun i => omul o (H i j) (vdot vo u (q i)))) ->
  (forall u, vdot vo u r0 = omul o beta (vdot vo u (q 0))) ->
  (forall u, vdot vo u rho = osub o (vdot vo u r0) (sum o m (fun j => omul o (y j) (vdot vo u (A (q j)))))) ->
  vdot vo rho rho = sum o (S m) (fun k => omul o (coord o H m beta y k) (oconj o (coord o H m beta y k))).
Proof. intros. destruct L. eapply (gmres_reduction o vo); eauto. Qed.

(* the code's small normal equations, read in coordinates, make the residual minimal over all coefficient vectors *)
Theorem gmres_optimal_b (A : V -> V) (q : nat -> V) (H : nat -> nat -> T) (m : nat) (beta : T) (r0 : V) (y : nat -> T) (Pos : T -> Prop) :
  (forall v, Pos (vdot vo v v)) ->
  (forall i j, i <= m -> j <= m -> vdot vo (q i) (q j) = delta o i j) ->
  (forall j, j < m -> forall u, vdot vo u (A (q j)) = sum o (S m) (fun i => omul o (H i j) (vdot vo u (q i)))) ->
  (forall u, vdot vo u r0 = omul o beta (vdot vo u (q 0))) ->
  (forall i, i < m -> sum o m (fun j => omul o (Gram o H m i j) (y j)) = omul o (oconj o (H 0 i)) beta) ->
  forall y' : list T,
  Pos (osub o (vdot vo (rho_of vo A q m r0 y') (rho_of vo A q m r0 y'))
              (vdot vo (rho_of vo A q m r0 (map y (seq 0 m))) (rho_of vo A q m r0 (map y (seq 0 m))))).
Proof. intros. destruct L. eapply (gmres_optimal_from_normal_equations o vo); eauto. Qed.
End Bundled.

(* Full-strength statement (model with the defect flags cleared): for every column, without clipping/breakdown
   before the loop ends, the vector returned by gmres_fwd is x0 + sum_j y_j q_j where q_0..q_(k-1) is an orthonormal
   basis of K_k(A, r0) (k = number of steps) and its residual is minimal over x0 + K_k.
   Proved: the number of products (gmres_products), modified Gram-Schmidt orthogonality and the Arnoldi step
   (orthonormality + relation: arnoldi_step_b), minimality from the normal equations in the abstract form
   "residual orthogonal to every A q_j" (gmres_minimal_b) and residual <= ||r0||.
   Missing for C13_full: the induction over the whole loop and the coordinate computation showing that the
   code's normal equations  (H~^H H~) y = H~^H (beta e1)  solved by the oracle [solve] are exactly those
   orthogonality conditions (the reduction ||r0 - A Q y|| = ||beta e1 - H~ y||). *)
Definition C13_full : Prop :=
  forall (T V : Type) (o : ops T) (vo : vops T V), arn_laws o vo ->
  forall (A : V -> V) (solve : list (list T) -> list T -> list T),
  (forall G g, length (solve G g) = length g /\
     forall i row, nth_error G i = Some row -> lsum o (zipw (omul o) row (solve G g)) = nth i g (o0 o)) ->
  forall (Pos : T -> Prop), (forall v, Pos (vdot vo v v)) ->
  forall tol m n (b x0 : V),
  let r := gmres_fwd o vo A solve false tol m n [b] [x0] in
  forall x, gsol r = [x] ->
  forall (ys : list T) (c : acol (T:=T) (V:=V)), fst (arnoldi_fact o vo A tol m n [vsub vo b (A x0)]) = [c] ->
  Pos (osub o (vdot vo (lsq_res vo (map A (firstn m (aqs c))) ys (vsub vo b (A x0))) (lsq_res vo (map A (firstn m (aqs c))) ys (vsub vo b (A x0))))
              (vdot vo (vsub vo b (A x)) (vsub vo b (A x)))).
