From Coq Require Import Arith Lia List Ring ArithRing PeanoNat Bool.
From Core Require Import Base.
Import ListNotations.
Section Kron.
Context {R : Type} {RR : Ring R}.
Add Ring Rring : Rth.
Open Scope R_scope.
Record fac := mkfac { fr : nat; fc : nat; fmx : fm (R:=R) }.
Definition kron2 (A B : fac) : fac :=
  mkfac (fr A * fr B) (fc A * fc B)
     (fun i j => fmx A (i / fr B)%nat (j / fc B)%nat * fmx B (i mod fr B)%nat (j mod fc B)%nat).
Definition one11 : fac := mkfac 1 1 (fun _ _ => r1).
Fixpoint kronR (Ms : list fac) : fac := match Ms with [] => one11 | M :: Ms' => kron2 M (kronR Ms') end.
Definition vecf := nat -> R.
Definition mode (din dout S : nat) (M : fm) (x : vecf) : vecf :=
  fun idx => let a := (idx / (dout*S))%nat in let r := ((idx / S) mod dout)%nat in let s := (idx mod S)%nat in
             sum din (fun j => M r j * x ((a*din + j)*S + s)%nat).
Fixpoint prodc (Ms : list fac) := match Ms with [] => 1%nat | M :: Ms' => (fc M * prodc Ms')%nat end.
Fixpoint prodr (Ms : list fac) := match Ms with [] => 1%nat | M :: Ms' => (fr M * prodr Ms')%nat end.
Fixpoint run (Ms : list fac) (K : nat) (x : vecf) : vecf :=
  match Ms with [] => x | M :: Ms' => run Ms' K (mode (fc M) (fr M) (prodc Ms' * K) (fmx M) x) end.
Definition pos (Ms : list fac) := forallb (fun M => andb (0 <? fr M)%nat (0 <? fc M)%nat) Ms = true.
Lemma fr_kronR_pos Ms : pos Ms -> (0 < fr (kronR Ms))%nat /\ (0 < fc (kronR Ms))%nat.
Proof. unfold pos. induction Ms as [|M Ms IH]; simpl; intros H; [lia|].
  apply andb_prop in H as [H1 H2]. apply andb_prop in H1 as [Ha Hb]. apply Nat.ltb_lt in Ha, Hb.
  destruct (IH H2). split; apply Nat.mul_pos_pos; assumption. Qed.
Lemma prodc_kronR Ms : prodc Ms = fc (kronR Ms). Proof. induction Ms; simpl; congruence. Qed.
Lemma prodr_kronR Ms : prodr Ms = fr (kronR Ms). Proof. induction Ms; simpl; congruence. Qed.
Theorem run_kron Ms K x : pos Ms -> (0 < K)%nat ->
  forall p rho kap, (rho < fr (kronR Ms))%nat -> (kap < K)%nat ->
  run Ms K x ((p * fr (kronR Ms) + rho) * K + kap)%nat
  = sum (fc (kronR Ms)) (fun g => fmx (kronR Ms) rho g * x ((p * fc (kronR Ms) + g) * K + kap)%nat).
Proof.
  intros Hpos HK. revert x. induction Ms as [|M Ms IH]; intros x p rho kap Hrho Hkap.
  - simpl in *. assert (rho = 0)%nat by lia. subst. rewrite !Nat.mul_1_r, !Nat.add_0_r. ring.
  - assert (Hpos' : pos Ms). { unfold pos in *; simpl in Hpos. apply andb_prop in Hpos; tauto. }
    assert (HM : (0 < fr M /\ 0 < fc M)%nat).
    { unfold pos in Hpos; simpl in Hpos. apply andb_prop in Hpos as [H _]. apply andb_prop in H as [Ha Hb].
      apply Nat.ltb_lt in Ha, Hb. tauto. }
    destruct (fr_kronR_pos Ms Hpos') as [HR' HC'].
    simpl run. simpl kronR. cbn [kron2 fr fc fmx].
    set (R' := fr (kronR Ms)) in *. set (C' := fc (kronR Ms)) in *.
    cbn [kronR kron2 fr] in Hrho. fold R' in Hrho.
    set (rho1 := (rho / R')%nat). set (rho' := (rho mod R')%nat).
    assert (Hr : rho = (rho1 * R' + rho')%nat) by (unfold rho1, rho'; rewrite Nat.mul_comm; apply Nat.div_mod; lia).
    assert (Hrho' : (rho' < R')%nat) by (apply Nat.mod_upper_bound; lia).
    assert (Hrho1 : (rho1 < fr M)%nat) by (apply Nat.div_lt_upper_bound; lia).
    clearbody rho1 rho'. subst rho.
    replace ((p * (fr M * R') + (rho1 * R' + rho')) * K + kap)%nat with (((p * fr M + rho1) * R' + rho') * K + kap)%nat by ring.
    rewrite (IH Hpos' _ (p * fr M + rho1)%nat rho' kap Hrho' Hkap).
    rewrite sum_prod.
    erewrite sum_ext.
    2:{ intros g' Hg'. unfold mode. rewrite prodc_kronR. fold C'.
        set (idx := (((p * fr M + rho1) * C' + g') * K + kap)%nat).
        assert (E1 : (idx / (fr M * (C' * K)) = p)%nat).
        { unfold idx. symmetry. apply Nat.div_unique with (r := ((rho1 * C' + g') * K + kap)%nat); [|ring].
          assert (g' * K + kap < C' * K)%nat by nia. nia. }
        assert (E2 : (idx mod (C' * K) = g' * K + kap)%nat).
        { unfold idx. symmetry. apply Nat.mod_unique with (q := (p * fr M + rho1)%nat); [nia|ring]. }
        assert (E3 : ((idx / (C' * K)) mod fr M = rho1)%nat).
        { assert (H : (idx / (C'*K) = p * fr M + rho1)%nat).
          { unfold idx. symmetry. apply Nat.div_unique with (r := (g' * K + kap)%nat); [nia|ring]. }
          rewrite H. rewrite Nat.add_comm, Nat.mod_add by lia. apply Nat.mod_small; lia. }
        rewrite E1, E2, E3. rewrite <- sum_mul_l. reflexivity. }
    rewrite sum_swap. apply sum_ext; intros j Hj. apply sum_ext; intros g' Hg'.
    rewrite Nat.div_add_l, (Nat.div_small g' C'), Nat.add_0_r by lia.
    rewrite (Nat.add_comm (j*C') g'), Nat.mod_add, (Nat.mod_small g' C') by lia.
    replace (((p * fc M + j) * (C' * K) + (g' * K + kap)))%nat with ((p * (fc M * C') + (g' + j * C')) * K + kap)%nat by ring.
    ring.
Qed.
(* run only depends on the factor matrices in range *)
Lemma mode_ext din dout S M M' x x' : feq dout din M M' -> (forall i, x i = x' i) -> (0 < dout)%nat ->
  forall idx, mode din dout S M x idx = mode din dout S M' x' idx.
Proof. intros HM Hx Hd idx. unfold mode. apply sum_ext; intros j Hj. rewrite HM, Hx; auto.
  apply Nat.mod_upper_bound; lia. Qed.
End Kron.
