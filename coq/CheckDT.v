(* in-Coq comparison of the dtype model (at the probed flag vector) with A.dtype, (A @ X).dtype, (X @ A).dtype *)
From Coq Require Import List Bool Arith.
From Core Require Import DtypeTable Dtype.
Import ListNotations.
Record dcase := { dtree : dsk; ddx : dt; dA : dt; dout : dt; drout : dt; dhas_left : bool; ddense : dt }.
(* A.to_dense() has the operator's dtype: compared when no dtype finding is present (all flags off), where the model's
   dtype is the promoted dtype of the leaves (DtypeProofs.dtype_promoted) *)
Definition all_off (fl : dflags) : bool :=
  negb (sum_first fl || concat_first fl || ident_pass fl || perm_pass fl || kronsum_inplace fl || sliced_cast fl).
Definition check_dt (fl : dflags) (c : dcase) : bool :=
  dt_eqb (dtype fl (dtree c)) (dA c) && dt_eqb (out_dtype fl (dtree c) (ddx c)) (dout c)
  && (negb (dhas_left c) || dt_eqb (rout_dtype fl (dtree c) (ddx c)) (drout c))
  && (negb (all_off fl) || dt_eqb (dtype fl (dtree c)) (ddense c)).
Fixpoint dfailing (fl : dflags) (i : nat) (cs : list dcase) : list nat :=
  match cs with [] => [] | c :: r => if check_dt fl c then dfailing fl (S i) r else i :: dfailing fl (S i) r end.
