(* in-Coq comparison of the dtype model (at the probed flag vector) with A.dtype, (A @ X).dtype, (X @ A).dtype *)
From Coq Require Import List Bool Arith.
From Core Require Import DtypeTable Dtype.
Import ListNotations.
Record dcase := { dtree : dsk; ddx : dt; dA : dt; dout : dt; drout : dt; dhas_left : bool }.
Definition check_dt (fl : dflags) (c : dcase) : bool :=
  dt_eqb (dtype fl (dtree c)) (dA c) && dt_eqb (out_dtype fl (dtree c) (ddx c)) (dout c)
  && (negb (dhas_left c) || dt_eqb (rout_dtype fl (dtree c) (ddx c)) (drout c)).
Fixpoint dfailing (fl : dflags) (i : nat) (cs : list dcase) : list nat :=
  match cs with [] => [] | c :: r => if check_dt fl c then dfailing fl (S i) r else i :: dfailing fl (S i) r end.
