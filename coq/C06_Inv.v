(* Property C06 - model of cola.linalg.inv (cola/linalg/inverse/inv.py) on the operator AST of Op.v.
   Input: the operator tree, the algorithm object's class, and a tree of facts observed on the implementation's
   objects (annotations PSD / Unitary / SelfAdjoint per node, whether a dense payload is a Triangular).
   Output: the tree of the returned operator (class structure incl. TriangularInv and the lazy iterative operator) or
   the class of the exception.  External behaviour = Section variables: the LAPACK factorisations (pivoted LU, Cholesky),
   the triangular solve behind TriangularInv, the iterative solvers. *)
From Coq Require Import Arith Lia List Ring ArithRing PeanoNat Bool NArith.
From Core Require Import Base Kron Op Algebra FieldBase.
Import ListNotations.
Section Inv.
Context {R : Type} {RR : Ring R} {CR : CRing R} {FR : Field R}.
Open Scope R_scope.
Notation fm := (fm (R:=R)). Notation arr := (arr (R:=R)). Notation op := (op (R:=R)).

(* class of the algorithm object: Auto, LU, Cholesky, CG, GMRES, or any other Algorithm instance *)
Inductive alg := AAuto | ALU | AChol | ACG | AGMRES | AOther.
Inductive itag := ICG | IGMRES.
Inductive ierr := EAmbig | EAssert | ENotFound | ENonSquare.

(* facts about the nodes of the operator tree, read off the implementation's objects *)
Inductive atree := AN (psd uni sa : bool) (tri : option bool) (kids : list atree).
Definition adef : atree := AN false false false None [].
Definition apsd (a : atree) := match a with AN p _ _ _ _ => p end.
Definition auni (a : atree) := match a with AN _ u _ _ _ => u end.
Definition asa (a : atree) := match a with AN _ _ s _ _ => s end.
Definition atri (a : atree) := match a with AN _ _ _ t _ => t end.
Definition akids (a : atree) := match a with AN _ _ _ _ k => k end.

(* defect flag of the pinned tree (probed on the implementation on every run): the GMRES base rule is registered with
   precedence 0 and ties with every rule typed (<kind>, Algorithm) *)
Variable gmres_amb : bool.
(* defect flag inv_psd_alg_forwarded_to_factors: true = the pinned tree's factor-wise rules hand the caller's algorithm to every factor;
   false = the repaired rules: Cholesky / CG requested for a PSD operator reach a factor that is not itself PSD as Auto *)
Variable fwd_strict : bool.
(* ---- oracles ---- *)
Variable lu_o : nat -> fm -> (nat -> nat) * fm * fm.   (* scipy.linalg.lu(a, p_indices=True): a = L[p,:] U *)
Variable chol_o : nat -> fm -> fm.                     (* numpy.linalg.cholesky *)
Variable tinv_o : nat -> fm -> bool -> fm.             (* matrix of X |-> solve_triangular(T, X, lower) *)
Variable iter_o : itag -> op -> fm.                    (* matrix of X |-> alg(A, X) for CG / GMRES (properties C12, C13) *)

(* the returned operator *)
Inductive iop :=
| IOp (e : op)                               (* Identity, Diagonal, ScalarMul, Permutation, the adjoint *)
| ITri (n : nat) (T : fm) (lower : bool)     (* TriangularInv(Triangular(T, lower)) *)
| IIter (t : itag) (e : op)                  (* IterativeOperatorWInfo(e, alg) *)
| IProd (ms : list iop)
| IKron (ms : list iop)
| IBDiag (ms : list (iop * nat)).
Inductive ires := IOk (r : iop) | IErr (k : ierr).

Fixpoint to_op (r : iop) : op :=
  match r with
  | IOp e => e
  | ITri n T lo => Gen (mkarr n n (tinv_o n T lo))
  | IIter t e => Gen (mkarr (fst (shape e)) (snd (shape e)) (iter_o t e))
  | IProd ms => Prod (map to_op ms)
  | IKron ms => Kron (map to_op ms)
  | IBDiag ms => BDiag (map (fun mc => (to_op (fst mc), snd mc)) ms)
  end.

(* argsort of a permutation: position of i in p, by search *)
Definition argsort (n : nat) (p : nat -> nat) (i : nat) : nat :=
  match find (fun j => Nat.eqb (p j) i) (seq 0 n) with Some j => j | None => 0%nat end.

(* Auto: `match (A.isa(PSD), bool(np.prod(A.shape) <= 1e6))` *)
Definition size_small (s : shp) : bool := (N.of_nat (fst s) * N.of_nat (snd s) <=? 1000000)%N.
Definition auto_choice (psd small : bool) : alg :=
  match psd, small with
  | true, true => AChol | true, false => ACG | false, true => ALU | false, false => AGMRES end.
Definition is_sq (e : op) : bool := Nat.eqb (fst (shape e)) (snd (shape e)).
(* A.to_dense() (square case: the forward product with the identity) *)
Definition dense (e : op) : fm := dat (matmat e (mkarr (snd (shape e)) (snd (shape e)) eye)).
Definition ctr (n : nat) (L : fm) : fm := fun i j => conj (L j i).

(* the rules typed (LinearOperator, <algorithm class>) *)
Definition base_alg (al : alg) (e : op) (a : atree) : alg :=
  match al with AAuto => auto_choice (apsd a) (size_small (shape e)) | _ => al end.
Definition base (al : alg) (e : op) (a : atree) : ires :=
  let n := fst (shape e) in
  match base_alg al e a with
  | AChol => if apsd a then
               (if is_sq e then let L := chol_o n (dense e) in IOk (IProd [ITri n (ctr n L) false; ITri n L true])   (* inv(L.H) @ inv(L) *)
                else IErr ENonSquare)
             else IErr EAssert
  | ALU => if is_sq e then
             let '(p, L, U) := lu_o n (dense e) in
             IOk (IProd [ITri n U false; ITri n L true; IOp (Perm n (argsort n p))])                                   (* inv(U) @ inv(L) @ inv(P) *)
           else IErr ENonSquare
  | ACG => if apsd a then IOk (IIter ICG e) else IErr EAssert
  | AGMRES => IOk (IIter IGMRES e)
  | AOther => if auni a then IOk (IOp (adjoint (asa a) e)) else IErr ENotFound    (* Unitary(A.H): only rule typed (LinearOperator, Algorithm) *)
  | AAuto => IErr ENotFound
  end.

(* a rule typed (<kind>, Algorithm) ties with the GMRES base rule (both precedence 0) *)
Definition amb (al : alg) (r : ires) : ires := match al with AGMRES => if gmres_amb then IErr EAmbig else r | _ => r end.
Fixpoint zipapp {A} (fs : list (atree -> A)) (ks : list atree) : list A :=
  match fs with
  | [] => []
  | f :: fs' => match ks with [] => f adef :: zipapp fs' [] | k :: ks' => f k :: zipapp fs' ks' end
  end.
Fixpoint seqres (l : list ires) : ierr + list iop :=
  match l with
  | [] => inr []
  | IErr k :: _ => inl k
  | IOk r :: l' => match seqres l' with inl k => inl k | inr rs => inr (r :: rs) end
  end.
Definition lift (f : list iop -> iop) (x : ierr + list iop) : ires := match x with inl k => IErr k | inr rs => IOk (f rs) end.

Definition child_alg (parent_psd : bool) (al : alg) (k : atree) : alg :=
  if fwd_strict then al
  else match al with
       | AChol | ACG => if parent_psd && negb (apsd k) then AAuto else al
       | _ => al
       end.
Fixpoint inv (al : alg) (e : op) (a : atree) {struct e} : ires :=
  match e with
  | Ident n => amb al (IOk (IOp e))
  | Scal c n => amb al (IOk (IOp (Scal (rinv c) n)))
  | Diag n d => amb al (IOk (IOp (Diag n (fun i => rinv (d i)))))
  | Perm n p => amb al (IOk (IOp (Perm n (argsort n p))))
  | Dense A => match atri a with
               | Some lo => amb al (IOk (ITri (nr A) (dat A) lo))
               | None => base al e a
               end
  | Kron ms => amb al (lift IKron (seqres (zipapp (map (fun m k => inv (child_alg (apsd a) al k) m k) ms) (akids a))))
  | BDiag ms => amb al (lift (fun rs => IBDiag (combine rs (map snd ms)))
                             (seqres (zipapp (map (fun mc k => inv (child_alg (apsd a) al k) (fst mc) k) ms) (akids a))))
  | Prod ms => if forallb is_sq ms                              (* conditional rule: precedence 0.5, wins over every base rule *)
               then lift (fun rs => IProd (rev rs)) (seqres (zipapp (map (fun m k => inv (child_alg (apsd a) al k) m k) ms) (akids a)))
               else base al e a
  | _ => base al e a
  end.

(* inv(A, alg) @ b, solve(A, b, alg) and b @ inv(A, alg) *)
Definition solve (al : alg) (e : op) (a : atree) (B : arr) : option arr :=
  match inv al e a with IOk r => Some (matmat (to_op r) B) | IErr _ => None end.
Definition lsolve (al : alg) (e : op) (a : atree) (B : arr) : option arr :=
  match inv al e a with IOk r => Some (rmatmat (to_op r) B) | IErr _ => None end.

(* does the result contain a lazy iterative operator? *)
Fixpoint direct (r : iop) : bool :=
  match r with
  | IOp _ | ITri _ _ _ => true
  | IIter _ _ => false
  | IProd ms | IKron ms => forallb direct ms
  | IBDiag ms => forallb (fun mc => direct (fst mc)) ms
  end.

(* triangular solve by substitution (executable reference for [tinv_o]): rows of the inverse of the lower triangle of T *)
Fixpoint fsub_rows (T : fm) (n k : nat) : list (list R) :=
  match k with
  | O => []
  | S k' => let prev := fsub_rows T n k' in
            prev ++ [map (fun c => (delta k' c - sum k' (fun j => T k' j * getl prev j c)) / T k' k') (seq 0 n)]
  end.
Definition tsolve (n : nat) (T : fm) (lower : bool) : fm :=
  if lower then let l := fsub_rows T n n in fun i j => getl l i j
  else let l := fsub_rows (fun i j => T (n - 1 - i)%nat (n - 1 - j)%nat) n n in fun i j => getl l (n - 1 - i)%nat (n - 1 - j)%nat.
End Inv.
