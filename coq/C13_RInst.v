(* C13: the law bundle [arn_laws] is satisfiable - real scalars (Coq's R), vectors R^2 with the Euclidean inner
   product.  (Only this file uses the standard library's axioms of the real numbers.) *)
From Coq Require Import List Reals Lra Field.
From Core Require Import C12_Ops C13_Model C13_Proofs C13_Summary.
Local Open Scope R_scope.

Definition ROps : ops R :=
  {| o0 := 0; o1 := 1; oadd := Rplus; osub := Rminus; omul := Rmult; odiv := Rdiv; oopp := Ropp; oconj := fun x => x;
     osqrt := sqrt; oabs := Rabs; oltb := fun a b => if Rlt_dec a b then true else false; osmall := / 10 ^ 40; ozero := / 10 ^ 40; osafe := 1 |}.
Definition R2 := (R * R)%type.
Definition r2ops : vops R R2 :=
  {| vadd := fun u v => (fst u + fst v, snd u + snd v); vsub := fun u v => (fst u - fst v, snd u - snd v);
     vscale := fun a v => (a * fst v, a * snd v); vdivs := fun v a => (fst v / a, snd v / a);
     vdot := fun u v => fst u * fst v + snd u * snd v |}.

Lemma R_field_div : field_theory 0 1 Rplus Rmult Rminus Ropp Rdiv (fun x => 1 / x) eq.
Proof.
  constructor.
  - exact RTheory.
  - exact R1_neq_R0.
  - intros p q. unfold Rdiv. ring.
  - intros p Hp. field. exact Hp.
Qed.

Example arn_laws_R : arn_laws ROps r2ops.
Proof.
  constructor; cbn.
  - exact R_field_div.
  - reflexivity.
  - reflexivity.
  - reflexivity.
  - reflexivity.
  - intros u v w. ring.
  - intros u v w. ring.
  - intros u a v. ring.
  - intros u v a. unfold Rdiv. ring.
  - intros u v. ring.
  - intros [a b]. unfold vnrm. cbn. apply sqrt_sqrt. nra.
  - reflexivity.
Qed.
