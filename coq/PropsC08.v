(* Property C08: exact diag / trace return the true (off-)diagonal and trace. *)
From Coq Require Import ZArith List Arith Bool.
From Core Require Import Base Kron Op OpProofs C08_Diag C08_Rules.
Import ListNotations.
Example C08_placeholder : ragged 100 101 1 = true.
Proof. exact eq_refl. Qed.
Print Assumptions C08_placeholder.
