(* Property C08: exact diag / trace return the true (off-)diagonal and trace.
   Only statements closed by [exact]; models in C08_Diag.v (exact_diag / get_I_chunk_like), C08_Rules.v (Auto, structural
   rules, trace), Op.v; lemmas in C08_Proofs.v, C08_RulesProofs.v; witnesses in C08_Refute.v.
   R ranges over every commutative ring with involution; B is the block size constant (100 in the source). *)
From Coq Require Import ZArith List Arith Bool.
From Core Require Import Base Kron Op OpProofs ZIInst C08_Diag C08_Proofs C08_Rules C08_RulesProofs C08_Refute.
Import ListNotations.

(* 1. the generic exact algorithm: for ALL sizes n, block sizes B and offsets k, when it returns it returns the k-th
      diagonal of the represented matrix, of length n - |k| ... *)
Theorem C08_exact_diag_correct : forall (R : Type) (RR : Ring R) (CR : CRing R) fx (e : op (R:=R)) B n k d,
  wf e = true -> shape e = (n, n) -> (1 <= B)%nat -> (1 <= n)%nat ->
  exact_diag fx B n (fun _ X => matmat e X) k = Some d ->
  d = true_diag n n (den e) k /\ length d = (n - Z.to_nat (Z.abs k))%nat.
Proof. intros R RR CR. exact exact_diag_correct. Qed.
Print Assumptions C08_exact_diag_correct.
(* ... it raises exactly on the ragged inputs (more than one block, last block of r = n mod B columns, k < 0 and r >= 2,
      or 0 < k < B - r), and returns the true diagonal on all others *)
Theorem C08_exact_diag_raises_iff_ragged : forall (R : Type) (RR : Ring R) (CR : CRing R) (e : op (R:=R)) B n k,
  wf e = true -> shape e = (n, n) -> (1 <= B)%nat -> (1 <= n)%nat ->
  (exact_diag false B n (fun _ X => matmat e X) k = None <-> ragged B n k = true).
Proof. intros R RR CR. exact exact_diag_none_iff. Qed.
Print Assumptions C08_exact_diag_raises_iff_ragged.
Theorem C08_exact_diag_total : forall (R : Type) (RR : Ring R) (CR : CRing R) (e : op (R:=R)) B n k,
  wf e = true -> shape e = (n, n) -> (1 <= B)%nat -> (1 <= n)%nat ->
  ragged B n k = false -> exact_diag false B n (fun _ X => matmat e X) k = Some (true_diag n n (den e) k).
Proof. intros R RR CR. exact exact_diag_total. Qed.
Print Assumptions C08_exact_diag_total.
(* the repaired code (shifted chunk cut to the width of the chunk) returns the true diagonal for every n, B, k *)
Theorem C08_exact_diag_fixed_total : forall (R : Type) (RR : Ring R) (CR : CRing R) (e : op (R:=R)) B n k,
  wf e = true -> shape e = (n, n) -> (1 <= B)%nat -> (1 <= n)%nat ->
  exact_diag true B n (fun _ X => matmat e X) k = Some (true_diag n n (den e) k).
Proof. intros R RR CR. exact exact_diag_fixed_total. Qed.
Print Assumptions C08_exact_diag_fixed_total.
Theorem C08_never_ragged : forall B n k, (n <= B)%nat \/ (n mod B = 0)%nat \/ k = 0%Z -> ragged B n k = false.
Proof. exact ragged_false_cases. Qed.
Print Assumptions C08_never_ragged.
(* the same over an arbitrary product oracle that returns columns of M on identity columns (dense matrix, index level) *)
Theorem C08_exact_diag_cases : forall (R : Type) (RR : Ring R) fx B n k (M : fm (R:=R)) mul,
  col_oracle n M mul -> (1 <= B)%nat -> (1 <= n)%nat ->
  exact_diag fx B n mul k = if (negb fx && ragged B n k)%bool then None else Some (true_diag n n M k).
Proof. intros R RR. exact exact_diag_cases. Qed.
Print Assumptions C08_exact_diag_cases.

(* 2. diag(A, k, alg) as dispatched by kind (Dense, Identity, Diagonal, ScalarMul, Sum, BlockDiag with multiplicities,
      Kronecker and KronSum with any number of factors, generic operators through exact_diag; Exact or Auto), any
      nesting: whenever a value is returned it is the k-th diagonal of the represented matrix - a rule agrees or
      refuses.  dwf: well-formed generic parts, square blocks/factors - the latter not needed for the repaired rules
      (df: flags of the pinned / repaired tree), which refuse non-square blocks/factors themselves. *)
Theorem C08_diag_rule_agrees : forall (R : Type) (RR : Ring R) (CR : CRing R) df B al, (1 <= B)%nat ->
  forall (e : op (R:=R)) k d, dwf df e = true -> diag_rule df B al e k = inr d ->
  d = true_diag (fst (shape e)) (snd (shape e)) (den e) k.
Proof. intros R RR CR. exact diag_rule_agrees. Qed.
Print Assumptions C08_diag_rule_agrees.
Theorem C08_generic_diag_cases : forall (R : Type) (RR : Ring R) (CR : CRing R) df B al (e : op (R:=R)) n k,
  (1 <= B)%nat -> (1 <= n)%nat -> wf e = true -> shape e = (n, n) ->
  generic_diag df B al e k = generic_outcome df B n al k (true_diag n n (den e) k).
Proof. intros R RR CR. exact generic_diag_cases. Qed.
Print Assumptions C08_generic_diag_cases.

(* 3. trace: generic (sum of the main diagonal) and Kronecker (product of the factors' traces) *)
Theorem C08_trace_correct : forall (R : Type) (RR : Ring R) (CR : CRing R) df B al, (1 <= B)%nat ->
  forall (e : op (R:=R)) t, tdwf df e = true -> trace_rule df B al e = inr t -> t = true_trace (fst (shape e)) (den e).
Proof. intros R RR CR. exact trace_correct. Qed.
Print Assumptions C08_trace_correct.

(* 4. Auto: with the default tolerance 10^-6 the exact algorithm is selected exactly when m*n < 10^11 *)
Theorem C08_auto_exact_below : forall m n, auto_exact 1 1000000 m n = true <-> (Z.of_nat m * Z.of_nat n < 100000000000)%Z.
Proof. exact auto_exact_below. Qed.
Print Assumptions C08_auto_exact_below.

(* 5. what the faithful model of the pinned tree violates *)
Theorem C08_exact_diag_ragged_chunk_refuted : forall (e : zop), wf e = true -> shape e = (101, 101)%nat ->
  exact_diag false 100 101 (fun _ X => matmat e X) 1 = None /\ exact_diag false 100 101 (fun _ X => matmat e X) (-2) = Some (true_diag 101 101 (den e) (-2))
  /\ exact_diag true 100 101 (fun _ X => matmat e X) 1 = Some (true_diag 101 101 (den e) 1).
Proof. exact exact_diag_ragged_chunk_refuted. Qed.
Print Assumptions C08_exact_diag_ragged_chunk_refuted.
Theorem C08_ragged_on_diag_rule : exists (e : zop), dwf dpinned e = true /\ shape e = (101, 101)%nat /\ diag_rule dpinned 100 AExact e 1 = inl DValue.
Proof. exact exact_diag_ragged_on_diag_rule. Qed.
Print Assumptions C08_ragged_on_diag_rule.
Theorem C08_kron_diag_nonsquare_refuted : exists (e : zop) d, wf e = true /\ shape e = (6, 6)%nat /\ diag_rule dpinned 100 AExact e 0 = inr d
  /\ length d = 4%nat /\ length (true_diag 6 6 (den e) 0) = 6%nat /\ diag_rule drepaired 100 AExact e 0 = inl DAssert.
Proof. exact kron_diag_nonsquare_refuted. Qed.
Print Assumptions C08_kron_diag_nonsquare_refuted.
Theorem C08_blockdiag_diag_nonsquare_refuted : exists (e : zop) d, wf e = true /\ shape e = (5, 5)%nat /\ diag_rule dpinned 100 AExact e 0 = inr d
  /\ length d = 4%nat /\ length (true_diag 5 5 (den e) 0) = 5%nat /\ diag_rule drepaired 100 AExact e 0 = inl DAssert.
Proof. exact blockdiag_diag_nonsquare_refuted. Qed.
Print Assumptions C08_blockdiag_diag_nonsquare_refuted.

(* the hypotheses are satisfiable on a nested tree with every structural kind and a generic part *)
Example C08_example : dwf dpinned Ex = true /\ dwf drepaired Ex = true /\ shape Ex = (4, 4)%nat.
Proof. exact ex_dwf. Qed.
Print Assumptions C08_example.
