(* C07 - model of what trace(f(A), Exact) reads from LanczosUnary._matmat / ArnoldiUnary._matmat
   (cola/linalg/unary/unary.py): for every column e_i of the identity the Krylov factorisation (Q_i, T_i or H_i), the
   eigen-decomposition (w_i, P_i) of the projected matrix, the values f(w_i) and the coefficient vector c_i
   (conj(P_i)[0,:] * |e_i| for Lanczos, P_i^{-1} e_0 * |e_i| for Arnoldi) are ORACLE data; the code's own rule is
        f_eigvals = where(|w| > 10 * eps * max|w|, f(w), 0)          (spurious Ritz values of the zero padding)
        out_i     = Q_i P_i (f_eigvals * c_i)
   and trace(f(A)) = sum_i out_i[i].  The cut-off depends on the dtype's eps ONLY (not on the algorithm's tol).
   Executed at the Gaussian rationals; |w| is compared through squares (exact). *)
From Coq Require Import Arith Lia List QArith Qcanon ZArith PeanoNat Bool.
From Core Require Import Base FieldBase C07_Exec.
Import ListNotations.

Definition qdot (a b : list qi) : qi := fold_right (fun p acc => qiadd (qimul (fst p) (snd p)) acc) qi0 (combine a b).
Definition maxn2 (w : list qi) : Qc := fold_right (fun x acc => if qcleb acc (qinorm2 x) then qinorm2 x else acc) 0%Qc w.
(* where(|w| > eps10 * max|w|, fw, 0) *)
Definition mask_f (eps10 : Qc) (w fw : list qi) : list qi :=
  let thr2 := (eps10 * eps10 * maxn2 w)%Qc in
  map (fun p => if qcltb thr2 (qinorm2 (fst p)) then snd p else qi0) (combine w fw).
Record ucol := mkucol { u_Q : list (list qi); u_P : list (list qi); u_w : list qi; u_fw : list qi; u_c : list qi }.
(* (Q P g)_i *)
Definition col_entry (i : nat) (c : ucol) (g : list qi) : qi :=
  qdot (nth i (u_Q c) []) (map (fun row => qdot row g) (u_P c)).
Definition vmul2 (a b : list qi) : list qi := map (fun p => qimul (fst p) (snd p)) (combine a b).
Fixpoint utrace_from (eps10 : Qc) (i : nat) (cols : list ucol) : qi :=
  match cols with
  | [] => qi0
  | c :: r => qiadd (col_entry i c (vmul2 (mask_f eps10 (u_w c) (u_fw c)) (u_c c))) (utrace_from eps10 (S i) r)
  end.
Definition utrace (eps10 : Qc) (cols : list ucol) : qi := utrace_from eps10 0 cols.
(* apply_unary(f, Transpose(B)) = Transpose(f(B)),  apply_unary(f, Adjoint(B)) = Adjoint(f(B))  (unary.py), and the trace of a
   Transpose is the trace, the trace of an Adjoint its conjugate: uc_adj = the operator is B behind an odd number of Adjoint wrappers,
   the oracle data are those of the innermost operator B *)
Record ucase := mkucase { uc_eps10 : Qc; uc_adj : bool; uc_cols : list ucol; uc_t : qi; uc_tol : Qc }.
Definition ucheck (c : ucase) : bool :=
  let t0 := utrace (uc_eps10 c) (uc_cols c) in
  let t := if uc_adj c then qiconj t0 else t0 in
  let sc := (if qcleb 1 (qinorm2 (uc_t c)) then qinorm2 (uc_t c) else 1)%Qc in
  qcleb (qinorm2 (qisub t (uc_t c))) (uc_tol c * uc_tol c * sc)%Qc.
(* nothing is dropped when every Ritz value is above the cut-off *)
Lemma mask_f_keeps eps10 w fw : length w = length fw ->
  forallb (fun x => qcltb (eps10 * eps10 * maxn2 w)%Qc (qinorm2 x)) w = true -> mask_f eps10 w fw = fw.
Proof. unfold mask_f. generalize (eps10 * eps10 * maxn2 w)%Qc as thr. intros thr. revert fw.
  induction w as [|x w IH]; intros [|y fw] Hl H; cbn [combine map] in *; try discriminate; [reflexivity|].
  cbn [forallb] in H. apply andb_prop in H as [H1 H2]. cbn [fst snd]. rewrite H1. f_equal. apply IH; [injection Hl; auto|exact H2]. Qed.
