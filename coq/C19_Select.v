(* C19 (a): for structured operators the rule that finally runs is the kind's structural rule.
   Reuses the C04 resolver and the table regenerated from the live registry.  Hand-written here: which generic rules
   merely FORWARD to another dispatched function (cola/linalg/unary/unary.py:228-334, trace/diag_trace.py:139-142) and
   the committed exceptions (= the C19 selection flags). *)
From Coq Require Import List ZArith NArith PArith Bool String.
From Core Require Import C04_Resolver C04_RuleTable C04_Proofs.
Import ListNotations.
Local Open Scope string_scope.

Definition spec_of (f : string) : option fspec := find (fun fs => String.eqb (fname fs) f) specs_full.

(* value of an optional argument as the selected method's body sees it (default if omitted) *)
Definition val (a : aform) (d : positive) : positive := match a with Pos r => r | Kw r => r | Omit => d end.

(* generic rules that only forward:  exp/log(A, alg) -> apply_unary(f, A, alg);  sqrt/isqrt(A, alg) -> pow(A, +-0.5, alg);
   pow(A, alpha, alg) -> apply_unary(x**alpha, A, alg) (non-integer alpha);  trace(A, alg) -> diag(A, 0, alg).
   All pass the algorithm positionally. *)
Definition forward (f : string) (req : list positive) (opt : list aform) : option (string * list positive * list aform) :=
  if (String.eqb f "exp" || String.eqb f "log")%bool then
    match req, opt with [A], [a] => Some ("apply_unary", [r_callable; A], [Pos (val a r_Auto)]) | _, _ => None end
  else if (String.eqb f "sqrt" || String.eqb f "isqrt")%bool then
    match req, opt with [A], [a] => Some ("pow", [A; r_pyfloat], [Pos (val a r_Auto)]) | _, _ => None end
  else if String.eqb f "pow" then
    match req, opt with [A; _], [a] => Some ("apply_unary", [r_callable; A], [Pos (val a r_Auto)]) | _, _ => None end
  else if String.eqb f "trace" then
    match req, opt with [A], [a] => Some ("diag", [A], [Pos r_pyint0; Pos (val a r_Auto)]) | _, _ => None end
  else None.

(* a rule is matrix-free for its operator argument when it is typed on a proper operator class (not LinearOperator /
   Any) or guarded by an annotation condition (inv of a declared-Unitary operator returns A.H) *)
Definition hint_at (pos : nat) (r : rule) : N := nth pos (rsig r) t_linop.
Definition class_typed (pos : nat) (r : rule) : bool :=
  negb (N.eqb (hint_at pos r) t_linop) && negb (N.eqb (hint_at pos r) t_any).
Definition is_struct (pos : nat) (r : rule) : bool :=
  class_typed pos r || match rcond r with Some _ => true | None => false end.
(* the table has a class-typed rule that accepts this operator (class and condition), whatever the other arguments *)
Definition has_struct (fs : fspec) (pos : nat) (A : positive) : bool :=
  existsb (fun r => class_typed pos r && bearable bear_row A (hint_at pos r)
                    && match rcond r with
                       | Some (p, m) => if Nat.eqb p pos then N.testbit m (Npos A) else true
                       | None => true
                       end) (frules fs).

Inductive outcome := Structural | Generic | NonUnique.

(* follow the selected rule through the forwarding generic rules; second component: some table on the way has a
   structural rule for this operator (the call is in the scope of the C19 statement) *)
Fixpoint final (fuel : nat) (f : string) (req : list positive) (opt : list aform) : outcome * bool :=
  match fuel with
  | O => (NonUnique, false)
  | S k =>
    match spec_of f with
    | None => (NonUnique, false)
    | Some fs =>
      let pos := oppos f in
      let scope := has_struct fs pos (nth pos req xH) in
      match select fs req opt with
      | Unique i =>
        match nth_error (frules fs) i with
        | Some r =>
          if is_struct pos r then (Structural, scope)
          else match forward f req opt with
               | Some (g, req', opt') => let (o, sc) := final k g req' opt' in (o, scope || sc)
               | None => (Generic, scope)
               end
        | None => (NonUnique, scope)
        end
      | _ => (NonUnique, scope)
      end
    end
  end.

(* the chain of (function, selected rule index) that `final` follows -- the observable the correspondence compares with
   the dispatches traced on the real code *)
Fixpoint chain (fuel : nat) (f : string) (req : list positive) (opt : list aform) : list (string * N) :=
  match fuel with
  | O => []
  | S k =>
    match spec_of f with
    | None => []
    | Some fs =>
      match select fs req opt with
      | Unique i =>
        (f, 2 + N.of_nat i)%N ::
        match nth_error (frules fs) i with
        | Some r => if is_struct (oppos f) r then []
                    else match forward f req opt with Some (g, req', opt') => chain k g req' opt' | None => [] end
        | None => []
        end
      | Ambiguous => [(f, 1%N)]
      | NotFound => [(f, 0%N)]
      end
    end
  end.

(* ---- committed exceptions = the selection flags of C19 (DESIGN.md section 5, C19) ---- *)
Definition cls (A : positive) : string := class_name (rep_class A).
Definition alg_positional (opt : list aform) : bool := match last opt Omit with Pos _ => true | _ => false end.
Definition alg_value (opt : list aform) : positive := val (last opt Omit) r_Auto.

(* exp_kronsum_requires_alg: exp(KronSum, alg) is registered with an explicit positional algorithm only *)
Definition exc_exp_kronsum (f : string) (req : list positive) (opt : list aform) : bool :=
  String.eqb f "exp" && String.eqb (cls (nth 0 req xH)) "KronSum" && negb (alg_positional opt).
(* pow_kron_requires_alg: the same for pow(Kronecker, alpha, alg) *)
Definition exc_pow_kron (f : string) (req : list positive) (opt : list aform) : bool :=
  String.eqb f "pow" && String.eqb (cls (nth 0 req xH)) "Kronecker" && negb (alg_positional opt).
(* inv_gmres_ambiguous: inv(k, GMRES()) ties with the GMRES base case (C04 known list) *)
Definition exc_inv_gmres (f : string) (req : list positive) (opt : list aform) : bool :=
  String.eqb f "inv" && Pos.eqb (alg_value opt) r_GMRES.

Definition c19_functions : list string :=
  ["inv"; "slogdet"; "diag"; "trace"; "exp"; "log"; "sqrt"; "isqrt"; "pow"; "cholesky"; "plu"].

(* the C19 lattice of one function: the C04 lattice with the operator restricted to the structured kinds *)
Fixpoint set_nth {A} (n : nat) (x : A) (l : list A) : list A :=
  match n, l with O, _ :: l' => x :: l' | S n', y :: l' => y :: set_nth n' x l' | _, [] => [] end.
Definition restrict (fs : fspec) : fspec :=
  mkspec (fname fs) (frules fs) (fabs fs) (set_nth (oppos (fname fs)) ops_structured (freq fs)) (fopt fs).

Definition c19_ok (excs : list (string -> list positive -> list aform -> bool)) (f : string) (c : list positive * list aform) : bool :=
  let (o, scope) := final 4 f (fst c) (snd c) in
  if scope then
    match o with
    | Structural => true
    | Generic => existsb (fun e => e f (fst c) (snd c)) (firstn 2 excs)
    | NonUnique => existsb (fun e => e f (fst c) (snd c)) (skipn 2 excs)
    end
  else true.

Definition c19_sweep excs : bool :=
  forallb (fun f => match spec_of f with
                    | Some fs => forallb (c19_ok excs f) (calls (restrict fs))
                    | None => false
                    end) c19_functions.

Definition all_exceptions := [exc_exp_kronsum; exc_pow_kron; exc_inv_gmres].

Lemma c19_sweep_sound : forall excs, c19_sweep excs = true ->
  forall f fs, In f c19_functions -> spec_of f = Some fs ->
  forall c, In c (calls (restrict fs)) -> c19_ok excs f c = true.
Proof.
  intros excs H f fs Hf Hs c Hc. unfold c19_sweep in H. rewrite forallb_forall in H.
  specialize (H f Hf). rewrite Hs in H. rewrite forallb_forall in H. exact (H c Hc).
Qed.

Lemma c19_ok_spec : forall e1 e2 e3 f req opt, c19_ok [e1; e2; e3] f (req, opt) = true ->
  let (o, scope) := final 4 f req opt in
  scope = true ->
    o = Structural \/ (o = Generic /\ (e1 f req opt || e2 f req opt = true)) \/ (o = NonUnique /\ e3 f req opt = true).
Proof.
  intros e1 e2 e3 f req opt H. unfold c19_ok in H. cbn [fst snd] in H.
  destruct (final 4 f req opt) as (o, scope). intros ->.
  destruct o.
  - now left.
  - right; left. split; [reflexivity|]. cbn [firstn existsb] in H. now rewrite orb_false_r in H.
  - right; right. split; [reflexivity|]. cbn [skipn existsb] in H. now rewrite orb_false_r in H.
Qed.

Lemma c19_sweep_true : c19_sweep all_exceptions = true.
Proof. vm_compute. reflexivity. Qed.

(* for every structured kind (all declared-annotation variants), every C19 function with a structural rule for it and
   every admissible way of passing the algorithm (positional / keyword / omitted), the rule that finally runs is
   structural -- except the three committed flags *)
Theorem structural_rule_selected_modulo_flags :
  forall f fs, In f c19_functions -> spec_of f = Some fs ->
  forall req opt, admissible (restrict fs) req opt ->
    let (o, scope) := final 4 f req opt in
    scope = true ->
      o = Structural
      \/ (o = Generic /\ (exc_exp_kronsum f req opt || exc_pow_kron f req opt = true))
      \/ (o = NonUnique /\ exc_inv_gmres f req opt = true).
Proof.
  intros f fs Hf Hs req opt Hadm.
  apply c19_ok_spec.
  exact (c19_sweep_sound all_exceptions c19_sweep_true f fs Hf Hs (req, opt)
           (proj2 (lattice_complete (restrict fs) req opt) Hadm)).
Qed.

(* the statement without the flags, for the record: false on the pinned tree, see the refutations in PropsC19.v *)
Definition C19_selection_full : Prop :=
  forall f fs, In f c19_functions -> spec_of f = Some fs ->
  forall req opt, admissible (restrict fs) req opt ->
    snd (final 4 f req opt) = true -> fst (final 4 f req opt) = Structural.

(* how many calls are in scope / structural / excepted (coverage numbers printed by the check) *)
Definition c19_counts : list (string * N * N * N) :=
  map (fun f => match spec_of f with
                | Some fs =>
                  let cs := calls (restrict fs) in
                  let rs := map (fun c => final 4 f (fst c) (snd c)) cs in
                  (f, N.of_nat (List.length cs),
                   N.of_nat (List.length (filter (fun r => snd r) rs)),
                   N.of_nat (List.length (filter (fun r => snd r && match fst r with Structural => true | _ => false end) rs)))
                | None => (f, 0, 0, 0)%N
                end) c19_functions.

(* ---- which (function, class) pairs the statement of C19 says HAVE a structural rule (property text: inv, solve,
   logdet, diag, trace, matrix functions, cholesky, plu on Kronecker, block-diagonal, diagonal, identity and scalar
   operators and their products; exp on Kronecker sums).  Hand-written expectation; the sweep shows that the
   regenerated table still provides them, so deleting a structural rule breaks this proof instead of silently
   shrinking the scope of structural_rule_selected. ---- *)
Definition expected_structural : list (string * list string) :=
  [("inv",      ["Kronecker"; "BlockDiag"; "Diagonal"; "Identity"; "ScalarMul"; "Product"; "Permutation"]);
   ("slogdet",  ["Kronecker"; "BlockDiag"; "Diagonal"; "Identity"; "ScalarMul"; "Product"; "Permutation"]);
   ("diag",     ["Kronecker"; "KronSum"; "BlockDiag"; "Diagonal"; "Identity"; "ScalarMul"; "Sum"]);
   ("trace",    ["Kronecker"; "KronSum"; "BlockDiag"; "Diagonal"; "Identity"; "ScalarMul"; "Sum"]);
   ("exp",      ["KronSum"; "BlockDiag"; "Diagonal"; "Identity"; "ScalarMul"]);
   ("log",      ["BlockDiag"; "Diagonal"; "Identity"; "ScalarMul"]);
   ("sqrt",     ["Kronecker"; "BlockDiag"; "Diagonal"; "Identity"; "ScalarMul"]);
   ("isqrt",    ["Kronecker"; "BlockDiag"; "Diagonal"; "Identity"; "ScalarMul"]);
   ("pow",      ["Kronecker"; "BlockDiag"; "Diagonal"; "Identity"; "ScalarMul"]);
   ("cholesky", ["Kronecker"; "BlockDiag"; "Diagonal"; "Identity"; "ScalarMul"]);
   ("plu",      ["Kronecker"; "BlockDiag"; "Diagonal"; "Identity"; "ScalarMul"])].

Definition expected_for (f : string) : list string :=
  match find (fun p => String.eqb (fst p) f) expected_structural with Some p => snd p | None => [] end.

Definition expected_ok (f : string) (c : list positive * list aform) : bool :=
  let A := nth (oppos f) (fst c) xH in
  if existsb (Pos.eqb A) ops_structured_square && existsb (String.eqb (cls A)) (expected_for f)
  then snd (final 4 f (fst c) (snd c)) else true.

Definition expected_sweep_on (fl : list string) : bool :=
  forallb (fun f => match spec_of f with
                    | Some fs => forallb (expected_ok f) (calls (restrict fs))
                    | None => false
                    end) fl.

Lemma expected_sweep_sound : forall fl, expected_sweep_on fl = true ->
  forall f fs, In f fl -> spec_of f = Some fs ->
  forall c, In c (calls (restrict fs)) -> expected_ok f c = true.
Proof.
  intros fl H f fs Hf Hs c Hc. unfold expected_sweep_on in H. rewrite forallb_forall in H.
  specialize (H f Hf). rewrite Hs in H. rewrite forallb_forall in H. exact (H c Hc).
Qed.

Lemma expected_ok_spec : forall f req opt, expected_ok f (req, opt) = true ->
  In (nth (oppos f) req xH) ops_structured_square ->
  In (cls (nth (oppos f) req xH)) (expected_for f) ->
  snd (final 4 f req opt) = true.
Proof.
  intros f req opt H HA Hc. unfold expected_ok in H. cbn [fst snd] in H.
  assert (E1 : existsb (Pos.eqb (nth (oppos f) req xH)) ops_structured_square = true).
  { apply existsb_exists. exists (nth (oppos f) req xH). split; [exact HA | apply Pos.eqb_refl]. }
  assert (E2 : existsb (String.eqb (cls (nth (oppos f) req xH))) (expected_for f) = true).
  { apply existsb_exists. exists (cls (nth (oppos f) req xH)). split; [exact Hc | apply String.eqb_refl]. }
  rewrite E1, E2 in H. exact H.
Qed.

Lemma expected_sweep_true : expected_sweep_on c19_functions = true.
Proof. vm_compute. reflexivity. Qed.

Theorem expected_structural_rules_exist :
  forall f fs, In f c19_functions -> spec_of f = Some fs ->
  forall req opt, admissible (restrict fs) req opt ->
    In (nth (oppos f) req xH) ops_structured_square ->
    In (cls (nth (oppos f) req xH)) (expected_for f) ->
    snd (final 4 f req opt) = true.
Proof.
  intros f fs Hf Hs req opt Hadm. apply expected_ok_spec.
  exact (expected_sweep_sound c19_functions expected_sweep_true f fs Hf Hs (req, opt)
           (proj2 (lattice_complete (restrict fs) req opt) Hadm)).
Qed.

(* ------------------------------------------------------------------------------------------------------------
   Frozen witnesses of the two "requires an explicit algorithm" flags on the pinned tree (hand-copied fragments,
   independent of the regenerated table): unary.py:228-246 registers
       exp(A: LinearOperator, alg: Algorithm = Auto())   -> signatures (LinearOperator, Algorithm) and (LinearOperator)
       exp(A: KronSum, alg: Algorithm)                   -> signature  (KronSum, Algorithm) only
   hints: 0 LinearOperator, 1 Algorithm, 2 KronSum; reps: 1 a KronSum operator, 2 an Auto() object. *)
Definition pin19_le (a : N) : N := match a with 0 => 0x1 | 1 => 0x2 | 2 => 0x5 | _ => 0 end%N.
Definition pin19_bear (r : positive) : N := match r with 1%positive => 0x5%N | 2%positive => 0x2%N | _ => 0%N end.
Definition pin19_exp_raw : list rawrule := [mkraw [0;1]%N 0 None 1; mkraw [2;1]%N 0 None 0].
Definition pin19_exp : list rule := expand pin19_exp_raw.
(* the repair: give the structural rule the same default *)
Definition pin19_exp_fixed : list rule := expand [mkraw [0;1]%N 0 None 1; mkraw [2;1]%N 0 None 1].

(* with the algorithm passed positionally the KronSum rule (index 2) is selected; with it omitted (or passed by
   keyword, which plum does not dispatch on) the generic one-argument signature (index 1) is *)
Theorem pinned_exp_kronsum_refuted :
  resolve pin19_le pin19_bear pin19_exp (dargs None [1%positive] [Pos 2%positive]) = Unique 2 /\
  resolve pin19_le pin19_bear pin19_exp (dargs None [1%positive] [Omit]) = Unique 1 /\
  resolve pin19_le pin19_bear pin19_exp (dargs None [1%positive] [Kw 2%positive]) = Unique 1.
Proof. vm_compute. repeat split. Qed.

Theorem pinned_exp_kronsum_repaired :
  resolve pin19_le pin19_bear pin19_exp_fixed (dargs None [1%positive] [Pos 2%positive]) = Unique 2 /\
  resolve pin19_le pin19_bear pin19_exp_fixed (dargs None [1%positive] [Omit]) = Unique 3 /\
  resolve pin19_le pin19_bear pin19_exp_fixed (dargs None [1%positive] [Kw 2%positive]) = Unique 3.
Proof. vm_compute. repeat split. Qed.
