(* C17 - the link between the two models: the value returned by the Hutchinson call site of C17_Rng.v (a keyed program
   over the generator) is the estimator loop of C17_Hutch.v run on the probe blocks of the key chain
   key_1 = next_key(key or PRNGKey(42)), key_{t+1} = next_key(key_t);  block t = reshape(randn(n*bs, key=key_{t+1})). *)
From Coq Require Import List Arith Bool Lia ZArith.
From Core Require Import C17_Rng C17_Hutch.
Import ListNotations.

Section Link.
Variable St : Type.
Variable T : Type.                      (* scalars = drawn numbers *)
Variable seed_st : Z -> St.
Variable stream : St -> nat -> list T * St.
Variable sha : Z -> Z.
Variable zero : T. Variables add mul : T -> T -> T.
Variable n bs : nat. Variable k : Z. Variable A : mat T.
Variable cont : state T -> bool. Variable max_iters : nat.
Variable sgn : T -> T.                  (* identity for rand='normal', sign for rand='rademacher' *)

(* randn(n, bs) fills row-major *)
Definition reshape (z : list T) : mat T := fun j b => sgn (nth (j * bs + b) z zero).
Fixpoint chain (key : Z) (t : nat) : Z := match t with O => key | S m => sha (chain key m) end.
Definition key_probe (key0 : Z) : nat -> mat T := fun t => reshape (keyed_values St T seed_st stream (chain key0 (S t)) (n * bs)).

Definition cnd := cond T cont max_iters.
Definition stp (st : state T) (z : list T) : state T := body T zero add mul n bs k A st (reshape z).

Lemma pure_loop_is_loop key0 fuel : forall st,
  pure_loop St T seed_st stream sha cnd stp (n * bs) fuel (chain key0 (it st)) st
  = loop T zero add mul n bs k A cont max_iters (key_probe key0) fuel st.
Proof. induction fuel as [|f IH]; intros st; cbn [pure_loop loop]; [reflexivity|].
  unfold cnd at 1. destruct (cond T cont max_iters st); [|reflexivity].
  unfold next_key. change (sha (chain key0 (it st))) with (chain key0 (S (it st))).
  unfold stp at 2. fold (key_probe key0 (it st)).
  specialize (IH (body T zero add mul n bs k A st (key_probe key0 (it st)))). cbn [body it] in IH. exact IH. Qed.

(* the call: returns fin(final state), leaves the generator as found *)
Theorem hutch_call_is_model : forall (Out : Type) (fin : state T -> Out) (key : option Z) (g : St),
  run St T seed_st stream sha (hutch_site T Out sha cnd stp (n * bs) max_iters key (st0 T zero) fin) g
  = (fin (hutch T zero add mul n bs k A cont max_iters (key_probe (dflt42 sha key))), g).
Proof. intros Out fin key g.
  rewrite (run_keyed St T seed_st stream sha _ (hutch_site_keyed T Out sha cnd stp (n * bs) max_iters key (st0 T zero) fin)).
  rewrite hutch_site_value. unfold hutch.
  pose proof (pure_loop_is_loop (dflt42 sha key) (S max_iters) (st0 T zero)) as H. cbn [st0 it chain] in H. rewrite H. reflexivity. Qed.
End Link.

(* mean form of the exactness theorem: whatever `x / count` is, as long as it inverts repeated addition (true in every
   field of characteristic 0, and of binary64 division on the integer sums of the exact tier), the returned mean of a
   diagonal operator under probes with entries of square one is its diagonal - for every probe matrix *)
Section MeanForm.
Context {R : Type} {RR : Base.Ring R}.
Variable divn : R -> nat -> R.
Hypothesis divn_spec : forall m x, 0 < m -> divn (nmul m x) m = x.
Theorem hutch_exact_mean : forall (n bs : nat) (A : nat -> nat -> R) (probe : nat -> nat -> nat -> R),
  (forall i j, i < n -> j < n -> i <> j -> A i j = Base.r0) ->
  (forall t j b, j < n -> b < bs -> Base.rmul (probe t j b) (probe t j b) = Base.r1) ->
  forall m i, i < n -> 0 < m * bs ->
  divn (dsum (blocks n bs 0%Z A probe m) i) (it (blocks n bs 0%Z A probe m) * bs) = A i i.
Proof. intros n bs A probe Hd Hp m i Hi Hm. rewrite blocks_it. rewrite (hutch_exact_sums n bs 0%Z A probe Hd Hp eq_refl m i Hi).
  apply divn_spec. exact Hm. Qed.
End MeanForm.

(* the hypothesis on the division is satisfiable: the integers with floor division *)
#[export] Instance ZRing17 : Base.Ring Z :=
  {| Base.r0 := 0%Z; Base.r1 := 1%Z; Base.radd := Z.add; Base.rmul := Z.mul; Base.rsub := Z.sub; Base.ropp := Z.opp; Base.Rth := InitialRing.Zth |}.
Lemma nmul_Z m x : nmul m x = (Z.of_nat m * x)%Z.
Proof. unfold nmul. induction m; cbn [Base.sum]; [reflexivity|]. rewrite IHm. cbn [Base.radd ZRing17]. lia. Qed.
Example divn_Z_ok : forall m x, 0 < m -> Z.div (nmul m x) (Z.of_nat m) = x.
Proof. intros m x Hm. rewrite nmul_Z. rewrite Z.mul_comm. apply Z.div_mul. lia. Qed.
