(* Property C11 - model of cola.linalg.decompositions.cholesky / plu (cola/linalg/decompositions/decompositions.py:147-211)
   on the operator AST of Op.v.  The rules: dense base case through the backend (an oracle), Identity, Diagonal | ScalarMul
   through the element-wise square root of cola.linalg.sqrt (an oracle), Kronecker factor-wise, BlockDiag factor-wise with the
   same multiplicities.  The result is a tree of the returned operator classes (Triangular with its `lower` flag). *)
From Coq Require Import Arith Lia List Ring ArithRing PeanoNat Bool.
From Core Require Import Base Kron Op Algebra.
Import ListNotations.
Section Decomp.
Context {R : Type} {RR : Ring R} {CR : CRing R}.
Open Scope R_scope.
Notation fm := (fm (R:=R)). Notation arr := (arr (R:=R)). Notation op := (op (R:=R)).

(* ---- oracles ---- *)
Variable chol_o : nat -> fm -> fm.                     (* numpy.linalg.cholesky *)
Variable lu_o : nat -> fm -> (nat -> nat) * fm * fm.   (* scipy.linalg.lu(a, p_indices=True): a = (L U)[p, :] *)
Variable sqrt_o : R -> R.                              (* x ** 0.5, element-wise *)
(* defect flag plu_diagonal_negative_nan (probed on the implementation on every run): true = the pinned tree's rule
   plu(Diagonal | ScalarMul) = (I, sqrt A, sqrt A); false = the repaired rule (I, I, A) *)
Variable plu_sqrt : bool.

(* the returned operators *)
Inductive dop :=
| DOp (e : op)                                 (* Identity, Diagonal, Permutation, c * Identity *)
| DTri (lower : bool) (n : nat) (T : fm)       (* Triangular(T, lower) *)
| DKron (ms : list dop)
| DBDiag (ms : list (dop * nat)).
Fixpoint dto_op (r : dop) : op :=
  match r with
  | DOp e => e
  | DTri _ n T => Dense (mkarr n n T)
  | DKron ms => Kron (map dto_op ms)
  | DBDiag ms => BDiag (map (fun mc => (dto_op (fst mc), snd mc)) ms)
  end.

(* A.to_dense() *)
Definition dense (e : op) : fm := dat (matmat e (mkarr (snd (shape e)) (snd (shape e)) eye)).
(* cola.linalg.sqrt(A) for A : Diagonal | ScalarMul  (pow(A, 0.5) -> apply_unary(x ** 0.5)):
   Diagonal(f(diag));  f(c) * I_like(A) = Product[ScalarMul(f(c)), Identity] *)
Definition sqrt_diag (n : nat) (d : nat -> R) : op := Diag n (fun i => sqrt_o (d i)).
Definition sqrt_scal (c : R) (n : nat) : op := mul (Ident n) (sqrt_o c).

Fixpoint chol (e : op) {struct e} : dop :=
  match e with
  | Ident n => DOp e
  | Diag n d => DOp (sqrt_diag n d)
  | Scal c n => DOp (sqrt_scal c n)
  | Kron ms => DKron (map chol ms)
  | BDiag ms => DBDiag (map (fun mc => (chol (fst mc), snd mc)) ms)
  | _ => let n := fst (shape e) in DTri true n (chol_o n (dense e))
  end.

Fixpoint plu (e : op) {struct e} : dop * dop * dop :=
  match e with
  | Ident n => (DOp e, DOp e, DOp e)
  | Diag n d => if plu_sqrt then (DOp (Ident n), DOp (sqrt_diag n d), DOp (sqrt_diag n d)) else (DOp (Ident n), DOp (Ident n), DOp e)
  | Scal c n => if plu_sqrt then (DOp (Ident n), DOp (sqrt_scal c n), DOp (sqrt_scal c n)) else (DOp (Ident n), DOp (Ident n), DOp e)
  | Kron ms => let l := map plu ms in
               (DKron (map (fun t => fst (fst t)) l), DKron (map (fun t => snd (fst t)) l), DKron (map (fun t => snd t) l))
  | BDiag ms => let l := map (fun mc => (plu (fst mc), snd mc)) ms in
                (DBDiag (map (fun t => (fst (fst (fst t)), snd t)) l), DBDiag (map (fun t => (snd (fst (fst t)), snd t)) l),
                 DBDiag (map (fun t => (snd (fst t), snd t)) l))
  | _ => let n := fst (shape e) in
         let '(p, L, U) := lu_o n (dense e) in (DOp (Perm n p), DTri true n L, DTri false n U)
  end.

(* class structure, for `structure_kept` and for the comparison with the implementation's result types *)
Inductive dty := DtOp (k : nat) | DtScalId | DtTri (lower : bool) | DtKron (l : list dty) | DtBDiag (l : list (dty * nat)).
Definition opcode (e : op) : nat :=
  match e with
  | Dense _ => 0 | Diag _ _ => 1 | Ident _ => 2 | Scal _ _ => 3 | Sum _ => 4 | Prod _ => 5 | Kron _ => 6 | BDiag _ => 7
  | Transp _ => 8 | Adj _ => 9 | Gen _ => 10 | Perm _ _ => 11 | Tridiag _ _ _ _ => 12 | House _ _ _ => 13 | Sparse _ _ _ => 14
  | KronSum _ => 15 | Sliced _ _ _ => 16 | ConcatV _ => 17 end%nat.
Fixpoint dtype (r : dop) : dty :=
  match r with
  | DOp (Prod [Scal _ _; Ident _]) => DtScalId
  | DOp e => DtOp (opcode e)
  | DTri lo _ _ => DtTri lo
  | DKron ms => DtKron (map dtype ms)
  | DBDiag ms => DtBDiag (map (fun mc => (dtype (fst mc), snd mc)) ms)
  end.
(* what the statement promises: the kind of the factor mirrors the kind of the input *)
Fixpoint mirror (tri : dty) (e : op) {struct e} : dty :=
  match e with
  | Ident _ => DtOp 2
  | Diag _ _ => DtOp 1
  | Scal _ _ => DtScalId
  | Kron ms => DtKron (map (mirror tri) ms)
  | BDiag ms => DtBDiag (map (fun mc => (mirror tri (fst mc), snd mc)) ms)
  | _ => tri
  end.
(* the L and U factors of plu: as [mirror] under the pinned rule; (Identity, the operator itself) for Diagonal / ScalarMul under the repaired one *)
Fixpoint mirrorL (e : op) {struct e} : dty :=
  match e with
  | Ident _ => DtOp 2
  | Diag _ _ => if plu_sqrt then DtOp 1 else DtOp 2
  | Scal _ _ => if plu_sqrt then DtScalId else DtOp 2
  | Kron ms => DtKron (map mirrorL ms)
  | BDiag ms => DtBDiag (map (fun mc => (mirrorL (fst mc), snd mc)) ms)
  | _ => DtTri true
  end.
Fixpoint mirrorU (e : op) {struct e} : dty :=
  match e with
  | Ident _ => DtOp 2
  | Diag _ _ => DtOp 1
  | Scal _ _ => if plu_sqrt then DtScalId else DtOp 3
  | Kron ms => DtKron (map mirrorU ms)
  | BDiag ms => DtBDiag (map (fun mc => (mirrorU (fst mc), snd mc)) ms)
  | _ => DtTri false
  end.
(* the permutation factor: Identity for Identity/Diagonal/ScalarMul, Permutation for dense inputs *)
Fixpoint mirrorP (e : op) {struct e} : dty :=
  match e with
  | Ident _ | Diag _ _ | Scal _ _ => DtOp 2
  | Kron ms => DtKron (map mirrorP ms)
  | BDiag ms => DtBDiag (map (fun mc => (mirrorP (fst mc), snd mc)) ms)
  | _ => DtOp 11
  end.
End Decomp.
