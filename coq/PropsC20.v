(* Property C20: indexing and slicing an operator match indexing the represented matrix.
   Only statements closed by [exact]; models in C20_GetItem.v / PySlice.v / Op.v, lemmas in C20_Proofs.v,
   C20_PySliceFacts.v, witnesses in C20_Refute.v.  R ranges over every commutative ring with involution. *)
From Coq Require Import ZArith List Arith Bool.
From Core Require Import Base Kron Op OpProofs ZIInst PySlice C20_PySliceFacts C20_GetItem C20_Proofs C20_Refute.
Import ListNotations.

(* 1. whenever A[ix] returns a value (entry, vector or sub-operator), it is the same indexing expression applied to
      the represented matrix den e - for every operator tree, every index form of the statement, with the flags of the
      pinned tree as well as repaired (the list form: once it multiplies self instead of self.A).
      sym_ok: either transpose() builds a Transpose, or it returns the operator itself (isa(SelfAdjoint), read off the
      implementation) and the represented matrix is indeed symmetric *)
Theorem C20_getitem_den : forall (R : Type) (RR : Ring R) (CR : CRing R) fl (e : op (R:=R)) q,
  wf e = true -> sym_ok fl e -> listed q = true -> (f_list_zip fl = false \/ same_len q) -> (f_list_dotA fl = false \/ is_list_pair q = false) ->
  (forall er, getitem fl e q <> Err er) ->
  exists s, spec_index (den e) (fst (shape e)) (snd (shape e)) q = Some s /\ res_matches e (getitem fl e q) s.
Proof. intros R RR CR. exact getitem_den. Qed.
Print Assumptions C20_getitem_den.

(* 2. the sub-operator returned for slices / duplicate-free index arrays has the entries M[rs][:, cs] and its products
      (right and left) are that sub-matrix times the operand: complex operands, strided/negative/empty slices included *)
Theorem C20_sliced_acts : forall (R : Type) (RR : Ring R) (CR : CRing R) fl (e t : op (R:=R)) a b,
  wf e = true -> sliced fl e a b = SubOp t ->
  exists rs cs, t = Sliced e rs cs /\ axis_sel a (fst (shape e)) = inr rs /\ axis_sel b (snd (shape e)) = inr cs /\
  shape t = (length rs, length cs) /\
  (forall i j, den t i j = den e (nth i rs 0%nat) (nth j cs 0%nat)) /\
  (NoDup rs -> NoDup cs ->
     wf t = true /\ (forall X, nr X = length cs -> aeq (matmat t X) (mkarr (length rs) (nc X) (mmul (length cs) (den t) (dat X))))
     /\ (forall X, nc X = length rs -> aeq (rmatmat t X) (mkarr (nr X) (length cs) (mmul (length rs) (dat X) (den t))))).
Proof. intros R RR CR. exact sliced_acts. Qed.
Print Assumptions C20_sliced_acts.

Theorem C20_slices_acts : forall (R : Type) (RR : Ring R) (CR : CRing R) fl (e t : op (R:=R)) s1 s2,
  wf e = true -> getitem fl e (Two (ISlice s1) (ISlice s2)) = SubOp t ->
  exists rs cs, indices s1 (fst (shape e)) = Some rs /\ indices s2 (snd (shape e)) = Some cs /\ t = Sliced e rs cs /\ wf t = true /\
  (forall X, nr X = length cs -> aeq (matmat t X) (mkarr (length rs) (nc X) (mmul (length cs) (fun i j => den e (nth i rs 0%nat) (nth j cs 0%nat)) (dat X)))).
Proof. intros R RR CR. exact slices_acts. Qed.
Print Assumptions C20_slices_acts.

(* 3. totality on the repaired tree (and already now on square operators for the row forms): every index expression
      numpy accepts on the represented matrix is accepted *)
Theorem C20_getitem_total : forall (R : Type) (RR : Ring R) (CR : CRing R) fl (e : op (R:=R)) q s,
  wf e = true -> sym_ok fl e -> listed q = true ->
  f_list_dotA fl = false -> f_arr_cpu fl = false -> f_list_empty_err fl = false -> (f_list_zip fl = false \/ same_len q) ->
  (f_row_len_cols fl = false \/ fst (shape e) = snd (shape e)) ->
  spec_index (den e) (fst (shape e)) (snd (shape e)) q = Some s -> forall er, getitem fl e q <> Err er.
Proof. intros R RR CR. exact getitem_total. Qed.
Print Assumptions C20_getitem_total.

(* 4. CPython's slice rule: in range, duplicate-free, exactly the x = i + t*k (t >= 0) that have not reached j with
      i, j as the language reference defines them, in the order of the step; special cases *)
Theorem C20_indices_in_range : forall s n l, indices s n = Some l -> forall x, In x l -> (x < n)%nat.
Proof. exact indices_in_range. Qed.
Print Assumptions C20_indices_in_range.
Theorem C20_indices_nodup : forall s n l, indices s n = Some l -> NoDup l.
Proof. exact indices_nodup. Qed.
Print Assumptions C20_indices_nodup.
Theorem C20_indices_spec : forall s n l, indices s n = Some l ->
  let k := stepof s in
  let i := doc_bound k (Z.of_nat n) (pstart s) 0 (Z.of_nat n - 1) in
  let j := doc_bound k (Z.of_nat n) (pstop s) (Z.of_nat n) (-1) in
  forall x : nat, In x l <-> exists t, (0 <= t /\ Z.of_nat x = i + t * k /\ (0 < k -> Z.of_nat x < j) /\ (k < 0 -> j < Z.of_nat x))%Z.
Proof. exact indices_spec. Qed.
Print Assumptions C20_indices_spec.
Theorem C20_indices_monotone : forall s n l, indices s n = Some l -> forall p q, (p < q < length l)%nat ->
  ((0 < stepof s)%Z -> (nth p l 0 < nth q l 0)%nat) /\ ((stepof s < 0)%Z -> (nth q l 0 < nth p l 0)%nat).
Proof. exact indices_monotone. Qed.
Print Assumptions C20_indices_monotone.
Theorem C20_indices_error_iff_zero_step : forall s n, indices s n = None <-> stepof s = 0%Z.
Proof. exact indices_none. Qed.
Print Assumptions C20_indices_error_iff_zero_step.
Theorem C20_indices_special_cases : forall n,
  indices (mkslice None None None) n = Some (seq 0 n) /\ indices (mkslice None None (Some (-1)%Z)) n = Some (rev (seq 0 n))
  /\ forall lo hi, (lo <= hi <= n)%nat -> indices (mkslice (Some (Z.of_nat lo)) (Some (Z.of_nat hi)) None) n = Some (seq lo (hi - lo)).
Proof. intros n. exact (Logic.conj (indices_full n) (Logic.conj (indices_reverse n) (indices_block n))). Qed.
Print Assumptions C20_indices_special_cases.

(* 5. what the faithful model of the pinned tree violates (one witness per recorded flag) *)
Theorem C20_getitem_row_nonsquare_refuted :
  exists (e : zop) q, wf e = true /\ listed q = true /\ numpy_accepts e q /\ getitem pinned e q = Err EAssert
                      /\ getitem repaired e q = Vec [z 1; z 2].
Proof. exact getitem_row_nonsquare_refuted. Qed.
Print Assumptions C20_getitem_row_nonsquare_refuted.
Theorem C20_getitem_list_dotA_refuted :
  (exists (e : zop) q, wf e = true /\ listed q = true /\ numpy_accepts e q /\ getitem pinned e q = Err EAttr) /\
  (exists (e : zop) q, wf e = true /\ listed q = true /\ getitem pinned e q = Vec [z 2]
     /\ spec_index (den e) (fst (shape e)) (snd (shape e)) q = Some (SVec [z 3]) /\ getitem repaired e q = Vec [z 3]).
Proof. exact (Logic.conj getitem_list_dotA_attr_refuted getitem_list_dotA_transposed_refuted). Qed.
Print Assumptions C20_getitem_list_dotA_refuted.
Theorem C20_sliced_index_array_cpu_refuted :
  exists (e : zop) q, wf e = true /\ listed q = true /\ numpy_accepts e q /\ getitem pinned e q = Err EAttr.
Proof. exact sliced_index_array_cpu_refuted. Qed.
Print Assumptions C20_sliced_index_array_cpu_refuted.
Theorem C20_getitem_empty_lists_refuted :
  exists (e : zop) q, wf e = true /\ listed q = true /\ spec_index (den e) (fst (shape e)) (snd (shape e)) q = Some (SVec [])
                      /\ getitem pinned e q = Err EValue.
Proof. exact getitem_empty_lists_refuted. Qed.
Print Assumptions C20_getitem_empty_lists_refuted.
Theorem C20_getitem_list_zip_refuted :
  exists (e : zop) q, wf e = true /\ listed q = true /\ getitem zipfl e q = Vec [z 1]
     /\ spec_index (den e) (fst (shape e)) (snd (shape e)) q = Some (SVec [z 1; z 4]) /\ getitem repaired e q = Vec [z 1; z 4].
Proof. exact getitem_list_zip_refuted. Qed.
Print Assumptions C20_getitem_list_zip_refuted.
Theorem C20_getitem_T_self_refuted :
  exists (e : zop), wf e = true /\ getitem tself e (One (IInt 0)) = Vec [z 1; z 3]
     /\ spec_index (den e) (fst (shape e)) (snd (shape e)) (One (IInt 0)) = Some (SVec [z 1; z 2])
     /\ getitem repaired e (One (IInt 0)) = Vec [z 1; z 2]
     /\ getitem tself e (Two (IInt 0) (IInt 1)) = Scalar (z 2) /\ getitem tself e (Two (ISlice full) (IInt 1)) = Vec [z 2; z 4].
Proof. exact getitem_T_self_refuted. Qed.
Print Assumptions C20_getitem_T_self_refuted.
Theorem C20_sliced_duplicate_indices_refuted :
  exists (e : zop) rs cs (X : arr (R:=zi)), wf e = true /\ getitem repaired e (Two (ISlice full) (IArr [1; 1]%Z)) = SubOp (Sliced e rs cs)
     /\ nr X = length cs /\ dat (matmat (Sliced e rs cs) X) 0%nat 0%nat = z 10
     /\ mmul (length cs) (den (Sliced e rs cs)) (dat X) 0%nat 0%nat = z 11.
Proof. exact sliced_duplicate_indices_refuted. Qed.
Print Assumptions C20_sliced_duplicate_indices_refuted.

(* the hypotheses are satisfiable on a composite non-square tree *)
Example C20_example : wf Ex = true /\ shape Ex = (2, 3)%nat.
Proof. exact ex_shape. Qed.
Print Assumptions C20_example.
