(* Property C03: operator algebra builds the operator of the corresponding matrix expression. *)
From Coq Require Import List Arith Bool ZArith.
From Core Require Import Base Kron Op OpProofs Algebra AlgebraProofs AlgebraKron AlgebraMore AlgebraExpr ZIInst.
From Core Require DtypeTable AlgDtype.
Import ListNotations.

Theorem C03_add_sound : forall (R : Type) (RR : Ring R) (CR : CRing R) (a b c : op (R:=R)),
  wf a = true -> wf b = true -> add a b = Ok c ->
  wf c = true /\ shape c = shape a /\ forall i j, den c i j = radd (den a i j) (den b i j).
Proof. intros R RR CR. exact (@add_sound R RR CR). Qed.
Print Assumptions C03_add_sound.
Theorem C03_add_rejects : forall (R : Type) (RR : Ring R) (CR : CRing R) (a b : op (R:=R)),
  shape a <> shape b -> add a b = Err EShape.
Proof. intros R RR CR. exact (@add_rejects R). Qed.
Print Assumptions C03_add_rejects.
Theorem C03_sub_sound : forall (R : Type) (RR : Ring R) (CR : CRing R) (a b c : op (R:=R)),
  wf a = true -> wf b = true -> sub a b = Ok c ->
  wf c = true /\ shape c = shape a /\ feq (fst (shape a)) (snd (shape a)) (den c) (fun i j => rsub (den a i j) (den b i j)).
Proof. intros R RR CR. exact (@sub_sound R RR CR). Qed.
Print Assumptions C03_sub_sound.
Theorem C03_sub_rejects : forall (R : Type) (RR : Ring R) (CR : CRing R) (a b : op (R:=R)),
  wf b = true -> shape a <> shape b -> sub a b = Err EShape.
Proof. intros R RR CR. exact (@sub_rejects R RR CR). Qed.
Print Assumptions C03_sub_rejects.
(* c * A, A * c, A / c (with c the reciprocal), incl. merging into an existing scalar operator *)
Theorem C03_mul_sound : forall (R : Type) (RR : Ring R) (CR : CRing R) (a : op (R:=R)) (c : R),
  wf a = true -> wf (mul a c) = true /\ shape (mul a c) = shape a /\
  feq (fst (shape a)) (snd (shape a)) (den (mul a c)) (fun i j => rmul c (den a i j)).
Proof. intros R RR CR. exact (@mul_sound R RR CR). Qed.
Print Assumptions C03_mul_sound.
Theorem C03_neg_sound : forall (R : Type) (RR : Ring R) (CR : CRing R) (a : op (R:=R)),
  wf a = true -> wf (neg a) = true /\ shape (neg a) = shape a /\
  feq (fst (shape a)) (snd (shape a)) (den (neg a)) (fun i j => ropp (den a i j)).
Proof. intros R RR CR. exact (@neg_sound R RR CR). Qed.
Print Assumptions C03_neg_sound.
(* A @ B incl. flattening of nested products and elimination of identities *)
Theorem C03_dot_sound : forall (R : Type) (RR : Ring R) (CR : CRing R) (a b c : op (R:=R)),
  wf a = true -> wf b = true -> dot a b = Ok c ->
  wf c = true /\ shape c = (fst (shape a), snd (shape b)) /\
  feq (fst (shape a)) (snd (shape b)) (den c) (mmul (snd (shape a)) (den a) (den b)).
Proof. intros R RR CR. exact (@dot_sound R RR CR). Qed.
Print Assumptions C03_dot_sound.
Theorem C03_dot_rejects : forall (R : Type) (RR : Ring R) (CR : CRing R) (a b : op (R:=R)),
  snd (shape a) <> fst (shape b) -> dot a b = Err EShape.
Proof. intros R RR CR. exact (@dot_rejects R). Qed.
Print Assumptions C03_dot_rejects.
(* kron incl. flattening nested Kronecker products and fusing Diagonal (x) Diagonal *)
Theorem C03_kron_sound : forall (R : Type) (RR : Ring R) (CR : CRing R) (a b : op (R:=R)),
  wf a = true -> wf b = true -> posop a -> posop b ->
  wf (kron a b) = true /\ shape (kron a b) = (fst (shape a) * fst (shape b), snd (shape a) * snd (shape b)) /\
  feq (fst (shape a) * fst (shape b)) (snd (shape a) * snd (shape b)) (den (kron a b)) (fmx (kron2 (facof a) (facof b))).
Proof. intros R RR CR. exact (@kron_sound R RR CR). Qed.
Print Assumptions C03_kron_sound.
Theorem C03_kronsum_sound : forall (R : Type) (RR : Ring R) (CR : CRing R) (a b : op (R:=R)),
  wf a = true -> wf b = true -> sqop a -> sqop b ->
  wf (kronsum a b) = true /\ shape (kronsum a b) = (fst (shape a) * fst (shape b), fst (shape a) * fst (shape b)) /\
  feq (fst (shape a) * fst (shape b)) (fst (shape a) * fst (shape b)) (den (kronsum a b)) (fmx (ksum2 (facof a) (facof b))).
Proof. intros R RR CR. exact (@kronsum_sound R RR CR). Qed.
Print Assumptions C03_kronsum_sound.
Theorem C03_block_diag_sound : forall (R : Type) (RR : Ring R) (CR : CRing R) (l : list (op (R:=R))),
  forallb wf l = true ->
  wf (block_diag l) = true /\ shape (block_diag l) = bshape (map (fun e => (shape e, 1)) l) /\
  forall i j, den (block_diag l) i j = bd (map (fun e => (shape e, den e)) l) i j.
Proof. intros R RR CR. exact (@block_diag_sound R RR CR). Qed.
Print Assumptions C03_block_diag_sound.
(* the pinned tree: `c / A` is computed as A * (1/c) *)
Theorem C03_rtruediv_refuted :
  let a : Op.op (R:=zi) := Scal (2,0)%Z 1 in
  let q := div a (1,0)%Z in
  zimul (den q 0 0) (den a 0 0) <> (1,0)%Z.
Proof. exact rtruediv_refuted. Qed.
Print Assumptions C03_rtruediv_refuted.

(* whole expressions, any nesting: evaluating an algebraic expression over {+, -, neg, scalar multiple, @, kron, kronsum,
   block_diag} with cola's combinators (eval) yields a well-formed operator representing the dense evaluation (deval) of
   the same expression, and a shape error exactly when the dense evaluation is undefined (mismatched + / - / @) *)
Theorem C03_eval_sound : forall (R : Type) (RR : Ring R) (CR : CRing R) (x : aexp (R:=R)),
  inscope x = true ->
  match deval x with
  | DOk s M => exists c, eval x = Ok c /\ wf c = true /\ shape c = s /\ feq (fst s) (snd s) (den c) M
  | DErr => exists k, eval x = Err k
  end.
Proof. intros R RR CR x. exact (@eval_sound R RR CR x). Qed.
Print Assumptions C03_eval_sound.
Example C03_example :
  let A : Op.op (R:=zi) := Dense (of_list_mn 2 2 [[(1,0)%Z; (2,1)%Z]; [(0,-1)%Z; (3,0)%Z]]) in
  let x := AAdd (ADot (ALeaf A) (AKron (ALeaf (Diag 1 (fun _ => (2,0)%Z))) (ALeaf A))) (AMul (ANeg (ALeaf (Ident 2))) (0,1)%Z) in
  inscope x = true /\ exists s M, deval x = DOk s M.
Proof. cbv zeta. split; [reflexivity|]. eexists; eexists; reflexivity. Qed.

(* dtype clause: the dtype of an algebraic expression is the promoted dtype of all its operands (least upper bound in the
   promotion order of the generated numpy table; scalars weak, a complex scalar contributes complex64), whatever the
   nesting and the order of the operands *)
Theorem C03_result_dtype_is_promotion : forall e : AlgDtype.dexp,
  Forall (fun d => AlgDtype.dle d (AlgDtype.dxtype e)) (AlgDtype.dops e) /\
  (forall u, Forall (fun d => AlgDtype.dle d u) (AlgDtype.dops e) -> AlgDtype.dle (AlgDtype.dxtype e) u).
Proof. intros e. exact (Logic.conj (AlgDtype.dxtype_upper e) (AlgDtype.dxtype_least e)). Qed.
Print Assumptions C03_result_dtype_is_promotion.
Theorem C03_result_dtype_operands_only : forall e1 e2 : AlgDtype.dexp,
  (forall d, In d (AlgDtype.dops e1) <-> In d (AlgDtype.dops e2)) -> AlgDtype.dxtype e1 = AlgDtype.dxtype e2.
Proof. exact AlgDtype.dxtype_operands_only. Qed.
Print Assumptions C03_result_dtype_operands_only.
Example C03_dtype_example :
  AlgDtype.dxtype (AlgDtype.DXScal true (AlgDtype.DXBin (AlgDtype.DXLeaf DtypeTable.F32) (AlgDtype.DXList (AlgDtype.DXLeaf DtypeTable.I32) [AlgDtype.DXNeg (AlgDtype.DXLeaf DtypeTable.F32)]))) = DtypeTable.C128.
Proof. reflexivity. Qed.
