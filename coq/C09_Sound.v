(* C09: every rule of the model preserves the matrix-function specification (unary_rule_sound), integer powers. *)
From Coq Require Import ZArith Arith Lia List Ring ArithRing PeanoNat Bool.
From Core Require Import Base Kron Op OpProofs KronAlg Algebra AlgebraProofs AlgebraKron C09_MatAlg C09_IsFun C09_Struct C09_Model.
Import ListNotations.

Section Sound.
Context {R : Type} {RR : Ring R} {CR : CRing R}.
Add Ring Rr : Rth.
Open Scope R_scope.
Notation fm := (fm (R:=R)). Notation arr := (arr (R:=R)). Notation op := (op (R:=R)). Notation uop := (uop (R:=R)).

Section UInd.
Variable Pu : uop -> Prop.
Hypothesis HLeaf : forall e w V W, Pu (ULeaf e w V W).
Hypothesis HDiag : forall n d, Pu (UDiag n d).
Hypothesis HIdent : forall n, Pu (UIdent n).
Hypothesis HScal : forall c n, Pu (UScal c n).
Hypothesis HTransp : forall a, Pu a -> Pu (UTransp a).
Hypothesis HAdj : forall a, Pu a -> Pu (UAdj a).
Hypothesis HBDiag : forall ms, Forall (fun mc => Pu (fst mc)) ms -> Pu (UBDiag ms).
Hypothesis HKron : forall ms, Forall Pu ms -> Pu (UKron ms).
Hypothesis HKronSum : forall ms, Forall Pu ms -> Pu (UKronSum ms).
Fixpoint uop_ind2 (u : uop) : Pu u :=
  match u with
  | ULeaf e w V W => HLeaf e w V W | UDiag n d => HDiag n d | UIdent n => HIdent n | UScal c n => HScal c n
  | UTransp a => HTransp a (uop_ind2 a) | UAdj a => HAdj a (uop_ind2 a)
  | UBDiag ms => HBDiag ms ((fix go l : Forall (fun mc => Pu (fst mc)) l := match l with [] => Forall_nil _ | mc :: l' => Forall_cons _ (uop_ind2 (fst mc)) (go l') end) ms)
  | UKron ms => HKron ms ((fix go l : Forall Pu l := match l with [] => Forall_nil _ | m :: l' => Forall_cons _ (uop_ind2 m) (go l') end) ms)
  | UKronSum ms => HKronSum ms ((fix go l : Forall Pu l := match l with [] => Forall_nil _ | m :: l' => Forall_cons _ (uop_ind2 m) (go l') end) ms)
  end.
End UInd.

Variable P : R -> Prop.     (* class of admissible eigenvalues (the function's domain) *)
Variable f : R -> R.        (* the scalar function *)
Definition dimu (u : uop) : nat := fst (shape (erase u)).
Definition ConjOK := forall x, P x -> P (conj x) /\ f (conj x) = conj (f x).
Definition MulOK := (forall a b, P a -> P b -> P (a * b) /\ f (a * b) = f a * f b) /\ P r1 /\ f r1 = r1.
Definition AddOK := (forall a b, P a -> P b -> P (a + b) /\ f (a + b) = f a * f b) /\ P r0 /\ f r0 = r1.
(* hypotheses collected along the tree: oracle specifications at the leaves, spectra in P, and the functional
   equations exactly where a rule relies on them *)
Fixpoint Covered (m : mode) (u : uop) : Prop :=
  match u with
  | ULeaf e w V W => let n := nr V in
      wf e = true /\ shape e = (n, n) /\ nc V = n /\ nr W = n /\ nc W = n /\ inv2 n (dat V) (dat W) /\
      feq n n (mmul n (den e) (dat V)) (mmul n (dat V) (dg w)) /\ forall i, (i < n)%nat -> P (w i)
  | UDiag n d => forall i, (i < n)%nat -> P (d i)
  | UIdent n => P r1
  | UScal c n => P c
  | UTransp a => Covered MGeneric a
  | UAdj a => Covered MGeneric a /\ ConjOK
  | UBDiag ms => fold_right (fun mc acc => Covered MGeneric (fst mc) /\ acc) True ms
  | UKron ms => m = MPow /\ MulOK /\ fold_right (fun x acc => (Covered MPow x /\ (0 < dimu x)%nat) /\ acc) True ms
  | UKronSum ms => m = MExp /\ AddOK /\ ms <> [] /\ fold_right (fun x acc => (Covered MExp x /\ (0 < dimu x)%nat) /\ acc) True ms
  end.
Definition Good (m : mode) (u : uop) : Prop :=
  let n := dimu u in
  wf (erase u) = true /\ wf (unary m f u) = true /\ shape (erase u) = (n, n) /\ shape (unary m f u) = (n, n) /\
  IsFunOn P f n (den (erase u)) (den (unary m f u)).

Lemma Forall2_rep {A B} (Rl : A -> B -> Prop) k a b : Rl a b -> Forall2 Rl (rep k a) (rep k b).
Proof. intros H. induction k; cbn; constructor; auto. Qed.
Lemma Forall2_app' {A B} (Rl : A -> B -> Prop) l1 l1' l2 l2' : Forall2 Rl l1 l1' -> Forall2 Rl l2 l2' -> Forall2 Rl (l1 ++ l2) (l1' ++ l2').
Proof. induction 1; cbn; auto. Qed.

Lemma good_leaf m e w V W : Covered m (ULeaf e w V W) -> Good m (ULeaf e w V W).
Proof. cbn [Covered]. intros (Hwf & Hs & HcV & HrW & HcW & HI & HA & HP). unfold Good, dimu. cbn [erase unary]. rewrite Hs. cbn [fst].
  set (n := nr V) in *. repeat split; auto.
  - cbn [wf length Nat.eqb negb forallb map shape chain_ok andb nr nc]. rewrite HcV, HrW, !Nat.eqb_refl. reflexivity.
  - cbn [shape map hd last fst snd]. rewrite HcW. reflexivity.
  - eapply isfun_ext; [apply feq_refl| |exact (isfun_dense_eig P f n (den e) (dat V) (dat W) w HI HA HP)].
    cbn [den map shape chain fold_right fst snd]. rewrite HcV, HcW. fold n.
    apply feq_trans with (mmul n (dat V) (mmul n (dg (fun i => f (w i))) (dat W))); [apply feq_mmul_assoc|].
    apply mmul_ext; [apply feq_refl|]. apply mmul_ext; [apply feq_refl|]. apply feq_sym, feq_eye_r. Qed.
Lemma mul_ident_den n c : feq n n (den (mul (Ident n) c)) (fun i j => c * delta i j).
Proof. destruct (mul_sound (Ident n) c eq_refl) as (_ & _ & D). cbn [shape fst snd] in D. exact D. Qed.
Lemma good_ident m n : Covered m (UIdent n) -> Good m (UIdent n).
Proof. cbn [Covered]. intros HP. unfold Good, dimu. cbn [erase unary shape fst]. destruct (mul_sound (Ident n) (f r1) eq_refl) as (W1 & S1 & _).
  repeat split; auto. eapply isfun_ext; [apply feq_refl|apply feq_sym, mul_ident_den|]. exact (isfun_ident P f n HP). Qed.
Lemma good_scal m c n : Covered m (UScal c n) -> Good m (UScal c n).
Proof. cbn [Covered]. intros HP. unfold Good, dimu. cbn [erase unary shape fst]. destruct (mul_sound (Ident n) (f c) eq_refl) as (W1 & S1 & _).
  repeat split; auto. eapply isfun_ext; [apply feq_refl|apply feq_sym, mul_ident_den|]. exact (isfun_scal P f n c HP). Qed.
Lemma good_diag m n d : Covered m (UDiag n d) -> Good m (UDiag n d).
Proof. cbn [Covered]. intros HP. unfold Good, dimu. cbn [erase unary shape fst wf]. repeat split; auto. exact (isfun_diag P f n d HP). Qed.
Lemma good_transp m a : Good MGeneric a -> Good m (UTransp a).
Proof. unfold Good, dimu. cbn [erase unary shape wf]. intros (W1 & W2 & S1 & S2 & HF). rewrite S1, S2 in *. cbn [fst snd]. repeat split; auto.
  exact (isfun_tr P f _ _ _ HF). Qed.
Lemma good_adj m a : ConjOK -> Good MGeneric a -> Good m (UAdj a).
Proof. unfold Good, dimu. cbn [erase unary shape wf]. intros HC (W1 & W2 & S1 & S2 & HF). rewrite S1, S2 in *. cbn [fst snd]. repeat split; auto.
  apply isfun_weaken with (P := fun x => P (conj x)).
  - intros x Hx. rewrite <- (conj_invol x). apply HC. exact Hx.
  - change (fun i j => conj (den (erase a) j i)) with (cj (den (erase a))). change (fun i j => conj (den (unary MGeneric f a) j i)) with (cj (den (unary MGeneric f a))).
    apply isfun_adj; [intros x Hx; apply HC; exact Hx|exact HF]. Qed.

(* block diagonal *)
Definition er1 (ms : list (uop * nat)) := map (fun mc : uop * nat => (erase (fst mc), snd mc)) ms.
Definition un1 (ms : list (uop * nat)) := map (fun mc : uop * nat => (unary MGeneric f (fst mc), snd mc)) ms.
Lemma bd_blocks_facts ms : Forall (fun mc => Good MGeneric (fst mc)) ms ->
  Forall2 (fun a b => sqblk a /\ fst b = fst a /\ IsFunOn P f (fst (fst a)) (snd a) (snd b)) (blocks (er1 ms)) (blocks (un1 ms)) /\
  colsB (blocks (er1 ms)) = rowsB (blocks (er1 ms)) /\ rowsB (blocks (un1 ms)) = rowsB (blocks (er1 ms)) /\
  colsB (blocks (un1 ms)) = rowsB (blocks (er1 ms)) /\
  forallb (fun mc => wf (fst mc)) (er1 ms) = true /\ forallb (fun mc => wf (fst mc)) (un1 ms) = true.
Proof. induction 1 as [|mc ms (W1 & W2 & S1 & S2 & HI) HR (I1 & I2 & I3 & I4 & I5 & I6)].
  - cbn. repeat split; auto.
  - unfold er1, un1, blocks in *. cbn [map concat fst snd forallb]. rewrite !rowsB_rep, !colsB_rep. rewrite W1, W2, I5, I6, S1, S2. cbn [fst snd].
    rewrite I2, I3, I4. repeat split; auto. apply Forall2_app'; [|exact I1]. apply Forall2_rep. unfold sqblk. cbn [fst snd]. repeat split; auto. Qed.
Lemma good_bdiag m ms : Forall (fun mc => Good MGeneric (fst mc)) ms -> Good m (UBDiag ms).
Proof. intros HF. destruct (bd_blocks_facts ms HF) as (HB & E2 & E3 & E4 & HW1 & HW2).
  unfold Good, dimu. cbn [erase unary]. fold (er1 ms). fold (un1 ms).
  cbn [wf shape]. rewrite !bshape_blocks. rewrite E2, E3, E4. cbn [fst]. repeat split; auto.
  change (den (BDiag (er1 ms))) with (bd (blocks (er1 ms))). change (den (BDiag (un1 ms))) with (bd (blocks (un1 ms))).
  change (rowsB (blocks (er1 ms))) with (blkdim (blocks (er1 ms))). apply isfun_bd. exact HB. Qed.

(* Kronecker (pow) and Kronecker sum (exp) *)
Lemma facs_rel m ms : Forall (fun x => Good m x /\ (0 < dimu x)%nat) ms ->
  Forall2 (facrel P f) (map facof (map erase ms)) (map facof (map (unary m f) ms)).
Proof. induction 1 as [|x ms ((W1 & W2 & S1 & S2 & HI) & Hpos) HR IH]; cbn [map]; constructor; auto.
  unfold facrel, facof. cbn [fr fc fmx]. rewrite S1, S2. cbn [fst snd]. repeat split; auto. Qed.
Lemma forall_wf m ms : Forall (fun x => Good m x /\ (0 < dimu x)%nat) ms ->
  forallb wf (map erase ms) = true /\ forallb wf (map (unary m f) ms) = true /\
  forallb (fun s => (0 <? fst s)%nat && Nat.eqb (fst s) (snd s)) (map shape (map erase ms)) = true /\
  forallb (fun s => (0 <? fst s)%nat && (0 <? snd s)%nat) (map shape (map erase ms)) = true /\
  forallb (fun s => (0 <? fst s)%nat && (0 <? snd s)%nat) (map shape (map (unary m f) ms)) = true.
Proof. induction 1 as [|x ms ((W1 & W2 & S1 & S2 & HI) & Hpos) HR (I1 & I2 & I3 & I4 & I5)]; cbn [map forallb]; [auto|].
  rewrite W1, W2, I1, I2, I3, I4, I5, S1, S2. cbn [fst snd]. unfold dimu in Hpos. rewrite S1 in Hpos. cbn [fst] in Hpos.
  apply Nat.ltb_lt in Hpos. rewrite Hpos, Nat.eqb_refl. auto. Qed.
Lemma good_kron ms : MulOK -> Forall (fun x => Good MPow x /\ (0 < dimu x)%nat) ms -> Good MPow (UKron ms).
Proof. intros (HM & P1 & F1) HF. pose proof (facs_rel MPow ms HF) as HR. pose proof (forall_wf MPow ms HF) as (V1 & V2 & V3 & V4 & V5).
  pose proof (facrel_dims P f _ _ HR) as (E1 & E2 & E3 & E4 & _).
  unfold Good, dimu. cbn [erase unary wf shape]. rewrite !kshape_kronR. rewrite V1, V2, V4, V5, E1, E2, E3. cbn [fst andb]. repeat split; auto.
  change (den (Kron (map erase ms))) with (fmx (kronR (map facof (map erase ms)))).
  change (den (Kron (map (unary MPow f) ms))) with (fmx (kronR (map facof (map (unary MPow f) ms)))).
  apply isfun_kronR; auto; intros a b Ha Hb; apply HM; auto. Qed.
Lemma good_kronsum ms : AddOK -> ms <> [] -> Forall (fun x => Good MExp x /\ (0 < dimu x)%nat) ms -> Good MExp (UKronSum ms).
Proof. intros (HM & P0 & F0) Hne HF. pose proof (facs_rel MExp ms HF) as HR. pose proof (forall_wf MExp ms HF) as (V1 & V2 & V3 & V4 & V5).
  pose proof (facrel_dims P f _ _ HR) as (E1 & E2 & E3 & E4 & _).
  unfold Good, dimu. cbn [erase unary wf shape]. rewrite !kshape_kronR. rewrite V1, V2, V3, V5, E1, E2, E3. cbn [fst andb].
  assert (Hl : negb (Nat.eqb (length (map erase ms)) 0) = true) by (destruct ms; [contradiction|reflexivity]). rewrite Hl. repeat split; auto.
  change (den (KronSum (map erase ms))) with (fmx (ksumR (map facof (map erase ms)))).
  change (den (Kron (map (unary MExp f) ms))) with (fmx (kronR (map facof (map (unary MExp f) ms)))).
  apply isfun_ksumR; auto; intros a b Ha Hb; apply HM; auto. Qed.

(* unary_rule_sound: every rule of apply_unary / exp / pow(non-integer) preserves "is f of the matrix", by induction on
   the tree; at the leaves the dense rules V f(D) V^H / V f(D) V^-1 rely on the eigen-oracle's specification *)
Theorem unary_rule_sound : forall u m, Covered m u -> Good m u.
Proof. induction u as [e w V W|n d|n|c n|a IH|a IH|ms IH|ms IH|ms IH] using uop_ind2; intros m HC.
  - apply good_leaf; exact HC.
  - apply good_diag; exact HC.
  - apply good_ident; exact HC.
  - apply good_scal; exact HC.
  - apply good_transp. apply IH. exact HC.
  - destruct HC as [HC1 HC2]. apply good_adj; [exact HC2|apply IH; exact HC1].
  - apply good_bdiag. cbn [Covered] in HC. induction IH as [|mc ms H1 HR IHl]; [constructor|]. cbn [fold_right] in HC. destruct HC as [C1 C2].
    constructor; [apply H1; exact C1|apply IHl; exact C2].
  - cbn [Covered] in HC. destruct HC as (-> & HM & HC). apply good_kron; [exact HM|].
    induction IH as [|x ms H1 HR IHl]; [constructor|]. cbn [fold_right] in HC. destruct HC as [[C1 C1'] C2]. constructor; [split; [apply H1; exact C1|exact C1']|apply IHl; exact C2].
  - cbn [Covered] in HC. destruct HC as (-> & HM & Hne & HC). apply good_kronsum; [exact HM|exact Hne|].
    clear Hne. induction IH as [|x ms H1 HR IHl]; [constructor|]. cbn [fold_right] in HC. destruct HC as [[C1 C1'] C2]. constructor; [split; [apply H1; exact C1|exact C1']|apply IHl; exact C2]. Qed.
End Sound.

(* ---------- integer powers: product([A]*k) is the k-fold matrix product ---------- *)
Section IntPow.
Context {R : Type} {RR : Ring R} {CR : CRing R}.
Add Ring Rr3 : Rth.
Open Scope R_scope.
Notation op := (op (R:=R)).
Theorem pow_int_repeated (a : op) n k : wf a = true -> shape a = (n, n) -> (1 <= k)%nat ->
  exists c, product_k a k = Ok c /\ wf c = true /\ shape c = (n, n) /\ feq n n (den c) (mpow n (den a) k).
Proof. intros Wa Sa Hk. induction k as [|k IH]; [lia|]. destruct k as [|k].
  - exists a. cbn [product_k mpow]. repeat split; auto. apply feq_sym, feq_eye_r.
  - destruct (IH ltac:(lia)) as (p & Ep & Wp & Sp & Dp). change (product_k a (S (S k))) with (bindr (product_k a (S k)) (fun p => dot p a)).
    rewrite Ep. cbn [bindr].
    destruct (dot p a) as [c|err] eqn:Ed.
    + destruct (dot_sound p a c Wp Wa Ed) as (Wc & Sc & Dc). rewrite Sp, Sa in *. cbn [fst snd] in *. exists c. repeat split; auto.
      eapply feq_trans; [exact Dc|]. eapply feq_trans; [apply mmul_ext; [exact Dp|apply feq_refl]|].
      (* A^(k+1) A = A A^(k+1) *)
      clear. generalize (S k) as q. intros q. induction q as [|q IHq]; cbn [mpow].
      * apply feq_trans with (den a); [apply feq_eye_l|apply feq_sym, feq_eye_r].
      * eapply feq_trans; [apply feq_mmul_assoc|]. apply mmul_ext; [apply feq_refl|exact IHq].
    + exfalso. unfold dot in Ed. rewrite Sp, Sa in Ed. cbn [fst snd] in Ed. rewrite Nat.eqb_refl in Ed. cbn [negb] in Ed.
      destruct (is_ident a); [discriminate|]. destruct (is_ident p); discriminate. Qed.
(* pow(A, 0) = I_like(A) *)
Lemma pow_0 (P : R -> Prop) (a : op) n : shape a = (n, n) -> Diagble P n (den a) -> IsFunOn P (fun _ => r1) n (den a) (den (Ident n)).
Proof. intros _ H. exact (isfun_pow0 P n (den a) H). Qed.
End IntPow.
