(* dtype clause of C03: the dtype of an algebraic expression is the promoted dtype of ALL its operands, whatever the
   nesting and the order - stated as: it is the least upper bound of the operand dtypes in the promotion order of the
   generated numpy table (DtypeTable.v).  Scalars are weak (Python semantics, as cola treats every scalar): a real
   scalar leaves the dtype alone, a complex scalar contributes complex64. *)
From Coq Require Import List Bool.
From Core Require Import DtypeTable Dtype.
Import ListNotations.

Inductive dexp :=
| DXLeaf (d : dt)                 (* an operator (or plain array) operand of dtype d *)
| DXBin (x y : dexp)              (* + - @ kron kronsum *)
| DXList (x : dexp) (l : list dexp)   (* sum([...]) / block_diag(...) : at least one operand *)
| DXNeg (x : dexp)
| DXScal (cplx : bool) (x : dexp). (* c * x, x * c, x / c *)

Fixpoint dxtype (e : dexp) : dt :=
  match e with
  | DXLeaf d => d
  | DXBin x y => promote (dxtype x) (dxtype y)
  | DXList x l => fold_left (fun acc y => promote acc (dxtype y)) l (dxtype x)
  | DXNeg x => dxtype x
  | DXScal c x => if c then promote (dxtype x) C64 else dxtype x
  end.

(* operand dtypes of an expression *)
Fixpoint dops (e : dexp) : list dt :=
  match e with
  | DXLeaf d => [d]
  | DXBin x y => dops x ++ dops y
  | DXList x l => dops x ++ flat_map dops l
  | DXNeg x => dops x
  | DXScal c x => if c then C64 :: dops x else dops x
  end.

Definition dle (a b : dt) : Prop := promote a b = b.
Lemma dle_refl a : dle a a. Proof. apply promote_idem. Qed.
Lemma dle_trans a b c : dle a b -> dle b c -> dle a c.
Proof. unfold dle; intros H1 H2. rewrite <- H2, promote_assoc, H1. reflexivity. Qed.
Lemma dle_l a b : dle a (promote a b). Proof. unfold dle. rewrite promote_assoc, promote_idem. reflexivity. Qed.
Lemma dle_r a b : dle b (promote a b). Proof. unfold dle. rewrite (promote_comm a b), promote_assoc, promote_idem. reflexivity. Qed.
Lemma dle_lub a b u : dle a u -> dle b u -> dle (promote a b) u.
Proof. unfold dle; intros H1 H2. rewrite <- promote_assoc, H2, H1. reflexivity. Qed.
Lemma dle_antisym a b : dle a b -> dle b a -> a = b.
Proof. unfold dle; intros H1 H2. transitivity (promote b a); [symmetry; exact H2 | rewrite promote_comm; exact H1]. Qed.

Section Ind.
Variable P : dexp -> Prop.
Hypothesis HL : forall d, P (DXLeaf d).
Hypothesis HB : forall x y, P x -> P y -> P (DXBin x y).
Hypothesis HLi : forall x l, P x -> Forall P l -> P (DXList x l).
Hypothesis HN : forall x, P x -> P (DXNeg x).
Hypothesis HS : forall c x, P x -> P (DXScal c x).
Fixpoint dexp_ind2 (e : dexp) : P e :=
  match e with
  | DXLeaf d => HL d
  | DXBin x y => HB x y (dexp_ind2 x) (dexp_ind2 y)
  | DXList x l => HLi x l (dexp_ind2 x) ((fix go (l : list dexp) : Forall P l := match l with [] => Forall_nil _ | y :: r => Forall_cons _ (dexp_ind2 y) (go r) end) l)
  | DXNeg x => HN x (dexp_ind2 x)
  | DXScal c x => HS c x (dexp_ind2 x)
  end.
End Ind.

Lemma fold_upper (l : list dexp) : forall a0,
  dle a0 (fold_left (fun acc y => promote acc (dxtype y)) l a0) /\
  Forall (fun y => dle (dxtype y) (fold_left (fun acc y => promote acc (dxtype y)) l a0)) l.
Proof. induction l as [|y r IH]; intros a0; simpl.
  - split; [apply dle_refl | constructor].
  - destruct (IH (promote a0 (dxtype y))) as [H1 H2]. split.
    + eapply dle_trans; [apply dle_l | exact H1].
    + constructor; [eapply dle_trans; [apply dle_r | exact H1] | exact H2]. Qed.
Lemma fold_least (l : list dexp) u : forall a0, dle a0 u -> Forall (fun y => dle (dxtype y) u) l ->
  dle (fold_left (fun acc y => promote acc (dxtype y)) l a0) u.
Proof. induction l as [|y r IH]; intros a0 H0 HF; simpl; [exact H0|].
  inversion HF; subst. apply IH; [apply dle_lub; assumption | assumption]. Qed.

(* every operand dtype is below the result dtype ... *)
Theorem dxtype_upper (e : dexp) : Forall (fun d => dle d (dxtype e)) (dops e).
Proof. induction e as [d|x y IHx IHy|x l IHx IHl|x IH|c x IH] using dexp_ind2; cbn [dops dxtype].
  - constructor; [apply dle_refl | constructor].
  - apply Forall_app; split; [eapply Forall_impl; [|exact IHx] | eapply Forall_impl; [|exact IHy]]; intros a Ha;
    (eapply dle_trans; [exact Ha|]); [apply dle_l | apply dle_r].
  - destruct (fold_upper l (dxtype x)) as [H1 H2]. apply Forall_app; split.
    + eapply Forall_impl; [|exact IHx]. intros a Ha. eapply dle_trans; [exact Ha | exact H1].
    + clear H1. induction l as [|y r IHr]; simpl; [constructor|].
      inversion IHl; subst. inversion H2; subst. apply Forall_app; split.
      * eapply Forall_impl; [|match goal with H : Forall _ (dops y) |- _ => exact H end]. intros a Ha. eapply dle_trans; [exact Ha | assumption].
      * simpl in *. match goal with H : Forall (fun y0 => dle (dxtype y0) _) r |- _ => revert H end.
        match goal with H : Forall (fun e => Forall _ (dops e)) r |- _ => revert H end.
        generalize (fold_left (fun acc y0 => promote acc (dxtype y0)) r (promote (dxtype x) (dxtype y))). clear.
        induction r as [|z r IH]; intros u HA HB; simpl; [constructor|]. inversion HA; subst; inversion HB; subst.
        apply Forall_app; split; [|apply IH; assumption].
        eapply Forall_impl; [|eassumption]. intros a Ha. eapply dle_trans; [exact Ha | assumption].
  - exact IH.
  - destruct c; [|exact IH]. constructor; [apply dle_r|]. eapply Forall_impl; [|exact IH]. intros a Ha. eapply dle_trans; [exact Ha | apply dle_l]. Qed.

(* ... and it is the least such dtype: the promoted dtype of all operands *)
Theorem dxtype_least (e : dexp) u : Forall (fun d => dle d u) (dops e) -> dle (dxtype e) u.
Proof. revert u. induction e as [d|x y IHx IHy|x l IHx IHl|x IH|c x IH] using dexp_ind2; intros u H; cbn [dops dxtype] in *.
  - inversion H; assumption.
  - apply Forall_app in H as [H1 H2]. apply dle_lub; [apply IHx | apply IHy]; assumption.
  - apply Forall_app in H as [H1 H2]. apply fold_least; [apply IHx; exact H1|].
    clear H1. induction l as [|y r IHr]; [constructor|]. simpl in H2. apply Forall_app in H2 as [Ha Hb]. inversion IHl; subst.
    constructor; [match goal with H : forall u, _ -> dle (dxtype y) u |- _ => apply H; exact Ha end | apply IHr; assumption].
  - apply IH; exact H.
  - destruct c; [|apply IH; exact H]. inversion H; subst. apply dle_lub; [apply IH; assumption | assumption]. Qed.

(* consequently the result dtype does not depend on nesting or order: two expressions over the same operand dtypes agree *)
Corollary dxtype_operands_only (e1 e2 : dexp) :
  (forall d, In d (dops e1) <-> In d (dops e2)) -> dxtype e1 = dxtype e2.
Proof. intros H. apply dle_antisym; apply dxtype_least; apply Forall_forall; intros d Hd.
  - pose proof (dxtype_upper e2) as U. rewrite Forall_forall in U. apply U, H, Hd.
  - pose proof (dxtype_upper e1) as U. rewrite Forall_forall in U. apply U, H, Hd. Qed.

(* in-Coq comparison: (expression, dtype reported by the implementation) *)
Fixpoint dfailing (i : nat) (cs : list (dexp * dt)) : list nat :=
  match cs with [] => [] | (e, d) :: r => if dt_eqb (dxtype e) d then dfailing (S i) r else i :: dfailing (S i) r end.
