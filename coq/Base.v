From Coq Require Import Arith Lia List Ring ArithRing PeanoNat Bool.
Import ListNotations.
Declare Scope R_scope. Delimit Scope R_scope with R.

Class Ring (R : Type) := {
  r0 : R; r1 : R; radd : R -> R -> R; rmul : R -> R -> R; rsub : R -> R -> R; ropp : R -> R;
  Rth : ring_theory r0 r1 radd rmul rsub ropp eq }.
Notation "x + y" := (radd x y) : R_scope. Notation "x * y" := (rmul x y) : R_scope.
Notation "x - y" := (rsub x y) : R_scope. Notation "- x" := (ropp x) : R_scope.

Section Base.
Context {R : Type} {RR : Ring R}.
Add Ring Rring : Rth.
Open Scope R_scope.

Fixpoint sum (n:nat) (f:nat->R) : R := match n with 0 => r0 | S k => sum k f + f k end.
Lemma sum_ext n f g : (forall i, (i < n)%nat -> f i = g i) -> sum n f = sum n g.
Proof. induction n; simpl; intros H; [reflexivity|]. rewrite IHn, H by (intros; try apply H; lia). reflexivity. Qed.
Lemma sum_add n f g : sum n (fun i => f i + g i) = sum n f + sum n g.
Proof. induction n; simpl; [ring|rewrite IHn; ring]. Qed.
Lemma sum_mul_l n c f : sum n (fun i => c * f i) = c * sum n f.
Proof. induction n; simpl; [ring|rewrite IHn; ring]. Qed.
Lemma sum_mul_r n c f : sum n (fun i => f i * c) = sum n f * c.
Proof. induction n; simpl; [ring|rewrite IHn; ring]. Qed.
Lemma sum_zero n : sum n (fun _ => r0) = r0.
Proof. induction n; simpl; [ring|rewrite IHn; ring]. Qed.
Lemma sum_swap m n (f:nat->nat->R) : sum m (fun i => sum n (fun j => f i j)) = sum n (fun j => sum m (fun i => f i j)).
Proof. induction m; simpl. - rewrite sum_zero; reflexivity. - rewrite IHm, <- sum_add. reflexivity. Qed.
Lemma sum_app m n f : sum (m+n)%nat f = sum m f + sum n (fun j => f (m+j)%nat).
Proof. induction n; simpl. - rewrite Nat.add_0_r; simpl; ring. - rewrite Nat.add_succ_r; simpl. rewrite IHn. ring. Qed.
Lemma sum_prod m n f : sum (m*n)%nat f = sum m (fun i => sum n (fun j => f (i*n+j)%nat)).
Proof. induction m; simpl; [reflexivity|]. rewrite Nat.add_comm, sum_app, IHm. reflexivity. Qed.
Definition delta (a b : nat) : R := if Nat.eqb a b then r1 else r0.
Lemma sum_delta_l n c f : (c < n)%nat -> sum n (fun j => delta c j * f j) = f c.
Proof. induction n; intros H; [lia|]. simpl. destruct (Nat.eq_dec c n) as [->|Hne].
  - unfold delta at 2. rewrite Nat.eqb_refl. rewrite (sum_ext n _ (fun _ => r0)), sum_zero; [ring|].
    intros i Hi. unfold delta. destruct (Nat.eqb_spec n i); [lia|ring].
  - rewrite IHn by lia. unfold delta. destruct (Nat.eqb_spec c n); [lia|ring]. Qed.
Lemma sum_delta_r n c f : (c < n)%nat -> sum n (fun j => f j * delta j c) = f c.
Proof. intros H. rewrite (sum_ext n _ (fun j => delta c j * f j)); [apply sum_delta_l; auto|].
  intros i Hi. unfold delta. rewrite (Nat.eqb_sym i c). ring. Qed.

(* arrays *)
Definition fm := nat -> nat -> R.
Record arr := mkarr { nr : nat; nc : nat; dat : fm }.
Definition feq (m n : nat) (A B : fm) := forall i j, (i < m)%nat -> (j < n)%nat -> A i j = B i j.
Definition aeq (a b : arr) := nr a = nr b /\ nc a = nc b /\ feq (nr a) (nc a) (dat a) (dat b).
Definition tab (m n : nat) (f : fm) : list (list R) := map (fun i => map (fun j => f i j) (seq 0 n)) (seq 0 m).
Definition getl (l : list (list R)) (i j : nat) : R := nth j (nth i l []) r0.
Lemma getl_tab m n f i j : (i < m)%nat -> (j < n)%nat -> getl (tab m n f) i j = f i j.
Proof. intros Hi Hj. unfold getl, tab.
  rewrite (nth_indep _ [] (map (fun j => f 0%nat j) (seq 0 n))) by (rewrite map_length, seq_length; lia).
  rewrite (map_nth (fun i => map (fun j => f i j) (seq 0 n)) (seq 0 m) 0%nat i), seq_nth by lia. simpl.
  rewrite (nth_indep _ r0 (f i 0%nat)) by (rewrite map_length, seq_length; lia).
  rewrite (map_nth (fun j => f i j) (seq 0 n) 0%nat j), seq_nth by lia. reflexivity. Qed.
Definition memo (a : arr) : arr := let l := tab (nr a) (nc a) (dat a) in mkarr (nr a) (nc a) (fun i j => getl l i j).
Lemma memo_aeq a : aeq (memo a) a.
Proof. unfold aeq, memo; simpl. repeat split; auto. intros i j Hi Hj. apply getl_tab; auto. Qed.
Lemma feq_refl m n A : feq m n A A. Proof. intros i j _ _; reflexivity. Qed.
Lemma feq_sym m n A B : feq m n A B -> feq m n B A. Proof. intros H i j Hi Hj; symmetry; auto. Qed.
Lemma feq_trans m n A B C : feq m n A B -> feq m n B C -> feq m n A C.
Proof. intros H1 H2 i j Hi Hj. rewrite H1, H2; auto. Qed.
Lemma aeq_refl a : aeq a a. Proof. repeat split; auto using feq_refl. Qed.
Lemma aeq_sym a b : aeq a b -> aeq b a.
Proof. intros (H1&H2&H3). repeat split; auto. rewrite <- H1, <- H2. apply feq_sym; auto. Qed.
Lemma aeq_trans a b c : aeq a b -> aeq b c -> aeq a c.
Proof. intros (H1&H2&H3) (H4&H5&H6). repeat split; try congruence. eapply feq_trans; eauto. rewrite H1, H2; auto. Qed.

Definition mmul (k:nat) (A B:fm) : fm := fun i j => sum k (fun l => A i l * B l j).
Lemma mmul_ext m k n A A' B B' : feq m k A A' -> feq k n B B' -> feq m n (mmul k A B) (mmul k A' B').
Proof. intros HA HB i j Hi Hj. unfold mmul. apply sum_ext; intros l Hl. rewrite HA, HB; auto. Qed.
Lemma mmul_assoc k l A B C i j : mmul l (mmul k A B) C i j = mmul k A (mmul l B C) i j.
Proof. unfold mmul.
  erewrite sum_ext by (intros; rewrite <- sum_mul_r; reflexivity).
  rewrite sum_swap. apply sum_ext; intros. rewrite <- sum_mul_l. apply sum_ext; intros; ring. Qed.
Definition madd (A B : fm) : fm := fun i j => A i j + B i j.
Lemma mmul_add_l k A B X i j : mmul k (madd A B) X i j = mmul k A X i j + mmul k B X i j.
Proof. unfold mmul, madd. rewrite <- sum_add. apply sum_ext; intros; ring. Qed.
Definition eye : fm := fun i j => delta i j.
Lemma mmul_eye_l k X i j : (i < k)%nat -> mmul k eye X i j = X i j.
Proof. intros. unfold mmul, eye. apply (sum_delta_l k i (fun l => X l j)); auto. Qed.
Lemma mmul_eye_r k X i j : (j < k)%nat -> mmul k X eye i j = X i j.
Proof. intros. unfold mmul, eye. apply (sum_delta_r k j (fun l => X i l)); auto. Qed.
Definition tra (a : arr) : arr := mkarr (nc a) (nr a) (fun i j => dat a j i).
Lemma tra_aeq a b : aeq a b -> aeq (tra a) (tra b).
Proof. intros (H1&H2&H3). unfold tra. repeat split; simpl; auto. intros i j Hi Hj. apply H3; auto. Qed.
End Base.

Class CRing (R : Type) {RR : Ring R} := {
  conj : R -> R;
  conj_add : forall a b, conj (a + b)%R = (conj a + conj b)%R;
  conj_mul : forall a b, conj (a * b)%R = (conj a * conj b)%R;
  conj_invol : forall a, conj (conj a) = a;
  conj_0 : conj r0 = r0;
  conj_1 : conj r1 = r1 }.

