(* Property C14: Lanczos returns an orthonormal Krylov basis and the projected tridiagonal matrix.
   Only statements closed by [exact]; model: C14_Model.v, lemmas: C14_Proofs.v C14_Thms.v C14_Witness.v C14_Inst.v.
   Vector identities are weak: tested against every vector u through the inner product. *)
From Coq Require Import List Arith Bool.
From Core Require Import C14_Model C14_Float C14_Proofs C14_Thms C14_Witness C14_Inst.
Import ListNotations.

(* at most min(max_iters, n) columns - no law needed: holds for floats, aliasing operators and batched starts alike *)
Theorem C14_columns_bound : forall (C V : Type) (o : kops C V) (A : V -> V) (alias rfix : bool) (n : nat) (vs : list V) (max_iters : nat) (tol : C),
  let res := lanczos_batch o A alias rfix n vs max_iters tol in
  fst res <= Nat.min max_iters n /\ length (snd res) = length vs /\
  forall r, In r (snd res) -> length (rQ r) <= fst res /\ length (rdiag r) <= fst res /\ length (roff r) <= fst res - 1.
Proof. exact @lanczos_batch_cols. Qed.
Print Assumptions C14_columns_bound.

(* one iteration of body_fun preserves the loop invariant (orthonormal basis, pending vector orthogonal to it,
   three-term relations with the recorded diag/subdiag, Gram-Schmidt passes are the identity) *)
Theorem C14_step_invariant : forall (C V : Type) (o : kops C V) (A : V -> V) (nonneg : C -> Prop), klaws o A nonneg ->
  forall m i s, 1 <= i <= m -> Inv o A m i s -> o.(vnrm) (col o (lV s) i) <> o.(c0) -> Inv o A m (S i) (lbody o A false i s).
Proof. exact @step_inv. Qed.
Print Assumptions C14_step_invariant.

(* the whole run, Hermitian A, start vector v <> 0, tol >= 0, exact arithmetic: with k the number of returned columns,
   Q_a the columns, T = dense(Tridiagonal(off, diag, off)) and w the pending vector (beta_k = ||w||):
   1 <= k <= min(max_iters,n); Q_0 = v/||v||; Q orthonormal; w orthogonal to Q; A Q = Q T + w e_k^T;
   T = Q^H A Q; T real, symmetric, tridiagonal, with non-negative off-diagonal *)
Theorem C14_whole_run : forall (C V : Type) (o : kops C V) (A : V -> V) (nonneg : C -> Prop), klaws o A nonneg ->
  forall (tol : C) (v : V) (n max_iters : nat) (rfix : bool), nonneg tol -> o.(vnrm) v <> o.(c0) -> 1 <= n -> 1 <= max_iters ->
  exists w : V, lanczos_facts o A nonneg tol v n max_iters rfix w.
Proof. exact @lanczos_run. Qed.
Print Assumptions C14_whole_run.

(* early exit: beta_k = 0 implies A Q = Q T exactly: the span of the returned columns is A-invariant *)
Theorem C14_early_exit_invariant_subspace : forall (C V : Type) (o : kops C V) (A : V -> V) (nonneg : C -> Prop), klaws o A nonneg ->
  forall (tol : C) (v : V) (n max_iters : nat) (rfix : bool) (w : V), lanczos_facts o A nonneg tol v n max_iters rfix w -> o.(vnrm) w = o.(c0) ->
  let r := lanczos1 o A false rfix n v max_iters tol in
  forall b, b < length (rQ r) -> forall u,
    o.(vdot) u (A (nth b (rQ r) o.(vzero))) =
    o.(vdot) u (vcomb o (length (rQ r)) (fun a => Tent o r a b) (fun a => nth a (rQ r) o.(vzero))).
Proof. exact @lanczos_invariant_subspace. Qed.
Print Assumptions C14_early_exit_invariant_subspace.

(* lanczos_eigs: with (theta, Y) an eigen-decomposition of T (the eigh oracle), the returned vectors y_j = Q Y[:, j] satisfy
   A y_j = theta_j y_j + Y[k-1, j] w : Ritz pairs, exact eigenpairs of A when beta_k = 0 *)
Theorem C14_ritz_pairs : forall (C V : Type) (o : kops C V) (A : V -> V) (nonneg : C -> Prop), klaws o A nonneg ->
  forall (tol : C) (v : V) (n max_iters : nat) (rfix : bool), 1 <= n -> 1 <= max_iters ->
  forall (w : V) (theta : nat -> C) (Y : nat -> nat -> C),
  lanczos_facts o A nonneg tol v n max_iters rfix w ->
  let r := lanczos1 o A false rfix n v max_iters tol in
  let k := length (rQ r) in
  (forall a j, a < k -> j < k -> csum o k (fun c => o.(cmul) (Tent o r a c) (Y c j)) = o.(cmul) (theta j) (Y a j)) ->
  forall j, j < k -> forall u,
    o.(vdot) u (A (vcomb o k (fun a => Y a j) (fun a => nth a (rQ r) o.(vzero)))) =
    o.(cadd) (o.(cmul) (theta j) (o.(vdot) u (vcomb o k (fun a => Y a j) (fun a => nth a (rQ r) o.(vzero)))))
             (o.(cmul) (Y (k - 1) j) (o.(vdot) u w)).
Proof. exact @lanczos_ritz. Qed.
Print Assumptions C14_ritz_pairs.


(* Krylov span: each returned column Q_a lies in span{v, A v, .., A^a v} and each A^t v (t < k) lies in span{Q_0..Q_t}:
   the first j columns span the j-th Krylov space, for every j <= k *)
Theorem C14_krylov_span : forall (C V : Type) (o : kops C V) (A : V -> V) (nonneg : C -> Prop), klaws o A nonneg ->
  forall (tol : C) (v : V) (n max_iters : nat) (rfix : bool), o.(vnrm) v <> o.(c0) -> 1 <= n -> 1 <= max_iters ->
  forall w : V, lanczos_facts o A nonneg tol v n max_iters rfix w -> lres_krylov o A (lanczos1 o A false rfix n v max_iters tol) v.
Proof. exact @lanczos_krylov. Qed.
Print Assumptions C14_krylov_span.

(* lanczos_eigs with its oracles (eigh: T Y = Y diag(theta); argsort: a sorting permutation): ascending values, Ritz pairs *)
Theorem C14_lanczos_eigs : forall (C V : Type) (o : kops C V) (A : V -> V) (nonneg : C -> Prop), klaws o A nonneg ->
  forall (tol : C) (v : V) (n max_iters : nat) (rfix : bool), 1 <= n -> 1 <= max_iters ->
  forall (w : V) (cle : C -> C -> Prop)
    (eigh : nat -> (nat -> nat -> C) -> (nat -> C) * (nat -> nat -> C)) (argsort : nat -> (nat -> C) -> nat -> nat),
  lanczos_facts o A nonneg tol v n max_iters rfix w ->
  let r := lanczos1 o A false rfix n v max_iters tol in
  let k := length (rQ r) in
  let T := Tent o r in
  (forall a j, a < k -> j < k -> csum o k (fun c => o.(cmul) (T a c) (snd (eigh k T) c j)) = o.(cmul) (fst (eigh k T) j) (snd (eigh k T) a j)) ->
  (forall j, j < k -> argsort k (fst (eigh k T)) j < k) ->
  (forall i j, i <= j < k -> cle (fst (eigh k T) (argsort k (fst (eigh k T)) i)) (fst (eigh k T) (argsort k (fst (eigh k T)) j))) ->
  let out := lanczos_eigs o A false rfix eigh argsort n v max_iters tol in
  (forall i j, i <= j < k -> cle (fst out i) (fst out j)) /\
  (forall j, j < k -> forall u,
     o.(vdot) u (A (snd out j)) =
     o.(cadd) (o.(cmul) (fst out j) (o.(vdot) u (snd out j)))
              (o.(cmul) (snd (eigh k T) (k - 1) (argsort k (fst (eigh k T)) j)) (o.(vdot) u w))).
Proof. exact @lanczos_eigs_spec. Qed.
Print Assumptions C14_lanczos_eigs.

(* the whole statement for the 1-D start-vector path (batches of one); C14_full (all batch sizes) is refuted by
   C14_batch_shared_stop_refuted *)
Theorem C14_single_start : C14_statement (fun len => len = 1).
Proof. exact C14_single_start_partial. Qed.
Print Assumptions C14_single_start.

(* the hypotheses are satisfiable: Euclidean plane, any symmetric matrix *)
Example C14_laws_satisfiable : forall a b c : Rdefinitions.R, klaws ropsR2 (sym2 a b c) nonnegR.
Proof. exact klaws_R2. Qed.
Print Assumptions C14_laws_satisfiable.

(* the current tree: faithful model on binary64 violates the property (replayed on the implementation by the probes) *)
Theorem C14_alias_identity_refuted : alias_bad true = true /\ alias_bad false = false.
Proof. exact lanczos_alias_refuted. Qed.
Print Assumptions C14_alias_identity_refuted.

Theorem C14_reltol_first_step_refuted : reltol_bad = true.
Proof. exact lanczos_reltol_first_step_refuted. Qed.
Print Assumptions C14_reltol_first_step_refuted.

(* ... and the repaired stopping test (rfix = true: reference ||A q_1||, for which all theorems above hold as well) stops after
   one column on that input *)
Theorem C14_reltol_first_step_repaired : length (rQ (lanczos1 (fops 3) (fmv S3) false true 3 ev3 3 tol7)) = 1.
Proof. exact lanczos_reltol_first_step_repaired. Qed.
Print Assumptions C14_reltol_first_step_repaired.

(* flag lanczos_start_dtype_cast: run of the model on the start vector as the pinned code stores it (imaginary part dropped) *)
Theorem C14_start_dtype_cast_refuted : start_cast_bad true = true /\ start_cast_bad false = false.
Proof. exact lanczos_start_dtype_cast_refuted. Qed.
Print Assumptions C14_start_dtype_cast_refuted.

Theorem C14_batch_shared_stop_refuted : batch_bad = true.
Proof. exact lanczos_batch_shared_stop_refuted. Qed.
Print Assumptions C14_batch_shared_stop_refuted.
