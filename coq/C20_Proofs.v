(* C20: theorems about the __getitem__ model (C20_GetItem.v) over any commutative ring with involution.
   They rest on mm_den (OpProofs.v): the code's products equal the represented matrix times the operand. *)
From Coq Require Import ZArith Arith Lia List Bool Ring.
From Core Require Import Base Kron Op OpProofs PySlice C20_PySliceFacts C20_GetItem.
Import ListNotations.

(* ---------- numpy's integer normalisation *)
Lemma norm_lt z n i : norm z n = Some i -> (i < n)%nat.
Proof. unfold norm. destruct ((0 <=? z)%Z && (z <? Z.of_nat n)%Z) eqn:E1.
  - apply andb_prop in E1 as [A B]. apply Z.leb_le in A. apply Z.ltb_lt in B. intros H; injection H as <-. lia.
  - destruct ((- Z.of_nat n <=? z)%Z && (z <? 0)%Z) eqn:E2; [|discriminate].
    apply andb_prop in E2 as [A B]. apply Z.leb_le in A. apply Z.ltb_lt in B. intros H; injection H as <-. lia. Qed.
Lemma norm_some z n : (- Z.of_nat n <= z < Z.of_nat n)%Z -> exists i, norm z n = Some i.
Proof. intros H. unfold norm. destruct ((0 <=? z)%Z && (z <? Z.of_nat n)%Z) eqn:E1; [eauto|].
  destruct ((- Z.of_nat n <=? z)%Z && (z <? 0)%Z) eqn:E2; [eauto|]. exfalso.
  apply andb_false_iff in E1, E2. rewrite Z.leb_gt, Z.ltb_ge in E1, E2. lia. Qed.
Lemma norms_lt l n l' : norms l n = Some l' -> Forall (fun i => (i < n)%nat) l' /\ length l' = length l.
Proof. revert l'. induction l as [|z l IH]; cbn [norms]; intros l' H.
  - injection H as <-. split; [constructor|reflexivity].
  - destruct (norm z n) as [a|] eqn:Ea; [|discriminate]. destruct (norms l n) as [b|] eqn:Eb; [|discriminate].
    injection H as <-. destruct (IH b eq_refl) as [F L]. split; [constructor; eauto using norm_lt|cbn [length]; congruence]. Qed.

Section C20.
Context {R : Type} {RR : Ring R} {CR : CRing R}.
Add Ring Rring : Rth.
Open Scope R_scope.
Notation fm := (fm (R:=R)). Notation arr := (arr (R:=R)). Notation op := (op (R:=R)).
Notation res := (res (R:=R)). Notation sres := (sres (R:=R)).

(* ---------- products with canonical vectors select columns / rows of the represented matrix *)
Lemma col0_map (Y : arr) len (f : nat -> R) : nr Y = len -> (forall i, (i < len)%nat -> dat Y i 0%nat = f i) ->
  col0 Y = map f (seq 0 len).
Proof. intros H1 H2. unfold col0. rewrite H1. apply map_ext_in. intros i Hi. apply in_seq in Hi. apply H2. lia. Qed.
Lemma matvec_col (e : op) p : wf e = true -> (p < snd (shape e))%nat ->
  matvec e (evec (snd (shape e)) p) = Some (map (fun i => den e i p) (seq 0 (fst (shape e)))).
Proof. intros Hwf Hp. unfold matvec. cbn [evec nr]. rewrite Nat.eqb_refl. f_equal.
  destruct (proj1 (mm_den e Hwf) (evec (snd (shape e)) p) eq_refl) as (E1 & E2 & E3). cbn [spec nr nc dat evec] in E1, E2, E3.
  apply col0_map; [exact E1|]. intros i Hi. rewrite E3 by (rewrite ?E1, ?E2; auto).
  unfold mmul. apply (sum_delta_r (snd (shape e)) p (fun l => den e i l)); auto. Qed.
Lemma matvec_row (e : op) p : wf e = true -> (p < fst (shape e))%nat ->
  matvec (Transp e) (evec (fst (shape e)) p) = Some (map (fun j => den e p j) (seq 0 (snd (shape e)))).
Proof. intros Hwf Hp. assert (HT : wf (Transp e) = true) by exact Hwf.
  pose proof (matvec_col (Transp e) p HT) as H. cbn [shape fst snd den] in H. apply H. exact Hp. Qed.

Lemma nth_map_seq (f : nat -> R) len i : (i < len)%nat -> nth i (map f (seq 0 len)) r0 = f i.
Proof. intros Hi. rewrite (nth_indep _ r0 (f 0%nat)) by (rewrite map_length, seq_length; exact Hi).
  rewrite (map_nth f (seq 0 len) 0%nat i), seq_nth by exact Hi. reflexivity. Qed.
Lemma map_nth_map_seq (f : nat -> R) len l : Forall (fun i => (i < len)%nat) l ->
  map (fun i => nth i (map f (seq 0 len)) r0) l = map f l.
Proof. intros F. apply map_ext_in. intros i Hi. rewrite Forall_forall in F. apply nth_map_seq. auto. Qed.
Lemma indices_Forall s n l : indices s n = Some l -> Forall (fun i => (i < n)%nat) l.
Proof. intros H. apply Forall_forall. exact (indices_in_range s n l H). Qed.

(* v[b] on v = (f 0, ..., f (len-1)) is the spec's selection on that axis *)
Lemma index_vec_spec (f : nat -> R) len b :
  match index_vec (map f (seq 0 len)) b with
  | Err _ => True
  | Scalar x => exists i, spec_axis b len = Some (AInt i) /\ x = f i
  | Vec l => exists ids, spec_axis b len = Some (AIdx ids) /\ l = map f ids
  | SubOp _ => False
  end.
Proof. unfold index_vec. rewrite map_length, seq_length. destruct b as [z|s|l|l]; cbn [spec_axis].
  - destruct (norm z len) as [i|] eqn:E; [|exact I]. exists i. split; [reflexivity|]. apply nth_map_seq. eauto using norm_lt.
  - destruct (indices s len) as [ids|] eqn:E; [|exact I]. exists ids. split; [reflexivity|]. apply map_nth_map_seq. eauto using indices_Forall.
  - destruct (norms l len) as [ids|] eqn:E; [|exact I]. exists ids. split; [reflexivity|]. apply map_nth_map_seq. apply (norms_lt l len ids E).
  - destruct (norms l len) as [ids|] eqn:E; [|exact I]. exists ids. split; [reflexivity|]. apply map_nth_map_seq. apply (norms_lt l len ids E).
Qed.
Lemma index_vec_total (f : nat -> R) len b a : spec_axis b len = Some a -> forall er, index_vec (map f (seq 0 len)) b <> Err er.
Proof. unfold index_vec. rewrite map_length, seq_length. destruct b as [z|s|l|l]; cbn [spec_axis]; intros H er;
  match goal with |- context [match ?x with _ => _ end] => destruct x; [discriminate|discriminate H] end. Qed.

Lemma col_of_spec (e : op) j : wf e = true ->
  match col_of e j with
  | inr v => exists j', norm j (snd (shape e)) = Some j' /\ v = map (fun i => den e i j') (seq 0 (fst (shape e)))
  | inl er => norm j (snd (shape e)) = None
  end.
Proof. intros Hwf. unfold col_of, canonical. destruct (norm j (snd (shape e))) as [j'|] eqn:E; cbn [option_map]; [|reflexivity].
  rewrite matvec_col by eauto using norm_lt. eauto. Qed.
(* the fact `self.T is self` read off the implementation is harmless exactly when the operator is symmetric *)
Definition sym_ok (fl : flags) (e : op) : Prop :=
  f_T_self fl = false \/
  (fst (shape e) = snd (shape e) /\ forall i j, (i < fst (shape e))%nat -> (j < fst (shape e))%nat -> den e i j = den e j i).
Lemma matvec_T fl (e : op) p : wf e = true -> sym_ok fl e -> (p < fst (shape e))%nat ->
  matvec (if f_T_self fl then e else Transp e) (evec (fst (shape e)) p) = Some (map (fun j => den e p j) (seq 0 (snd (shape e)))).
Proof. intros Hwf Hs Hp. unfold sym_ok in Hs. destruct (f_T_self fl) eqn:ET; [|apply matvec_row; auto].
  destruct Hs as [Hs|[Heq Hsym]]; [discriminate|].
  rewrite Heq at 1. rewrite matvec_col by (auto; lia). f_equal. rewrite <- Heq.
  apply map_ext_in. intros j Hj. apply in_seq in Hj. apply Hsym; lia. Qed.
Lemma row_of_spec fl (e : op) i : wf e = true -> sym_ok fl e ->
  match row_of fl e i with
  | inr v => exists i', norm i (fst (shape e)) = Some i' /\ v = map (fun j => den e i' j) (seq 0 (snd (shape e)))
  | inl er => True
  end.
Proof. intros Hwf Hs. unfold row_of, canonical.
  assert (Hcase : (if f_row_len_cols fl then snd (shape e) else fst (shape e)) = fst (shape e) \/
                  (f_row_len_cols fl = true /\ f_T_self fl = false /\ fst (shape e) <> snd (shape e))).
  { destruct (f_row_len_cols fl); [|left; reflexivity]. destruct (Nat.eq_dec (fst (shape e)) (snd (shape e))) as [Heq|Hne]; [left; congruence|].
    destruct Hs as [Hs|[Heq _]]; [right; auto|contradiction]. }
  destruct Hcase as [Hlen|(H1 & H2 & H3)].
  - rewrite Hlen. destruct (norm i (fst (shape e))) as [i'|] eqn:E; cbn [option_map]; [|exact I].
    rewrite matvec_T by eauto using norm_lt. eauto.
  - rewrite H1, H2. destruct (norm i (snd (shape e))) as [i'|] eqn:E; cbn [option_map]; [|exact I].
    unfold matvec. cbn [evec nr shape snd]. destruct (Nat.eqb_spec (snd (shape e)) (fst (shape e))) as [Heq|]; [congruence|exact I]. Qed.
Lemma row_of_total fl (e : op) i i' : wf e = true -> sym_ok fl e -> norm i (fst (shape e)) = Some i' ->
  (f_row_len_cols fl = false \/ fst (shape e) = snd (shape e)) -> exists v, row_of fl e i = inr v.
Proof. intros Hwf Hs E Hsq. unfold row_of, canonical.
  assert (Hlen : (if f_row_len_cols fl then snd (shape e) else fst (shape e)) = fst (shape e)).
  { destruct Hsq as [-> | Heq]; [reflexivity|]. destruct (f_row_len_cols fl); congruence. }
  rewrite Hlen, E. cbn [option_map]. rewrite matvec_T by eauto using norm_lt. eauto. Qed.

(* ---------- the list case (repaired: products with self) *)
Lemma list_go_spec (e : op) li lj : wf e = true -> length li = length lj ->
  match list_go e li lj with
  | inr r => exists rs cs, norms li (fst (shape e)) = Some rs /\ norms lj (snd (shape e)) = Some cs
                           /\ r = map (fun p => den e (fst p) (snd p)) (combine rs cs)
  | inl _ => True
  end.
Proof. intros Hwf. revert lj. induction li as [|i li IH]; intros [|j lj] HL; try discriminate HL; cbn [list_go].
  - exists [], []. repeat split.
  - pose proof (col_of_spec e j Hwf) as Hc. destruct (col_of e j) as [er|v]; [exact I|]. destruct Hc as (j' & Ej & ->).
    rewrite map_length, seq_length. destruct (norm i (fst (shape e))) as [i'|] eqn:Ei; [|exact I].
    specialize (IH lj ltac:(cbn [length] in HL; lia)). destruct (list_go e li lj) as [er|r]; [exact I|].
    destruct IH as (rs & cs & E1 & E2 & ->). exists (i' :: rs), (j' :: cs). cbn [norms]. rewrite Ei, Ej, E1, E2.
    repeat split. cbn [combine map fst snd]. f_equal. apply (nth_map_seq (fun i0 => den e i0 j')). eauto using norm_lt. Qed.
Lemma list_go_total (e : op) li lj rs cs : wf e = true -> norms li (fst (shape e)) = Some rs -> norms lj (snd (shape e)) = Some cs ->
  exists r, list_go e li lj = inr r.
Proof. intros Hwf. revert lj rs cs. induction li as [|i li IH]; intros lj rs cs E1 E2; [destruct lj; cbn [list_go]; eauto|].
  destruct lj as [|j lj]; cbn [list_go]; [eauto|]. cbn [norms] in E1, E2.
  destruct (norm i (fst (shape e))) as [i'|] eqn:Ei; [|discriminate]. destruct (norms li (fst (shape e))) as [rs'|] eqn:Er; [|discriminate].
  destruct (norm j (snd (shape e))) as [j'|] eqn:Ej; [|discriminate]. destruct (norms lj (snd (shape e))) as [cs'|] eqn:Ec; [|discriminate].
  pose proof (col_of_spec e j Hwf) as Hc. destruct (col_of e j) as [er|v]; [congruence|]. destruct Hc as (j'' & _ & ->).
  rewrite map_length, seq_length, Ei. destruct (IH lj rs' cs' eq_refl Ec) as (r & ->). eauto. Qed.

Lemma bcast_same (li lj : list Z) : length li = length lj -> bcast li lj = Some (li, lj).
Proof. intros H. unfold bcast. rewrite H, Nat.eqb_refl. reflexivity. Qed.
Lemma bcast_len (li lj a b : list Z) : bcast li lj = Some (a, b) -> length a = length b.
Proof. unfold bcast. destruct (Nat.eqb_spec (length li) (length lj)) as [E|E].
  - intros H; injection H as <- <-. exact E.
  - destruct li as [|x [|x' li]]; destruct lj as [|y [|y' lj]]; intros H; try discriminate H; injection H as <- <-;
      cbn [length map]; rewrite ?map_length; reflexivity. Qed.
Lemma list_pairs_spec fl (e : op) li lj : wf e = true -> f_list_dotA fl = false -> length li = length lj ->
  (forall er, list_pairs fl e li lj <> Err er) ->
  exists rs cs, norms li (fst (shape e)) = Some rs /\ norms lj (snd (shape e)) = Some cs /\
                list_pairs fl e li lj = Vec (map (fun p => den e (fst p) (snd p)) (combine rs cs)).
Proof. intros Hwf Hd Hsl Hok. unfold list_pairs, list_target in *. rewrite Hd in *.
  destruct li as [|i li].
  { destruct lj; [|discriminate Hsl]. destruct (f_list_empty_err fl); [exfalso; eapply Hok; reflexivity|]. exists [], []. repeat split. }
  destruct lj as [|j lj]; [discriminate Hsl|].
  pose proof (list_go_spec e (i :: li) (j :: lj) Hwf Hsl) as Hg. destruct (list_go e (i :: li) (j :: lj)) as [er|r]; [exfalso; eapply Hok; reflexivity|].
  destruct Hg as (rs & cs & E1 & E2 & ->). exists rs, cs. repeat split; assumption. Qed.
Lemma list_pairs_total fl (e : op) li lj rs cs : wf e = true -> f_list_dotA fl = false -> f_list_empty_err fl = false ->
  norms li (fst (shape e)) = Some rs -> norms lj (snd (shape e)) = Some cs -> forall er, list_pairs fl e li lj <> Err er.
Proof. intros Hwf Hd Hemp E1 E2 er. unfold list_pairs, list_target. rewrite Hd, Hemp.
  destruct (list_go_total e li lj rs cs Hwf E1 E2) as (r & Hr). rewrite Hr. destruct li, lj; discriminate. Qed.

(* ---------- what "the same indexing expression applied to the represented matrix" means for a result *)
Definition res_matches (e : op) (r : res) (s : sres) : Prop :=
  match r, s with
  | Scalar x, SScalar y => x = y
  | Vec l, SVec l' => l = l'
  | SubOp t, SMat rs cs => t = Sliced e rs cs     (* whose den is M[rs][:, cs] by definition; its products: sliced_acts *)
  | _, _ => False
  end.
Definition is_list_pair (q : ix) : bool := match q with Two (IList _) (IList _) => true | _ => false end.
Definition same_len (q : ix) : Prop := match q with Two (IList li) (IList lj) => length li = length lj | _ => True end.

Lemma axis_sel_spec a n l : axis_sel a n = inr l -> spec_axis a n = Some (AIdx l).
Proof. destruct a as [z|s|z|z]; cbn [axis_sel spec_axis]; try discriminate;
  match goal with |- context [match ?x with _ => _ end] => destruct x; [|discriminate] end; intros H; injection H as <-; reflexivity. Qed.
Lemma sliced_spec fl (e : op) a b : is_sa a = true -> is_sa b = true ->
  match sliced fl e a b with
  | SubOp t => exists rs cs, spec_axis a (fst (shape e)) = Some (AIdx rs) /\ spec_axis b (snd (shape e)) = Some (AIdx cs) /\ t = Sliced e rs cs
  | Err _ => True
  | _ => False
  end.
Proof. intros _ _. unfold sliced. destruct (f_arr_cpu fl && (is_arr a || is_arr b)); [exact I|].
  destruct (axis_sel a (fst (shape e))) as [er|rs] eqn:Ea; [exact I|]. destruct (axis_sel b (snd (shape e))) as [er|cs] eqn:Eb; [exact I|].
  exists rs, cs. eauto using axis_sel_spec. Qed.

(* ===== getitem_den: whenever the model returns a value, it is the same indexing expression applied to den e ===== *)
Theorem getitem_den fl (e : op) q : wf e = true -> sym_ok fl e -> listed q = true -> (f_list_zip fl = false \/ same_len q) ->
  (f_list_dotA fl = false \/ is_list_pair q = false) ->
  (forall er, getitem fl e q <> Err er) ->
  exists s, spec_index (den e) (fst (shape e)) (snd (shape e)) q = Some s /\ res_matches e (getitem fl e q) s.
Proof.
  intros Hwf Hsym Hl Hsl HdotA Hok.
  assert (Hcol : forall b j, (forall er, col_then e b j <> Err er) ->
     exists s, spec_two (den e) (fst (shape e)) (snd (shape e)) b (IInt j) = Some s /\ res_matches e (col_then e b j) s).
  { intros b j Hne. unfold col_then in *. pose proof (col_of_spec e j Hwf) as Hc. destruct (col_of e j) as [er|v]; [exfalso; eapply Hne; reflexivity|].
    destruct Hc as (j' & Ej & ->). pose proof (index_vec_spec (fun i => den e i j') (fst (shape e)) b) as Hv.
    unfold spec_two. cbn [spec_axis]. rewrite Ej. cbn [option_map].
    destruct (index_vec _ b) as [er|x|l|t]; [exfalso; eapply Hne; reflexivity| | |contradiction].
    - destruct Hv as (i & -> & ->). eexists; split; reflexivity.
    - destruct Hv as (ids & -> & ->). eexists; split; reflexivity. }
  assert (Hrow : forall i b, (forall z, b <> IInt z) -> (forall er, row_then fl e i b <> Err er) ->
     exists s, spec_two (den e) (fst (shape e)) (snd (shape e)) (IInt i) b = Some s /\ res_matches e (row_then fl e i b) s).
  { intros i b Hb Hne. unfold row_then in *. pose proof (row_of_spec fl e i Hwf Hsym) as Hc. destruct (row_of fl e i) as [er|v]; [exfalso; eapply Hne; reflexivity|].
    destruct Hc as (i' & Ei & ->). pose proof (index_vec_spec (fun j => den e i' j) (snd (shape e)) b) as Hv.
    unfold spec_two. cbn [spec_axis]. rewrite Ei. cbn [option_map].
    destruct (index_vec _ b) as [er|x|l|t]; [exfalso; eapply Hne; reflexivity| | |contradiction].
    - destruct Hv as (j & -> & ->). eexists; split; reflexivity.
    - destruct Hv as (ids & -> & ->). eexists; split; reflexivity. }
  assert (Hsl2 : forall a b, is_sa a = true -> is_sa b = true -> (forall er, sliced fl e a b <> Err er) ->
     exists s, spec_two (den e) (fst (shape e)) (snd (shape e)) a b = Some s /\ res_matches e (sliced fl e a b) s).
  { intros a b Ha Hb Hne. pose proof (sliced_spec fl e a b Ha Hb) as Hs. destruct (sliced fl e a b) as [er|x|l|t]; [exfalso; eapply Hne; reflexivity|contradiction|contradiction|].
    destruct Hs as (rs & cs & E1 & E2 & ->). unfold spec_two. rewrite E1, E2. eexists; split; reflexivity. }
  destruct q as [a|a b|]; [| |discriminate Hl].
  - (* One *) cbn [spec_index]. destruct a as [i|s|l|l]; [| | |discriminate Hl].
    + cbn [getitem] in *. pose proof (row_of_spec fl e i Hwf Hsym) as Hc. destruct (row_of fl e i) as [er|v]; [exfalso; eapply Hok; reflexivity|].
      destruct Hc as (i' & Ei & ->). unfold spec_two. cbn [spec_axis]. rewrite Ei, indices_full. cbn [option_map]. eexists; split; reflexivity.
    + cbn [getitem] in *. apply Hsl2; auto.
    + cbn [getitem] in *. apply Hsl2; auto.
  - (* Two *)
    destruct b as [j|sb|lb|lb].
    + (* b, int(j) *) assert (E : getitem fl e (Two a (IInt j)) = col_then e a j) by (destruct a; reflexivity). rewrite E in *.
      assert (S : spec_index (den e) (fst (shape e)) (snd (shape e)) (Two a (IInt j)) = spec_two (den e) (fst (shape e)) (snd (shape e)) a (IInt j)) by (destruct a; reflexivity).
      rewrite S. apply Hcol; auto.
    + destruct a as [i|sa|la|la]; [| | |discriminate Hl].
      * cbn [getitem spec_index] in *. apply Hrow; [discriminate|auto].
      * cbn [getitem spec_index is_sa andb] in *. apply Hsl2; auto.
      * cbn [getitem spec_index is_sa andb] in *. apply Hsl2; auto.
    + destruct a as [i|sa|la|la]; [| | |discriminate Hl].
      * cbn [getitem spec_index] in *. apply Hrow; [discriminate|auto].
      * cbn [getitem spec_index is_sa andb] in *. apply Hsl2; auto.
      * cbn [getitem spec_index is_sa andb] in *. apply Hsl2; auto.
    + destruct a as [i|sa|la|la]; [|discriminate Hl|discriminate Hl|].
      * cbn [getitem spec_index] in *. apply Hrow; [discriminate|auto].
      * (* list pair *) cbn [getitem spec_index same_len is_list_pair] in *. destruct HdotA as [Hd|Hd]; [|discriminate Hd].
        unfold list_case in *.
        assert (Hb : exists la' lb', bcast la lb = Some (la', lb') /\ length la' = length lb' /\
                     (if f_list_zip fl then list_pairs fl e la lb else match bcast la lb with None => Err EValue | Some (x, y) => list_pairs fl e x y end) = list_pairs fl e la' lb').
        { destruct (f_list_zip fl) eqn:Ez.
          - destruct Hsl as [Hz|Hlen]; [discriminate|]. exists la, lb. rewrite (bcast_same la lb Hlen). auto.
          - destruct (bcast la lb) as [[la' lb']|] eqn:Eb; [|exfalso; eapply Hok; reflexivity].
            exists la', lb'. split; [reflexivity|]. split; [eapply bcast_len; eauto|reflexivity]. }
        destruct Hb as (la' & lb' & Eb & Hlen & Ecase). rewrite Ecase in *. rewrite Eb.
        destruct (list_pairs_spec fl e la' lb' Hwf Hd Hlen Hok) as (rs & cs & -> & -> & ->). eexists; split; reflexivity.
Qed.

(* ===== getitem_total: on the repaired tree (or on square operators for the row forms) every index expression that numpy
   accepts on the represented matrix is accepted ===== *)
Theorem getitem_total fl (e : op) q s : wf e = true -> sym_ok fl e -> listed q = true ->
  f_list_dotA fl = false -> f_arr_cpu fl = false -> f_list_empty_err fl = false -> (f_list_zip fl = false \/ same_len q) ->
  (f_row_len_cols fl = false \/ fst (shape e) = snd (shape e)) ->
  spec_index (den e) (fst (shape e)) (snd (shape e)) q = Some s ->
  forall er, getitem fl e q <> Err er.
Proof.
  intros Hwf Hsym Hl HdotA Hcpu Hemp Hzip Hsq Hs.
  assert (Hax : forall a n l, is_sa a = true -> spec_axis a n = Some (AIdx l) -> axis_sel a n = inr l).
  { intros a n l Ha. destruct a as [z|sl|z|z]; try discriminate Ha; cbn [spec_axis axis_sel];
    match goal with |- context [match ?x with _ => _ end] => destruct x; cbn [option_map]; [|discriminate] end; intros H; injection H as <-; reflexivity. }
  assert (Hsa : forall a n x, is_sa a = true -> spec_axis a n = Some x -> exists l, x = AIdx l).
  { intros a n x Ha. destruct a as [z|sl|z|z]; try discriminate Ha; cbn [spec_axis];
    match goal with |- context [option_map _ ?y] => destruct y; cbn [option_map]; [|discriminate] end; intros H; injection H as <-; eauto. }
  assert (Hsl2 : forall a b s', is_sa a = true -> is_sa b = true -> spec_two (den e) (fst (shape e)) (snd (shape e)) a b = Some s' ->
            forall er, sliced fl e a b <> Err er).
  { intros a b s' Ha Hb. unfold spec_two. destruct (spec_axis a (fst (shape e))) as [x|] eqn:E1; [|discriminate].
    destruct (spec_axis b (snd (shape e))) as [y|] eqn:E2; [|destruct x; discriminate].
    destruct (Hsa a _ x Ha E1) as (rs & ->). destruct (Hsa b _ y Hb E2) as (cs & ->). intros _ er.
    unfold sliced. rewrite Hcpu. cbn [andb]. rewrite (Hax a _ rs Ha E1), (Hax b _ cs Hb E2). discriminate. }
  assert (Hcol : forall b j s', spec_two (den e) (fst (shape e)) (snd (shape e)) b (IInt j) = Some s' -> forall er, col_then e b j <> Err er).
  { intros b j s'. unfold spec_two. destruct (spec_axis b (fst (shape e))) as [x|] eqn:E1; [|discriminate]. cbn [spec_axis].
    destruct (norm j (snd (shape e))) as [j'|] eqn:Ej; cbn [option_map]; [|destruct x; discriminate]. intros _.
    unfold col_then. pose proof (col_of_spec e j Hwf) as Hc. destruct (col_of e j) as [er'|v]; [congruence|]. destruct Hc as (j'' & _ & ->).
    eapply index_vec_total; eauto. }
  assert (Hrow : forall i b s', spec_two (den e) (fst (shape e)) (snd (shape e)) (IInt i) b = Some s' -> forall er, row_then fl e i b <> Err er).
  { intros i b s'. unfold spec_two. cbn [spec_axis]. destruct (norm i (fst (shape e))) as [i'|] eqn:Ei; cbn [option_map]; [|discriminate].
    destruct (spec_axis b (snd (shape e))) as [y|] eqn:E2; [|discriminate]. intros _.
    unfold row_then. destruct (row_of_total fl e i i' Hwf Hsym Ei Hsq) as (v & Hv). rewrite Hv.
    pose proof (row_of_spec fl e i Hwf Hsym) as Hc. rewrite Hv in Hc. destruct Hc as (i'' & _ & ->). eapply index_vec_total; eauto. }
  destruct q as [a|a b|]; [| |discriminate Hl].
  - cbn [spec_index] in Hs. destruct a as [i|sl|l|l]; [| | |discriminate Hl]; cbn [getitem].
    + unfold spec_two in Hs. cbn [spec_axis] in Hs. destruct (norm i (fst (shape e))) as [i'|] eqn:Ei; cbn [option_map] in Hs; [|discriminate].
      destruct (row_of_total fl e i i' Hwf Hsym Ei Hsq) as (v & ->). discriminate.
    + eapply Hsl2; eauto.
    + eapply Hsl2; eauto.
  - destruct b as [j|sb|lb|lb].
    + assert (E : getitem fl e (Two a (IInt j)) = col_then e a j) by (destruct a; reflexivity). rewrite E.
      assert (S : spec_index (den e) (fst (shape e)) (snd (shape e)) (Two a (IInt j)) = spec_two (den e) (fst (shape e)) (snd (shape e)) a (IInt j)) by (destruct a; reflexivity).
      rewrite S in Hs. eapply Hcol; eauto.
    + destruct a as [i|sa|la|la]; [| | |discriminate Hl]; cbn [getitem spec_index is_sa andb] in *; [eapply Hrow|eapply Hsl2|eapply Hsl2]; eauto.
    + destruct a as [i|sa|la|la]; [| | |discriminate Hl]; cbn [getitem spec_index is_sa andb] in *; [eapply Hrow|eapply Hsl2|eapply Hsl2]; eauto.
    + destruct a as [i|sa|la|la]; [|discriminate Hl|discriminate Hl|]; cbn [getitem spec_index] in *; [eapply Hrow; eauto|].
      destruct (bcast la lb) as [[la' lb']|] eqn:Eb; [|discriminate].
      destruct (norms la' (fst (shape e))) as [rs|] eqn:E1; [|discriminate]. destruct (norms lb' (snd (shape e))) as [cs|] eqn:E2; [|discriminate].
      unfold list_case. destruct (f_list_zip fl) eqn:Ez.
      * destruct Hzip as [Hz|Hlen]; [discriminate|]. cbn [same_len] in Hlen. rewrite (bcast_same la lb Hlen) in Eb. injection Eb as <- <-.
        eapply list_pairs_total; eauto.
      * rewrite Eb. eapply list_pairs_total; eauto.
Qed.

(* ===== the sub-operator returned for slices acts as the selected sub-matrix ===== *)
Lemma NoDup_nodupb l : NoDup l -> nodupb l = true.
Proof. induction 1 as [|x l Hx _ IH]; [reflexivity|]. cbn [nodupb]. rewrite IH, andb_true_r. apply negb_true_iff.
  destruct (existsb (Nat.eqb x) l) eqn:E; [|reflexivity]. apply existsb_exists in E as (y & Hy & Exy). apply Nat.eqb_eq in Exy. subst. contradiction. Qed.
Lemma wf_Sliced (e : op) rs cs : wf e = true -> Forall (fun i => (i < fst (shape e))%nat) rs -> Forall (fun j => (j < snd (shape e))%nat) cs ->
  NoDup rs -> NoDup cs -> wf (Sliced e rs cs) = true.
Proof. intros Hwf Fr Fc Nr Nc. cbn [wf]. rewrite Hwf, (NoDup_nodupb _ Nr), (NoDup_nodupb _ Nc), !andb_true_r. cbn [andb].
  apply andb_true_intro. split; apply forallb_forall; intros x Hx; apply Nat.ltb_lt; [rewrite Forall_forall in Fr|rewrite Forall_forall in Fc]; auto. Qed.
Lemma axis_sel_range a n l : axis_sel a n = inr l -> Forall (fun i => (i < n)%nat) l.
Proof. destruct a as [z|s|z|z]; cbn [axis_sel]; try discriminate.
  - destruct (indices s n) eqn:E; [|discriminate]. intros H; injection H as <-. eauto using indices_Forall.
  - destruct (norms z n) eqn:E; [|discriminate]. intros H; injection H as <-. apply (norms_lt z n l0 E).
  - destruct (norms z n) eqn:E; [|discriminate]. intros H; injection H as <-. apply (norms_lt z n l0 E). Qed.
Lemma axis_sel_slice_nodup s n l : axis_sel (ISlice s) n = inr l -> NoDup l.
Proof. cbn [axis_sel]. destruct (indices s n) eqn:E; [|discriminate]. intros H; injection H as <-. eauto using indices_nodup. Qed.

(* A[a, b] for slices / duplicate-free index arrays: a well-formed Sliced node, hence (mm_den) its products are
   the sub-matrix M[rs][:, cs] times the operand, from the right and from the left, and its entries are those of M *)
Theorem sliced_acts fl (e t : op) a b : wf e = true -> sliced fl e a b = SubOp t ->
  exists rs cs, t = Sliced e rs cs /\ axis_sel a (fst (shape e)) = inr rs /\ axis_sel b (snd (shape e)) = inr cs /\
  shape t = (length rs, length cs) /\
  (forall i j, den t i j = den e (nth i rs 0%nat) (nth j cs 0%nat)) /\
  (NoDup rs -> NoDup cs ->
     wf t = true /\ (forall X, nr X = length cs -> aeq (matmat t X) (mkarr (length rs) (nc X) (mmul (length cs) (den t) (dat X))))
     /\ (forall X, nc X = length rs -> aeq (rmatmat t X) (mkarr (nr X) (length cs) (mmul (length rs) (dat X) (den t))))).
Proof. intros Hwf. unfold sliced. destruct (f_arr_cpu fl && (is_arr a || is_arr b)); [discriminate|].
  destruct (axis_sel a (fst (shape e))) as [er|rs] eqn:Ea; [discriminate|]. destruct (axis_sel b (snd (shape e))) as [er|cs] eqn:Eb; [discriminate|].
  intros H; injection H as <-. exists rs, cs.
  split; [reflexivity|]. split; [reflexivity|]. split; [reflexivity|]. split; [reflexivity|]. split; [intros; reflexivity|].
  intros N1 N2. assert (W : wf (Sliced e rs cs) = true) by (apply wf_Sliced; eauto using axis_sel_range).
  split; [exact W|]. split; intros X HX.
  - exact (proj1 (mm_den (Sliced e rs cs) W) X HX).
  - exact (proj2 (mm_den (Sliced e rs cs) W) X HX).
Qed.
Corollary slices_acts fl (e t : op) s1 s2 : wf e = true -> getitem fl e (Two (ISlice s1) (ISlice s2)) = SubOp t ->
  exists rs cs, indices s1 (fst (shape e)) = Some rs /\ indices s2 (snd (shape e)) = Some cs /\ t = Sliced e rs cs /\ wf t = true /\
  (forall X, nr X = length cs -> aeq (matmat t X) (mkarr (length rs) (nc X) (mmul (length cs) (fun i j => den e (nth i rs 0%nat) (nth j cs 0%nat)) (dat X)))).
Proof. intros Hwf H. cbn [getitem is_sa andb] in H. destruct (sliced_acts fl e t _ _ Hwf H) as (rs & cs & -> & Ea & Eb & _ & _ & Hn).
  exists rs, cs. pose proof (axis_sel_slice_nodup _ _ _ Ea) as N1. pose proof (axis_sel_slice_nodup _ _ _ Eb) as N2.
  destruct (Hn N1 N2) as (W & HF & _). cbn [axis_sel] in Ea, Eb.
  destruct (indices s1 (fst (shape e))) as [l1|]; [|discriminate]. destruct (indices s2 (snd (shape e))) as [l2|]; [|discriminate].
  injection Ea as ->. injection Eb as ->. split; [reflexivity|]. split; [reflexivity|]. split; [reflexivity|]. split; [exact W|].
  intros X HX. exact (HF X HX). Qed.
End C20.
