From Coq Require Import ZArith List Bool Arith Ring Lia.
From Core Require Import Base Kron Op.
Import ListNotations.
(* Gaussian integers *)
Definition zi := (Z * Z)%type.
Definition zi0 : zi := (0,0)%Z. Definition zi1 : zi := (1,0)%Z.
Definition ziadd (a b : zi) : zi := (fst a + fst b, snd a + snd b)%Z.
Definition zimul (a b : zi) : zi := (fst a * fst b - snd a * snd b, fst a * snd b + snd a * fst b)%Z.
Definition ziopp (a : zi) : zi := (- fst a, - snd a)%Z.
Definition zisub (a b : zi) : zi := ziadd a (ziopp b).
Definition ziconj (a : zi) : zi := (fst a, - snd a)%Z.
Lemma zi_eq (a b : zi) : fst a = fst b -> snd a = snd b -> a = b.
Proof. destruct a, b; simpl; congruence. Qed.
Lemma ZIth : ring_theory zi0 zi1 ziadd zimul zisub ziopp eq.
Proof. constructor; intros; repeat match goal with x : zi |- _ => destruct x end; unfold zisub, ziadd, zimul, ziopp, zi0, zi1; cbn [fst snd]; f_equal; try ring. Qed.
#[export] Instance ZIRing : Ring zi := {| r0 := zi0; r1 := zi1; radd := ziadd; rmul := zimul; rsub := zisub; ropp := ziopp; Rth := ZIth |}.
#[export] Program Instance ZICRing : CRing zi := {| conj := ziconj |}.
Next Obligation. destruct a, b; unfold ziconj, ziadd; cbn [fst snd]; f_equal; ring. Qed.
Next Obligation. destruct a, b; unfold ziconj, zimul; cbn [fst snd]; f_equal; ring. Qed.
Next Obligation. destruct a; unfold ziconj; cbn [fst snd]; f_equal; ring. Qed.
Definition of_list (l : list (list zi)) : arr (R:=zi) :=
  mkarr (length l) (match l with [] => 0%nat | r :: _ => length r end) (fun i j => nth j (nth i l []) zi0).
Definition of_vec (l : list zi) : nat -> zi := fun i => nth i l zi0.
Definition zi_eqb (a b : zi) := Z.eqb (fst a) (fst b) && Z.eqb (snd a) (snd b).
Definition arr_eqb (a : arr (R:=zi)) (l : list (list zi)) : bool :=
  let b := of_list l in
  Nat.eqb (nr a) (nr b) && (Nat.eqb (nc a) (nc b) || Nat.eqb (nr a) 0) &&
  forallb (fun i => forallb (fun j => zi_eqb (dat a i j) (dat b i j)) (seq 0 (nc a))) (seq 0 (nr a)).
Record case := { ce : op (R:=zi); cx : list (list zi); cxl : list (list zi); cdense : list (list zi); cres : list (list zi); cresl : list (list zi) }.
Definition check (c : case) : bool :=
  let e := ce c in
  arr_eqb (mkarr (fst (shape e)) (snd (shape e)) (den e)) (cdense c) && arr_eqb (matmat e (of_list (cx c))) (cres c)
  && arr_eqb (rmatmat e (of_list (cxl c))) (cresl c) && wf e.
Fixpoint mism (i : nat) (cs : list case) : list nat := match cs with [] => [] | c :: r => if check c then mism (S i) r else i :: mism (S i) r end.
Definition of_list_mn (m n : nat) (l : list (list zi)) : arr (R:=zi) := mkarr m n (fun i j => nth j (nth i l []) zi0).
Definition of_nvec (l : list nat) : nat -> nat := fun i => nth i l 0%nat.
Definition arr_eqb_mn (a : arr (R:=zi)) (m n : nat) (l : list (list zi)) : bool :=
  Nat.eqb (nr a) m && Nat.eqb (nc a) n &&
  forallb (fun i => forallb (fun j => zi_eqb (dat a i j) (nth j (nth i l []) zi0)) (seq 0 n)) (seq 0 m).
(* generic driver: indices of the cases whose boolean check fails *)
Fixpoint failing {A} (chk : A -> bool) (i : nat) (cs : list A) : list nat :=
  match cs with [] => [] | c :: r => if chk c then failing chk (S i) r else i :: failing chk (S i) r end.
