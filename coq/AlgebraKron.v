(* Soundness of kron / kronsum / block_diag: flattening nested Kronecker products and sums and
   fusing Diagonal (x) Diagonal preserve the represented matrix. *)
From Coq Require Import Arith Lia List Ring ArithRing PeanoNat Bool.
From Core Require Import Base Kron Op OpProofs Algebra AlgebraProofs.
Import ListNotations.
Section AK.
Context {R : Type} {RR : Ring R} {CR : CRing R}.
Add Ring Rring : Rth.
Open Scope R_scope.
Notation fm := (fm (R:=R)). Notation arr := (arr (R:=R)). Notation op := (op (R:=R)). Notation fac := (fac (R:=R)).

(* index arithmetic *)
Lemma div_div' i b c : (0 < b)%nat -> (0 < c)%nat -> (i / c / b = i / (b * c))%nat.
Proof. intros. rewrite Nat.div_div by lia. rewrite (Nat.mul_comm c b). reflexivity. Qed.
Lemma mod_div' i b c : (0 < b)%nat -> (0 < c)%nat -> ((i mod (b * c)) / c = (i / c) mod b)%nat.
Proof. intros. rewrite (Nat.mul_comm b c), Nat.mod_mul_r by lia.
  rewrite (Nat.mul_comm c), Nat.div_add by lia. rewrite Nat.div_small by (apply Nat.mod_upper_bound; lia). reflexivity. Qed.
Lemma mod_mod' i b c : (0 < b)%nat -> (0 < c)%nat -> ((i mod (b * c)) mod c = i mod c)%nat.
Proof. intros. rewrite (Nat.mul_comm b c), Nat.mod_mul_r by lia.
  rewrite (Nat.mul_comm c), Nat.mod_add by lia. apply Nat.mod_mod; lia. Qed.
Lemma delta_divmod n a b : (0 < n)%nat -> delta (R:=R) a b = delta (a / n)%nat (b / n)%nat * delta (a mod n)%nat (b mod n)%nat.
Proof. intros Hn. unfold delta. destruct (Nat.eqb_spec a b) as [->|Hne].
  - rewrite !Nat.eqb_refl. ring.
  - destruct (Nat.eqb_spec (a / n) (b / n)) as [E1|]; [|ring]. destruct (Nat.eqb_spec (a mod n) (b mod n)) as [E2|]; [|ring].
    exfalso. apply Hne. rewrite (Nat.div_mod a n), (Nat.div_mod b n) by lia. congruence. Qed.

(* associativity of the binary Kronecker product (entry-wise, positive inner factor shapes) *)
Lemma kron2_assoc (A B C : fac) i j : (0 < fr B)%nat -> (0 < fc B)%nat -> (0 < fr C)%nat -> (0 < fc C)%nat ->
  fmx (kron2 (kron2 A B) C) i j = fmx (kron2 A (kron2 B C)) i j.
Proof. intros. cbn [kron2 fmx fr fc]. rewrite !div_div', !mod_div', !mod_mod' by lia. ring. Qed.
Lemma pos_app (l1 l2 : list fac) : pos l1 -> pos l2 -> pos (l1 ++ l2).
Proof. unfold pos. intros. rewrite forallb_app. rewrite H, H0. reflexivity. Qed.
Lemma kronR_app_dims (l1 l2 : list fac) : fr (kronR (l1 ++ l2)) = (fr (kronR l1) * fr (kronR l2))%nat /\ fc (kronR (l1 ++ l2)) = (fc (kronR l1) * fc (kronR l2))%nat.
Proof. induction l1 as [|M l1 [IH1 IH2]]; cbn [app kronR kron2 fr fc one11]; [lia|]. rewrite IH1, IH2. lia. Qed.
Lemma kronR_app (l1 l2 : list fac) : pos l1 -> pos l2 -> forall i j,
  (i < fr (kronR (l1 ++ l2)))%nat -> (j < fc (kronR (l1 ++ l2)))%nat ->
  fmx (kronR (l1 ++ l2)) i j = fmx (kron2 (kronR l1) (kronR l2)) i j.
Proof. intros P1 P2. destruct (fr_kronR_pos l2 P2) as [R2 C2]. induction l1 as [|M l1 IH]; intros i j Hi Hj.
  - cbn [app kronR] in *. cbn [kron2 fmx one11 fr fc]. rewrite ?Nat.div_small, ?Nat.mod_small by lia. ring.
  - assert (P1' : pos l1). { unfold pos in *. cbn [forallb] in P1. apply andb_prop in P1; tauto. }
    destruct (fr_kronR_pos l1 P1') as [R1 C1]. destruct (kronR_app_dims l1 l2) as [D1 D2].
    cbn [app kronR] in *. rewrite kron2_assoc by auto.
    cbn [kron2 fmx fr fc] in *. rewrite D1, D2 in *.
    rewrite (IH P1'); [cbn [kron2 fmx]; reflexivity| apply Nat.mod_upper_bound; nia | apply Nat.mod_upper_bound; nia].
Qed.

Definition posop (e : op) := (0 <? fst (shape e))%nat && (0 <? snd (shape e))%nat = true.
Lemma kfactors_wf (a : op) : wf a = true -> posop a ->
  forallb wf (kfactors a) = true /\ posl (kfactors a) /\
  kshape (map shape (kfactors a)) = shape a /\
  forall i j, (i < fst (shape a))%nat -> (j < snd (shape a))%nat -> fmx (kronR (map facof (kfactors a))) i j = den a i j.
Proof. intros Wa Pa.
  assert (G : forallb wf [a] = true /\ posl [a] /\ kshape (map shape [a]) = shape a /\
     forall i j, (i < fst (shape a))%nat -> (j < snd (shape a))%nat -> fmx (kronR (map facof [a])) i j = den a i j).
  { cbn [forallb map]. rewrite Wa. repeat split; auto.
    - unfold posl. cbn [map forallb]. unfold posop in Pa. rewrite Pa. reflexivity.
    - cbn [kshape fold_right fst snd]. destruct (shape a); cbn [fst snd]. f_equal; lia.
    - intros i j Hi Hj. cbn [kronR kron2 fmx one11 fr fc facof]. rewrite ?Nat.div_1_r, ?Nat.mod_1_r. ring. }
  destruct a; try exact G. clear G. cbn [kfactors]. cbn [wf] in Wa. apply andb_prop in Wa as [W P]. repeat split; auto. Qed.
Theorem kron_sound (a b : op) : wf a = true -> wf b = true -> posop a -> posop b ->
  wf (kron a b) = true /\ shape (kron a b) = (fst (shape a) * fst (shape b), snd (shape a) * snd (shape b))%nat /\
  feq (fst (shape a) * fst (shape b)) (snd (shape a) * snd (shape b)) (den (kron a b)) (fmx (kron2 (facof a) (facof b))).
Proof. intros Wa Wb Pa Pb.
  assert (G : wf (Kron (kfactors a ++ kfactors b)) = true /\
     shape (Kron (kfactors a ++ kfactors b)) = (fst (shape a) * fst (shape b), snd (shape a) * snd (shape b))%nat /\
     feq (fst (shape a) * fst (shape b)) (snd (shape a) * snd (shape b)) (den (Kron (kfactors a ++ kfactors b))) (fmx (kron2 (facof a) (facof b)))).
  { destruct (kfactors_wf a Wa Pa) as (Fa & Qa & Sa & Da). destruct (kfactors_wf b Wb Pb) as (Fb & Qb & Sb & Db).
    assert (Hs : shape (Kron (kfactors a ++ kfactors b)) = (fst (shape a) * fst (shape b), snd (shape a) * snd (shape b))%nat).
    { cbn [shape]. rewrite kshape_kronR, map_app. destruct (kronR_app_dims (map facof (kfactors a)) (map facof (kfactors b))) as [E1 E2].
      rewrite E1, E2. rewrite kshape_kronR in Sa, Sb. rewrite <- Sa, <- Sb. reflexivity. }
    repeat split; auto.
    - cbn [wf]. rewrite forallb_app, Fa, Fb. cbn [andb]. rewrite map_app, forallb_app. apply andb_true_intro; split; [exact Qa|exact Qb].
    - intros i j Hi Hj. change (den (Kron (kfactors a ++ kfactors b))) with (fmx (kronR (map facof (kfactors a ++ kfactors b)))).
      rewrite map_app. rewrite kshape_kronR in Sa, Sb.
      assert (Ea : fr (kronR (map facof (kfactors a))) = fst (shape a) /\ fc (kronR (map facof (kfactors a))) = snd (shape a)) by (rewrite <- Sa; auto).
      assert (Eb : fr (kronR (map facof (kfactors b))) = fst (shape b) /\ fc (kronR (map facof (kfactors b))) = snd (shape b)) by (rewrite <- Sb; auto).
      destruct Ea as [Ea1 Ea2]. destruct Eb as [Eb1 Eb2].
      unfold posop in Pa, Pb. apply andb_prop in Pa as [Pa1 Pa2]. apply andb_prop in Pb as [Pb1 Pb2]. apply Nat.ltb_lt in Pa1, Pa2, Pb1, Pb2.
      rewrite kronR_app; [| apply posl_pos; auto | apply posl_pos; auto | |].
      + cbn [kron2 fmx facof fr fc]. rewrite Ea1, Ea2, Eb1, Eb2 in *.
        rewrite Da, Db; [reflexivity | apply Nat.mod_upper_bound; lia | apply Nat.mod_upper_bound; lia
                        | apply Nat.div_lt_upper_bound; nia | apply Nat.div_lt_upper_bound; nia].
      + destruct (kronR_app_dims (map facof (kfactors a)) (map facof (kfactors b))) as [E1 _]. rewrite E1, Ea1, Eb1. exact Hi.
      + destruct (kronR_app_dims (map facof (kfactors a)) (map facof (kfactors b))) as [_ E2]. rewrite E2, Ea2, Eb2. exact Hj. }
  destruct a; try exact G. destruct b; try exact G. clear G.
  (* Diagonal (x) Diagonal fused into one Diagonal *)
  cbn [kron wf shape den fst snd facof kron2 fmx fr fc]. repeat split; auto. intros i j Hi Hj.
  unfold posop in Pb. cbn [shape fst snd] in Pb. apply andb_prop in Pb as [Pb _]. apply Nat.ltb_lt in Pb.
  rewrite (delta_divmod n0 i j) by auto. ring. Qed.

(* block_diag *)
Theorem block_diag_sound (l : list op) : forallb wf l = true ->
  wf (block_diag l) = true /\
  shape (block_diag l) = bshape (map (fun e => (shape e, 1%nat)) l) /\
  forall i j, den (block_diag l) i j = bd (map (fun e => (shape e, den e)) l) i j.
Proof. intros W. unfold block_diag. repeat split.
  - cbn [wf]. rewrite forallb_forall in *. intros [e c] H. apply in_map_iff in H as [e' [E H]]. inversion E; subst. cbn [fst]. auto.
  - cbn [shape]. rewrite map_map. reflexivity.
  - intros i j. cbn [den]. rewrite map_map. cbn [fst snd rep].
    replace (concat (map (fun x : op => [(shape x, den x)]) l)) with (map (fun e : op => (shape e, den e)) l); [reflexivity|].
    induction l as [|e l IH]; [reflexivity|]. cbn [map concat app]. f_equal. apply IH. cbn [forallb] in W. apply andb_prop in W; tauto. Qed.

(* ---------- Kronecker sums ---------- *)
Definition sqfac (A : fac) := fr A = fc A /\ (0 < fr A)%nat.
Lemma ksum2_assoc (A B C : fac) i j : sqfac B -> sqfac C ->
  fmx (ksum2 (ksum2 A B) C) i j = fmx (ksum2 A (ksum2 B C)) i j.
Proof. intros [EB PB] [EC PC]. cbn [ksum2 fmx fr fc]. rewrite <- EB, <- EC.
  rewrite !div_div', !mod_div', !mod_mod' by lia.
  rewrite (delta_divmod (fr C) (i mod (fr B * fr C)) (j mod (fr B * fr C))) by lia.
  rewrite !mod_div', !mod_mod' by lia.
  rewrite (delta_divmod (fr B) (i / fr C) (j / fr C)) by lia.
  rewrite !div_div' by lia. ring. Qed.
Definition sqfacs (l : list fac) := Forall sqfac l.
Lemma ksumR_dims (l : list fac) : sqfacs l -> sqfac (ksumR l).
Proof. induction 1 as [|M l [E P] _ [E' P']]; cbn [ksumR]; [split; cbn; lia|]. split; cbn [ksum2 fr fc]; [rewrite E, E'; reflexivity|nia]. Qed.
Lemma ksumR_app_fr (l1 l2 : list fac) : fr (ksumR (l1 ++ l2)) = (fr (ksumR l1) * fr (ksumR l2))%nat /\ fc (ksumR (l1 ++ l2)) = (fc (ksumR l1) * fc (ksumR l2))%nat.
Proof. induction l1 as [|M l1 [IH1 IH2]]; cbn [app ksumR ksum2 fr fc zero11]; [lia|]. rewrite IH1, IH2. lia. Qed.
Lemma ksumR_app (l1 l2 : list fac) : sqfacs l1 -> sqfacs l2 -> forall i j,
  (i < fr (ksumR (l1 ++ l2)))%nat -> (j < fc (ksumR (l1 ++ l2)))%nat ->
  fmx (ksumR (l1 ++ l2)) i j = fmx (ksum2 (ksumR l1) (ksumR l2)) i j.
Proof. intros S1 S2. destruct (ksumR_dims l2 S2) as [E2 P2]. induction S1 as [|M l1 SM S1 IH]; intros i j Hi Hj.
  - cbn [app ksumR] in *. cbn [ksum2 fmx zero11 fr fc]. rewrite <- E2 in *. rewrite !Nat.div_small, !Nat.mod_small by lia.
    unfold delta. cbn. ring.
  - destruct (ksumR_dims l1 S1) as [E1 P1]. destruct (ksumR_app_fr l1 l2) as [D1 D2].
    cbn [app ksumR] in *. rewrite ksum2_assoc by (auto using ksumR_dims).
    cbn [ksum2 fmx fr fc] in *. rewrite D1, D2 in *.
    rewrite IH; [cbn [ksum2 fmx]; reflexivity| apply Nat.mod_upper_bound; nia | apply Nat.mod_upper_bound; nia].
Qed.
Definition sqop (e : op) := (0 <? fst (shape e))%nat && Nat.eqb (fst (shape e)) (snd (shape e)) = true.
Lemma sqposl_sqfacs (l : list op) : sqposl l -> sqfacs (map facof l).
Proof. unfold sqposl, sqfacs. induction l as [|m l IH]; cbn [map forallb]; intros H; constructor.
  - apply andb_prop in H as [H _]. apply andb_prop in H as [A B]. apply Nat.ltb_lt in A. apply Nat.eqb_eq in B. split; cbn [facof fr fc]; auto.
  - apply IH. apply andb_prop in H; tauto. Qed.
Lemma ksfactors_wf (a : op) : wf a = true -> sqop a ->
  ksfactors a <> [] /\ forallb wf (ksfactors a) = true /\ sqposl (ksfactors a) /\
  fr (ksumR (map facof (ksfactors a))) = fst (shape a) /\
  forall i j, (i < fst (shape a))%nat -> (j < fst (shape a))%nat -> fmx (ksumR (map facof (ksfactors a))) i j = den a i j.
Proof. intros Wa Pa.
  assert (G : [a] <> [] /\ forallb wf [a] = true /\ sqposl [a] /\ fr (ksumR (map facof [a])) = fst (shape a) /\
     forall i j, (i < fst (shape a))%nat -> (j < fst (shape a))%nat -> fmx (ksumR (map facof [a])) i j = den a i j).
  { cbn [forallb map]. rewrite Wa. repeat split; auto; try discriminate.
    - unfold sqposl. cbn [map forallb]. unfold sqop in Pa. rewrite Pa. reflexivity.
    - cbn [ksumR ksum2 fr zero11 facof]. lia.
    - intros i j Hi Hj. cbn [ksumR ksum2 fmx zero11 fr fc facof]. rewrite !Nat.div_1_r, !Nat.mod_1_r. unfold delta at 1. cbn. ring. }
  destruct a; try exact G. clear G. cbn [ksfactors]. cbn [wf] in Wa. apply andb_prop in Wa as [W P]. apply andb_prop in W as [N W].
  repeat split; auto.
  - destruct ms; discriminate.
  - cbn [shape]. rewrite (kshape_sq ms P). cbn [fst]. rewrite fr_ksumR. apply (sq_prod ms P). Qed.
Theorem kronsum_sound (a b : op) : wf a = true -> wf b = true -> sqop a -> sqop b ->
  wf (kronsum a b) = true /\ shape (kronsum a b) = (fst (shape a) * fst (shape b), fst (shape a) * fst (shape b))%nat /\
  feq (fst (shape a) * fst (shape b)) (fst (shape a) * fst (shape b)) (den (kronsum a b)) (fmx (ksum2 (facof a) (facof b))).
Proof. intros Wa Wb Pa Pb. unfold kronsum.
  destruct (ksfactors_wf a Wa Pa) as (Na & Fa & Qa & Ra & Da). destruct (ksfactors_wf b Wb Pb) as (Nb & Fb & Qb & Rb & Db).
  assert (Q : sqposl (ksfactors a ++ ksfactors b)). { unfold sqposl in *. rewrite map_app, forallb_app. apply andb_true_intro; split; assumption. }
  assert (Hs : shape (KronSum (ksfactors a ++ ksfactors b)) = (fst (shape a) * fst (shape b), fst (shape a) * fst (shape b))%nat).
  { cbn [shape]. rewrite (kshape_sq _ Q). destruct (sq_prod _ Q) as [E _]. rewrite <- E, <- fr_ksumR, map_app.
    destruct (ksumR_app_fr (map facof (ksfactors a)) (map facof (ksfactors b))) as [D _]. rewrite D, Ra, Rb. reflexivity. }
  repeat split; auto.
  - cbn [wf]. rewrite forallb_app, Fa, Fb. cbn [andb]. apply andb_true_intro; split; [|exact Q].
    destruct (ksfactors a); [contradiction|reflexivity].
  - intros i j Hi Hj. change (den (KronSum (ksfactors a ++ ksfactors b))) with (fmx (ksumR (map facof (ksfactors a ++ ksfactors b)))).
    rewrite map_app. unfold sqop in Pa, Pb. apply andb_prop in Pa as [Pa1 Pa2]. apply andb_prop in Pb as [Pb1 Pb2].
    apply Nat.ltb_lt in Pa1, Pb1. apply Nat.eqb_eq in Pa2, Pb2.
    destruct (ksumR_dims _ (sqposl_sqfacs _ Qa)) as [Ea _]. destruct (ksumR_dims _ (sqposl_sqfacs _ Qb)) as [Eb _].
    destruct (ksumR_app_fr (map facof (ksfactors a)) (map facof (ksfactors b))) as [D1 D2].
    rewrite ksumR_app; [| apply sqposl_sqfacs; auto | apply sqposl_sqfacs; auto | rewrite D1, Ra, Rb; exact Hi | rewrite D2, <- Ea, <- Eb, Ra, Rb; exact Hj].
    cbn [ksum2 fmx facof fr fc]. rewrite <- Eb, Rb, <- Pb2.
    rewrite Da, Db; [reflexivity | apply Nat.mod_upper_bound; lia | apply Nat.mod_upper_bound; lia
                    | apply Nat.div_lt_upper_bound; nia | apply Nat.div_lt_upper_bound; nia].
Qed.
End AK.
