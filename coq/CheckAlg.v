(* In-Coq comparison for C02 (towers of .T/.H) and C03 (algebraic expressions), instance: Gaussian integers. *)
From Coq Require Import ZArith List Bool Arith.
From Core Require Import Base Kron Op ZIInst CheckZI Algebra AlgebraProofs.
Import ListNotations.
Notation zop := (op (R:=zi)).
(* apply a word of .T/.H with the observed values of A.isa(SelfAdjoint) at each step *)
Fixpoint run_tw (sas : list bool) (w : list tw) (e : zop) : zop :=
  match w, sas with
  | t :: w', s :: sas' => run_tw sas' w' (match t with TT => transpose s e | TH => adjoint s e end)
  | _, _ => e
  end.
Definition check_both (c : case) : bool := check_fwd c && check_bwd c.
(* algebraic expressions *)
Record acase := { aexpr : aexp (R:=zi); aerr : bool;       (* the implementation raised a shape error *)
                  am : nat; an : nat; ak : nat; aX : M; adense : M; ares : M }.
Definition check_alg (c : acase) : bool :=
  match eval (aexpr c) with
  | Err EShape => aerr c
  | Err _ => false
  | Ok e => negb (aerr c) && wf e && Nat.eqb (fst (shape e)) (am c) && Nat.eqb (snd (shape e)) (an c)
            && arr_eqb_mn (mkarr (am c) (an c) (den e)) (am c) (an c) (adense c)
            && arr_eqb_mn (matmat e (of_list_mn (an c) (ak c) (aX c))) (am c) (ak c) (ares c)
  end.
