(* C14 - the hypotheses of the Lanczos theorems are satisfiable: the Euclidean plane R^2 with any symmetric 2x2 matrix.
   (uses the standard library's real numbers, hence their axioms) *)
From Coq Require Import Reals Lra Lia List Bool RealField.
From Core Require Import C14_Model C14_Proofs C14_Thms.
Import ListNotations.
Open Scope R_scope.

Definition R2 := (R * R)%type.
Definition d2 (u v : R2) : R := fst u * fst v + snd u * snd v.
Definition ropsR2 : kops R R2 :=
  mk_kops R R2 0 1 Rplus Rmult Rminus Ropp Rdiv Rinv (fun x => x)
    (fun x y => if Rlt_dec y x then true else false)
    (0, 0) (fun u v => (fst u + fst v, snd u + snd v)) (fun u v => (fst u - fst v, snd u - snd v))
    (fun a v => (a * fst v, a * snd v)) (fun v a => (fst v / a, snd v / a))
    d2 (fun v => sqrt (d2 v v)) (fun a b => sqrt (a * a + b * b)).
Definition sym2 (a b c : R) (x : R2) : R2 := (a * fst x + b * snd x, b * fst x + c * snd x).

Definition nonnegR (x : R) : Prop := 0 <= x.
Lemma d2_nonneg v : 0 <= d2 v v.
Proof. unfold d2. nra. Qed.

Lemma klaws_R2 a b c : klaws ropsR2 (sym2 a b c) nonnegR.
Proof. unfold nonnegR.
  constructor; cbn [ropsR2 c0 c1 cadd cmul csub copp cdiv cinv cconj cgtb vzero vadd vsub vscale vdiv vdot vnrm chyp];
    unfold d2, sym2; intros; cbn [fst snd]; try reflexivity; try (unfold Rdiv; ring).
  - exact Rfield.
  - apply sqrt_sqrt. nra.
  - match goal with H : _ = 1 |- _ => rewrite H end. apply sqrt_1.
  - match goal with H : sqrt _ = 0 |- _ => apply sqrt_eq_0 in H; [|nra] end.
    assert (fst v = 0 /\ snd v = 0) as [E1 E2] by (split; nra). rewrite E1, E2. ring.
  - apply sqrt_pos.
  - apply Rmult_le_pos; assumption.
  - apply sqrt_pos.
  - match goal with H : (if Rlt_dec ?y ?x then true else false) = true |- _ => destruct (Rlt_dec y x); [lra|discriminate] end.
Qed.

(* so the theorems apply: e.g. a full run on [[2,1],[1,3]] from (1,0) *)
Example lanczos_R2_run : exists w, lanczos_facts ropsR2 (sym2 2 1 3) nonnegR (1/10000000) (1, 0) 2 5 true w.
Proof. apply lanczos_run.
  - apply klaws_R2.
  - unfold nonnegR. lra.
  - cbn. unfold d2; cbn [fst snd]. replace (1 * 1 + 0 * 0) with 1 by ring. rewrite sqrt_1. lra.
  - lia.
  - lia.
Qed.
