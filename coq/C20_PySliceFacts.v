(* C20: facts about coq/PySlice.v (CPython's slice adjustment) beyond indices_in_range:
   arithmetic-progression shape, no duplicates, an independent membership/ordering characterisation written from the
   language reference ("indices x = i + t*k, t >= 0, stopping when j is reached; i, j reduced to len / len-1; negative
   i, j are relative to the end"), and the everyday special cases. *)
From Coq Require Import ZArith List Lia Bool Arith.
From Core Require Import PySlice.
Import ListNotations.
Open Scope Z_scope.

Definition stepof (s : pslice) : Z := match pstep s with None => 1 | Some k => k end.

Lemma indices_none s n : indices s n = None <-> stepof s = 0.
Proof. unfold indices, adjust, stepof. destruct (match pstep s with None => 1 | Some k => k end =? 0) eqn:E.
  - apply Z.eqb_eq in E. split; auto.
  - apply Z.eqb_neq in E. split; [discriminate|contradiction]. Qed.

(* shape: an arithmetic progression a, a+k, ..., of len terms, all inside [0, n) *)
Lemma indices_shape s n l : indices s n = Some l ->
  let k := stepof s in let a := clamp_start k (Z.of_nat n) (pstart s) in let b := clamp_stop k (Z.of_nat n) (pstop s) in
  k <> 0 /\ l = map (fun i => Z.to_nat (a + Z.of_nat i * k)) (seq 0 (Z.to_nat (slice_len a b k)))
  /\ (forall i, (i < Z.to_nat (slice_len a b k))%nat ->
        0 <= a + Z.of_nat i * k < Z.of_nat n /\ (0 < k -> a + Z.of_nat i * k < b) /\ (k < 0 -> b < a + Z.of_nat i * k)).
Proof.
  unfold indices, adjust, stepof. set (step := match pstep s with None => 1 | Some k => k end).
  destruct (step =? 0) eqn:E0; [discriminate|]. apply Z.eqb_neq in E0.
  set (N := Z.of_nat n). set (a := clamp_start step N (pstart s)). set (b := clamp_stop step N (pstop s)).
  intros H; injection H as <-. cbv zeta. split; [exact E0|]. split; [reflexivity|]. intros i Hi.
  assert (Hlen : Z.of_nat i < slice_len a b step) by (pose proof (slice_len_nonneg a b step E0); lia).
  assert (Ha : -1 <= a <= N /\ (0 < step -> 0 <= a) /\ (step < 0 -> a <= N - 1)).
  { unfold a, clamp_start. destruct (pstart s) as [z|]; repeat (match goal with |- context [if ?c then _ else _] => destruct c eqn:? end); lia. }
  assert (Hb : -1 <= b <= N) by (unfold b, clamp_stop; destruct (pstop s) as [z|]; repeat (match goal with |- context [if ?c then _ else _] => destruct c eqn:? end); lia).
  unfold slice_len in Hlen. destruct (step <? 0) eqn:Es.
  - apply Z.ltb_lt in Es. destruct (b <? a) eqn:Eba; [|lia]. apply Z.ltb_lt in Eba.
    assert (Z.of_nat i * (- step) <= a - b - 1).
    { assert (Z.of_nat i <= (a - b - 1) / (- step)) by lia.
      transitivity (((a - b - 1) / (- step)) * (- step)); [nia|]. rewrite Z.mul_comm. apply Z.mul_div_le; lia. }
    nia.
  - apply Z.ltb_ge in Es. destruct (a <? b) eqn:Eab; [|lia]. apply Z.ltb_lt in Eab.
    assert (Z.of_nat i * step <= b - a - 1).
    { assert (Z.of_nat i <= (b - a - 1) / step) by lia.
      transitivity (((b - a - 1) / step) * step); [nia|]. rewrite Z.mul_comm. apply Z.mul_div_le; lia. }
    nia.
Qed.

Lemma NoDup_map_seq {A} (f : nat -> A) len : (forall i j, (i < len)%nat -> (j < len)%nat -> f i = f j -> i = j) ->
  forall s t, (s + t <= len)%nat -> NoDup (map f (seq s t)).
Proof. intros Hinj s t. revert s. induction t as [|t IH]; intros s Hs; cbn [seq map]; constructor.
  - intros Hin. apply in_map_iff in Hin as (j & Hj & Hin). apply in_seq in Hin. assert (j = s) by (apply Hinj; auto; lia). lia.
  - apply IH. lia. Qed.

(* no index is produced twice: what wf (Sliced ..) needs *)
Theorem indices_nodup s n l : indices s n = Some l -> NoDup l.
Proof. intros H. destruct (indices_shape s n l H) as (Hk & -> & Hr). cbv zeta in *.
  apply NoDup_map_seq with (len := Z.to_nat (slice_len (clamp_start (stepof s) (Z.of_nat n) (pstart s)) (clamp_stop (stepof s) (Z.of_nat n) (pstop s)) (stepof s))); [|lia].
  intros i j Hi Hj E. destruct (Hr i Hi) as (Hi1 & _), (Hr j Hj) as (Hj1 & _).
  assert (E' : clamp_start (stepof s) (Z.of_nat n) (pstart s) + Z.of_nat i * stepof s = clamp_start (stepof s) (Z.of_nat n) (pstart s) + Z.of_nat j * stepof s).
  { apply Z2Nat.inj; lia. }
  assert (Z.of_nat i = Z.of_nat j) by nia. lia. Qed.

Lemma indices_length s n l : indices s n = Some l ->
  length l = Z.to_nat (slice_len (clamp_start (stepof s) (Z.of_nat n) (pstart s)) (clamp_stop (stepof s) (Z.of_nat n) (pstop s)) (stepof s)).
Proof. intros H. destruct (indices_shape s n l H) as (_ & -> & _). rewrite map_length, seq_length. reflexivity. Qed.
Lemma indices_nth s n l i : indices s n = Some l -> (i < length l)%nat ->
  Z.of_nat (nth i l 0%nat) = clamp_start (stepof s) (Z.of_nat n) (pstart s) + Z.of_nat i * stepof s.
Proof. intros H Hi. pose proof (indices_length s n l H) as HL. destruct (indices_shape s n l H) as (_ & E & Hr). cbv zeta in *.
  rewrite HL in Hi. rewrite E.
  rewrite (nth_indep _ 0%nat (Z.to_nat (clamp_start (stepof s) (Z.of_nat n) (pstart s) + Z.of_nat 0 * stepof s))) by (rewrite map_length, seq_length; exact Hi).
  rewrite (map_nth (fun i => Z.to_nat (clamp_start (stepof s) (Z.of_nat n) (pstart s) + Z.of_nat i * stepof s))), seq_nth by exact Hi.
  cbn [plus]. destruct (Hr i Hi) as (H1 & _). rewrite Z2Nat.id; lia. Qed.

(* ---- the rule as the language reference words it: bounds by min/max, relative-to-end negatives *)
Definition doc_bound (k n : Z) (o : option Z) (dflt_pos dflt_neg : Z) : Z :=
  match o with
  | None => if k <? 0 then dflt_neg else dflt_pos
  | Some v => let v' := if v <? 0 then v + n else v in
              if k <? 0 then Z.max (-1) (Z.min v' (n - 1)) else Z.max 0 (Z.min v' n)
  end.
Lemma clamp_start_doc k n o : 0 <= n -> clamp_start k n o = doc_bound k n o 0 (n - 1).
Proof. intros Hn. unfold clamp_start, doc_bound. destruct o as [v|]; [|reflexivity].
  repeat (match goal with |- context [if ?c then _ else _] => destruct c eqn:? end); lia. Qed.
Lemma clamp_stop_doc k n o : 0 <= n -> clamp_stop k n o = doc_bound k n o n (-1).
Proof. intros Hn. unfold clamp_stop, doc_bound. destruct o as [v|]; [|reflexivity].
  repeat (match goal with |- context [if ?c then _ else _] => destruct c eqn:? end); lia. Qed.

(* membership: exactly the x = i + t*k, t >= 0, that have not reached j *)
Theorem indices_spec s n l : indices s n = Some l ->
  let k := stepof s in
  let i := doc_bound k (Z.of_nat n) (pstart s) 0 (Z.of_nat n - 1) in
  let j := doc_bound k (Z.of_nat n) (pstop s) (Z.of_nat n) (-1) in
  forall x : nat, In x l <-> exists t, 0 <= t /\ Z.of_nat x = i + t * k /\ (0 < k -> Z.of_nat x < j) /\ (k < 0 -> j < Z.of_nat x).
Proof.
  intros H. cbv zeta. rewrite <- clamp_start_doc, <- clamp_stop_doc by lia.
  destruct (indices_shape s n l H) as (Hk & E & Hr). cbv zeta in *.
  set (k := stepof s) in *. set (a := clamp_start k (Z.of_nat n) (pstart s)) in *. set (b := clamp_stop k (Z.of_nat n) (pstop s)) in *.
  intros x. split.
  - intros Hin. rewrite E in Hin. apply in_map_iff in Hin as (t & <- & Ht). apply in_seq in Ht. destruct (Hr t) as (H1 & H2 & H3); [lia|].
    exists (Z.of_nat t). rewrite Z2Nat.id by lia. repeat split; auto; lia.
  - intros (t & Ht & Ex & Hp & Hn).
    assert (Hlen : t < slice_len a b k).
    { unfold slice_len. destruct (k <? 0) eqn:Es.
      - apply Z.ltb_lt in Es. specialize (Hn Es). destruct (b <? a) eqn:Eba; [|apply Z.ltb_ge in Eba; nia]. apply Z.ltb_lt in Eba.
        assert (t <= (a - b - 1) / (- k)); [|lia]. apply Z.div_le_lower_bound; nia.
      - apply Z.ltb_ge in Es. assert (0 < k) by lia. specialize (Hp H0). destruct (a <? b) eqn:Eab; [|apply Z.ltb_ge in Eab; nia]. apply Z.ltb_lt in Eab.
        assert (t <= (b - a - 1) / k); [|lia]. apply Z.div_le_lower_bound; nia. }
    rewrite E. apply in_map_iff. exists (Z.to_nat t). split.
    + rewrite Z2Nat.id by lia. rewrite <- Ex. apply Nat2Z.id.
    + apply in_seq. lia.
Qed.
(* order: increasing for a positive step, decreasing for a negative one *)
Theorem indices_monotone s n l : indices s n = Some l -> forall p q, (p < q < length l)%nat ->
  (0 < stepof s -> (nth p l 0 < nth q l 0)%nat) /\ (stepof s < 0 -> (nth q l 0 < nth p l 0)%nat).
Proof. intros H p q Hpq. pose proof (indices_nth s n l p H) as Hp. pose proof (indices_nth s n l q H) as Hq.
  specialize (Hp ltac:(lia)). specialize (Hq ltac:(lia)). split; intros Hs; apply Nat2Z.inj_lt; rewrite Hp, Hq; nia. Qed.

(* special cases *)
Lemma map_seq_id len : map (fun i => Z.to_nat (0 + Z.of_nat i * 1)) (seq 0 len) = seq 0 len.
Proof. rewrite <- (map_id (seq 0 len)) at 2. apply map_ext. intros i. rewrite Z.mul_1_r, Z.add_0_l. apply Nat2Z.id. Qed.
Theorem indices_full n : indices (mkslice None None None) n = Some (seq 0 n).
Proof. unfold indices, adjust; cbn [pstep pstart pstop]. change (1 =? 0) with false. cbn [clamp_start clamp_stop]. change (1 <? 0) with false. cbv iota.
  unfold slice_len. change (1 <? 0) with false. cbv iota. destruct (0 <? Z.of_nat n) eqn:E.
  - rewrite Z.div_1_r. replace (Z.to_nat (Z.of_nat n - 0 - 1 + 1)) with n by lia. rewrite map_seq_id. reflexivity.
  - apply Z.ltb_ge in E. assert (n = 0%nat) by lia. subst. reflexivity. Qed.
(* a[lo:hi] with 0 <= lo <= hi <= n is the contiguous block lo .. hi-1 *)
Theorem indices_block n lo hi : (lo <= hi <= n)%nat ->
  indices (mkslice (Some (Z.of_nat lo)) (Some (Z.of_nat hi)) None) n = Some (seq lo (hi - lo)).
Proof. intros Hb. unfold indices, adjust; cbn [pstep pstart pstop]. change (1 =? 0) with false. unfold clamp_start, clamp_stop. change (1 <? 0) with false.
  destruct (Z.of_nat lo <? 0) eqn:E1; [apply Z.ltb_lt in E1; lia|]. destruct (Z.of_nat hi <? 0) eqn:E2; [apply Z.ltb_lt in E2; lia|]. cbv iota. rewrite E1, E2.
  assert (Hs : forall a b len, (a <= b)%nat -> len = (b - a)%nat -> map (fun i => Z.to_nat (Z.of_nat a + Z.of_nat i * 1)) (seq 0 len) = seq a (b - a)).
  { intros a b len Hab ->. apply nth_ext with (d := 0%nat) (d' := 0%nat); [rewrite map_length, !seq_length; reflexivity|].
    intros i Hi. rewrite map_length, seq_length in Hi. rewrite seq_nth by exact Hi.
    rewrite (nth_indep _ 0%nat (Z.to_nat (Z.of_nat a + Z.of_nat 0 * 1))) by (rewrite map_length, seq_length; exact Hi).
    rewrite (map_nth (fun i => Z.to_nat (Z.of_nat a + Z.of_nat i * 1))), seq_nth by exact Hi. lia. }
  destruct (Z.of_nat n <=? Z.of_nat lo) eqn:E3, (Z.of_nat n <=? Z.of_nat hi) eqn:E4;
    try apply Z.leb_le in E3; try apply Z.leb_le in E4; try apply Z.leb_gt in E3; try apply Z.leb_gt in E4; unfold slice_len; change (1 <? 0) with false; cbv iota.
  - assert (lo = n) by lia. assert (hi = n) by lia. subst. rewrite Z.ltb_irrefl. rewrite Nat.sub_diag. reflexivity.
  - lia.
  - assert (hi = n) by lia. subst hi. destruct (Z.of_nat lo <? Z.of_nat n) eqn:E5; [|apply Z.ltb_ge in E5; lia].
    rewrite Z.div_1_r. f_equal. apply Hs; lia.
  - destruct (Z.of_nat lo <? Z.of_nat hi) eqn:E5.
    + rewrite Z.div_1_r. f_equal. apply Hs; lia.
    + apply Z.ltb_ge in E5. assert (lo = hi) by lia. subst. rewrite Nat.sub_diag. reflexivity.
Qed.
(* a[::-1] reverses *)
Theorem indices_reverse n : indices (mkslice None None (Some (-1))) n = Some (rev (seq 0 n)).
Proof. unfold indices, adjust; cbn [pstep pstart pstop]. change (-1 =? 0) with false. cbn [clamp_start clamp_stop]. change (-1 <? 0) with true. cbv iota.
  unfold slice_len. change (-1 <? 0) with true. cbv iota. destruct (-1 <? Z.of_nat n - 1) eqn:E.
  - apply Z.ltb_lt in E. change (- -1) with 1. rewrite Z.div_1_r. replace (Z.to_nat (Z.of_nat n - 1 - -1 - 1 + 1)) with n by lia. f_equal.
    apply nth_ext with (d := 0%nat) (d' := 0%nat); [rewrite map_length, rev_length; reflexivity|].
    intros i Hi. rewrite map_length, seq_length in Hi. rewrite rev_nth by (rewrite seq_length; exact Hi). rewrite seq_length, seq_nth by lia.
    rewrite (nth_indep _ 0%nat (Z.to_nat (Z.of_nat n - 1 + Z.of_nat 0 * -1))) by (rewrite map_length, seq_length; exact Hi).
    rewrite (map_nth (fun i => Z.to_nat (Z.of_nat n - 1 + Z.of_nat i * -1))), seq_nth by exact Hi. lia.
  - apply Z.ltb_ge in E. assert (n = 0%nat) by lia. subst. reflexivity. Qed.
