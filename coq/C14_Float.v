(* C14 - execution instance of the Lanczos model on binary64 complex numbers (PrimFloat pairs) and the
   in-Coq comparison with the results of /repo's cola (Tier F, DESIGN.md 3.3).  No law holds for this
   instance (rounding); it is an execution vehicle only. *)
From Coq Require Import List Arith Bool PrimFloat.
From Core Require Import C14_Model.
Import ListNotations.
Open Scope float_scope.

Definition cf := (float * float)%type.
Definition f0 : cf := (0, 0).
Definition f1 : cf := (1, 0).
Definition fadd (x y : cf) : cf := (fst x + fst y, snd x + snd y).
Definition fsub (x y : cf) : cf := (fst x - fst y, snd x - snd y).
Definition fopp (x : cf) : cf := (- fst x, - snd x).
Definition fmul (x y : cf) : cf := (fst x * fst y - snd x * snd y, fst x * snd y + snd x * fst y).
Definition fconj (x : cf) : cf := (fst x, - snd x).
(* complex division, Smith's formula (what NumPy uses); for a real divisor it is component-wise division *)
Definition fdiv (x y : cf) : cf :=
  let '(a, b) := x in let '(c, d) := y in
  if PrimFloat.abs d <=? PrimFloat.abs c then
    let r := d / c in let den := c + d * r in ((a + b * r) / den, (b - a * r) / den)
  else
    let r := c / d in let den := c * r + d in ((a * r + b) / den, (b * r - a) / den).
Definition finv (x : cf) : cf := fdiv f1 x.
Definition fgtb (x y : cf) : bool := fst y <? fst x.

Definition cvec := list cf.
Definition fvadd (x y : cvec) : cvec := map (fun p => fadd (fst p) (snd p)) (combine x y).
Definition fvsub (x y : cvec) : cvec := map (fun p => fsub (fst p) (snd p)) (combine x y).
Definition fvscale (c : cf) (x : cvec) : cvec := map (fmul c) x.
Definition fvdiv (x : cvec) (c : cf) : cvec := map (fun a => fdiv a c) x.
Definition fvdot (x y : cvec) : cf := fold_left (fun acc p => fadd acc (fmul (fconj (fst p)) (snd p))) (combine x y) f0.
Definition fvnrm (x : cvec) : cf := (PrimFloat.sqrt (fold_left (fun acc a => acc + (fst a * fst a + snd a * snd a)) x 0), 0).

Definition fhyp (a b : cf) : cf := (PrimFloat.sqrt ((fst a * fst a + snd a * snd a) + (fst b * fst b + snd b * snd b)), 0).
Definition fops (n : nat) : kops cf cvec :=
  mk_kops cf cvec f0 f1 fadd fmul fsub fopp fdiv finv fconj fgtb (repeat f0 n) fvadd fvsub fvscale fvdiv fvdot fvnrm fhyp.

(* dense matrix (list of rows) times vector *)
Definition fmv (A : list cvec) (x : cvec) : cvec :=
  map (fun r => fold_left (fun acc p => fadd acc (fmul (fst p) (snd p))) (combine r x) f0) A.

(* ---------- comparison with the implementation ---------- *)
Definition fmax (a b : float) : float := if a <? b then b else a.
Definition cabs1 (x : cf) : float := fmax (PrimFloat.abs (fst x)) (PrimFloat.abs (snd x)).
Definition isnan (a : float) : bool := negb (a =? a).
(* largest component-wise difference; NaN anywhere -> infinity *)
Definition cdiff (x y : cf) : float :=
  let d := cabs1 (fsub x y) in if isnan d then infinity else d.
Definition vdiff (x y : cvec) : float :=
  if Nat.eqb (length x) (length y) then fold_left (fun acc p => fmax acc (cdiff (fst p) (snd p))) (combine x y) 0 else infinity.
Definition mdiff (x y : list cvec) : float :=
  if Nat.eqb (length x) (length y) then fold_left (fun acc p => fmax acc (vdiff (fst p) (snd p))) (combine x y) 0 else infinity.
Definition vmaxabs (x : cvec) : float := fold_left (fun acc a => fmax acc (cabs1 a)) x 0.

Record lcase := mk_lcase {
  l_n : nat; l_A : list cvec; l_alias : bool; l_rfix : bool; l_vs : list cvec; l_mi : nat; l_tol : float;
  l_k : nat;                                   (* number of columns returned by the implementation *)
  l_out : list (list cvec * cvec * cvec) }.    (* per batch element: columns of Q, off-diagonal of T, diagonal of T *)

Definition rtol : float := 0x1.12e0be826d695p-30.   (* 1e-9 *)
Definition tie_tol : float := 0x1.0c6f7a0b5ed8dp-20. (* 1e-6 *)
Definition amp_tol : float := 0x1.47ae147ae147bp-7. (* 1e-2 *)

(* decisions taken by cond_fun at loop indices 2 .. min(i_final, m), recomputed from the final subdiag buffers
   (entries are never overwritten): is one of them within relative 1e-6 of flipping? *)
Definition near_tie (rfix : bool) (tol : float) (m ifin : nat) (ss : list (@lst cf cvec)) : bool :=
  existsb (fun s =>
    existsb (fun j =>
      let x := fst (nth (j - 1) (lsub s) f0) in
      let y := tol * fst (lref (fops 0) rfix s) in
      PrimFloat.abs (x - y) <? tie_tol * fmax (PrimFloat.abs x) (PrimFloat.abs y))
    (seq 2 (Nat.min ifin m - 1))) ss.
(* was a pending vector much smaller than the scale of T normalised into a basis column? then rounding noise is
   amplified beyond the comparison tolerance and the trajectories need not agree *)
Definition amplified (iters : nat) (ss : list (@lst cf cvec)) : bool :=
  existsb (fun s =>
    let scale := fmax (vmaxabs (ldiag s)) (vmaxabs (lsub s)) in
    existsb (fun j => fst (nth j (lsub s) f0) <? amp_tol * scale) (seq 1 (iters - 1))) ss.

Definition res_close (r : @lres cf cvec) (q : list cvec * cvec * cvec) : bool :=
  let '(Q, off, dg) := q in
  let scale := fmax 1 (fmax (vmaxabs dg) (vmaxabs off)) in
  (mdiff (rQ r) Q <=? rtol) && (vdiff (roff r) off <=? rtol * scale) && (vdiff (rdiag r) dg <=? rtol * scale).

(* 0 agree | 1 excused: disagreement with a stopping decision within 1e-6 of flipping | 2 not compared: a pending vector below 1e-2 of
   the scale of T was normalised (rounding noise amplified by >= 100) | 3 number of columns differs | 4 values differ *)
Definition lcheck (c : lcase) : nat :=
  let o := fops (l_n c) in
  let m := Nat.min (l_mi c) (l_n c) in
  let r := lfact o (fmv (l_A c)) (l_alias c) (l_rfix c) m (l_tol c, 0) (l_vs c) in
  let iters := (fst r - 1)%nat in
  let out := map (ltrim iters) (snd r) in
  let same_k := Nat.eqb iters (l_k c) in
  let close := Nat.eqb (length out) (length (l_out c)) && forallb (fun p => res_close (fst p) (snd p)) (combine out (l_out c)) in
  if amplified iters (snd r) then 2%nat
  else if same_k && close then 0%nat
  else if near_tie (l_rfix c) (l_tol c) m (fst r) (snd r) then 1%nat
  else if negb same_k then 3%nat else 4%nat.

Fixpoint codes (k : nat) (cs : list lcase) : list (nat * nat) :=
  match cs with
  | [] => []
  | c :: t => let r := lcheck c in if Nat.eqb r 0 then codes (S k) t else (k, r) :: codes (S k) t
  end.

(* diagnostics for the evidence: largest difference (Q entries absolute, T entries relative to its scale) *)
Definition ldiff (c : lcase) : float :=
  let o := fops (l_n c) in
  let m := Nat.min (l_mi c) (l_n c) in
  let r := lfact o (fmv (l_A c)) (l_alias c) (l_rfix c) m (l_tol c, 0) (l_vs c) in
  let iters := (fst r - 1)%nat in
  let out := map (ltrim iters) (snd r) in
  fold_left (fun acc p =>
    let '(Q, off, dg) := snd p in
    let scale := fmax 1 (fmax (vmaxabs dg) (vmaxabs off)) in
    fmax acc (fmax (mdiff (rQ (fst p)) Q) (fmax (vdiff (roff (fst p)) off / scale) (vdiff (rdiag (fst p)) dg / scale))))
    (combine out (l_out c)) 0.
Definition maxdiff_agreeing (cs : list lcase) : float :=
  fold_left (fun acc c => if Nat.eqb (lcheck c) 0 then fmax acc (ldiff c) else acc) cs 0.

(* comparison without the near-tie / amplification gates (used on the witnesses of the defect flags, which agree bit for bit) *)
Definition lcheck_plain (c : lcase) : nat :=
  let o := fops (l_n c) in
  let m := Nat.min (l_mi c) (l_n c) in
  let r := lfact o (fmv (l_A c)) (l_alias c) (l_rfix c) m (l_tol c, 0) (l_vs c) in
  let iters := (fst r - 1)%nat in
  let out := map (ltrim iters) (snd r) in
  if Nat.eqb iters (l_k c) && Nat.eqb (length out) (length (l_out c)) && forallb (fun p => res_close (fst p) (snd p)) (combine out (l_out c))
  then 0%nat else 4%nat.
Fixpoint codes_plain (k : nat) (cs : list lcase) : list (nat * nat) :=
  match cs with
  | [] => []
  | c :: t => let r := lcheck_plain c in if Nat.eqb r 0 then codes_plain (S k) t else (k, r) :: codes_plain (S k) t
  end.

(* per-element comparison of a BATCHED call against the single-start run of that element (the factorisation of an element
   must not depend on the rest of the batch).  l_vs = [v], l_out = [element]; the batch output is rectangular, so the
   element may carry more columns than its own run produces: the leading part must agree and the rest must vanish. *)
Definition tail_small (tolv : float) (l : cvec) (k : nat) : bool := forallb (fun a => cabs1 a <=? tolv) (skipn k l).
Definition lcheck_elem (c : lcase) : nat :=
  let o := fops (l_n c) in
  let m := Nat.min (l_mi c) (l_n c) in
  let r := lfact o (fmv (l_A c)) (l_alias c) (l_rfix c) m (l_tol c, 0) (l_vs c) in
  let iters := (fst r - 1)%nat in
  match map (ltrim iters) (snd r), l_out c with
  | [r1], [(Q, off, dg)] =>
      let scale := fmax 1 (fmax (vmaxabs dg) (vmaxabs off)) in
      let ok := (iters <=? l_k c)%nat
                && res_close r1 (firstn iters Q, firstn (iters - 1) off, firstn iters dg)
                && forallb (fun q => vmaxabs q <=? rtol) (skipn iters Q)
                && tail_small (rtol * scale) off (iters - 1) && tail_small (rtol * scale) dg iters in
      if amplified iters (snd r) then 2%nat
      else if ok then 0%nat
      else if near_tie (l_rfix c) (l_tol c) m (fst r) (snd r) then 1%nat
      else if (iters <=? l_k c)%nat then 4%nat else 3%nat
  | _, _ => 4%nat
  end.
Fixpoint codes_elem (k : nat) (cs : list lcase) : list (nat * nat) :=
  match cs with
  | [] => []
  | c :: t => let r := lcheck_elem c in if Nat.eqb r 0 then codes_elem (S k) t else (k, r) :: codes_elem (S k) t
  end.
