(* C03, whole expressions: evaluating an algebraic expression with cola's combinators (Algebra.eval) yields an operator
   whose represented matrix is the dense evaluation of the same expression (deval), and a shape error exactly when the
   dense evaluation is undefined. By induction over the expression AST (any nesting). *)
From Coq Require Import Arith Lia List Ring ArithRing PeanoNat Bool.
From Core Require Import Base Kron Op OpProofs Algebra AlgebraProofs AlgebraKron AlgebraMore ToDense.
Import ListNotations.
Section AE.
Context {R : Type} {RR : Ring R} {CR : CRing R}.
Add Ring Rring : Rth.
Open Scope R_scope.
Notation fm := (fm (R:=R)). Notation op := (op (R:=R)). Notation aexp := (aexp (R:=R)).

Inductive dres := DOk (s : shp) (M : fm) | DErr.
Definition mkf (s : shp) (M : fm) : fac := mkfac (fst s) (snd s) M.
Definition spos (s : shp) := (0 <? fst s)%nat && (0 <? snd s)%nat.
Definition ssq (s : shp) := (0 <? fst s)%nat && Nat.eqb (fst s) (snd s).
Fixpoint deval (x : aexp) : dres :=
  match x with
  | ALeaf e => if wf e then DOk (shape e) (den e) else DErr
  | AAdd x y => match deval x, deval y with
                | DOk s M, DOk s' M' => if shp_eqb s s' then DOk s (fun i j => M i j + M' i j) else DErr | _, _ => DErr end
  | ASub x y => match deval x, deval y with
                | DOk s M, DOk s' M' => if shp_eqb s s' then DOk s (fun i j => M i j - M' i j) else DErr | _, _ => DErr end
  | ANeg x => match deval x with DOk s M => DOk s (fun i j => - M i j) | DErr => DErr end
  | AMul x c => match deval x with DOk s M => DOk s (fun i j => c * M i j) | DErr => DErr end
  | ADot x y => match deval x, deval y with
                | DOk s M, DOk s' M' => if Nat.eqb (snd s) (fst s') then DOk (fst s, snd s') (mmul (snd s) M M') else DErr | _, _ => DErr end
  | AKron x y => match deval x, deval y with
                 | DOk s M, DOk s' M' => if spos s && spos s' then DOk (fst s * fst s', snd s * snd s')%nat (fmx (kron2 (mkf s M) (mkf s' M'))) else DErr
                 | _, _ => DErr end
  | AKronSum x y => match deval x, deval y with
                    | DOk s M, DOk s' M' => if ssq s && ssq s' then DOk (fst s * fst s', fst s * fst s')%nat (fmx (ksum2 (mkf s M) (mkf s' M'))) else DErr
                    | _, _ => DErr end
  | ABlock l => match (fix go (l : list aexp) : option (list blk) :=
                          match l with
                          | [] => Some []
                          | x :: r => match deval x, go r with DOk s M, Some bs => Some ((s, M) :: bs) | _, _ => None end
                          end) l with
                | Some bs => DOk (rowsB bs, colsB bs) (bd bs)
                | None => DErr
                end
  end.
(* what "represents" means *)
Definition repr (c : op) (s : shp) (M : fm) := wf c = true /\ shape c = s /\ feq (fst s) (snd s) (den c) M.
(* errors of the dense evaluation are of two kinds: genuine shape mismatches (must be rejected by cola) and
   expressions outside the quantifier (ill-formed leaves, empty/non-square Kronecker operands) *)
Fixpoint inscope (x : aexp) : bool :=
  match x with
  | ALeaf e => wf e
  | AAdd x y | ASub x y | ADot x y => inscope x && inscope y
  | ANeg x | AMul x _ => inscope x
  | AKron x y => inscope x && inscope y && match deval x, deval y with DOk s _, DOk s' _ => spos s && spos s' | _, _ => true end
  | AKronSum x y => inscope x && inscope y && match deval x, deval y with DOk s _, DOk s' _ => ssq s && ssq s' | _, _ => true end
  | ABlock l => forallb inscope l
  end.
Definition agrees (x : aexp) : Prop :=
  match deval x with
  | DOk s M => exists c, eval x = Ok c /\ repr c s M
  | DErr => exists k, eval x = Err k
  end.

Section Ind.
Variable P : aexp -> Prop.
Hypothesis H1 : forall e, P (ALeaf e).
Hypothesis H2 : forall x y, P x -> P y -> P (AAdd x y).
Hypothesis H3 : forall x y, P x -> P y -> P (ASub x y).
Hypothesis H4 : forall x, P x -> P (ANeg x).
Hypothesis H5 : forall x c, P x -> P (AMul x c).
Hypothesis H6 : forall x y, P x -> P y -> P (ADot x y).
Hypothesis H7 : forall x y, P x -> P y -> P (AKron x y).
Hypothesis H8 : forall x y, P x -> P y -> P (AKronSum x y).
Hypothesis H9 : forall l, Forall P l -> P (ABlock l).
Fixpoint aexp_ind2 (x : aexp) : P x :=
  match x with
  | ALeaf e => H1 e | AAdd x y => H2 x y (aexp_ind2 x) (aexp_ind2 y) | ASub x y => H3 x y (aexp_ind2 x) (aexp_ind2 y)
  | ANeg x => H4 x (aexp_ind2 x) | AMul x c => H5 x c (aexp_ind2 x) | ADot x y => H6 x y (aexp_ind2 x) (aexp_ind2 y)
  | AKron x y => H7 x y (aexp_ind2 x) (aexp_ind2 y) | AKronSum x y => H8 x y (aexp_ind2 x) (aexp_ind2 y)
  | ABlock l => H9 l ((fix go l : Forall P l := match l with [] => Forall_nil _ | m :: l' => Forall_cons _ (aexp_ind2 m) (go l') end) l)
  end.
End Ind.

Lemma repr_feq c s M M' : repr c s M -> feq (fst s) (snd s) M M' -> repr c s M'.
Proof. intros (A & B & C) E. repeat split; auto. eapply feq_trans; eauto. Qed.

Theorem eval_sound : forall x, inscope x = true -> agrees x.
Proof. apply (aexp_ind2 (fun x => inscope x = true -> agrees x)); unfold agrees.
  - intros e W. cbn [inscope] in W. cbn [deval eval]. rewrite W. exists e. split; auto. repeat split; auto; apply feq_refl.
  - (* add *) intros x y Hx Hy W. cbn [inscope] in W. apply andb_prop in W as [Wx Wy]. specialize (Hx Wx). specialize (Hy Wy). cbn [deval eval].
    destruct (deval x) as [s M|]; [|destruct Hx as [k ->]; exists k; reflexivity]. destruct Hx as (a & -> & Ra).
    destruct (deval y) as [s' M'|]; [|destruct Hy as [k ->]; exists k; reflexivity]. destruct Hy as (b & -> & Rb). cbn [bindr].
    destruct Ra as (Wa & Sa & Da), Rb as (Wb & Sb & Db). destruct (shp_eqb s s') eqn:E.
    + assert (Eab : shp_eqb (shape a) (shape b) = true) by (rewrite Sa, Sb; exact E). apply shp_eqb_eq in E.
      destruct (add a b) as [c|k] eqn:Ec; [|unfold add in Ec; rewrite Eab in Ec; discriminate].
      destruct (add_sound a b c Wa Wb Ec) as (Wc & Sc & Dc). exists c. split; auto. repeat split; auto; [congruence|].
      intros i j Hi Hj. rewrite Dc, Da by auto. rewrite Db by (rewrite <- E; auto). reflexivity.
    + exists EShape. apply add_rejects. rewrite Sa, Sb. intros H. rewrite H in E. assert (shp_eqb s' s' = true) by (apply shp_eqb_eq; reflexivity). congruence.
  - (* sub *) intros x y Hx Hy W. cbn [inscope] in W. apply andb_prop in W as [Wx Wy]. specialize (Hx Wx). specialize (Hy Wy). cbn [deval eval].
    destruct (deval x) as [s M|]; [|destruct Hx as [k ->]; exists k; reflexivity]. destruct Hx as (a & -> & Ra).
    destruct (deval y) as [s' M'|]; [|destruct Hy as [k ->]; exists k; reflexivity]. destruct Hy as (b & -> & Rb). cbn [bindr].
    destruct Ra as (Wa & Sa & Da), Rb as (Wb & Sb & Db). destruct (shp_eqb s s') eqn:E.
    + destruct (neg_sound b Wb) as (Wn & Sn & _).
      assert (Eab : shp_eqb (shape a) (shape (neg b)) = true) by (rewrite Sn, Sa, Sb; exact E). apply shp_eqb_eq in E.
      destruct (sub a b) as [c|k] eqn:Ec; [|unfold sub, add in Ec; rewrite Eab in Ec; discriminate].
      destruct (sub_sound a b c Wa Wb Ec) as (Wc & Sc & Dc). exists c. split; auto. repeat split; auto; [congruence|].
      intros i j Hi Hj. rewrite Sa in Dc. rewrite Dc, Da by auto. rewrite Db by (rewrite <- E; auto). reflexivity.
    + exists EShape. apply sub_rejects; auto. rewrite Sa, Sb. intros H. rewrite H in E. assert (shp_eqb s' s' = true) by (apply shp_eqb_eq; reflexivity). congruence.
  - (* neg *) intros x Hx W. cbn [inscope] in W. specialize (Hx W). cbn [deval eval].
    destruct (deval x) as [s M|]; [|destruct Hx as [k ->]; exists k; reflexivity]. destruct Hx as (a & -> & (Wa & Sa & Da)). cbn [bindr].
    destruct (neg_sound a Wa) as (Wn & Sn & Dn). exists (neg a). split; auto. repeat split; auto; [congruence|]. rewrite Sa in Dn.
    intros i j Hi Hj. rewrite Dn, Da by auto. reflexivity.
  - (* mul *) intros x c Hx W. cbn [inscope] in W. specialize (Hx W). cbn [deval eval].
    destruct (deval x) as [s M|]; [|destruct Hx as [k ->]; exists k; reflexivity]. destruct Hx as (a & -> & (Wa & Sa & Da)). cbn [bindr].
    destruct (mul_sound a c Wa) as (Wn & Sn & Dn). exists (mul a c). split; auto. repeat split; auto; [congruence|]. rewrite Sa in Dn.
    intros i j Hi Hj. rewrite Dn, Da by auto. reflexivity.
  - (* dot *) intros x y Hx Hy W. cbn [inscope] in W. apply andb_prop in W as [Wx Wy]. specialize (Hx Wx). specialize (Hy Wy). cbn [deval eval].
    destruct (deval x) as [s M|]; [|destruct Hx as [k ->]; exists k; reflexivity]. destruct Hx as (a & -> & Ra).
    destruct (deval y) as [s' M'|]; [|destruct Hy as [k ->]; exists k; reflexivity]. destruct Hy as (b & -> & Rb). cbn [bindr].
    destruct Ra as (Wa & Sa & Da), Rb as (Wb & Sb & Db). destruct (Nat.eqb_spec (snd s) (fst s')) as [E|E].
    + destruct (dot a b) as [c|k] eqn:Ec.
      * destruct (dot_sound a b c Wa Wb Ec) as (Wc & Sc & Dc). exists c. split; auto. rewrite Sa, Sb in *. repeat split; auto.
        cbn [fst snd]. eapply feq_trans; [exact Dc|]. apply mmul_ext; [exact Da|]. rewrite E. exact Db.
      * exfalso. unfold dot in Ec. rewrite Sa, Sb in Ec. destruct (Nat.eqb_spec (snd s) (fst s')); [|contradiction]. cbn [negb] in Ec.
        destruct (is_ident b); [discriminate|]. destruct (is_ident a); discriminate.
    + exists EShape. apply dot_rejects. rewrite Sa, Sb. exact E.
  - (* kron *) intros x y Hx Hy W. cbn [inscope] in W. apply andb_prop in W as [W Wp]. apply andb_prop in W as [Wx Wy]. specialize (Hx Wx). specialize (Hy Wy). cbn [deval eval].
    destruct (deval x) as [s M|]; [|destruct Hx as [k ->]; exists k; reflexivity]. destruct Hx as (a & -> & Ra).
    destruct (deval y) as [s' M'|]; [|destruct Hy as [k ->]; exists k; reflexivity]. destruct Hy as (b & -> & Rb). cbn [bindr].
    rewrite Wp. destruct Ra as (Wa & Sa & Da), Rb as (Wb & Sb & Db). apply andb_prop in Wp as [Pa Pb].
    destruct (kron_sound a b Wa Wb) as (Wc & Sc & Dc); [unfold posop; rewrite Sa; exact Pa|unfold posop; rewrite Sb; exact Pb|].
    exists (kron a b). split; auto. unfold spos in Pb. apply andb_prop in Pb as [Pb1 Pb2]. apply Nat.ltb_lt in Pb1, Pb2.
    assert (FA : feqF (facof a) (mkf s M)) by (repeat split; cbn [facof mkf fr fc fmx]; rewrite ?Sa; auto).
    assert (FB : feqF (facof b) (mkf s' M')) by (repeat split; cbn [facof mkf fr fc fmx]; rewrite ?Sb; auto).
    destruct (kron2_ext (facof a) (mkf s M) (facof b) (mkf s' M')) as (_ & _ & E); auto; try (cbn [facof fr fc]; rewrite Sb; auto).
    cbn [kron2 facof fr fc] in E. rewrite Sa, Sb in *. repeat split; auto.
    cbn [fst snd]. eapply feq_trans; [exact Dc|exact E].
  - (* kronsum *) intros x y Hx Hy W. cbn [inscope] in W. apply andb_prop in W as [W Wp]. apply andb_prop in W as [Wx Wy]. specialize (Hx Wx). specialize (Hy Wy). cbn [deval eval].
    destruct (deval x) as [s M|]; [|destruct Hx as [k ->]; exists k; reflexivity]. destruct Hx as (a & -> & Ra).
    destruct (deval y) as [s' M'|]; [|destruct Hy as [k ->]; exists k; reflexivity]. destruct Hy as (b & -> & Rb). cbn [bindr].
    rewrite Wp. destruct Ra as (Wa & Sa & Da), Rb as (Wb & Sb & Db). apply andb_prop in Wp as [Pa Pb].
    destruct (kronsum_sound a b Wa Wb) as (Wc & Sc & Dc); [unfold sqop; rewrite Sa; exact Pa|unfold sqop; rewrite Sb; exact Pb|].
    exists (kronsum a b). split; auto.
    unfold ssq in Pa, Pb. apply andb_prop in Pa as [Pa1 Pa2]. apply andb_prop in Pb as [Pb1 Pb2]. apply Nat.ltb_lt in Pa1, Pb1. apply Nat.eqb_eq in Pa2, Pb2.
    assert (FA : feqF (facof a) (mkf s M)) by (repeat split; cbn [facof mkf fr fc fmx]; rewrite ?Sa; auto).
    assert (FB : feqF (facof b) (mkf s' M')) by (repeat split; cbn [facof mkf fr fc fmx]; rewrite ?Sb; auto).
    destruct (ksum2_ext (facof a) (mkf s M) (facof b) (mkf s' M')) as (_ & _ & E); auto; try (cbn [facof fr fc]; rewrite Sb; lia).
    cbn [ksum2 facof fr fc] in E. rewrite Sa, Sb in *. rewrite <- Pa2, <- Pb2 in E. repeat split; auto.
    cbn [fst snd]. eapply feq_trans; [exact Dc|exact E].
  - (* block_diag *) intros l IH W. cbn [inscope] in W. cbn [deval eval].
    set (goe := fix go (l : list aexp) : res (list op) := match l with [] => Ok [] | x :: r => bindr (eval x) (fun y => bindr (go r) (fun ys => Ok (y :: ys))) end).
    set (god := fix go (l : list aexp) : option (list blk) := match l with [] => Some [] | x :: r => match deval x, go r with DOk s M, Some bs => Some ((s, M) :: bs) | _, _ => None end end).
    assert (G : match god l with
                | Some bs => exists es, goe l = Ok es /\ forallb wf es = true /\
                     Forall2 (fun b b' : blk => fst b = fst b' /\ feq (fst (fst b)) (snd (fst b)) (snd b) (snd b')) (map (fun e => (shape e, den e)) es) bs
                | None => exists k, goe l = Err k
                end).
    { clear - IH W. induction l as [|x l IHl].
      - cbn [god goe]. exists []. repeat split; auto. constructor.
      - inversion IH as [|? ? Hx Hl]; subst. cbn [forallb] in W. apply andb_prop in W as [Wx Wl]. specialize (Hx Wx). specialize (IHl Hl Wl). cbn [god goe].
        fold god in IHl |- *. fold goe in IHl |- *. unfold agrees in Hx.
        destruct (deval x) as [s M|]; [|destruct Hx as [k ->]; exists k; reflexivity]. destruct Hx as (c & -> & (Wc & Sc & Dc)). cbn [bindr].
        destruct (god l) as [bs|]; [|destruct IHl as [k ->]; exists k; reflexivity].
        destruct IHl as (es & -> & Wes & F2). cbn [bindr]. exists (c :: es). split; auto. cbn [forallb]. rewrite Wc, Wes. split; auto.
        cbn [map]. constructor; auto. cbn [fst snd]. split; auto. rewrite Sc. exact Dc. }
    fold god. fold goe. destruct (god l) as [bs|]; [|destruct G as [k ->]; exists k; reflexivity].
    destruct G as (es & -> & Wes & F2). cbn [bindr]. exists (block_diag es). split; auto.
    destruct (block_diag_sound es Wes) as (Wb & Sb & Db).
    assert (Esh : bshape (map (fun e : op => (shape e, 1%nat)) es) = (rowsB bs, colsB bs)).
    { clear - F2. revert bs F2. induction es as [|e es IHes]; intros bs F2; inversion F2 as [|? b' ? bs' [E _] F2']; subst; [reflexivity|].
      destruct b' as [sb Mb]. cbn [fst snd] in E. subst sb.
      cbn [map bshape fold_right rowsB colsB fst snd]. fold (bshape (map (fun e0 : op => (shape e0, 1%nat)) es)). rewrite (IHes bs' F2'). cbn [fst snd].
      fold (rowsB bs'). fold (colsB bs'). f_equal; lia. }
    repeat split; auto; [congruence|]. intros i j Hi Hj. rewrite Db. cbn [fst snd] in Hi, Hj. apply bd_ext; auto.
    + assert (RB : (rowsB (map (fun e : op => (shape e, den e)) es), colsB (map (fun e : op => (shape e, den e)) es)) = (rowsB bs, colsB bs)).
      { clear - F2. revert bs F2. induction es as [|e es IHes]; intros bs F2; inversion F2 as [|? b' ? bs' [E _] F2']; subst; [reflexivity|].
        destruct b' as [sb Mb]. cbn [fst snd] in E. subst sb.
        cbn [map rowsB colsB fold_right fst snd]. fold (rowsB (map (fun e0 : op => (shape e0, den e0)) es)). fold (colsB (map (fun e0 : op => (shape e0, den e0)) es)).
        fold (rowsB bs'). fold (colsB bs'). pose proof (IHes bs' F2') as H. inversion H as [[H1 H2]]. rewrite H1, H2. reflexivity. }
      inversion RB as [[R1 R2]]. rewrite R1. exact Hi.
    + assert (RB : (rowsB (map (fun e : op => (shape e, den e)) es), colsB (map (fun e : op => (shape e, den e)) es)) = (rowsB bs, colsB bs)).
      { clear - F2. revert bs F2. induction es as [|e es IHes]; intros bs F2; inversion F2 as [|? b' ? bs' [E _] F2']; subst; [reflexivity|].
        destruct b' as [sb Mb]. cbn [fst snd] in E. subst sb.
        cbn [map rowsB colsB fold_right fst snd]. fold (rowsB (map (fun e0 : op => (shape e0, den e0)) es)). fold (colsB (map (fun e0 : op => (shape e0, den e0)) es)).
        fold (rowsB bs'). fold (colsB bs'). pose proof (IHes bs' F2') as H. inversion H as [[H1 H2]]. rewrite H1, H2. reflexivity. }
      inversion RB as [[R1 R2]]. rewrite R2. exact Hj.
Qed.
End AE.
