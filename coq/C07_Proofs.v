(* C07 - correctness of the slogdet rules from the determinant interface alone:
   slogdet_det :  DetLaws fdet -> sdom_laws D -> valid alg e ->  phase * exp(logabs) = det (represented matrix)
   for the repaired model (all flags off), every algorithm choice and every decorated tree. *)
From Coq Require Import Arith Lia List Ring ArithRing PeanoNat Bool ZArith.
From Core Require Import Base Kron Op BdAlg C07_DetLaws C07_Slogdet.
Import ListNotations.
Section Proofs.
Context {R : Type} {RR : Ring R} {CR : CRing R}.
Add Ring Rring : Rth.
Open Scope R_scope.
Notation fm := (fm (R:=R)). Notation op := (op (R:=R)). Notation fac := (fac (R:=R)).
Variables V L : Type.
Variable D : sdom (R:=R) V L.
Notation sop := (sop (R:=R) L).
Notation "a ** b" := (vmul D a b) (at level 40, left associativity).
Notation ev := (ev D).

(* ---------- induction principle for the nested tree type ---------- *)
Section Ind.
Variable P : sop -> Prop.
Hypothesis HBase : forall e b, P (SBase e b).
Hypothesis HTri : forall n lo a, P (STri n lo a).
Hypothesis HDiag : forall n d, P (SDiag n d).
Hypothesis HIdent : forall n, P (SIdent n).
Hypothesis HScal : forall c n, P (SScal c n).
Hypothesis HPerm : forall n p, P (SPerm n p).
Hypothesis HProd : forall ms b, Forall P ms -> P (SProd ms b).
Hypothesis HKron : forall ms, Forall P ms -> P (SKron ms).
Hypothesis HBDiag : forall ms, Forall (fun mc => P (fst mc)) ms -> P (SBDiag ms).
Fixpoint sop_ind2 (e : sop) : P e :=
  match e with
  | SBase e0 b => HBase e0 b | STri n lo a => HTri n lo a | SDiag n d => HDiag n d | SIdent n => HIdent n
  | SScal c n => HScal c n | SPerm n p => HPerm n p
  | SProd ms b => HProd ms b ((fix go l : Forall P l := match l with [] => Forall_nil _ | m :: l' => Forall_cons _ (sop_ind2 m) (go l') end) ms)
  | SKron ms => HKron ms ((fix go l : Forall P l := match l with [] => Forall_nil _ | m :: l' => Forall_cons _ (sop_ind2 m) (go l') end) ms)
  | SBDiag ms => HBDiag ms ((fix go l : Forall (fun mc => P (fst mc)) l := match l with [] => Forall_nil _ | mc :: l' => Forall_cons _ (sop_ind2 (fst mc)) (go l') end) ms)
  end.
End Ind.

(* ---------- laws of the carriers ---------- *)
Record sdom_laws : Prop := {
  vmul_comm : forall a b, a ** b = b ** a;
  vmul_assoc : forall a b c, a ** (b ** c) = a ** b ** c;
  vmul_1_l : forall a, vone D ** a = a;
  vof_mul : forall x y, vof D (x * y) = vof D x ** vof D y;
  vof_1 : vof D r1 = vone D;
  vabs_inv : forall c, c <> r0 -> vabs D c ** vinv D (vabs D c) = vone D;
  lexp_add : forall a b, lexp D (ladd D a b) = lexp D a ** lexp D b;
  lexp_zero : lexp D (lzero D) = vone D;
  lexp_scale : forall k a, lexp D (lscale D k a) = vpow D (lexp D a) k;
  lexp_log_abs : forall c, lexp D (llog D (vabs D c)) = vabs D c;
  vconj_mul : forall a b, vconj D (a ** b) = vconj D a ** vconj D b;
  vconj_1 : vconj D (vone D) = vone D;
  vconj_of : forall x, vconj D (vof D x) = vof D (conj x);
  vconj_abs : forall c, vconj D (vabs D c) = vabs D c;
  vconj_inv : forall a, vconj D (vinv D a) = vinv D (vconj D a);
  lexp_ph_re : forall t, lph D t ** lexp D (lre D t) = lexp D t }.
Hypothesis LW : sdom_laws.
Let Hc := vmul_comm LW. Let Ha := vmul_assoc LW. Let H1 := vmul_1_l LW.

Lemma vmul_1_r a : a ** vone D = a. Proof. rewrite Hc. apply H1. Qed.
Lemma vswap4 a b c d : (a ** b) ** (c ** d) = (a ** c) ** (b ** d).
Proof. rewrite <- !Ha. f_equal. rewrite !Ha. rewrite (Hc b c). reflexivity. Qed.
Lemma vpow_mul a b k : vpow D (a ** b) k = vpow D a k ** vpow D b k.
Proof. induction k; cbn [vpow]; [rewrite H1; reflexivity|]. rewrite IHk. apply vswap4. Qed.
Lemma vpow_1 k : vpow D (vone D) k = vone D.
Proof. induction k; cbn [vpow]; [reflexivity|]. rewrite IHk. apply H1. Qed.
Lemma vof_rpow x k : vof D (rpow x k) = vpow D (vof D x) k.
Proof. induction k; cbn [vpow rpow]; [apply (vof_1 LW)|]. rewrite (vof_mul LW), IHk. reflexivity. Qed.
Lemma ev_pair s l : ev (s, l) = s ** lexp D l. Proof. reflexivity. Qed.
Lemma ev_scale k r : ev (scale_res D k r) = vpow D (ev r) k.
Proof. destruct r as [s l]. unfold scale_res, C07_Slogdet.ev. cbn [fst snd]. rewrite (lexp_scale LW), vpow_mul. reflexivity. Qed.
Lemma ev_ident : ev (ident_rule D) = vone D.
Proof. unfold ident_rule, C07_Slogdet.ev. cbn [fst snd]. rewrite (lexp_zero LW). apply H1. Qed.

(* folds *)
Lemma fold_vmul l a : fold_left (vmul D) l a = a ** fold_left (vmul D) l (vone D).
Proof. revert a. induction l as [|x l IH]; intros a; cbn [fold_left]; [symmetry; apply vmul_1_r|].
  rewrite IH, (IH (vone D ** x)), H1, Ha. reflexivity. Qed.
Lemma lexp_fold l a : lexp D (fold_left (ladd D) l a) = lexp D a ** fold_left (vmul D) (map (lexp D) l) (vone D).
Proof. revert a. induction l as [|x l IH]; intros a; cbn [fold_left map]; [symmetry; apply vmul_1_r|].
  rewrite IH, (lexp_add LW), (fold_vmul _ (vone D ** _)), H1, Ha. reflexivity. Qed.
Definition vprod (l : list V) : V := fold_right (fun x acc => x ** acc) (vone D) l.
Lemma ev_comb rs : ev (comb D rs) = vprod (map ev rs).
Proof. unfold comb, C07_Slogdet.ev. cbn [fst snd]. rewrite lexp_fold, (lexp_zero LW), H1.
  induction rs as [|[s l] rs IH]; cbn [map fold_left vprod fold_right fst snd]; [apply H1|].
  rewrite (fold_vmul _ (vone D ** s)), (fold_vmul _ (vone D ** lexp D l)), !H1. rewrite vswap4. rewrite IH. reflexivity. Qed.

(* ---------- Diagonal / Triangular rule ---------- *)
Lemma phase_abs c : c <> r0 -> phase D c ** vabs D c = vof D c.
Proof. intros Hn. unfold phase. rewrite <- Ha, (Hc (vinv D _)), (vabs_inv LW c Hn). apply vmul_1_r. Qed.
Lemma phase_conj_abs c : c <> r0 -> vconj D (phase D c) ** vabs D c = vof D (conj c).
Proof. intros Hn. unfold phase. rewrite (vconj_mul LW), (vconj_of LW), (vconj_inv LW), (vconj_abs LW).
  rewrite <- Ha, (Hc (vinv D _)), (vabs_inv LW c Hn). apply vmul_1_r. Qed.
Lemma conj_prodn n d : conj (prodn n d) = prodn n (fun i => conj (d i)).
Proof. induction n; cbn [prodn]; [apply conj_1|]. rewrite conj_mul, IHn. reflexivity. Qed.
Lemma diag_rule_ok n d : (forall i, (i < n)%nat -> d i <> r0) ->
  ev (diag_rule D n d) = vof D (prodn n d) /\
  vconj D (fst (diag_rule D n d)) ** lexp D (snd (diag_rule D n d)) = vof D (conj (prodn n d)).
Proof. induction n as [|n IH]; intros Hd; cbn [diag_rule prodn].
  - unfold C07_Slogdet.ev. cbn [fst snd]. rewrite (lexp_zero LW), (vconj_1 LW), conj_1, H1, (vof_1 LW). auto.
  - destruct IH as [IH1 IH2]; [intros; apply Hd; lia|]. unfold C07_Slogdet.ev in *. cbn [fst snd].
    rewrite (lexp_add LW), (lexp_log_abs LW). split.
    + rewrite vswap4, IH1, (phase_abs _ (Hd n (Nat.lt_succ_diag_r n))), (vof_mul LW). reflexivity.
    + rewrite (vconj_mul LW), vswap4, IH2, (phase_conj_abs _ (Hd n (Nat.lt_succ_diag_r n))), conj_mul, (vof_mul LW). reflexivity.
Qed.
End Proofs.
