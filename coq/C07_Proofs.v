(* C07 - correctness of the slogdet rules from the determinant interface alone:
   slogdet_det :  DetLaws fdet -> sdom_laws D -> valid alg e ->  phase * exp(logabs) = det (represented matrix)
   for the repaired model (all flags off), every algorithm choice and every decorated tree. *)
From Coq Require Import Arith Lia List Ring ArithRing PeanoNat Bool ZArith.
From Core Require Import Base Kron Op BdAlg C07_DetLaws C07_Slogdet.
Import ListNotations.
Section Proofs.
Context {R : Type} {RR : Ring R} {CR : CRing R}.
Add Ring Rring : Rth.
Open Scope R_scope.
Notation fm := (fm (R:=R)). Notation op := (op (R:=R)). Notation fac := (fac (R:=R)).
Variables V L : Type.
Variable D : sdom (R:=R) V L.
Notation sop := (sop (R:=R) L).
Notation "a ** b" := (vmul D a b) (at level 40, left associativity).
Notation ev := (ev D).

(* ---------- induction principle for the nested tree type ---------- *)
Section Ind.
Variable P : sop -> Prop.
Hypothesis HBase : forall e b, P (SBase e b).
Hypothesis HTri : forall n lo a, P (STri n lo a).
Hypothesis HDiag : forall n d, P (SDiag n d).
Hypothesis HIdent : forall n, P (SIdent n).
Hypothesis HScal : forall c n, P (SScal c n).
Hypothesis HPerm : forall n p, P (SPerm n p).
Hypothesis HProd : forall ms b, Forall P ms -> P (SProd ms b).
Hypothesis HKron : forall ms, Forall P ms -> P (SKron ms).
Hypothesis HBDiag : forall ms, Forall (fun mc => P (fst mc)) ms -> P (SBDiag ms).
Fixpoint sop_ind2 (e : sop) : P e :=
  match e with
  | SBase e0 b => HBase e0 b | STri n lo a => HTri n lo a | SDiag n d => HDiag n d | SIdent n => HIdent n
  | SScal c n => HScal c n | SPerm n p => HPerm n p
  | SProd ms b => HProd ms b ((fix go l : Forall P l := match l with [] => Forall_nil _ | m :: l' => Forall_cons _ (sop_ind2 m) (go l') end) ms)
  | SKron ms => HKron ms ((fix go l : Forall P l := match l with [] => Forall_nil _ | m :: l' => Forall_cons _ (sop_ind2 m) (go l') end) ms)
  | SBDiag ms => HBDiag ms ((fix go l : Forall (fun mc => P (fst mc)) l := match l with [] => Forall_nil _ | mc :: l' => Forall_cons _ (sop_ind2 (fst mc)) (go l') end) ms)
  end.
End Ind.

(* ---------- laws of the carriers ---------- *)
Record sdom_laws : Prop := {
  vmul_comm : forall a b, a ** b = b ** a;
  vmul_assoc : forall a b c, a ** (b ** c) = a ** b ** c;
  vmul_1_l : forall a, vone D ** a = a;
  vof_mul : forall x y, vof D (x * y) = vof D x ** vof D y;
  vof_1 : vof D r1 = vone D;
  vabs_inv : forall c, c <> r0 -> vabs D c ** vinv D (vabs D c) = vone D;
  lexp_add : forall a b, lexp D (ladd D a b) = lexp D a ** lexp D b;
  lexp_zero : lexp D (lzero D) = vone D;
  lexp_scale : forall k a, lexp D (lscale D k a) = vpow D (lexp D a) k;
  lexp_log_abs : forall c, lexp D (llog D (vabs D c)) = vabs D c;
  vconj_mul : forall a b, vconj D (a ** b) = vconj D a ** vconj D b;
  vconj_1 : vconj D (vone D) = vone D;
  vconj_of : forall x, vconj D (vof D x) = vof D (conj x);
  vconj_abs : forall c, vconj D (vabs D c) = vabs D c;
  vconj_inv_abs : forall c, c <> r0 -> vconj D (vinv D (vabs D c)) = vinv D (vabs D c);
  lexp_ph_re : forall t, lph D t ** lexp D (lre D t) = lexp D t }.
Hypothesis LW : sdom_laws.
Let Hc := vmul_comm LW. Let Ha := vmul_assoc LW. Let H1 := vmul_1_l LW.

Lemma vmul_1_r a : a ** vone D = a. Proof. rewrite Hc. apply H1. Qed.
Lemma vswap4 a b c d : (a ** b) ** (c ** d) = (a ** c) ** (b ** d).
Proof. rewrite <- !Ha. f_equal. rewrite !Ha. rewrite (Hc b c). reflexivity. Qed.
Lemma vpow_mul a b k : vpow D (a ** b) k = vpow D a k ** vpow D b k.
Proof. induction k; cbn [vpow]; [rewrite H1; reflexivity|]. rewrite IHk. apply vswap4. Qed.
Lemma vpow_1 k : vpow D (vone D) k = vone D.
Proof. induction k; cbn [vpow]; [reflexivity|]. rewrite IHk. apply H1. Qed.
Lemma vof_rpow x k : vof D (rpow x k) = vpow D (vof D x) k.
Proof. induction k; cbn [vpow rpow]; [apply (vof_1 LW)|]. rewrite (vof_mul LW), IHk. reflexivity. Qed.
Lemma ev_pair s l : ev (s, l) = s ** lexp D l. Proof. reflexivity. Qed.
Lemma ev_scale k r : ev (scale_res D k r) = vpow D (ev r) k.
Proof. destruct r as [s l]. unfold scale_res, C07_Slogdet.ev. cbn [fst snd]. rewrite (lexp_scale LW), vpow_mul. reflexivity. Qed.
Lemma ev_ident : ev (ident_rule D) = vone D.
Proof. unfold ident_rule, C07_Slogdet.ev. cbn [fst snd]. rewrite (lexp_zero LW). apply H1. Qed.

(* folds *)
Lemma fold_vmul l a : fold_left (vmul D) l a = a ** fold_left (vmul D) l (vone D).
Proof. revert a. induction l as [|x l IH]; intros a; cbn [fold_left]; [symmetry; apply vmul_1_r|].
  rewrite IH, (IH (vone D ** x)), H1, Ha. reflexivity. Qed.
Lemma lexp_fold l a : lexp D (fold_left (ladd D) l a) = lexp D a ** fold_left (vmul D) (map (lexp D) l) (vone D).
Proof. revert a. induction l as [|x l IH]; intros a; cbn [fold_left map]; [symmetry; apply vmul_1_r|].
  rewrite IH, (lexp_add LW), (fold_vmul _ (vone D ** _)), H1, Ha. reflexivity. Qed.
Definition vprod (l : list V) : V := fold_right (fun x acc => x ** acc) (vone D) l.
Lemma ev_comb rs : ev (comb D rs) = vprod (map ev rs).
Proof. unfold comb, C07_Slogdet.ev. cbn [fst snd]. rewrite lexp_fold, (lexp_zero LW), H1.
  induction rs as [|[s l] rs IH]; cbn [map fold_left vprod fold_right fst snd]; [apply H1|].
  rewrite (fold_vmul _ (vone D ** s)), (fold_vmul _ (vone D ** lexp D l)), !H1. rewrite vswap4. rewrite IH. reflexivity. Qed.

(* ---------- Diagonal / Triangular rule ---------- *)
Lemma phase_abs c : c <> r0 -> phase D c ** vabs D c = vof D c.
Proof. intros Hn. unfold phase. rewrite <- Ha, (Hc (vinv D _)), (vabs_inv LW c Hn). apply vmul_1_r. Qed.
Lemma phase_conj_abs c : c <> r0 -> vconj D (phase D c) ** vabs D c = vof D (conj c).
Proof. intros Hn. unfold phase. rewrite (vconj_mul LW), (vconj_of LW), (vconj_inv_abs LW c Hn).
  rewrite <- Ha, (Hc (vinv D _)), (vabs_inv LW c Hn). apply vmul_1_r. Qed.
Lemma conj_prodn n d : conj (prodn n d) = prodn n (fun i => conj (d i)).
Proof. induction n; cbn [prodn]; [apply conj_1|]. rewrite conj_mul, IHn. reflexivity. Qed.
Lemma diag_rule_ok n d : (forall i, (i < n)%nat -> d i <> r0) ->
  ev (diag_rule D n d) = vof D (prodn n d) /\
  vconj D (fst (diag_rule D n d)) ** lexp D (snd (diag_rule D n d)) = vof D (conj (prodn n d)).
Proof. induction n as [|n IH]; intros Hd; cbn [diag_rule prodn].
  - unfold C07_Slogdet.ev. cbn [fst snd]. rewrite (lexp_zero LW), (vconj_1 LW), conj_1, H1, (vof_1 LW). auto.
  - destruct IH as [IH1 IH2]; [intros; apply Hd; lia|]. unfold C07_Slogdet.ev in *. cbn [fst snd].
    rewrite (lexp_add LW), (lexp_log_abs LW). split.
    + rewrite vswap4, IH1, (phase_abs _ (Hd n (Nat.lt_succ_diag_r n))), (vof_mul LW). reflexivity.
    + rewrite (vconj_mul LW), vswap4, IH2, (phase_conj_abs _ (Hd n (Nat.lt_succ_diag_r n))), conj_mul, (vof_mul LW). reflexivity.
Qed.

(* ================= the rules against the determinant interface ================= *)
Variable fdet : nat -> fm -> R.
Hypothesis DL : DetLaws fdet.
Definition adjm (A : fm) : fm := fun i j => conj (A j i).
Definition pm (p : nat -> nat) : fm := fun i j => delta (p i) j.
Definition nzdiag (n : nat) (A : fm) := forall i, (i < n)%nat -> A i i <> r0.
(* specification of the decoration that the selected base case reads (oracle hypotheses) *)
Definition base_ok (alg : lalg) (n : nat) (A : fm) (b : based (R:=R) L) : Prop :=
  match pick alg (b_psd b) n with
  | PChol => lower_tri n (b_ch b) /\ nzdiag n (b_ch b) /\ feq n n A (mmul n (b_ch b) (adjm (b_ch b)))
  | PLU => is_perm n (lu_p (b_lu b)) /\ lower_tri n (lu_L (b_lu b)) /\ upper_tri n (lu_U (b_lu b)) /\
           nzdiag n (lu_L (b_lu b)) /\ nzdiag n (lu_U (b_lu b)) /\
           feq n n A (mmul n (pm (lu_p (b_lu b))) (mmul n (lu_L (b_lu b)) (lu_U (b_lu b))))
  | PKry => lexp D (b_kt b) = vof D (fdet n A) /\ fdet n A <> r0
  end.

Lemma tri_rule_lower n a : lower_tri n a -> nzdiag n a -> ev (tri_rule D n a) = vof D (fdet n a).
Proof. intros Ht Hd. unfold tri_rule. rewrite (proj1 (diag_rule_ok n (fun i => a i i) Hd)), (det_lower fdet DL n a Ht). reflexivity. Qed.
Lemma tri_rule_upper n a : upper_tri n a -> nzdiag n a -> ev (tri_rule D n a) = vof D (fdet n a).
Proof. intros Ht Hd. unfold tri_rule. rewrite (proj1 (diag_rule_ok n (fun i => a i i) Hd)), (det_upper fdet DL n a Ht). reflexivity. Qed.
Lemma chol_rule_ok n A ch : lower_tri n ch -> nzdiag n ch -> feq n n A (mmul n ch (adjm ch)) ->
  ev (chol_rule D n ch) = vof D (fdet n A).
Proof. intros Ht Hd HA. rewrite (det_ext fdet DL n _ _ HA), (det_mul fdet DL), (det_lower fdet DL n ch Ht).
  rewrite (det_upper fdet DL n (adjm ch)).
  2:{ intros i j Hi Hj Hij. unfold adjm. rewrite (Ht j i Hj Hi Hij). apply conj_0. }
  unfold chol_rule, tri_rule, C07_Slogdet.ev. cbn [fst snd].
  destruct (diag_rule_ok n (fun i => ch i i) Hd) as [E1 E2]. unfold C07_Slogdet.ev in E1.
  rewrite (lexp_scale LW). cbn [vpow]. rewrite vmul_1_r, vswap4, E1, E2, (vof_mul LW).
  unfold adjm. rewrite conj_prodn. reflexivity. Qed.
Lemma perm_rule_ok n p : is_perm n p -> ev (perm_rule D all_fixed n p) = vof D (fdet n (pm p)).
Proof. intros Hp. unfold perm_rule. cbn [perm_slogdet_ignores_parity all_fixed]. unfold C07_Slogdet.ev. cbn [fst snd].
  rewrite (lexp_zero LW), vmul_1_r. unfold pm. rewrite (fdet_perm fdet DL n p Hp). reflexivity. Qed.
Lemma lu_rule_ok n A lu : is_perm n (lu_p lu) -> lower_tri n (lu_L lu) -> upper_tri n (lu_U lu) ->
  nzdiag n (lu_L lu) -> nzdiag n (lu_U lu) -> feq n n A (mmul n (pm (lu_p lu)) (mmul n (lu_L lu) (lu_U lu))) ->
  ev (lu_rule D all_fixed n lu) = vof D (fdet n A).
Proof. intros Hp HL HU DL' DU HA. unfold lu_rule. rewrite ev_comb. cbn [map vprod fold_right].
  rewrite (perm_rule_ok n _ Hp), (tri_rule_lower n _ HL DL'), (tri_rule_upper n _ HU DU), vmul_1_r.
  rewrite (det_ext fdet DL n _ _ HA), !(det_mul fdet DL), !(vof_mul LW). reflexivity. Qed.
Lemma kry_rule_ok n A t : lexp D t = vof D (fdet n A) -> ev (kry_rule D all_fixed t) = vof D (fdet n A).
Proof. intros H. unfold kry_rule. cbn [krylov_slogdet_abs_of_trace all_fixed]. unfold C07_Slogdet.ev. cbn [fst snd].
  rewrite (lexp_ph_re LW). exact H. Qed.
Lemma base_rule_ok alg n A b : base_ok alg n A b -> ev (base_rule D all_fixed alg n b) = vof D (fdet n A).
Proof. unfold base_ok, base_rule. destruct (pick alg (b_psd b) n).
  - intros (H1' & H2 & H3). apply chol_rule_ok; auto.
  - intros (H1' & H2 & H3 & H4 & H5 & H6). apply lu_rule_ok; auto.
  - intros [H _]. apply kry_rule_ok; exact H. Qed.
Lemma scal_rule_ok c n : c <> r0 -> ev (scal_rule D all_fixed c n) = vof D (fdet n (fun i j => c * delta i j)).
Proof. intros Hn. unfold scal_rule. cbn [scalar_slogdet_ignores_n all_fixed].
  change (vpow D (phase D c) n, lscale D n (llog D (vabs D c))) with (scale_res D n (phase D c, llog D (vabs D c))).
  rewrite ev_scale. unfold C07_Slogdet.ev. cbn [fst snd]. rewrite (lexp_log_abs LW), (phase_abs c Hn).
  rewrite (fdet_scal fdet DL), vof_rpow. reflexivity. Qed.

(* ---------- validity of a decorated tree for an algorithm choice (non-singular, oracle hypotheses) ---------- *)
Inductive valid (alg : lalg) : sop -> Prop :=
| V_Base e b n : wf e = true -> shape e = (n, n) -> base_ok alg n (den e) b -> valid alg (SBase e b)
| V_Tri n lo a : (if lo : bool then lower_tri n a else upper_tri n a) -> nzdiag n a -> valid alg (STri n lo a)
| V_Diag n d : (forall i, (i < n)%nat -> d i <> r0) -> valid alg (SDiag n d)
| V_Ident n : valid alg (SIdent n)
| V_Scal c n : c <> r0 -> valid alg (SScal c n)
| V_Perm n p : is_perm n p -> valid alg (SPerm n p)
| V_ProdSq ms b n : ms <> [] -> Forall (fun m => shape (to_op m) = (n, n)) ms -> Forall (valid alg) ms -> valid alg (SProd ms b)
| V_ProdBase ms b n : forallb (fun m => is_square (shape (to_op m))) ms = false ->
    wf (Prod (map to_op ms)) = true -> shape (Prod (map to_op ms)) = (n, n) ->
    base_ok alg n (den (Prod (map to_op ms))) b -> valid alg (SProd ms b)
| V_Kron ms : Forall (fun m => exists n, (0 < n)%nat /\ shape (to_op m) = (n, n)) ms -> Forall (valid alg) ms -> valid alg (SKron ms)
| V_BDiag ms : Forall (fun mc => exists n, shape (to_op (fst mc)) = (n, n)) ms -> Forall (fun mc => valid alg (fst mc)) ms ->
    valid alg (SBDiag ms).

Definition Good (alg : lalg) (e : sop) : Prop :=
  valid alg e -> ev (slogdet D all_fixed alg e) = vof D (fdet (dim e) (den (to_op e))).

(* Product of square factors *)
Lemma chain_square n (ms : list op) : Forall (fun m => shape m = (n, n)) ms ->
  chain (map (fun m => (shape m, den m)) ms) = fold_right (fun M acc => mmul n M acc) eye (map den ms).
Proof. induction 1 as [|m ms Hm _ IH]; cbn [map chain fold_right]; [reflexivity|].
  fold (chain (map (fun m => (shape m, den m)) ms)). rewrite IH, Hm. reflexivity. Qed.
Lemma vof_fold_prod (l : list R) : vof D (fold_right (fun x acc => x * acc) r1 l) = vprod (map (vof D) l).
Proof. induction l; cbn [fold_right map vprod]; [apply (vof_1 LW)|]. rewrite (vof_mul LW), IHl. reflexivity. Qed.
Lemma good_ProdSq alg ms b n : ms <> [] -> Forall (fun m => shape (to_op m) = (n, n)) ms -> Forall (valid alg) ms ->
  Forall (Good alg) ms -> ev (slogdet D all_fixed alg (SProd ms b)) = vof D (fdet (dim (SProd ms b)) (den (to_op (SProd ms b)))).
Proof. intros Hne Hsh Hv HG.
  assert (Hsq : forallb (fun m => is_square (shape (to_op m))) ms = true).
  { apply forallb_forall. intros m Hm. rewrite Forall_forall in Hsh. rewrite (Hsh m Hm). unfold is_square. cbn. apply Nat.eqb_refl. }
  cbn [slogdet]. rewrite Hsq. rewrite ev_comb.
  assert (Hd : dim (SProd ms b) = n).
  { unfold dim. cbn [to_op shape]. destruct ms as [|m ms]; [congruence|]. cbn [map hd fst]. inversion Hsh; subst. rewrite H2. reflexivity. }
  rewrite Hd. cbn [to_op den]. rewrite (chain_square n).
  2:{ clear -Hsh. induction Hsh; cbn [map]; constructor; auto. }
  rewrite (fdet_chain fdet DL), map_map.
  clear Hne Hsq Hd. induction ms as [|m ms IH]; cbn [map fold_right vprod]; [apply eq_sym, (vof_1 LW)|].
  pose proof (Forall_inv Hsh) as Sm. pose proof (Forall_inv_tail Hsh) as Sms.
  pose proof (Forall_inv Hv) as Vm. pose proof (Forall_inv_tail Hv) as Vms.
  pose proof (Forall_inv HG) as Gm. pose proof (Forall_inv_tail HG) as Gms. cbv beta in Sm.
  rewrite (vof_mul LW), <- (IH Sms Vms Gms). f_equal. rewrite (Gm Vm). unfold dim. rewrite Sm. reflexivity. Qed.

(* Kronecker *)
Definition facof (m : op) : fac := mkfac (fst (shape m)) (snd (shape m)) (den m).
Lemma kshape_kronR (l : list op) : kshape (map shape l) = (fr (kronR (map facof l)), fc (kronR (map facof l))).
Proof. induction l as [|m l IH]; cbn [map kshape fold_right kronR kron2 fr fc one11]; [reflexivity|].
  fold (kshape (map shape l)). rewrite IH. reflexivity. Qed.
Lemma fold_mul_prodr (l : list nat) a : fold_left Nat.mul l a = (a * fold_right Nat.mul 1 l)%nat.
Proof. revert a. induction l as [|x l IH]; intros a; cbn [fold_left fold_right]; [lia|]. rewrite IH. ring. Qed.
Lemma good_Kron alg ms : Forall (fun m => exists n, (0 < n)%nat /\ shape (to_op m) = (n, n)) ms -> Forall (valid alg) ms ->
  Forall (Good alg) ms -> ev (slogdet D all_fixed alg (SKron ms)) = vof D (fdet (dim (SKron ms)) (den (to_op (SKron ms)))).
Proof. intros Hsh Hv HG. cbn [slogdet]. unfold kron_rule. rewrite ev_comb, !map_map. cbn [fst snd].
  set (Ms := map facof (map to_op ms)).
  assert (HS : Forall sqf Ms).
  { unfold Ms. clear -Hsh. induction Hsh as [|m ms (n & Hn & E) _ IH]; cbn [map]; constructor; auto.
    unfold sqf, facof. cbn [fr fc]. rewrite E. cbn. auto. }
  assert (Hdim : dim (SKron ms) = fr (kronR Ms)).
  { unfold dim. cbn [to_op shape]. rewrite kshape_kronR. reflexivity. }
  assert (HN : fold_left Nat.mul (map (fun x => snd (shape (to_op x))) ms) 1%nat = fr (kronR Ms)).
  { rewrite fold_mul_prodr, Nat.mul_1_l. unfold Ms. clear -Hsh.
    induction Hsh as [|m ms (n & Hn & E) _ IH]; cbn [map fold_right kronR kron2 fr one11]; [reflexivity|].
    rewrite IH. change (fr (facof (to_op m))) with (fst (shape (to_op m))). rewrite E. reflexivity. }
  rewrite HN, Hdim. change (den (to_op (SKron ms))) with (fmx (kronR Ms)).
  rewrite (fdet_kronR fdet DL Ms HS). generalize (fr (kronR Ms)) as N. intros N. unfold Ms.
  clear HS Hdim HN Ms. induction ms as [|m ms IH]; cbn [map vprod fold_right kdets]; [apply eq_sym, (vof_1 LW)|].
  pose proof (Forall_inv Hsh) as (n & Hn & E). pose proof (Forall_inv_tail Hsh) as Sms.
  pose proof (Forall_inv Hv) as Vm. pose proof (Forall_inv_tail Hv) as Vms.
  pose proof (Forall_inv HG) as Gm. pose proof (Forall_inv_tail HG) as Gms.
  rewrite (vof_mul LW), <- (IH Sms Vms Gms). f_equal. rewrite ev_scale, (Gm Vm). rewrite vof_rpow.
  unfold facof. cbn [fr fmx]. unfold dim. rewrite Nat.mul_1_l, E. reflexivity. Qed.

(* BlockDiag with multiplicities *)
Definition blk_of (b : shp * fm) : nat * fm := (fst (fst b), snd b).
Lemma bd_bdl (l : list (shp * fm)) : Forall (fun b => fst (fst b) = snd (fst b)) l ->
  forall i j, bd l i j = bdl (map blk_of l) i j.
Proof. induction 1 as [|[s M] l E _ IH]; intros i j; cbn [bd map bdl blk_of fst snd]; [reflexivity|].
  cbn [fst snd] in E. unfold bdiag2. rewrite <- E.
  destruct (i <? fst s)%nat; destruct (j <? fst s)%nat; auto. Qed.
Definition blocks (ms : list (sop * nat)) : list (shp * fm) :=
  concat (map (fun mc => rep (snd mc) (shape (to_op (fst mc)), den (to_op (fst mc)))) ms).
Lemma bdl_rep mu (b : shp * fm) rest :
  bdl_dim (map blk_of (rep mu b ++ rest)) = (mu * fst (fst b) + bdl_dim (map blk_of rest))%nat /\
  bdl_det fdet (map blk_of (rep mu b ++ rest)) = rpow (fdet (fst (fst b)) (snd b)) mu * bdl_det fdet (map blk_of rest).
Proof. induction mu as [|mu [IH1 IH2]]; cbn [rep app map bdl_dim bdl_det rpow blk_of]; [split; [reflexivity|ring]|].
  fold (blk_of b). split.
  - change (map blk_of (rep mu b ++ rest)) with (map blk_of (rep mu b ++ rest)). rewrite IH1. cbn [blk_of fst]. lia.
  - rewrite IH2. cbn [blk_of fst snd]. ring. Qed.
Lemma rep_square mu (b : shp * fm) : fst (fst b) = snd (fst b) -> Forall (fun b => fst (fst b) = snd (fst b)) (rep mu b).
Proof. intros E. induction mu; cbn [rep]; constructor; auto. Qed.
Lemma good_BDiag alg ms : Forall (fun mc => exists n, shape (to_op (fst mc)) = (n, n)) ms -> Forall (fun mc => valid alg (fst mc)) ms ->
  Forall (fun mc => Good alg (fst mc)) ms ->
  ev (slogdet D all_fixed alg (SBDiag ms)) = vof D (fdet (dim (SBDiag ms)) (den (to_op (SBDiag ms)))).
Proof. intros Hsh Hv HG. cbn [slogdet]. unfold bdiag_rule. rewrite ev_comb, !map_map. cbn [fst snd].
  assert (Hden : den (to_op (SBDiag ms)) = bd (blocks ms)).
  { cbn [to_op den]. unfold blocks. rewrite map_map. reflexivity. }
  assert (Hsq : Forall (fun b => fst (fst b) = snd (fst b)) (blocks ms)).
  { unfold blocks. clear -Hsh. induction Hsh as [|mc ms (n & E) _ IH]; cbn [map concat]; [constructor|].
    apply Forall_app. split; [|exact IH]. apply rep_square. cbn [fst snd]. rewrite E. reflexivity. }
  assert (Hdim : dim (SBDiag ms) = bdl_dim (map blk_of (blocks ms))).
  { unfold dim. cbn [to_op shape]. rewrite map_map. cbn [fst snd]. unfold blocks. clear Hden Hsq Hsh Hv HG.
    induction ms as [|mc ms IH]; cbn [map bshape fold_right concat fst snd]; [reflexivity|].
    rewrite (proj1 (bdl_rep _ _ _)). cbn [fst]. fold (bshape (map (fun x : sop * nat => (shape (to_op (fst x)), snd x)) ms)).
    rewrite IH. lia. }
  rewrite Hden, Hdim, (det_ext fdet DL _ _ _ (fun i j _ _ => bd_bdl _ Hsq i j)), (fdet_bdl fdet DL).
  clear Hden Hsq Hdim. unfold blocks. induction ms as [|mc ms IH]; cbn [map vprod fold_right concat bdl_det]; [apply eq_sym, (vof_1 LW)|].
  pose proof (Forall_inv Hsh) as (n & E). pose proof (Forall_inv_tail Hsh) as Sms.
  pose proof (Forall_inv Hv) as Vm. pose proof (Forall_inv_tail Hv) as Vms.
  pose proof (Forall_inv HG) as Gm. pose proof (Forall_inv_tail HG) as Gms.
  rewrite (proj2 (bdl_rep _ _ _)), (vof_mul LW), <- (IH Sms Vms Gms). f_equal.
  rewrite ev_scale, (Gm Vm), vof_rpow. cbn [fst snd]. unfold dim. reflexivity. Qed.

(* ================= the theorem ================= *)
Theorem slogdet_det_all alg e : Good alg e.
Proof. induction e using sop_ind2; intros Hv; inversion Hv; subst; unfold dim.
  - (* base case *) cbn [slogdet to_op].
    match goal with E : shape _ = (_, _) |- _ => rewrite E end. cbn [fst]. apply base_rule_ok. assumption.
  - cbn [slogdet to_op shape den nr dat fst]. destruct lo; [apply tri_rule_lower|apply tri_rule_upper]; auto.
  - cbn [slogdet to_op shape den fst].
    match goal with Hd : forall i, (i < _)%nat -> _ <> r0 |- _ => rewrite (proj1 (diag_rule_ok n d Hd)) end.
    rewrite (fdet_diag fdet DL). reflexivity.
  - cbn [slogdet to_op shape den fst]. rewrite ev_ident, (det_eye fdet DL), (vof_1 LW). reflexivity.
  - cbn [slogdet to_op shape den fst]. apply scal_rule_ok; auto.
  - cbn [slogdet to_op shape den fst]. apply perm_rule_ok; auto.
  - eapply good_ProdSq; eauto.
  - cbn [slogdet].
    match goal with E : forallb _ _ = false |- _ => rewrite E end.
    change (to_op (SProd ms b)) with (Prod (map to_op ms)).
    match goal with E : shape (Prod _) = (_, _) |- _ => rewrite E end. cbn [fst]. apply base_rule_ok. assumption.
  - apply good_Kron; auto.
  - apply good_BDiag; auto.
Qed.
End Proofs.
