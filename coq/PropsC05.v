(* Property C05: reported structural annotations are true of the represented matrix. *)
From Coq Require Import List Arith Bool ZArith.
From Core Require Import Base Kron Op OpProofs ZIInst C05_Annot C05_Sem C05_Sem2 C05_Sound C05_Refute.
Import ListNotations.

(* Soundness of the (repaired) inference, for every annotated operator tree - any nesting, any number of Kronecker /
   block factors and multiplicities, scalar multiples, A^H A / A A^H / real A^T A patterns, equal slices - over any
   commutative ring with involution and any positivity predicate closed under 1 and products whose members are real:
   if every DECLARED annotation is true of the node it is declared on (and permutation leaves are bijections),
   every INFERRED annotation is true of the represented matrix. *)
Theorem C05_infer_sound : forall (R : Type) (RR : Ring R) (CR : CRing R) (nonneg : R -> Prop),
  nonneg r1 -> (forall a b, nonneg a -> nonneg b -> nonneg (rmul a b)) -> (forall a, nonneg a -> conj a = a) ->
  forall x : aop (R:=R), wf (erase x) = true -> truthful nonneg x ->
  forall a, mem a (infer repaired x) = true -> holds nonneg a (shape (erase x)) (den (erase x)).
Proof. intros R RR CR nonneg H1 H2 H3 x. exact (@infer_sound R RR CR nonneg H1 H2 H3 x). Qed.
Print Assumptions C05_infer_sound.

(* what `PSD` (weighted Gram form) means: Hermitian, and the quadratic form is a non-negative combination of squared moduli *)
Theorem C05_PSD_quadform : forall (R : Type) (RR : Ring R) (CR : CRing R) (nonneg : R -> Prop),
  (forall a, nonneg a -> conj a = a) -> forall n M, PSDm nonneg n M -> SAm n M /\
  exists k G dd, (forall l, l < k -> nonneg (dd l)) /\
    forall v : nat -> R, sum n (fun i => sum n (fun j => rmul (rmul (conj (v i)) (M i j)) (v j)))
                       = sum k (fun l => rmul (dd l) (rmul (conj (sum n (fun i => rmul (G l i) (v i)))) (sum n (fun j => rmul (G l j) (v j))))).
Proof. intros R RR CR nonneg H3. exact (@PSD_quadform R RR CR nonneg H3). Qed.
Print Assumptions C05_PSD_quadform.

(* declaring an annotation yields an operator with the same action (same tree) *)
Theorem C05_declare_pure : forall (R : Type) (s : aset) (x : aop (R:=R)), erase (declare s x) = erase x.
Proof. intros R. exact (@declare_pure R). Qed.
Print Assumptions C05_declare_pure.

(* the three unsound behaviours of the pinned tree, each with a concrete witness *)
Theorem C05_scalar_keeps_annotations_refuted :
  wf (erase w_scalar) = true /\ truthful zi_nonneg w_scalar /\ mem Un (infer only_scalar w_scalar) = true /\ ~ sem zi_nonneg w_scalar Un.
Proof. exact scalar_keeps_annotations_refuted. Qed.
Print Assumptions C05_scalar_keeps_annotations_refuted.
Theorem C05_transpose_keeps_stiefel_refuted :
  wf (erase w_stiefel) = true /\ truthful zi_nonneg w_stiefel /\ mem St (infer only_stiefel w_stiefel) = true /\ ~ sem zi_nonneg w_stiefel St.
Proof. exact transpose_keeps_stiefel_refuted. Qed.
Print Assumptions C05_transpose_keeps_stiefel_refuted.
Theorem C05_ata_psd_refuted :
  wf (erase w_ata) = true /\ truthful zi_nonneg w_ata /\ mem PSD (infer only_ata w_ata) = true /\ ~ sem zi_nonneg w_ata PSD.
Proof. exact ata_psd_refuted. Qed.
Print Assumptions C05_ata_psd_refuted.

(* non-vacuity: a non-trivial tree meeting the hypotheses, on which the theorem yields PSD *)
Example C05_example :
  let x : aop (R:=zi) := XKron [XGram true true false (XLeaf (Gen Kc) []) []; XLeaf (Ident 2) []] [] in
  wf (erase x) = true /\ truthful zi_nonneg x /\ mem PSD (infer repaired x) = true.
Proof. cbv zeta. split; [reflexivity|]. split; [|reflexivity]. cbn. intuition; discriminate. Qed.
