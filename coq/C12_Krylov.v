(* C12, stage C: exact-arithmetic theory of the CG model.  Scalars: any field with an involution (real or complex
   numbers); vectors: any type with an inner product satisfying WEAK laws, i.e. scalar equations about <.,.> only
   (no equality between vectors is ever used), so that "functions/lists with <u,v> = sum conj(u_i) v_i and any
   Hermitian matrix" is an instance without functional extensionality.  The objects of the theorems are the
   iterates of [step_col] of C12_Model.v - the code's step including its 1e-40 guards - under the explicit
   hypothesis that the guards are inactive and no breakdown occurs during the first K steps.
   Results: M-orthogonality of residuals, A-conjugacy of directions, residual identity, Galerkin orthogonality,
   the Pythagoras identity for the A-norm of the error, optimality over x0 + span{p_0..p_{k-1}}, and the
   identification of that span with the preconditioned Krylov space K_k(MA, M r0). *)
From Coq Require Import List Bool Arith Lia Ring Field.
From Core Require Import C12_Ops C12_Model C12_Contract.
Import ListNotations.

Declare Scope T_scope.
Delimit Scope T_scope with T.

Section Krylov.
Context {T V : Type} (o : ops T) (vo : vops T V).
Notation "0" := (o0 o) : T_scope.
Notation "1" := (o1 o) : T_scope.
Notation "x + y" := (oadd o x y) : T_scope.
Notation "x * y" := (omul o x y) : T_scope.
Notation "x - y" := (osub o x y) : T_scope.
Notation "x / y" := (odiv o x y) : T_scope.
Notation "- x" := (oopp o x) : T_scope.
Notation conj := (oconj o).
Notation dot := (vdot vo).
Local Open Scope T_scope.

Hypothesis Fth : field_theory 0 1 (oadd o) (omul o) (osub o) (oopp o) (odiv o) (fun x => 1 / x) eq.
Add Field Tfield : Fth.
Hypothesis conj_add : forall a b, conj (a + b) = conj a + conj b.
Hypothesis conj_mul : forall a b, conj (a * b) = conj a * conj b.
Hypothesis conj_opp : forall a, conj (- a) = - conj a.
Hypothesis conj_div : forall a b, conj (a / b) = conj a / conj b.

Variables (A P : V -> V).
Hypothesis dot_add_r : forall u v w, dot u (vadd vo v w) = dot u v + dot u w.
Hypothesis dot_sub_r : forall u v w, dot u (vsub vo v w) = dot u v - dot u w.
Hypothesis dot_scale_r : forall u a v, dot u (vscale vo a v) = a * dot u v.
Hypothesis dot_sym : forall u v, dot u v = conj (dot v u).
Hypothesis A_sa : forall u v, dot u (A v) = dot (A u) v.       (* A Hermitian *)
Hypothesis P_sa : forall u v, dot u (P v) = dot (P u) v.       (* the preconditioner is Hermitian *)

Lemma conj_zero : conj 0 = 0.
Proof. assert (H : conj 0 + conj 0 = conj 0). { rewrite <- conj_add. f_equal. ring. }
  transitivity (conj 0 + conj 0 - conj 0); [ring|rewrite H; ring]. Qed.
Lemma conj_sub a b : conj (a - b) = conj a - conj b.
Proof. replace (a - b) with (a + - b) by ring. rewrite conj_add, conj_opp. ring. Qed.
Lemma dot_add_l u v w : dot (vadd vo u v) w = dot u w + dot v w.
Proof. rewrite dot_sym, dot_add_r, conj_add, <- !dot_sym. reflexivity. Qed.
Lemma dot_sub_l u v w : dot (vsub vo u v) w = dot u w - dot v w.
Proof. rewrite dot_sym, dot_sub_r, conj_sub, <- !dot_sym. reflexivity. Qed.
Lemma dot_scale_l a u w : dot (vscale vo a u) w = conj a * dot u w.
Proof. rewrite dot_sym, dot_scale_r, conj_mul, <- dot_sym. reflexivity. Qed.
Lemma A_add_r u v w : dot u (A (vadd vo v w)) = dot u (A v) + dot u (A w).
Proof. rewrite !A_sa, dot_add_r. reflexivity. Qed.
Lemma A_sub_r u v w : dot u (A (vsub vo v w)) = dot u (A v) - dot u (A w).
Proof. rewrite !A_sa, dot_sub_r. reflexivity. Qed.
Lemma A_scale_r u a v : dot u (A (vscale vo a v)) = a * dot u (A v).
Proof. rewrite !A_sa, dot_scale_r. reflexivity. Qed.
Lemma mul_cancel a x : a <> 0 -> a * x = 0 -> x = 0.
Proof. intros Ha H. replace x with ((a * x) / a) by (field; assumption). rewrite H. field. assumption. Qed.

(* ---- the sequence of column states produced by the code's step ---- *)
Variable c0 : col (T:=T) (V:=V).
Definition cs (k : nat) : col := Nat.iter k (step_col o vo A P) c0.
Notation x k := (cx (cs k)).
Notation r k := (cr (cs k)).
Notation p k := (cp (cs k)).
Notation g k := (cgam (cs k)).
Notation z k := (P (cr (cs k))).
Definition d k := dot (p k) (A (p k)).
Definition al k := g k / d k.
Definition be k := g (S k) / g k.

(* the guards of the code are inactive at state c: not masked as converged, denominators not clipped *)
Definition regular (c : col (T:=T) (V:=V)) : Prop :=
  oltb o (vnorm o vo (cr c)) (osmall o) = false /\
  safe_den o (dot (cp c) (A (cp c))) = dot (cp c) (A (cp c)) /\
  safe_den o (cgam c) = cgam c.

Hypothesis Hp0 : cp c0 = P (cr c0).
Hypothesis Hg0 : cgam c0 = dot (cr c0) (P (cr c0)).
Variable K : nat.
Hypothesis Hreg : forall k, k < K -> regular (cs k) /\ g k <> 0 /\ d k <> 0.

Lemma cs_S k : cs (S k) = step_col o vo A P (cs k). Proof. reflexivity. Qed.
Lemma x_S k : k < K -> x (S k) = vadd vo (x k) (vscale vo (al k) (p k)).
Proof. intros Hk. destruct (Hreg k Hk) as [(H1 & H2 & H3) _]. rewrite cs_S. unfold step_col, safe_div. cbn [cx].
  rewrite H1, H2. reflexivity. Qed.
Lemma r_S k : k < K -> r (S k) = vsub vo (r k) (vscale vo (al k) (A (p k))).
Proof. intros Hk. destruct (Hreg k Hk) as [(H1 & H2 & H3) _]. rewrite cs_S. unfold step_col, safe_div. cbn [cr].
  rewrite H1, H2. reflexivity. Qed.
Lemma g_S k : g (S k) = dot (r (S k)) (z (S k)).
Proof. rewrite cs_S. unfold step_col. cbn [cgam cr]. reflexivity. Qed.
Lemma p_S k : k < K -> p (S k) = vadd vo (z (S k)) (vscale vo (be k) (p k)).
Proof. intros Hk. destruct (Hreg k Hk) as [(H1 & H2 & H3) _]. unfold be. rewrite (cs_S k). unfold step_col, safe_div. cbn [cp cgam cr].
  rewrite H1, H2, H3. reflexivity. Qed.
Lemma g_def k : g k = dot (r k) (z k).
Proof. destruct k; [exact Hg0|apply g_S]. Qed.
Lemma g_real k : conj (g k) = g k.
Proof. rewrite g_def. rewrite <- dot_sym. rewrite P_sa. reflexivity. Qed.
Lemma d_real k : conj (d k) = d k.
Proof. unfold d. rewrite <- dot_sym, A_sa. reflexivity. Qed.
Lemma al_real k : conj (al k) = al k.
Proof. unfold al. rewrite conj_div, g_real, d_real. reflexivity. Qed.
Lemma be_real k : conj (be k) = be k.
Proof. unfold be. rewrite conj_div, !g_real. reflexivity. Qed.

(* recurrences in weak form *)
Lemma r_S_r k u : k < K -> dot u (r (S k)) = dot u (r k) - al k * dot u (A (p k)).
Proof. intros Hk. rewrite r_S, dot_sub_r, dot_scale_r by assumption. reflexivity. Qed.
Lemma r_S_l k u : k < K -> dot (r (S k)) u = dot (r k) u - al k * dot (A (p k)) u.
Proof. intros Hk. rewrite r_S, dot_sub_l, dot_scale_l, al_real by assumption. reflexivity. Qed.
Lemma p_S_l k u : k < K -> dot (p (S k)) u = dot (z (S k)) u + be k * dot (p k) u.
Proof. intros Hk. rewrite p_S, dot_add_l, dot_scale_l, be_real by assumption. reflexivity. Qed.
Lemma p_S_r k u : k < K -> dot u (p (S k)) = dot u (z (S k)) + be k * dot u (p k).
Proof. intros Hk. rewrite p_S, dot_add_r, dot_scale_r by assumption. reflexivity. Qed.
Lemma Ap_S_r k u : k < K -> dot u (A (p (S k))) = dot u (A (z (S k))) + be k * dot u (A (p k)).
Proof. intros Hk. rewrite !A_sa, p_S_r by assumption. reflexivity. Qed.
Lemma al_d k : k < K -> al k * d k = g k.
Proof. intros Hk. unfold al. field. apply Hreg; assumption. Qed.
Lemma z_via_p i u : i < K -> dot (z (S i)) u = dot (p (S i)) u - be i * dot (p i) u.
Proof. intros Hi. rewrite p_S_l by assumption. ring. Qed.
Lemma al_nz k : k < K -> al k <> 0.
Proof. intros Hk H0. pose proof (al_d k Hk) as H1. rewrite H0 in H1. destruct (Hreg k Hk) as (_ & G & _). apply G. rewrite <- H1. ring. Qed.

(* the CG invariants up to step k *)
Definition Inv (k : nat) : Prop :=
  (forall i j, i < j -> j <= k -> dot (p i) (r j) = 0) /\        (* directions orthogonal to later residuals *)
  (forall i j, i < j -> j <= k -> dot (z i) (r j) = 0) /\        (* residuals M-orthogonal *)
  (forall i j, i < j -> j <= k -> dot (p i) (A (p j)) = 0) /\    (* directions A-conjugate *)
  (forall j, j <= k -> dot (p j) (r j) = g j).

Theorem cg_invariants k : k <= K -> Inv k.
Proof.
  induction k as [|k IHk]; intros HkK.
  - repeat split; intros; try lia. assert (j = 0%nat) by lia; subst.
    change (p 0) with (cp c0). rewrite Hp0. change (cr c0) with (r 0). rewrite dot_sym, <- g_def. apply g_real.
  - destruct (IHk ltac:(lia)) as [I1 [I2 [I3 I4]]]. assert (Hk : k < K) by lia.
    assert (N1 : forall i, i <= k -> dot (p i) (r (S k)) = 0).
    { intros i Hi. rewrite r_S_r by assumption. destruct (Nat.eq_dec i k) as [->|Hne].
      - rewrite I4 by lia. fold (d k). rewrite al_d by assumption. ring.
      - rewrite (I1 i k) by lia. rewrite (I3 i k) by lia. ring. }
    assert (N2 : forall i, i <= k -> dot (z i) (r (S k)) = 0).
    { intros i Hi. destruct i as [|i].
      - change (P (cr (cs 0))) with (P (cr c0)). rewrite <- Hp0. apply (N1 0%nat); lia.
      - rewrite z_via_p, !N1 by lia. ring. }
    assert (ApE : forall i w, i < K -> al i * dot (A (p i)) w = dot (r i) w - dot (r (S i)) w).
    { intros i w Hi. rewrite r_S_l by assumption. ring. }
    assert (N4 : dot (p (S k)) (r (S k)) = g (S k)).
    { rewrite p_S_l, N1 by (assumption || lia). rewrite <- (g_real (S k)), g_def, <- dot_sym. ring. }
    assert (rz : forall i, dot (r i) (z (S k)) = dot (z i) (r (S k))).
    { intros i. rewrite P_sa. reflexivity. }
    assert (N3 : forall i, i <= k -> dot (p i) (A (p (S k))) = 0).
    { intros i Hi. rewrite Ap_S_r by assumption. rewrite (A_sa (p i) (z (S k))).
      assert (E : al i * dot (A (p i)) (z (S k)) = dot (r i) (z (S k)) - dot (r (S i)) (z (S k))) by (apply ApE; lia).
      rewrite !rz in E. rewrite (N2 i) in E by lia.
      destruct (Nat.eq_dec i k) as [->|Hne].
      + assert (E' : al k * dot (A (p k)) (z (S k)) = - g (S k)).
        { rewrite E. rewrite (dot_sym (z (S k))), <- g_def, g_real. ring. }
        apply (mul_cancel (al k)); [apply al_nz; assumption|].
        transitivity (al k * dot (A (p k)) (z (S k)) + be k * (al k * d k)); [unfold d; ring|].
        rewrite E', al_d by assumption. unfold be. field. apply Hreg; assumption.
      + rewrite (N2 (S i)) in E by lia. rewrite (I3 i k) by lia.
        assert (H0 : dot (A (p i)) (z (S k)) = 0).
        { apply (mul_cancel (al i)); [apply al_nz; lia|]. rewrite E. ring. }
        rewrite H0. ring. }
    repeat split.
    * intros i j Hij Hj. destruct (Nat.eq_dec j (S k)) as [->|Hne]; [apply N1; lia | apply I1; lia].
    * intros i j Hij Hj. destruct (Nat.eq_dec j (S k)) as [->|Hne]; [apply N2; lia | apply I2; lia].
    * intros i j Hij Hj. destruct (Nat.eq_dec j (S k)) as [->|Hne]; [apply N3; lia | apply I3; lia].
    * intros j Hj. destruct (Nat.eq_dec j (S k)) as [->|Hne]; [apply N4 | apply I4; lia].
Qed.

(* ---- residual identity: r_k = b - A x_k (weakly), given it for the initial state ---- *)
Variable bn : V.       (* the right-hand side of the system the loop works on (the normalised column) *)
Hypothesis Hr0 : forall u, dot u (cr c0) = dot u bn - dot u (A (cx c0)).
Lemma cg_residual k u : k <= K -> dot u (r k) = dot u bn - dot u (A (x k)).
Proof. induction k as [|k IH]; intros Hk.
  - apply Hr0.
  - rewrite r_S_r, IH, x_S, A_add_r, A_scale_r by lia. ring. Qed.

(* ---- linear combinations of the first k search directions ---- *)
Fixpoint comb (k : nat) (c : nat -> T) : V :=
  match k with 0 => vscale vo 0 (cp c0) | S k' => vadd vo (comb k' c) (vscale vo (c k') (p k')) end.
Lemma comb_dot_l k c u : dot (comb k c) u = fold_right (fun i acc => acc + conj (c i) * dot (p i) u) 0 (rev (seq 0 k)).
Proof. induction k as [|k IH].
  - cbn. rewrite dot_scale_l, conj_zero. ring.
  - rewrite seq_S, rev_app_distr. cbn [comb rev app fold_right]. rewrite dot_add_l, dot_scale_l, IH. reflexivity. Qed.
(* Galerkin orthogonality: r_j is orthogonal to span{p_0..p_{k-1}} for k <= j *)
Lemma cg_galerkin k c j : k <= j -> j <= K -> dot (comb k c) (r j) = 0.
Proof. intros Hkj HjK. induction k as [|k IH]; cbn [comb].
  - rewrite dot_scale_l, conj_zero. ring.
  - rewrite dot_add_l, dot_scale_l, IH by lia. destruct (cg_invariants j HjK) as [I1 _]. rewrite (I1 k j) by lia. ring. Qed.

(* ---- error functional ---- *)
Variable xs : V.                                            (* an exact solution of the system, weakly *)
Hypothesis xs_sol : forall u, dot u (A xs) = dot u bn.
Definition err (y : V) : V := vsub vo xs y.
Definition phi (y : V) : T := dot (err y) (A (err y)).       (* squared A-norm of the error of y *)
Lemma Aerr k u : k <= K -> dot u (A (err (x k))) = dot u (r k).
Proof. intros Hk. unfold err. rewrite A_sub_r, xs_sol, cg_residual by assumption. reflexivity. Qed.

Theorem cg_pythagoras k c : k <= K -> let dl := comb k c in
  phi (vadd vo (x k) dl) = phi (x k) + dot dl (A dl).
Proof.
  intros Hk dl. set (e := err (x k)).
  assert (EL : forall u, dot (err (vadd vo (x k) dl)) u = dot e u - dot dl u).
  { intros u. unfold e, err. rewrite !dot_sub_l, dot_add_l. ring. }
  assert (ER : forall u, dot u (A (err (vadd vo (x k) dl))) = dot u (r k) - dot u (A dl)).
  { intros u. unfold err. rewrite A_sub_r, A_add_r, xs_sol, cg_residual by assumption. ring. }
  assert (O1 : dot dl (r k) = 0) by (apply cg_galerkin; lia).
  assert (O2 : dot e (A dl) = 0).
  { rewrite A_sa. rewrite dot_sym. unfold e. rewrite Aerr, O1 by assumption. apply conj_zero. }
  unfold phi. rewrite ER, !EL. change (err (x k)) with e. unfold e at 2. rewrite (Aerr k) by assumption. fold e. rewrite O1, O2. ring.
Qed.

(* Optimality.  [Pos] is any predicate on scalars (read: "is a non-negative real") that holds for <v, A v>: then
   it holds for the increase of the squared A-norm of the error when x_k is moved inside x_k + span{p_0..p_{k-1}}
   (= x0 + span, see [x_in_span]).  Definiteness is not assumed, hence "<=" rather than uniqueness. *)
Theorem cg_optimal (Pos : T -> Prop) : (forall v, Pos (dot v (A v))) ->
  forall k c, k <= K -> Pos (phi (vadd vo (x k) (comb k c)) - phi (x k)).
Proof.
  intros HA k c Hk. pose proof (cg_pythagoras k c Hk) as H. cbv zeta in H. rewrite H.
  replace (phi (x k) + dot (comb k c) (A (comb k c)) - phi (x k)) with (dot (comb k c) (A (comb k c))) by ring.
  apply HA.
Qed.

(* x_k lies in x0 + span{p_0..p_{k-1}} (weakly): x_k = x0 + sum_{i<k} al_i p_i *)
Lemma x_in_span k u : k <= K -> dot u (x k) = dot u (vadd vo (cx c0) (comb k al)).
Proof. induction k as [|k IH]; intros Hk.
  - cbn [comb]. rewrite dot_add_r, dot_scale_r. change (cx (cs 0)) with (cx c0). ring.
  - rewrite x_S by lia. cbn [comb]. rewrite !dot_add_r, IH, dot_add_r by lia. ring. Qed.

(* ================================================================== the Krylov space *)
(* span{p_0..p_(k-1)} and K_k(PA, z0) = span{z0, (PA) z0, .., (PA)^(k-1) z0} as weakly closed inductive families *)
Definition weq (v v' : V) : Prop := forall w, dot w v = dot w v'.
Fixpoint kpow (i : nat) (v : V) : V := match i with O => v | S i' => P (A (kpow i' v)) end.
Inductive Sp (gen : nat -> V) (k : nat) : V -> Prop :=
| Sp_gen : forall j, (j < k)%nat -> Sp gen k (gen j)
| Sp_zero : forall v, Sp gen k (vscale vo 0 v)
| Sp_add : forall v w, Sp gen k v -> Sp gen k w -> Sp gen k (vadd vo v w)
| Sp_sub : forall v w, Sp gen k v -> Sp gen k w -> Sp gen k (vsub vo v w)
| Sp_scale : forall a v, Sp gen k v -> Sp gen k (vscale vo a v)
| Sp_weq : forall v v', Sp gen k v -> weq v v' -> Sp gen k v'.
Definition pgen (j : nat) : V := p j.
Definition kgen (j : nat) : V := kpow j (cp c0).
Notation InS := (Sp pgen).       (* span of the search directions *)
Notation InK := (Sp kgen).       (* the preconditioned Krylov space of z0 = P r0 *)

Lemma Sp_mono gen k k' v : (k <= k')%nat -> Sp gen k v -> Sp gen k' v.
Proof. intros Hk H. induction H.
  - apply Sp_gen. lia.
  - apply Sp_zero.
  - apply Sp_add; assumption.
  - apply Sp_sub; assumption.
  - apply Sp_scale; assumption.
  - eapply Sp_weq; eassumption. Qed.

(* PA is weakly linear and respects weak equality *)
Lemma PA_weq v v' : weq v v' -> weq (P (A v)) (P (A v')).
Proof. intros H w. rewrite !P_sa, !A_sa. apply H. Qed.
Lemma PA_add v w : weq (P (A (vadd vo v w))) (vadd vo (P (A v)) (P (A w))).
Proof. intros u. rewrite dot_add_r, !P_sa, !A_sa, dot_add_r. reflexivity. Qed.
Lemma PA_sub v w : weq (P (A (vsub vo v w))) (vsub vo (P (A v)) (P (A w))).
Proof. intros u. rewrite dot_sub_r, !P_sa, !A_sa, dot_sub_r. reflexivity. Qed.
Lemma PA_scale a v : weq (P (A (vscale vo a v))) (vscale vo a (P (A v))).
Proof. intros u. rewrite dot_scale_r, !P_sa, !A_sa, dot_scale_r. reflexivity. Qed.

(* z_j and PA p_j in terms of the directions *)
Lemma z_S_weq j : (j < K)%nat -> weq (z (S j)) (vsub vo (p (S j)) (vscale vo (be j) (p j))).
Proof. intros Hj w. rewrite dot_sub_r, dot_scale_r, p_S_r by assumption. ring. Qed.
Lemma PAp_weq j : (j < K)%nat -> weq (P (A (p j))) (vscale vo (1 / al j) (vsub vo (z j) (z (S j)))).
Proof. intros Hj w. rewrite dot_scale_r, dot_sub_r.
  assert (E : dot w (z (S j)) = dot w (z j) - al j * dot w (P (A (p j)))).
  { rewrite (P_sa w (r (S j))), r_S_r, <- !P_sa by assumption. rewrite (P_sa w (A (p j))). reflexivity. }
  rewrite E. field. apply al_nz; assumption. Qed.

Lemma z_InS j : (j <= K)%nat -> InS (S j) (z j).
Proof. destruct j as [|j]; intros Hj.
  - change (P (cr (cs 0))) with (P (cr c0)). rewrite <- Hp0. apply (Sp_gen pgen 1 0). lia.
  - eapply Sp_weq; [|intros w; symmetry; apply (z_S_weq j); lia].
    apply Sp_sub; [apply (Sp_gen pgen (S (S j)) (S j)); lia|]. apply Sp_scale. apply (Sp_gen pgen (S (S j)) j). lia. Qed.

Lemma PA_InS k v : (k <= K)%nat -> InS k v -> InS (S k) (P (A v)).
Proof. intros Hk H. induction H.
  - eapply Sp_weq; [|intros w; symmetry; apply (PAp_weq j); lia]. apply Sp_scale. apply Sp_sub.
    + apply (Sp_mono pgen (S j)); [lia|]. apply z_InS. lia.
    + apply (Sp_mono pgen (S (S j))); [lia|]. apply z_InS. lia.
  - eapply Sp_weq; [apply (Sp_zero pgen (S k) (P (A v)))|]. intros w. symmetry. apply PA_scale.
  - eapply Sp_weq; [apply Sp_add; [apply IHSp1|apply IHSp2]|]. intros u. symmetry. apply PA_add.
  - eapply Sp_weq; [apply Sp_sub; [apply IHSp1|apply IHSp2]|]. intros u. symmetry. apply PA_sub.
  - eapply Sp_weq; [apply Sp_scale; apply IHSp|]. intros u. symmetry. apply PA_scale.
  - eapply Sp_weq; [apply IHSp|]. apply PA_weq. assumption. Qed.

Lemma kgen_InS i : (i <= K)%nat -> InS (S i) (kgen i).
Proof. induction i as [|i IH]; intros Hi.
  - unfold kgen. cbn [kpow]. apply (Sp_gen pgen 1 0). lia.
  - unfold kgen in *. cbn [kpow]. apply PA_InS; [lia|]. apply IH. lia. Qed.

(* K_k is contained in the span of the first k directions (k <= K+1) *)
Theorem krylov_in_span k v : (k <= S K)%nat -> InK k v -> InS k v.
Proof. intros Hk H. induction H.
  - apply (Sp_mono pgen (S j)); [lia|]. apply kgen_InS. lia.
  - apply Sp_zero.
  - apply Sp_add; assumption.
  - apply Sp_sub; assumption.
  - apply Sp_scale; assumption.
  - eapply Sp_weq; eassumption. Qed.

(* conversely every direction lies in the Krylov space *)
Lemma PA_InK k v : InK k v -> InK (S k) (P (A v)).
Proof. intros H. induction H.
  - apply (Sp_gen kgen (S k) (S j)). lia.
  - eapply Sp_weq; [apply (Sp_zero kgen (S k) (P (A v)))|]. intros w. symmetry. apply PA_scale.
  - eapply Sp_weq; [apply Sp_add; [apply IHSp1|apply IHSp2]|]. intros u. symmetry. apply PA_add.
  - eapply Sp_weq; [apply Sp_sub; [apply IHSp1|apply IHSp2]|]. intros u. symmetry. apply PA_sub.
  - eapply Sp_weq; [apply Sp_scale; apply IHSp|]. intros u. symmetry. apply PA_scale.
  - eapply Sp_weq; [apply IHSp|]. apply PA_weq. assumption. Qed.

Lemma z_S_weq2 j : (j < K)%nat -> weq (z (S j)) (vsub vo (z j) (vscale vo (al j) (P (A (p j))))).
Proof. intros Hj w. rewrite dot_sub_r, dot_scale_r.
  rewrite (P_sa w (r (S j))), r_S_r, <- !P_sa by assumption. rewrite (P_sa w (A (p j))). reflexivity. Qed.

Lemma zp_InK j : (j <= K)%nat -> InK (S j) (z j) /\ InK (S j) (p j).
Proof. induction j as [|j IH]; intros Hj.
  - assert (H0 : InK 1 (cp c0)) by (apply (Sp_gen kgen 1 0); lia). split; [|exact H0].
    change (P (cr (cs 0))) with (P (cr c0)). rewrite <- Hp0. exact H0.
  - destruct (IH ltac:(lia)) as [Hz Hpj].
    assert (Hz' : InK (S (S j)) (z (S j))).
    { eapply Sp_weq; [|intros w; symmetry; apply (z_S_weq2 j); lia].
      apply Sp_sub; [apply (Sp_mono kgen (S j)); [lia|exact Hz]|]. apply Sp_scale. apply PA_InK. exact Hpj. }
    split; [exact Hz'|].
    rewrite p_S by lia. apply Sp_add; [exact Hz'|]. apply Sp_scale. apply (Sp_mono kgen (S j)); [lia|exact Hpj]. Qed.

Theorem span_in_krylov k v : (k <= S K)%nat -> InS k v -> InK k v.
Proof. intros Hk H. induction H.
  - apply (Sp_mono kgen (S j)); [lia|]. apply zp_InK. lia.
  - apply Sp_zero.
  - apply Sp_add; assumption.
  - apply Sp_sub; assumption.
  - apply Sp_scale; assumption.
  - eapply Sp_weq; eassumption. Qed.

(* members of the span are (weakly) combinations comb k c *)
Lemma comb_dot_r k c w : dot w (comb k c) = fold_right (fun i acc => acc + c i * dot w (p i)) 0 (rev (seq 0 k)).
Proof. induction k as [|k IH].
  - cbn. rewrite dot_scale_r. ring.
  - rewrite seq_S, rev_app_distr. cbn [comb rev app fold_right]. rewrite dot_add_r, dot_scale_r, IH. reflexivity. Qed.
Lemma comb_ext k c c' : (forall i, (i < k)%nat -> c i = c' i) -> weq (comb k c) (comb k c').
Proof. intros H w. induction k as [|k IH]; cbn [comb]; [reflexivity|].
  rewrite !dot_add_r, !dot_scale_r, IH, H by (intros; try apply H; lia). reflexivity. Qed.
Lemma comb_add k c c' : weq (comb k (fun i => c i + c' i)) (vadd vo (comb k c) (comb k c')).
Proof. intros w. induction k as [|k IH]; cbn [comb].
  - rewrite dot_add_r, !dot_scale_r. ring.
  - rewrite !dot_add_r, !dot_scale_r, IH, !dot_add_r. ring. Qed.
Lemma comb_sub k c c' : weq (comb k (fun i => c i - c' i)) (vsub vo (comb k c) (comb k c')).
Proof. intros w. induction k as [|k IH]; cbn [comb].
  - rewrite dot_sub_r, !dot_scale_r. ring.
  - rewrite dot_sub_r, !dot_add_r, !dot_scale_r, IH, dot_sub_r. ring. Qed.
Lemma comb_scale k a c : weq (comb k (fun i => a * c i)) (vscale vo a (comb k c)).
Proof. intros w. induction k as [|k IH]; cbn [comb].
  - rewrite !dot_scale_r. ring.
  - rewrite dot_scale_r, !dot_add_r, !dot_scale_r, IH, dot_scale_r. ring. Qed.
Lemma comb_single k j : (j < k)%nat -> weq (comb k (fun i => if Nat.eqb i j then 1 else 0)) (p j).
Proof. intros Hj w. induction k as [|k IH]; [lia|]. cbn [comb]. rewrite dot_add_r, dot_scale_r.
  destruct (Nat.eq_dec j k) as [->|Hne].
  - rewrite Nat.eqb_refl. rewrite (comb_ext k _ (fun _ => 0)).
    + clear IH. assert (Z : forall n, dot w (comb n (fun _ => 0)) = 0).
      { induction n as [|n IHn]; cbn [comb]; [rewrite dot_scale_r; ring|rewrite dot_add_r, dot_scale_r, IHn; ring]. }
      rewrite Z. ring.
    + intros i Hi. destruct (Nat.eqb_spec i k); [lia|reflexivity].
  - rewrite IH by lia. destruct (Nat.eqb_spec k j); [lia|ring]. Qed.

Lemma InS_comb k v : InS k v -> exists c, weq v (comb k c).
Proof. intros H. induction H.
  - exists (fun i => if Nat.eqb i j then 1 else 0). intros w. symmetry. apply comb_single. assumption.
  - exists (fun _ => 0). intros w. rewrite dot_scale_r.
    assert (Z : forall n, dot w (comb n (fun _ => 0)) = 0).
    { induction n as [|n IHn]; cbn [comb]; [rewrite dot_scale_r; ring|rewrite dot_add_r, dot_scale_r, IHn; ring]. }
    rewrite Z. ring.
  - destruct IHSp1 as [c1 H1], IHSp2 as [c2 H2]. exists (fun i => c1 i + c2 i). intros u.
    rewrite comb_add, !dot_add_r, H1, H2. reflexivity.
  - destruct IHSp1 as [c1 H1], IHSp2 as [c2 H2]. exists (fun i => c1 i - c2 i). intros u.
    rewrite comb_sub, !dot_sub_r, H1, H2. reflexivity.
  - destruct IHSp as [c1 H1]. exists (fun i => a * c1 i). intros u. rewrite comb_scale, !dot_scale_r, H1. reflexivity.
  - destruct IHSp as [c1 H1]. exists c1. intros u. rewrite <- H0. apply H1. Qed.

Lemma comb_InS k c : InS k (comb k c).
Proof. induction k as [|k IH]; cbn [comb]; [apply Sp_zero|]. apply Sp_add.
  - apply (Sp_mono pgen k); [lia|]. exact IH.
  - apply Sp_scale. apply (Sp_gen pgen (S k) k). lia. Qed.

(* the error functional only depends on its argument through inner products *)
Lemma phi_weq y y' : weq y y' -> phi y = phi y'.
Proof. intros H. unfold phi, err.
  assert (E1 : dot xs (A y) = dot xs (A y')) by (rewrite !A_sa; apply H).
  assert (E2 : dot y (A xs) = dot y' (A xs)) by (rewrite (dot_sym y), (dot_sym y'); f_equal; apply H).
  assert (E3 : dot y (A y) = dot y' (A y')).
  { rewrite (A_sa y y), (H (A y)), (dot_sym (A y) y'), (A_sa y' y), (H (A y')), <- dot_sym. reflexivity. }
  rewrite !dot_sub_l, !A_sub_r, E1, E2, E3. reflexivity. Qed.

(* Optimality over the Krylov space: x_k lies in x0 + K_k(PA, P r0) and no element of that affine space has a
   smaller A-norm of the error. *)
Theorem cg_optimal_krylov (Pos : T -> Prop) : (forall v, Pos (dot v (A v))) ->
  forall k, (k <= K)%nat ->
  (exists v, InK k v /\ weq (x k) (vadd vo (cx c0) v)) /\
  forall v, InK k v -> Pos (phi (vadd vo (cx c0) v) - phi (x k)).
Proof.
  intros HA k Hk. split.
  - exists (comb k al). split.
    + apply span_in_krylov; [lia|]. apply comb_InS.
    + intros w. apply x_in_span. assumption.
  - intros v Hv. apply krylov_in_span in Hv; [|lia]. destruct (InS_comb k v Hv) as [c Hc].
    assert (E : weq (vadd vo (cx c0) v) (vadd vo (x k) (comb k (fun i => c i - al i)))).
    { intros w. rewrite !dot_add_r, Hc, comb_sub, dot_sub_r, (x_in_span k w Hk), dot_add_r. ring. }
    rewrite (phi_weq _ _ E). apply cg_optimal; assumption.
Qed.
End Krylov.
