(* C10: theorems about the model of cola.linalg.eig (C10_Model.v). *)
From Coq Require Import ZArith Arith Lia List Ring Field ArithRing PeanoNat Bool Sorting.Permutation Sorting.Sorted.
From Core Require Import Base FieldBase PySlice C09_MatAlg C10_Model.
Import ListNotations.

(* ---------- get_slice ---------- *)
Lemma map_affine_seq (a : Z) k s : (0 <= a)%Z ->
  map (fun i => Z.to_nat (a + Z.of_nat i * 1)) (seq s k) = seq (Z.to_nat a + s) k.
Proof. intros Ha. revert s. induction k as [|k IH]; intros s; [reflexivity|]. cbn [seq map]. f_equal.
  - lia.
  - rewrite IH. f_equal. lia. Qed.
Lemma indices_range (s : pslice) n a b : pstep s = None ->
  clamp_start 1 (Z.of_nat n) (pstart s) = Z.of_nat a -> clamp_stop 1 (Z.of_nat n) (pstop s) = Z.of_nat b -> (a <= b)%nat ->
  indices s n = Some (seq a (b - a)).
Proof. intros Hs Ha Hb Hab. unfold indices, adjust. rewrite Hs. change (1 =? 0)%Z with false. cbv iota. rewrite Ha, Hb.
  assert (L : Z.to_nat (slice_len (Z.of_nat a) (Z.of_nat b) 1) = (b - a)%nat).
  { unfold slice_len. change (1 <? 0)%Z with false. cbv iota. destruct (Z.ltb_spec (Z.of_nat a) (Z.of_nat b)); [rewrite Z.div_1_r|]; lia. }
  rewrite L. rewrite map_affine_seq by lia. f_equal. f_equal. lia. Qed.
Lemma ltb_false x y : (y <= x)%Z -> (x <? y)%Z = false. Proof. intros; apply Z.ltb_ge; auto. Qed.
Lemma ltb_true x y : (x < y)%Z -> (x <? y)%Z = true. Proof. intros; apply Z.ltb_lt; auto. Qed.
Lemma leb_false x y : (y < x)%Z -> (x <=? y)%Z = false. Proof. intros; apply Z.leb_gt; auto. Qed.
Lemma leb_true x y : (x <= y)%Z -> (x <=? y)%Z = true. Proof. intros; apply Z.leb_le; auto. Qed.
Lemma clamp_nonneg n s : (0 <= s <= n)%Z -> clamp_start 1 n (Some s) = s /\ clamp_stop 1 n (Some s) = s.
Proof. intros H. unfold clamp_start, clamp_stop. change (1 <? 0)%Z with false. cbv iota zeta. rewrite (ltb_false s 0) by lia.
  rewrite (ltb_false s 0) by lia. destruct (Z.eq_dec s n) as [->|Hne]; [rewrite leb_true by lia; auto|rewrite leb_false by lia; auto]. Qed.
Lemma clamp_start_neg n s : (- n <= s < 0)%Z -> clamp_start 1 n (Some s) = (s + n)%Z.
Proof. intros H. unfold clamp_start. change (1 <? 0)%Z with false. cbv iota zeta. rewrite (ltb_true s 0) by lia.
  rewrite (ltb_false (s + n) 0) by lia. rewrite leb_false by lia. reflexivity. Qed.
Lemma sel_SM k n : (k <= n)%nat -> sel (Z.of_nat k) SM n = Some (seq 0 k).
Proof. intros Hk. unfold sel, get_slice. replace (Z.of_nat k =? -1)%Z with false by (symmetry; apply Z.eqb_neq; lia).
  rewrite (indices_range _ n 0 k); cbn [pstep pstart pstop]; [rewrite Nat.sub_0_r; reflexivity|reflexivity| | |lia].
  - apply (clamp_nonneg (Z.of_nat n) 0). lia.
  - apply (clamp_nonneg (Z.of_nat n) (Z.of_nat k)). lia. Qed.
Lemma sel_LM k n : (1 <= k)%nat -> (k <= n)%nat -> sel (Z.of_nat k) LM n = Some (seq (n - k) k).
Proof. intros H1 Hk. unfold sel, get_slice. replace (Z.of_nat k =? -1)%Z with false by (symmetry; apply Z.eqb_neq; lia).
  rewrite (indices_range _ n (n - k) n); cbn [pstep pstart pstop]; [f_equal; f_equal; lia|reflexivity| |reflexivity|lia].
  rewrite clamp_start_neg by lia. lia. Qed.
Lemma sel_in_range k w n l : sel k w n = Some l -> forall x, In x l -> (x < n)%nat.
Proof. unfold sel. destruct (get_slice k w); [|discriminate]. apply indices_in_range. Qed.
(* asking for all n: both selections are the whole array, in order *)
Lemma sel_all n w : (1 <= n)%nat -> sel (Z.of_nat n) w n = Some (seq 0 n).
Proof. intros H. destruct w; [rewrite sel_LM by lia; rewrite Nat.sub_diag; reflexivity|apply sel_SM; lia]. Qed.
(* the slice for num = -1 is refused *)
Lemma sel_minus1 w n : sel (-1) w n = None. Proof. reflexivity. Qed.

Section Proofs.
Context {R : Type} {RR : Ring R} {FF : Field R}.
Add Ring Rr : Rth.
Add Field Rf : Fth.
Open Scope R_scope.
Notation fm := (fm (R:=R)).
Notation eout := (eout (R:=R)).

Lemma one_neq_zero : r1 <> r0 :> R. Proof. exact (F_1_neq_0 Fth). Qed.

(* ---------- specification ---------- *)
Definition is_pair (n : nat) (A : fm) (lam : R) (v : nat -> R) : Prop :=
  (forall i, (i < n)%nat -> sum n (fun l => A i l * v l) = lam * v i) /\ ~ (forall i, (i < n)%nat -> v i = r0).
Definition EigPairs (n : nat) (A : fm) (o : eout) : Prop :=
  forall j, (j < ek o)%nat -> is_pair n A (ew o j) (fun i => eV o i j).
(* what the dense oracles promise: A V = V diag(w) on m columns, none of them zero *)
Definition EigSpec (n m : nat) (A : fm) (w : nat -> R) (V : fm) : Prop :=
  feq n m (mmul n A V) (mmul m V (dg w)) /\ forall j, (j < m)%nat -> ~ (forall i, (i < n)%nat -> V i j = r0).
Lemma EigSpec_of_invertible n A w V : invertible n V -> feq n n (mmul n A V) (mmul n V (dg w)) -> EigSpec n n A w V.
Proof. intros HI H. split; [exact H|]. intros j Hj. apply invertible_col_nonzero; auto using one_neq_zero. Qed.
Lemma EigSpec_pairs n m A w V : EigSpec n m A w V -> EigPairs n A (mkeout m w V).
Proof. intros [H Hz] j Hj. cbn [ek ew eV] in *. split; [|apply Hz; auto].
  intros i Hi. change (sum n (fun l => A i l * V l j)) with (mmul n A V i j). rewrite H by auto.
  rewrite mmul_dg_r by auto. ring. Qed.

Lemma take_pairs n A (o : eout) idx : EigPairs n A o -> (forall x, In x idx -> (x < ek o)%nat) -> EigPairs n A (take idx o).
Proof. intros H Hin j Hj. cbn [take ek ew eV] in *. apply H. apply Hin. apply nth_In. exact Hj. Qed.
Lemma slice_pairs n A (o o' : eout) k wh : EigPairs n A o -> slice_out k wh o = Some o' -> EigPairs n A o'.
Proof. intros H E. unfold slice_out in E. destruct (sel k wh (ek o)) as [idx|] eqn:Es; [|discriminate]. injection E as <-.
  apply take_pairs; auto. apply (sel_in_range _ _ _ _ Es). Qed.

(* eig_pairs, dense / Krylov rules: whatever meets the oracle specification yields eigenpairs after slicing *)
Theorem eig_oracle_pairs n m A w V k wh o : EigSpec n m A w V -> eig_oracle m w V k wh = Some o -> EigPairs n A o.
Proof. intros HS E. eapply slice_pairs; [apply EigSpec_pairs; exact HS|exact E]. Qed.
(* number of returned pairs *)
Lemma slice_count (o o' : eout) k wh : (1 <= k)%nat -> (k <= ek o)%nat -> slice_out (Z.of_nat k) wh o = Some o' -> ek o' = k.
Proof. intros H1 Hk E. unfold slice_out in E. destruct wh.
  - rewrite sel_LM in E by auto. injection E as <-. cbn [take ek]. apply seq_length.
  - rewrite sel_SM in E by auto. injection E as <-. cbn [take ek]. apply seq_length. Qed.
Lemma slice_defined (o : eout) k wh : (1 <= k)%nat -> (k <= ek o)%nat -> exists o', slice_out (Z.of_nat k) wh o = Some o'.
Proof. intros H1 Hk. unfold slice_out. destruct wh; [rewrite sel_LM by auto|rewrite sel_SM by auto]; eexists; reflexivity. Qed.

(* ---------- selection ---------- *)
(* positions returned for LM are the last k, for SM the first k: with values ascending for a preorder [le],
   every value left out is below (LM) / above (SM) every returned one *)
Section Select.
Variable le : R -> R -> Prop.
Definition ascending (m : nat) (w : nat -> R) := forall i j, (i <= j)%nat -> (j < m)%nat -> le (w i) (w j).
Theorem select_LM m (w : nat -> R) V k o : ascending m w -> (1 <= k)%nat -> (k <= m)%nat ->
  slice_out (Z.of_nat k) LM (mkeout m w V) = Some o ->
  ek o = k /\ (forall j, (j < k)%nat -> ew o j = w (m - k + j)%nat) /\
  forall i j, (i < m - k)%nat -> (j < k)%nat -> le (w i) (ew o j).
Proof. intros Ha H1 Hk E. unfold slice_out in E. cbn [ek] in E. rewrite sel_LM in E by auto. injection E as <-.
  cbn [take ek ew eV]. rewrite seq_length. split; [reflexivity|]. split.
  - intros j Hj. rewrite seq_nth by auto. reflexivity.
  - intros i j Hi Hj. rewrite seq_nth by auto. apply Ha; lia. Qed.
Theorem select_SM m (w : nat -> R) V k o : ascending m w -> (1 <= k)%nat -> (k <= m)%nat ->
  slice_out (Z.of_nat k) SM (mkeout m w V) = Some o ->
  ek o = k /\ (forall j, (j < k)%nat -> ew o j = w j) /\
  forall i j, (k <= i)%nat -> (i < m)%nat -> (j < k)%nat -> le (ew o j) (w i).
Proof. intros Ha H1 Hk E. unfold slice_out in E. cbn [ek] in E. rewrite sel_SM in E by auto. injection E as <-.
  cbn [take ek ew eV]. rewrite seq_length. split; [reflexivity|]. split.
  - intros j Hj. rewrite seq_nth by auto. reflexivity.
  - intros i j Hi Hi' Hj. rewrite seq_nth by auto. apply Ha; lia. Qed.
End Select.

(* asking for all n pairs returns the oracle's whole spectrum, in the oracle's order *)
Theorem eig_all m (w : nat -> R) V wh o : (1 <= m)%nat -> slice_out (Z.of_nat m) wh (mkeout m w V) = Some o ->
  ek o = m /\ (forall j, (j < m)%nat -> ew o j = w j) /\ (forall i j, (j < m)%nat -> eV o i j = V i j).
Proof. intros H1 E. unfold slice_out in E. cbn [ek] in E. rewrite sel_all in E by auto. injection E as <-.
  cbn [take ek ew eV]. rewrite seq_length. repeat split; intros; rewrite seq_nth by auto; reflexivity. Qed.

(* eigmax / eigmin = eig(A, 1, LM|SM)[0][0]: the last / first entry of the spectrum the rule slices *)
Theorem eigmax_last m (w : nat -> R) V : (1 <= m)%nat -> first_val (slice_out 1 LM (mkeout m w V)) = Some (w (m - 1)%nat).
Proof. intros H. unfold slice_out. cbn [ek]. change 1%Z with (Z.of_nat 1). rewrite sel_LM by lia. cbn [first_val take ew seq nth]. reflexivity. Qed.
Theorem eigmin_first m (w : nat -> R) V : (1 <= m)%nat -> first_val (slice_out 1 SM (mkeout m w V)) = Some (w 0%nat).
Proof. intros H. unfold slice_out. cbn [ek]. change 1%Z with (Z.of_nat 1). rewrite sel_SM by lia. cbn [first_val take ew seq nth]. reflexivity. Qed.

(* ---------- argsort ---------- *)
Section Argsort.
Variable leb : R -> R -> bool.
Hypothesis leb_total : forall a b, leb a b = true \/ leb b a = true.
Hypothesis leb_trans : forall a b c, leb a b = true -> leb b c = true -> leb a c = true.
Lemma ins_perm d x l : Permutation (ins leb d x l) (x :: l).
Proof. induction l as [|y r IH]; cbn [ins]; [apply Permutation_refl|]. destruct (leb (d x) (d y)); [apply Permutation_refl|].
  eapply Permutation_trans; [apply perm_skip, IH|apply perm_swap]. Qed.
Lemma argsort_perm n d : Permutation (argsort leb n d) (seq 0 n).
Proof. unfold argsort. induction (seq 0 n) as [|x l IH]; cbn [fold_right]; [apply Permutation_refl|].
  eapply Permutation_trans; [apply ins_perm|apply perm_skip, IH]. Qed.
Definition lekey (d : nat -> R) (a b : nat) : Prop := leb (d a) (d b) = true.
Lemma ins_sorted d x l : StronglySorted (lekey d) l -> StronglySorted (lekey d) (ins leb d x l).
Proof. induction l as [|y r IH]; intros H; cbn [ins].
  - constructor; constructor.
  - inversion H as [|? ? Hr Hy]; subst. destruct (leb (d x) (d y)) eqn:E.
    + constructor; [exact H|]. constructor; [exact E|]. rewrite Forall_forall in *. intros z Hz. unfold lekey in *. eapply leb_trans; [exact E|apply Hy; exact Hz].
    + constructor; [apply IH; exact Hr|]. assert (Eyx : leb (d y) (d x) = true) by (destruct (leb_total (d x) (d y)); congruence).
      rewrite Forall_forall in *. intros z Hz. apply (Permutation_in _ (ins_perm d x r)) in Hz. destruct Hz as [<-|Hz]; [exact Eyx|apply Hy; exact Hz]. Qed.
Lemma argsort_sorted n d : StronglySorted (lekey d) (argsort leb n d).
Proof. unfold argsort. induction (seq 0 n) as [|x l IH]; cbn [fold_right]; [constructor|apply ins_sorted, IH]. Qed.
Lemma argsort_length n d : length (argsort leb n d) = n.
Proof. rewrite (Permutation_length (argsort_perm n d)). apply seq_length. Qed.
Lemma argsort_range n d x : In x (argsort leb n d) -> (x < n)%nat.
Proof. intros H. apply (Permutation_in _ (argsort_perm n d)) in H. apply in_seq in H. lia. Qed.
Lemma sorted_nth d l : StronglySorted (lekey d) l -> forall i j, (i <= j)%nat -> (j < length l)%nat ->
  leb (d (nth i l 0%nat)) (d (nth j l 0%nat)) = true.
Proof. induction 1 as [|a l Hs IH Ha]; intros i j Hij Hj; [cbn in Hj; lia|]. destruct i as [|i], j as [|j]; cbn [nth length] in *.
  - destruct (leb_total (d a) (d a)); assumption.
  - rewrite Forall_forall in Ha. apply Ha. apply nth_In. lia.
  - lia.
  - apply IH; lia. Qed.
(* values of the sorted output are ascending *)
Lemma argsort_ascending n d : ascending (fun a b => leb a b = true) n (fun j => d (nth j (argsort leb n d) 0%nat)).
Proof. intros i j Hij Hj. apply sorted_nth; [apply argsort_sorted|exact Hij|rewrite argsort_length; exact Hj]. Qed.
End Argsort.

(* ---------- structural rules ---------- *)
Lemma ident_spec n : EigSpec n n eye (fun _ => r1) eye.
Proof. apply EigSpec_of_invertible; [apply invertible_eye|]. intros i j Hi Hj. rewrite mmul_eye_l, mmul_dg_r by auto. ring. Qed.
Theorem eig_ident_pairs n k wh o : eig_ident n k wh = Some o -> EigPairs n eye o.
Proof. intros E. eapply slice_pairs; [apply EigSpec_pairs, ident_spec|exact E]. Qed.
Lemma diag_spec n d : EigSpec n n (dg d) d eye.
Proof. apply EigSpec_of_invertible; [apply invertible_eye|]. intros i j Hi Hj. rewrite mmul_eye_l, mmul_dg_l by auto. unfold dg, eye. ring. Qed.
Theorem eig_diag_pairs leb n d k wh o : eig_diag leb n d k wh = Some o -> EigPairs n (dg d) o.
Proof. intros E. unfold eig_diag in E. eapply slice_pairs; [|exact E]. apply take_pairs; [apply EigSpec_pairs, diag_spec|].
  intros x Hx. cbn [ek]. apply (Permutation_in _ (argsort_perm leb n d)) in Hx. apply in_seq in Hx. lia. Qed.
(* the Diagonal rule selects by the order argsort uses: for LM every diagonal entry left out is <= every returned one *)
Theorem eig_diag_selects_LM leb n d k o : (forall a b, leb a b = true \/ leb b a = true) ->
  (forall a b c, leb a b = true -> leb b c = true -> leb a c = true) -> (1 <= k)%nat -> (k <= n)%nat ->
  eig_diag leb n d (Z.of_nat k) LM = Some o ->
  let idx := argsort leb n d in
  Permutation idx (seq 0 n) /\ ek o = k /\ (forall j, (j < k)%nat -> ew o j = d (nth (n - k + j) idx 0%nat)) /\
  forall i j, (i < n - k)%nat -> (j < k)%nat -> leb (d (nth i idx 0%nat)) (ew o j) = true.
Proof. intros Ht Htr H1 Hk E idx. split; [apply argsort_perm|]. unfold eig_diag in E. fold idx in E.
  assert (L : length idx = n) by (apply argsort_length).
  change (take idx (mkeout n d eye)) with (mkeout (length idx) (fun j => d (nth j idx 0%nat)) (fun i j => eye i (nth j idx 0%nat))) in E.
  rewrite L in E.
  apply (select_LM (fun a b => leb a b = true)) in E; auto. apply argsort_ascending; auto. Qed.

(* repaired dense / Krylov rules (eig_sorted): eigenpairs, and selection by the order used for sorting - with [leb] the
   comparison of magnitudes this is the property's clause: 'LM' = the k largest, 'SM' = the k smallest in magnitude *)
Theorem eig_sorted_pairs leb n m A w V k wh o : EigSpec n m A w V -> eig_sorted leb m w V k wh = Some o -> EigPairs n A o.
Proof. intros HS E. unfold eig_sorted in E. eapply slice_pairs; [|exact E]. apply take_pairs; [apply EigSpec_pairs; exact HS|].
  intros x Hx. cbn [ek]. apply (Permutation_in _ (argsort_perm leb m w)) in Hx. apply in_seq in Hx. lia. Qed.
Theorem eig_sorted_selects_LM leb m (w : nat -> R) V k o : (forall a b, leb a b = true \/ leb b a = true) ->
  (forall a b c, leb a b = true -> leb b c = true -> leb a c = true) -> (1 <= k)%nat -> (k <= m)%nat ->
  eig_sorted leb m w V (Z.of_nat k) LM = Some o ->
  let idx := argsort leb m w in
  Permutation idx (seq 0 m) /\ ek o = k /\ (forall j, (j < k)%nat -> ew o j = w (nth (m - k + j) idx 0%nat)) /\
  forall i j, (i < m - k)%nat -> (j < k)%nat -> leb (w (nth i idx 0%nat)) (ew o j) = true.
Proof. intros Ht Htr H1 Hk E idx. split; [apply argsort_perm|]. unfold eig_sorted in E. fold idx in E.
  assert (L : length idx = m) by (apply argsort_length).
  change (take idx (mkeout m w V)) with (mkeout (length idx) (fun j => w (nth j idx 0%nat)) (fun i j => V i (nth j idx 0%nat))) in E.
  rewrite L in E. apply (select_LM (fun a b => leb a b = true)) in E; auto. apply argsort_ascending; auto. Qed.
Theorem eig_sorted_selects_SM leb m (w : nat -> R) V k o : (forall a b, leb a b = true \/ leb b a = true) ->
  (forall a b c, leb a b = true -> leb b c = true -> leb a c = true) -> (1 <= k)%nat -> (k <= m)%nat ->
  eig_sorted leb m w V (Z.of_nat k) SM = Some o ->
  let idx := argsort leb m w in
  Permutation idx (seq 0 m) /\ ek o = k /\ (forall j, (j < k)%nat -> ew o j = w (nth j idx 0%nat)) /\
  forall i j, (k <= i)%nat -> (i < m)%nat -> (j < k)%nat -> leb (ew o j) (w (nth i idx 0%nat)) = true.
Proof. intros Ht Htr H1 Hk E idx. split; [apply argsort_perm|]. unfold eig_sorted in E. fold idx in E.
  assert (L : length idx = m) by (apply argsort_length).
  change (take idx (mkeout m w V)) with (mkeout (length idx) (fun j => w (nth j idx 0%nat)) (fun i j => V i (nth j idx 0%nat))) in E.
  rewrite L in E. apply (select_SM (fun a b => leb a b = true)) in E; auto. apply argsort_ascending; auto. Qed.

(* the same for ANY permutation that sorts (the backend's argsort as an oracle: order inside ties unspecified) *)
Definition ArgsortSpec (leb : R -> R -> bool) (m : nat) (w : nat -> R) (idx : list nat) : Prop :=
  Permutation idx (seq 0 m) /\ StronglySorted (lekey leb w) idx.
Lemma argsort_meets_spec leb m w : (forall a b, leb a b = true \/ leb b a = true) ->
  (forall a b c, leb a b = true -> leb b c = true -> leb a c = true) -> ArgsortSpec leb m w (argsort leb m w).
Proof. intros Ht Htr. split; [apply argsort_perm|apply argsort_sorted; auto]. Qed.
Theorem eig_take_pairs n A (o0 : eout) idx k wh o : EigPairs n A o0 -> (forall x, In x idx -> (x < ek o0)%nat) ->
  eig_take idx o0 k wh = Some o -> EigPairs n A o.
Proof. intros H Hr E. unfold eig_take in E. eapply slice_pairs; [|exact E]. apply take_pairs; auto. Qed.
Theorem eig_take_selects leb m (w : nat -> R) V idx k wh o : (forall a b, leb a b = true \/ leb b a = true) ->
  ArgsortSpec leb m w idx -> (1 <= k)%nat -> (k <= m)%nat -> eig_take idx (mkeout m w V) (Z.of_nat k) wh = Some o ->
  ek o = k /\
  match wh with
  | LM => (forall j, (j < k)%nat -> ew o j = w (nth (m - k + j) idx 0%nat)) /\
          forall i j, (i < m - k)%nat -> (j < k)%nat -> leb (w (nth i idx 0%nat)) (ew o j) = true
  | SM => (forall j, (j < k)%nat -> ew o j = w (nth j idx 0%nat)) /\
          forall i j, (k <= i)%nat -> (i < m)%nat -> (j < k)%nat -> leb (ew o j) (w (nth i idx 0%nat)) = true
  end.
Proof. intros Ht [Hp Hs] H1 Hk E. unfold eig_take in E.
  assert (L : length idx = m) by (rewrite (Permutation_length Hp); apply seq_length).
  change (take idx (mkeout m w V)) with (mkeout (length idx) (fun j => w (nth j idx 0%nat)) (fun i j => V i (nth j idx 0%nat))) in E.
  rewrite L in E.
  assert (Ha : ascending (fun a b => leb a b = true) m (fun j => w (nth j idx 0%nat))).
  { intros i j Hij Hj. apply (sorted_nth leb Ht w idx Hs); [exact Hij|rewrite L; exact Hj]. }
  destruct wh.
  - apply (select_LM (fun a b => leb a b = true)) in E; auto.
  - apply (select_SM (fun a b => leb a b = true)) in E; auto. Qed.

(* ---------- triangular rule ---------- *)
Lemma sum_sub m (f g : nat -> R) : sum m (fun i => f i - g i) = sum m f - sum m g.
Proof. induction m; simpl; [ring|rewrite IHm; ring]. Qed.
Definition upper (n : nat) (U : fm) := forall r c, (c < r)%nat -> (r < n)%nat -> U r c = r0.
Lemma sum_split3 n i (f : nat -> R) : (i < n)%nat -> sum n f = sum i f + f i + sum (n - i - 1) (fun c => f (i + 1 + c)%nat).
Proof. intros H. replace n with (i + (1 + (n - i - 1)))%nat at 1 by lia. rewrite sum_app, sum_app. cbn [sum].
  rewrite Nat.add_0_r. rewrite (sum_ext _ (fun j => f (i + (1 + j))%nat) (fun c => f (i + 1 + c)%nat)) by (intros; f_equal; lia). ring. Qed.
(* what np.linalg.solve promises on the systems the rule builds *)
Definition SolveSpec (solve : nat -> fm -> (nat -> R) -> (nat -> R)) (n : nat) (U : fm) : Prop :=
  forall i, (i < n)%nat -> forall r, (r < i)%nat ->
    sum i (fun c => tri_sys U i r c * solve i (tri_sys U i) (tri_rhs U i) c) = tri_rhs U i r.
Theorem tri_eigvecs_spec solve n U : upper n U -> SolveSpec solve n U -> EigSpec n n U (fun i => U i i) (tri_eigvecs solve (fun x => x) U).
Proof. intros HU HS. split.
  - intros r i Hr Hi. rewrite mmul_dg_r by auto. unfold mmul. rewrite (sum_split3 n i) by auto.
    set (x := solve i (tri_sys U i) (tri_rhs U i)).
    assert (E1 : sum i (fun l => U r l * tri_eigvecs solve (fun x => x) U l i) = sum i (fun l => U r l * x l)).
    { apply sum_ext; intros l Hl. unfold tri_eigvecs. destruct (Nat.ltb_spec l i); [reflexivity|lia]. }
    assert (E2 : tri_eigvecs solve (fun x => x) U i i = r1).
    { unfold tri_eigvecs. rewrite Nat.ltb_irrefl. apply delta_refl. }
    assert (E3 : sum (n - i - 1) (fun c => U r (i + 1 + c)%nat * tri_eigvecs solve (fun x => x) U (i + 1 + c)%nat i) = r0).
    { rewrite (sum_ext _ _ (fun _ => r0)); [apply sum_zero|]. intros c Hc. unfold tri_eigvecs.
      destruct (Nat.ltb_spec (i + 1 + c) i); [lia|]. rewrite delta_ne by lia. ring. }
    rewrite E1, E2, E3. unfold tri_eigvecs. destruct (Nat.ltb_spec r i) as [Hlt|Hge].
    + fold x. pose proof (HS i Hi r Hlt) as Hs. fold x in Hs. unfold tri_sys, tri_rhs in Hs.
      assert (Hs' : sum i (fun c => U r c * x c) - U i i * x r = - U r i).
      { rewrite <- Hs. rewrite (sum_ext i (fun c => (U r c - U i i * delta r c) * x c) (fun c => U r c * x c - U i i * (delta r c * x c))) by (intros; ring).
        rewrite sum_sub, sum_mul_l, (sum_delta_l i r x Hlt). reflexivity. }
      assert (Hs2 : sum i (fun l => U r l * x l) = U i i * x r - U r i).
      { transitivity ((sum i (fun c => U r c * x c) - U i i * x r) + U i i * x r); [ring|rewrite Hs'; ring]. }
      rewrite Hs2. ring.
    + destruct (Nat.eq_dec r i) as [->|Hne].
      * rewrite (sum_ext _ _ (fun _ => r0)); [rewrite sum_zero, delta_refl; ring|]. intros l Hl. rewrite (HU i l) by auto. ring.
      * rewrite (sum_ext _ _ (fun _ => r0)); [rewrite sum_zero|intros l Hl; rewrite (HU r l) by lia; ring].
        rewrite (HU r i) by lia. rewrite delta_ne by lia. ring.
  - intros j Hj Hz. apply one_neq_zero. rewrite <- (Hz j Hj). unfold tri_eigvecs. rewrite Nat.ltb_irrefl. symmetry. apply delta_refl. Qed.

(* back-substitution meets the specification when the diagonal entries are distinct *)
Lemma ubsl_length (A : fm) b k t : length (ubsl A b k t) = t.
Proof. induction t; cbn [ubsl length]; congruence. Qed.
Lemma ubsl_inv (A : fm) b k t : (t <= k)%nat -> (forall r, (r < k)%nat -> A r r <> r0) ->
  forall j, (j < t)%nat -> let r := (k - t + j)%nat in let xs := ubsl A b k t in
  A r r * nth j xs r0 + sum (t - j - 1) (fun c => A r (r + 1 + c)%nat * nth (j + 1 + c) xs r0) = b r.
Proof. intros Ht Hd. induction t as [|t IH]; intros j Hj; [lia|]. cbn zeta. cbn [ubsl]. destruct j as [|j].
  - cbn [nth]. rewrite Nat.add_0_r. replace (S t - 0 - 1)%nat with t by lia. cbn [Nat.add].
    field. apply Hd. lia.
  - cbn [nth]. replace (k - S t + S j)%nat with (k - t + j)%nat by lia. replace (S t - S j - 1)%nat with (t - j - 1)%nat by lia.
    specialize (IH ltac:(lia) j ltac:(lia)). cbn zeta in IH. rewrite <- IH. f_equal. Qed.
Theorem usolve_spec k (A : fm) b : (forall r c, (c < r)%nat -> (r < k)%nat -> A r c = r0) -> (forall r, (r < k)%nat -> A r r <> r0) ->
  forall r, (r < k)%nat -> sum k (fun c => A r c * usolve k A b c) = b r.
Proof. intros HU Hd r Hr. rewrite (sum_split3 k r) by auto.
  rewrite (sum_ext r _ (fun _ => r0)) by (intros c Hc; rewrite HU by auto; ring). rewrite sum_zero.
  pose proof (ubsl_inv A b k k (Nat.le_refl k) Hd r Hr) as H. cbn zeta in H. rewrite Nat.sub_diag in H. cbn [Nat.add] in H.
  unfold usolve. rewrite <- H. ring. Qed.
Lemma usolve_SolveSpec n U : upper n U -> (forall a b, (a < b)%nat -> (b < n)%nat -> U a a <> U b b) -> SolveSpec usolve n U.
Proof. intros HU Hdist i Hi r Hr. apply usolve_spec; auto.
  - intros a c Hc Ha. unfold tri_sys. rewrite HU by lia. rewrite delta_ne by lia. ring.
  - intros a Ha. unfold tri_sys. rewrite delta_refl. intros E. apply (Hdist a i Ha Hi).
    transitivity (U a a - U i i * r1 + U i i); [ring|rewrite E; ring]. Qed.
(* Triangular rule on an UPPER triangular matrix with distinct diagonal: eigenpairs (the code calls the routine
   compute_lower_triangular_eigvecs and applies it to lower ones too: see C10_tri_lower_refuted) *)
Theorem eig_tri_pairs leb n U k wh o : upper n U -> (forall a b, (a < b)%nat -> (b < n)%nat -> U a a <> U b b) ->
  eig_tri leb usolve (fun x => x) n U k wh = Some o -> EigPairs n U o.
Proof. intros HU Hd E. unfold eig_tri in E. eapply slice_pairs; [|exact E]. apply take_pairs.
  - apply EigSpec_pairs. apply tri_eigvecs_spec; [exact HU|apply usolve_SolveSpec; assumption].
  - intros x Hx. cbn [ek]. apply (Permutation_in _ (argsort_perm leb n _)) in Hx. apply in_seq in Hx. lia. Qed.
Theorem eig_tri_pairs_oracle leb solve n U k wh o : upper n U -> SolveSpec solve n U ->
  eig_tri leb solve (fun x => x) n U k wh = Some o -> EigPairs n U o.
Proof. intros HU HS E. unfold eig_tri in E. eapply slice_pairs; [|exact E]. apply take_pairs.
  - apply EigSpec_pairs. apply tri_eigvecs_spec; assumption.
  - intros x Hx. cbn [ek]. apply (Permutation_in _ (argsort_perm leb n _)) in Hx. apply in_seq in Hx. lia. Qed.

(* repaired rule for LOWER triangular operators *)
Definition lower (n : nat) (L : fm) := forall r c, (r < c)%nat -> (c < n)%nat -> L r c = r0.
Lemma sum_shift' n (f : nat -> R) : sum (S n) f = f 0%nat + sum n (fun i => f (S i)).
Proof. induction n as [|n IH]; [cbn; ring|]. change (sum (S (S n)) f) with (sum (S n) f + f (S n)). rewrite IH. cbn [sum]. ring. Qed.
Lemma sum_rev n (f : nat -> R) : sum n f = sum n (fun c => f (n - 1 - c)%nat).
Proof. induction n as [|n IH]; [reflexivity|]. rewrite (sum_shift' n (fun c => f (S n - 1 - c)%nat)).
  replace (S n - 1 - 0)%nat with n by lia. rewrite (sum_ext n (fun i => f (S n - 1 - S i)%nat) (fun c => f (n - 1 - c)%nat)) by (intros; f_equal; lia).
  rewrite <- IH. cbn [sum]. ring. Qed.
Theorem tri_lower_eigvecs_spec n L : lower n L -> (forall a b, (a < b)%nat -> (b < n)%nat -> L a a <> L b b) ->
  EigSpec n n L (fun i => L i i) (flip n (tri_eigvecs usolve (fun x => x) (flip n L))).
Proof. intros HL Hd. set (U := flip n L).
  assert (HU : upper n U) by (intros r c Hc Hr; unfold U, flip; apply HL; lia).
  assert (HdU : forall a b, (a < b)%nat -> (b < n)%nat -> U a a <> U b b).
  { intros a b Ha Hb E. unfold U, flip in E. apply (Hd (n - 1 - b) (n - 1 - a))%nat; [lia|lia|symmetry; exact E]. }
  destruct (tri_eigvecs_spec usolve n U HU (usolve_SolveSpec n U HU HdU)) as [HE HZ]. set (W := tri_eigvecs usolve (fun x => x) U) in *.
  split.
  - intros r i Hr Hi. rewrite mmul_dg_r by auto. unfold mmul. rewrite sum_rev.
    rewrite (sum_ext n _ (fun c => U (n - 1 - r)%nat c * W c (n - 1 - i)%nat)).
    + change (sum n (fun c => U (n - 1 - r)%nat c * W c (n - 1 - i)%nat)) with (mmul n U W (n - 1 - r)%nat (n - 1 - i)%nat).
      rewrite HE by lia. rewrite mmul_dg_r by lia. unfold flip at 1. f_equal. unfold U, flip. f_equal; lia.
    + intros c Hc. unfold U, flip. f_equal; [f_equal; lia|f_equal; lia].
  - intros j Hj Hz. apply (HZ (n - 1 - j)%nat ltac:(lia)). intros i Hi. specialize (Hz (n - 1 - i)%nat ltac:(lia)). unfold flip in Hz.
    replace (n - 1 - (n - 1 - i))%nat with i in Hz by lia. exact Hz. Qed.
Theorem eig_tri_lower_pairs leb n L k wh o : lower n L -> (forall a b, (a < b)%nat -> (b < n)%nat -> L a a <> L b b) ->
  eig_tri_lower leb usolve (fun x => x) n L k wh = Some o -> EigPairs n L o.
Proof. intros HL Hd E. unfold eig_tri_lower in E. eapply slice_pairs; [|exact E]. apply take_pairs.
  - apply EigSpec_pairs. apply tri_lower_eigvecs_spec; assumption.
  - intros x Hx. cbn [ek]. apply (Permutation_in _ (argsort_perm leb n _)) in Hx. apply in_seq in Hx. lia. Qed.

(* independence of the vectors returned by the dense rules: from an invertible V, distinct selected columns *)
Theorem eig_dense_independent n V (idx : list nat) (c : nat -> R) : invertible n V -> NoDup idx -> (forall x, In x idx -> (x < n)%nat) ->
  (forall i, (i < n)%nat -> sum (length idx) (fun j => V i (nth j idx 0%nat) * c j) = r0) -> forall j, (j < length idx)%nat -> c j = r0.
Proof. intros HI Hnd Hr H j Hj.
  (* extend c to all n columns: c' x = c j if x = idx[j] else 0 *)
  set (c' := fun x => sum (length idx) (fun j => delta (nth j idx 0%nat) x * c j)).
  assert (Hc' : forall j, (j < length idx)%nat -> c' (nth j idx 0%nat) = c j).
  { intros j0 Hj0. unfold c'. rewrite (sum_ext _ _ (fun j1 => delta j0 j1 * c j1)); [apply (sum_delta_l _ j0 c Hj0)|].
    intros j1 Hj1. destruct (Nat.eq_dec j0 j1) as [->|Hne]; [rewrite !delta_refl; reflexivity|].
    rewrite (delta_ne j0 j1) by auto. rewrite delta_ne; [reflexivity|]. intros E. apply Hne. symmetry. apply (proj1 (NoDup_nth idx 0%nat) Hnd); auto. }
  rewrite <- Hc' by auto. apply (invertible_independent n V c' HI); [|apply Hr, nth_In; exact Hj].
  intros i Hi. unfold c'. erewrite sum_ext by (intros; rewrite <- sum_mul_l; reflexivity). rewrite sum_swap.
  rewrite <- (H i Hi). apply sum_ext; intros j0 Hj0.
  rewrite (sum_ext n _ (fun x => (V i x * c j0) * delta x (nth j0 idx 0%nat))) by (intros; rewrite (delta_sym (nth j0 idx 0%nat)); ring).
  rewrite sum_delta_r by (apply Hr, nth_In; exact Hj0). reflexivity. Qed.
End Proofs.
