(* C12: exact rational execution instance (Qc, square roots exact on perfect squares), the refutation witness for
   the defect flag cg_x0_unscaled, and a concrete instance showing that the hypotheses of the optimality theorem
   are satisfiable. *)
From Coq Require Import List Bool Arith Lia ZArith QArith Qcanon Ring Field.
From Core Require Import C12_Ops C12_Model C12_Contract C12_Krylov C12_Run C12_Homog.
Import ListNotations.
Local Close Scope Qc_scope. Local Close Scope Q_scope.

Definition Qc_sqrt (q : Qc) : Qc := Q2Qc (Z.sqrt (Qnum (this q)) # Pos.sqrt (Qden (this q))).
Definition Qc_ltb (a b : Qc) : bool := negb (Qle_bool (this b) (this a)).
Definition Qc_abs (a : Qc) : Qc := if Qle_bool 0 (this a) then a else Qcopp a.
Definition QcOps : ops Qc :=
  {| o0 := 0%Qc; o1 := 1%Qc; oadd := Qcplus; osub := Qcminus; omul := Qcmult; odiv := Qcdiv; oopp := Qcopp;
     oconj := fun x => x; osqrt := Qc_sqrt; oabs := Qc_abs; oltb := Qc_ltb;
     osmall := Q2Qc (1 # 10000000000000000000000000000000000000000); ozero := Q2Qc (1 # 10000000000000000000000000000000000000000); osafe := Q2Qc (1 # 10000000000000000000000000000000000000000) |}.

Definition qz (z : Z) : Qc := Q2Qc (inject_Z z).
Definition qq (a : Z) (b : positive) : Qc := Q2Qc (a # b).

(* ---------------------------------------------------------------- refutation of the optimality clause on the
   pinned tree: A = diag(1,2), b = (3,4) (norm 5), x0 = (27/10, 9/5) (a good guess: 0.9 times the solution), one step.  All square roots that influence
   values are exact (||b|| = 5, ||r0|| = 7/2). *)
Definition wA : list (list Qc) := [[qz 1; qz 0]; [qz 0; qz 2]].
Definition wI : list (list Qc) := [[qz 1; qz 0]; [qz 0; qz 1]].
Definition wb : list Qc := [qz 3; qz 4].
Definition wx0 : list Qc := [qq 27 10; qq 9 5].
Definition wtol : Qc := qq 1 1000000000000.
Definition wrun (flag : bool) : result (T:=Qc) (V:=list Qc) :=
  run_cg QcOps (lvops QcOps) (mv QcOps wA) (mv QcOps wI) flag wtol 1 [wb] [wx0].
Definition wsol (flag : bool) : list Qc := nth 0 (sol (wrun flag)) [].
(* squared A-norm of the error of y for the system A x = b, whose solution is (3, 2) *)
Definition werr2 (y : list Qc) : Qc :=
  let e := lmap2 Qcminus [qz 3; qz 2] y in ldot QcOps e (mv QcOps wA e).
(* the elements of x0 + K_1(A, b - A x0) *)
Definition wkrylov1 (t : Qc) : list Qc :=
  let r0 := lmap2 Qcminus wb (mv QcOps wA wx0) in lmap2 Qcplus wx0 (map (Qcmult t) r0).

(* With the flag of the pinned tree the iterate returned after one step is strictly worse than an element of
   x0 + K_1: the returned vector does not minimise the A-norm of the error over the stated space. *)
Theorem cg_refuted_x0_unscaled :
  exists t, Qc_ltb (werr2 (wkrylov1 t)) (werr2 (wsol true)) = true /\ steps (wrun true) = 1.
Proof. exists (qq 25 41). vm_compute. split; reflexivity. Qed.

(* On the same witness the repaired model (x0 divided by ||b||) returns exactly that optimum. *)
Theorem cg_witness_fixed_optimal : map this (wsol false) = map this (wkrylov1 (qq 25 41)).
Proof. vm_compute. reflexivity. Qed.

(* max_iters = 0: the pinned tree returns ||b|| * x0 instead of x0 *)
Theorem cg_refuted_x0_unscaled_k0 :
  map (map this) (sol (run_cg QcOps (lvops QcOps) (mv QcOps wA) (mv QcOps wI) true wtol 0 [wb] [wx0])) = [[27 # 2; 9 # 1]%Q] /\
  map (map this) (sol (run_cg QcOps (lvops QcOps) (mv QcOps wA) (mv QcOps wI) false wtol 0 [wb] [wx0])) = [map this wx0].
Proof. vm_compute. split; reflexivity. Qed.

(* ---------------------------------------------------------------- the hypotheses of cg_run_optimal are satisfiable:
   vectors = pairs of rationals, <u,v> = u1 v1 + u2 v2, A = diag(1,2), P = identity *)
Definition V2 := (Qc * Qc)%type.
Definition v2ops : vops Qc V2 :=
  {| vadd := fun u v => (fst u + fst v, snd u + snd v)%Qc; vsub := fun u v => (fst u - fst v, snd u - snd v)%Qc;
     vscale := fun a v => (a * fst v, a * snd v)%Qc; vdivs := fun v a => (fst v / a, snd v / a)%Qc;
     vdot := fun u v => (fst u * fst v + snd u * snd v)%Qc |}.
Definition A2 (v : V2) : V2 := (fst v, qz 2 * snd v)%Qc.
Definition P2 (v : V2) : V2 := v.

Lemma Qc_field_div : field_theory 0%Qc 1%Qc Qcplus Qcmult Qcminus Qcopp Qcdiv (fun x => Qcdiv 1%Qc x) eq.
Proof.
  constructor.
  - exact Qcrt.
  - discriminate.
  - intros p q. unfold Qcdiv. ring.
  - intros p Hp. unfold Qcdiv. rewrite Qcmult_1_l. rewrite Qcmult_comm. apply Qcmult_inv_r. exact Hp.
Qed.

Lemma A2_nonneg (v : V2) : (0 <= vdot v2ops v (A2 v))%Qc.
Proof.
  destruct v as [v1 v2]. unfold A2, Qcle. cbn [vdot v2ops fst snd]. unfold Qcplus, Qcmult, qz, Q2Qc. cbn [this].
  rewrite !Qred_correct. destruct (this v1) as [n1 d1], (this v2) as [n2 d2].
  unfold Qle, Qmult, Qplus, inject_Z. cbn [Qnum Qden]. nia.
Qed.

Example cg_run_optimal_instance :
  let b : V2 := (qz 3, qz 4) in let x0 : V2 := (qz 0, qz 0) in
  let r := run_cg QcOps v2ops A2 P2 false wtol 2 [b] [x0] in
  let c0 := init_col QcOps v2ops A2 P2 false wtol b x0 in
  steps r = 2 /\
  forall xs : V2, (forall u, vdot v2ops u (A2 xs) = vdot v2ops u (safe_vdiv QcOps v2ops b (vnorm QcOps v2ops b))) ->
  exists xk, nth_error (sol r) 0 = Some (vscale v2ops (vnorm QcOps v2ops b) xk) /\
    forall c, (0 <= phi v2ops A2 xs (vadd v2ops xk (comb QcOps v2ops A2 P2 c0 2 c)) - phi v2ops A2 xs xk)%Qc.
Proof.
  intros b x0 r c0. split; [vm_compute; reflexivity|]. intros xs Hxs.
  assert (Hsteps : steps r = 2) by (vm_compute; reflexivity).
  destruct (cg_run_optimal QcOps v2ops Qc_field_div) with (A := A2) (P := P2) (flag := false) (tol := wtol) (max_iters := 2)
    (bs := [b]) (x0s := [x0]) (j := 0) (b := b) (x0 := x0) (xs := xs) as (xk & Hk & _ & Hopt); try reflexivity.
  - intros u v w. cbn. ring.
  - intros u v w. cbn. ring.
  - intros u a v. cbn. ring.
  - intros u v. cbn. ring.
  - intros u v. unfold A2. cbn. ring.
  - intros k Hk. fold r in Hk. rewrite Hsteps in Hk.
    assert (Hc : k = 0 \/ k = 1) by lia. destruct Hc as [->| ->].
    + split; [|split].
      * vm_compute. repeat split; reflexivity.
      * intro H. apply (f_equal this) in H. vm_compute in H. discriminate.
      * intro H. apply (f_equal this) in H. vm_compute in H. discriminate.
    + split; [|split].
      * vm_compute. repeat split; reflexivity.
      * intro H. apply (f_equal this) in H. vm_compute in H. discriminate.
      * intro H. apply (f_equal this) in H. vm_compute in H. discriminate.
  - exact Hxs.
  - exists xk. split.
    + fold r in Hk. exact Hk.
    + intros c. fold r in Hopt. rewrite Hsteps in Hopt. fold c0 in Hopt.
      apply (Hopt (fun q => (0 <= q)%Qc)). exact A2_nonneg.
Qed.

(* ---------------------------------------------------------------- the hypotheses of cg_homogeneous are satisfiable:
   the same 2x2 rational instance, alpha = -2 (|alpha| = 2, phase -1), b = (3,4), x0 = 0 *)
Ltac qc_eq := apply Qc_is_canon; vm_compute; reflexivity.
Example cg_homogeneous_instance :
  let b : V2 := (qz 3, qz 4) in let x0 : V2 := (qz 0, qz 0) in
  let r := run_cg QcOps v2ops A2 P2 false wtol 2 [b] [x0] in
  let r' := run_cg QcOps v2ops A2 P2 false wtol 2 (map (vscale v2ops (qz (-2))) [b]) [x0] in
  sol r' = map (vscale v2ops (qz (-2))) (sol r) /\ steps r' = steps r /\ iterations r' = iterations r /\ errors r' = errors r.
Proof.
  intros b x0.
  refine (cg_homogeneous QcOps v2ops Qc_field_div A2 P2 _ _ _ _ _ _ _ (qz (-1)) _ (qz (-2)) (qz 2) _ _ false wtol 2 [b] [x0] _).
  - intros u [a1 a2] [b1 b2]. cbn. f_equal; ring.
  - intros u [a1 a2] [b1 b2]. cbn. f_equal; ring.
  - intros a c [v1 v2]. cbn. f_equal; ring.
  - intros [v1 v2] c. cbn. unfold Qcdiv. f_equal; ring.
  - intros u [v1 v2]. unfold A2. cbn. f_equal; ring.
  - intros u v. reflexivity.
  - intros u [a1 a2] [b1 b2]. cbn. ring.
  - qc_eq.
  - intro H. apply (f_equal this) in H. vm_compute in H. discriminate.
  - qc_eq.
  - intros b' x' [E|[]]. inversion E; subst. split; [qc_eq|]. split.
    { intro H. apply (f_equal this) in H. vm_compute in H. discriminate. }
    split; [qc_eq|]. split; [qc_eq|]. intros c. unfold x0. replace (qz 0) with 0%Qc by qc_eq.
    change (((c * 0)%Qc, (c * 0)%Qc) = (0%Qc, 0%Qc)). f_equal; ring.
Qed.
