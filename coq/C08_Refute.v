(* C08: witnesses for the clauses the faithful model of the pinned tree violates, and satisfiability examples. *)
From Coq Require Import ZArith Arith Lia List Bool.
From Core Require Import Base Kron Op OpProofs ZIInst C08_Diag C08_Proofs C08_Rules C08_RulesProofs.
Import ListNotations.
Definition zop := op (R:=zi).
Definition z (a : Z) : zi := (a, 0%Z).
Definition ones (m n : nat) : zop := Dense (mkarr m n (fun _ _ => z 1)).

(* exact_diag_ragged_chunk: for EVERY square well-formed operator of size 101 (150, 199, 230) the generic exact algorithm
   raises on the first off-diagonals, because ragged holds - no computation on the operator is involved *)
Theorem exact_diag_ragged_chunk_refuted : forall (e : zop), wf e = true -> shape e = (101, 101)%nat ->
  exact_diag false 100 101 (fun _ X => matmat e X) 1 = None /\ exact_diag false 100 101 (fun _ X => matmat e X) (-2) = Some (true_diag 101 101 (den e) (-2))
  /\ exact_diag true 100 101 (fun _ X => matmat e X) 1 = Some (true_diag 101 101 (den e) 1).
Proof. intros e Hwf Hs. split; [|split].
  - apply (exact_diag_none_iff e 100 101 1 Hwf Hs); [lia|lia|]. vm_compute. reflexivity.
  - apply (exact_diag_total e 100 101 (-2) Hwf Hs); [lia|lia|]. vm_compute. reflexivity.
  - apply (exact_diag_fixed_total e 100 101 1 Hwf Hs); lia. Qed.
Theorem ragged_witnesses : ragged 100 101 1 = true /\ ragged 100 150 (-1) = true /\ ragged 100 150 (-75) = true /\ ragged 100 199 (-2) = true
  /\ ragged 100 230 69 = true /\ ragged 100 230 70 = false /\ ragged 100 201 (-1) = false /\ ragged 100 200 7 = false /\ ragged 100 99 (-98) = false.
Proof. vm_compute. repeat split. Qed.
Theorem exact_diag_ragged_on_diag_rule : exists (e : zop), dwf dpinned e = true /\ shape e = (101, 101)%nat /\ diag_rule dpinned 100 AExact e 1 = inl DValue.
Proof. exists (Prod [Ident 101; Ident 101]). split; [vm_compute; reflexivity|]. split; [vm_compute; reflexivity|].
  change (diag_rule dpinned 100 AExact (Prod [Ident 101; Ident 101]) 1) with (generic_diag dpinned 100 AExact (Prod [Ident 101; Ident 101] : zop) 1).
  unfold generic_diag. change (fst (shape (Prod [Ident 101; Ident 101] : zop))) with 101%nat. change (snd (shape (Prod [Ident 101; Ident 101] : zop))) with 101%nat.
  rewrite Nat.eqb_refl. cbn [d_ragged_fixed dpinned].
  rewrite (proj2 (exact_diag_none_iff (Prod [Ident 101; Ident 101] : zop) 100 101 1 eq_refl eq_refl ltac:(lia) ltac:(lia))); [reflexivity|].
  vm_compute. reflexivity. Qed.

(* kron_diag_nonsquare_factors: a 6x6 Kronecker product of a 2x3 and a 3x2 factor: the rule returns 4 entries *)
Theorem kron_diag_nonsquare_refuted : exists (e : zop) d, wf e = true /\ shape e = (6, 6)%nat /\ diag_rule dpinned 100 AExact e 0 = inr d
  /\ length d = 4%nat /\ length (true_diag 6 6 (den e) 0) = 6%nat /\ diag_rule drepaired 100 AExact e 0 = inl DAssert.
Proof. exists (Kron [ones 2 3; ones 3 2]). eexists. split; [vm_compute; reflexivity|]. split; [vm_compute; reflexivity|].
  split; [vm_compute; reflexivity|]. split; [vm_compute; reflexivity|]. split; vm_compute; reflexivity. Qed.
(* blockdiag_diag_nonsquare_blocks: blocks 2x3 and 3x2 (5x5 overall): the rule returns 4 entries *)
Theorem blockdiag_diag_nonsquare_refuted : exists (e : zop) d, wf e = true /\ shape e = (5, 5)%nat /\ diag_rule dpinned 100 AExact e 0 = inr d
  /\ length d = 4%nat /\ length (true_diag 5 5 (den e) 0) = 5%nat /\ diag_rule drepaired 100 AExact e 0 = inl DAssert.
Proof. exists (BDiag [(ones 2 3, 1%nat); (ones 3 2, 1%nat)]). eexists. split; [vm_compute; reflexivity|]. split; [vm_compute; reflexivity|].
  split; [vm_compute; reflexivity|]. split; [vm_compute; reflexivity|]. split; vm_compute; reflexivity. Qed.

(* the hypotheses of diag_rule_agrees / trace_correct are satisfiable on a nested tree of every structural kind and a generic part *)
Definition D22 : zop := Dense (of_list_mn 2 2 [[z 1; z 2]; [z 3; z 4]]).
Definition Ex : zop :=
  Sum [Kron [D22; Diag 2 (of_vec [z 5; (0%Z, 1%Z)])];
       BDiag [(Prod [D22; Transp D22], 1%nat); (Scal (z 2) 1, 2%nat)];
       Kron [Ident 2; Sum [D22; Ident 2]]].
Example ex_dwf : dwf dpinned Ex = true /\ dwf drepaired Ex = true /\ shape Ex = (4, 4)%nat.
Proof. repeat split; vm_compute; reflexivity. Qed.
Example ex_diag : diag_rule dpinned 100 AExact Ex 0 = inr [z 12; (30%Z, 1%Z); z 24; (7%Z, 4%Z)] /\ diag_rule drepaired 100 default_auto Ex 1 = inl DAssert.
Proof. split; vm_compute; reflexivity. Qed.
Example ex_trace : tdwf dpinned (Kron [D22; Prod [D22; D22]]) = true /\ trace_rule dpinned 100 AExact (Kron [D22; Prod [D22; D22]] : zop) = inr (z 145).
Proof. split; vm_compute; reflexivity. Qed.
