(* C07 - model of cola.linalg.slogdet (cola/linalg/logdet/logdet.py) on decorated operator trees.

   Scalars R (a commutative ring with involution, as everywhere in Op.v); the code's outputs live in two further
   carriers given by a record of operations [sdom]:
     V  the multiplicative carrier of phases and magnitudes   (c / |c|,  |c|,  products, integer powers)
     L  the log-domain of [logabs]                           (log, +, k * _ ; exp only appears in theorems)
   The model never adds two scalars: the code's  log / sum / * multiplicity / 2 * logdet  are the operations
   of L, and the statement of the property is  phase * exp(logabs) = det,  i.e. a statement about products.
   Instances: V = L = a field with an absolute value (exp = id: "multiplicative form", C07_Proofs.v),
   V = L = Gaussian rationals times a square root of a positive rational (exact execution, C07_Exec.v),
   L = Z with exp k = 2^k (exact witness for the Krylov flag, C07_Exec.v).

   Oracles are decorations of the tree, never axioms: a base-case node carries what LAPACK returned for it
   (P, L, U), (Cholesky factor), and the value trace(log A) of the Krylov path; the theorems assume their
   specifications for exactly the decoration that the selected algorithm reads ([valid]). *)
From Coq Require Import Arith Lia List Ring ArithRing PeanoNat Bool ZArith.
From Core Require Import Base Kron Op C07_DetLaws.
Import ListNotations.

(* defects of the pinned tree, isolated behind booleans (true = the pinned behaviour) *)
Record flags := mkflags {
  scalar_slogdet_ignores_n : bool;      (* slogdet(ScalarMul c, n x n) returns (c/|c|, log|c|) for every n *)
  perm_slogdet_ignores_parity : bool;   (* slogdet(Permutation) returns (+1, 0) for every permutation *)
  krylov_slogdet_abs_of_trace : bool }. (* Lanczos/Arnoldi path returns (t/|t|, |t|) for t = trace(log A) *)
Definition all_fixed := mkflags false false false.
Definition pinned := mkflags true true true.

Inductive lalg := AAuto | AChol | ALU | AKry.     (* log_alg: Auto(), Cholesky(), LU(), Lanczos(..)/Arnoldi(..) *)
Inductive path := PChol | PLU | PKry.
Definition small (n : nat) : bool := (Z.of_nat n * Z.of_nat n <=? 1000000)%Z.   (* np.prod(A.shape) <= 1e6 *)
(* which base case runs: slogdet(A, Auto, _) re-dispatches on (is_PSD, small) *)
Definition pick (alg : lalg) (psd : bool) (n : nat) : path :=
  match alg with
  | AAuto => if small n then (if psd then PChol else PLU) else PKry
  | AChol => PChol | ALU => PLU | AKry => PKry end.

Section Model.
Context {R : Type} {RR : Ring R} {CR : CRing R}.
Open Scope R_scope.
Notation fm := (fm (R:=R)). Notation arr := (arr (R:=R)). Notation op := (op (R:=R)).
Variables V L : Type.
Record sdom := mksdom {
  vone : V; vmul : V -> V -> V; vinv : V -> V; vconj : V -> V;
  vof : R -> V;            (* a scalar as a value *)
  vabs : R -> V;           (* xnp.abs *)
  lzero : L; ladd : L -> L -> L; lscale : nat -> L -> L;
  llog : V -> L;           (* xnp.log of a magnitude *)
  lexp : L -> V;           (* not used by the code: the meaning of a logabs *)
  labs : L -> L; lsgn : L -> V;   (* |t| and t/|t| of t = trace(log A), as the Krylov rule is written *)
  lre : L -> L; lph : L -> V }.   (* real part of t and exp(i Im t): what a repaired Krylov rule returns *)
Variable D : sdom.
Notation "a ** b" := (vmul D a b) (at level 40, left associativity).
Fixpoint vpow (v : V) (k : nat) : V := match k with 0%nat => vone D | S k' => v ** vpow v k' end.
Definition res := (V * L)%type.
Definition phase (c : R) : V := vof D c ** vinv D (vabs D c).          (* c / |c| *)

(* ----- decorated trees ----- *)
Record ludata := mklu { lu_p : nat -> nat; lu_L : fm; lu_U : fm }.    (* P = Permutation(lu_p), Triangular L, U *)
Record based := mkbased { b_psd : bool; b_lu : ludata; b_ch : fm; b_kt : L }.
Inductive sop :=
| SBase (e : op) (b : based)              (* any operator without a structural rule: Dense, Sum, Transpose, Sliced, ... *)
| STri (n : nat) (lower : bool) (a : fm)   (* Triangular(A, lower) *)
| SDiag (n : nat) (d : nat -> R)
| SIdent (n : nat)
| SScal (c : R) (n : nat)
| SPerm (n : nat) (p : nat -> nat)
| SProd (ms : list sop) (b : based)        (* the rule applies iff all factors are square; else the base case runs *)
| SKron (ms : list sop)
| SBDiag (ms : list (sop * nat)).
Fixpoint to_op (e : sop) : op :=
  match e with
  | SBase e0 _ => e0
  | STri n _ a => Dense (mkarr n n a)
  | SDiag n d => Diag n d | SIdent n => Ident n | SScal c n => Scal c n | SPerm n p => Perm n p
  | SProd ms _ => Prod (map to_op ms)
  | SKron ms => Kron (map to_op ms)
  | SBDiag ms => BDiag (map (fun mc => (to_op (fst mc), snd mc)) ms)
  end.
Definition dim (e : sop) : nat := fst (shape (to_op e)).
Definition is_square (s : shp) : bool := Nat.eqb (fst s) (snd s).

(* ----- the rules ----- *)
(* Diagonal / Triangular: (prod(diag/|diag|), sum(log|diag|)) *)
Fixpoint diag_rule (n : nat) (d : nat -> R) : res :=
  match n with
  | 0%nat => (vone D, lzero D)
  | S k => let r := diag_rule k d in (fst r ** phase (d k), ladd D (snd r) (llog D (vabs D (d k))))
  end.
Definition tri_rule (n : nat) (a : fm) : res := diag_rule n (fun i => a i i).
Definition ident_rule : res := (vone D, lzero D).
Definition scal_rule (fl : flags) (c : R) (n : nat) : res :=
  if scalar_slogdet_ignores_n fl then (phase c, llog D (vabs D c))
  else (vpow (phase c) n, lscale D n (llog D (vabs D c))).
Definition perm_rule (fl : flags) (n : nat) (p : nat -> nat) : res :=
  if perm_slogdet_ignores_parity fl then (vone D, lzero D) else (vof D (perm_sign n p), lzero D).
(* product(signs), sum(logdets): left folds from 1 and 0 *)
Definition comb (rs : list res) : res :=
  (fold_left (vmul D) (map fst rs) (vone D), fold_left (ladd D) (map snd rs) (lzero D)).
Definition scale_res (k : nat) (r : res) : res := (vpow (fst r) k, lscale D k (snd r)).
(* Kronecker: exponent prod(sizes)/size_i on every factor *)
Definition kron_rule (rs : list (nat * res)) : res :=
  let N := fold_left Nat.mul (map fst rs) 1%nat in
  comb (map (fun nr => scale_res (N / fst nr) (snd nr)) rs).
(* BlockDiag: multiplicities *)
Definition bdiag_rule (rs : list (nat * res)) : res := comb (map (fun mr => scale_res (fst mr) (snd mr)) rs).
(* base cases *)
Definition chol_rule (n : nat) (ch : fm) : res :=
  let r := tri_rule n ch in (fst r ** vconj D (fst r), lscale D 2 (snd r)).
Definition lu_rule (fl : flags) (n : nat) (lu : ludata) : res :=
  comb [perm_rule fl n (lu_p lu); tri_rule n (lu_L lu); tri_rule n (lu_U lu)].
Definition kry_rule (fl : flags) (t : L) : res :=
  if krylov_slogdet_abs_of_trace fl then (lsgn D t, labs D t) else (lph D t, lre D t).
Definition base_rule (fl : flags) (alg : lalg) (n : nat) (b : based) : res :=
  match pick alg (b_psd b) n with
  | PChol => chol_rule n (b_ch b)
  | PLU => lu_rule fl n (b_lu b)
  | PKry => kry_rule fl (b_kt b)
  end.
(* pre-check: slogdet(A, Cholesky(), _) asserts A.isa(PSD) at every base case it reaches *)
Definition base_check (alg : lalg) (b : based) : bool := match alg with AChol => b_psd b | _ => true end.

Fixpoint slogdet (fl : flags) (alg : lalg) (e : sop) : res :=
  match e with
  | SBase e0 b => base_rule fl alg (fst (shape e0)) b
  | STri n _ a => tri_rule n a
  | SDiag n d => diag_rule n d
  | SIdent _ => ident_rule
  | SScal c n => scal_rule fl c n
  | SPerm n p => perm_rule fl n p
  | SProd ms b =>
      if forallb (fun m => is_square (shape (to_op m))) ms then comb (map (slogdet fl alg) ms)
      else base_rule fl alg (fst (shape (Prod (map to_op ms)))) b
  | SKron ms => kron_rule (map (fun m => (snd (shape (to_op m)), slogdet fl alg m)) ms)
  | SBDiag ms => bdiag_rule (map (fun mc => (snd mc, slogdet fl alg (fst mc))) ms)
  end.
Fixpoint slogdet_check (alg : lalg) (e : sop) : bool :=
  match e with
  | SBase _ b => base_check alg b
  | SProd ms b => if forallb (fun m => is_square (shape (to_op m))) ms then forallb (slogdet_check alg) ms else base_check alg b
  | SKron ms => forallb (slogdet_check alg) ms
  | SBDiag ms => forallb (fun mc => slogdet_check alg (fst mc)) ms
  | _ => true
  end.
(* logdet(A, ..) = slogdet(A, ..)[1] *)
Definition logdet (fl : flags) (alg : lalg) (e : sop) : L := snd (slogdet fl alg e).
(* the meaning of a result: phase * exp(logabs) *)
Definition ev (r : res) : V := fst r ** lexp D (snd r).
End Model.
Arguments SBase {R L}. Arguments STri {R L}. Arguments SDiag {R L}. Arguments SIdent {R L}.
Arguments SScal {R L}. Arguments SPerm {R L}. Arguments SProd {R L}. Arguments SKron {R L}.
Arguments SBDiag {R L}. Arguments mkbased {R L}. Arguments mksdom {R V L}.
Arguments slogdet {R RR V L}. Arguments slogdet_check {R L}. Arguments logdet {R RR V L}. Arguments ev {R V L}.
Arguments to_op {R L}. Arguments dim {R L}.
Arguments vone {R V L}. Arguments vmul {R V L}. Arguments vinv {R V L}. Arguments vconj {R V L}. Arguments vof {R V L}.
Arguments vabs {R V L}. Arguments lzero {R V L}. Arguments ladd {R V L}. Arguments lscale {R V L}. Arguments llog {R V L}.
Arguments lexp {R V L}. Arguments labs {R V L}. Arguments lsgn {R V L}. Arguments lre {R V L}. Arguments lph {R V L}.
Arguments vpow {R V L}. Arguments phase {R V L}. Arguments diag_rule {R V L}. Arguments tri_rule {R V L}.
Arguments ident_rule {R V L}. Arguments scal_rule {R V L}. Arguments perm_rule {R RR V L}. Arguments comb {R V L}.
Arguments scale_res {R V L}. Arguments kron_rule {R V L}. Arguments bdiag_rule {R V L}. Arguments chol_rule {R V L}.
Arguments lu_rule {R RR V L}. Arguments kry_rule {R V L}. Arguments base_rule {R RR V L}. Arguments base_check {R L}.
Arguments b_psd {R L}. Arguments b_lu {R L}. Arguments b_ch {R L}. Arguments b_kt {R L}.
