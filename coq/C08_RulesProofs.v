(* C08: the structural diag rules and trace (C08_Rules.v) return the true diagonal / trace of the represented matrix
   whenever they return; Auto's threshold. *)
From Coq Require Import ZArith Arith Lia List Bool Ring.
From Core Require Import Base Kron Op OpProofs C08_Diag C08_Proofs C08_Rules.
Import ListNotations.

(* ---------- Auto: with the default tolerance 1e-6 the exact algorithm is chosen exactly below m*n = 10^11 *)
Theorem auto_exact_below m n : auto_exact 1 1000000 m n = true <-> (Z.of_nat m * Z.of_nat n < 100000000000)%Z.
Proof. unfold auto_exact. rewrite Z.ltb_lt. lia. Qed.
Theorem auto_exact_monotone tp tq m n m' n' : (0 <= tp)%Z -> (m' <= m)%nat -> (n' <= n)%nat ->
  auto_exact tp tq m n = true -> auto_exact tp tq m' n' = true.
Proof. unfold auto_exact. rewrite !Z.ltb_lt. intros Ht Hm Hn H. eapply Z.le_lt_trans; [|exact H].
  assert (0 <= tp * tp * 10)%Z by nia. assert (Z.of_nat m' * Z.of_nat n' <= Z.of_nat m * Z.of_nat n)%Z by nia. nia. Qed.

Section RP.
Context {R : Type} {RR : Ring R} {CR : CRing R}.
Add Ring Rring3 : Rth.
Open Scope R_scope.
Notation fm := (fm (R:=R)). Notation arr := (arr (R:=R)). Notation op := (op (R:=R)).

Definition sq (e : op) : bool := Nat.eqb (fst (shape e)) (snd (shape e)).
Definition is_struct (e : op) : bool :=
  match e with Dense _ | Ident _ | Diag _ _ | Scal _ _ | Sum _ | BDiag _ | Kron _ | KronSum _ => true | _ => false end.
(* operators on which the rules are claimed: Dense of any shape, sums of equal shapes, square blocks / factors,
   generic sub-operators well-formed (so that mm_den applies), square and non-empty.  KronSum is not covered here
   (no product theorem in Op.v yet): correspondence only. *)
Fixpoint dwf (e : op) : bool :=
  match e with
  | Dense _ | Ident _ | Diag _ _ | Scal _ _ => true
  | Sum ms => negb (Nat.eqb (length ms) 0) && forallb dwf ms && forallb (fun s => shp_eqb s (hd (0,0)%nat (map shape ms))) (map shape ms)
  | BDiag ms => forallb (fun mc => dwf (fst mc) && Nat.eqb (fst (shape (fst mc))) (snd (shape (fst mc)))) ms
  | Kron ms => forallb (fun m => dwf m && Nat.eqb (fst (shape m)) (snd (shape m)) && (0 <? fst (shape m))%nat) ms
  | KronSum _ => false
  | _ => wf e && Nat.eqb (fst (shape e)) (snd (shape e)) && (0 <? fst (shape e))%nat
  end.

(* ---------- list helpers *)
Lemma rep_map_gen {A} n (x : A) s : rep n x = map (fun _ => x) (seq s n).
Proof. revert s. induction n as [|n IH]; intros s; [reflexivity|]. cbn [rep seq map]. f_equal. apply IH. Qed.
Lemma rep_map {A} n (x : A) : rep n x = map (fun _ => x) (seq 0 n).
Proof. apply rep_map_gen. Qed.
Lemma true_diag_ext m n (A A' : fm) k : feq m n A A' -> true_diag m n A k = true_diag m n A' k.
Proof. intros H. unfold true_diag. destruct (0 <=? k)%Z eqn:E; apply map_ext_in; intros i Hi; apply in_seq in Hi; apply H; lia. Qed.
Lemma true_diag_len m n (A : fm) k : length (true_diag m n A k) = length (true_diag m n (fun _ _ => r0) k).
Proof. unfold true_diag. destruct (0 <=? k)%Z; rewrite !map_length; reflexivity. Qed.
Lemma map2_map (f : R -> R -> R) (g h : nat -> R) l : map2 f (map g l) (map h l) = map (fun i => f (g i) (h i)) l.
Proof. induction l; cbn [map map2]; congruence. Qed.
Lemma true_diag_madd m n (A A' : fm) k : map2 radd (true_diag m n A k) (true_diag m n A' k) = true_diag m n (madd A A') k.
Proof. unfold true_diag. destruct (0 <=? k)%Z; rewrite map2_map; reflexivity. Qed.
Lemma vadd_true_diag m n (A A' : fm) k : vadd (true_diag m n A k) (true_diag m n A' k) = Some (true_diag m n (madd A A') k).
Proof. unfold vadd. rewrite (true_diag_len m n A), (true_diag_len m n A'), Nat.eqb_refl, true_diag_madd. reflexivity. Qed.
Lemma lsum_map (f : nat -> R) n : lsum (map f (seq 0 n)) = sum n f.
Proof. unfold lsum. induction n as [|n IH]; [reflexivity|]. rewrite seq_S, map_app, fold_left_app, IH. reflexivity. Qed.

(* ---------- leaves *)
Lemma zeros_true_diag n (M : fm) k d : k <> 0%Z -> (forall i j, i <> j -> M i j = r0) -> zeros_k n k = inr d -> d = true_diag n n M k.
Proof. intros Hk HM. unfold zeros_k. destruct (Z.abs k <=? Z.of_nat n)%Z eqn:E; [|discriminate]. apply Z.leb_le in E.
  intros H; injection H as <-. rewrite rep_map. unfold true_diag. destruct (0 <=? k)%Z eqn:E2.
  - apply Z.leb_le in E2. replace (Nat.min n (n - Z.to_nat k)) with (n - Z.to_nat (Z.abs k))%nat by lia.
    apply map_ext_in. intros i _. symmetry. apply HM. lia.
  - apply Z.leb_gt in E2. replace (Nat.min (n - Z.to_nat (- k)) n) with (n - Z.to_nat (Z.abs k))%nat by lia.
    apply map_ext_in. intros i _. symmetry. apply HM. lia. Qed.
Lemma true_diag_0 n (M : fm) : true_diag n n M 0 = map (fun i => M i i) (seq 0 n).
Proof. unfold true_diag. cbn [Z.leb Z.compare Z.to_nat]. rewrite Nat.sub_0_r, Nat.min_id. apply map_ext. intros i. rewrite Nat.add_0_r. reflexivity. Qed.

(* ---------- generic rule *)
Lemma generic_agrees B al (e : op) k d : (1 <= B)%nat -> wf e = true -> Nat.eqb (fst (shape e)) (snd (shape e)) = true ->
  (0 <? fst (shape e))%nat = true -> generic_diag B al e k = inr d -> d = true_diag (fst (shape e)) (snd (shape e)) (den e) k.
Proof. intros HB Hwf Hsq Hpos. apply Nat.eqb_eq in Hsq. apply Nat.ltb_lt in Hpos. unfold generic_diag.
  assert (Hrun : (if Nat.eqb (fst (shape e)) (snd (shape e)) then
            match exact_diag B (fst (shape e)) (fun _ X => matmat e X) k with Some d0 => inr d0 | None => inl DValue end
          else inl DUnmodelled) = inr d -> d = true_diag (fst (shape e)) (snd (shape e)) (den e) k).
  { rewrite <- Hsq, Nat.eqb_refl. destruct (exact_diag B (fst (shape e)) (fun _ X => matmat e X) k) as [d0|] eqn:E; [|discriminate].
    intros H; injection H as <-.
    assert (Hs : shape e = (fst (shape e), fst (shape e))) by (destruct (shape e); cbn [fst snd] in *; congruence).
    destruct (exact_diag_correct e B (fst (shape e)) k d0 Hwf Hs HB ltac:(lia) E) as [Hd _]. rewrite <- Hsq at 2. exact Hd. }
  destruct al as [|tp tq]; [exact Hrun|]. destruct (auto_exact tp tq (fst (shape e)) (snd (shape e))); [exact Hrun|discriminate]. Qed.
End RP.
