(* C08: the structural diag rules and trace (C08_Rules.v) return the true diagonal / trace of the represented matrix
   whenever they return; Auto's threshold. *)
From Coq Require Import ZArith Arith Lia List Bool Ring.
From Core Require Import Base Kron Op OpProofs C08_Diag C08_Proofs C08_Rules.
Import ListNotations.

(* ---------- Auto: with the default tolerance 1e-6 the exact algorithm is chosen exactly below m*n = 10^11 *)
Theorem auto_exact_below m n : auto_exact 1 1000000 m n = true <-> (Z.of_nat m * Z.of_nat n < 100000000000)%Z.
Proof. unfold auto_exact. rewrite Z.ltb_lt. lia. Qed.
Theorem auto_exact_monotone tp tq m n m' n' : (0 <= tp)%Z -> (m' <= m)%nat -> (n' <= n)%nat ->
  auto_exact tp tq m n = true -> auto_exact tp tq m' n' = true.
Proof. unfold auto_exact. rewrite !Z.ltb_lt. intros Ht Hm Hn H. eapply Z.le_lt_trans; [|exact H].
  assert (0 <= tp * tp * 10)%Z by nia. assert (Z.of_nat m' * Z.of_nat n' <= Z.of_nat m * Z.of_nat n)%Z by nia. nia. Qed.

Section RP.
Context {R : Type} {RR : Ring R} {CR : CRing R}.
Add Ring Rring3 : Rth.
Open Scope R_scope.
Notation fm := (fm (R:=R)). Notation arr := (arr (R:=R)). Notation op := (op (R:=R)).

Definition sq (e : op) : bool := Nat.eqb (fst (shape e)) (snd (shape e)).
Definition is_struct (e : op) : bool :=
  match e with Dense _ | Ident _ | Diag _ _ | Scal _ _ | Sum _ | BDiag _ | Kron _ | KronSum _ => true | _ => false end.
(* operators on which the rules are claimed: Dense of any shape, sums of equal shapes, square blocks / factors,
   generic sub-operators well-formed (so that mm_den applies), square and non-empty.  (A KronSum INSIDE a generic
   operator is excluded through wf: Op.v has no product theorem for KronSum yet.) *)
Fixpoint dwf (df : dflags) (e : op) : bool :=
  match e with
  | Dense _ | Ident _ | Diag _ _ | Scal _ _ => true
  | Sum ms => negb (Nat.eqb (length ms) 0) && forallb (dwf df) ms && forallb (fun s => shp_eqb s (hd (0,0)%nat (map shape ms))) (map shape ms)
  | BDiag ms => forallb (fun mc => dwf df (fst mc) && (d_bd_refuse df || Nat.eqb (fst (shape (fst mc))) (snd (shape (fst mc))))) ms
  | Kron ms => forallb (fun m => dwf df m && (d_kron_refuse df || Nat.eqb (fst (shape m)) (snd (shape m))) && (0 <? fst (shape m))%nat) ms
  | KronSum ms => negb (Nat.eqb (length ms) 0) && forallb (fun m => dwf df m && Nat.eqb (fst (shape m)) (snd (shape m)) && (0 <? fst (shape m))%nat) ms
  | _ => wf e && Nat.eqb (fst (shape e)) (snd (shape e)) && (0 <? fst (shape e))%nat
  end.

(* ---------- list helpers *)
Lemma rep_map_gen {A} n (x : A) s : rep n x = map (fun _ => x) (seq s n).
Proof. revert s. induction n as [|n IH]; intros s; [reflexivity|]. cbn [rep seq map]. f_equal. apply IH. Qed.
Lemma rep_map {A} n (x : A) : rep n x = map (fun _ => x) (seq 0 n).
Proof. apply rep_map_gen. Qed.
Lemma true_diag_ext m n (A A' : fm) k : feq m n A A' -> true_diag m n A k = true_diag m n A' k.
Proof. intros H. unfold true_diag. destruct (0 <=? k)%Z eqn:E; apply map_ext_in; intros i Hi; apply in_seq in Hi; apply H; lia. Qed.
Lemma true_diag_len m n (A : fm) k : length (true_diag m n A k) = length (true_diag m n (fun _ _ => r0) k).
Proof. unfold true_diag. destruct (0 <=? k)%Z; rewrite !map_length; reflexivity. Qed.
Lemma map2_map (f : R -> R -> R) (g h : nat -> R) l : map2 f (map g l) (map h l) = map (fun i => f (g i) (h i)) l.
Proof. induction l; cbn [map map2]; congruence. Qed.
Lemma true_diag_madd m n (A A' : fm) k : map2 radd (true_diag m n A k) (true_diag m n A' k) = true_diag m n (madd A A') k.
Proof. unfold true_diag. destruct (0 <=? k)%Z; rewrite map2_map; reflexivity. Qed.
Lemma vadd_true_diag m n (A A' : fm) k : vadd (true_diag m n A k) (true_diag m n A' k) = Some (true_diag m n (madd A A') k).
Proof. unfold vadd. rewrite (true_diag_len m n A), (true_diag_len m n A'), Nat.eqb_refl, true_diag_madd. reflexivity. Qed.
Lemma lsum_map (f : nat -> R) n : lsum (map f (seq 0 n)) = sum n f.
Proof. unfold lsum. induction n as [|n IH]; [reflexivity|]. rewrite seq_S, map_app, fold_left_app, IH. reflexivity. Qed.

(* ---------- leaves *)
Lemma zeros_true_diag n (M : fm) k d : k <> 0%Z -> (forall i j, i <> j -> M i j = r0) -> zeros_k n k = inr d -> d = true_diag n n M k.
Proof. intros Hk HM. unfold zeros_k. destruct (Z.abs k <=? Z.of_nat n)%Z eqn:E; [|discriminate]. apply Z.leb_le in E.
  intros H; injection H as <-. rewrite rep_map. unfold true_diag. destruct (0 <=? k)%Z eqn:E2.
  - apply Z.leb_le in E2. replace (Nat.min n (n - Z.to_nat k)) with (n - Z.to_nat (Z.abs k))%nat by lia.
    apply map_ext_in. intros i _. symmetry. apply HM. lia.
  - apply Z.leb_gt in E2. replace (Nat.min (n - Z.to_nat (- k)) n) with (n - Z.to_nat (Z.abs k))%nat by lia.
    apply map_ext_in. intros i _. symmetry. apply HM. lia. Qed.
Lemma true_diag_0 n (M : fm) : true_diag n n M 0 = map (fun i => M i i) (seq 0 n).
Proof. unfold true_diag. cbn [Z.leb Z.compare Z.to_nat]. rewrite Nat.sub_0_r, Nat.min_id. apply map_ext. intros i. rewrite Nat.add_0_r. reflexivity. Qed.

(* ---------- generic rule *)
Lemma generic_agrees df B al (e : op) k d : (1 <= B)%nat -> wf e = true -> Nat.eqb (fst (shape e)) (snd (shape e)) = true ->
  (0 <? fst (shape e))%nat = true -> generic_diag df B al e k = inr d -> d = true_diag (fst (shape e)) (snd (shape e)) (den e) k.
Proof. intros HB Hwf Hsq Hpos. apply Nat.eqb_eq in Hsq. apply Nat.ltb_lt in Hpos. unfold generic_diag.
  assert (Hrun : (if Nat.eqb (fst (shape e)) (snd (shape e)) then
            match exact_diag (d_ragged_fixed df) B (fst (shape e)) (fun _ X => matmat e X) k with Some d0 => inr d0 | None => inl DValue end
          else inl DUnmodelled) = inr d -> d = true_diag (fst (shape e)) (snd (shape e)) (den e) k).
  { rewrite <- Hsq, Nat.eqb_refl. destruct (exact_diag (d_ragged_fixed df) B (fst (shape e)) (fun _ X => matmat e X) k) as [d0|] eqn:E; [|discriminate].
    intros H; injection H as <-.
    assert (Hs : shape e = (fst (shape e), fst (shape e))) by (destruct (shape e); cbn [fst snd] in *; congruence).
    destruct (exact_diag_correct (d_ragged_fixed df) e B (fst (shape e)) k d0 Hwf Hs HB ltac:(lia) E) as [Hd _]. exact Hd. }
  destruct al as [|tp tq|]; [exact Hrun| |].
  - destruct (auto_exact tp tq (fst (shape e)) (snd (shape e))); [exact Hrun|]. destruct (tp * 1000 <=? tq)%Z; discriminate.
  - destruct (auto_exact 1 1000000 (fst (shape e)) (snd (shape e))); [exact Hrun|discriminate]. Qed.

(* the generic rule completely: which of {true diagonal, ValueError, AssertionError, stochastic estimate} comes out is decided
   by the size, the offset and the algorithm object alone (this is what the large-size correspondence stream compares) *)
Definition generic_outcome (df : dflags) (B n : nat) (al : alg) (k : Z) (dtrue : list R) : derr + list R :=
  let run := if (negb (d_ragged_fixed df) && ragged B n k)%bool then inl DValue else inr dtrue in
  match al with
  | AExact => run
  | AAuto tp tq => if auto_exact tp tq n n then run else if (tp * 1000 <=? tq)%Z then inl DAssert else inl DStoch
  | ADefault => if auto_exact 1 1000000 n n then run else inl DStoch
  end.
Theorem generic_diag_cases df B al (e : op) n k : (1 <= B)%nat -> (1 <= n)%nat -> wf e = true -> shape e = (n, n) ->
  generic_diag df B al e k = generic_outcome df B n al k (true_diag n n (den e) k).
Proof. intros HB Hn Hwf Hs. unfold generic_diag, generic_outcome. rewrite Hs. cbn [fst snd]. rewrite Nat.eqb_refl.
  rewrite (exact_diag_cases (d_ragged_fixed df) B n k (den e) _ (col_oracle_matmat e n Hwf Hs) HB Hn).
  destruct (negb (d_ragged_fixed df) && ragged B n k)%bool; reflexivity. Qed.

(* ---------- Sum *)
Definition sum_go (D : op -> derr + list R) : list op -> option (list R) -> derr + list R :=
  fix go (l : list op) (acc : option (list R)) {struct l} : derr + list R :=
  match l with
  | [] => match acc with Some a => inr a | None => inr [] end
  | m :: l' => match D m with
               | inl er => inl er
               | inr d => match acc with
                          | None => go l' (Some d)
                          | Some a => match vadd a d with Some s => go l' (Some s) | None => inl DValue end
                          end
               end
  end.
Lemma diag_rule_Sum df B al ms k : diag_rule df B al (Sum ms) k = sum_go (fun m => diag_rule df B al m k) ms None.
Proof. reflexivity. Qed.
Lemma sum_go_spec (D : op -> derr + list R) mm nn k l : 
  (forall m, In m l -> shape m = (mm, nn) /\ forall d, D m = inr d -> d = true_diag mm nn (den m) k) ->
  forall (A : fm) d, sum_go D l (Some (true_diag mm nn A k)) = inr d ->
  d = true_diag mm nn (fold_left (fun acc M => madd acc M) (map den l) A) k.
Proof. induction l as [|m l IH]; intros Hl A d; cbn [map fold_left]; (change (sum_go D) with (fix go (l : list op) (acc : option (list R)) {struct l} : derr + list R := match l with | [] => match acc with Some a => inr a | None => inr [] end | m :: l' => match D m with | inl er => inl er | inr d => match acc with | None => go l' (Some d) | Some a => match vadd a d with Some s => go l' (Some s) | None => inl DValue end end end end)); cbv beta iota; fold (sum_go D).
  - intros H; injection H as <-. reflexivity.
  - destruct (Hl m (or_introl eq_refl)) as [_ Hm]. destruct (D m) as [er|dm]; [discriminate|]. rewrite (Hm dm eq_refl).
    rewrite vadd_true_diag. apply IH. intros m' Hm'. apply Hl. right. exact Hm'. Qed.
Lemma fold_madd_assoc (l : list fm) (A : fm) i j :
  fold_left (fun acc M => madd acc M) l A i j = madd A (fold_right (fun M acc => madd M acc) zerom l) i j.
Proof. revert A. induction l as [|M l IH]; intros A; cbn [fold_left fold_right].
  - unfold madd, zerom. ring.
  - rewrite IH. unfold madd. ring. Qed.

(* ---------- BlockDiag *)
Lemma map_seq_shift {A} (f : nat -> A) s n : map f (seq s n) = map (fun j => f (s + j)%nat) (seq 0 n).
Proof. revert s. induction n as [|n IH]; intros s; [reflexivity|]. cbn [seq map]. rewrite Nat.add_0_r. f_equal.
  rewrite IH, <- seq_shift, map_map. apply map_ext. intros j. f_equal. lia. Qed.
Lemma map_rep {A C} (f : A -> C) mu x : map f (rep mu x) = rep mu (f x).
Proof. induction mu; cbn [rep map]; congruence. Qed.
Definition diagblk (b : blk) : list R := map (fun i => snd b i i) (seq 0 (fst (fst b))).
Lemma bd_diag (L : list blk) : (forall b, In b L -> fst (fst b) = snd (fst b)) ->
  map (fun i => bd L i i) (seq 0 (rowsB L)) = concat (map diagblk L) /\ rowsB L = colsB L.
Proof. induction L as [|[[r c] M] L IH]; intros Hsq; [split; reflexivity|].
  assert (Hc : r = c) by (apply (Hsq ((r, c), M)); left; reflexivity). subst c.
  destruct IH as [IH1 IH2]; [intros b Hb; apply Hsq; right; exact Hb|].
  cbn [rowsB colsB fold_right fst snd map concat]. fold (rowsB L) (colsB L). split; [|congruence].
  rewrite seq_app, map_app. f_equal.
  - unfold diagblk. cbn [fst snd]. apply map_ext_in. intros i Hi. apply in_seq in Hi. cbn [bd fst snd].
    replace (i <? r)%nat with true by (symmetry; apply Nat.ltb_lt; lia). reflexivity.
  - cbn [plus]. rewrite map_seq_shift, <- IH1. apply map_ext. intros j. cbn [bd fst snd].
    replace (r + j <? r)%nat with false by (symmetry; apply Nat.ltb_ge; lia). f_equal; lia. Qed.
Definition bd_go (D : op -> derr + list R) : list (op * nat) -> derr + list R :=
  fix go (l : list (op * nat)) {struct l} : derr + list R :=
  match l with
  | [] => inr []
  | (m, mu) :: l' => match D m with
                     | inl er => inl er
                     | inr d => match go l' with inl er => inl er | inr rest => inr (concat (rep mu d) ++ rest) end
                     end
  end.
Lemma diag_rule_BDiag df B al ms k : diag_rule df B al (BDiag ms) k =
  if (k =? 0)%Z then (if d_bd_refuse df && negb (forallb (fun mc => sqb (fst mc)) ms) then inl DAssert else bd_go (fun m => diag_rule df B al m k) ms) else inl DAssert.
Proof. reflexivity. Qed.
Lemma bd_go_spec (D : op -> derr + list R) l d :
  (forall mc, In mc l -> fst (shape (fst mc)) = snd (shape (fst mc)) /\
      forall d, D (fst mc) = inr d -> d = true_diag (fst (shape (fst mc))) (snd (shape (fst mc))) (den (fst mc)) 0) ->
  bd_go D l = inr d -> d = concat (map diagblk (blocks l)).
Proof. revert d. induction l as [|[m mu] l IH]; intros d Hl.
  - intros H; injection H as <-. reflexivity.
  - change (bd_go D ((m, mu) :: l)) with (match D m with inl er => inl er | inr d0 => match bd_go D l with inl er => inl er | inr rest => inr (concat (rep mu d0) ++ rest) end end).
    destruct (Hl (m, mu) (or_introl eq_refl)) as [Hsq Hm]. cbn [fst] in Hsq, Hm.
    destruct (D m) as [er|dm]; [discriminate|]. destruct (bd_go D l) as [er|rest] eqn:E; [discriminate|].
    intros H; injection H as <-.
    assert (Hrest : rest = concat (map diagblk (blocks l))) by (apply IH; [intros mc Hmc; apply Hl; right; exact Hmc|reflexivity]).
    rewrite Hrest. unfold blocks. cbn [map concat fst snd]. rewrite map_app, concat_app. f_equal. rewrite map_rep. do 2 f_equal.
    unfold diagblk. cbn [fst snd]. rewrite (Hm dm eq_refl), <- Hsq. apply true_diag_0. Qed.

(* ---------- Kronecker *)
Lemma flat_map_seq (f : R -> R -> R) (g h : nat -> R) a b : (0 < b)%nat ->
  flat_map (fun x => map (fun y => f x y) (map h (seq 0 b))) (map g (seq 0 a))
  = map (fun t => f (g (t / b)%nat) (h (t mod b)%nat)) (seq 0 (a * b)).
Proof. intros Hb. induction a as [|a IH]; [reflexivity|].
  rewrite seq_S, map_app, flat_map_app, IH. cbn [plus map flat_map]. rewrite app_nil_r.
  replace (S a * b)%nat with (a * b + b)%nat by lia. rewrite seq_app, map_app. f_equal. cbn [plus].
  rewrite map_map, (map_seq_shift _ (a * b) b). apply map_ext_in. intros q Hq. apply in_seq in Hq.
  rewrite (Nat.add_comm (a * b) q), Nat.div_add, Nat.mod_add, Nat.div_small, Nat.mod_small by lia. reflexivity. Qed.
Definition kr_go (D : op -> derr + list R) : list op -> derr + list (list R) :=
  fix go (l : list op) {struct l} : derr + list (list R) :=
  match l with
  | [] => inr []
  | m :: l' => match D m with
               | inl er => inl er
               | inr d => match go l' with inl er => inl er | inr ds => inr (d :: ds) end
               end
  end.
Lemma diag_rule_Kron df B al ms k : diag_rule df B al (Kron ms) k =
  if (k =? 0)%Z then if d_kron_refuse df && negb (forallb sqb ms) then inl DAssert else match kr_go (fun m => diag_rule df B al m k) ms with inl er => inl er | inr ds => inr (outer rmul r1 ds) end
  else inl DAssert.
Proof. reflexivity. Qed.
Lemma kr_go_spec (D : op -> derr + list R) l ds :
  (forall m, In m l -> fst (shape m) = snd (shape m) /\ (0 < fst (shape m))%nat /\
      forall d, D m = inr d -> d = true_diag (fst (shape m)) (snd (shape m)) (den m) 0) ->
  kr_go D l = inr ds ->
  let K := kronR (map facof l) in
  fr K = fc K /\ (0 < fr K)%nat /\ outer rmul r1 ds = map (fun t => fmx K t t) (seq 0 (fr K)).
Proof. revert ds. induction l as [|m l IH]; intros ds Hl.
  - intros H; injection H as <-. cbv zeta. cbn. repeat split; lia.
  - change (kr_go D (m :: l)) with (match D m with inl er => inl er | inr d => match kr_go D l with inl er => inl er | inr ds0 => inr (d :: ds0) end end).
    destruct (Hl m (or_introl eq_refl)) as (Hsq & Hpos & Hm).
    destruct (D m) as [er|dm]; [discriminate|]. destruct (kr_go D l) as [er|ds0] eqn:E; [discriminate|].
    intros H; injection H as <-. destruct (IH ds0) as (I1 & I2 & I3); [intros m' Hm'; apply Hl; right; exact Hm'|reflexivity|].
    cbv zeta in *. cbn [map kronR kron2 fr fc fmx facof]. set (K' := kronR (map facof l)) in *.
    split; [rewrite Hsq, I1; reflexivity|]. split; [apply Nat.mul_pos_pos; assumption|].
    unfold outer. cbn [fold_right]. fold (outer rmul r1 ds0). rewrite I3, (Hm dm eq_refl), <- Hsq, true_diag_0.
    rewrite flat_map_seq by exact I2. apply map_ext. intros t. rewrite <- I1. reflexivity. Qed.

(* ---------- KronSum: den is the left fold of binary Kronecker sums, the rule is the right-nested outer sum *)
Definition dg (F : fac) : list R := map (fun t => fmx F t t) (seq 0 (fr F)).
Lemma dg_ksum2 (A Bf : fac) : fr Bf = fc Bf -> (0 < fr Bf)%nat ->
  dg (ksum2 A Bf) = flat_map (fun x => map (fun y => x + y) (dg Bf)) (dg A).
Proof. intros Hsq Hpos. unfold dg. rewrite flat_map_seq by exact Hpos. cbn [ksum2 fr fc fmx]. apply map_ext. intros t.
  rewrite <- Hsq. rewrite !delta_eq by reflexivity. ring. Qed.
Lemma ksumR_dg (fs : list fac) : (forall g, In g fs -> fr g = fc g /\ (0 < fr g)%nat) ->
  fr (ksumR fs) = fc (ksumR fs) /\ (0 < fr (ksumR fs))%nat /\ fr (ksumR fs) = fr (kronR fs) /\ fc (ksumR fs) = fc (kronR fs) /\
  dg (ksumR fs) = outer radd r0 (map dg fs).
Proof. induction fs as [|g fs IH]; intros Hfs.
  - cbn. repeat split; lia.
  - destruct (Hfs g (or_introl eq_refl)) as [Gsq Gpos].
    destruct IH as (I1 & I2 & I3 & I4 & I5); [intros g' Hg'; apply Hfs; right; exact Hg'|].
    cbn [ksumR kronR map]. split; [cbn [ksum2 fr fc]; rewrite Gsq, I1; reflexivity|].
    split; [cbn [ksum2 fr]; apply Nat.mul_pos_pos; assumption|].
    split; [cbn [ksum2 kron2 fr]; rewrite I3; reflexivity|]. split; [cbn [ksum2 kron2 fc]; rewrite I4; reflexivity|].
    rewrite dg_ksum2 by assumption. rewrite I5. reflexivity. Qed.
Lemma diag_rule_KronSum df B al ms k : diag_rule df B al (KronSum ms) k =
  if (k =? 0)%Z then match kr_go (fun m => diag_rule df B al m k) ms with inl er => inl er | inr ds => inr (outer radd r0 ds) end
  else inl DAssert.
Proof. reflexivity. Qed.
Lemma kr_go_dg (D : op -> derr + list R) l ds :
  (forall m, In m l -> fst (shape m) = snd (shape m) /\
      forall d, D m = inr d -> d = true_diag (fst (shape m)) (snd (shape m)) (den m) 0) ->
  kr_go D l = inr ds -> ds = map dg (map facof l).
Proof. revert ds. induction l as [|m l IH]; intros ds Hl.
  - intros H; injection H as <-. reflexivity.
  - change (kr_go D (m :: l)) with (match D m with inl er => inl er | inr d => match kr_go D l with inl er => inl er | inr ds0 => inr (d :: ds0) end end).
    destruct (Hl m (or_introl eq_refl)) as (Hsq & Hm).
    destruct (D m) as [er|dm]; [discriminate|]. destruct (kr_go D l) as [er|ds0] eqn:E; [discriminate|].
    intros H; injection H as <-. cbn [map]. f_equal.
    + rewrite (Hm dm eq_refl), <- Hsq, true_diag_0. reflexivity.
    + apply IH; [intros m' Hm'; apply Hl; right; exact Hm'|reflexivity]. Qed.

(* ---------- leaves *)
Lemma ident_diag n k d : (if (k =? 0)%Z then inr (rep n r1) else zeros_k n k) = inr d -> d = true_diag n n (eye (R:=R)) k.
Proof. destruct (k =? 0)%Z eqn:E.
  - apply Z.eqb_eq in E. subst k. intros H; injection H as <-. rewrite rep_map, true_diag_0. apply map_ext. intros i. unfold eye. rewrite delta_eq; reflexivity.
  - apply Z.eqb_neq in E. apply zeros_true_diag; [exact E|]. intros i j Hij. unfold eye. apply delta_ne. exact Hij. Qed.
Lemma true_diag_map (f : R -> R) m n (A : fm) k : map f (true_diag m n A k) = true_diag m n (fun i j => f (A i j)) k.
Proof. unfold true_diag. destruct (0 <=? k)%Z; rewrite map_map; reflexivity. Qed.
Lemma in_rep {A} mu (x y : A) : In x (rep mu y) -> x = y.
Proof. induction mu; cbn [rep In]; [tauto|]. intros [H|H]; auto. Qed.

(* ===== the structural rules return the diagonal of the represented matrix (or refuse) ===== *)
Theorem diag_rule_agrees df B al : (1 <= B)%nat -> forall (e : op) k d, dwf df e = true -> diag_rule df B al e k = inr d ->
  d = true_diag (fst (shape e)) (snd (shape e)) (den e) k.
Proof.
  intros HB.
  assert (G : forall e : op, dwf df e = (wf e && Nat.eqb (fst (shape e)) (snd (shape e)) && (0 <? fst (shape e))%nat) ->
              (forall k, diag_rule df B al e k = generic_diag df B al e k) ->
              forall k d, dwf df e = true -> diag_rule df B al e k = inr d -> d = true_diag (fst (shape e)) (snd (shape e)) (den e) k).
  { intros e E1 E2 k d Hd Hr. rewrite E1 in Hd. apply andb_prop in Hd as [Hd H3]. apply andb_prop in Hd as [H1 H2].
    rewrite E2 in Hr. eapply generic_agrees; eauto. }
  apply (op_ind2 (fun e => forall k d, dwf df e = true -> diag_rule df B al e k = inr d -> d = true_diag (fst (shape e)) (snd (shape e)) (den e) k)).
  - (* Dense *) intros a k d _ H. cbn [diag_rule] in H. injection H as <-. reflexivity.
  - (* Diag *) intros n d0 k d _ H. cbn [diag_rule shape den fst snd] in *. destruct (k =? 0)%Z eqn:E.
    + apply Z.eqb_eq in E. subst k. injection H as <-. rewrite true_diag_0. apply map_ext. intros i. rewrite delta_eq by reflexivity. ring.
    + apply Z.eqb_neq in E. apply zeros_true_diag; [exact E| |exact H]. intros i j Hij. rewrite delta_ne by exact Hij. ring.
  - (* Ident *) intros n k d _ H. cbn [diag_rule shape den fst snd] in *. apply ident_diag. exact H.
  - (* Scal *) intros c n k d _ H. cbn [diag_rule shape den fst snd] in *.
    destruct (if (k =? 0)%Z then inr (rep n r1) else zeros_k n k) as [er|d0] eqn:E; [discriminate|]. injection H as <-.
    rewrite (ident_diag n k d0 E), true_diag_map. reflexivity.
  - (* Sum *) intros ms HF k d Hd H. cbn [dwf] in Hd. apply andb_prop in Hd as [Hd Hsh]. apply andb_prop in Hd as [Hne Hds].
    rewrite diag_rule_Sum in H. destruct ms as [|m l]; [discriminate Hne|].
    set (s0 := hd (0,0)%nat (map shape (m :: l))) in *.
    assert (Hall : forall m', In m' (m :: l) -> shape m' = (fst s0, snd s0) /\ dwf df m' = true).
    { intros m' Hm'. rewrite forallb_forall in Hds, Hsh. split; [|apply Hds; exact Hm'].
      specialize (Hsh (shape m') (in_map shape _ _ Hm')). unfold shp_eqb in Hsh. apply andb_prop in Hsh as [A B']. apply Nat.eqb_eq in A, B'.
      destruct (shape m'); cbn [fst snd] in *; congruence. }
    rewrite Forall_forall in HF.
    change (sum_go (fun m0 => diag_rule df B al m0 k) (m :: l) None)
      with (match diag_rule df B al m k with inl er => inl er | inr d1 => sum_go (fun m0 => diag_rule df B al m0 k) l (Some d1) end) in H.
    destruct (diag_rule df B al m k) as [er|d1] eqn:E1; [discriminate|].
    destruct (Hall m (or_introl eq_refl)) as [Sm Dm]. pose proof (HF m (or_introl eq_refl) k d1 Dm E1) as Hd1. rewrite Sm in Hd1. cbn [fst snd] in Hd1. subst d1.
    apply (sum_go_spec _ (fst s0) (snd s0) k l) in H.
    + cbn [shape]. fold s0. rewrite H. apply true_diag_ext. intros i j _ _. rewrite fold_madd_assoc. reflexivity.
    + intros m' Hm'. destruct (Hall m' (or_intror Hm')) as [Sm' Dm']. split; [exact Sm'|]. intros d' Hd'.
      pose proof (HF m' (or_intror Hm') k d' Dm' Hd') as Hx. rewrite Sm' in Hx. exact Hx.
  - (* Prod *) intros ms _. apply G; reflexivity.
  - (* Kron *) intros ms HF k d Hd H. cbn [dwf] in Hd. rewrite diag_rule_Kron in H. destruct (k =? 0)%Z eqn:E; [|discriminate]. apply Z.eqb_eq in E. subst k.
    destruct (d_kron_refuse df && negb (forallb sqb ms)) eqn:Eref; [discriminate|].
    destruct (kr_go (fun m => diag_rule df B al m 0) ms) as [er|ds] eqn:Eg; [discriminate|]. injection H as <-.
    rewrite Forall_forall in HF. rewrite forallb_forall in Hd.
    assert (Hsqm : forall m, In m ms -> Nat.eqb (fst (shape m)) (snd (shape m)) = true).
    { intros m Hm. specialize (Hd m Hm). apply andb_prop in Hd as [Hd _]. apply andb_prop in Hd as [_ H2]. apply orb_prop in H2 as [H2|H2]; [|exact H2].
      rewrite H2 in Eref. cbn [andb] in Eref. apply negb_false_iff in Eref. rewrite forallb_forall in Eref. apply (Eref m Hm). }
    destruct (kr_go_spec (fun m => diag_rule df B al m 0) ms ds) as (K1 & K2 & K3); [|exact Eg|].
    { intros m Hm. pose proof (Hsqm m Hm) as H2. specialize (Hd m Hm). apply andb_prop in Hd as [Hd H3]. apply andb_prop in Hd as [H1 _].
      apply Nat.eqb_eq in H2. apply Nat.ltb_lt in H3. split; [exact H2|]. split; [exact H3|]. intros d Hdm. apply (HF m Hm 0%Z d H1 Hdm). }
    cbv zeta in K1, K2, K3. cbn [shape den]. rewrite (kshape_kronR ms). cbn [fst snd]. fold (facof (R:=R)).
    rewrite <- K1, true_diag_0. exact K3.
  - (* BDiag *) intros ms HF k d Hd H. cbn [dwf] in Hd. rewrite diag_rule_BDiag in H. destruct (k =? 0)%Z eqn:E; [|discriminate]. apply Z.eqb_eq in E. subst k.
    destruct (d_bd_refuse df && negb (forallb (fun mc => sqb (fst mc)) ms)) eqn:Eref; [discriminate|].
    rewrite Forall_forall in HF. rewrite forallb_forall in Hd.
    assert (Hsqm : forall mc, In mc ms -> fst (shape (fst mc)) = snd (shape (fst mc))).
    { intros mc Hmc. apply Nat.eqb_eq. specialize (Hd mc Hmc). apply andb_prop in Hd as [_ H2]. apply orb_prop in H2 as [H2|H2]; [|exact H2].
      rewrite H2 in Eref. cbn [andb] in Eref. apply negb_false_iff in Eref. rewrite forallb_forall in Eref. apply (Eref mc Hmc). }
    apply bd_go_spec in H.
    + assert (Hsq : forall b, In b (blocks ms) -> fst (fst b) = snd (fst b)).
      { intros b Hb. unfold blocks in Hb. apply in_concat in Hb as (lb & Hlb & Hb). apply in_map_iff in Hlb as (mc & <- & Hmc).
        apply in_rep in Hb. subst b. cbn [fst]. exact (Hsqm mc Hmc). }
      destruct (bd_diag (blocks ms) Hsq) as [D1 D2].
      cbn [shape den]. rewrite (bshape_blocks ms). cbn [fst snd]. fold (blocks ms). rewrite <- D2, true_diag_0, D1. exact H.
    + intros mc Hmc. pose proof (Hsqm mc Hmc) as H2. specialize (Hd mc Hmc). apply andb_prop in Hd as [H1 _]. split; [exact H2|].
      intros d' Hd'. apply (HF mc Hmc 0%Z d' H1 Hd').
  - (* Transp *) intros a _. apply G; reflexivity.
  - (* Adj *) intros a _. apply G; reflexivity.
  - (* Gen *) intros a. apply G; reflexivity.
  - (* Perm *) intros n p. apply G; reflexivity.
  - (* Tridiag *) intros n al0 be ga. apply G; reflexivity.
  - (* House *) intros n v beta. apply G; reflexivity.
  - (* Sparse *) intros m n ent. apply G; reflexivity.
  - (* KronSum *) intros ms HF k d Hd H. cbn [dwf] in Hd. apply andb_prop in Hd as [Hne Hd].
    rewrite diag_rule_KronSum in H. destruct (k =? 0)%Z eqn:E; [|discriminate]. apply Z.eqb_eq in E. subst k.
    destruct (kr_go (fun m => diag_rule df B al m 0) ms) as [er|ds] eqn:Eg; [discriminate|]. injection H as <-.
    rewrite Forall_forall in HF. rewrite forallb_forall in Hd.
    assert (Hall : forall m, In m ms -> dwf df m = true /\ fst (shape m) = snd (shape m) /\ (0 < fst (shape m))%nat).
    { intros m Hm. specialize (Hd m Hm). apply andb_prop in Hd as [Hd H3]. apply andb_prop in Hd as [H1 H2].
      apply Nat.eqb_eq in H2. apply Nat.ltb_lt in H3. auto. }
    assert (Hds : ds = map dg (map facof ms)).
    { apply (kr_go_dg (fun m => diag_rule df B al m 0)); [|exact Eg]. intros m Hm. destruct (Hall m Hm) as (H1 & H2 & H3).
      split; [exact H2|]. intros d Hdm. apply (HF m Hm 0%Z d H1 Hdm). }
    rewrite Hds. clear Hds Eg.
    cbn [shape den]. change (map (fun m0 : op => mkfac (fst (shape m0)) (snd (shape m0)) (den m0)) ms) with (map facof ms).
    destruct (ksumR_dg (map facof ms)) as (F1 & F2 & F3 & F4 & F5).
    { intros g Hg. apply in_map_iff in Hg as (m' & <- & Hm'). cbn [facof fr fc]. destruct (Hall m' Hm') as (_ & H2 & H3). split; assumption. }
    rewrite (kshape_kronR ms). cbn [fst snd]. rewrite <- F3, <- F4, <- F1, true_diag_0. symmetry. exact F5.
  - (* Sliced *) intros a rs cs _. apply G; reflexivity.
  - (* ConcatV *) intros ms _. apply G; reflexivity.
Qed.

(* the repaired rules refuse non-square factors / blocks *)
Lemma kron_refuses_nonsquare df B al ms : d_kron_refuse df = true -> forallb sqb ms = false -> diag_rule df B al (Kron ms) 0 = inl DAssert.
Proof. intros H1 H2. rewrite diag_rule_Kron. cbn [Z.eqb]. rewrite H1, H2. reflexivity. Qed.
Lemma bdiag_refuses_nonsquare df B al ms : d_bd_refuse df = true -> forallb (fun mc => sqb (fst mc)) ms = false -> diag_rule df B al (BDiag ms) 0 = inl DAssert.
Proof. intros H1 H2. rewrite diag_rule_BDiag. cbn [Z.eqb]. rewrite H1, H2. reflexivity. Qed.

(* ---------- trace *)
Fixpoint tdwf (df : dflags) (e : op) : bool :=
  match e with
  | Kron ms => forallb (fun m => tdwf df m && Nat.eqb (fst (shape m)) (snd (shape m)) && (0 <? fst (shape m))%nat) ms
  | _ => dwf df e && Nat.eqb (fst (shape e)) (snd (shape e))
  end.
Lemma generic_trace_correct df B al (e : op) t : (1 <= B)%nat -> dwf df e = true -> generic_trace df B al e = inr t ->
  t = true_trace (fst (shape e)) (den e).
Proof. intros HB Hd. unfold generic_trace. destruct (Nat.eqb_spec (fst (shape e)) (snd (shape e))) as [Hsq|]; [|discriminate].
  destruct (diag_rule df B al e 0) as [er|d] eqn:E; [discriminate|]. intros H; injection H as <-.
  rewrite (diag_rule_agrees df B al HB e 0%Z d Hd E), <- Hsq, true_diag_0, lsum_map. reflexivity. Qed.
Definition tr_go (D : op -> derr + R) : list op -> derr + R :=
  fix go (l : list op) {struct l} : derr + R :=
  match l with
  | [] => inr r1
  | m :: l' => match D m with
               | inl er => inl er
               | inr t => match go l' with inl er => inl er | inr p => inr (t * p) end
               end
  end.
Lemma trace_rule_Kron df B al ms : trace_rule df B al (Kron ms) = tr_go (fun m => trace_rule df B al m) ms.
Proof. reflexivity. Qed.
Lemma trace_kron2 (A K' : fac) : fr A = fc A -> fr K' = fc K' -> (0 < fr K')%nat ->
  true_trace (fr (kron2 A K')) (fmx (kron2 A K')) = true_trace (fr A) (fmx A) * true_trace (fr K') (fmx K').
Proof. intros HA HK Hpos. unfold true_trace. cbn [kron2 fr fc fmx]. rewrite sum_prod. rewrite <- sum_mul_r. apply sum_ext. intros i Hi.
  rewrite <- sum_mul_l. apply sum_ext. intros j Hj. rewrite <- HK.
  rewrite (Nat.add_comm (i * fr K') j), Nat.div_add, Nat.mod_add, Nat.div_small, Nat.mod_small by lia. reflexivity. Qed.
Lemma tr_go_spec (D : op -> derr + R) l t :
  (forall m, In m l -> fst (shape m) = snd (shape m) /\ (0 < fst (shape m))%nat /\
      forall t', D m = inr t' -> t' = true_trace (fst (shape m)) (den m)) ->
  tr_go D l = inr t ->
  let K := kronR (map facof l) in fr K = fc K /\ (0 < fr K)%nat /\ t = true_trace (fr K) (fmx K).
Proof. revert t. induction l as [|m l IH]; intros t Hl.
  - intros H; injection H as <-. cbv zeta. cbn. unfold true_trace. cbn. repeat split; try lia. ring.
  - change (tr_go D (m :: l)) with (match D m with inl er => inl er | inr t0 => match tr_go D l with inl er => inl er | inr p => inr (t0 * p) end end).
    destruct (Hl m (or_introl eq_refl)) as (Hsq & Hpos & Hm).
    destruct (D m) as [er|tm]; [discriminate|]. destruct (tr_go D l) as [er|p] eqn:E; [discriminate|].
    intros H; injection H as <-. destruct (IH p) as (I1 & I2 & I3); [intros m' Hm'; apply Hl; right; exact Hm'|reflexivity|].
    cbv zeta in *. cbn [map kronR]. set (K' := kronR (map facof l)) in *.
    split; [cbn [kron2 fr fc facof]; rewrite Hsq, I1; reflexivity|]. split; [cbn [kron2 fr facof]; apply Nat.mul_pos_pos; assumption|].
    rewrite trace_kron2; [|cbn [facof fr fc]; exact Hsq|exact I1|exact I2]. rewrite I3, (Hm tm eq_refl). reflexivity. Qed.

Theorem trace_correct df B al : (1 <= B)%nat -> forall (e : op) t, tdwf df e = true -> trace_rule df B al e = inr t ->
  t = true_trace (fst (shape e)) (den e).
Proof.
  intros HB.
  assert (G : forall e : op, tdwf df e = (dwf df e && Nat.eqb (fst (shape e)) (snd (shape e))) -> trace_rule df B al e = generic_trace df B al e ->
              forall t, tdwf df e = true -> trace_rule df B al e = inr t -> t = true_trace (fst (shape e)) (den e)).
  { intros e E1 E2 t Ht Hr. rewrite E1 in Ht. apply andb_prop in Ht as [H1 _]. rewrite E2 in Hr. eapply generic_trace_correct; eauto. }
  apply (op_ind2 (fun e => forall t, tdwf df e = true -> trace_rule df B al e = inr t -> t = true_trace (fst (shape e)) (den e)));
    try (intros; eapply G; eauto; reflexivity).
  (* Kron *) intros ms HF t Ht H. cbn [tdwf] in Ht. rewrite trace_rule_Kron in H.
  rewrite Forall_forall in HF. rewrite forallb_forall in Ht.
  destruct (tr_go_spec (fun m => trace_rule df B al m) ms t) as (K1 & K2 & K3); [|exact H|].
  { intros m Hm. specialize (Ht m Hm). apply andb_prop in Ht as [Ht H3]. apply andb_prop in Ht as [H1 H2].
    apply Nat.eqb_eq in H2. apply Nat.ltb_lt in H3. split; [exact H2|]. split; [exact H3|]. intros t' Ht'. apply (HF m Hm t' H1 Ht'). }
  cbv zeta in K1, K2, K3. cbn [shape den]. rewrite (kshape_kronR ms). cbn [fst]. exact K3.
Qed.
End RP.
