(* C10: model of cola.linalg.eig (cola/linalg/eig/eigs.py) and get_slice (decompositions.py:212-224).
   LAPACK-backed calls (eigh, eig, the Krylov eigen-routines lanczos_eigs/arnoldi_eigs, lobpcg) are ORACLES: their
   outputs (w, V) enter as data; the rules of eigs.py are "oracle, then slice".  Structural rules (Identity, Diagonal,
   Triangular) are computed.  Scalars: any Field; the ordering used by argsort is a parameter [leb]. *)
From Coq Require Import ZArith Arith Lia List Ring ArithRing PeanoNat Bool.
From Core Require Import Base FieldBase PySlice C09_MatAlg.
Import ListNotations.

(* ---------- get_slice (pure index computation) ---------- *)
Inductive which := LM | SM.
(* get_slice(num, which): num == -1 raises ValueError; SM -> slice(0, num); LM -> slice(-num, None) *)
Definition get_slice (k : Z) (w : which) : option pslice :=
  if Z.eqb k (-1) then None
  else Some (match w with SM => mkslice (Some 0%Z) (Some k) None | LM => mkslice (Some (- k)%Z) None None end).
(* positions (into an array of length n) selected by arr[get_slice(k, which)] *)
Definition sel (k : Z) (w : which) (n : nat) : option (list nat) :=
  match get_slice k w with None => None | Some s => indices s n end.

(* Auto rule of eig (eigs.py:80-101) *)
Inductive ealg := APower | AEigh | AEig | ALanczos | AArnoldi | ALobpcg.
Definition auto_alg (sa small : bool) (k : Z) (w : which) : ealg :=
  if Z.eqb k 1 && (match w with LM => true | SM => false end) then APower
  else if sa && small then AEigh
  else if negb sa && small then AEig
  else if sa then ALanczos else AArnoldi.

Section Model.
Context {R : Type} {RR : Ring R} {FF : Field R}.
Open Scope R_scope.
Notation fm := (fm (R:=R)).

(* result of eig: number of returned pairs, values, vectors (rows x count) *)
Record eout := mkeout { ek : nat; ew : nat -> R; eV : fm }.
(* fancy indexing  w[idx], V[:, idx] *)
Definition take (idx : list nat) (o : eout) : eout :=
  mkeout (length idx) (fun j => ew o (nth j idx 0%nat)) (fun i j => eV o i (nth j idx 0%nat)).
(* eig_vals[eig_slice], eig_vecs[:, eig_slice] *)
Definition slice_out (k : Z) (w : which) (o : eout) : option eout :=
  match sel k w (ek o) with None => None | Some idx => Some (take idx o) end.

(* dense / Krylov rules: the oracle's (w, V) with m columns, then the slice.
   Eigh: LAPACK returns ascending algebraic order; Eig: LAPACK order (no order guaranteed);
   Lanczos: lanczos_eigs sorts ascending; Arnoldi: order of eig(H); LOBPCG: as returned. *)
Definition eig_oracle (m : nat) (w : nat -> R) (V : fm) (k : Z) (wh : which) : option eout :=
  slice_out k wh (mkeout m w V).

(* ---- argsort: stable insertion sort of positions by key ---- *)
Variable leb : R -> R -> bool.
Fixpoint ins (d : nat -> R) (x : nat) (l : list nat) : list nat :=
  match l with [] => [x] | y :: r => if leb (d x) (d y) then x :: y :: r else y :: ins d x r end.
Definition argsort (n : nat) (d : nat -> R) : list nat := fold_right (ins d) [] (seq 0 n).

(* repaired dense / Krylov rules: the oracle's pairs are first put in ascending order of [leb] (argsort of the magnitudes),
   then sliced - so that 'LM' / 'SM' mean largest / smallest for that order *)
Definition eig_sorted (m : nat) (w : nat -> R) (V : fm) (k : Z) (wh : which) : option eout :=
  slice_out k wh (take (argsort m w) (mkeout m w V)).
(* the same with the permutation returned by the backend's argsort as data (an oracle: any permutation that sorts;
   the order inside groups of equal keys is unspecified) *)
Definition eig_take (idx : list nat) (o : eout) (k : Z) (wh : which) : option eout := slice_out k wh (take idx o).
(* eig(Identity): ones, the dense identity, then the slice *)
Definition eig_ident (n : nat) (k : Z) (wh : which) : option eout :=
  slice_out k wh (mkeout n (fun _ => r1) eye).
(* eig(Diagonal): argsort of the diagonal (by value), identity columns permuted, then the slice *)
Definition eig_diag (n : nat) (d : nat -> R) (k : Z) (wh : which) : option eout :=
  let idx := argsort n d in
  slice_out k wh (take idx (mkeout n d eye)).

(* compute_lower_triangular_eigvecs(L) (eigs.py:164-171): column i solves (L[:i,:i] - L[i,i] I) x = -L[:i,i];
   [solve k A b] stands for np.linalg.solve on a k x k system *)
Variable solve : nat -> fm -> (nat -> R) -> (nat -> R).
(* the vectors are written into np.eye(n), a float64 buffer: [cast] is the conversion numpy applies on assignment
   (the identity for real data; complex solutions lose their imaginary part) *)
Variable cast : R -> R.
Definition flip (n : nat) (M : fm) : fm := fun i j => M (n - 1 - i)%nat (n - 1 - j)%nat.
Definition tri_sys (L : fm) (i : nat) : fm := fun a b => L a b - L i i * delta a b.
Definition tri_rhs (L : fm) (i : nat) : nat -> R := fun a => - L a i.
Definition tri_eigvecs (L : fm) : fm :=
  fun r i => if (r <? i)%nat then cast (solve i (tri_sys L i) (tri_rhs L i) r) else delta r i.
Definition eig_tri (n : nat) (L : fm) (k : Z) (wh : which) : option eout :=
  let vals := fun i => L i i in
  let idx := argsort n vals in
  slice_out k wh (take idx (mkeout n vals (tri_eigvecs L))).
(* repaired rule for a LOWER triangular operator: the routine is applied to the matrix with rows and columns reversed
   (which is upper triangular) and the result is reversed back *)
Definition eig_tri_lower (n : nat) (L : fm) (k : Z) (wh : which) : option eout :=
  let vals := fun i => L i i in
  let idx := argsort n vals in
  slice_out k wh (take idx (mkeout n vals (flip n (tri_eigvecs (flip n L))))).

Definition diag_out (n : nat) (d : nat -> R) : eout := mkeout n d eye.
Definition tri_out (n : nat) (L : fm) : eout := mkeout n (fun i => L i i) (tri_eigvecs L).
Definition tri_lower_out (n : nat) (L : fm) : eout := mkeout n (fun i => L i i) (flip n (tri_eigvecs (flip n L))).
(* eigmax / eigmin: first value of eig(A, 1, LM|SM) *)
Definition first_val (o : option eout) : option R := match o with Some e => Some (ew e 0%nat) | None => None end.
End Model.

(* back-substitution: the unique solution of an upper-triangular system with non-zero diagonal *)
Section USolve.
Context {R : Type} {RR : Ring R} {FF : Field R}.
Open Scope R_scope.
Notation fm := (fm (R:=R)).
(* [ubsl A b k t] = [x_(k-t); ...; x_(k-1)] *)
Fixpoint ubsl (A : fm) (b : nat -> R) (k t : nat) : list R :=
  match t with
  | O => []
  | S t' => let xs := ubsl A b k t' in let r := (k - S t')%nat in
            ((b r - sum t' (fun c => A r (r + 1 + c)%nat * nth c xs r0)) / A r r) :: xs
  end.
Definition usolve (k : nat) (A : fm) (b : nat -> R) : nat -> R :=
  let xs := ubsl A b k k in fun i => nth i xs r0.
End USolve.
