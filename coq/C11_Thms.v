(* C11 - plu_correct and structure_kept. *)
From Coq Require Import Arith Lia List Ring ArithRing PeanoNat Bool.
From Core Require Import Base Kron KronAlg BdAlg Op OpProofs Algebra AlgebraProofs AlgebraKron C06_Inv C06_Proofs C06_Struct C11_Decomp C11_Proofs C11_Struct.
Import ListNotations.
Section T.
Context {R : Type} {RR : Ring R} {CR : CRing R}.
Add Ring Rring : Rth.
Open Scope R_scope.
Notation fm := (fm (R:=R)). Notation arr := (arr (R:=R)). Notation op := (op (R:=R)). Notation fac := (fac (R:=R)).
Notation dop := (dop (R:=R)). Notation blk := (OpProofs.blk (R:=R)).
Variable chol_o : nat -> fm -> fm.
Variable lu_o : nat -> fm -> (nat -> nat) * fm * fm.
Variable sqrt_o : R -> R.
Variable plu_sqrt : bool.
Notation chol := (chol chol_o sqrt_o).
Notation plu := (plu lu_o sqrt_o plu_sqrt).
Notation dense := C11_Decomp.dense.
Notation pok := (pok lu_o sqrt_o plu_sqrt).
Notation lu_spec := (lu_spec lu_o).

Definition p1 (t : dop * dop * dop) := fst (fst t). Definition p2 (t : dop * dop * dop) := snd (fst t). Definition p3 (t : dop * dop * dop) := snd t.
Definition plugoodl (ts : list (dop * dop * dop)) (ms : list op) := Forall2 (fun t m => plugood t m) ts ms.
Lemma plugoodl_shapes ts ms : plugoodl ts ms ->
  (map shape (map dto_op (map p1 ts)) = map shape ms /\ forallb wf (map dto_op (map p1 ts)) = true) /\
  (map shape (map dto_op (map p2 ts)) = map shape ms /\ forallb wf (map dto_op (map p2 ts)) = true) /\
  (map shape (map dto_op (map p3 ts)) = map shape ms /\ forallb wf (map dto_op (map p3 ts)) = true).
Proof. induction 1 as [|[[P L] U] m ts ms ((WP & SP) & (WL & SL) & (WU & SU) & _) _ ((A1 & A2) & (B1 & B2) & (C1 & C2))]; [repeat split; reflexivity|].
  cbn [map forallb p1 p2 p3 fst snd]. rewrite WP, WL, WU, SP, SL, SU, A1, A2, B1, B2, C1, C2. repeat split; reflexivity. Qed.

Lemma kron_plu_ops ts ms : wf (Kron ms) = true -> forallb is_sq ms = true -> plugoodl ts ms ->
  plugood (DKron (map p1 ts), DKron (map p2 ts), DKron (map p3 ts)) (Kron ms).
Proof. intros W SQ G. cbn [wf] in W. apply andb_prop in W as [W Pos]. destruct (plugoodl_shapes ts ms G) as ((A1 & A2) & (B1 & B2) & (C1 & C2)).
  set (Ts := map (fun t => (facof (dto_op (p1 t)), facof (dto_op (p2 t)), facof (dto_op (p3 t)))) ts).
  assert (FI : Forall2 plufac Ts (map facof ms)).
  { unfold Ts. clear A1 A2 B1 B2 C1 C2 Ts. induction G as [|[[P L] U] m ts ms ((WP & SP) & (WL & SL) & (WU & SU) & PP & LL & UU & F) G IH]; cbn [map]; constructor.
    - cbn [forallb map] in SQ, Pos. apply andb_prop in SQ as [S1 _]. apply andb_prop in Pos as [P0 _]. apply andb_prop in P0 as [P0 _]. apply Nat.ltb_lt in P0. apply Nat.eqb_eq in S1.
      unfold plufac, facof. cbn [p1 p2 p3 fst snd fr fc fmx]. rewrite SP, SL, SU. repeat split; auto.
    - cbn [forallb map] in SQ, Pos, W. apply andb_prop in SQ as [_ SQ]. apply andb_prop in Pos as [_ Pos]. apply andb_prop in W as [_ W]. apply IH; auto. }
  pose proof (kron_plu Ts (map facof ms) FI) as K. unfold plufac in K.
  assert (E1 : map fst3 Ts = map facof (map dto_op (map p1 ts))) by (unfold Ts; rewrite !map_map; reflexivity).
  assert (E2 : map snd3 Ts = map facof (map dto_op (map p2 ts))) by (unfold Ts; rewrite !map_map; reflexivity).
  assert (E3 : map thd3 Ts = map facof (map dto_op (map p3 ts))) by (unfold Ts; rewrite !map_map; reflexivity).
  rewrite E1, E2, E3 in K. destruct K as (Sq' & Pos' & P1 & P2 & L1 & L2 & U1 & U2 & PP & LL & UU & F).
  unfold plugood.
  change (dto_op (DKron (map p1 ts))) with (Kron (map dto_op (map p1 ts))). change (dto_op (DKron (map p2 ts))) with (Kron (map dto_op (map p2 ts))).
  change (dto_op (DKron (map p3 ts))) with (Kron (map dto_op (map p3 ts))).
  repeat match goal with |- context [den (Kron ?l)] => change (den (Kron l)) with (fmx (kronR (map facof l))) end.
  cbn [shape wf]. rewrite A1, A2, B1, B2, C1, C2, Pos, kshape_kronR. cbn [fst andb]. repeat split; auto. Qed.

Definition plugoodp (ts : list (dop * dop * dop * nat)) (ms : list (op * nat)) := Forall2 (fun t mc => plugood (fst t) (fst mc) /\ snd t = snd mc) ts ms.
Definition tops (f : dop * dop * dop -> dop) (ts : list (dop * dop * dop * nat)) : list (op * nat) := map (fun t => (dto_op (f (fst t)), snd t)) ts.
Lemma bdiag_plu_ops ts (ms : list (op * nat)) : wf (BDiag ms) = true -> forallb (fun mc => is_sq (fst mc)) ms = true -> plugoodp ts ms ->
  let n := fst (shape (BDiag ms)) in
  (wf (BDiag (tops p1 ts)) = true /\ shape (BDiag (tops p1 ts)) = shape (BDiag ms)) /\
  (wf (BDiag (tops p2 ts)) = true /\ shape (BDiag (tops p2 ts)) = shape (BDiag ms)) /\
  (wf (BDiag (tops p3 ts)) = true /\ shape (BDiag (tops p3 ts)) = shape (BDiag ms)) /\
  permmat n (den (BDiag (tops p1 ts))) /\ lower n (den (BDiag (tops p2 ts))) /\ upper n (den (BDiag (tops p3 ts))) /\
  feq n n (mmul n (den (BDiag (tops p1 ts))) (mmul n (den (BDiag (tops p2 ts))) (den (BDiag (tops p3 ts))))) (den (BDiag ms)).
Proof. intros W SQ G. cbn [wf] in W.
  assert (H : (forallb (fun mc => wf (fst mc)) (tops p1 ts) = true /\ map (fun mc => (shape (fst mc), snd mc)) (tops p1 ts) = map (fun mc => (shape (fst mc), snd mc)) ms) /\
              (forallb (fun mc => wf (fst mc)) (tops p2 ts) = true /\ map (fun mc => (shape (fst mc), snd mc)) (tops p2 ts) = map (fun mc => (shape (fst mc), snd mc)) ms) /\
              (forallb (fun mc => wf (fst mc)) (tops p3 ts) = true /\ map (fun mc => (shape (fst mc), snd mc)) (tops p3 ts) = map (fun mc => (shape (fst mc), snd mc)) ms) /\
              exists Ts, map b1 Ts = blocks (tops p1 ts) /\ map b2 Ts = blocks (tops p2 ts) /\ map b3 Ts = blocks (tops p3 ts) /\ Forall2 plublk Ts (blocks ms)).
  { induction G as [|[[[P L] U] mu'] [m mu] ts ms [((WP & SP) & (WL & SL) & (WU & SU) & PP & LL & UU & F) Emu] G IH].
    - split; [split; reflexivity|]. split; [split; reflexivity|]. split; [split; reflexivity|]. exists []. repeat split; constructor.
    - cbn [fst snd] in *. subst mu'. cbn [forallb fst] in W, SQ. apply andb_prop in W as [W1 W]. apply andb_prop in SQ as [S1 SQ].
      destruct (IH W SQ) as ((A1 & A2) & (B1 & B2) & (C1 & C2) & (Ts & T1 & T2 & T3 & TF)).
      unfold tops in *. cbn [map fst snd forallb p1 p2 p3]. rewrite WP, WL, WU, SP, SL, SU, A1, A2, B1, B2, C1, C2.
      split; [split; reflexivity|]. split; [split; reflexivity|]. split; [split; reflexivity|].
      exists (rep mu ((((shape m, den (dto_op P)) : blk), ((shape m, den (dto_op L)) : blk), ((shape m, den (dto_op U)) : blk)) : blk * blk * blk) ++ Ts).
      unfold blocks in *. cbn [map concat fst snd]. rewrite !map_app.
      assert (RM : forall (f : blk * blk * blk -> blk) (x : blk * blk * blk) k, map f (rep k x) = rep k (f x)) by (intros f x k; induction k; cbn [rep map]; congruence).
      rewrite !RM. cbn [b1 b2 b3 fst snd]. rewrite SP, SL, SU.
      split; [f_equal; exact T1|]. split; [f_equal; exact T2|]. split; [f_equal; exact T3|].
      apply Forall2_app; [|exact TF]. apply Forall2_rep. exists (fst (shape m)). cbn [fst snd]. pose proof (sq_shape m S1) as Sh. repeat split; auto. }
  destruct H as ((A1 & A2) & (B1 & B2) & (C1 & C2) & (Ts & T1 & T2 & T3 & TF)).
  destruct (bd_plu Ts (blocks ms) TF) as (R1 & C1' & R2 & C2' & R3 & C3' & CA & PP & LL & UU & F).
  cbn zeta. repeat match goal with |- context [den (BDiag ?l)] => change (den (BDiag l)) with (bd (blocks l)) end.
  cbn [shape wf]. rewrite A1, A2, B1, B2, C1, C2. rewrite bshape_blocks. cbn [fst]. rewrite <- T1, <- T2, <- T3. repeat split; auto. Qed.

Definition Pplu (e : op) := wf e = true -> is_sq e = true -> pok e -> plugood (plu e) e.
Lemma plu_dense (e : op) : wf e = true -> is_sq e = true -> lu_spec (fst (shape e)) (dense e) ->
  plugood (let n := fst (shape e) in let '(p, L, U) := lu_o n (dense e) in (DOp (Perm n p), DTri true n L, DTri false n U)) e.
Proof. intros W Sq H. unfold C11_Struct.lu_spec in H. pose proof (sq_shape e Sq) as Sh. cbn zeta. destruct (lu_o (fst (shape e)) (dense e)) as [[p L] U].
  destruct H as (HP & LL & UU & F). unfold plugood. cbn [dto_op wf shape nr nc den dat]. set (n := fst (shape e)) in *.
  assert (WP : forallb (fun i => (p i <? n)%nat) (seq 0 n) = true).
  { apply forallb_forall. intros i Hi. apply in_seq in Hi. apply Nat.ltb_lt. apply (proj1 HP). lia. }
  repeat split; auto.
  - exists p. split; [exact HP|apply feq_refl].
  - eapply feq_trans; [exact F|]. pose proof (dense_den' e W) as D. rewrite Sh in D. exact D. Qed.
Lemma plu_leaf_diag n (s d : nat -> R) : (forall i, (i < n)%nat -> s i * s i = d i) ->
  feq n n (mmul n eye (mmul n (fun i j => s i * delta i j) (fun i j => s i * delta i j))) (fun i j => d i * delta i j).
Proof. intros H. eapply feq_trans; [apply mmul_eye_l_feq|]. eapply feq_trans; [apply diag_den_mul|]. intros i j Hi Hj. cbn beta. rewrite H by auto. reflexivity. Qed.

Theorem plu_correct : forall e, Pplu e.
Proof. apply op_ind2; unfold Pplu; try (intros; apply plu_dense; assumption).
  - (* Diag *) intros n d W Sq OK. cbn [C11_Struct.pok C11_Decomp.plu] in *. destruct plu_sqrt.
    + unfold plugood, sqrt_diag. cbn [dto_op wf shape den fst]. repeat split; auto using permmat_eye, diag_lower, diag_upper. apply plu_leaf_diag; auto.
    + unfold plugood. cbn [dto_op wf shape den fst]. repeat split; auto using permmat_eye, lower_eye, diag_upper.
      eapply feq_trans; [apply mmul_eye_l_feq|]. apply mmul_eye_l_feq.
  - (* Ident *) intros n W Sq OK. unfold plugood. cbn [C11_Decomp.plu dto_op wf shape den fst]. repeat split; auto using permmat_eye, lower_eye, upper_eye.
    eapply feq_trans; [apply mmul_eye_l_feq|]. apply mmul_eye_l_feq.
  - (* Scal *) intros c n W Sq OK. cbn [C11_Struct.pok C11_Decomp.plu] in *. destruct plu_sqrt.
    2:{ unfold plugood. cbn [dto_op wf shape den fst]. repeat split; auto using permmat_eye, lower_eye, (diag_upper n (fun _ => c)).
        eapply feq_trans; [apply mmul_eye_l_feq|]. apply mmul_eye_l_feq. }
    unfold plugood, sqrt_scal. cbn [dto_op shape fst]. destruct (scal_id n (sqrt_o c)) as (W' & S' & D').
    repeat split; auto using permmat_eye.
    + eapply lower_ext; [apply feq_sym; exact D'|apply (diag_lower n (fun _ => sqrt_o c))].
    + eapply upper_ext; [apply feq_sym; exact D'|apply (diag_upper n (fun _ => sqrt_o c))].
    + cbn [den]. eapply feq_trans; [apply (mmul_ext n n n); [apply feq_refl|apply (mmul_ext n n n); exact D']|].
      apply (plu_leaf_diag n (fun _ => sqrt_o c) (fun _ => c)). auto.
  - (* Kron *) intros ms HF W Sq [SQ OK]. apply (proj1 (forall_map_id _ _)) in OK.
    assert (G : plugoodl (map plu ms) ms).
    { cbn [wf] in W. apply andb_prop in W as [W _]. clear Sq. induction ms as [|m ms IH]; [constructor|]. inversion HF; inversion OK; subst. cbn [forallb] in W, SQ. apply andb_prop in W as [W1 W]. apply andb_prop in SQ as [S1 SQ].
      cbn [map]. constructor; [auto|apply IH; auto]. }
    exact (kron_plu_ops (map plu ms) ms W SQ G).
  - (* BDiag *) intros ms HF W Sq [SQ OK]. apply (proj1 (forall_map_id _ _)) in OK.
    assert (G : plugoodp (map (fun mc => (plu (fst mc), snd mc)) ms) ms).
    { cbn [wf] in W. clear Sq. induction ms as [|[m mu] ms IH]; [constructor|]. inversion HF; inversion OK; subst. cbn [forallb fst] in W, SQ. apply andb_prop in W as [W1 W]. apply andb_prop in SQ as [S1 SQ].
      cbn [map]. constructor; [split; auto|apply IH; auto]. }
    pose proof (bdiag_plu_ops _ ms W SQ G) as K. cbn zeta in K. unfold plugood. cbn [C11_Decomp.plu].
    unfold tops in K. rewrite !map_map in K. cbn [fst snd p1 p2 p3] in K.
    cbn [dto_op]. rewrite !map_map. cbn [fst snd]. exact K.
Qed.

(* the factors keep the structure of the input *)
Theorem structure_kept : forall e,
  dtype (chol e) = mirror (DtTri true) e /\
  (let '(P, L, U) := plu e in dtype P = mirrorP e /\ dtype L = mirrorL plu_sqrt e /\ dtype U = mirrorU plu_sqrt e).
Proof. apply op_ind2; try (intros; cbn [C11_Decomp.chol C11_Decomp.plu mirrorL mirrorU]; try destruct (lu_o _ _) as [[p0 L0] U0]; try destruct plu_sqrt; repeat split; reflexivity).
  - (* Kron *) intros ms HF. cbn [C11_Decomp.chol C11_Decomp.plu dtype mirror mirrorP mirrorL mirrorU]. rewrite !map_map. repeat split; f_equal; apply map_ext_in; intros m Hm;
    rewrite Forall_forall in HF; destruct (HF m Hm) as [E1 E2]; auto; destruct (plu m) as [[P L] U]; cbn [fst snd]; tauto.
  - (* BDiag *) intros ms HF. cbn [C11_Decomp.chol C11_Decomp.plu dtype mirror mirrorP mirrorL mirrorU]. rewrite !map_map. repeat split; f_equal; apply map_ext_in; intros m Hm;
    rewrite Forall_forall in HF; destruct (HF m Hm) as [E1 E2]; cbn [fst snd]; f_equal; auto; destruct (plu (fst m)) as [[P L] U]; cbn [fst snd]; tauto.
Qed.
End T.

(* the hypotheses are satisfiable: diag(4,9) (x) blockdiag(4 I_1 twice) over the Gaussian rationals with a table for the square roots *)
From Coq Require Import ZArith.
From Core Require Import FieldBase.
Definition ex11_tree : op (R:=qi) := Kron [Diag 2 (qof_vec [qic 4%Z 1%positive 0%Z 1%positive; qic 9%Z 1%positive 0%Z 1%positive]); BDiag [(Scal (qic 4%Z 1%positive 0%Z 1%positive) 1, 2%nat)]].
Definition ex11_sqrt (x : qi) : qi := if qi_eqb x (qic 4%Z 1%positive 0%Z 1%positive) then qic 2%Z 1%positive 0%Z 1%positive else if qi_eqb x (qic 9%Z 1%positive 0%Z 1%positive) then qic 3%Z 1%positive 0%Z 1%positive else qi0.
Lemma ex11_ok : forall chol_o lu_o, wf ex11_tree = true /\ is_sq ex11_tree = true /\ cok chol_o ex11_sqrt ex11_tree /\ pok lu_o ex11_sqrt true ex11_tree.
Proof. intros ch lu. split; [vm_compute; reflexivity|]. split; [vm_compute; reflexivity|]. split.
  - cbn [cok ex11_tree map fst]. split; [vm_compute; reflexivity|].
    constructor; [intros i Hi; destruct i as [|[|i]]; [vm_compute; reflexivity|vm_compute; reflexivity|lia]|].
    constructor; [|constructor]. split; [vm_compute; reflexivity|]. constructor; [vm_compute; reflexivity|constructor].
  - cbn [pok ex11_tree map fst]. split; [vm_compute; reflexivity|].
    constructor; [intros _ i Hi; destruct i as [|[|i]]; [vm_compute; reflexivity|vm_compute; reflexivity|lia]|].
    constructor; [|constructor]. split; [vm_compute; reflexivity|]. constructor; [intros _; vm_compute; reflexivity|constructor]. Qed.

(* the pinned rule plu(Diagonal) = (I, sqrt D, sqrt D) cannot be right for a negative entry of a real operator: whatever real value the
   square root returns, P L U differs from A (witness of flag plu_diagonal_negative_nan: Diagonal([-4])) *)
From Coq Require Import QArith Qcanon.
Definition m4 : qi := qic (-4)%Z 1%positive 0%Z 1%positive.
Definition real_valued (x : qi) : Prop := snd x = Q2Qc 0.
Lemma plu_diag_refuted : forall lu_o (sqrt_o : qi -> qi), real_valued (sqrt_o m4) ->
  ~ plugood (plu lu_o sqrt_o true (Diag 1 (fun _ => m4))) (Diag 1 (fun _ => m4)).
Proof. intros lu sq Hre H. cbn [plu] in H. unfold plugood in H. destruct H as (_ & _ & _ & _ & _ & _ & F).
  specialize (F 0%nat 0%nat (le_n 1) (le_n 1)). cbn [dto_op den sqrt_diag shape fst] in F. unfold mmul in F. cbn [sum] in F.
  unfold eye, delta in F. cbn [Nat.eqb] in F. destruct (sq m4) as [a b]. unfold real_valued in Hre. cbn [snd] in Hre. subst b.
  apply (f_equal fst) in F. cbn [r0 r1 radd rmul QIRing qiadd qimul qi0 qi1 fst snd m4 qic] in F.
  assert (E : (a * a = qc (-4) 1)%Qc).
  { transitivity (qc (-4) 1 * 1 - qc 0 1 * Q2Qc 0)%Qc; [rewrite <- F; change (Q2Qc 0) with 0%Qc; ring|]. change (qc 0 1) with 0%Qc. change (Q2Qc 0) with 0%Qc. ring. }
  pose proof (Qcsq_nonneg a) as P. rewrite E in P. revert P. unfold Qcle. vm_compute. intros P. apply P. reflexivity. Qed.
