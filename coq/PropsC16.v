(* Property C16: svd returns a valid singular value decomposition, pinv the pseudo-inverse.
   Only statements closed by [exact]. Model: C16_Model.v; lemmas: C16_Proofs.v, C16_Check.v. Scalars: any field with an
   involution (conj); "non-negative" is an abstract predicate (no order is needed for what is proved).
   LAPACK svd / lstsq, the eigen-routine run on A^H A (C14), sqrt and the CG solve (C12) are oracles.

   Full statement (reference): U, V have orthonormal columns, Sigma is diagonal and non-negative, U Sigma V^H = A for
   k = all, = the best rank-k approximation for k < all (Krylov rules); pinv(A) b is the minimum-norm least-squares solution.
   Proved: everything except (partial) best-rank-k OPTIMALITY (Eckart-Young: out of reach) - the Krylov theorems give the
   'k selected singular triplets' form: orthonormal U, V with A V = U Sigma, the selection being the last / first k of the
   ascending spectrum (C10_slice_LM / C10_slice_SM); least-squares optimality and minimum norm are proved as the exact
   Pythagoras identities (the inequalities follow over any ordered field); the CG rule is exact up to the eps A^H b term. *)
From Coq Require Import ZArith QArith Qcanon List Arith Bool.
From Core Require Import Base FieldBase C09_MatAlg C10_Model C10_Check C16_Model C16_Proofs C16_Extra C16_Check.
Import ListNotations.

Definition C16_full : Prop :=
  forall (R : Type) (RR : Ring R) (CR : CRing R) (FF : Field R) (nonneg : R -> Prop) leb m n r (A U : fm (R:=R)) s V,
    SvdSpec nonneg m n r A U s V -> SvdValid nonneg m n A (svd_dense leb r U s V).

(* svd_valid (DenseSVD, k = all): from the LAPACK oracle's specification, after the ascending re-sort, U and V have
   orthonormal columns, Sigma is non-negative and U Sigma V^H = A; min(m,n) triplets are returned *)
Theorem C16_svd_valid : forall (R : Type) (RR : Ring R) (CR : CRing R) (FF : Field R) (nonneg : R -> Prop) leb m n r (A U : fm (R:=R)) s V,
  SvdSpec nonneg m n r A U s V -> let o := svd_dense leb r U s V in sk o = r /\ SvdValid nonneg m n A o.
Proof. intros R RR CR FF. exact (svd_valid (R:=R)). Qed.
Print Assumptions C16_svd_valid.

(* any selection idx of distinct positions of the oracle's decomposition (the repaired rules slice with get_slice(k, which)):
   orthonormal columns, non-negative Sigma and singular triplets A V' = U' Sigma'; a permutation of all positions gives A *)
Theorem C16_svd_take_partial : forall (R : Type) (RR : Ring R) (CR : CRing R) (FF : Field R) (nonneg : R -> Prop) m n r (A U : fm (R:=R)) s V idx,
  SvdSpec nonneg m n r A U s V -> NoDup idx -> (forall x, In x idx -> (x < r)%nat) ->
  let o := svd_take idx U s V in
  orthocols m (sk o) (sU o) /\ orthocols n (sk o) (sV o) /\ (forall j, (j < sk o)%nat -> nonneg (sS o j)) /\
  feq m (sk o) (mmul n A (sV o)) (fun i j => rmul (sU o i j) (sS o j)).
Proof. intros R RR CR FF. exact (svd_take_partial (R:=R)). Qed.
Print Assumptions C16_svd_take_partial.
Theorem C16_svd_take_all : forall (R : Type) (RR : Ring R) (CR : CRing R) (FF : Field R) (nonneg : R -> Prop) m n r (A U : fm (R:=R)) s V idx,
  SvdSpec nonneg m n r A U s V -> Permutation.Permutation idx (seq 0 r) ->
  let o := svd_take idx U s V in sk o = r /\ SvdValid nonneg m n A o.
Proof. intros R RR CR FF. exact (svd_take_all (R:=R)). Qed.
Print Assumptions C16_svd_take_all.
(* repaired Diagonal rule (signs / phases moved into U): it starts from a valid decomposition of diag(d) *)
Theorem C16_svd_diag_signed : forall (R : Type) (RR : Ring R) (CR : CRing R) (FF : Field R) (nonneg : R -> Prop) n (d ab ph : nat -> R),
  (forall i, (i < n)%nat -> d i = rmul (ph i) (ab i) /\ rmul (conj (ph i)) (ph i) = r1 /\ nonneg (ab i)) ->
  SvdSpec nonneg n n n (dg d) (dg ph) ab eye.
Proof. intros R RR CR FF. exact (svd_diag_signed_spec (R:=R)). Qed.
Print Assumptions C16_svd_diag_signed.

(* Lanczos / LOBPCG rule: from orthonormal eigenpairs (lam, W) of A^H A and "square roots" s (s*s = lam, real, non-zero)
   of the selected eigenvalues: V = W[:, idx] and U = A V Sigma^-1 have orthonormal columns and are singular triplets,
   U Sigma = A V, so U Sigma V^H V = A V (the rank-k part of A on span V).
   partial: that this is the BEST rank-k approximation (Eckart-Young) is not proved *)
Theorem C16_lanczos_svd_partial : forall (R : Type) (RR : Ring R) (CR : CRing R) (FF : Field R) m n q (A W : fm (R:=R)) lam idx s,
  LanczosSpec m n q A W lam idx s ->
  let k := length idx in let V := lanV W idx in let U := lanU n A W idx s in
  orthocols n k V /\ orthocols m k U /\ feq m k (fun i j => rmul (U i j) (s j)) (mmul n A V) /\
  feq m k (mmul k (fun i l => rmul (U i l) (s l)) (mmul n (cj V) V)) (mmul n A V).
Proof. intros R RR CR FF. exact (lanczos_svd_partial (R:=R)). Qed.
Print Assumptions C16_lanczos_svd_partial.
(* all n triplets with V unitary: U Sigma V^H = A *)
Theorem C16_lanczos_svd_all : forall (R : Type) (RR : Ring R) (CR : CRing R) (FF : Field R) m n q (A W : fm (R:=R)) lam idx s,
  LanczosSpec m n q A W lam idx s -> length idx = n -> feq n n (mmul n (lanV W idx) (cj (lanV W idx))) eye ->
  feq m n (mmul n (fun i l => rmul (lanU n A W idx s i l) (s l)) (cj (lanV W idx))) A.
Proof. intros R RR CR FF. exact (lanczos_svd_all (R:=R)). Qed.
Print Assumptions C16_lanczos_svd_all.
(* the model's Lanczos rule is this construction on the eigenpairs selected by get_slice(k, which) *)
Theorem C16_lanczos_model : forall (R : Type) (RR : Ring R) (CR : CRing R) (FF : Field R) m n q (A : fm (R:=R)) lam W sqrt_ k wh idx,
  sel k wh q = Some idx ->
  svd_lanczos_tall m n q A lam W sqrt_ k wh =
  Some (mksvd (length idx) (lanU n A W idx (fun j => sqrt_ (lam (nth j idx 0%nat)))) (fun j => sqrt_ (lam (nth j idx 0%nat))) (lanV W idx)).
Proof. intros R RR CR FF. exact (svd_lanczos_tall_out (R:=R)). Qed.
Print Assumptions C16_lanczos_model.

(* wide operators (m < n): eigenpairs of A A^H give U = W[:, idx]; V = (Sigma^-1 U^H A)^H is the same construction on A^H:
   orthonormal columns and V Sigma = A^H U *)
Theorem C16_lanczos_svd_wide_partial : forall (R : Type) (RR : Ring R) (CR : CRing R) (FF : Field R) m n q (A W : fm (R:=R)) lam idx s,
  LanczosSpec n m q (cj A) W lam idx s ->
  let k := length idx in let U := lanV W idx in let V := lanU m (cj A) W idx s in
  orthocols m k U /\ orthocols n k V /\ feq n k (fun i j => rmul (V i j) (s j)) (mmul m (cj A) U).
Proof. intros R RR CR FF. exact (lanczos_svd_wide_partial (R:=R)). Qed.
Print Assumptions C16_lanczos_svd_wide_partial.
Theorem C16_lanczos_wide_model : forall (R : Type) (RR : Ring R) (CR : CRing R) (FF : Field R) m n (A W : fm (R:=R)) idx (s : nat -> R),
  (forall j, (j < length idx)%nat -> conj (s j) = s j /\ s j <> r0) ->
  feq n (length idx) (fun i j => conj (rdiv (mmul m (cj (lanV W idx)) A j i) (s j))) (lanU m (cj A) W idx s).
Proof. intros R RR CR FF. exact (svd_lanczos_wide_V (R:=R)). Qed.
Print Assumptions C16_lanczos_wide_model.

(* structural svd rules: valid when the diagonal is non-negative (for the pinned code it need not be: refuted below) *)
Theorem C16_svd_diagonal : forall (R : Type) (RR : Ring R) (CR : CRing R) (FF : Field R) (nonneg : R -> Prop) n (d : nat -> R),
  (forall i, (i < n)%nat -> nonneg (d i)) -> SvdValid nonneg n n (dg d) (svd_diag n d).
Proof. intros R RR CR FF. exact (svd_diag_valid (R:=R)). Qed.
Print Assumptions C16_svd_diagonal.
Theorem C16_svd_identity : forall (R : Type) (RR : Ring R) (CR : CRing R) (FF : Field R) (nonneg : R -> Prop) n,
  nonneg r1 -> SvdValid nonneg n n eye (svd_ident (R:=R) n).
Proof. intros R RR CR FF. exact (svd_ident_valid (R:=R)). Qed.
Print Assumptions C16_svd_identity.

(* pinv_structural: the reciprocal rules give the Moore-Penrose inverse (the four Penrose equations) *)
Theorem C16_pinv_diagonal : forall (R : Type) (RR : Ring R) (CR : CRing R) (FF : Field R) n (d : nat -> R),
  (forall i, (i < n)%nat -> d i <> r0) -> Penrose n n (dg d) (dg (pinv_diag d)).
Proof. intros R RR CR FF. exact (pinv_diag_penrose (R:=R)). Qed.
Print Assumptions C16_pinv_diagonal.
Theorem C16_pinv_scalar : forall (R : Type) (RR : Ring R) (CR : CRing R) (FF : Field R) n (c : R),
  c <> r0 -> Penrose n n (fun i j => rmul c (delta i j)) (fun i j => rmul (pinv_scal c) (delta i j)).
Proof. intros R RR CR FF. exact (pinv_scal_penrose (R:=R)). Qed.
Print Assumptions C16_pinv_scalar.
Theorem C16_pinv_permutation : forall (R : Type) (RR : Ring R) (CR : CRing R) (FF : Field R) n (p q : nat -> nat),
  (forall i, (i < n)%nat -> (p i < n)%nat /\ (q i < n)%nat /\ p (q i) = i /\ q (p i) = i) ->
  Penrose (R:=R) n n (fun i j => delta (p i) j) (pinv_perm q).
Proof. intros R RR CR FF. exact (pinv_perm_penrose (R:=R)). Qed.
Print Assumptions C16_pinv_permutation.
Theorem C16_pinv_identity : forall (R : Type) (RR : Ring R) (CR : CRing R) (FF : Field R) n, Penrose (R:=R) n n eye eye.
Proof. intros R RR CR FF. exact (pinv_ident_penrose (R:=R)). Qed.
Print Assumptions C16_pinv_identity.

(* pinv_min_norm_ls: from the lstsq oracle's specification (normal equations, x in the range of A^H):
   |A z - b|^2 = |A x - b|^2 + |A (z - x)|^2 for every z  (x is a least-squares solution), and
   |z|^2 = |x|^2 + |z - x|^2 for every z with the same fitted values (x has minimum norm among them) *)
Theorem C16_pinv_ls_optimal : forall (R : Type) (RR : Ring R) (CR : CRing R) (FF : Field R) m n (A : fm (R:=R)) b x z,
  LstsqSpec m n A b x ->
  ip m (vsub (mv n A z) b) (vsub (mv n A z) b) =
  radd (ip m (vsub (mv n A x) b) (vsub (mv n A x) b)) (ip m (mv n A (vsub z x)) (mv n A (vsub z x))).
Proof. intros R RR CR FF. exact (pinv_ls_optimal (R:=R)). Qed.
Print Assumptions C16_pinv_ls_optimal.
Theorem C16_pinv_min_norm : forall (R : Type) (RR : Ring R) (CR : CRing R) (FF : Field R) m n (A : fm (R:=R)) b x z,
  LstsqSpec m n A b x -> (forall i, (i < m)%nat -> mv n A z i = mv n A x i) ->
  ip n z z = radd (ip n x x) (ip n (vsub z x) (vsub z x)).
Proof. intros R RR CR FF. exact (pinv_min_norm (R:=R)). Qed.
Print Assumptions C16_pinv_min_norm.
(* CG rule: (Minv + eps I) A^H with Minv a solve operator of A^H A: Minv A^H b meets the normal equations, the rule adds eps A^H b *)
Theorem C16_pinv_cg : forall (R : Type) (RR : Ring R) (CR : CRing R) (FF : Field R) m n (A Minv : fm (R:=R)) eps,
  feq n m (pinv_cg m n A Minv eps) (fun i j => radd (mmul n Minv (cj A) i j) (rmul eps (cj A i j))) /\
  (feq n n (mmul n (mmul m (cj A) A) Minv) eye -> feq n m (mmul n (mmul m (cj A) A) (mmul n Minv (cj A))) (cj A)).
Proof. intros R RR CR FF m n A Minv eps. exact (Logic.conj (pinv_cg_form (R:=R) m n A Minv eps) (pinv_cg_normal_eq (R:=R) m n A Minv)). Qed.
Print Assumptions C16_pinv_cg.

(* full column rank: (A^H A)^-1 A^H - what the CG rule computes up to its eps term - is the Moore-Penrose inverse *)
Theorem C16_pinv_normal_equations : forall (R : Type) (RR : Ring R) (CR : CRing R) (FF : Field R) m n (A Minv : fm (R:=R)),
  inv2 n (mmul m (cj A) A) Minv -> Penrose m n A (mmul n Minv (cj A)).
Proof. intros R RR CR FF. exact (pinv_normal_equations_penrose (R:=R)). Qed.
Print Assumptions C16_pinv_normal_equations.

(* the repaired CG rule (no jitter added to the inverse: eps = 0) is exactly that *)
Theorem C16_pinv_cg_repaired : forall (R : Type) (RR : Ring R) (CR : CRing R) (FF : Field R) m n (A Minv : fm (R:=R)),
  inv2 n (mmul m (cj A) A) Minv -> Penrose m n A (pinv_cg m n A Minv r0).
Proof. intros R RR CR FF. exact (pinv_cg_repaired_penrose (R:=R)). Qed.
Print Assumptions C16_pinv_cg_repaired.

(* ---- refutation witnesses ---- *)
Theorem C16_svd_diag_negative_refuted :
  let o := svd_diag 2 (vecl [qz (-1); qz 2]) in
  qi_eqb (sS o 0%nat) (qz (-1)) = true /\ qle (fst (sS o 0%nat)) 0%Qc = true /\ qle 0%Qc (fst (sS o 0%nat)) = false.
Proof. exact svd_diag_negative_refuted. Qed.
Print Assumptions C16_svd_diag_negative_refuted.
Theorem C16_svd_dense_k_ignored_refuted :
  let o := svd_dense qi_leb 2 eye (vecl [qz 1; qz 2]) eye in sk o = 2%nat.
Proof. exact svd_dense_k_ignored_refuted. Qed.
Print Assumptions C16_svd_dense_k_ignored_refuted.
Theorem C16_svd_diag_signed_repaired :
  let o := svd_diag_signed [0%nat; 1%nat] (vecl [qz 1; qz 2]) (vecl [qz (-1); qz 1]) in
  qi_eqb (sS o 0%nat) (qz 1) = true /\ qi_eqb (sU o 0%nat 0%nat) (qz (-1)) = true /\
  feqb 2 2 (fun i j => sum 2 (fun l => qimul (qimul (sU o i l) (sS o l)) (qiconj (sV o j l)))) (dg (vecl [qz (-1); qz 2])) = true.
Proof. exact svd_diag_signed_repaired. Qed.
Print Assumptions C16_svd_diag_signed_repaired.
Theorem C16_svd_dense_k_repaired :
  exists o, svd_dense_k qi_leb 2 eye (vecl [qz 1; qz 2]) eye 1 LM = Some o /\ sk o = 1%nat /\ qi_eqb (sS o 0%nat) (qz 2) = true.
Proof. exact svd_dense_k_repaired. Qed.
Print Assumptions C16_svd_dense_k_repaired.
Theorem C16_pinv_cg_jitter_refuted :
  let A : fm (R:=qi) := fun _ _ => qz 1000 in let Minv : fm (R:=qi) := fun _ _ => qic 1 1000000 0 1 in
  qi_eqb (mmul 1 (mmul 1 A (pinv_cg 1 1 A Minv (qic 1 1000 0 1))) A 0%nat 0%nat) (A 0%nat 0%nat) = false /\
  qi_eqb (mmul 1 (mmul 1 A (pinv_cg 1 1 A Minv (qz 0))) A 0%nat 0%nat) (A 0%nat 0%nat) = true.
Proof. exact pinv_cg_jitter_refuted. Qed.
Print Assumptions C16_pinv_cg_jitter_refuted.
Example C16_example_perm : feqb 3 3 (mmul 3 (fun i j => delta (nth i [2;0;1]%nat 0%nat) j) (pinv_perm (inv_perm 3 [2;0;1]%nat))) eye = true.
Proof. exact pinv_perm_example. Qed.
Print Assumptions C16_example_perm.
