(* C06 - execution of the inv model at the Gaussian rationals and in-Coq comparison with results observed on the
   implementation (Tier Q: the model's exact value versus the implementation's floats, given as exact rationals). *)
From Coq Require Import ZArith QArith Qcanon List Bool Arith.
From Core Require Import Base Kron Op Algebra FieldBase C06_Inv.
Import ListNotations.
Notation qop := (op (R:=qi)).
Definition QM := list (list qi).
Definition qz (a b : Z) : qi := (Q2Qc (a # 1), Q2Qc (b # 1)).
Definition qnvec (l : list nat) : nat -> nat := fun i => nth i l 0%nat.
Definition qfm (l : QM) : fm (R:=qi) := fun i j => nth j (nth i l []) qi0.

(* |a - b|^2 <= tol^2 * scale2 *)
Definition qc_leb (x y : Qc) : bool := Qle_bool (this x) (this y).
Definition qdist2 (a b : qi) : Qc := qinorm2 (qisub a b).
Definition qmax (x y : Qc) : Qc := if qc_leb x y then y else x.
Definition scale2 (m n : nat) (A : fm (R:=qi)) : Qc :=
  fold_left (fun acc i => fold_left (fun acc j => qmax acc (qinorm2 (A i j))) (seq 0 n) acc) (seq 0 m) (Q2Qc 1).
(* entry-wise mixed tolerance:  |a_ij - b_ij|^2 <= rel2 * |a_ij|^2 + abs2 * max(1, max |a|^2)  (a = the model's exact value).
   The relative part keeps small entries of widely graded data visible; the absolute part (a multiple of the rounding unit of the
   implementation's dtype times the size of the result) absorbs cancellation in dense factorisations. *)
Definition close_mn (rel2 abs2 : Qc) (a : arr (R:=qi)) (m n : nat) (l : QM) : bool :=
  Nat.eqb (nr a) m && Nat.eqb (nc a) n &&
  (let s := (abs2 * scale2 m n (dat a))%Qc in
   forallb (fun i => forallb (fun j => qc_leb (qdist2 (dat a i j) (nth j (nth i l []) qi0)) (rel2 * qinorm2 (dat a i j) + s)%Qc) (seq 0 n)) (seq 0 m)).

(* oracle tables: the matrices handed to LAPACK during the call and what it returned *)
Definition mat_eqb (n : nat) (A : fm (R:=qi)) (l : QM) : bool :=
  Nat.eqb (length l) n && forallb (fun i => forallb (fun j => qi_eqb (A i j) (nth j (nth i l []) qi0)) (seq 0 n)) (seq 0 n).
Definition lu_tab (tab : list (QM * (list nat * QM * QM))) (n : nat) (A : fm (R:=qi)) : (nat -> nat) * fm (R:=qi) * fm (R:=qi) :=
  match find (fun ent => mat_eqb n A (fst ent)) tab with
  | Some (_, (p, L, U)) => (qnvec p, qfm L, qfm U)
  | None => (fun i => i, fun _ _ => qi0, fun _ _ => qi0)
  end.
Definition chol_tab (tab : list (QM * QM)) (n : nat) (A : fm (R:=qi)) : fm (R:=qi) :=
  match find (fun ent => mat_eqb n A (fst ent)) tab with Some (_, L) => qfm L | None => fun _ _ => qi0 end.
Definition no_iter : itag -> qop -> fm (R:=qi) := fun _ _ _ _ => qi0.

(* class structure of the returned operator *)
Inductive rty := TOp (k : nat) | TTriInv | TIterCG | TIterGMRES | TProd (l : list rty) | TKron (l : list rty) | TBDiag (l : list rty).
Definition opcode (e : qop) : nat :=
  match e with
  | Dense _ => 0 | Diag _ _ => 1 | Ident _ => 2 | Scal _ _ => 3 | Sum _ => 4 | Prod _ => 5 | Kron _ => 6 | BDiag _ => 7
  | Transp _ => 8 | Adj _ => 9 | Gen _ => 10 | Perm _ _ => 11 | Tridiag _ _ _ _ => 12 | House _ _ _ => 13 | Sparse _ _ _ => 14
  | KronSum _ => 15 | Sliced _ _ _ => 16 | ConcatV _ => 17 end%nat.
Fixpoint otype (e : qop) : rty :=
  match e with
  | Prod ms => TProd (map otype ms)
  | Kron ms => TKron (map otype ms)
  | BDiag ms => TBDiag (map (fun mc => otype (fst mc)) ms)
  | _ => TOp (opcode e)
  end.
Fixpoint rtype (r : iop (R:=qi)) : rty :=
  match r with
  | IOp e => otype e
  | ITri _ _ _ => TTriInv
  | IIter ICG _ => TIterCG | IIter IGMRES _ => TIterGMRES
  | IProd ms => TProd (map rtype ms)
  | IKron ms => TKron (map rtype ms)
  | IBDiag ms => TBDiag (map (fun mc => rtype (fst mc)) ms)
  end.
Fixpoint rty_eqb (a b : rty) {struct a} : bool :=
  let leq := fix leq (l1 l2 : list rty) {struct l1} : bool :=
    match l1, l2 with [], [] => true | x :: l1', y :: l2' => rty_eqb x y && leq l1' l2' | _, _ => false end in
  match a, b with
  | TOp j, TOp k => Nat.eqb j k
  | TTriInv, TTriInv | TIterCG, TIterCG | TIterGMRES, TIterGMRES => true
  | TProd l1, TProd l2 | TKron l1, TKron l2 | TBDiag l1, TBDiag l2 => leq l1 l2
  | _, _ => false
  end.
Definition ierr_code (k : ierr) : nat := match k with EAmbig => 1 | EAssert => 2 | ENotFound => 3 | ENonSquare => 4 end%nat.

Record case := {
  ce : qop; ca : atree; calg : alg; cn : nat; ck : nat;
  clu : list (QM * (list nat * QM * QM)); cchol : list (QM * QM);
  cnum : bool;           (* compare values (false: an oracle result has no exact rational form, e.g. a Cholesky factor with irrational entries) *)
  cfwd : bool;           (* probed value of the flag inv_psd_alg_forwarded_to_factors *)
  cflag : bool;          (* probed value of the flag inv_gmres_ambiguous *)
  cerr : nat;            (* 0 = the implementation returned; otherwise the code of the exception class *)
  crty : rty;
  cB : QM; cBL : QM;     (* right operand n x k, left operand k x n (exact) *)
  cdense : QM; cres : QM; cresl : QM;  (* inv(A,alg).to_dense(), inv(A,alg) @ B, BL @ inv(A,alg): the implementation's floats *)
  ctol2 : Qc; cabs2 : Qc }.   (* squared relative / absolute tolerances *)
Definition qinv (c : case) : ires (R:=qi) := inv (cflag c) (cfwd c) (lu_tab (clu c)) (chol_tab (cchol c)) (calg c) (ce c) (ca c).
Definition qto_op (r : iop (R:=qi)) : qop := to_op (tsolve (R:=qi)) no_iter r.
Definition check (c : case) : bool :=
  let n := cn c in
  wf (ce c) && Nat.eqb (fst (shape (ce c))) n && Nat.eqb (snd (shape (ce c))) n &&
  match qinv c with
  | IErr k => Nat.eqb (ierr_code k) (cerr c)
  | IOk r =>
      Nat.eqb (cerr c) 0 && rty_eqb (rtype r) (crty c) &&
      (let o := qto_op r in
       wf o && Nat.eqb (fst (shape o)) n && Nat.eqb (snd (shape o)) n &&
       (if direct r && cnum c then
          close_mn (ctol2 c) (cabs2 c) (matmat o (mkarr n n eye)) n n (cdense c)
          && close_mn (ctol2 c) (cabs2 c) (matmat o (qof_list_mn n (ck c) (cB c))) n (ck c) (cres c)
          && close_mn (ctol2 c) (cabs2 c) (rmatmat o (qof_list_mn (ck c) n (cBL c))) (ck c) n (cresl c)
        else true))
  end.
Fixpoint failing {A} (chk : A -> bool) (i : nat) (cs : list A) : list nat :=
  match cs with [] => [] | c :: r => if chk c then failing chk (S i) r else i :: failing chk (S i) r end.

