(* in-Coq comparison of the to_dense() model with the implementation's A.to_dense() *)
From Coq Require Import ZArith List Bool Arith.
From Core Require Import Base Kron Op ZIInst CheckZI ToDense.
Definition check_td (c : case) : bool :=
  check_fwd c && arr_eqb_mn (to_dense (ce c)) (cm c) (cn c) (cdense c).
