(* C20: witness theorems (by computation on the Gaussian-integer instance) for the clauses the faithful model of the
   pinned tree violates, one per recorded flag, and examples showing that the hypotheses of the positive theorems
   are satisfiable on non-trivial operator trees. *)
From Coq Require Import ZArith Arith Lia List Bool.
From Core Require Import Base Kron Op OpProofs ZIInst PySlice C20_GetItem C20_Proofs.
Import ListNotations.
Definition zop := op (R:=zi).
Definition z (a : Z) : zi := (a, 0%Z).
Definition D12 : zop := Dense (of_list_mn 1 2 [[z 1; z 2]]).
Definition D22 : zop := Dense (of_list_mn 2 2 [[z 1; z 2]; [z 3; z 4]]).
Definition D33 : zop := Dense (of_list_mn 3 3 [[z 0; z 1; z 2]; [z 3; z 4; z 5]; [z 6; z 7; z 8]]).
Definition K4 : zop := Kron [D22; Dense (of_list_mn 2 2 [[z 1; z 1]; [z 0; z 1]])].
Definition numpy_accepts (e : zop) (q : ix) : Prop := exists s, spec_index (den e) (fst (shape e)) (snd (shape e)) q = Some s.

(* getitem_row_nonsquare: A[0] on a 1 x 2 operator: numpy returns the row, the pinned code asserts *)
Theorem getitem_row_nonsquare_refuted :
  exists (e : zop) q, wf e = true /\ listed q = true /\ numpy_accepts e q /\ getitem pinned e q = Err EAssert
                      /\ getitem repaired e q = Vec [z 1; z 2].
Proof. exists D12, (One (IInt 0)). repeat split; try (vm_compute; reflexivity). eexists. vm_compute. reflexivity. Qed.
Theorem getitem_row_slice_nonsquare_refuted :
  exists (e : zop) q, wf e = true /\ listed q = true /\ numpy_accepts e q /\ getitem pinned e q = Err EAssert.
Proof. exists D12, (Two (IInt 0) (ISlice (mkslice None None (Some (-1)%Z)))). repeat split; try (vm_compute; reflexivity). eexists. vm_compute. reflexivity. Qed.

(* getitem_list_uses_dotA: AttributeError on a Kronecker product; the transposed entry on a Transpose; the parent's entry on a slice *)
Theorem getitem_list_dotA_attr_refuted :
  exists (e : zop) q, wf e = true /\ listed q = true /\ numpy_accepts e q /\ getitem pinned e q = Err EAttr.
Proof. exists K4, (Two (IList [0; 1]%Z) (IList [1; 2]%Z)). repeat split; try (vm_compute; reflexivity). eexists. vm_compute. reflexivity. Qed.
Theorem getitem_list_dotA_transposed_refuted :
  exists (e : zop) q, wf e = true /\ listed q = true /\ getitem pinned e q = Vec [z 2]
     /\ spec_index (den e) (fst (shape e)) (snd (shape e)) q = Some (SVec [z 3]) /\ getitem repaired e q = Vec [z 3].
Proof. exists (Transp D22), (Two (IList [0]%Z) (IList [1]%Z)). repeat split; vm_compute; reflexivity. Qed.
Theorem getitem_list_dotA_sliced_parent_refuted :
  exists (e t : zop) q, wf e = true /\ getitem pinned e (Two (ISlice (mkslice (Some 1%Z) None None)) (ISlice (mkslice (Some 1%Z) None None))) = SubOp t
     /\ getitem pinned t q = Vec [z 0] /\ spec_index (den t) (fst (shape t)) (snd (shape t)) q = Some (SVec [z 4]).
Proof. exists D33, (Sliced D33 [1; 2]%nat [1; 2]%nat), (Two (IList [0]%Z) (IList [0]%Z)). repeat split; vm_compute; reflexivity. Qed.

(* sliced_index_array_cpu *)
Theorem sliced_index_array_cpu_refuted :
  exists (e : zop) q, wf e = true /\ listed q = true /\ numpy_accepts e q /\ getitem pinned e q = Err EAttr.
Proof. exists D33, (One (IArr [0; 2]%Z)). repeat split; try (vm_compute; reflexivity). eexists. vm_compute. reflexivity. Qed.

(* getitem_empty_lists *)
Theorem getitem_empty_lists_refuted :
  exists (e : zop) q, wf e = true /\ listed q = true /\ spec_index (den e) (fst (shape e)) (snd (shape e)) q = Some (SVec [])
                      /\ getitem pinned e q = Err EValue.
Proof. exists D33, (Two (IList []) (IList [])). repeat split; vm_compute; reflexivity. Qed.

(* getitem_list_zip_truncates: numpy broadcasts A[[0,1],[1]] to two entries; zip keeps one *)
Definition zipfl : flags := mkflags false false false false true false.
Theorem getitem_list_zip_refuted :
  exists (e : zop) q, wf e = true /\ listed q = true /\ getitem zipfl e q = Vec [z 1]
     /\ spec_index (den e) (fst (shape e)) (snd (shape e)) q = Some (SVec [z 1; z 4]) /\ getitem repaired e q = Vec [z 1; z 4].
Proof. exists D33, (Two (IList [0; 1]%Z) (IList [1]%Z)). repeat split; vm_compute; reflexivity. Qed.

(* a single python list of two integers falls into `case b, int(j)`: A[[0,1]] is the scalar A[0,1], numpy selects two rows *)
Theorem getitem_single_list_refuted :
  exists (e : zop) q, wf e = true /\ getitem repaired e q = Scalar (z 1)
     /\ spec_index (den e) (fst (shape e)) (snd (shape e)) q = Some (SMat [0; 1]%nat [0; 1; 2]%nat).
Proof. exists D33, (One (IList [0; 1]%Z)). repeat split; vm_compute; reflexivity. Qed.

(* sliced_duplicate_indices: a repeated column index. den says M[:, [1,1]], the scatter keeps the last write only *)
Theorem sliced_duplicate_indices_refuted :
  exists (e : zop) rs cs (X : arr (R:=zi)), wf e = true /\ getitem repaired e (Two (ISlice full) (IArr [1; 1]%Z)) = SubOp (Sliced e rs cs)
     /\ nr X = length cs /\ dat (matmat (Sliced e rs cs) X) 0%nat 0%nat = z 10
     /\ mmul (length cs) (den (Sliced e rs cs)) (dat X) 0%nat 0%nat = z 11.
Proof. exists D33, [0; 1; 2]%nat, [1; 1]%nat, (of_list_mn 2 1 [[z 1]; [z 10]]). repeat split; vm_compute; reflexivity. Qed.

(* `self.T is self` on an operator that is NOT symmetric (a wrongly inferred SelfAdjoint annotation, e.g. on the slice
   A[::-1, :] of a symmetric A): A[k] and A[k, a:b] return column k; entries, columns and products stay right *)
Definition tself : flags := mkflags false false false false false true.
Theorem getitem_T_self_refuted :
  exists (e : zop), wf e = true /\ getitem tself e (One (IInt 0)) = Vec [z 1; z 3]
     /\ spec_index (den e) (fst (shape e)) (snd (shape e)) (One (IInt 0)) = Some (SVec [z 1; z 2])
     /\ getitem repaired e (One (IInt 0)) = Vec [z 1; z 2]
     /\ getitem tself e (Two (IInt 0) (IInt 1)) = Scalar (z 2) /\ getitem tself e (Two (ISlice full) (IInt 1)) = Vec [z 2; z 4].
Proof. exists D22. repeat split; vm_compute; reflexivity. Qed.
Theorem sym_ok_example : sym_ok tself (Sum [D22; Transp D22] : zop).
Proof. right. split; [reflexivity|]. intros [|[|i]] [|[|j]] Hi Hj; try reflexivity; cbn in Hi, Hj; lia. Qed.

(* hypotheses of getitem_den / getitem_total / slices_acts are satisfiable on a composite, non-square tree *)
Definition Ex : zop := Prod [Kron [D12; Dense (of_list_mn 2 1 [[z 1]; [z 2]])]; Transp (Sum [Dense (of_list_mn 3 2 [[z 1; z 0]; [z 2; z 1]; [z 0; (0%Z, 1%Z)]]); Dense (of_list_mn 3 2 [[z 1; z 1]; [z 1; z 1]; [z 1; z 1]])])].
Example ex_shape : wf Ex = true /\ shape Ex = (2, 3)%nat.
Proof. split; vm_compute; reflexivity. Qed.
Example ex_strided : exists t, getitem pinned Ex (Two (ISlice (mkslice None None (Some (-1)%Z))) (ISlice (mkslice (Some (-1)%Z) None (Some (-2)%Z)))) = SubOp t
   /\ shape t = (2, 2)%nat /\ wf t = true.
Proof. eexists. split; [vm_compute; reflexivity|]. split; vm_compute; reflexivity. Qed.
Example ex_entry : getitem pinned Ex (Two (IInt (-1)) (IInt (-3))) = Scalar (z 8).
Proof. vm_compute. reflexivity. Qed.
