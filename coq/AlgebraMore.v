(* Derived combinators and concrete refutation witnesses (Gaussian integers) for C02 / C03. *)
From Coq Require Import ZArith Arith Lia List Ring PeanoNat Bool.
From Core Require Import Base Kron Op OpProofs Algebra AlgebraProofs ZIInst.
Import ListNotations.
Section AM.
Context {R : Type} {RR : Ring R} {CR : CRing R}.
Add Ring Rring : Rth.
Open Scope R_scope.
Notation op := (op (R:=R)).
Theorem sub_sound (a b c : op) : wf a = true -> wf b = true -> sub a b = Ok c ->
  wf c = true /\ shape c = shape a /\
  feq (fst (shape a)) (snd (shape a)) (den c) (fun i j => den a i j - den b i j).
Proof. intros Wa Wb H. unfold sub in H. destruct (neg_sound b Wb) as (Wn & Sn & Dn).
  assert (E : shape a = shape b).
  { unfold add in H. destruct (shp_eqb (shape a) (shape (neg b))) eqn:E; [|discriminate]. apply shp_eqb_eq in E. congruence. }
  destruct (add_sound a (neg b) c Wa Wn H) as (Wc & Sc & Dc). repeat split; auto.
  intros i j Hi Hj. rewrite Dc. rewrite E in Hi, Hj. rewrite (Dn i j Hi Hj). ring. Qed.
Theorem sub_rejects (a b : op) : wf b = true -> shape a <> shape b -> sub a b = Err EShape.
Proof. intros Wb H. unfold sub. apply add_rejects. destruct (neg_sound b Wb) as (_ & Sn & _). congruence. Qed.
(* transposing / taking the adjoint twice represents A again *)
Corollary transpose_twice saf (e : op) : sound_saf saf -> wf e = true ->
  let r := transpose (saf (transpose (saf e) e)) (transpose (saf e) e) in
  wf r = true /\ shape r = shape e /\ feq (fst (shape e)) (snd (shape e)) (den r) (den e).
Proof. intros Hs We. destruct (tower_sound saf [TT; TT] Hs e We) as (W & S & D). cbn [fold_left step_tw step_spec] in *.
  destruct (shape e) as [m n] eqn:Es. cbn [fst snd] in *. repeat split; auto. rewrite S in D. cbn [fst snd] in D. exact D. Qed.
Corollary adjoint_twice saf (e : op) : sound_saf saf -> wf e = true ->
  let r := adjoint (saf (adjoint (saf e) e)) (adjoint (saf e) e) in
  wf r = true /\ shape r = shape e /\ feq (fst (shape e)) (snd (shape e)) (den r) (den e).
Proof. intros Hs We. destruct (tower_sound saf [TH; TH] Hs e We) as (W & S & D). cbn [fold_left step_tw step_spec] in *.
  destruct (shape e) as [m n] eqn:Es. cbn [fst snd] in *. repeat split; auto. rewrite S in D. cbn [fst snd] in D.
  intros i j Hi Hj. rewrite (D i j Hi Hj). cbv beta. apply conj_invol. Qed.
End AM.

(* ---- refutation witnesses on the current tree's behaviour (instance: Gaussian integers) ---- *)
Definition Hwit : arr (R:=zi) := of_list_mn 2 2 [[(2,0)%Z; (1,1)%Z]; [(1,-1)%Z; (3,0)%Z]].
(* a complex Hermitian operator truthfully declared self-adjoint (kind without a type-specific transpose rule):
   the self-adjoint shortcut returns the operator itself, which is not its transpose *)
Theorem sa_transpose_refuted :
  let e := Gen Hwit in
  wf e = true /\ hermitian e /\ ~ feq 2 2 (den (transpose true e)) (fun i j => den e j i).
Proof. cbv zeta. split; [reflexivity|]. split.
  - split; [reflexivity|]. intros i j Hi Hj. cbn in Hi, Hj.
    destruct i as [|[|i]]; destruct j as [|[|j]]; try lia; reflexivity.
  - intros H. specialize (H 0%nat 1%nat ltac:(lia) ltac:(lia)). cbv in H. discriminate. Qed.
(* c / A is computed as A * (1/c): for A = [2], c = 1 the result times A is not c * I *)
Theorem rtruediv_refuted :
  let a : Op.op (R:=zi) := Scal (2,0)%Z 1 in
  let q := div a (1,0)%Z in            (* what `1 / A` returns *)
  zimul (den q 0%nat 0%nat) (den a 0%nat 0%nat) <> (1,0)%Z.
Proof. cbv. discriminate. Qed.
