(* C15 - execution of the Arnoldi model on binary64 complex numbers (instance fops of C14_Float.v) and the in-Coq
   comparison with the results of /repo's cola (Tier F). *)
From Coq Require Import List Arith Bool PrimFloat.
From Core Require Import C14_Model C14_Float C15_Model.
Import ListNotations.
Open Scope float_scope.

Record acase := mk_acase {
  a_n : nat; a_A : list cvec; a_rfix : bool; a_cfix : bool; a_afix : bool; a_vs : list cvec; a_mi : nat; a_tol : float;
  a_out : list (list cvec * list cvec) }.      (* per batch element: columns of Q (max_iters+1), columns of H (max_iters, each max_iters+1 long) *)

Definition subd (s : @ast cf cvec) (j : nat) : float := fst (Hent (fops 0) (aH s) (S j) j).     (* H[j+1, j] *)
Definition hscale (s : @ast cf cvec) : float := fold_left (fun acc c => fmax acc (vmaxabs c)) (aH s) 0.
(* the scale the entries of H are compared relative to (operators of any overall scale; 1 for an all-zero H) *)
Definition hscale1 (s : @ast cf cvec) : float := if hscale s =? 0 then 1 else hscale s.

(* stopping decisions at idx = 1 .. min(steps, cap-1): norm = H[idx, idx-1] against tol * H[1,0] *)
Definition a_near_tie (rfix : bool) (tol : float) (cap steps : nat) (ss : list (@ast cf cvec)) : bool :=
  existsb (fun s =>
    existsb (fun j =>
      let x := subd s (j - 1) in
      let y := tol * fst (aref (fops 0) rfix s) in
      PrimFloat.abs (x - y) <? tie_tol * fmax (PrimFloat.abs x) (PrimFloat.abs y))
    (seq 1 (Nat.min steps (cap - 1)))) ss.
(* repaired normalisation: the decision  norm > tol/2  of a step taken *)
(* the breakdown threshold of the run: tol/2, or tol/2 * ||H[:,0]|| for the relative variant (column 0 of H never changes) *)
Definition fthr (afix : bool) (tol : float) (s : @ast cf cvec) : float := fst (athr (fops 0) afix (tol, 0) (aH s)).
Definition a_clip_tie (cfix afix : bool) (tol : float) (steps : nat) (ss : list (@ast cf cvec)) : bool :=
  cfix && existsb (fun s => existsb (fun j =>
      let x := subd s j in let y := fthr afix tol s in
      PrimFloat.abs (x - y) <? tie_tol * fmax (PrimFloat.abs x) (PrimFloat.abs y)) (seq 0 steps)) ss.
(* a remainder below 1e-2 of the scale of H was normalised into a column that later steps used *)
Definition a_amplified (steps : nat) (ss : list (@ast cf cvec)) : bool :=
  existsb (fun s => existsb (fun j => subd s j <? amp_tol * hscale s) (seq 0 (steps - 1))) ss.
(* is the remainder of the last step at rounding level?  (then column `steps` is not one of the orthonormal columns) *)
Definition last_inactive (steps : nat) (s : @ast cf cvec) : bool :=
  match steps with 0 => false | S j => subd s j <? amp_tol * hscale s end.
(* ... and is column `steps` the NORMALISATION of such a remainder (a unit vector in a direction decided by rounding noise)? then it
   is not compared.  When the model set it to the zero vector (repaired normalisation: remainder norm <= tol/2) it IS compared:
   the implementation must return a zero column there, not garbage or NaN - provided the decision is robust, i.e. the remainder
   (rounding noise, which differs by O(1) factors between two executions) is at least a factor 1000 below tol/2, or exactly 0 *)
Definition last_is_noise (th : float) (steps : nat) (s : @ast cf cvec) : bool :=
  last_inactive steps s
  && negb ((vmaxabs (nth steps (aQ s) []) =? 0)
           && match steps with 0 => true | S j => subd s j * 0x1.f4p+9 <=? th end).   (* robustly below the threshold th: by a factor 1000 *)

(* loss of orthogonality of the model's own active columns: single-pass modified Gram-Schmidt loses orthogonality in
   proportion to the conditioning of the Krylov sequence; two binary64 executions that differ by rounding-level
   perturbations then differ by as much, so beyond 1e-12 the case is not compared *)
Definition orth_tol : float := 0x1.19799812dea11p-40.   (* 1e-12 *)
Definition orth_loss (steps : nat) (s : @ast cf cvec) : float :=
  let k := if last_inactive steps s then steps else S steps in
  let qs := firstn k (aQ s) in
  fold_left (fun acc qa =>
    fold_left (fun acc2 qb =>
      let d := fvdot (snd qa) (snd qb) in
      let e := if Nat.eqb (fst qa) (fst qb) then fsub d f1 else d in
      fmax acc2 (cabs1 e)) (combine (seq 0 k) qs) acc) (combine (seq 0 k) qs) 0.
Definition a_illcond (steps : nat) (ss : list (@ast cf cvec)) : bool :=
  existsb (fun s => orth_tol <? orth_loss steps s) ss.

Definition drop_col {T} (k : nat) (l : list T) : list T := firstn k l ++ skipn (S k) l.

Definition a_close (th : float) (steps : nat) (s : @ast cf cvec) (q : list cvec * list cvec) : bool :=
  let '(Q, H) := q in
  let scale := hscale1 s in
  let '(Qm, Qi) := if last_is_noise th steps s then (drop_col steps (aQ s), drop_col steps Q) else (aQ s, Q) in
  (mdiff Qm Qi <=? rtol) && (mdiff (aH s) H <=? rtol * scale) && Nat.eqb (length (aQ s)) (length Q).

(* 0 agree | 1 excused: disagreement with a stopping decision within 1e-6 of flipping | 2 not compared: noise amplified | 4 values differ *)
Definition acheck (c : acase) : nat :=
  let o := fops (a_n c) in
  let cap := Nat.min (a_mi c) (a_n c) in
  let r := arnoldi_batch o (fmv (a_A c)) (a_rfix c) (a_cfix c) (a_afix c) (a_n c) (a_vs c) (a_mi c) (a_tol c, 0) in
  let steps := fst r in
  if a_amplified steps (snd r) || a_illcond steps (snd r) then 2%nat
  else if Nat.eqb (length (snd r)) (length (a_out c)) && forallb (fun p => a_close (fthr (a_afix c) (a_tol c) (fst p)) steps (fst p) (snd p)) (combine (snd r) (a_out c)) then 0%nat
  else if a_near_tie (a_rfix c) (a_tol c) cap steps (snd r) || a_clip_tie (a_cfix c) (a_afix c) (a_tol c) steps (snd r) then 1%nat
  else 4%nat.

Fixpoint acodes (k : nat) (cs : list acase) : list (nat * nat) :=
  match cs with
  | [] => []
  | c :: t => let r := acheck c in if Nat.eqb r 0 then acodes (S k) t else (k, r) :: acodes (S k) t
  end.

Definition adiff (c : acase) : float :=
  let o := fops (a_n c) in
  let r := arnoldi_batch o (fmv (a_A c)) (a_rfix c) (a_cfix c) (a_afix c) (a_n c) (a_vs c) (a_mi c) (a_tol c, 0) in
  let steps := fst r in
  fold_left (fun acc p =>
    let s := fst p in let '(Q, H) := snd p in
    let scale := hscale1 s in
    let '(Qm, Qi) := if last_is_noise (fthr (a_afix c) (a_tol c) s) steps s then (drop_col steps (aQ s), drop_col steps Q) else (aQ s, Q) in
    fmax acc (fmax (mdiff Qm Qi) (mdiff (aH s) H / scale))) (combine (snd r) (a_out c)) 0.
Definition amaxdiff_agreeing (cs : list acase) : float :=
  fold_left (fun acc c => if Nat.eqb (acheck c) 0 then fmax acc (adiff c) else acc) cs 0.

(* the case as seen by the repaired variant arnoldi_batch_capped (= arnoldi_batch with max_iters capped at n, C15_Model.v) *)
Definition cap_case (c : acase) : acase := mk_acase (a_n c) (a_A c) (a_rfix c) (a_cfix c) (a_afix c) (a_vs c) (Nat.min (a_mi c) (a_n c)) (a_tol c) (a_out c).

(* comparison without any gate (no near-tie / amplification excuse, every column compared, NaN anywhere = mismatch): for the
   exact-arithmetic stream (small integers / dyadic data, canonical start vectors, permutations), where every quantity up to the
   breakdown is exactly representable and both executions are bit-exact, boundary decisions (norm = tol/2, norm = tol*ref,
   tol = 0 with a remainder that is exactly 0.0) included *)
Definition acheck_plain (c : acase) : nat :=
  let o := fops (a_n c) in
  let r := arnoldi_batch o (fmv (a_A c)) (a_rfix c) (a_cfix c) (a_afix c) (a_n c) (a_vs c) (a_mi c) (a_tol c, 0) in
  if Nat.eqb (length (snd r)) (length (a_out c))
     && forallb (fun p => let '(Q, H) := snd p in
                          (mdiff (aQ (fst p)) Q <=? rtol) && (mdiff (aH (fst p)) H <=? rtol * hscale1 (fst p)))
                (combine (snd r) (a_out c))
  then 0%nat else 4%nat.
Fixpoint acodes_plain (k : nat) (cs : list acase) : list (nat * nat) :=
  match cs with
  | [] => []
  | c :: t => let r := acheck_plain c in if Nat.eqb r 0 then acodes_plain (S k) t else (k, r) :: acodes_plain (S k) t
  end.
