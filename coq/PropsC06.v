(* Property C06: inv / solve return the solution of the linear system on every dispatch path.
   Statements only; the model is coq/C06_Inv.v, the lemmas live in C06_Proofs.v / C06_Struct.v / C06_Thms.v.
   Scalars: any field with an involution (the reals, the complex numbers, the Gaussian rationals the check executes on).
   External behaviour (LAPACK's pivoted LU and Cholesky, the triangular solve, the iterative solvers) = universally
   quantified oracles; their specifications are the hypotheses [tinv_ok] and those collected, per leaf, by [ok]. *)
From Coq Require Import List Arith Bool NArith.
From Core Require Import Base Kron Op OpProofs Algebra AlgebraProofs FieldBase C06_Inv C06_Proofs C06_Struct C06_Thms C06_Tsolve.
Import ListNotations.

(* on every dispatch path - structural rules (Product reversed, Kronecker and BlockDiag factor-wise, Diagonal, ScalarMul, Identity,
   Permutation, Triangular), dense LU and Cholesky paths, the Unitary rule, the lazy CG / GMRES operators, at any nesting depth and
   for every algorithm class incl. both branches of Auto, and for both values of the flags gmres_amb (the pinned GMRES tie) and
   fwd_strict (pinned: the factor-wise rules hand Cholesky/CG to every factor; repaired: to PSD factors only, Auto otherwise) -
   the returned operator is a well-formed operator of the same shape whose
   matrix is a two-sided inverse of the matrix the input represents.  [ok] collects what the leaves must satisfy: non-zero scalars and
   diagonal entries, a genuine permutation, the LAPACK specifications where a factorisation is called, and - only where an iterative
   algorithm is selected - exactness of that solver on the operator it is applied to (properties C12 / C13). *)
Theorem C06_inv_den : forall (R : Type) (RR : Ring R) (CR : CRing R) (FR : Field R)
  (gmres_amb fwd_strict : bool) (lu_o : nat -> fm -> (nat -> nat) * fm * fm) (chol_o : nat -> fm -> fm) (tinv_o : nat -> fm -> bool -> fm) (iter_o : itag -> op -> fm),
  tinv_ok tinv_o -> forall (e : op (R:=R)) (al : alg) (a : atree) (r : iop),
  wf e = true -> is_sq e = true -> ok fwd_strict lu_o chol_o iter_o al e a -> inv gmres_amb fwd_strict lu_o chol_o al e a = IOk r ->
  wf (to_op tinv_o iter_o r) = true /\ shape (to_op tinv_o iter_o r) = shape e /\
  inv2 (fst (shape e)) (den (to_op tinv_o iter_o r)) (den e).
Proof. intros R RR CR FR g fw lu ch ti it TO e al a r. exact (inv_den g fw lu ch ti it TO e al a r). Qed.
Print Assumptions C06_inv_den.

(* the base rules from the oracle specifications (lazy CG / GMRES operator: from exactness of the solver): inv(U) @ inv(L) @ inv(P) for P L U = A, inv(L^H) @ inv(L) for L L^H = A, the adjoint of a unitary operator *)
Theorem C06_dense_paths : forall (R : Type) (RR : Ring R) (CR : CRing R)
  (lu_o : nat -> fm -> (nat -> nat) * fm * fm) (chol_o : nat -> fm -> fm) (tinv_o : nat -> fm -> bool -> fm) (iter_o : itag -> op -> fm)
  (al : alg) (e : op (R:=R)) (a : atree) (r : iop),
  tinv_ok tinv_o -> wf e = true -> is_sq e = true -> base_ok lu_o chol_o iter_o al e a -> base lu_o chol_o al e a = IOk r ->
  good tinv_o iter_o r e.
Proof. intros R RR CR. exact (@base_good R RR CR). Qed.
Print Assumptions C06_dense_paths.

(* inv(A, alg) @ b and solve(A, b, alg): A x = b, for any number of right-hand sides *)
Theorem C06_solve_correct : forall (R : Type) (RR : Ring R) (CR : CRing R) (FR : Field R)
  (gmres_amb fwd_strict : bool) (lu_o : nat -> fm -> (nat -> nat) * fm * fm) (chol_o : nat -> fm -> fm) (tinv_o : nat -> fm -> bool -> fm) (iter_o : itag -> op -> fm),
  tinv_ok tinv_o -> forall (al : alg) (e : op (R:=R)) (a : atree) (X Y : arr),
  wf e = true -> is_sq e = true -> ok fwd_strict lu_o chol_o iter_o al e a -> nr X = fst (shape e) ->
  solve gmres_amb fwd_strict lu_o chol_o tinv_o iter_o al e a X = Some Y ->
  nr Y = fst (shape e) /\ nc Y = nc X /\ feq (fst (shape e)) (nc X) (mmul (fst (shape e)) (den e) (dat Y)) (dat X).
Proof. intros R RR CR FR. exact (@solve_correct R RR CR FR). Qed.
Print Assumptions C06_solve_correct.

(* b @ inv(A, alg) = b A^-1 *)
Theorem C06_inv_left_product : forall (R : Type) (RR : Ring R) (CR : CRing R) (FR : Field R)
  (gmres_amb fwd_strict : bool) (lu_o : nat -> fm -> (nat -> nat) * fm * fm) (chol_o : nat -> fm -> fm) (tinv_o : nat -> fm -> bool -> fm) (iter_o : itag -> op -> fm),
  tinv_ok tinv_o -> forall (al : alg) (e : op (R:=R)) (a : atree) (X Y : arr),
  wf e = true -> is_sq e = true -> ok fwd_strict lu_o chol_o iter_o al e a -> nc X = fst (shape e) ->
  lsolve gmres_amb fwd_strict lu_o chol_o tinv_o iter_o al e a X = Some Y ->
  nr Y = nr X /\ nc Y = fst (shape e) /\ feq (nr X) (fst (shape e)) (mmul (fst (shape e)) (dat Y) (den e)) (dat X).
Proof. intros R RR CR FR. exact (@inv_left_product R RR CR FR). Qed.
Print Assumptions C06_inv_left_product.

(* inv(A, alg).T is the inverse of A^T *)
Theorem C06_inv_transpose : forall (R : Type) (RR : Ring R) (CR : CRing R) (FR : Field R)
  (gmres_amb fwd_strict : bool) (lu_o : nat -> fm -> (nat -> nat) * fm * fm) (chol_o : nat -> fm -> fm) (tinv_o : nat -> fm -> bool -> fm) (iter_o : itag -> op -> fm),
  tinv_ok tinv_o -> forall (al : alg) (e : op (R:=R)) (a : atree) (r : iop) (sa : bool),
  wf e = true -> is_sq e = true -> ok fwd_strict lu_o chol_o iter_o al e a -> inv gmres_amb fwd_strict lu_o chol_o al e a = IOk r ->
  (sa = true -> symmetric (to_op tinv_o iter_o r)) ->
  let t := transpose sa (to_op tinv_o iter_o r) in
  wf t = true /\ shape t = shape e /\ inv2 (fst (shape e)) (den t) (fun i j => den e j i).
Proof. intros R RR CR FR. exact (@inv_transpose R RR CR FR). Qed.
Print Assumptions C06_inv_transpose.

(* inv(Permutation(p)) = Permutation(argsort(p)): argsort of a permutation is its inverse *)
Theorem C06_perm_argsort_inverse : forall (n : nat) (p : nat -> nat), is_perm n p ->
  is_perm n (argsort n p) /\ (forall i, i < n -> p (argsort n p i) = i) /\ (forall i, i < n -> argsort n p (p i) = i).
Proof. exact perm_argsort_inverse. Qed.
Print Assumptions C06_perm_argsort_inverse.

(* the four cases of Auto on both sides of 10^6 entries; the GMRES tie of the pinned tree (flag inv_gmres_ambiguous) *)
Theorem C06_auto_choice_table : forall (R : Type) (RR : Ring R) (CR : CRing R) (FR : Field R)
  (gmres_amb fwd_strict : bool) (lu_o : nat -> fm -> (nat -> nat) * fm * fm) (chol_o : nat -> fm -> fm),
  auto_choice true true = AChol /\ auto_choice true false = ACG /\ auto_choice false true = ALU /\ auto_choice false false = AGMRES
  /\ (forall m n, size_small (m, n) = true <-> (N.of_nat m * N.of_nat n <= 1000000)%N)
  /\ size_small (1000, 1000) = true /\ size_small (1001, 1001) = false
  /\ (forall (e : op (R:=R)) a, generic e a = true -> inv gmres_amb fwd_strict lu_o chol_o AAuto e a = base lu_o chol_o (auto_choice (apsd a) (size_small (shape e))) e a)
  /\ (forall (e : op (R:=R)) a, tied e a = true -> gmres_amb = true -> inv gmres_amb fwd_strict lu_o chol_o AGMRES e a = IErr EAmbig).
Proof. intros R RR CR FR. exact (@auto_choice_table R RR CR FR). Qed.
Print Assumptions C06_auto_choice_table.

(* TriangularInv._rmatmat (a solve with the transposed matrix) denotes the same matrix as the forward solve *)
Theorem C06_triinv_backward_consistent : forall (R : Type) (RR : Ring R) (tinv_o : nat -> fm -> bool -> fm),
  tinv_ok tinv_o -> forall (n : nat) (T : fm (R:=R)) (lo : bool), tri lo n T -> nzdiag n T ->
  feq n n (fun i j => tinv_o n (fun a b => T b a) (negb lo) j i) (tinv_o n T lo).
Proof. intros R RR. exact (@triinv_backward_consistent R RR). Qed.
Print Assumptions C06_triinv_backward_consistent.

(* the triangular solve by substitution (the executable reference the check uses for TriangularInv) meets the oracle specification,
   so [tinv_ok] is satisfiable over every field and, with it, inv_den holds with no hypothesis on the triangular solve *)
Theorem C06_triangular_solve_correct : forall (R : Type) (RR : Ring R) (FR : Field R), tinv_ok (tsolve (R:=R)).
Proof. intros R RR FR. exact (@tsolve_ok R RR FR). Qed.
Print Assumptions C06_triangular_solve_correct.

(* the hypotheses are satisfiable on a non-trivial tree: (Diagonal (x) (3 * Permutation)) over the Gaussian rationals, any oracles *)
Example C06_hypotheses_satisfiable : forall fwd_strict lu_o chol_o iter_o, wf ex_tree = true /\ is_sq ex_tree = true /\ ok fwd_strict lu_o chol_o iter_o AAuto ex_tree adef.
Proof. exact ex_ok. Qed.
Print Assumptions C06_hypotheses_satisfiable.

(* witness of flag inv_psd_alg_forwarded_to_factors: the pinned factor-wise rules reject inv(PSD(Kronecker(PSD(D), D)), Cholesky()) with the
   factor's assertion; the repaired rules return an operator (to which C06_inv_den applies) *)
Theorem C06_forwarding_refuted : forall g lu_o chol_o,
  inv g true lu_o chol_o AChol fw_tree fw_ann = IErr EAssert /\ (exists r, inv g false lu_o chol_o AChol fw_tree fw_ann = IOk r).
Proof. exact fwd_pinned_refuted. Qed.
Print Assumptions C06_forwarding_refuted.
